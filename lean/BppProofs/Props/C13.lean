import BppProofs.Lemmas.Hmm
import BppProofs.Lemmas.HmmCache
import BppProofs.Lemmas.HmmAuto
import BppProofs.Lemmas.HmmLogPost
import BppProofs.Lemmas.HmmMarginal
import BppProofs.Lemmas.HmmBreaks
import BppProofs.Lemmas.HmmSite
import BppProofs.Lemmas.HmmLogMarginal
import BppProofs.Lemmas.HmmFullCache
import BppProofs.Lemmas.HmmFullReal
/-!
# C13 — HMM likelihood algorithms   (src/Bpp/Numeric/Hmm)

Property theorems only; helper lemmas are in `Lemmas/Hmm.lean`.  All statements are about the
model `BppModel/Hmm.lean` read at `ℝ` (exact arithmetic: rounding is not modelled).

A sequence of `T` positions is given as the emissions `e0` of position 0 and the list `sites` of
the positions `1 … T-1`, each tagged with "the chain is restarted here".  The theorems hold for
**every** such tagging; `flags_of_valid_breaks` shows that for break points given as a strictly
increasing vector in `1 … T-1` the code's iterator logic (`Hmm.fwdFlags`, used by `Hmm.mkSites`)
restarts exactly at the break points.
-/
namespace Bpp.C13
open Bpp Bpp.Hmm

/-! ## The specification: sum over all hidden paths -/

/-- The unscaled forward recursion, restarted at the flagged sites, computes the sum over **all**
hidden paths of (π·P)(y₀)·Π transitions·Π emissions, for every number of states, every length and
every placement of restarts.  (No sign hypothesis is needed.) -/
theorem forward_is_path_sum (p : Params ℝ) (e0 : Emis ℝ) (sites : List (Site ℝ)) :
    fwdU p e0 sites = pathSum p e0 sites :=
  fwdU_eq_pathSum p e0 sites

/-- The code starts (and restarts) the chain with one transition from the equilibrium vector,
`Σ_k π_k·P(k,y)`.  When `π` is a stationary distribution of `P` this is `π_y`: the chain is started
from its stationary distribution, as the property says. -/
theorem init_stationary (p : Params ℝ) (hst : ∀ y, y < p.n → ∑ k ∈ Finset.range p.n, p.pi k * p.P k y = p.pi y)
    (y : Nat) (hy : y < p.n) : initW p y = p.pi y := by
  rw [initW_eq, ← hst y hy]; apply Finset.sum_congr rfl; intro k _; ring

/-- break points given as a strictly increasing vector in `1 … T-1`: the forward iterator logic of
the three classes restarts the chain exactly at the break points -/
theorem flags_of_valid_breaks (es : List (Emis ℝ)) (bps : List Nat) (hv : ValidBreaks (es.length + 1) bps) :
    (mkSites es bps).map (·.1) = (List.range es.length).map (fun k => decide (k + 1 ∈ bps)) := by
  unfold mkSites
  rw [fwdFlags_eq (es.length + 1) es.length 1 bps (by omega) hv.1 hv.2]
  rw [List.map_fst_zip (by simp)]
  apply List.map_congr_left; intro k _; rw [Nat.add_comm]

/-! ## Rescaled class -/

/-- every scale factor is ≥ 0 and their product is the path sum — including when some scale is 0 -/
theorem rescaled_scales_prod (p : Params ℝ) (hp : NonNegP p) (e0 : Emis ℝ) (he0 : NonNegE e0)
    (sites : List (Site ℝ)) (hs : NonNegS sites) :
    (rescForward p e0 sites).scales.prod = pathSum p e0 sites ∧ ∀ c ∈ (rescForward p e0 sites).scales, 0 ≤ c := by
  refine ⟨by rw [scales_prod_eq_fwdU p hp e0 he0 sites hs, fwdU_eq_pathSum], ?_⟩
  intro c hc
  unfold rescForward at hc
  simp only [List.mem_map] at hc
  obtain ⟨x, hx, rfl⟩ := hc
  have := rescLoop_scales_nonneg p hp ((true, e0) :: sites)
    (by intro s hs'; rcases List.mem_cons.mp hs' with rfl | h; exact he0; exact hs s h) (fun _ => 0) (fun _ _ => le_refl _)
  have hnil : rescLoop p ((true, e0) :: sites) [] = rescLoop p ((true, e0) :: sites) (vec p.n (fun _ => (0:ℝ))) := by
    simp only [rescLoop, rescTmp_true]
  rw [hnil] at hx
  exact this x hx

/-- `exp (logLik_) = Σ over all hidden paths`, when every scale factor is positive -/
theorem rescaled_eq (p : Params ℝ) (hp : NonNegP p) (e0 : Emis ℝ) (he0 : NonNegE e0)
    (sites : List (Site ℝ)) (hs : NonNegS sites) (hpos : ∀ c ∈ (rescForward p e0 sites).scales, 0 < c) :
    Real.exp (rescForward p e0 sites).logLik = pathSum p e0 sites := by
  rw [rescForward_logLik, exp_sum_log _ hpos]
  exact (rescaled_scales_prod p hp e0 he0 sites hs).1

/-- the zero-scale case stated outright: some scale factor is 0 exactly when the data have
probability 0 (the code then sums a `log 0 = -inf`; in `ℝ` there is no such value, so the statement
is about the scale factors themselves) -/
theorem rescaled_zero_scale (p : Params ℝ) (hp : NonNegP p) (e0 : Emis ℝ) (he0 : NonNegE e0)
    (sites : List (Site ℝ)) (hs : NonNegS sites) :
    (∃ c ∈ (rescForward p e0 sites).scales, c = 0) ↔ pathSum p e0 sites = 0 := by
  rw [← (rescaled_scales_prod p hp e0 he0 sites hs).1, List.prod_eq_zero_iff]
  constructor
  · rintro ⟨c, hc, rfl⟩; exact hc
  · intro h; exact ⟨0, h, rfl⟩

/-- the hypothesis of `rescaled_eq` (and of the posterior theorems) holds whenever all entries are
strictly positive: every scale factor is then positive -/
theorem rescaled_scales_pos (p : Params ℝ) (hn : 0 < p.n) (hp : PosP p) (e0 : Emis ℝ) (he0 : PosE e0)
    (sites : List (Site ℝ)) (hs : PosS sites) : ∀ c ∈ (rescForward p e0 sites).scales, 0 < c :=
  rescForward_scales_pos p hn hp e0 he0 sites hs

/-! ## Low-memory class -/

/-- for **every** chunk size (also larger than the sequence), the low-memory class returns the
log-likelihood of the rescaled class -/
theorem lowmem_eq_rescaled (p : Params ℝ) (hp : NonNegP p) (maxSize : Nat) (e0 : Emis ℝ) (he0 : NonNegE e0)
    (sites : List (Site ℝ)) (hs : NonNegS sites) :
    lowForward p maxSize e0 sites = (rescForward p e0 sites).logLik :=
  lowForward_eq p hp maxSize e0 he0 sites hs

/-! ## Log-sum class -/

/-- for **strictly positive** transition, equilibrium and emission entries the log-sum class returns the logarithm
of the path sum.  Tables with zero entries are *not* covered for this class: `log 0 = −∞` has no counterpart in
the `ℝ` reading of the model (there `Real.log 0 = 0`, so the program text computes something else); on such tables
the class is only judged on the implementation (`path_sum`, `path_sum_zero`, `cross_algo`).  For the rescaled and
low-memory classes zero entries are covered (`rescaled_eq`, `rescaled_zero_scale`, `lowmem_eq_rescaled`). -/
theorem logsum_eq_pos (p : Params ℝ) (hn : 0 < p.n) (hp : PosP p) (e0 : Emis ℝ) (he0 : PosE e0)
    (sites : List (Site ℝ)) (hs : PosS sites) :
    (logForward p e0 sites).ll = Real.log (pathSum p e0 sites) := by
  rw [logForward_ll p hn hp e0 he0 sites hs, fwdU_eq_pathSum]

/-! ## The three algorithms agree -/

/-- for strictly positive tables, every placement of restarts and every chunk size, the three
classes return the same log-likelihood: the logarithm of the sum over all hidden paths -/
theorem algorithms_agree_pos (p : Params ℝ) (hn : 0 < p.n) (hp : PosP p) (maxSize : Nat) (e0 : Emis ℝ) (he0 : PosE e0)
    (sites : List (Site ℝ)) (hs : PosS sites) :
    (rescForward p e0 sites).logLik = Real.log (pathSum p e0 sites)
    ∧ lowForward p maxSize e0 sites = Real.log (pathSum p e0 sites)
    ∧ (logForward p e0 sites).ll = Real.log (pathSum p e0 sites) := by
  have hnn : NonNegS sites := fun s h => (hs s h).nonneg
  have h1 : (rescForward p e0 sites).logLik = Real.log (pathSum p e0 sites) := by
    rw [← rescaled_eq p hp.nonneg e0 he0.nonneg sites hnn (rescaled_scales_pos p hn hp e0 he0 sites hs), Real.log_exp]
  exact ⟨h1, by rw [lowmem_eq_rescaled p hp.nonneg maxSize e0 he0.nonneg sites hnn, h1], logsum_eq_pos p hn hp e0 he0 sites hs⟩

/-! ## Posterior probabilities (rescaled class) -/

/-- For break points in `1 … T-1` (strictly increasing) and data of positive probability, every
row of `getHiddenStatesPosteriorProbabilities` — there is one per position — is a probability
vector over the `n` hidden states: entries ≥ 0, sum = 1. -/
theorem posterior_prob (p : Params ℝ) (hp : NonNegP p) (e0 : Emis ℝ) (he0 : NonNegE e0)
    (es : List (Emis ℝ)) (hes : ∀ e ∈ es, NonNegE e) (bps : List Nat) (hv : ValidBreaks (es.length + 1) bps)
    (hpos : ∀ c ∈ (rescForward p e0 (mkSites es bps)).scales, 0 < c) :
    (rescPosterior p e0 es bps).length = es.length + 1
    ∧ ∀ row ∈ rescPosterior p e0 es bps, (∀ x ∈ row, 0 ≤ x) ∧ row.sum = 1 ∧ row.length = p.n :=
  rescPosterior_prob p hp e0 he0 es hes bps hv hpos

/-- … and the posterior of state `j` at position `i` is the exact path marginal: entry `(i, j)` of
`getHiddenStatesPosteriorProbabilities`, multiplied by the sum over all hidden paths, is the sum
over the hidden paths that are in state `j` at position `i` (`Hmm.pathMarginal`) -/
theorem posterior_is_path_marginal (p : Params ℝ) (hp : NonNegP p) (e0 : Emis ℝ) (he0 : NonNegE e0)
    (es : List (Emis ℝ)) (hes : ∀ e ∈ es, NonNegE e) (bps : List Nat) (hv : ValidBreaks (es.length + 1) bps)
    (hpos : ∀ c ∈ (rescForward p e0 (mkSites es bps)).scales, 0 < c)
    (i : Nat) (hi : i < es.length + 1) (j : Nat) (hj : j < p.n) :
    ∃ row x, (rescPosterior p e0 es bps)[i]? = some row ∧ row[j]? = some x
      ∧ x * pathSum p e0 (mkSites es bps) = pathMarginal p e0 (mkSites es bps) i j :=
  rescPosterior_marginal p hp e0 he0 es hes bps hv hpos i hi j hj

/-- per-position likelihoods are consistent with the posteriors: `getLikelihoodForASite` is the
posterior-weighted mean `Σ_j post(j)·e(j)` of the emissions, hence lies between the smallest and
the largest emission probability of that position -/
theorem site_likelihood_consistent (p : Params ℝ) (hp : NonNegP p) (e0 : Emis ℝ) (he0 : NonNegE e0)
    (es : List (Emis ℝ)) (hes : ∀ e ∈ es, NonNegE e) (bps : List Nat) (hv : ValidBreaks (es.length + 1) bps)
    (hpos : ∀ c ∈ (rescForward p e0 (mkSites es bps)).scales, 0 < c)
    (row : List ℝ) (hrow : row ∈ rescPosterior p e0 es bps) (e : Emis ℝ) (lo hi : ℝ)
    (he : ∀ j, j < p.n → lo ≤ e j ∧ e j ≤ hi) :
    siteLik p row e = ((List.zipWith (fun x y => x * y) row (vec p.n e)).sum) ∧ lo ≤ siteLik p row e ∧ siteLik p row e ≤ hi := by
  obtain ⟨h1, h2, h3⟩ := (posterior_prob p hp e0 he0 es hes bps hv hpos).2 row hrow
  exact ⟨by unfold siteLik dot; rw [sumL_eq_sum], siteLik_bounds p row h3 h1 h2 e lo hi he⟩

/-- log-sum class: for strictly positive tables and valid break points
`getHiddenStatesPosteriorProbabilities` never reads past `partialLogLikelihoods_` (the model's
`none`), returns one row per position, and each row `exp(f + b − partial)` is a probability vector -/
theorem logsum_posterior_prob_pos (p : Params ℝ) (hn : 0 < p.n) (hp : PosP p) (e0 : Emis ℝ) (he0 : PosE e0)
    (es : List (Emis ℝ)) (hes : ∀ e ∈ es, PosE e) (bps : List Nat) (hv : ValidBreaks (es.length + 1) bps)
    (dE d2E : String → Emis ℝ × List (Emis ℝ)) :
    ∃ m, logPosterior { p := p, e0 := e0, es := es, dE := dE, d2E := d2E } bps = some m
      ∧ m.length = es.length + 1
      ∧ ∀ row ∈ m, (∀ x ∈ row, 0 ≤ x) ∧ row.sum = 1 ∧ row.length = p.n :=
  logPosterior_prob p hn hp e0 he0 es hes bps hv dE d2E

/-- … and, as for the rescaled class, the posterior of state `j` at position `i` is the exact path marginal:
entry `(i, j)` of `getHiddenStatesPosteriorProbabilities`, multiplied by the sum over all hidden paths, is the
sum over the hidden paths that are in state `j` at position `i` -/
theorem logsum_posterior_is_path_marginal_pos (p : Params ℝ) (hn : 0 < p.n) (hp : PosP p) (e0 : Emis ℝ) (he0 : PosE e0)
    (es : List (Emis ℝ)) (hes : ∀ e ∈ es, PosE e) (bps : List Nat) (hv : ValidBreaks (es.length + 1) bps)
    (dE d2E : String → Emis ℝ × List (Emis ℝ)) (i : Nat) (hi : i < es.length + 1) (j : Nat) (hj : j < p.n) :
    ∃ m row x, logPosterior { p := p, e0 := e0, es := es, dE := dE, d2E := d2E } bps = some m
      ∧ m[i]? = some row ∧ row[j]? = some x
      ∧ x * pathSum p e0 (mkSites es bps) = pathMarginal p e0 (mkSites es bps) i j :=
  logPosterior_marginal p hn hp e0 he0 es hes bps hv dE d2E i hi j hj

/-! ## Break points: `setBreakPoints` validates its argument (as repaired, abe9279) -/

/-- the vectors accepted by `setBreakPoints` (`Hmm.breaksOk`, the transcription of `checkBreakPoints_`) are
exactly the strictly increasing vectors of positions `1 … T-1` -/
theorem accepted_breaks_valid (T : Nat) (bps : List Nat) : breaksOk T bps = true ↔ ValidBreaks T bps :=
  breaksOk_iff T bps

/-- every other vector is refused by the three classes: the call raises and the object is unchanged -/
theorem invalid_breaks_refused {α : Type} [Scalar α] [HasIsInf α] (bps : List Nat) :
    (∀ o : RescObj α, breaksOk o.tab.T bps = false → o.step (.setBreaks bps) = (o, .exc))
    ∧ (∀ o : LogObj α, breaksOk o.tab.T bps = false → o.step (.setBreaks bps) = (o, .exc))
    ∧ (∀ o : LowObj α, breaksOk o.tab.T bps = false → o.step (.setBreaks bps) = (o, .exc)) :=
  ⟨fun o h => RescObj.setBreaks_refused o bps h, fun o h => LogObj.setBreaks_refused o bps h,
   fun o h => LowObj.setBreaks_refused o bps h⟩

/-- the break points of an object are valid in every history that did not raise (parameter updates keep the
number of positions, which the C++ fixes at construction): rescaled and log-sum classes -/
theorem reachable_breaks_valid {α : Type} [Scalar α] [HasIsInf α] (t : Tables α) (ops : List (Op α))
    (hvar : ∀ op ∈ ops, op ≠ Op.d1 "" ∧ op ≠ Op.d2 "") (hnm : derivNamesOk "" "" ops = true)
    (hlen : SameLength t.T ops) :
    (∀ o : RescObj α, RescObj.build t = some o → (∀ a ∈ o.run ops, a ≠ Ans.exc) → breaksOk t.T (bpsAfter [] ops) = true)
    ∧ ((∀ a ∈ (LogObj.build t).run ops, a ≠ Ans.exc) → breaksOk t.T (bpsAfter [] ops) = true) := by
  constructor
  · intro o hb hne
    obtain ⟨hc, ht, hbp, hd, hd2⟩ := RescObj.build_consistent t o hb
    have := RescObj.reachable_breaks o hc t.T (by rw [ht]) (by rw [hbp]; rfl) ops hne hvar (by rw [hd, hd2]; exact hnm) hlen
    rwa [hbp] at this
  · intro hne
    obtain ⟨hc, ht, hbp, hd, hd2⟩ := LogObj.build_consistent t
    have := LogObj.reachable_breaks _ hc t.T (by rw [ht]) (by rw [hbp]; rfl) ops hne hvar (by rw [hd, hd2]; exact hnm) hlen
    rwa [hbp] at this

/-- hence the posterior theorems hold for **every** vector of break points an object can hold: rescaled class … -/
theorem posterior_prob_accepted (p : Params ℝ) (hp : NonNegP p) (e0 : Emis ℝ) (he0 : NonNegE e0)
    (es : List (Emis ℝ)) (hes : ∀ e ∈ es, NonNegE e) (bps : List Nat) (hacc : breaksOk (es.length + 1) bps = true)
    (hpos : ∀ c ∈ (rescForward p e0 (mkSites es bps)).scales, 0 < c) :
    (rescPosterior p e0 es bps).length = es.length + 1
    ∧ ∀ row ∈ rescPosterior p e0 es bps, (∀ x ∈ row, 0 ≤ x) ∧ row.sum = 1 ∧ row.length = p.n :=
  posterior_prob p hp e0 he0 es hes bps ((breaksOk_iff _ _).mp hacc) hpos

/-- … and log-sum class -/
theorem logsum_posterior_prob_accepted_pos (p : Params ℝ) (hn : 0 < p.n) (hp : PosP p) (e0 : Emis ℝ) (he0 : PosE e0)
    (es : List (Emis ℝ)) (hes : ∀ e ∈ es, PosE e) (bps : List Nat) (hacc : breaksOk (es.length + 1) bps = true)
    (dE d2E : String → Emis ℝ × List (Emis ℝ)) :
    ∃ m, logPosterior { p := p, e0 := e0, es := es, dE := dE, d2E := d2E } bps = some m
      ∧ m.length = es.length + 1
      ∧ ∀ row ∈ m, (∀ x ∈ row, 0 ≤ x) ∧ row.sum = 1 ∧ row.length = p.n :=
  logsum_posterior_prob_pos p hn hp e0 he0 es hes bps ((breaksOk_iff _ _).mp hacc) dE d2E

/-- before the repair any vector was accepted: for `[0]` on three positions the forward pass resets at
position 1 while the backward pass never resets (witness of the former finding C13-invalid-breaks); the
vector is now refused -/
theorem invalid_breaks_flags_witness :
    fwdFlags 3 2 1 [0] = [true, false] ∧ (bwdFlags 2 [0].reverse).reverse = [false, false] ∧ breaksOk 3 [0] = false := by decide

/-! ## History independence of the cached objects

`RescObj.run` / `LogObj.run` / `LowObj.run` execute any sequence of parameter updates, break-point
changes and queries on the cached object; `…SpecRun` answers every query from scratch with the
current tables (`rescSpec` = what a freshly built object answers).  The statements are generic in
the scalar type: they also hold for the `Float` instance the driver runs. -/

/-- rescaled class: in every history in which no call raised, each answer (log-likelihood, posterior
matrix written to an empty vector / over a vector / appended to a vector, posterior of one position,
likelihood of one position and of every position, first and second derivative, and the per-position
derivative terms for the variable of the last derivative query) is the answer of a fresh object with the
current parameter values and break points.  (`d1 ""`, `d2 ""` are excluded: the empty name is the cache's
"nothing cached" marker; `derivNamesOk`: the per-position derivative accessors, which have no variable
argument, are asked only after a derivative query that followed the last update.) -/
theorem history_independent {α : Type} [Scalar α] (t : Tables α) (o : RescObj α) (hb : RescObj.build t = some o)
    (ops : List (Op α)) (hne : ∀ a ∈ o.run ops, a ≠ Ans.exc) (hvar : ∀ op ∈ ops, op ≠ Op.d1 "" ∧ op ≠ Op.d2 "")
    (hnm : derivNamesOk "" "" ops = true) :
    o.run ops = rescSpecRun t [] "" "" ops := by
  obtain ⟨hc, ht, hbp, hd, hd2⟩ := RescObj.build_consistent t o hb
  rw [RescObj.run_spec o hc ops hne hvar (by rw [hd, hd2]; exact hnm), ht, hbp, hd, hd2]

/-- log-sum class, with its derivative recursions -/
theorem history_independent_logsum {α : Type} [Scalar α] [HasIsInf α] (t : Tables α) (ops : List (Op α))
    (hne : ∀ a ∈ (LogObj.build t).run ops, a ≠ Ans.exc) (hvar : ∀ op ∈ ops, op ≠ Op.d1 "" ∧ op ≠ Op.d2 "")
    (hnm : derivNamesOk "" "" ops = true) :
    (LogObj.build t).run ops = logSpecRun t [] "" "" ops := by
  obtain ⟨hc, ht, hbp, hd, hd2⟩ := LogObj.build_consistent t
  rw [LogObj.run_spec _ hc ops hne hvar (by rw [hd, hd2]; exact hnm), ht, hbp, hd, hd2]

/-- low-memory class -/
theorem history_independent_lowmem {α : Type} [Scalar α] (t : Tables α) (maxSize : Nat) (o : LowObj α)
    (hb : LowObj.build t maxSize = some o)
    (ops : List (Op α)) (hne : ∀ a ∈ o.run ops, a ≠ Ans.exc) (hvar : ∀ op ∈ ops, op ≠ Op.d1 "" ∧ op ≠ Op.d2 "") :
    o.run ops = lowSpecRun t maxSize [] ops := by
  unfold LowObj.build at hb
  split at hb
  · cases hb
  · have := Option.some.inj hb; subst this
    exact LowObj.run_spec _ rfl rfl rfl ops hne hvar

/-- low-memory class, **every** history — raising calls included (posterior and derivative queries, which this
class does not implement, and refused break points): they answer the exception and change nothing (as repaired:
a derivative query used to leave its variable name cached and the next one answered `-0`), every other answer is
that of a fresh object -/
theorem history_independent_lowmem_all {α : Type} [Scalar α] (t : Tables α) (maxSize : Nat) (o : LowObj α)
    (hb : LowObj.build t maxSize = some o) (ops : List (Op α)) :
    o.run ops = lowSpecRunAll t maxSize [] ops := by
  unfold LowObj.build at hb
  split at hb
  · cases hb
  · have := Option.some.inj hb; subst this
    exact LowObj.run_spec_all _ rfl ops

/-! ## Options of the posterior accessors -/

/-- `getHiddenStatesPosteriorProbabilities(probs, append)`, rescaled and log-sum classes, in every state
of the object: the rows written are those of the plain call (`probs` empty, `append = false`), placed
after the former content of `probs` with `append` and replacing it without — whatever `probs` held,
however often the call is repeated on the same vector -/
theorem posterior_append {α : Type} [Scalar α] [HasIsInf α] (buf : List (List α)) (append : Bool) :
    (∀ (o : RescObj α) (m : List (List α)), (o.step .posterior).2 = .mat m →
        (o.step (.posteriorInto buf append)).2 = .mat ((if append then buf else []) ++ m))
    ∧ (∀ (o : LogObj α) (m : List (List α)), (o.step .posterior).2 = .mat m →
        (o.step (.posteriorInto buf append)).2 = .mat ((if append then buf else []) ++ m)) :=
  ⟨fun o m h => RescObj.posteriorInto_of_posterior o buf append m h,
   fun o m h => LogObj.posteriorInto_of_posterior o buf append m h⟩

/-- log-sum class: for valid break points `getHiddenStatesPosteriorProbabilitiesForASite(site)`, which
walks through the break points on its own, answers row `site` of `getHiddenStatesPosteriorProbabilities`
— at every position, in particular at, before and after a break point -/
theorem logsum_single_site_agrees {α : Type} [Scalar α] (fw : LogFwd α) (back : List (List α)) (bps : List Nat)
    (hlen : back.length = fw.logLik.length) (hv : ValidBreaks fw.logLik.length bps)
    (m : List (List α)) (hm : logPosteriorOf fw back bps = some m) (site : Nat) (hs : site < fw.logLik.length) :
    logPosteriorSiteOf fw back bps site = m[site]? :=
  logPosteriorSite_eq_row fw back bps hlen hv m hm site hs

/-- the hypothesis "no call raised" cannot be dropped: after an update that raised (negative
transition probability) the rescaled object keeps answering the old log-likelihood -/
theorem history_dependent_after_exception :
    let t0 : Tables Rat := { p := { n := 1, P := fun _ _ => 1, pi := fun _ => 1 }, e0 := fun _ => 1 / 2, es := [], dE := fun _ => (fun _ => 0, []), d2E := fun _ => (fun _ => 0, []) }
    let t1 : Tables Rat := { t0 with p := { n := 1, P := fun _ _ => -1, pi := fun _ => 1 } }
    ∃ o, RescObj.build t0 = some o ∧ (o.step (.setTables t1)).2 = Ans.exc
      ∧ ((o.step (.setTables t1)).1.step .logLik).2 = (o.step .logLik).2
      ∧ (RescObj.build t1).isNone = true := by
  intro t0 t1
  have h0 : transOk t0.p = true := by decide
  have h1 : transOk t1.p = false := by decide
  have hb0 : rescCompute t0 [] = some (rescForward t0.p t0.e0 (mkSites t0.es [])) := by simp [rescCompute, h0]
  have hb1 : ∀ bps, rescCompute t1 bps = none := by intro bps; simp [rescCompute, h1]
  refine ⟨(RescObj.mk t0 [] (rescForward t0.p t0.e0 (mkSites t0.es [])) [] false "" emptyD "" emptyD2),
    by simp only [RescObj.build, hb0, Option.map_some], ?_, ?_, ?_⟩
  · simp only [RescObj.step, hb1]
  · simp only [RescObj.step, hb1]
  · simp only [RescObj.build, hb1, Option.map_none, Option.isNone_none]

/-! ## Built-in transition models: AutoCorrelationTransitionMatrix (as repaired) -/

/-- for every number of states ≥ 1 and every `λ_i ∈ [0,1]` each row of the matrix is a probability vector
(a single state: the matrix is `[1]`, as repaired) -/
theorem autocorr_row_stochastic (n : Nat) (hn : 1 ≤ n) (li : ℝ) (h0 : 0 ≤ li) (h1 : li ≤ 1) (i : Nat) (hi : i < n) :
    ∑ j ∈ Finset.range n, autoEntry n li i j = 1 ∧ ∀ j, 0 ≤ autoEntry n li i j :=
  ⟨autoEntry_row_sum n hn li i hi, autoEntry_nonneg n hn li h0 h1 i⟩

/-- the equilibrium vector computed by `fireParameterChanged` is a genuine stationary distribution
of that matrix: `π·P = π`, `Σ π = 1`, `π > 0` (every `λ_i < 1`, which the parameter constraint ]0,1[ enforces) -/
theorem autocorr_stationary (n : Nat) (hn : 1 ≤ n) (lam : Nat → ℝ) (hl : ∀ i, i < n → lam i < 1) :
    autoEq (vec n lam) = vec n (autoPi n lam)
    ∧ (∀ j, j < n → ∑ k ∈ Finset.range n, autoPi n lam k * autoEntry n (lam k) k j = autoPi n lam j)
    ∧ ∑ i ∈ Finset.range n, autoPi n lam i = 1 ∧ ∀ i, i < n → 0 < autoPi n lam i :=
  ⟨autoEq_vec n lam, autoPi_stationary n hn lam hl⟩

/-- … also before the first update: the constructor's uniform vector is what `fireParameterChanged` computes for
the constructor's equal `λ`'s (so `autocorr_stationary` applies to the empty history too) -/
theorem autocorr_initial_equilibrium (n : Nat) (hn : 1 ≤ n) (c : ℝ) (hc : c < 1) :
    autoEq (List.replicate n c) = List.replicate n (1 / (n : ℝ)) :=
  autoEq_replicate n hn c hc

/-- the lazily cached matrix and the equilibrium vector always are those of the current `λ`'s,
whatever the order of updates and queries -/
theorem autocorr_history_independent {α : Type} [Scalar α] (n : Nat) (ops : List (AutoOp α)) :
    (AutoTM.build n : AutoTM α).runA ops
      = autoSpecRun n (List.replicate n (Scalar.ofRat 95 100)) (List.replicate n (Scalar.one / Scalar.ofInt n)) ops :=
  AutoTM.runA_spec _ (by simp [AutoTM.build]) ops

/-- before the repair (3a53bfc) the single-state "matrix" was `[λ]`: the diagonal formula without the
one-state case (kept as the witness of the former finding C13-autocorr-one-state) -/
theorem autocorr_one_state_witness :
    (if (0 : Nat) == 0 then (19 / 20 : ℝ) else (1 - 19 / 20) / ((1 : ℝ) - 1)) ≠ 1 ∧ autoEntry 1 (19 / 20 : ℝ) 0 0 = 1 := by
  refine ⟨by norm_num, autoEntry_one _ _ _⟩

/-- `getPij()` agrees entry-wise with `Pij(i, j)`: entry `(i, j)` of the matrix a cache-free object
computes is the value `Pij(i, j)` computes (and by `autocorr_history_independent` the cached object answers
the same in every history) -/
theorem autocorr_pij_agree {α : Type} [Scalar α] (n : Nat) (lam : List α) (i j : Nat) (hj : j < n) :
    ((autoMatrix n lam)[i]?).bind (·[j]?) = (lam[i]?).map (fun li => autoEntry n li i j) :=
  autoMatrix_entry n lam i j hj

/-! ## Built-in transition models: FullHmmTransitionMatrix (rows = C19's simplices; equilibrium vector by
repeated squaring until the rows agree; as repaired) -/

/-- the two caches (`pij_`, `eqFreq_` with their up-to-date flags) never matter: in every history of
updates (`setTransitionProbabilities`, `setParameterValue`, accepted or refused) and queries (`getPij`,
`Pij`, `getEquilibriumFrequencies`) each answer is the one of the object whose caches are discarded before
every call.  Generic in the scalar type. -/
theorem full_history_independent {α : Type} [Scalar α] (n : Nat) (m : FullTM α) (hb : FullTM.build n = some m)
    (ops : List (FullOp α)) : m.run ops = m.runFresh ops :=
  FullTM.run_eq_runFresh m (FullTM.build_cacheOk n m hb) ops

/-- … and each query is answered from the simplices alone: `getPij()` = the matrix of the `Pij(i, j)`
(entry-wise agreement), `getEquilibriumFrequencies()` = `fullEqOf` of that matrix (`full_equilibrium_stationary`) -/
theorem full_queries_from_simplices {α : Type} [Scalar α] (m : FullTM α) (h : m.CacheOk) :
    (m.step .getPij).2 = .mat (fullMatrix m.rows)
    ∧ (∀ i j, (m.step (.entry i j)).2 = match fullEntry m.rows i j with | some x => .val x | none => .err .ub)
    ∧ (m.step .getEq).2 = (match fullEqOf m.n (fullMatrix m.rows) with | some e => .vec e | none => .err .ub)
    ∧ (∀ op, (m.step op).1.CacheOk) :=
  ⟨(FullTM.query_spec m h .getPij (Or.inl rfl)).1,
   fun i j => (FullTM.query_spec m h (.entry i j) (Or.inr (Or.inl ⟨i, j, rfl⟩))).1,
   (FullTM.query_spec m h .getEq (Or.inr (Or.inr rfl))).1,
   fun op => FullTM.step_cacheOk m h op⟩

/-- in every history from the constructor (1 ≤ n < 2^31 states; any arguments, refused calls change
nothing) the matrix has `n` rows of `n` strictly positive entries summing to one -/
theorem full_matrix_row_stochastic (n : Nat) (hn : 0 < n) (h31 : n < 2 ^ 31) (ops : List (FullOp ℝ)) :
    ∃ m, FullTM.build (α := ℝ) n = some m ∧
      ∃ Pf : Nat → Nat → ℝ, fullMatrix (m.after ops).rows = vec n (fun i => vec n (Pf i))
        ∧ (∀ i j, i < n → j < n → 0 < Pf i j) ∧ ∀ i, i < n → ∑ j ∈ Finset.range n, Pf i j = 1 := by
  obtain ⟨m, hb, hinv, hmn⟩ := FullTM.build_rowsInv n hn h31
  obtain ⟨h1, h2⟩ := FullTM.after_rowsInv m hinv ops
  obtain ⟨Pf, e, hpos, hsum⟩ := FullTM.rows_stochastic _ h1
  rw [h2, hmn] at e hpos hsum
  exact ⟨m, hb, Pf, e, hpos, hsum⟩

/-- the equilibrium vector of such a matrix, as the repaired `getEquilibriumFrequencies()` computes it (the
matrix is squared until its rows agree to `1e-14`, at most 64 times; before the repair: row 0 of `P^256`, which
is **not** a stationary distribution for a slowly mixing matrix): a probability vector, row 0 of `P^(2^K)`;
when the loop ends by convergence it is within `1e-14` of **every** stationary distribution of `P` (hence of
the unique one) and itself stationary up to `1e-14`; the loop can only run out of its 64 squarings when
`1e-14 < 2·(1 − n·δ)^(2^64)`, `δ` any lower bound of the entries (Dobrushin's contraction) — never for the
matrices a `double` can hold with `δ ≥ 1e-17/n` -/
theorem full_equilibrium_stationary (n : Nat) (hn : 0 < n) (Pf : Nat → Nat → ℝ) (δ : ℝ) (hδ0 : 0 ≤ δ)
    (hδ : ∀ i j, i < n → j < n → δ ≤ Pf i j) (hsum : ∀ i, i < n → ∑ j ∈ Finset.range n, Pf i j = 1) :
    ∃ (π : Nat → ℝ) (K : Nat), K ≤ 64 ∧ fullEqOf n (vec n (fun i => vec n (Pf i))) = some (vec n π)
      ∧ (∀ j, j < n → 0 ≤ π j) ∧ ∑ j ∈ Finset.range n, π j = 1
      ∧ (((∀ μ : Nat → ℝ, (∀ i, i < n → 0 ≤ μ i) → ∑ i ∈ Finset.range n, μ i = 1 →
              (∀ j, j < n → ∑ k ∈ Finset.range n, μ k * Pf k j = μ j) → ∀ j, j < n → |π j - μ j| ≤ (eqTol : ℝ))
          ∧ ∀ j, j < n → |∑ k ∈ Finset.range n, π k * Pf k j - π j| ≤ (eqTol : ℝ))
        ∨ (K = 64 ∧ (eqTol : ℝ) < 2 * (1 - n * δ) ^ (2 ^ 64))) :=
  fullEqOf_stationary n hn Pf δ hδ0 hδ hsum

/-- the tolerance of the loop is `10⁻¹⁴` -/
theorem full_equilibrium_tolerance : (eqTol : ℝ) = 1 / 100000000000000 := by
  simp [eqTol]

/-! ## Non-vacuity -/

/-- a 2-state chain satisfying every hypothesis above -/
noncomputable def exP : Params ℝ := { n := 2, P := fun _ _ => 1 / 2, pi := fun _ => 1 / 2 }
example : PosP exP ∧ NonNegP exP ∧ 0 < exP.n := by
  refine ⟨⟨fun _ _ => by simp [exP], fun _ => by simp [exP]⟩, ⟨fun _ _ => by simp [exP], fun _ => by simp [exP]⟩, by simp [exP]⟩
example : ValidBreaks 5 [1, 3] := by
  refine ⟨by simp, ?_⟩; intro b hb; simp at hb; rcases hb with rfl | rfl <;> omega
example : breaksOk 5 [1, 3] = true ∧ breaksOk 5 [3, 1] = false ∧ breaksOk 5 [5] = false := by decide
/-- a history satisfying `derivNamesOk` and the other hypotheses of `history_independent` that uses every operation -/
example : derivNamesOk "" "" ([.posteriorInto [] true, .d1 "e1_0", .dSite 1, .d2 "e1_0", .d2Site 0, .posteriorSite 0,
    .siteLik 0, .siteLiks, .setBreaks [1], .d2 "e0_0", .d2Site 1] : List (Op Rat)) = true := by decide
/-- a 2-state matrix satisfying the hypotheses of `full_equilibrium_stationary` with `δ = 1/4` (the loop converges: `2·(1/2)^(2^64) < 1e-14`) -/
example : (∀ i j, i < 2 → j < 2 → (1 / 4 : ℝ) ≤ (fun i j => if i = j then (3 / 4 : ℝ) else 1 / 4) i j)
    ∧ ∀ i, i < 2 → ∑ j ∈ Finset.range 2, (fun i j => if i = j then (3 / 4 : ℝ) else 1 / 4) i j = 1 := by
  refine ⟨fun i j _ _ => by simp only; split <;> norm_num, fun i hi => ?_⟩
  have : i = 0 ∨ i = 1 := by omega
  rcases this with rfl | rfl <;> simp [Finset.sum_range_succ] <;> norm_num

end Bpp.C13
