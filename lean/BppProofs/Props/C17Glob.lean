import BppProofs.Lemmas.Glob
/-!
# C17 — wildcard name matching agrees with glob semantics for `*`

Model: `BppModel/Text/Glob.lean` — the matcher that appears three times in the library
(`ParameterList::getMatchingParameterNames`, `ApplicationTools::matchingParameters` ×2), after the
repair "fix: wildcard-free pattern must equal the parameter name"; `matcherOld` is the code as found.
`globMatch` is the textbook recursive glob; `Expands` is its declarative meaning.
All statements are for every pattern and every name (no length bound).
-/
namespace Bpp.C17
open Bpp.Text Bpp.Text.Glob

/-- declarative meaning of a pattern: every `*` stands for an arbitrary string -/
inductive Expands : Str → Str → Prop
  | nil : Expands [] []
  | star (w : Str) {p n : Str} : Expands p n → Expands ('*' :: p) (w ++ n)
  | char {c : Char} {p n : Str} : c ≠ '*' → Expands p n → Expands (c :: p) (c :: n)

/-- the textbook recursive definition means what it should -/
theorem globMatch_iff_expands (p n : Str) : globMatch p n = true ↔ Expands p n := by
  induction p generalizing n with
  | nil =>
    rw [globMatch_nil]
    constructor
    · rintro rfl; exact .nil
    · intro h; cases h; rfl
  | cons c p ih =>
    by_cases hc : c = '*'
    · subst hc
      rw [globMatch_star]
      constructor
      · rintro ⟨k, _, h⟩
        have := Expands.star (n.take k) ((ih _).mp h)
        rwa [List.take_append_drop] at this
      · intro h
        cases h with
        | star w h' => exact ⟨w.length, by simp, by rw [List.drop_left]; exact (ih _).mpr h'⟩
        | char hne _ => exact absurd rfl hne
    · rw [globMatch_cons_ne hc]
      constructor
      · rintro ⟨t, rfl, h⟩; exact .char hc ((ih _).mp h)
      · intro h
        cases h with
        | star w h' => exact absurd rfl hc
        | char _ h' => exact ⟨_, rfl, (ih _).mpr h'⟩

/-! ## the code as found -/

/-- a star-free pattern was accepted as a repeated prefix+suffix, and the empty pattern matched
every name: `glob_agrees` is false of the old code -/
theorem old_matcher_not_glob :
    matcherOld ['a', 'b'] ['a', 'b', 'a', 'b'] = true ∧ globMatch ['a', 'b'] ['a', 'b', 'a', 'b'] = false
    ∧ matcherOld [] ['a', 'b', 'c'] = true ∧ globMatch [] ['a', 'b', 'c'] = false := by
  refine ⟨by decide, ?_, by decide, ?_⟩
  · have h : NoStar ['a', 'b'] := by intro c hc; simp at hc; rcases hc with rfl | rfl <;> decide
    have := globMatch_noStar h ['a', 'b', 'a', 'b']
    cases hh : globMatch ['a', 'b'] ['a', 'b', 'a', 'b']
    · rfl
    · exact absurd (this.mp hh) (by decide)
  · cases hh : globMatch [] ['a', 'b', 'c']
    · rfl
    · exact absurd ((globMatch_nil _).mp hh) (by decide)

/-! ## the repaired code -/

/-- **the matcher agrees with glob semantics**, for all patterns and all names -/
theorem glob_agrees (p n : Str) : matcher p n = globMatch p n := by
  cases h : starTokens false p with
  | nil => exact absurd h (starTokens_ne_nil false p)
  | cons g ts =>
    have hns : ∀ t ∈ g :: ts, NoStar t := by rw [← h]; exact starTokens_noStar false p
    have hg : NoStar g := hns g (List.mem_cons_self ..)
    rw [(globMatch_tokens p).1 g ts h n, matcher_eq p n g ts h]
    by_cases hts : ts = []
    · subst hts
      simp only [if_true, untok, stars, List.append_nil]
      rw [Bool.eq_iff_iff, globMatch_noStar hg]; simp
    · simp only [hts, if_false, untok]
      rw [Bool.eq_iff_iff, globMatch_append hg, Bool.and_eq_true,
        starLoop_eq_glob ts hts (fun t ht => hns t (List.mem_cons_of_mem _ ht))]
      constructor
      · rintro ⟨hp, hm⟩
        exact ⟨n.drop g.length, isPrefix_drop hp, hm⟩
      · rintro ⟨t, rfl, hm⟩
        exact ⟨isPrefix_iff.mpr ⟨t, rfl⟩, by simpa using hm⟩

/-- the matcher in declarative terms -/
theorem matcher_iff_expands (p n : Str) : matcher p n = true ↔ Expands p n := by
  rw [glob_agrees, globMatch_iff_expands]

/-- a pattern without `*` matches the identical name only (the clause the old code violated) -/
theorem matcher_star_free (p n : Str) (hp : ∀ c ∈ p, c ≠ '*') : matcher p n = true ↔ n = p := by
  rw [glob_agrees]; exact globMatch_noStar hp n

/-- `*` alone matches every name, the empty pattern only the empty name -/
theorem matcher_star_all (n : Str) : matcher ['*'] n = true := by
  rw [matcher_iff_expands]
  have := Expands.star n Expands.nil
  simpa using this

theorem matcher_empty_pattern (n : Str) : matcher [] n = true ↔ n = [] :=
  matcher_star_free [] n (by intro c hc; simp at hc)

/-- non-vacuity: a pattern with two stars and overlapping pieces -/
example : matcher ['a', '*', 'b', 'a', '*', 'a'] ['a', 'b', 'a', 'b', 'a'] = true := by decide

end Bpp.C17
