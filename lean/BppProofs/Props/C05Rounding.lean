import BppProofs.Lemmas.LURound
/-!
# C05 — the factorisation in rounded arithmetic: componentwise backward error

The property's clause "… within a backward-error bound proportional to machine epsilon, the size
and the conditioning" is a statement about floating-point arithmetic.  `Float` is opaque to Lean,
so what can be stated is the classical one: the model `Bpp.LU` (generic in the scalar) is run with
the arithmetic `rndScalar fl` — the reals with **every** `/`, `*`, `−` followed by a rounding `fl`
that satisfies the standard model `|fl x − x| ≤ u·|x|` (`StdModel fl u`); comparisons are exact.
IEEE binary64 round-to-nearest satisfies it with `u = 2⁻⁵³` as long as no underflow or overflow
occurs — that is an *assumption* about the hardware, not a theorem here.

Proved: the factorisation part (`lu_factor_rounded`, Higham, *Accuracy and Stability of Numerical
Algorithms*, Thm 9.3) — exactly the predicate `factorOk` that the driver evaluates in `Rat` on the
implementation's `piv`, `L`, `U` with `u = 2⁻⁵³`.  Not proved (explored only, see
`props/C05.json`): the residual bound of `solve` / `inv` (Thm 9.4) and the determinant "to rounding".
-/
namespace Bpp.C05
open Bpp Bpp.LU

/-- **`|A(piv,:) − L̂·Û| ≤ γ_n·|L̂|·|Û|`, componentwise**, for the constructor run in rounded
arithmetic: every `m × n` matrix with `n ≤ m`, every rounding function obeying the standard model
with unit roundoff `u`, `n·u < 1`; `γ_n = n·u/(1 − n·u)`.  Row exchanges and iterations skipped
because of a zero pivot are included (the pivot search compares exactly).  The bound is in the
size of the *computed* factors (`|l̂_ij| ≤ 1` by partial pivoting, so it is a bound in the growth
of `Û`), not in a condition number. -/
theorem lu_factor_rounded {m n : Nat} {fl : ℝ → ℝ} {u : ℝ} (hfl : StdModel fl u) (hu : 0 ≤ u)
    (h : n ≤ m) (hnu : (n : ℝ) * u < 1) (A : Mat ℝ m n) (i : Fin m) (j : Fin n) :
    |(permuteRows (@factor ℝ (rndScalar fl) m n h A).piv A).get i j
        - (matMul (getL (@factor ℝ (rndScalar fl) m n h A)) (getU h (@factor ℝ (rndScalar fl) m n h A))).get i j|
      ≤ gam n u * (matMul (absM (getL (@factor ℝ (rndScalar fl) m n h A)))
          (absM (getU h (@factor ℝ (rndScalar fl) m n h A)))).get i j :=
  factor_rounded_entries hfl hu h hnu A i j

/-- the recurrences of `γ` that the proof uses (`γ_k(1+u) + u ≤ γ_{k+1}`, `(γ_k + u)/(1−u) ≤ γ_{k+1}`) -/
theorem gamma_recurrences {k : Nat} {u : ℝ} (hu : 0 ≤ u) (hk : ((k + 1 : Nat) : ℝ) * u < 1) :
    gam k u * (1 + u) + u ≤ gam (k + 1) u ∧ (gam k u + u) / (1 - u) ≤ gam (k + 1) u :=
  ⟨gam_step1 hu hk, gam_step2 hu hk⟩

/-! non-vacuity: the standard model is satisfiable — trivially by exact arithmetic (`u = 0`, which
gives back `lu_factor`), and by roundings that really perturb every result -/
example : StdModel id 0 := fun x => by simp
example (u : ℝ) (hu : 0 ≤ u) : StdModel (fun x => x * (1 + u)) u := fun x => by
  have : x * (1 + u) - x = u * x := by ring
  rw [this, abs_mul, abs_of_nonneg hu]
example : ((10 : Nat) : ℝ) * (2 : ℝ)⁻¹ ^ 53 < 1 := by norm_num

end Bpp.C05
