import BppProofs.Lemmas.Describe
import BppProofs.Lemmas.DescribeRat
/-!
# C01 (description syntax) — `IntervalConstraint::readDescription` / `getDescription`
(src/Bpp/Numeric/Constraints.h:234-272, repaired: blanks around the bounds are dropped)

"A description in the documented bracket syntax parses to exactly the interval it denotes":
`read_documented`.  "What `getDescription` writes is read back": `read_render`.
The value and the decimal rendering of a number are libstdc++'s (`istream >> double`,
`ostream << double`); they enter through the class `NumText`, and the theorems need only the law
`NumLaw` of it (rendering then parsing gives the number back; a rendering consists of digits,
`-` and `.`).  The model's `Rat` instance of `NumText` is tied to the C++ by correspondence only.
-/
namespace Bpp.C01
open Bpp Bpp.Describe

/-- a bound text: free of the three delimiters, no blank at either end -/
def CleanText (L : List Char) : Prop :=
  (∀ c ∈ L, (c == ';') = false ∧ isBracket c = false) ∧ NoEdgeSpace L

section
variable {α : Type} [NumText α]

/-- the lower-bound text `L` denotes the bound `lo`: `-inf`, or a number `toDouble` accepts -/
def LoText (L : List Char) (lo : Bound α) : Prop :=
  (L = ['-', 'i', 'n', 'f'] ∧ lo = .negInf) ∨
  (L ≠ ['-', 'i', 'n', 'f'] ∧ ∃ x : α, NumText.parseNum L = NumParse.ok x ∧ lo = .fin x)

/-- the upper-bound text `H` denotes the bound `hi`: `+inf`, `inf`, or a number -/
def HiText (H : List Char) (hi : Bound α) : Prop :=
  ((H = ['+', 'i', 'n', 'f'] ∨ H = ['i', 'n', 'f']) ∧ hi = .posInf) ∨
  (H ≠ ['+', 'i', 'n', 'f'] ∧ H ≠ ['i', 'n', 'f'] ∧ ∃ x : α, NumText.parseNum H = NumParse.ok x ∧ hi = .fin x)

/-- Syntax: in `b0 ws L ws ; ws H ws b1 rest` (brackets `b0`, `b1`; blanks `ws`; bound texts free of
delimiters; anything after the closing bracket) the flags are read from the brackets and the two
texts are exactly what is interpreted. -/
theorem read_syntax (d : Interval α) (b0 b1 : Char) (ws1 L ws2 ws3 H ws4 rest : List Char)
    (hb0 : b0 = '[' ∨ b0 = ']') (hb1 : b1 = '[' ∨ b1 = ']')
    (hws : ∀ c ∈ ws1 ++ ws2 ++ ws3 ++ ws4, isSpace c = true)
    (hL : CleanText L) (hH : CleanText H) :
    readDescription d (b0 :: (ws1 ++ L ++ ws2 ++ ';' :: (ws3 ++ H ++ ws4 ++ b1 :: rest))) =
      readCore d (b0 == '[') (b1 == ']') L H := by
  have w1 : ∀ c ∈ ws1, isSpace c = true := fun c hc => hws c (by simp [hc])
  have w2 : ∀ c ∈ ws2, isSpace c = true := fun c hc => hws c (by simp [hc])
  have w3 : ∀ c ∈ ws3, isSpace c = true := fun c hc => hws c (by simp [hc])
  have w4 : ∀ c ∈ ws4, isSpace c = true := fun c hc => hws c (by simp [hc])
  have hb1' : isBracket b1 = true := by rcases hb1 with h | h <;> subst h <;> decide
  have hX : ∀ c ∈ ws1 ++ L ++ ws2, (c == ';') = false ∧ isBracket c = false := by
    intro c hc
    simp only [List.mem_append] at hc
    rcases hc with (hc | hc) | hc
    · exact ⟨by simpa using (space_not_delim (w1 c hc)).1, (space_not_delim (w1 c hc)).2⟩
    · exact hL.1 c hc
    · exact ⟨by simpa using (space_not_delim (w2 c hc)).1, (space_not_delim (w2 c hc)).2⟩
  have hY : ∀ c ∈ ws3 ++ H ++ ws4, isBracket c = false := by
    intro c hc
    simp only [List.mem_append] at hc
    rcases hc with (hc | hc) | hc
    · exact (space_not_delim (w3 c hc)).2
    · exact (hH.1 c hc).2
    · exact (space_not_delim (w4 c hc)).2
  have := read_extract d b0 b1 (ws1 ++ L ++ ws2) (ws3 ++ H ++ ws4) rest hb0 hb1' hX hY
  rw [trim_pad ws1 L ws2 w1 w2 hL.2, trim_pad ws3 H ws4 w3 w4 hH.2] at this
  simpa using this

/-- interpretation of the two texts -/
theorem readCore_ok (d : Interval α) (il iu : Bool) (L H : List Char) (lo hi : Bound α)
    (hlo : LoText L lo) (hhi : HiText H hi) :
    readCore d il iu L H = .done ⟨lo, hi, il, iu, d.prec⟩ false := by
  unfold readCore
  rcases hlo with ⟨hL, rfl⟩ | ⟨hL, x, hx, rfl⟩
  · rcases hhi with ⟨hH, rfl⟩ | ⟨hH1, hH2, y, hy, rfl⟩
    · rcases hH with hH | hH <;> simp [hL, hH]
    · simp [hL, hH1, hH2, hy]
  · rcases hhi with ⟨hH, rfl⟩ | ⟨hH1, hH2, y, hy, rfl⟩
    · rcases hH with hH | hH <;> simp [hL, hH, hx]
    · simp [hL, hH1, hH2, hx, hy]

/-- **read_documented**: a description in the documented bracket syntax — opening bracket, lower
bound (`-inf` or a number), `;`, upper bound (`+inf`, `inf` or a number), closing bracket, blanks
allowed around the bounds — parses, without raising, to exactly the interval it denotes: bounds
from the two texts, a bound included iff its bracket faces inwards; the precision is kept. -/
theorem read_documented (d : Interval α) (b0 b1 : Char) (ws1 L ws2 ws3 H ws4 rest : List Char)
    (lo hi : Bound α)
    (hb0 : b0 = '[' ∨ b0 = ']') (hb1 : b1 = '[' ∨ b1 = ']')
    (hws : ∀ c ∈ ws1 ++ ws2 ++ ws3 ++ ws4, isSpace c = true)
    (hL : CleanText L) (hH : CleanText H) (hlo : LoText L lo) (hhi : HiText H hi) :
    readDescription d (b0 :: (ws1 ++ L ++ ws2 ++ ';' :: (ws3 ++ H ++ ws4 ++ b1 :: rest))) =
      .done ⟨lo, hi, b0 == '[', b1 == ']', d.prec⟩ false := by
  rw [read_syntax d b0 b1 ws1 L ws2 ws3 H ws4 rest hb0 hb1 hws hL hH]
  exact readCore_ok d _ _ L H lo hi hlo hhi

/-- a number text the lower bound raises on makes the call raise, with only the flags written;
one the upper bound raises on, with flags and lower bound written (the partial update is real) -/
theorem read_rejects (d : Interval α) (il iu : Bool) (L H : List Char)
    (hL : L ≠ ['-', 'i', 'n', 'f']) (hrej : (NumText.parseNum L : NumParse α) = .reject) :
    readCore d il iu L H = .done { d with inclLo := il, inclHi := iu } true := by
  unfold readCore; simp [hL, hrej]

/-- the law of number texts the rendering theorem needs, for the numbers satisfying `R` -/
structure NumLaw (R : α → Prop) : Prop where
  render_parse : ∀ x t, R x → NumText.renderNum? x = some t → (NumText.parseNum t : NumParse α) = .ok x
  render_chars : ∀ x t, R x → NumText.renderNum? x = some t →
    t ≠ [] ∧ ∀ c ∈ t, isDigit c = true ∨ c = '-' ∨ c = '.'

theorem numchar_clean {t : List Char} (hne : t ≠ []) (h : ∀ c ∈ t, isDigit c = true ∨ c = '-' ∨ c = '.') :
    CleanText t ∧ t ≠ ['-', 'i', 'n', 'f'] ∧ t ≠ ['+', 'i', 'n', 'f'] ∧ t ≠ ['i', 'n', 'f'] := by
  have hc : ∀ c, (isDigit c = true ∨ c = '-' ∨ c = '.') →
      (c == ';') = false ∧ isBracket c = false ∧ isSpace c = false ∧ c ≠ 'i' ∧ c ≠ 'n' := by
    intro c h
    rcases h with h | h | h
    · obtain ⟨h1, h2⟩ := (isDigit_iff c).1 h
      have ne : ∀ k : Char, (k.toNat < 48 ∨ 57 < k.toNat) → c ≠ k := by
        intro k hk e; subst e; omega
      refine ⟨?_, ?_, ?_, ne 'i' (by decide), ne 'n' (by decide)⟩
      · simp only [beq_eq_false_iff_ne]; exact ne ';' (by decide)
      · unfold isBracket
        simp only [Bool.or_eq_false_iff, beq_eq_false_iff_ne]
        exact ⟨ne '[' (by decide), ne ']' (by decide)⟩
      · unfold isSpace
        simp only [Bool.or_eq_false_iff, beq_eq_false_iff_ne]
        exact ⟨⟨⟨⟨⟨ne ' ' (by decide), ne '\t' (by decide)⟩, ne '\n' (by decide)⟩, ne '\x0b' (by decide)⟩,
          ne '\x0c' (by decide)⟩, ne '\r' (by decide)⟩
    · subst h; exact ⟨by decide, by decide, by decide, by decide, by decide⟩
    · subst h; exact ⟨by decide, by decide, by decide, by decide, by decide⟩
  refine ⟨⟨fun c hcm => ⟨(hc c (h c hcm)).1, (hc c (h c hcm)).2.1⟩, ?_, ?_⟩, ?_, ?_, ?_⟩
  · intro c hh; exact (hc c (h c (List.mem_of_mem_head? hh))).2.2.1
  · intro c hh; exact (hc c (h c (List.mem_of_mem_getLast? hh))).2.2.1
  · intro e; subst e; exact (hc 'i' (h 'i' (by decide))).2.2.2.1 rfl
  · intro e; subst e; exact (hc 'i' (h 'i' (by decide))).2.2.2.1 rfl
  · intro e; subst e; exact (hc 'i' (h 'i' (by decide))).2.2.2.1 rfl

/-- **read_render**: what `getDescription` writes for an interval with proper bounds (lower bound
not `+inf`, upper not `-inf`) whose finite bounds have a modelled rendering is read back — by the
string constructor or by `readDescription` on any object — as the same bounds and flags. -/
theorem read_render (R : α → Prop) (law : NumLaw R) (c d : Interval α) (s : List Char)
    (hp : c.proper = true) (hR : ∀ x, (c.lo = .fin x ∨ c.hi = .fin x) → R x) (hs : render? c = some s) :
    readDescription d s = .done ⟨c.lo, c.hi, c.inclLo, c.inclHi, d.prec⟩ false := by
  unfold render? at hs
  cases hl : renderLo? c.lo with
  | none => rw [hl] at hs; cases hs
  | some L =>
    cases hh : renderHi? c.hi with
    | none => rw [hl, hh] at hs; cases hs
    | some H =>
      rw [hl, hh] at hs
      have hs' := (Option.some.inj hs).symm
      -- the two texts
      have hLo : CleanText L ∧ LoText L c.lo := by
        cases hlo : c.lo with
        | posInf => unfold Interval.proper at hp; rw [hlo] at hp; simp at hp
        | negInf =>
          rw [hlo] at hl; simp only [renderLo?] at hl; cases hl
          refine ⟨⟨by decide, by decide, by decide⟩, Or.inl ⟨rfl, rfl⟩⟩
        | fin x =>
          rw [hlo] at hl; simp only [renderLo?] at hl
          obtain ⟨hne, hch⟩ := law.render_chars x L (hR x (Or.inl hlo)) hl
          obtain ⟨hcl, h1, _, _⟩ := numchar_clean hne hch
          exact ⟨hcl, Or.inr ⟨h1, x, law.render_parse x L (hR x (Or.inl hlo)) hl, rfl⟩⟩
      have hHi : CleanText H ∧ HiText H c.hi := by
        cases hhi : c.hi with
        | negInf => unfold Interval.proper at hp; rw [hhi] at hp; simp at hp
        | posInf =>
          rw [hhi] at hh; simp only [renderHi?] at hh; cases hh
          refine ⟨⟨by decide, by decide, by decide⟩, Or.inl ⟨Or.inl rfl, rfl⟩⟩
        | fin x =>
          rw [hhi] at hh; simp only [renderHi?] at hh
          obtain ⟨hne, hch⟩ := law.render_chars x H (hR x (Or.inr hhi)) hh
          obtain ⟨hcl, _, h2, h3⟩ := numchar_clean hne hch
          exact ⟨hcl, Or.inr ⟨h2, h3, x, law.render_parse x H (hR x (Or.inr hhi)) hh, rfl⟩⟩
      -- the shape of the rendering, for the four flag combinations
      cases hil : c.inclLo <;> cases hiu : c.inclHi <;> rw [hil, hiu] at hs' <;> simp only [Bool.false_eq_true, if_false, if_true] at hs'
      · have e : s = ']' :: ([] ++ L ++ [] ++ ';' :: ([' '] ++ H ++ [] ++ '[' :: [])) := by rw [hs']; simp
        rw [e, read_documented d ']' '[' [] L [] [' '] H [] [] c.lo c.hi (Or.inr rfl) (Or.inl rfl) (by decide) hLo.1 hHi.1 hLo.2 hHi.2]
        rfl
      · have e : s = ']' :: ([] ++ L ++ [] ++ ';' :: ([' '] ++ H ++ [] ++ ']' :: [' '])) := by rw [hs']; simp
        rw [e, read_documented d ']' ']' [] L [] [' '] H [] [' '] c.lo c.hi (Or.inr rfl) (Or.inr rfl) (by decide) hLo.1 hHi.1 hLo.2 hHi.2]
        rfl
      · have e : s = '[' :: ([' '] ++ L ++ [] ++ ';' :: ([' '] ++ H ++ [] ++ '[' :: [])) := by rw [hs']; simp
        rw [e, read_documented d '[' '[' [' '] L [] [' '] H [] [] c.lo c.hi (Or.inl rfl) (Or.inl rfl) (by decide) hLo.1 hHi.1 hLo.2 hHi.2]
        rfl
      · have e : s = '[' :: ([' '] ++ L ++ [] ++ ';' :: ([' '] ++ H ++ [] ++ ']' :: [' '])) := by rw [hs']; simp
        rw [e, read_documented d '[' ']' [' '] L [] [' '] H [] [' '] c.lo c.hi (Or.inl rfl) (Or.inr rfl) (by decide) hLo.1 hHi.1 hLo.2 hHi.2]
        rfl

end

/-- `read_render` failed of the code as found: the description `getDescription` writes for `[0,1]`
(`"[ 0; 1] "`) made `readDescription` raise, after writing the flags — the text `" 0"` reached
`toDouble` with its blank -/
theorem legacy_read_render_witness (d : Interval Rat) :
    Legacy.readDescription d ['[', ' ', '0', ';', ' ', '1', ']', ' '] =
      .done { d with inclLo := true, inclHi := true } true := by
  have h : (NumText.parseNum [' ', '0'] : NumParse Rat) = .reject := by
    show parseRat [' ', '0'] = .reject
    unfold parseRat
    have : isDecimalNumber [' ', '0'] = false := by decide
    simp [this]
  have e1 : findSemi ['[', ' ', '0', ';', ' ', '1', ']', ' '] = some 3 := by decide
  have e2 : findBracket1 ['[', ' ', '0', ';', ' ', '1', ']', ' '] = some 6 := by decide
  unfold Legacy.readDescription
  rw [e1, e2]
  simp [readCore, h]

/-- the `Rat` interpretation (the one the driver runs descriptions in) satisfies the law, for the
rationals that are doubles -/
theorem numLaw_rat : NumLaw (α := Rat) (fun q => isDouble q = true) where
  render_parse := fun x t hx h => (renderRat_parse x hx t h).1
  render_chars := fun x t hx h => (renderRat_parse x hx t h).2

/-- **read_render** at `Rat`, without hypothesis on the number texts: for every interval with
proper bounds that are doubles, whatever `getDescription` is modelled to write is read back as the
same bounds and flags -/
theorem read_render_rat (c d : Interval Rat) (s : List Char) (hp : c.proper = true)
    (hdbl : ∀ x, (c.lo = .fin x ∨ c.hi = .fin x) → isDouble x = true) (hs : render? c = some s) :
    readDescription d s = .done ⟨c.lo, c.hi, c.inclLo, c.inclHi, d.prec⟩ false :=
  read_render _ numLaw_rat c d s hp hdbl hs

/-! ## the number texts of the `Rat` interpretation -/

/-- the recogniser deciding whether a bound text makes `readDescription` raise is C17's
transcription of `TextTools::isDecimalNumber(s, '.', 'e')` (the repaired one: at least one mantissa
digit), so C17's grammar theorem (`Bpp.C17.isDecimalNumber_iff`) says which texts are accepted -/
theorem isDecimalNumber_is_c17 (l : List Char) :
    isDecimalNumber l = Bpp.Text.Number.isDecimalNumber '.' 'e' l := isDecimalNumber_eq_number l

/-- a text `toDouble` refuses is refused by the model: a sign, a separator or an exponent alone
(the texts the repair of the recognisers changed), blanks inside, two separators …; the lower
bound `-` makes `readDescription` raise with only the flags written -/
theorem parseRat_rejects_digitless :
    parseRat ['-'] = .reject ∧ parseRat ['.'] = .reject ∧ parseRat ['-', '.'] = .reject ∧
    parseRat ['e', '5'] = .reject ∧ parseRat ['1', 'e'] = .reject ∧ parseRat ['1', '.', '2', '.', '3'] = .reject := by
  refine ⟨?_, ?_, ?_, ?_, ?_, ?_⟩ <;> (unfold parseRat; rw [if_pos (by decide)])

theorem read_digitless_raises (d : Interval Rat) :
    readDescription d ['[', '-', ';', '1', ']'] = .done { d with inclLo := true, inclHi := true } true := by
  have h : (NumText.parseNum ['-'] : NumParse Rat) = .reject := parseRat_rejects_digitless.1
  have e1 : findSemi ['[', '-', ';', '1', ']'] = some 2 := by decide
  have e2 : findBracket1 ['[', '-', ';', '1', ']'] = some 4 := by decide
  have e3 : trim ['-'] = ['-'] := by decide
  unfold readDescription
  rw [e1, e2]
  simp [readCore, h, e3]

/-- beyond plain decimals: an accepted text in exponent / short form whose exact value is a double
is read to that value (`1e2` = 100, `25e-1` = 5/2, `.5` = 1/2, `-1.` = -1); one whose value is not
a double (`0.1`, `1e-3`: the library's answer is libc's rounding of it) is `unmodelled` -/
theorem parseRat_beyond_plain :
    parseRat ['1', 'e', '2'] = .ok 100 ∧ parseRat ['2', '5', 'e', '-', '1'] = .ok (5 / 2) ∧
    parseRat ['.', '5'] = .ok (1 / 2) ∧ parseRat ['-', '1', '.'] = .ok (-1) ∧
    parseRat ['0', '.', '1'] = .unmodelled ∧ parseRat ['1', 'e', '-', '3'] = .unmodelled := by
  refine ⟨?_, ?_, ?_, ?_, ?_, ?_⟩ <;> decide +kernel

end Bpp.C01
