import BppProofs.Lemmas.DistU
/-!
C16 — the text stage of BppODiscreteDistributionFormat::readDiscreteDistribution
(src/Bpp/Io/BppODiscreteDistributionFormat.cpp:32-267; UB-aware model `BppModel/Text/DistU.lean`):
`listContent_`, the number lists `values` / `probas`, the `ranges` items taken apart with `find` /
`substr` at positions computed in `size_t`, the dispatch on the distribution name.  Every entry
returns or raises the library's exception (`safe`): no undefined behaviour, no `std::` exception
(`std::out_of_range` of `substr`), no hang.

The chain of the main theorem `distStage_safe`: the values of the map returned by
`KeyvalTools::parseProcedure` are pieces of the description (`parseProcedure_values_len`), so they
are `std::string`s (`StrOk`); the tokenizer the list arguments go through has no empty token
(`tokenizer_tokens_nonempty`), which is what `desc.substr(1, …)` of a `ranges` item needs
(`rangeItem_safe`; on an empty item it throws `std::out_of_range`: `rangeItem_empty_std`).
-/
namespace Bpp.C16
open Bpp.Text Bpp.Text.U

/-! ## `listContent_` -/

/-- `listContent_(rf)` (:32-37) returns the text between the first and the last character or
raises the library's exception (fewer than two characters); `rf.substr(1, size - 2)` is never out
of range -/
theorem listContent_safe (rf : Str) : safe (listContent rf) = true :=
  listContent_safe' rf

example : listContent "(1,2)".toList = .ok "1,2".toList := by decide +kernel
example : listContent "()".toList = .ok [] := by decide +kernel
example : listContent "(".toList = .error .bpp := by decide +kernel

/-- what `listContent_` returns is not longer than its argument -/
theorem listContent_len (rf c : Str) (h : listContent rf = .ok c) : c.length ≤ rf.length :=
  listContent_len' rf c h

example : ∃ c, listContent "(0.5,0.5)".toList = .ok c ∧ c.length = 7 :=
  ⟨"0.5,0.5".toList, by decide +kernel, by decide +kernel⟩

/-! ## the tokens of `StringTokenizer(s, delimiters)` -/

/-- the non-solid tokenizer without empty tokens has no empty token: the loop is entered at a
character that is not a delimiter (`find_first_not_of`), so the next delimiter
(`find_first_of`) is strictly further -/
theorem tokenizer_tokens_nonempty (s d : Str) (hs : StrOk s) (t : Tokenizer)
    (h : mkTokenizer s d false false = .ok t) : ∀ tok ∈ t.tokens, tok ≠ [] :=
  tokenizer_tokens_nonempty' s d hs t h

example : mkTokenizer ",a,,b,".toList [','] false false =
    .ok ⟨["a".toList, "b".toList], [",,".toList, ",".toList], 0⟩ := by decide +kernel
/-- with empty tokens allowed the statement is false (the option is the last `false`) -/
example : mkTokenizer "a,,b".toList [','] false true =
    .ok ⟨["a".toList, [], "b".toList], [",".toList, ",".toList], 0⟩ := by decide +kernel

/-! ## one item `V<k>[<a>;<b>]` of `ranges` -/

/-- one item of `ranges` (:113-120) that is not empty: the three `substr` positions `1`, `po + 1`,
`ppv + 1` — computed modulo 2^64 from the results of `find`, with `npos + 1 = 0` — never exceed
the size, whatever the item contains (the brackets may be missing or in any order) -/
theorem rangeItem_safe (desc : Str) (hne : desc ≠ []) : safe (rangeItem desc) = true :=
  rangeItem_safe' desc hne

example : rangeItem "V1[0.5;1.5]".toList = .ok ("1".toList, "0.5".toList, "1.5".toList) := by decide +kernel
example : rangeItem "V1".toList = .error .bpp := by decide +kernel
example : rangeItem "]".toList = .error .bpp := by decide +kernel

/-- an empty item: `desc.substr(1, …)` throws `std::out_of_range`.  The tokenizer never hands over
an empty token (`tokenizer_tokens_nonempty`); a variant of the code that trims the token before
indexing it (`" "` is a token) runs into this -/
theorem rangeItem_empty_std : rangeItem [] = .error .std := by decide +kernel

example : safe (rangeItem []) = false := by decide +kernel

/-! ## the list arguments -/

/-- the loop `while (strtok.hasMoreToken()) v.push_back(toDouble(strtok.nextToken()))` ends within
`remaining tokens + 1` rounds; `nextToken` is only called under `hasMoreToken` -/
theorem drainDoubles_safe (fuel : Nat) (st : Tokenizer) (acc : List Str)
    (hpos : st.pos ≤ st.tokens.length) (hfuel : st.tokens.length - st.pos < fuel) :
    safe (drainDoubles fuel st acc) = true :=
  drainDoubles_safe' fuel st acc hpos hfuel

example : drainDoubles 3 ⟨["1".toList, "2.5".toList], [], 0⟩ [] = .ok ["1".toList, "2.5".toList] := by decide +kernel
example : drainDoubles 2 ⟨["1".toList, "2.5".toList], [], 0⟩ [] = .error .hang := by decide +kernel

/-- the loop over the items of `ranges` (:111-126) on a tokenizer without empty token -/
theorem drainRanges_safe (fuel : Nat) (st : Tokenizer) (acc : List (Str × Str × Str))
    (hne : ∀ tok ∈ st.tokens, tok ≠ [])
    (hpos : st.pos ≤ st.tokens.length) (hfuel : st.tokens.length - st.pos < fuel) :
    safe (drainRanges fuel st acc) = true :=
  drainRanges_safe' fuel st acc hne hpos hfuel

example : drainRanges 2 ⟨["V1[0;1]".toList], [], 0⟩ [] = .ok [("1".toList, "0".toList, "1".toList)] := by decide +kernel
/-- the hypothesis on the tokens is needed -/
example : drainRanges 2 ⟨[[]], [], 0⟩ [] = .error .std := by decide +kernel

/-- a list argument `(v1,v2,…)` of numbers (`values`, `probas`): any `std::string` -/
theorem numberList_safe (rf : Str) (hs : StrOk rf) : safe (numberList rf) = true :=
  numberList_safe' rf hs

example : numberList "(0.1,0.9)".toList = .ok ["0.1".toList, "0.9".toList] := by decide +kernel
example : numberList "(0.1,,0.9,)".toList = .ok ["0.1".toList, "0.9".toList] := by decide +kernel
example : numberList "(0.1,x)".toList = .error .bpp := by decide +kernel
example : numberList "()".toList = .ok [] := by decide +kernel
example : numberList ")".toList = .error .bpp := by decide +kernel

/-- the `ranges` argument (:103-127): any `std::string` -/
theorem rangeList_safe (rr : Str) (hs : StrOk rr) : safe (rangeList rr) = true :=
  rangeList_safe' rr hs

example : rangeList "(V1[0;1],V2[1;2.5])".toList =
    .ok [("1".toList, "0".toList, "1".toList), ("2".toList, "1".toList, "2.5".toList)] := by decide +kernel
example : rangeList "(V1[0;1],,)".toList = .ok [("1".toList, "0".toList, "1".toList)] := by decide +kernel
example : rangeList "(V1[0,1])".toList = .error .bpp := by decide +kernel

/-- the accepted items of a number list are disjoint pieces of the argument (no hypothesis on its
size) -/
theorem numberList_alloc (rf : Str) (items : List Str) (h : numberList rf = .ok items) :
    sumLen items ≤ rf.length :=
  numberList_alloc' rf items h

example : ∃ items, numberList "(0.1,0.9)".toList = .ok items ∧ sumLen items = 6 :=
  ⟨["0.1".toList, "0.9".toList], by decide +kernel, by decide +kernel⟩

/-! ## the `Simple` and `Mixture` branches -/

/-- the text stage of the `Simple` branch (:80-127) on a map whose values are `std::string`s -/
theorem simpleStage_safe (args : Keyval.Map) (h : ∀ kv ∈ args, StrOk kv.2) :
    safe (simpleStage args) = true :=
  simpleStage_safe' args h

example : simpleStage [("probas".toList, "(0.5,0.5)".toList), ("values".toList, "(1,2)".toList)] =
    .ok (.simple ["1".toList, "2".toList] ["0.5".toList, "0.5".toList] []) := by decide +kernel
example : simpleStage [("probas".toList, "(1)".toList), ("ranges".toList, "(V1[0;3])".toList),
      ("values".toList, "(2)".toList)] =
    .ok (.simple ["2".toList] ["1".toList] [("1".toList, "0".toList, "3".toList)]) := by decide +kernel
example : simpleStage [("values".toList, "(1,2)".toList)] = .error .bpp := by decide +kernel
example : simpleStage [("probas".toList, "(1)".toList), ("values".toList, "()".toList)] = .error .bpp := by
  decide +kernel

/-- the text stage of the `Mixture` branch (:138-159) on a map whose values are `std::string`s -/
theorem mixtureStage_safe (args : Keyval.Map) (h : ∀ kv ∈ args, StrOk kv.2) :
    safe (mixtureStage args) = true :=
  mixtureStage_safe' args h

example : mixtureStage [("dist1".toList, "Constant(value=1)".toList), ("dist2".toList, "Gamma(n=4)".toList),
      ("probas".toList, "(0.3,0.7)".toList)] =
    .ok (.mixture ["0.3".toList, "0.7".toList] ["Constant(value=1)".toList, "Gamma(n=4)".toList]) := by decide +kernel
example : mixtureStage [("dist1".toList, "Constant(value=1)".toList), ("probas".toList, "(0.3,0.7)".toList)] =
    .error .bpp := by decide +kernel

/-! ## readDiscreteDistribution -/

/-- the values of the map `KeyvalTools::parseProcedure` returns are pieces of the description:
the tokens of the NestedStringTokenizer are disjoint pieces of the text between the parentheses,
merging `name`, `=`, `value` tokens keeps the total, the value is a suffix of the merged token,
`removeSurroundingWhiteSpaces` shortens, `args[key] = value` keeps or replaces.
(`desc.length < 2^31`: the NestedStringTokenizer counts parentheses in an `int`.) -/
theorem parseProcedure_values_len (desc name : Str) (args : Keyval.Map) (hs : desc.length < 2147483648)
    (h : parseProcedure desc = .ok (name, args)) : ∀ kv ∈ args, kv.2.length ≤ desc.length :=
  parseProcedure_values_len' desc name args hs h

example : parseProcedure "f(a=1,b=g(c=2))".toList =
    .ok ("f".toList, [("a".toList, "1".toList), ("b".toList, "g(c=2)".toList)]) := by decide +kernel

/-- the text stage of `readDiscreteDistribution` (:40-267) on any description shorter than 2^31
characters returns or raises the library's exception: no `substr` out of range, no index out of
range, no loop without end, in `parseProcedure`, in the presence tests, in the number lists, in
the `ranges` items, in `toInt` of the class count -/
theorem distStage_safe (desc : Str) (hs : desc.length < 2147483648) : safe (distStage desc) = true :=
  distStage_safe' desc hs

example : distStage "Simple(values=(1,2),probas=(0.5,0.5))".toList =
    .ok (.simple ["1".toList, "2".toList] ["0.5".toList, "0.5".toList] []) := by decide +kernel
example : distStage "Simple(values=(1,2),probas=(0.5,0.5),ranges=(V1[0;3],V2[1;2]))".toList =
    .ok (.simple ["1".toList, "2".toList] ["0.5".toList, "0.5".toList]
      [("1".toList, "0".toList, "3".toList), ("2".toList, "1".toList, "2".toList)]) := by decide +kernel
/-- an item that begins with a blank is refused by `toInt` (the library's exception), not by `substr` -/
example : distStage "Simple(values=(1,2),probas=(0.5,0.5),ranges=(V1[0;3], V2[1;2]))".toList =
    .error .bpp := by decide +kernel
example : distStage "Mixture(probas=(0.5,0.5),dist1=Constant(value=1),dist2=Gamma(n=2))".toList =
    .ok (.mixture ["0.5".toList, "0.5".toList] ["Constant(value=1)".toList, "Gamma(n=2)".toList]) := by
  decide +kernel
example : distStage "Invariant(dist=Gamma(n=4))".toList = .ok (.invariant "Gamma(n=4)".toList) := by
  decide +kernel
example : distStage "Constant(value=1)".toList = .ok .constant := by decide +kernel
example : distStage "Gamma(n=4,alpha=1)".toList = .ok (.standard "Gamma".toList 4) := by decide +kernel
example : distStage "Gamma(n=0)".toList = .error .bpp := by decide +kernel
example : distStage "Gamma(n=4".toList = .error .bpp := by decide +kernel
example : distStage "Unknown(n=4)".toList = .error .bpp := by decide +kernel

end Bpp.C16
