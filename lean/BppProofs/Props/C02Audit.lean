import BppProofs.Props.C02Complete
/-!
# C02 — theorems added in answer to the audit of round 1 (F5)

`deleteParameters(names, mustExist)` had its specification only as a lemma
(`ParamList.deleteParameters_spec`); it is restated here as a property theorem, with the general
(repeated names allowed) part and a witness of what a repeated name does.
-/
namespace Bpp.C02
open Bpp Bpp.ParamList

/-- **delete_names_exact**: `deleteParameters(names, mustExist)` for pairwise different `names`.
Let `pre` be `names` (when `mustExist = false`: unknown names are skipped) or the names before the
first one the list does not have (when `mustExist = true`: the routine stops there with
ParameterNotFoundException, keeping the deletions already made — it is *not* atomic, and not claimed
to be).  The survivors are a sub-sequence of the list whose names are the list's names with `pre`
erased (with pairwise different names in the list this determines them), and the call raises exactly
when `pre ≠ names`. -/
theorem delete_names_exact (h : Store) (must : Bool) (ns : List String) (l : List ObjId) (nd : ns.Nodup) :
    let pre := if must then ns.takeWhile (fun n => (names h l).contains n) else ns
    (deleteParameters h must l ns).1.Sublist l ∧
    names h (deleteParameters h must l ns).1 = pre.foldl (fun acc n => acc.erase n) (names h l) ∧
    (deleteParameters h must l ns).2 = (if pre.length = ns.length then none else some .notfound) :=
  ⟨deleteParameters_sublist h must ns l, (deleteParameters_spec h must ns l nd).1, (deleteParameters_spec h must ns l nd).2⟩

/-- … and for *any* name vector (repeated names allowed): the survivors are a sub-sequence of the
list, the only possible exception is ParameterNotFoundException, and it is never raised when
`mustExist = false`. -/
theorem delete_names_general (h : Store) (must : Bool) (ns : List String) (l : List ObjId) :
    (deleteParameters h must l ns).1.Sublist l ∧
    (∀ e, (deleteParameters h must l ns).2 = some e → e = .notfound ∧ must = true) := by
  refine ⟨deleteParameters_sublist h must ns l, ?_⟩
  induction ns generalizing l with
  | nil => intro e he; simp [deleteParameters] at he
  | cons n rest ih =>
    intro e he
    unfold deleteParameters at he
    cases hd : deleteParameter h l n with
    | ok l' => rw [hd] at he; exact ih l' e he
    | error x =>
      rw [hd] at he
      cases must with
      | true =>
        simp only [if_true] at he
        cases he
        unfold deleteParameter at hd
        cases hf : l.findIdx? (fun i => nameOf h i == n) <;> simp [hf] at hd
        exact ⟨hd.symm, rfl⟩
      | false => simp only [Bool.false_eq_true, if_false] at he; exact ih l e he

example :
    let s := run State.init [.add 0 ⟨"a", 1, none⟩, .add 0 ⟨"b", 2, none⟩, .add 0 ⟨"c", 3, none⟩]
    deleteParameters s.heap true (s.lists 0) ["c", "zz", "a"] = ([0, 1], some .notfound) ∧
    deleteParameters s.heap false (s.lists 0) ["c", "zz", "a"] = ([1], none) := by decide

/-- outside the property's quantifier, kept on record like `delete_indices_repeated_witness`: a
repeated name with `mustExist = true` deletes the entry, then raises at the repetition -/
theorem delete_names_repeated_witness :
    let s := run State.init [.add 0 ⟨"a", 1, none⟩, .add 0 ⟨"b", 2, none⟩]
    deleteParameters s.heap true (s.lists 0) ["a", "a"] = ([1], some .notfound) := by decide

/-- **owner_copy_independent** (F6): copying an owner (implicit copy constructor / copy assignment of
`AbstractParametrizable`, `TestAP::clone()` in the harness) gives the destination fresh, pairwise
different objects showing the source's parameters and the source's prefix; every existing object and
every other register is as it was — so, by `frame`, a later write through either owner does not show
in the other. -/
theorem owner_copy_independent (s : State) (inv : Inv s) (k j : Nat) :
    let s' := (xstep s (.apCopy k j)).1
    obs s' j = obs s k ∧ s'.pre j = s.pre k ∧ (∀ i ∈ s'.lists j, s.heap.next ≤ i) ∧ (s'.lists j).Nodup ∧
    (∀ r, r ≠ j → s'.lists r = s.lists r ∧ s'.pre r = s.pre r) ∧
    (∀ i, i < s.heap.next → s'.heap.get i = s.heap.get i) ∧ Inv s' := by
  obtain ⟨_, _, p3, p4, p5, p6⟩ := cloneAll_spec (s.lists k) s.heap (inv.wf k)
  refine ⟨?_, by simp [xstep], ?_, ?_, fun r hr => by simp [xstep, State.setList, State.withHeap, hr], p6,
    inv_xstep inv _ trivial⟩
  · simpa [obs, xstep, State.setList, State.withHeap] using p5
  · simpa [xstep, State.setList, State.withHeap] using p3
  · simpa [xstep, State.setList, State.withHeap] using p4

example :
    let s := run State.init [.apNamespace 4 "p.", .addPtr 4 ⟨"p.a", 1, none⟩]
    names (xstep s (.apCopy 4 5)).1.heap ((xstep s (.apCopy 4 5)).1.lists 5) = ["p.a"] ∧
    (xstep s (.apCopy 4 5)).1.pre 5 = "p." := by decide

end Bpp.C02
