import BppProofs.Lemmas.TokRT
import BppProofs.Lemmas.TokBridge
/-!
# C17 — "tokenising and re-joining with the recorded separators reproduces the input"

Model: the UB-aware `StringTokenizer` of `BppModel/Text/TokenizerU.lean`
(src/Bpp/Text/StringTokenizer.cpp:10-86: constructor with every combination of `solid` and
`allowEmptyTokens`, `nextToken`, `unparseRemainingTokens`), predicates `BppModel/Text/TokRT.lean`
(the driver evaluates the same `ctorRtOk` / `advanceRtOk` on the tokens, recorded separators and
unparsed texts the implementation returns).  For every input string (`StrOk`: a `std::string` is at
most `max_size()` long) and every delimiter string.

The naive law `unparse (tokenize s) = s` is FALSE outside solid mode (`unparse_naive_witness`): the
constructor skips leading delimiters without recording them, and `unparseRemainingTokens` never
appends the separator recorded after the last token.  The law the code satisfies:
* solid (a non-empty delimiter string):            `unparse = s`;
* non-solid, empty tokens allowed:                 `unparse = s` without its leading delimiters;
* non-solid, no empty tokens:                      `unparse = s` without leading and trailing delimiters;
* always: leading delimiters ++ tokens re-joined with *all* recorded separators `= s`.
-/
namespace Bpp.C17
open Bpp.Text Bpp.Text.U Bpp.Text.RT

/-- **the round-trip law**, all four option combinations: whenever the constructor returns, the
tokens re-joined with the recorded separators reproduce the input after its leading delimiters
(the whole input in solid mode); `unparseRemainingTokens()` returns `unparseSpec`; there is exactly
one separator between two tokens and at most one after the last; tokens are free of delimiters (of
the delimiter string in solid mode), non-empty unless empty tokens are allowed / the mode is solid;
separators are non-empty runs of delimiter characters (one character when empty tokens are
allowed; the delimiter string, repeated only when empty tokens are not allowed, in solid mode) -/
theorem unparse_tokenize (s d : Str) (solid allowEmpty : Bool) (hs : StrOk s) (T : Tokenizer)
    (h : mkTokenizer s d solid allowEmpty = .ok T) :
    ∃ u, T.unparseRemainingTokens = .ok u ∧ ctorRtOk s d solid allowEmpty T.tokens T.splits u = true :=
  mkTokenizer_rt s d solid allowEmpty hs T h

/-- **totality**: the constructor raises (the library's exception) exactly when the mode is solid
and the delimiter string empty; on every other input it returns — `unparse_tokenize` is not
conditional on anything but that -/
theorem tokenizer_raises_iff (s d : Str) (solid allowEmpty : Bool) (hs : StrOk s) :
    mkTokenizer s d solid allowEmpty = .error .bpp ↔ (solid = true ∧ d = []) :=
  mkTokenizer_error_iff s d solid allowEmpty hs

/-- the round-trip law without the hypothesis "the constructor returned" -/
theorem unparse_tokenize_total (s d : Str) (solid allowEmpty : Bool) (hs : StrOk s)
    (hd : ¬ (solid = true ∧ d = [])) :
    ∃ T u, mkTokenizer s d solid allowEmpty = .ok T ∧ T.unparseRemainingTokens = .ok u ∧
      ctorRtOk s d solid allowEmpty T.tokens T.splits u = true := by
  obtain ⟨T, hT⟩ := mkTokenizer_total s d solid allowEmpty hs hd
  obtain ⟨u, hu, hok⟩ := unparse_tokenize s d solid allowEmpty hs T hT
  exact ⟨T, u, hT, hu, hok⟩

/-- **the two transcriptions of `StringTokenizer(s, d)` agree**: the character-level `Keyval.tokenize`
(on which `parse_render` / `changeKeyvals_exact` rest, through `multipleKeyvals` with `nested = false`)
returns the tokens of the position-level `mkTokenizer` (on which this file rests) -/
theorem keyval_tokenize_is_tokenizer (s d : Str) (hs : StrOk s) :
    ∃ T, mkTokenizer s d false false = .ok T ∧ Keyval.tokenize (fun c => d.contains c) s = T.tokens := by
  obtain ⟨T, hT⟩ := mkTokenizer_total s d false false hs (by simp)
  exact ⟨T, hT, tokenize_eq_mkTokenizer s d hs T hT⟩

/-- examples -/
example : StrOk ",a,;b,".toList ∧ mkTokenizer ",a,;b,".toList ",;".toList false false
    = .ok ⟨["a".toList, "b".toList], [",;".toList, ",".toList], 0⟩ := ⟨by decide, by rfl⟩
example : mkTokenizer ",a,;b,".toList ",;".toList false true
    = .ok ⟨["a".toList, [], "b".toList, []], [",".toList, ";".toList, ",".toList], 0⟩ := by rfl

/-- reading the clauses of `ctorRtOk` one by one: re-joining with the recorded separators -/
theorem tokens_rejoin (s d : Str) (solid allowEmpty : Bool) (hs : StrOk s) (T : Tokenizer)
    (h : mkTokenizer s d solid allowEmpty = .ok T) :
    (if solid then [] else s.takeWhile (inSet d)) ++ interleave T.tokens T.splits = s := by
  obtain ⟨u, _, hu⟩ := unparse_tokenize s d solid allowEmpty hs T h
  simp only [ctorRtOk, Bool.and_eq_true, beq_iff_eq] at hu
  exact hu.1.1.1.1

/-- solid mode: `unparseRemainingTokens()` of the fresh tokenizer is the input, exactly -/
theorem unparse_tokenize_solid (s d : Str) (allowEmpty : Bool) (hs : StrOk s) (T : Tokenizer)
    (h : mkTokenizer s d true allowEmpty = .ok T) : T.unparseRemainingTokens = .ok s := by
  obtain ⟨u, e, hu⟩ := unparse_tokenize s d true allowEmpty hs T h
  simp only [ctorRtOk, Bool.and_eq_true, beq_iff_eq, unparseSpec, if_true] at hu
  rw [e, hu.1.1.1.2]

/-- non-solid mode with empty tokens: the input from the first non-delimiter on -/
theorem unparse_tokenize_allowEmpty (s d : Str) (hs : StrOk s) (T : Tokenizer)
    (h : mkTokenizer s d false true = .ok T) :
    T.unparseRemainingTokens = .ok (s.dropWhile (inSet d)) := by
  obtain ⟨u, e, hu⟩ := unparse_tokenize s d false true hs T h
  simp only [ctorRtOk, Bool.and_eq_true, beq_iff_eq, unparseSpec] at hu
  rw [e, hu.1.1.1.2]; rfl

/-- non-solid mode without empty tokens (the default): the input without its leading and trailing
delimiters -/
theorem unparse_tokenize_strip (s d : Str) (hs : StrOk s) (T : Tokenizer)
    (h : mkTokenizer s d false false = .ok T) :
    T.unparseRemainingTokens = .ok (stripSet d s) := by
  obtain ⟨u, e, hu⟩ := unparse_tokenize s d false false hs T h
  simp only [ctorRtOk, Bool.and_eq_true, beq_iff_eq, unparseSpec] at hu
  rw [e, hu.1.1.1.2]; rfl

/-- the naive form `unparse (tokenize s) = s` is false in both non-solid modes: leading delimiters
are never given back, trailing ones only when empty tokens are allowed -/
theorem unparse_naive_witness :
    (∃ T, mkTokenizer ",a,".toList ",".toList false false = .ok T ∧
      T.unparseRemainingTokens = .ok "a".toList) ∧
    (∃ T, mkTokenizer ",a,".toList ",".toList false true = .ok T ∧
      T.unparseRemainingTokens = .ok "a,".toList) ∧
    (∃ T, mkTokenizer ",a,".toList ",".toList true false = .ok T ∧
      T.unparseRemainingTokens = .ok ",a,".toList) :=
  ⟨⟨_, rfl, rfl⟩, ⟨_, rfl, rfl⟩, ⟨_, rfl, rfl⟩⟩

/-- **after `k` calls of `nextToken()`** (which return the first `k` tokens): the `k` tokens with
the separators recorded after them, followed by what `unparseRemainingTokens()` returns now, is what
it returned on the fresh object; after the last token it returns the empty string and `nextToken()`
raises -/
theorem unparse_after_next (s d : Str) (solid allowEmpty : Bool) (hs : StrOk s) (T : Tokenizer)
    (h : mkTokenizer s d solid allowEmpty = .ok T) (k : Nat) (hk : k ≤ T.tokens.length) :
    ∃ T' u0 uk, nextN k T = .ok (T.tokens.take k, T') ∧
      T.unparseRemainingTokens = .ok u0 ∧ T'.unparseRemainingTokens = .ok uk ∧
      advanceRtOk T.tokens T.splits k u0 uk = true ∧
      (k = T.tokens.length → T'.nextToken = .error .bpp) := by
  obtain ⟨hwf, hpos⟩ : T.WF ∧ T.pos = 0 := by
    rcases mkTokenizer_spec s d solid allowEmpty hs with e | ⟨t', e, h1, h2, _⟩
    · rw [e] at h; cases h
    · rw [e] at h; cases h; exact ⟨h1, h2⟩
  obtain ⟨u0, uk, h0, h1, h2⟩ := advance_rt T hwf hpos k hk
  have hn := nextN_eq k T (by omega)
  rw [hpos] at hn
  refine ⟨advance T k, u0, uk, by simpa using hn, h0, h1, h2, ?_⟩
  intro e
  apply nextToken_at_end
  simp [advance, hpos, e]

example : ∃ T, mkTokenizer "a,b,,c".toList ",".toList false false = .ok T ∧
    nextN 1 T = .ok (["a".toList], advance T 1) ∧
    (advance T 1).unparseRemainingTokens = .ok "b,,c".toList := ⟨_, rfl, rfl, rfl⟩

end Bpp.C17
