import BppProofs.Props.C15Obs
/-!
# C15 — object-level wrappers: when the calls with an edge object go through, when they are refused

The two executable preconditions the check evaluates on the implementation's reports
(`TW.addSonReady`, `TW.setFatherForeign`, BppModel/TreeObs.lean), proved of the model:

* `addSon_succeeds` — `addSon(father, son, edgeObject)` with two known node objects, a free edge
  object and no relation yet from the father to the son succeeds (hence, `addSon_keeps_object`,
  with the object attached to the new link).  The unrepaired code always threw.
* `setFather_refuses_foreign` — `setFather(node, father, edgeObject)` with an object attached to
  another branch than the one to the current father raises and changes nothing.  The unrepaired
  code unlinked the father and then threw.
-/
namespace Bpp.C15
open Bpp Bpp.Graph

/-- `addSon` with a free edge object, two known nodes and no relation yet between them goes through -/
theorem addSon_succeeds (tw : TW) (k : Nat) (a s x : Obj) (h : tw.addSonReady k a s x = true) :
    (tw.addSon k a s (some x)).1 = .ok := by
  unfold TW.addSonReady at h
  cases hk : tw.w.getObs k with
  | none => rw [hk] at h; cases h
  | some o =>
    rw [hk] at h
    simp only at h
    cases ha : AL.find a o.Ng with
    | none => rw [ha] at h; cases h
    | some ia =>
      cases hs : AL.find s o.Ng with
      | none => rw [ha, hs] at h; cases h
      | some is =>
        rw [ha, hs] at h
        simp only [Bool.and_eq_true, Bool.not_eq_true', Option.isNone_iff_eq_none] at h
        obtain ⟨⟨⟨hx, hna⟩, hns⟩, hout⟩ := h
        have hlink : ∃ e g', G.link ia is tw.w.g = .ok e g' := by
          unfold G.link G.linkRefused
          simp [hna, hns, hout]
        obtain ⟨e, g', hl⟩ := hlink
        simp [TW.addSon, TW.link, World.link, hk, ha, hs, hx, hl, TW.ofO]

/-- with a foreign edge object `setFather` raises and nothing changes -/
theorem setFather_refuses_foreign (tw : TW) (k : Nat) (a f x : Obj) (hw : WInv tw.w) (h : tw.setFatherForeign k a x = true) :
    tw.setFather k a f (some x) = (.exc .bpp, tw) := by
  unfold TW.setFatherForeign at h
  cases hk : tw.w.getObs k with
  | none => rw [hk] at h; cases h
  | some o =>
    rw [hk] at h
    simp only [Bool.and_eq_true, bne_iff_ne, ne_eq] at h
    exact setFather_refuses_foreign_object tw k a f x o hw hk h.1 h.2

example : ((TW.init true).run exHist).addSonReady 0 11 12 102 = true := by decide
example : ((TW.init true).run exHist).setFatherForeign 0 11 101 = true := by decide

end Bpp.C15
