import BppProofs.Props.C15Obs
import BppProofs.Lemmas.TreeObsReady
/-!
# C15 — object-level wrappers: when the calls with an edge object go through, when they are refused

The two executable preconditions the check evaluates on the implementation's reports
(`TW.addSonReady`, `TW.setFatherForeign`, BppModel/TreeObs.lean), proved of the model:

* `addSon_succeeds` — `addSon(father, son, edgeObject)` with two known node objects, a free edge
  object and no relation yet from the father to the son succeeds (hence, `addSon_keeps_object`,
  with the object attached to the new link).  The unrepaired code always threw.
* `setFather_refuses_foreign` — `setFather(node, father, edgeObject)` with an object attached to
  another branch than the one to the current father raises and changes nothing.  The unrepaired
  code unlinked the father and then threw.
* `setFather_succeeds` — `setFather(node, father, edgeObject)` with two known node objects, an edge object that is
  free or attached to the branch to the current father, and a node with at most one incoming neighbour
  (`TW.setFatherReady`) succeeds on every state satisfying the world invariant (hence, `setFather_keeps_object`,
  with the object attached to the new branch).
-/
namespace Bpp.C15
open Bpp Bpp.Graph

/-- `addSon` with a free edge object, two known nodes and no relation yet between them goes through -/
theorem addSon_succeeds (tw : TW) (k : Nat) (a s x : Obj) (h : tw.addSonReady k a s x = true) :
    (tw.addSon k a s (some x)).1 = .ok := by
  unfold TW.addSonReady at h
  cases hk : tw.w.getObs k with
  | none => rw [hk] at h; cases h
  | some o =>
    rw [hk] at h
    simp only at h
    cases ha : AL.find a o.Ng with
    | none => rw [ha] at h; cases h
    | some ia =>
      cases hs : AL.find s o.Ng with
      | none => rw [ha, hs] at h; cases h
      | some is =>
        rw [ha, hs] at h
        simp only [Bool.and_eq_true, Bool.not_eq_true', Option.isNone_iff_eq_none] at h
        obtain ⟨⟨⟨hx, hna⟩, hns⟩, hout⟩ := h
        have hlink : ∃ e g', G.link ia is tw.w.g = .ok e g' := by
          unfold G.link G.linkRefused
          simp [hna, hns, hout]
        obtain ⟨e, g', hl⟩ := hlink
        simp [TW.addSon, TW.link, World.link, hk, ha, hs, hx, hl, TW.ofO]

/-- with a foreign edge object `setFather` raises and nothing changes -/
theorem setFather_refuses_foreign (tw : TW) (k : Nat) (a f x : Obj) (hw : WInv tw.w) (h : tw.setFatherForeign k a x = true) :
    tw.setFather k a f (some x) = (.exc .bpp, tw) := by
  unfold TW.setFatherForeign at h
  cases hk : tw.w.getObs k with
  | none => rw [hk] at h; cases h
  | some o =>
    rw [hk] at h
    simp only [Bool.and_eq_true, bne_iff_ne, ne_eq] at h
    exact setFather_refuses_foreign_object tw k a f x o hw hk h.1 h.2

example : ((TW.init true).run exHist).addSonReady 0 11 12 102 = true := by decide
example : ((TW.init true).run exHist).setFatherForeign 0 11 101 = true := by decide

/-- `setFather` with a free edge object (or the object of the branch to the current father), two known nodes and a node
with at most one incoming neighbour goes through -/
theorem setFather_succeeds (tw : TW) (k : Nat) (a f x : Obj) (hw : WInv tw.w) (h : tw.setFatherReady k a f x = true) :
    (tw.setFather k a f (some x)).1 = .ok := by
  unfold TW.setFatherReady at h
  cases hk : tw.w.getObs k with
  | none => rw [hk] at h; cases h
  | some o =>
    rw [hk] at h
    simp only at h
    cases ha : AL.find a o.Ng with
    | none => rw [ha] at h; cases h
    | some ia =>
      cases hf : AL.find f o.Ng with
      | none => rw [ha, hf] at h; cases h
      | some ifa =>
        rw [ha, hf] at h
        simp only [Bool.and_eq_true, Bool.or_eq_true, Bool.not_eq_true', beq_iff_eq] at h
        obtain ⟨hx, hl⟩ := h
        rcases hin : tw.w.g.inNeighbors ia with _ | l
        · rw [hin] at hl; cases hl
        rw [hin] at hl
        have hlen : l.length ≤ 1 := by simpa using hl
        have hi := hw.obs k o hk
        -- the graph-level call goes through
        obtain ⟨u, gq, hok, hobs⟩ := TW.setFatherG_succeeds hw (hi.n_live f ifa hf) hin hlen
        obtain ⟨o1, hk1, hfresh, hcase⟩ := hobs k o hk
        have fs := TW.setFatherG_ok hw hok
        have hetf : tw.edgeToFather o a = (T.edgeToFather tw.w.g ia).map o.edgeFromGid := by
          simp [TW.edgeToFather, ha]
        rw [hetf] at hx
        -- an attached object is the one of the branch to the current father
        have hatt : ∀ ex, AL.find x o.Eg = some ex → T.edgeToFather tw.w.g ia = some ex := by
          intro ex hfx
          rcases hx with hx | hx
          · simp [Obs.hasEdge, AL.has, hfx] at hx
          · rcases hef : T.edgeToFather tw.w.g ia with _ | ef
            · rw [hef] at hx; cases hx
            · rw [hef] at hx
              simp only [Option.map_some, Option.some.injEq] at hx
              have hfwd : AL.find x o.Eg = some ef := by
                unfold Obs.edgeFromGid at hx
                split at hx
                · cases hx
                · exact hi.edges.fwd ef x hx
              rw [hfx] at hfwd; injection hfwd with hfwd; rw [hfwd]
        apply TW.setFather_ok_of hk ha hf ?_ hok fs.out hk1 ?_ (G.cons_out_some fs.winv.graph fs.out).2.1 hfresh
        · -- the refusal test lets the object pass
          intro ex hfx
          refine ⟨?_, hatt ex hfx⟩
          have hef := hatt ex hfx
          obtain ⟨hn, hkeys⟩ := G.inNeighbors_some hin
          rw [T.hasFather_eq, hn, ← hkeys]
          simp only [if_true, Option.some.injEq, decide_eq_true_eq]
          cases l with
          | nil =>
            exfalso
            have : T.father tw.w.g ia = none := by rw [T.father_eq, hn, ← hkeys]; rfl
            simp [T.edgeToFather, this] at hef
          | cons b l' => simp
        · -- the object is free when `associateEdge` runs
          rcases hcase with ⟨hnone, ho1⟩ | ⟨e0, hsome, ho1⟩
          · subst ho1
            rcases hfx : AL.find x o1.Eg with _ | ex
            · simp [Obs.hasEdge, AL.has, hfx]
            · have := hatt ex hfx
              rw [hnone] at this; cases this
          · subst ho1
            rcases hfx : AL.find x o.Eg with _ | ex
            · simp [Obs.hasEdge, AL.has, deletedEdge_find_none e0 hfx]
            · have := hatt ex hfx
              rw [hsome] at this; injection this with this; subst this
              simp [Obs.hasEdge, AL.has, deletedEdge_find_self (TW.edgeFromGid_of_find hi.edges hfx)]

example : ((TW.init true).run exHist).setFatherReady 0 11 12 100 = true := by decide
example : ((TW.init true).run exHist).setFatherReady 0 11 12 102 = true := by decide
example : ((TW.init true).run exHist).setFatherReady 0 11 12 101 = false := by decide

end Bpp.C15
