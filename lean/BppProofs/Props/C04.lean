import BppProofs.Lemmas.MatrixMisc
/-!
# C04 — matrix operations match their definitions for every shape and storage layout
(`src/Bpp/Numeric/Matrix/Matrix.h`, `src/Bpp/Numeric/Matrix/MatrixTools.h`)

Property theorems only; helper lemmas are in `Lemmas/Matrix*.lean`.  All statements are about the
model `Bpp.Mx` (`BppModel/Matrix.lean`) instantiated at `ℝ` (exact arithmetic: rounding is not
modelled), for **every** shape — `0 × 0`, `1 × n`, `n × 1`, non-square, no bound on the size — and
for **every** storage class of every operand and of the output: `A B O : Store ℝ` range over the
three classes (`Store.row`, `Store.col`, `Store.lin`), constrained only by the class invariant
`Store.WF` (all inner vectors of equal length / flat vector of `rows*cols` elements).

Vocabulary
* `S.Holds r c f` (`BppModel/Matrix.lean`): `S` is well formed, reports the dimensions its class
  reports for an `r × c` matrix (`Kind.shape`: a vector-of-rows matrix without rows has no columns)
  and `S(i,j)` returns `f i j` for all `i < r`, `j < c`.
* `A.entry i j`: the entry `A(i,j)` (`get_eq_entry`: what `get` returns for `i < nrows`, `j < ncols`).
* `Spec.*`: the executable textbook definitions that the driver evaluates in `Rat` on the
  implementation's answers; `sumTo_eq_sum`, `mult_toMat`, … identify them with Mathlib's
  `Finset.sum` and `Matrix` operations.
Every `…_spec` theorem asserts a normal return (`= .ok O'`), hence in particular the absence of any
out-of-range access (`Err.ub`) for these operands; `no_oob_*` spell that out for all operands,
conformable or not, for nine routines (for the others it is the disjunction of `…_spec` and
`…_nonconformable_raises`, whose hypotheses are complementary).  No theorem covers `covar` without rows
or columns, the extremum search on an empty matrix, and the second and third `kroneckerMult` with
`check = false`.
-/
namespace Bpp.C04
open Bpp Bpp.Mx Bpp.Mx.Store

/-! ## the three storage classes behave alike (`Matrix.h:92, 200, 318`) -/

/-- reading inside the reported dimensions is defined, for each class -/
theorem get_in_range {S : Store ℝ} (hw : S.WF) {i j : Nat} (hi : i < S.nrows) (hj : j < S.ncols) :
    S.get i j = .ok (S.entry i j) := get_eq_entry hw hi hj

/-- `M(i,j) = x` inside the reported dimensions, for each class: defined, keeps the class, the
dimensions and the invariant, is read back, and leaves every other entry alone -/
theorem get_set_law {S : Store ℝ} (hw : S.WF) {i j : Nat} (hi : i < S.nrows) (hj : j < S.ncols) (x : ℝ) :
    ∃ S', S.set i j x = .ok S' ∧ S'.WF ∧ S'.kind = S.kind ∧ S'.nrows = S.nrows ∧ S'.ncols = S.ncols ∧
      S'.get i j = .ok x ∧
      ∀ p q, p < S.nrows → q < S.ncols → (p ≠ i ∨ q ≠ j) → S'.get p q = S.get p q :=
  set_spec hw hi hj x

/-- `resize(r, c)`, for each class: the result is well formed, reports the dimensions of an
`r × c` matrix, keeps the entries of the common leading block and zero-fills the rest -/
theorem resize_law {S : Store ℝ} (hw : S.WF) (r c : Nat) :
    (S.resize r c).Holds r c (fun i j => if i < S.nrows ∧ j < S.ncols then S.entry i j else 0) :=
  ⟨resize_wf S r c, by rw [resize_dims, resize_kind], fun i j hi hj => by
    rw [resize_get hw r c hi hj]; simp⟩

/-- the reported dimensions are the requested ones, except that a vector-of-rows (-columns) matrix
without rows (columns) reports `0 × 0` -/
theorem shape_proper (k : Kind) {r c : Nat} (h : (r = 0 ↔ c = 0)) : k.shape r c = (r, c) := by
  cases k <;> simp [Kind.shape] <;> omega

/-- an operand of any class built from `r × c` entries holds them -/
theorem ofFn_spec (k : Kind) (r c : Nat) (f : Nat → Nat → ℝ) :
    (Store.ofFn k r c f).kind = k ∧ (Store.ofFn k r c f).Holds r c f := ⟨ofFn_kind k r c f, ofFn_holds k r c f⟩

/-! ## copies and constructors (`MatrixTools.h:36-193`) -/

theorem copy_spec {A : Store ℝ} (hA : A.WF) (O : Store ℝ) :
    ∃ O', copy A O = .ok O' ∧ O'.kind = O.kind ∧ O'.Holds A.nrows A.ncols A.entry := copy_holds hA O

theorem copyUp_spec {A : Store ℝ} (hA : A.WF) (O : Store ℝ) :
    ∃ O', copyUp A O = .ok O' ∧ O'.kind = O.kind ∧
      O'.Holds A.nrows A.ncols (fun i j => if i + 1 < A.nrows then A.entry (i + 1) j else 0) := by
  obtain ⟨O', e, k, h⟩ := copyUp_holds hA O
  exact ⟨O', e, k, h.congr (fun i j _ _ => by simp)⟩

theorem copyDown_spec {A : Store ℝ} (hA : A.WF) (O : Store ℝ) :
    ∃ O', copyDown A O = .ok O' ∧ O'.kind = O.kind ∧
      O'.Holds A.nrows A.ncols (fun i j => if i = 0 then 0 else A.entry (i - 1) j) := by
  obtain ⟨O', e, k, h⟩ := copyDown_holds hA O
  exact ⟨O', e, k, h.congr (fun i j _ _ => by simp)⟩

theorem getId_spec (n : Nat) (O : Store ℝ) :
    ∃ O', getId n O = .ok O' ∧ O'.kind = O.kind ∧ O'.Holds n n (fun i j => if i = j then 1 else 0) := by
  obtain ⟨O', e, k, h⟩ := getId_holds n O
  exact ⟨O', e, k, h.congr (fun i j _ _ => by simp [Spec.identity])⟩

theorem diag_spec (D : Array ℝ) (O : Store ℝ) :
    ∃ O', diagV D O = .ok O' ∧ O'.kind = O.kind ∧
      O'.Holds D.size D.size (fun i j => if i = j then D.getD i 0 else 0) := by
  obtain ⟨O', e, k, h⟩ := diagV_holds D O
  exact ⟨O', e, k, h.congr (fun i j _ _ => by simp [Spec.diag])⟩

theorem diagScalar_spec (x : ℝ) (n : Nat) (O : Store ℝ) :
    ∃ O', diagS x n O = .ok O' ∧ O'.kind = O.kind ∧ O'.Holds n n (fun i j => if i = j then x else 0) := by
  obtain ⟨O', e, k, h⟩ := diagS_holds x n O
  exact ⟨O', e, k, h.congr (fun i j _ _ => by simp [Spec.diag])⟩

theorem fill_spec {A : Store ℝ} (hA : A.WF) (x : ℝ) :
    ∃ A', fillAll A x = .ok A' ∧ A'.kind = A.kind ∧ A'.Holds A.nrows A.ncols (fun _ _ => x) := fillAll_holds hA x

/-- `fillDiag` on any shape (also with more rows than columns) -/
theorem fillDiag_spec {A : Store ℝ} (hA : A.WF) (x : ℝ) :
    ∃ A', fillDiag A x = .ok A' ∧ A'.kind = A.kind ∧
      A'.Holds A.nrows A.ncols (fun i j => if i = j then x else A.entry i j) := fillDiag_holds hA x

/-! ## products (`MatrixTools.h:225-414`) -/

/-- plain product: entry `(i,j)` is `Σ_k A(i,k)·B(k,j)`, dimensions `nrA × ncB` -/
theorem mult_spec {A B : Store ℝ} (hA : A.WF) (hB : B.WF) (O : Store ℝ) (h : A.ncols = B.nrows) :
    ∃ O', mult A B O = .ok O' ∧ O'.kind = O.kind ∧
      O'.Holds A.nrows B.ncols (fun i j => ∑ k ∈ Finset.range A.ncols, A.entry i k * B.entry k j) := by
  obtain ⟨O', e, k, hh⟩ := mult_holds hA hB O h
  exact ⟨O', e, k, hh.congr (fun i j _ _ => by simp [Spec.mult, sumTo_eq_sum])⟩

/-- the same as an equation between Mathlib matrices -/
theorem mult_spec_matrix {A B : Store ℝ} (hA : A.WF) (hB : B.WF) (O : Store ℝ) (h : A.ncols = B.nrows) :
    ∃ O', mult A B O = .ok O' ∧ ∃ g, O'.Holds A.nrows B.ncols g ∧
      toMat A.nrows B.ncols g = toMat A.nrows A.ncols A.entry * toMat A.ncols B.ncols B.entry := by
  obtain ⟨O', e, _, hh⟩ := mult_holds hA hB O h
  exact ⟨O', e, _, hh, mult_toMat _ _ _ _ _⟩

/-- diagonal middle factor: `A · diag(D) · B` -/
theorem multDiag_spec {A B : Store ℝ} (hA : A.WF) (hB : B.WF) (D : Array ℝ) (O : Store ℝ)
    (h : A.ncols = B.nrows) (hD : A.ncols = D.size) :
    ∃ O', multD A D B O = .ok O' ∧ O'.kind = O.kind ∧
      O'.Holds A.nrows B.ncols
        (Spec.mult (Spec.mult A.entry (Spec.diag fun k => D.getD k 0) A.ncols) B.entry A.ncols) := by
  obtain ⟨O', e, k, hh⟩ := multD_holds hA hB D O h hD
  refine ⟨O', e, k, hh.congr (fun i j _ _ => ?_)⟩
  rw [← multD_eq]; simp only [ScalarReal.zero_eq]

/-- tridiagonal middle factor: `A · (U + D + L) · B`, for every size `≥ 1` including `1 × 1` -/
theorem multTridiag_spec {A B : Store ℝ} (hA : A.WF) (hB : B.WF) (D U L : Array ℝ) (O : Store ℝ)
    (h : A.ncols = B.nrows) (hD : A.ncols = D.size) (hU : A.ncols = U.size + 1) (hL : A.ncols = L.size + 1) :
    ∃ O', multT A D U L B O = .ok O' ∧ O'.kind = O.kind ∧
      O'.Holds A.nrows B.ncols
        (Spec.mult (Spec.mult A.entry (Spec.tridiag (fun k => D.getD k 0) (fun k => U.getD k 0) (fun k => L.getD k 0)) A.ncols)
          B.entry A.ncols) := by
  obtain ⟨O', e, k, hh⟩ := multT_holds hA hB D U L O h hD hU hL
  refine ⟨O', e, k, hh.congr (fun i j _ _ => ?_)⟩
  rw [← triCode_eq_spec _ _ _ _ _ _ _ _ (by omega)]; simp only [ScalarReal.zero_eq]

/-- product of complex matrices given as (real, imaginary) pairs -/
theorem multComplex_spec {A iA B iB : Store ℝ} (hA : A.WF) (hiA : iA.WF) (hB : B.WF) (hiB : iB.WF) (O iO : Store ℝ)
    (h : A.ncols = B.nrows) (h1 : iA.nrows = A.nrows ∧ iA.ncols = A.ncols) (h2 : iB.nrows = B.nrows ∧ iB.ncols = B.ncols) :
    ∃ O' iO', multC A iA B iB O iO = .ok (O', iO') ∧ O'.kind = O.kind ∧ iO'.kind = iO.kind ∧
      O'.Holds A.nrows B.ncols (fun i j => ∑ k ∈ Finset.range A.ncols, (A.entry i k * B.entry k j - iA.entry i k * iB.entry k j)) ∧
      iO'.Holds A.nrows B.ncols (fun i j => ∑ k ∈ Finset.range A.ncols, (A.entry i k * iB.entry k j + iA.entry i k * B.entry k j)) := by
  obtain ⟨O', iO', e, k1, k2, H1, H2⟩ := multC_holds hA hiA hB hiB O iO h h1 h2
  exact ⟨O', iO', e, k1, k2, H1.congr (fun i j _ _ => by simp [Spec.cmulRe, sumTo_eq_sum]),
    H2.congr (fun i j _ _ => by simp [Spec.cmulIm, sumTo_eq_sum])⟩

/-- complex pairs with a complex diagonal middle factor: `(A + i·iA)(D + i·iD)(B + i·iB)`; both
outputs are sized -/
theorem multComplexDiag_spec {A iA B iB : Store ℝ} (hA : A.WF) (hiA : iA.WF) (hB : B.WF) (hiB : iB.WF)
    (D iD : Array ℝ) (O iO : Store ℝ)
    (h : A.ncols = B.nrows) (hD : A.ncols = D.size) (hiD : A.ncols = iD.size)
    (h1 : iA.nrows = A.nrows ∧ iA.ncols = A.ncols) (h2 : iB.nrows = B.nrows ∧ iB.ncols = B.ncols) :
    ∃ O' iO', multCD A iA D iD B iB O iO = .ok (O', iO') ∧ O'.kind = O.kind ∧ iO'.kind = iO.kind ∧
      O'.Holds A.nrows B.ncols
        (Spec.cmulRe (Spec.cmulRe A.entry iA.entry (Spec.diag fun k => D.getD k 0) (Spec.diag fun k => iD.getD k 0) A.ncols)
          (Spec.cmulIm A.entry iA.entry (Spec.diag fun k => D.getD k 0) (Spec.diag fun k => iD.getD k 0) A.ncols)
          B.entry iB.entry A.ncols) ∧
      iO'.Holds A.nrows B.ncols
        (Spec.cmulIm (Spec.cmulRe A.entry iA.entry (Spec.diag fun k => D.getD k 0) (Spec.diag fun k => iD.getD k 0) A.ncols)
          (Spec.cmulIm A.entry iA.entry (Spec.diag fun k => D.getD k 0) (Spec.diag fun k => iD.getD k 0) A.ncols)
          B.entry iB.entry A.ncols) := by
  obtain ⟨O', iO', e, k1, k2, H1, H2⟩ := multCD_holds hA hiA hB hiB D iD O iO h hD hiD h1 h2
  refine ⟨O', iO', e, k1, k2, H1.congr (fun i j _ _ => ?_), H2.congr (fun i j _ _ => ?_)⟩
  · rw [← multCD_re_eq]; simp only [ScalarReal.zero_eq]
  · rw [← multCD_im_eq]; simp only [ScalarReal.zero_eq]

/-! ## sums, scaling, transpose (`MatrixTools.h:205-217, 424-468, 838-848`) -/

theorem add_spec {A B : Store ℝ} (hA : A.WF) (hB : B.WF) (hr : A.nrows = B.nrows) (hc : A.ncols = B.ncols) :
    ∃ A', add A B = .ok A' ∧ A'.kind = A.kind ∧ A'.Holds A.nrows A.ncols (fun i j => A.entry i j + B.entry i j) :=
  add_holds hA hB hr hc

theorem addScaled_spec {A B : Store ℝ} (hA : A.WF) (hB : B.WF) (x : ℝ) (hr : A.nrows = B.nrows) (hc : A.ncols = B.ncols) :
    ∃ A', addS A x B = .ok A' ∧ A'.kind = A.kind ∧ A'.Holds A.nrows A.ncols (fun i j => A.entry i j + x * B.entry i j) :=
  addS_holds hA hB x hr hc

/-- `scale`: `a·A(i,j) + b`, including the shortcut taken for `a = 1`, `b = 0` -/
theorem scale_spec {A : Store ℝ} (hA : A.WF) (a b : ℝ) :
    ∃ A', scale A a b = .ok A' ∧ A'.kind = A.kind ∧ A'.Holds A.nrows A.ncols (fun i j => a * A.entry i j + b) :=
  scale_holds_real hA a b

theorem transpose_spec {A : Store ℝ} (hA : A.WF) (O : Store ℝ) :
    ∃ O', transpose A O = .ok O' ∧ O'.kind = O.kind ∧ O'.Holds A.ncols A.nrows (fun i j => A.entry j i) :=
  transpose_holds hA O

/-- transposing twice (through an intermediate of any class) gives the matrix back; for shapes that
every class can represent -/
theorem transpose_involution {A : Store ℝ} (hA : A.WF) (hshape : A.nrows = 0 ↔ A.ncols = 0) (T O : Store ℝ) :
    ∃ T' O', transpose A T = .ok T' ∧ transpose T' O = .ok O' ∧ O'.kind = O.kind ∧
      O'.Holds A.nrows A.ncols A.entry := by
  obtain ⟨T', e1, _, h1⟩ := transpose_holds hA T
  have hd : T'.nrows = A.ncols ∧ T'.ncols = A.nrows := by
    have := h1.2.1
    rw [shape_proper _ (by omega)] at this
    exact ⟨(Prod.mk.inj this).1, (Prod.mk.inj this).2⟩
  obtain ⟨O', e2, k2, h2⟩ := transpose_holds h1.1 O
  rw [hd.1, hd.2] at h2
  exact ⟨T', O', e1, e2, k2, h2.congr (fun i j hi hj => by simp [Spec.transpose, h1.entry_eq hj hi])⟩

/-! ## integer power and power series (`MatrixTools.h:482-581`) -/

/-- `pow(A, p, O)` is `A^p` for every `p` (strong induction over the halving recursion of the source);
`Spec.pow` is the textbook `A^0 = I`, `A^(p+1) = A^p·A` -/
theorem pow_spec {A : Store ℝ} (hA : A.WF) (hsq : A.nrows = A.ncols) (p : Nat) (O : Store ℝ) :
    ∃ O', pow A p O = .ok O' ∧ O'.kind = O.kind ∧ O'.Holds A.nrows A.nrows (Spec.pow A.entry A.nrows p) :=
  pow_holds hA hsq p O

/-- … and as Mathlib's monoid power of the matrix of `A` -/
theorem pow_spec_matrix {A : Store ℝ} (hA : A.WF) (hsq : A.nrows = A.ncols) (p : Nat) (O : Store ℝ) :
    ∃ O', pow A p O = .ok O' ∧ ∃ g, O'.Holds A.nrows A.nrows g ∧
      toMat A.nrows A.nrows g = (toMat A.nrows A.nrows A.entry) ^ p := by
  obtain ⟨O', e, _, g, hg, eg⟩ := pow_holdsSq p (holdsSq_self hA hsq) O
  exact ⟨O', e, g, hg, eg⟩

theorem specPow_eq_matrix_pow (a : Nat → Nat → ℝ) (n p : Nat) : toMat n n (Spec.pow a n p) = (toMat n n a) ^ p :=
  specPow_toMat a n p

/-- `Taylor(A, p, vO)`: `p + 1` matrices, `vO[q] = A^q`, for every `p` including `p = 0` -/
theorem taylor_spec {A : Store ℝ} (hA : A.WF) (hsq : A.nrows = A.ncols) (p : Nat) :
    ∃ v : Array (Store ℝ), taylor A p = .ok v ∧ v.size = p + 1 ∧
      ∀ q (h : q < v.size), v[q].kind = .row ∧ v[q].Holds A.nrows A.nrows (Spec.pow A.entry A.nrows q) :=
  taylor_holds hA hsq p

/-! ## Kronecker, Hadamard and direct sums (`MatrixTools.h:922-1209`) -/

/-- `A ⊗ B`: entry `(i,j)` is `A(i / nrB, j / ncB) · B(i % nrB, j % ncB)` -/
theorem kron_spec {A B : Store ℝ} (hA : A.WF) (hB : B.WF) (O : Store ℝ) :
    ∃ O', kron A B O true = .ok O' ∧ O'.kind = O.kind ∧
      O'.Holds (A.nrows * B.nrows) (A.ncols * B.ncols)
        (fun i j => A.entry (i / B.nrows) (j / B.ncols) * B.entry (i % B.nrows) (j % B.ncols)) := kron_holds hA hB O

/-- `check = false`: into an output at least as large, the rest of which is left alone -/
theorem kron_nocheck_spec {A B O : Store ℝ} (hA : A.WF) (hB : B.WF) (hO : O.WF)
    (hR : A.nrows * B.nrows ≤ O.nrows) (hC : A.ncols * B.ncols ≤ O.ncols) :
    ∃ O', kron A B O false = .ok O' ∧ O'.WF ∧ O'.kind = O.kind ∧ O'.nrows = O.nrows ∧ O'.ncols = O.ncols ∧
      ∀ p q, p < O.nrows → q < O.ncols →
        O'.get p q = if p < A.nrows * B.nrows ∧ q < A.ncols * B.ncols
          then .ok (A.entry (p / B.nrows) (q / B.ncols) * B.entry (p % B.nrows) (q % B.ncols)) else O.get p q := by
  obtain ⟨O', e, ⟨hw, hk, hr, hc⟩, hget⟩ := kron_nocheck hA hB hO hR hC
  refine ⟨O', e, hw, hk, hr, hc, fun p q hp hq => ?_⟩
  split
  · next h => exact (hget p q hp hq).1 h
  · next h => exact (hget p q hp hq).2 h

theorem kronDiag_spec {A : Store ℝ} (hA : A.WF) (dim : Nat) (v : ℝ) (O : Store ℝ) :
    ∃ O', kronD A dim v O true = .ok O' ∧ O'.kind = O.kind ∧
      O'.Holds (A.nrows * dim) (A.ncols * dim)
        (fun i j => A.entry (i / dim) (j / dim) * (if i % dim = j % dim then v else 0)) := by
  obtain ⟨O', e, k, h⟩ := kronD_holds hA dim v O
  exact ⟨O', e, k, h.congr (fun i j _ _ => by simp [Spec.kron, Spec.diag])⟩

theorem kronReplacedDiag_spec {A B : Store ℝ} (hA : A.WF) (hB : B.WF) (dA dB : ℝ) (O : Store ℝ) :
    ∃ O', kron2 A B dA dB O true = .ok O' ∧ O'.kind = O.kind ∧
      O'.Holds (A.nrows * B.nrows) (A.ncols * B.ncols)
        (Spec.kron (fun i j => if i = j then dA else A.entry i j) (fun i j => if i = j then dB else B.entry i j)
          B.nrows B.ncols) := kron2_holds hA hB dA dB O

theorem hadamard_spec {A B : Store ℝ} (hA : A.WF) (hB : B.WF) (O : Store ℝ) (hr : A.nrows = B.nrows) (hc : A.ncols = B.ncols) :
    ∃ O', had A B O = .ok O' ∧ O'.kind = O.kind ∧ O'.Holds A.nrows A.ncols (fun i j => A.entry i j * B.entry i j) :=
  had_holds hA hB O hr hc

theorem hadamardComplex_spec {A iA B iB : Store ℝ} (hA : A.WF) (hiA : iA.WF) (hB : B.WF) (hiB : iB.WF) (O iO : Store ℝ)
    (hr : A.nrows = B.nrows) (hc : A.ncols = B.ncols)
    (h1 : iA.nrows = A.nrows ∧ iA.ncols = A.ncols) (h2 : iB.nrows = B.nrows ∧ iB.ncols = B.ncols) :
    ∃ O' iO', hadC A iA B iB O iO = .ok (O', iO') ∧ O'.kind = O.kind ∧ iO'.kind = iO.kind ∧
      O'.Holds A.nrows A.ncols (fun i j => A.entry i j * B.entry i j - iA.entry i j * iB.entry i j) ∧
      iO'.Holds A.nrows A.ncols (fun i j => iA.entry i j * B.entry i j + A.entry i j * iB.entry i j) :=
  hadC_holds hA hiA hB hiB O iO hr hc h1 h2

theorem hadamardVector_spec {A : Store ℝ} (hA : A.WF) (v : Array ℝ) (O : Store ℝ) (row : Bool)
    (h : (if row then A.nrows else A.ncols) = v.size) :
    ∃ O', hadV A v O row = .ok O' ∧ O'.kind = O.kind ∧
      O'.Holds A.nrows A.ncols (fun i j => A.entry i j * v.getD (if row then i else j) 0) := by
  obtain ⟨O', e, k, hh⟩ := hadV_holds hA v O row h
  exact ⟨O', e, k, hh.congr (fun i j _ _ => by simp only [ScalarReal.zero_eq])⟩

/-- `A ⊕ B` for blocks of any shape (non-square included) -/
theorem directSum_spec {A B : Store ℝ} (hA : A.WF) (hB : B.WF) (O : Store ℝ) :
    ∃ O', dsum A B O = .ok O' ∧ O'.kind = O.kind ∧
      O'.Holds (A.nrows + B.nrows) (A.ncols + B.ncols)
        (fun i j =>
          if i < A.nrows then (if j < A.ncols then A.entry i j else 0)
          else if j < A.ncols then 0 else B.entry (i - A.nrows) (j - A.ncols)) := by
  obtain ⟨O', e, k, h⟩ := dsum_holds hA hB O
  refine ⟨O', e, k, h.congr (fun i j hi hj => ?_)⟩
  simp only [Spec.dsum, ScalarReal.zero_eq]
  by_cases h1 : i < A.nrows
  · simp [h1]
  · by_cases h2 : j < A.ncols
    · simp [h1, h2]
    · have : i - A.nrows < B.nrows ∧ j - A.ncols < B.ncols := by omega
      simp [h1, h2, this]

/-- the n-ary direct sum: `Spec.dsumFold` folds the binary direct sum from the left over the blocks -/
theorem directSumN_spec (vA : List (Store ℝ)) (hwf : ∀ M ∈ vA, M.WF) (O : Store ℝ) :
    ∃ O', dsumN vA O = .ok O' ∧ O'.kind = O.kind ∧
      O'.Holds (Spec.dsumFold (0, 0, fun _ _ => 0) (vA.map fun M => (M.nrows, M.ncols, M.entry))).1
        (Spec.dsumFold (0, 0, fun _ _ => 0) (vA.map fun M => (M.nrows, M.ncols, M.entry))).2.1
        (Spec.dsumFold (0, 0, fun _ _ => 0) (vA.map fun M => (M.nrows, M.ncols, M.entry))).2.2 := by
  have := dsumN_holds vA hwf O
  simp only [ScalarReal.zero_eq] at this
  exact this

/-! ## covariance (`MatrixTools.h:887-911`) -/

/-- `covar(A, O)`: `(1/n)·A·Aᵀ − μ·μᵀ` for a sample matrix with `r ≥ 1` rows and `n ≥ 1` columns -/
theorem covar_spec {A : Store ℝ} (hA : A.WF) (hr : 0 < A.nrows) (hn : 0 < A.ncols) (O : Store ℝ) :
    ∃ O', covar A O = .ok O' ∧ O'.kind = O.kind ∧
      O'.Holds A.nrows A.nrows (fun i l =>
        (1 / (A.ncols : ℝ)) * (∑ j ∈ Finset.range A.ncols, A.entry i j * A.entry l j)
          - ((∑ j ∈ Finset.range A.ncols, A.entry i j) / A.ncols) * ((∑ j ∈ Finset.range A.ncols, A.entry l j) / A.ncols)) := by
  obtain ⟨O', e, k, h⟩ := covar_holds hA hr hn O
  refine ⟨O', e, k, h.congr (fun i l _ _ => ?_)⟩
  simp only [Spec.covar, Spec.rowMean, sumTo_eq_sum, ScalarReal.one_eq, ScalarReal.ofInt_eq]
  push_cast
  ring

/-! ## extremum search and element sum (`MatrixTools.h:587-693, 1239-1250`) -/

/-- `whichMax` / `max` of a non-empty matrix: the position is inside the matrix, holds the largest
entry, and is the first such position in row-major scan order -/
theorem whichMax_spec {A : Store ℝ} (hA : A.WF) (hr : 0 < A.nrows) (hc : 0 < A.ncols) :
    ∃ s, scanMax A = .ok s ∧ s.i < A.nrows ∧ s.j < A.ncols ∧ s.cur = some (A.entry s.i s.j) ∧
      (∀ p q, p < A.nrows → q < A.ncols → A.entry p q ≤ A.entry s.i s.j) ∧
      (∀ p q, q < A.ncols → (p < s.i ∨ (p = s.i ∧ q < s.j)) → A.entry p q < A.entry s.i s.j) := by
  obtain ⟨s, e, h1, h2, h3, h4, h5⟩ := scan_nonempty (fun x c => c < x) ExtCmp.gtNegInf (fun x c => Scalar.gtb x c)
    (fun _ => rfl) (fun x c => ScalarReal.gtb_iff x c)
    (fun x c y hxc hyc => lt_of_le_of_lt (not_lt.mp hyc) hxc)
    (fun x c y hxc hyc => not_lt.mpr (le_of_lt (lt_of_le_of_lt (not_lt.mp hyc) hxc)))
    (fun x => lt_irrefl x) hA hr hc
  exact ⟨s, e, h1, h2, h3, fun p q hp hq => not_lt.mp (h4 p q hp hq), h5⟩

theorem whichMin_spec {A : Store ℝ} (hA : A.WF) (hr : 0 < A.nrows) (hc : 0 < A.ncols) :
    ∃ s, scanMin A = .ok s ∧ s.i < A.nrows ∧ s.j < A.ncols ∧ s.cur = some (A.entry s.i s.j) ∧
      (∀ p q, p < A.nrows → q < A.ncols → A.entry s.i s.j ≤ A.entry p q) ∧
      (∀ p q, q < A.ncols → (p < s.i ∨ (p = s.i ∧ q < s.j)) → A.entry s.i s.j < A.entry p q) := by
  obtain ⟨s, e, h1, h2, h3, h4, h5⟩ := scan_nonempty (fun x c => x < c) ExtCmp.ltPosInf (fun x c => Scalar.ltb x c)
    (fun _ => rfl) (fun x c => ScalarReal.ltb_iff x c)
    (fun x c y hxc hyc => lt_of_lt_of_le hxc (not_lt.mp hyc))
    (fun x c y hxc hyc => not_lt.mpr (le_of_lt (lt_of_lt_of_le hxc (not_lt.mp hyc))))
    (fun x => lt_irrefl x) hA hr hc
  exact ⟨s, e, h1, h2, h3, fun p q hp hq => not_lt.mp (h4 p q hp hq), h5⟩

/-- `sumElements`: the sum of all entries (row by row) -/
theorem sumElements_spec {M : Store ℝ} (hM : M.WF) :
    sumElements M = .ok (∑ i ∈ Finset.range M.nrows, ∑ j ∈ Finset.range M.ncols, M.entry i j) := by
  rw [sumElements_eq hM]
  congr 1
  unfold Spec.total
  have inner : ∀ (c : Nat) (s : ℝ) (f : Nat → ℝ), (List.range c).foldl (fun s j => s + f j) s = s + ∑ j ∈ Finset.range c, f j := by
    intro c s f
    induction c with
    | zero => simp
    | succ c ih => rw [List.range_succ, List.foldl_append, ih, Finset.sum_range_succ]; simp; ring
  have outer : ∀ (r : Nat), (List.range r).foldl (fun s i => (List.range M.ncols).foldl (fun s j => s + M.entry i j) s) (Scalar.zero : ℝ)
      = ∑ i ∈ Finset.range r, ∑ j ∈ Finset.range M.ncols, M.entry i j := by
    intro r
    induction r with
    | zero => simp
    | succ r ih => rw [List.range_succ, List.foldl_append, ih, Finset.sum_range_succ]; simp [inner]
  exact outer M.nrows

/-- `diag(M, O)`: the diagonal of a square matrix as a vector; a `DimensionException` otherwise -/
theorem diagOf_spec {M : Store ℝ} (hM : M.WF) :
    (M.ncols = M.nrows → ∃ v, diagM M = .ok v ∧ v.size = M.nrows ∧ ∀ i (hi : i < v.size), v[i] = M.entry i i) ∧
    (M.ncols ≠ M.nrows → diagM M = .error .dimension) :=
  ⟨fun h => diagM_ok hM h, fun h => diagM_nonsquare h⟩

/-- `toVVdouble`: `nrows` vectors of `ncols` entries -/
theorem toVVdouble_spec {M : Store ℝ} (hM : M.WF) :
    ∃ vv, toVV M = .ok vv ∧ vv.size = M.nrows ∧
      ∀ i (hi : i < vv.size), vv[i].size = M.ncols ∧ ∀ j (hj : j < vv[i].size), vv[i][j] = M.entry i j := toVV_ok hM

/-- `isSymmetric` answers `true` exactly for square matrices equal to their transpose -/
theorem isSymmetric_spec {A : Store ℝ} (hA : A.WF) :
    ∃ b, isSymmetric A = .ok b ∧
      (b = true ↔ A.ncols = A.nrows ∧ ∀ i j, i < A.nrows → j < A.nrows → A.entry i j = A.entry j i) := by
  by_cases hsq : A.ncols = A.nrows
  · refine ⟨_, isSymmetric_ok hA hsq, ?_⟩
    simp only [List.all_eq_true, List.mem_range, ScalarReal.eqb_iff]
    constructor
    · intro h
      refine ⟨hsq, ?_⟩
      have hlt : ∀ i j, i < j → j < A.nrows → A.entry i j = A.entry j i := by
        intro i j hij hj
        have := h i (by omega) (j - (i + 1)) (by omega)
        have e : i + 1 + (j - (i + 1)) = j := by omega
        rwa [e] at this
      intro i j hi hj
      rcases Nat.lt_trichotomy i j with h1 | h1 | h1
      · exact hlt i j h1 hj
      · rw [h1]
      · exact (hlt j i h1 hi).symm
    · intro h i hi t ht
      exact h.2 i (i + 1 + t) (by omega) (by omega)
  · refine ⟨false, isSymmetric_nonsquare hsq, ?_⟩
    simp [hsq]

/-! ## non-conformable operands raise a dimension error (and nothing is read) -/

theorem mult_nonconformable_raises {A B : Store ℝ} (O : Store ℝ) (h : A.ncols ≠ B.nrows) :
    mult A B O = .error .dimension := mult_nonconformable O h

theorem multDiag_nonconformable_raises {A B : Store ℝ} (D : Array ℝ) (O : Store ℝ)
    (h : A.ncols ≠ B.nrows ∨ A.ncols ≠ D.size) : multD A D B O = .error .dimension := multD_nonconformable D O h

theorem multTridiag_nonconformable_raises {A B : Store ℝ} (D U L : Array ℝ) (O : Store ℝ)
    (h : A.ncols ≠ B.nrows ∨ A.ncols ≠ D.size ∨ A.ncols ≠ U.size + 1 ∨ A.ncols ≠ L.size + 1) :
    multT A D U L B O = .error .dimension := multT_nonconformable D U L O h

/-- in particular when an imaginary part has another size than its real part -/
theorem multComplex_nonconformable_raises {A iA B iB : Store ℝ} (O iO : Store ℝ)
    (h : A.ncols ≠ B.nrows ∨ ¬ (iA.nrows = A.nrows ∧ iA.ncols = A.ncols) ∨ ¬ (iB.nrows = B.nrows ∧ iB.ncols = B.ncols)) :
    multC A iA B iB O iO = .error .dimension := multC_nonconformable O iO h

theorem multComplexDiag_nonconformable_raises {A iA B iB : Store ℝ} (D iD : Array ℝ) (O iO : Store ℝ)
    (h : A.ncols ≠ B.nrows ∨ A.ncols ≠ D.size ∨ A.ncols ≠ iD.size ∨ ¬ (iA.nrows = A.nrows ∧ iA.ncols = A.ncols) ∨
      ¬ (iB.nrows = B.nrows ∧ iB.ncols = B.ncols)) :
    multCD A iA D iD B iB O iO = .error .dimension := multCD_nonconformable D iD O iO h

/-- also when `A` is smaller than `B` -/
theorem add_nonconformable_raises {A B : Store ℝ} (h : A.nrows ≠ B.nrows ∨ A.ncols ≠ B.ncols) :
    add A B = .error .dimension := add_nonconformable h

theorem addScaled_nonconformable_raises {A B : Store ℝ} (x : ℝ) (h : A.nrows ≠ B.nrows ∨ A.ncols ≠ B.ncols) :
    addS A x B = .error .dimension := addS_nonconformable x h

theorem pow_nonconformable_raises {A : Store ℝ} (hsq : A.nrows ≠ A.ncols) (p : Nat) (O : Store ℝ) :
    pow A p O = .error .dimension := pow_nonconformable hsq p O

theorem taylor_nonconformable_raises {A : Store ℝ} (hsq : A.nrows ≠ A.ncols) (p : Nat) :
    taylor A p = .error .dimension := by
  unfold taylor; rw [if_pos hsq]

theorem hadamard_nonconformable_raises {A B : Store ℝ} (O : Store ℝ) (h : A.nrows ≠ B.nrows ∨ A.ncols ≠ B.ncols) :
    had A B O = .error .dimension := had_nonconformable O h

theorem hadamardComplex_nonconformable_raises {A iA B iB : Store ℝ} (O iO : Store ℝ)
    (h : A.nrows ≠ B.nrows ∨ A.ncols ≠ B.ncols ∨ ¬ (iA.nrows = A.nrows ∧ iA.ncols = A.ncols) ∨
      ¬ (iB.nrows = B.nrows ∧ iB.ncols = B.ncols)) :
    hadC A iA B iB O iO = .error .dimension := hadC_nonconformable O iO h

theorem hadamardVector_nonconformable_raises {A : Store ℝ} (v : Array ℝ) (O : Store ℝ) (row : Bool)
    (h : (if row then A.nrows else A.ncols) ≠ v.size) : hadV A v O row = .error .dimension :=
  hadV_nonconformable v O row h

/-! ## no access outside the operands and outputs, whatever the shapes -/

/-- for well-formed operands of any shapes and classes and any output (sized or not, stale or not)
the product either returns or raises the dimension error: never `ub` -/
theorem no_oob_mult {A B : Store ℝ} (hA : A.WF) (hB : B.WF) (O : Store ℝ) : mult A B O ≠ .error .ub := by
  by_cases h : A.ncols = B.nrows
  · obtain ⟨O', e, _⟩ := mult_holds hA hB O h
    rw [e]; exact fun h => by cases h
  · rw [mult_nonconformable O h]; exact fun h => by cases h

theorem no_oob_multTridiag {A B : Store ℝ} (hA : A.WF) (hB : B.WF) (D U L : Array ℝ) (O : Store ℝ) :
    multT A D U L B O ≠ .error .ub := by
  by_cases h : A.ncols = B.nrows ∧ A.ncols = D.size ∧ A.ncols = U.size + 1 ∧ A.ncols = L.size + 1
  · obtain ⟨O', e, _⟩ := multT_holds hA hB D U L O h.1 h.2.1 h.2.2.1 h.2.2.2
    rw [e]; exact fun h => by cases h
  · rw [multT_nonconformable D U L O (by tauto)]; exact fun h => by cases h

theorem no_oob_multComplexDiag {A iA B iB : Store ℝ} (hA : A.WF) (hiA : iA.WF) (hB : B.WF) (hiB : iB.WF)
    (D iD : Array ℝ) (O iO : Store ℝ) : multCD A iA D iD B iB O iO ≠ .error .ub := by
  by_cases h : A.ncols = B.nrows ∧ A.ncols = D.size ∧ A.ncols = iD.size ∧ (iA.nrows = A.nrows ∧ iA.ncols = A.ncols) ∧
      (iB.nrows = B.nrows ∧ iB.ncols = B.ncols)
  · obtain ⟨O', iO', e, _⟩ := multCD_holds hA hiA hB hiB D iD O iO h.1 h.2.1 h.2.2.1 h.2.2.2.1 h.2.2.2.2
    rw [e]; exact fun h => by cases h
  · rw [multCD_nonconformable D iD O iO (by tauto)]; exact fun h => by cases h

theorem no_oob_add {A B : Store ℝ} (hA : A.WF) (hB : B.WF) : add A B ≠ .error .ub := by
  by_cases h : A.nrows = B.nrows ∧ A.ncols = B.ncols
  · obtain ⟨A', e, _⟩ := add_holds hA hB h.1 h.2
    rw [e]; exact fun h => by cases h
  · rw [add_nonconformable (by tauto)]; exact fun h => by cases h

theorem no_oob_directSum {A B : Store ℝ} (hA : A.WF) (hB : B.WF) (O : Store ℝ) : dsum A B O ≠ .error .ub := by
  obtain ⟨O', e, _⟩ := dsum_holds hA hB O
  rw [e]; exact fun h => by cases h

theorem no_oob_taylor {A : Store ℝ} (hA : A.WF) (p : Nat) : taylor A p ≠ .error .ub := by
  by_cases h : A.nrows = A.ncols
  · obtain ⟨v, e, _⟩ := taylor_holds hA h p
    rw [e]; exact fun h => by cases h
  · rw [taylor_nonconformable_raises h p]; exact fun h => by cases h

theorem no_oob_copyUp_copyDown_fillDiag {A : Store ℝ} (hA : A.WF) (O : Store ℝ) (x : ℝ) :
    copyUp A O ≠ .error .ub ∧ copyDown A O ≠ .error .ub ∧ fillDiag A x ≠ .error .ub := by
  obtain ⟨_, e1, _⟩ := copyUp_holds hA O
  obtain ⟨_, e2, _⟩ := copyDown_holds hA O
  obtain ⟨_, e3, _⟩ := fillDiag_holds hA x
  rw [e1, e2, e3]
  refine ⟨?_, ?_, ?_⟩ <;> (intro h; cases h)

/-! ## the result does not depend on the storage classes -/

/-- product: whatever classes hold the operands `a` (`r × n`) and `b` (`n × c`) and whatever
class/size/content the output has, the output holds `a·b` -/
theorem mult_storage_independent (kA kB : Kind) (O : Store ℝ) (r n c : Nat) (a b : Nat → Nat → ℝ)
    (hr : 0 < r) (hn : 0 < n) (hc : 0 < c) :
    ∃ O', mult (Store.ofFn kA r n a) (Store.ofFn kB n c b) O = .ok O' ∧ O'.kind = O.kind ∧
      O'.nrows = r ∧ O'.ncols = c ∧
      ∀ i j, i < r → j < c → O'.get i j = .ok (∑ k ∈ Finset.range n, a i k * b k j) := by
  have hA := ofFn_holds kA r n a
  have hB := ofFn_holds kB n c b
  obtain ⟨ar, ac⟩ := hA.dims_pos hr hn
  obtain ⟨br, bc⟩ := hB.dims_pos hn hc
  obtain ⟨O', e, k, h⟩ := mult_spec hA.1 hB.1 O (by rw [ac, br])
  rw [ar, bc, ac] at h
  obtain ⟨o1, o2⟩ := h.dims_pos hr hc
  refine ⟨O', e, k, o1, o2, fun i j hi hj => ?_⟩
  rw [h.2.2 i j hi hj]
  congr 1
  apply Finset.sum_congr rfl
  intro k hk
  rw [hA.entry_eq hi (Finset.mem_range.mp hk), hB.entry_eq (Finset.mem_range.mp hk) hj]

/-- every routine's result is a function of the operands' *entries* only: two operands of different
classes holding the same matrix (no dimension zero) give outputs holding the same matrix — spelled out
here for transpose, direct sum and Kronecker product; for every other routine it is the content of its
`_spec` theorem, which is stated for operands of arbitrary classes through `Holds` / `entry` -/
theorem storage_independent {A A' B B' : Store ℝ} {r c r2 c2 : Nat} {a b : Nat → Nat → ℝ}
    (hr : 0 < r) (hc : 0 < c) (hr2 : 0 < r2) (hc2 : 0 < c2)
    (hA : A.Holds r c a) (hA' : A'.Holds r c a) (hB : B.Holds r2 c2 b) (hB' : B'.Holds r2 c2 b) (O O2 : Store ℝ) :
    (∃ T T' g, transpose A O = .ok T ∧ transpose A' O2 = .ok T' ∧ T.Holds c r g ∧ T'.Holds c r g) ∧
    (∃ S S' g, dsum A B O = .ok S ∧ dsum A' B' O2 = .ok S' ∧ S.Holds (r + r2) (c + c2) g ∧ S'.Holds (r + r2) (c + c2) g) ∧
    (∃ K K' g, kron A B O true = .ok K ∧ kron A' B' O2 true = .ok K' ∧ K.Holds (r * r2) (c * c2) g ∧ K'.Holds (r * r2) (c * c2) g) := by
  obtain ⟨ar, ac⟩ := hA.dims_pos hr hc
  obtain ⟨ar', ac'⟩ := hA'.dims_pos hr hc
  obtain ⟨br, bc⟩ := hB.dims_pos hr2 hc2
  obtain ⟨br', bc'⟩ := hB'.dims_pos hr2 hc2
  refine ⟨?_, ?_, ?_⟩
  · obtain ⟨T, e1, _, h1⟩ := transpose_holds hA.1 O
    obtain ⟨T', e2, _, h2⟩ := transpose_holds hA'.1 O2
    rw [ar, ac] at h1; rw [ar', ac'] at h2
    exact ⟨T, T', Spec.transpose a, e1, e2,
      h1.congr (fun i j hi hj => by simp [Spec.transpose, hA.entry_eq hj hi]),
      h2.congr (fun i j hi hj => by simp [Spec.transpose, hA'.entry_eq hj hi])⟩
  · obtain ⟨S, e1, _, h1⟩ := dsum_holds hA.1 hB.1 O
    obtain ⟨S', e2, _, h2⟩ := dsum_holds hA'.1 hB'.1 O2
    rw [ar, ac, br, bc] at h1; rw [ar', ac', br', bc'] at h2
    refine ⟨S, S', Spec.dsum a b r c r2 c2, e1, e2, h1.congr (fun i j hi hj => ?_), h2.congr (fun i j hi hj => ?_)⟩
    · simp only [Spec.dsum]
      by_cases h1 : i < r <;> by_cases h2 : j < c <;> simp [h1, h2]
      · exact hA.entry_eq h1 h2
      · have : i - r < r2 ∧ j - c < c2 := by omega
        simp [this]; exact hB.entry_eq this.1 this.2
    · simp only [Spec.dsum]
      by_cases h1 : i < r <;> by_cases h2 : j < c <;> simp [h1, h2]
      · exact hA'.entry_eq h1 h2
      · have : i - r < r2 ∧ j - c < c2 := by omega
        simp [this]; exact hB'.entry_eq this.1 this.2
  · obtain ⟨K, e1, _, h1⟩ := kron_holds hA.1 hB.1 O
    obtain ⟨K', e2, _, h2⟩ := kron_holds hA'.1 hB'.1 O2
    rw [ar, ac, br, bc] at h1; rw [ar', ac', br', bc'] at h2
    have hdiv : ∀ i j, i < r * r2 → j < c * c2 → i / r2 < r ∧ j / c2 < c ∧ i % r2 < r2 ∧ j % c2 < c2 := by
      intro i j hi hj
      exact ⟨Nat.div_lt_of_lt_mul (by rwa [Nat.mul_comm] at hi), Nat.div_lt_of_lt_mul (by rwa [Nat.mul_comm] at hj),
        Nat.mod_lt _ hr2, Nat.mod_lt _ hc2⟩
    refine ⟨K, K', Spec.kron a b r2 c2, e1, e2, h1.congr (fun i j hi hj => ?_), h2.congr (fun i j hi hj => ?_)⟩
    · obtain ⟨d1, d2, d3, d4⟩ := hdiv i j hi hj
      simp only [Spec.kron, hA.entry_eq d1 d2, hB.entry_eq d3 d4]
    · obtain ⟨d1, d2, d3, d4⟩ := hdiv i j hi hj
      simp only [Spec.kron, hA'.entry_eq d1 d2, hB'.entry_eq d3 d4]

/-! ### … except for operands with exactly one zero dimension (known finding
`C04-degenerate-shape-storage-dependence`): the vector-of-vector classes report `0 × 0` for them and the
conformability tests see the reported dimensions, so whether the same call raises depends on the class.
The two independence theorems above assume every dimension positive; these witnesses (evaluated in `Rat`)
are the boundary. -/

/-- `(2 × 3) · (3 × 0)`: a flat- or row-stored `B` gives the `2 × 0` product, a column-stored `B`
(reporting `0 × 0`) a `DimensionException` -/
theorem mult_storage_dependent_degenerate :
    (match mult (Store.ofFn .lin 2 3 fun i j => ((i + j : Nat) : Rat)) (Store.ofFn .col 3 0 fun _ _ => 0) (Store.empty .lin) with
      | .error .dimension => true
      | _ => false) = true ∧
    (match mult (Store.ofFn .lin 2 3 fun i j => ((i + j : Nat) : Rat)) (Store.ofFn .row 3 0 fun _ _ => 0) (Store.empty .lin) with
      | .ok O => O.nrows == 2 && O.ncols == 0
      | .error _ => false) = true ∧
    (match mult (Store.ofFn .lin 2 3 fun i j => ((i + j : Nat) : Rat)) (Store.ofFn .lin 3 0 fun _ _ => 0) (Store.empty .lin) with
      | .ok O => O.nrows == 2 && O.ncols == 0
      | .error _ => false) = true := by
  refine ⟨?_, ?_, ?_⟩ <;> decide +kernel

/-- `(0 × 3) + (0 × 3)`: two flat-stored operands are added, a flat- and a row-stored one (reporting
`0 × 0`) raise a `DimensionException` -/
theorem add_storage_dependent_degenerate :
    (match add (Store.ofFn .lin 0 3 fun _ _ => (0 : Rat)) (Store.ofFn .row 0 3 fun _ _ => 0) with
      | .error .dimension => true
      | _ => false) = true ∧
    (match add (Store.ofFn .lin 0 3 fun _ _ => (0 : Rat)) (Store.ofFn .lin 0 3 fun _ _ => 0) with
      | .ok O => O.nrows == 0 && O.ncols == 3
      | .error _ => false) = true := by
  refine ⟨?_, ?_⟩ <;> decide +kernel

/-! ## non-vacuity: concrete operands of mixed classes meeting the hypotheses -/

/-- a `2 × 3` row-stored and a `3 × 1` column-stored operand are well formed and conformable -/
example : (Store.ofFn .row 2 3 (fun i j => (i + 2 * j : ℝ))).WF ∧ (Store.ofFn .col 3 1 (fun i _ => (i : ℝ))).WF ∧
    (Store.ofFn .row 2 3 (fun i j => (i + 2 * j : ℝ))).ncols = (Store.ofFn .col 3 1 (fun i _ => (i : ℝ))).nrows := by
  have h1 := ofFn_holds .row 2 3 (fun i j => (i + 2 * j : ℝ))
  have h2 := ofFn_holds .col 3 1 (fun i _ => (i : ℝ))
  exact ⟨h1.1, h2.1, by rw [(h1.dims_pos (by omega) (by omega)).2, (h2.dims_pos (by omega) (by omega)).1]⟩

/-- … the flat class with an empty shape too -/
example : (Store.ofFn .lin 0 3 (fun _ _ => (0 : ℝ))).WF ∧ (Store.ofFn .lin 0 3 (fun _ _ => (0 : ℝ))).nrows = 0 :=
  ⟨(ofFn_holds .lin 0 3 _).1, rfl⟩

/-- a `1 × 1` tridiagonal product meets the hypotheses of `multTridiag_spec` -/
example : (Store.ofFn .lin 1 1 (fun _ _ => (2 : ℝ))).WF ∧ (Store.ofFn .lin 1 1 (fun _ _ => (2 : ℝ))).ncols = (#[(5 : ℝ)]).size
    ∧ (Store.ofFn .lin 1 1 (fun _ _ => (2 : ℝ))).ncols = (#[] : Array ℝ).size + 1 :=
  ⟨(ofFn_holds .lin 1 1 _).1, rfl, rfl⟩

/-- square operands of each class (`pow_spec`, `taylor_spec`, `diagOf_spec`, `isSymmetric_spec`) -/
example (k : Kind) : (Store.ofFn k 3 3 (fun i j => (i * j : ℝ))).WF ∧
    (Store.ofFn k 3 3 (fun i j => (i * j : ℝ))).nrows = (Store.ofFn k 3 3 (fun i j => (i * j : ℝ))).ncols := by
  obtain ⟨w, r, c⟩ := ofFn_dims k (r := 3) (c := 3) (by omega) (by omega) (fun i j => (i * j : ℝ))
  exact ⟨w, by rw [r, c]⟩

/-- a `2 × 3` / `3 × 2` pair with diagonal, super- and sub-diagonal of sizes 3, 2, 2 (`multDiag_spec`,
`multTridiag_spec`), operands of different classes -/
example : ∃ A B : Store ℝ, A.WF ∧ B.WF ∧ A.kind ≠ B.kind ∧ A.ncols = B.nrows ∧ A.ncols = (#[(1 : ℝ), 2, 3]).size ∧
    A.ncols = (#[(4 : ℝ), 5]).size + 1 := by
  obtain ⟨wa, _, ca⟩ := ofFn_dims .row (r := 2) (c := 3) (by omega) (by omega) (fun i j => (i + j : ℝ))
  obtain ⟨wb, rb, _⟩ := ofFn_dims .lin (r := 3) (c := 2) (by omega) (by omega) (fun i j => (i - j : ℝ))
  exact ⟨_, _, wa, wb, by simp [ofFn_kind], by rw [ca, rb], by rw [ca]; rfl, by rw [ca]; rfl⟩

/-- four operands of the three classes with equal sizes (`multComplex_spec`, `hadamardComplex_spec`) and
a non-conformable imaginary part (`multComplex_nonconformable_raises`) -/
example : ∃ A iA B iB iA' : Store ℝ, A.WF ∧ iA.WF ∧ B.WF ∧ iB.WF ∧ A.ncols = B.nrows ∧
    (iA.nrows = A.nrows ∧ iA.ncols = A.ncols) ∧ (iB.nrows = B.nrows ∧ iB.ncols = B.ncols) ∧
    ¬ (iA'.nrows = A.nrows ∧ iA'.ncols = A.ncols) := by
  obtain ⟨w1, r1, c1⟩ := ofFn_dims .row (r := 2) (c := 2) (by omega) (by omega) (fun i j => (i + j : ℝ))
  obtain ⟨w2, r2, c2⟩ := ofFn_dims .col (r := 2) (c := 2) (by omega) (by omega) (fun i j => (i * j : ℝ))
  obtain ⟨w3, r3, c3⟩ := ofFn_dims .lin (r := 2) (c := 2) (by omega) (by omega) (fun _ _ => (1 : ℝ))
  obtain ⟨_, r4, _⟩ := ofFn_dims .row (r := 1) (c := 1) (by omega) (by omega) (fun _ _ => (2 : ℝ))
  exact ⟨_, _, _, _, _, w1, w2, w3, w2, by rw [c1, r3], ⟨by rw [r2, r1], by rw [c2, c1]⟩, ⟨by rw [r2, r3], by rw [c2, c3]⟩,
    fun h => by rw [r4, r1] at h; omega⟩

/-- a sample matrix with rows and columns (`covar_spec`, `whichMax_spec`), a pre-sized output for
`kron_nocheck_spec`, and a list of blocks for `directSumN_spec` -/
example : ∃ A B O : Store ℝ, A.WF ∧ B.WF ∧ O.WF ∧ 0 < A.nrows ∧ 0 < A.ncols ∧
    A.nrows * B.nrows ≤ O.nrows ∧ A.ncols * B.ncols ≤ O.ncols ∧ (∀ M ∈ [A, B, O], M.WF) := by
  obtain ⟨w1, r1, c1⟩ := ofFn_dims .col (r := 2) (c := 3) (by omega) (by omega) (fun i j => (i + j : ℝ))
  obtain ⟨w2, r2, c2⟩ := ofFn_dims .row (r := 2) (c := 2) (by omega) (by omega) (fun i j => (i * j : ℝ))
  obtain ⟨w3, r3, c3⟩ := ofFn_dims .lin (r := 4) (c := 6) (by omega) (by omega) (fun _ _ => (7 : ℝ))
  refine ⟨_, _, _, w1, w2, w3, by rw [r1]; omega, by rw [c1]; omega, by rw [r1, r2, r3], by rw [c1, c2, c3], ?_⟩
  intro M hM
  simp only [List.mem_cons, List.mem_nil_iff, or_false] at hM
  rcases hM with rfl | rfl | rfl <;> assumption

/-! ## the unrepaired routines violate the property (what the `fix:` commits of `findings/C04.json` repair) -/

/-- before the repair `Taylor(A, 0, vO)` wrote `vO[1]` of a one-element vector, for every square `A` -/
theorem taylor_orig_out_of_range {A : Store ℝ} (hsq : A.nrows = A.ncols) : taylorOrig A 0 = .error .ub := by
  unfold taylorOrig
  rw [if_neg (by simpa using hsq)]
  obtain ⟨v0, e0, _⟩ := getId_holds A.nrows (Store.empty .row : Store ℝ)
  simp only [e0, if_true]

/-- before the repair `add(A, B)` accepted an `A` with fewer rows and columns than `B` -/
theorem add_orig_accepts_smaller {A B : Store ℝ} (hA : A.WF) (hB : B.WF) (hr : A.nrows < B.nrows) (hc : A.ncols < B.ncols) :
    ∃ A', addOrig A B = .ok A' := by
  unfold addOrig
  rw [if_neg (by omega), if_neg (by omega)]
  obtain ⟨A', e, _⟩ := fill_holds hA (dims_shape_self A) (f := fun i j => zipAt (· + ·) A B i j)
    (g := fun i j => A.entry i j + B.entry i j)
    (fun i j hi hj => zipAt_ok _ hA hB hi hj (by omega) (by omega))
  exact ⟨A', e⟩

/-- before the repair the tridiagonal product of operands with inner dimension 1 (in particular
`1 × 1` matrices) returned **twice** the product `A·D·B`: with `A = (2)`, `D = (5)`, `B = (3)` it
answered 60 -/
theorem multTridiag_orig_doubles {A B : Store ℝ} (hA : A.WF) (hB : B.WF) (D : Array ℝ) (O : Store ℝ)
    (h : A.ncols = B.nrows) (hD : A.ncols = D.size) (h1 : A.ncols = 1) :
    ∃ O', multTOrig A D #[] #[] B O = .ok O' ∧
      O'.Holds A.nrows B.ncols (fun i j => 2 * (A.entry i 0 * D.getD 0 0 * B.entry 0 j)) := by
  obtain ⟨O', e, hh⟩ := multTOrig_one hA hB D #[] #[] O h hD (by simp [h1]) (by simp [h1]) h1
  exact ⟨O', e, hh.congr (fun i j _ _ => by simp only [ScalarReal.zero_eq]; ring)⟩

/-- before the repair `fillDiag` of a `3 × 2` matrix wrote `M(2,2)`: outside the vectors for the
row-stored class, past the end of the flat vector for the flat class (exact arithmetic, `Rat`) -/
theorem fillDiag_orig_out_of_range :
    isUb (fillDiagOrig (Store.row #[#[(0 : Rat), 0], #[0, 0], #[0, 0]]) 1) = true ∧
    isUb (fillDiagOrig (Store.lin #[(0 : Rat), 0, 0, 0, 0, 0] 3 2) 1) = true := by decide

end Bpp.C04
