import BppModel.Matrix
namespace Bpp.C04
open Bpp Bpp.Mx

theorem placeholder_shape_lin (r c : Nat) : Kind.shape .lin r c = (r, c) := rfl

end Bpp.C04
