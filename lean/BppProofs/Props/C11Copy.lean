import BppProofs.Lemmas.ReparamObj
import BppProofs.Props.C11Wrapper
/-!
# C11 — wrappers as objects: both constructors, copy construction, `clone()`, `operator=`, and the
wrapped function shared between a wrapper and its copies
(src/Bpp/Numeric/Function/ReparametrizationFunctionWrapper.h:36-97, .cpp:170-190)

Property theorems about the object-level model `BppModel/ReparamObj.lean` read at `ℝ`: a world of
function objects and wrapper objects (all three classes have the same data members: `function_`,
`parameters_`, `functionParameters_`), wrappers pointing to functions.

**What the property means when an original and its copies are used in turn.**  The transformed
parameters and `functionParameters_` are private to each wrapper; the wrapped function — hence the
point at which it stands — is common (h:63 `function_(rfw.function_)`).  From the code:
`f(parameters)` through a wrapper sets the function's parameters *named in `parameters`* to that
wrapper's back-transformed values and leaves every other parameter of the function where the last
writer — this wrapper, a copy, or the function's owner — left it.  Hence (`interleaved_eval`,
`full_update_exact`):
  * `f(all the wrapper's parameters)` through the original or through any copy is the original
    function at *that wrapper's* back-transformed point (and at the current values of the function's
    parameters the wrapper was not given), whatever was done through the other wrappers before;
  * `f(some of the parameters)`, `getValue()` and the derivatives are evaluated at the function's
    current point: the named coordinates are the wrapper's back-transformed ones, the others are
    the last writer's.  For a wrapper used alone they are its own (`all_histories*` of
    `Props/C11Wrapper.lean`, which apply to the view by `set_refines`);
  * an update through one wrapper never touches the private state of another one and never breaks
    its invariant (`interleaved_eval`), and no history of constructions, copies, assignments and
    updates raises an exception (`objects_all_histories`).
-/
namespace Bpp.C11
open Bpp Bpp.Transform Bpp.Reparam Bpp.ReparamObj

/-! ## All histories -/

/-- In every world reachable by any history of: new functions, wrappers built by either constructor
(the second one with any sub-list in any order), copies / clones, assignments between any two
wrappers (of the same or of different functions, with the same or different sub-lists), updates
through any wrapper with any real values of any of its coordinates, inherited setters, and direct
moves of a function by its owner — every function is well formed, every wrapper points to a live
function and satisfies the wrapper invariant over it (`WInv`: aligned lists, names of the function
with the function's constraints, the transform of each constraint, accepted values, private copy
within `2 tiny` of the back-transformed coordinate), and the next operation raises nothing. -/
theorem objects_all_histories (pi tiny : ℝ) (ht : 0 < tiny) {σ : World ℝ} (h : Reach pi tiny σ) :
    WorldInv pi tiny σ ∧
    ∀ op, OpOk tiny σ op → ∃ σ', σ.step pi tiny op = .ok σ' ∧ Reach pi tiny σ' := by
  refine ⟨h.inv ht, fun op hop => ?_⟩
  obtain ⟨σ', e, _⟩ := world_step_ok ht (h.inv ht) op hop
  exact ⟨σ', e, Reach.step h hop e⟩

/-- ... in particular slot i of `parameters_` and slot i of `functionParameters_` of every wrapper
carry the same name, and the driver's executable view exists (this is the predicate the driver
evaluates on the names the implementation reports after every construction, copy and assignment) -/
theorem every_wrapper_aligned (pi tiny : ℝ) (ht : 0 < tiny) {σ : World ℝ} (h : Reach pi tiny σ) :
    ∀ w ∈ σ.ws, w.aligned = true ∧ ∃ f v, σ.fns[w.fn]? = some f ∧ w.view? f = some v := by
  intro w hw
  obtain ⟨f, v, hf, hi⟩ := (h.inv ht).ws w hw
  refine ⟨?_, f, v, hf, view?_of_View hi.view⟩
  simp only [Wr.aligned, alignedNames, Wr.names, Wr.fpNames, hi.view.names, beq_self_eq_true]

/-! ## Copies -/

/-- **The copy carries the invariant and evaluates like the original.**  Copy construction /
`clone()` of any wrapper `w` of any reachable world (built by either constructor, itself a copy or
the target of an assignment, after any updates) succeeds, appends a wrapper `c` that
  * shares the wrapped function with `w` and changes no existing object,
  * is aligned, with the names of `w`, and satisfies the wrapper invariant with the *same* slots as
    `w` (same transformed parameters, same `functionParameters_`),
  * evaluates like the original at every point: from the state after the copy, an update with any
    list of values through `c` has exactly the outcome the same update through `w` has (same new
    point of the function, same new private state), and every derivative is the same;
and the world stays reachable (so everything above holds again after any further history, through
the copy and through the original). 
Note: in the model `Wr.copy w` is `w` up to eta (member-wise copy, function index shared), so the four
"evaluates like the original" conjuncts are `rfl` — they restate the transcription of h:61-64.  The
content proved here is that the copy satisfies the invariant over all histories; that the library's
copy really is member-wise is what the differential tie checks (`copy_carries` predicate on the
names and values the implementation reports). -/
theorem copy_carries (pi tiny : ℝ) (ht : 0 < tiny) {σ : World ℝ} (h : Reach pi tiny σ) (j : Nat)
    (w : Wr ℝ) (hw : σ.ws[j]? = some w) :
    ∃ σ' c, σ.step pi tiny (.copy j) = .ok σ' ∧ Reach pi tiny σ' ∧
      σ'.ws = σ.ws ++ [c] ∧ σ'.fns = σ.fns ∧ c.fn = w.fn ∧ c.aligned = true ∧ c.names = w.names ∧
      (∃ f v, σ.fns[w.fn]? = some f ∧ WInv pi tiny f w v ∧ WInv pi tiny f c v) ∧
      (∀ f pl, c.setParameters pi f pl = w.setParameters pi f pl) ∧
      (∀ dF f n, c.d1 pi dF f n = w.d1 pi dF f n) ∧
      (∀ dF d2F f n, c.d2 pi dF d2F f n = w.d2 pi dF d2F f n) ∧
      (∀ dF d2F f n m, c.d2x pi dF d2F f n m = w.d2x pi dF d2F f n m) := by
  have hj : j < σ.ws.length := by
    by_contra hc
    rw [List.getElem?_eq_none (by omega)] at hw; cases hw
  have hop : OpOk tiny σ (.copy j) := hj
  have e : σ.step pi tiny (.copy j) = .ok { σ with ws := σ.ws ++ [w.copy] } := by
    simp [World.step, hw]
  obtain ⟨f, v, hf, hi⟩ := (h.inv ht).ws w (List.mem_of_getElem? hw)
  refine ⟨_, w.copy, e, Reach.step h hop e, rfl, rfl, rfl, ?_, rfl, ⟨f, v, hf, hi, hi⟩,
    fun _ _ => rfl, fun _ _ _ => rfl, fun _ _ _ _ => rfl, fun _ _ _ _ _ => rfl⟩
  show w.aligned = true
  simp only [Wr.aligned, alignedNames, Wr.names, Wr.fpNames, hi.view.names, beq_self_eq_true]

/-- **Assignment carries them too.**  After `ws[i] = ws[j]` (any two wrappers of a reachable world:
same or different functions, same or different sub-lists, any of the three classes) the target
shares the *source's* function, has the source's names, slots and invariant, and evaluates like the
source at every point; nothing of the old target survives, no other object changes. -/
theorem assign_carries (pi tiny : ℝ) (ht : 0 < tiny) {σ : World ℝ} (h : Reach pi tiny σ) (i j : Nat)
    (wi wj : Wr ℝ) (hwi : σ.ws[i]? = some wi) (hwj : σ.ws[j]? = some wj) :
    ∃ σ' a, σ.step pi tiny (.assign i j) = .ok σ' ∧ Reach pi tiny σ' ∧
      σ'.ws = σ.ws.set i a ∧ σ'.fns = σ.fns ∧ a.fn = wj.fn ∧ a.aligned = true ∧ a.names = wj.names ∧
      (∃ f v, σ.fns[wj.fn]? = some f ∧ WInv pi tiny f wj v ∧ WInv pi tiny f a v) ∧
      (∀ f pl, a.setParameters pi f pl = wj.setParameters pi f pl) ∧
      (∀ dF f n, a.d1 pi dF f n = wj.d1 pi dF f n) ∧
      (∀ dF d2F f n, a.d2 pi dF d2F f n = wj.d2 pi dF d2F f n) ∧
      (∀ dF d2F f n m, a.d2x pi dF d2F f n m = wj.d2x pi dF d2F f n m) := by
  have hlt : ∀ {k : Nat} {x : Wr ℝ}, σ.ws[k]? = some x → k < σ.ws.length := by
    intro k x hk
    by_contra hc
    rw [List.getElem?_eq_none (by omega)] at hk; cases hk
  have hop : OpOk tiny σ (.assign i j) := ⟨hlt hwi, hlt hwj⟩
  have e : σ.step pi tiny (.assign i j) = .ok { σ with ws := σ.ws.set i (wi.assign wj) } := by
    simp [World.step, hwi, hwj]
  obtain ⟨f, v, hf, hi⟩ := (h.inv ht).ws wj (List.mem_of_getElem? hwj)
  refine ⟨_, wi.assign wj, e, Reach.step h hop e, rfl, rfl, rfl, ?_, rfl, ⟨f, v, hf, hi, hi⟩,
    fun _ _ => rfl, fun _ _ _ => rfl, fun _ _ _ _ => rfl, fun _ _ _ _ _ => rfl⟩
  show wj.aligned = true
  simp only [Wr.aligned, alignedNames, Wr.names, Wr.fpNames, hi.view.names, beq_self_eq_true]

/-- the invariant is not vacuous: had the copy taken `functionParameters_` from the function (as the
first constructor does) instead of from the source wrapper, the copy of a wrapper built on the
sub-list `{p3, p1}` of a function of five parameters would not be aligned -/
theorem copy_from_function_not_aligned (f : Fn ℝ) (w : Wr ℝ) (hf : f.names = [0, 1, 2, 3, 4])
    (hw : w.names = [3, 1]) : (copyFromFunction f w).aligned = false := by
  have h1 : (copyFromFunction f w).names = [3, 1] := hw
  have h2 : (copyFromFunction f w).fpNames = [0, 1, 2, 3, 4] := hf
  simp [Wr.aligned, alignedNames, h1, h2]

/-! ## Both constructors and `setParameters` refine the slot model -/

/-- the first constructor on a well-formed function: the wrapper's view is what `Reparam.init`
builds from the function's parameters — so `wrap_preserves_values`, `wrap_nudge`, `wrap_tracks` of
`Props/C11Wrapper.lean` describe it — and the function is not touched -/
theorem newFull_refines_init (pi tiny : ℝ) (ht : 0 < tiny) (g : Nat) (f : Fn ℝ) (hf : FnOk tiny f) :
    ∃ w v, Wr.newFull pi tiny g f = .ok w ∧ WInv pi tiny f w v ∧
      Reparam.init pi tiny (f.ps.map (fun p => (p.shape, p.value))) = .ok v ∧
      w.fn = g ∧ w.names = f.names ∧ fnVals v = f.vals := by
  obtain ⟨ps, v, e, hn, hv, hi, hinv, hpriv⟩ := view_init (pi := pi) ht f f.ps
    (fun fp hfp => ⟨fp, findP_self_of_nodup hf.nodup hfp, rfl, rfl, hf.acc fp hfp, hf.roomy fp hfp⟩)
  refine ⟨{ fn := g, params := ps, fps := f.ps }, v, by simp [Wr.newFull, e],
    ⟨by show (ps.map (·.1)).Nodup; rw [hn]; exact hf.nodup, hv, hinv, hpriv⟩, hi, rfl, hn, ?_⟩
  obtain ⟨w0, hw0, h1, _⟩ := wrap_preserves_values pi tiny ht (f.ps.map (fun p => (p.shape, p.value)))
    (by
      intro p hp
      obtain ⟨q, hq, rfl⟩ := List.mem_map.mp hp
      exact ⟨hf.acc q hq, hf.roomy q hq⟩)
  rw [hi] at hw0; injection hw0 with hw0; subst hw0
  rw [h1]; simp [Fn.vals, List.map_map, Function.comp_def]

/-- the second constructor, given any list of (copies of) parameters of the function in any order
(a prefix, a permutation, with gaps, a single one) and any foreign parameters: the wrapper is built
on the given parameters the function has, in the order given, and its view is what `Reparam.init`
builds from them -/
theorem newSub_refines_init (pi tiny : ℝ) (ht : 0 < tiny) (g : Nat) (f : Fn ℝ) (hf : FnOk tiny f)
    (given : List (FParam ℝ)) (hnd : (given.map (·.name)).Nodup)
    (hag : ∀ q ∈ given, ∀ p, findP q.name f.ps = some p → p.shape = q.shape ∧ p.value = q.value) :
    ∃ w v, Wr.newSub pi tiny g f given = .ok w ∧ WInv pi tiny f w v ∧
      Reparam.init pi tiny ((common f given).map (fun p => (p.shape, p.value))) = .ok v ∧
      w.fn = g ∧ w.names = (given.map (·.name)).filter (fun n => f.names.contains n) := by
  have hc : ∀ fp ∈ common f given, ∃ q, findP fp.name f.ps = some q ∧ q.shape = fp.shape ∧
      q.value = fp.value ∧ Admits tiny fp.shape fp.value := by
    intro fp hfp
    simp only [common, List.mem_filter, List.any_eq_true, beq_iff_eq] at hfp
    obtain ⟨hfg, q0, hq0, hq0n⟩ := hfp
    obtain ⟨q, hq⟩ := findP_isSome_of_mem (l := f.ps) (n := fp.name)
      (List.mem_map.mpr ⟨q0, hq0, hq0n⟩)
    obtain ⟨e1, e2⟩ := hag fp hfg q hq
    have hqm := (findP_some hq).2
    exact ⟨q, hq, e1, e2, by rw [← e1, ← e2]; exact hf.acc q hqm, by rw [← e1]; exact hf.roomy q hqm⟩
  obtain ⟨ps, v, e, hn, hv, hi, hinv, hpriv⟩ := view_init (pi := pi) ht f (common f given) hc
  refine ⟨{ fn := g, params := ps, fps := common f given }, v, by simp [Wr.newSub, e],
    ⟨?_, hv, hinv, hpriv⟩, hi, rfl, ?_⟩
  · show (ps.map (·.1)).Nodup
    rw [hn]
    exact hnd.sublist ((List.filter_sublist (l := given)).map _)
  · show ps.map (·.1) = _
    rw [hn, common, List.filter_map]
    congr 1
    apply List.filter_congr
    intro p _
    rw [Bool.eq_iff_iff]
    simp only [List.any_eq_true, beq_iff_eq, Function.comp_apply, List.contains_iff_mem, Fn.names,
      List.mem_map]

/-- **`setParameters` through any wrapper of any reachable world is the slot model's `set` on its
view**: the object-level update (values matched by name, copies refreshed by index, sub-list pushed
by name into the shared function) succeeds and leaves the wrapper with the view `Reparam.set`
computes from the old view — so `set_never_raises`, `set_sync`, `set_all_sync`,
`wrapper_back_in_domain` of `Props/C11Wrapper.lean` apply to every wrapper, original or copy.  The
function keeps its names and constraints and stays at an accepted point; its parameters that are
not named keep their values. -/
theorem set_refines (pi tiny : ℝ) (ht : 0 < tiny) {f : Fn ℝ} {w : Wr ℝ} {v : W ℝ} (hf : FnOk tiny f)
    (hi : WInv pi tiny f w v) (pl : List (Nat × ℝ)) (hpl : ∀ n ∈ pl.map (·.1), n ∈ w.names) :
    ∃ f' w' v', w.setParameters pi f pl = .ok (f', w') ∧
      Reparam.set pi v (updOf w.params pl) = .ok v' ∧ WInv pi tiny f' w' v' ∧
      w'.fn = w.fn ∧ w'.names = w.names ∧ SameSig f f' ∧ FnOk tiny f' ∧
      (∀ n q, findP n f.ps = some q → n ∉ pl.map (·.1) → findP n f'.ps = some q) := by
  obtain ⟨f', w', e, hv', hfn, hnames, hsig, hfok', hframe⟩ :=
    setParameters_real (pi := pi) ht hf hi.view hi.nodup hi.inv pl hpl
  have hlen : (updOf w.params pl).length = v.length := by
    rw [hi.view.length]; simp [updOf]
  refine ⟨f', w', _, e, set_real ht v _ hi.inv hlen, ⟨by rw [hnames]; exact hi.nodup, hv', ?_, ?_⟩,
    hfn, hnames, hsig, hfok', hframe⟩
  · exact forall_zipWith (P := SlotInv tiny) (fun s u hs => setSlot_inv ht _ s u hs) v _ hi.inv
  · exact forall_zipWith_changed (P := Priv pi (2 * tiny)) _
      (fun s u hs hc => setSlot_priv (by linarith) _ s u hs hc) v _ hi.priv (fun hc => hc)

/-! ## Interleaved use of an original and its copies -/

/-- **An update through one wrapper, seen from it and from any other wrapper of the same
function.**  `a` and `b` are two wrappers of `f` (an original and its copy, two copies, or wrappers
built independently on overlapping sub-lists).  `f(pl)` through `a`:
  1. succeeds; slot by slot `a` becomes `setSlot`: a named coordinate takes the given value, the
     function's parameter of that name is set to `a`'s copy, which is the back-transformed value
     when some named coordinate changed and is otherwise within `2 tiny` of it (`Priv`); a
     coordinate that is not named keeps its transformed parameter and the function's value;
  2. the function's parameters that are not named — whether `a` has them or not — keep the values
     the last writer gave them;
  3. `b`'s private state (transformed parameters, `functionParameters_`) is untouched and `b` still
     satisfies the wrapper invariant over the moved function: the next update through `b` is again
     described by 1–3. -/
theorem interleaved_eval (pi tiny : ℝ) (ht : 0 < tiny) {f : Fn ℝ} {a b : Wr ℝ} {va vb : W ℝ}
    (hf : FnOk tiny f) (ha : WInv pi tiny f a va) (hb : WInv pi tiny f b vb)
    (pl : List (Nat × ℝ)) (hpl : ∀ n ∈ pl.map (·.1), n ∈ a.names) :
    ∃ f' a' vb', a.setParameters pi f pl = .ok (f', a') ∧
      WInv pi tiny f' a' (List.zipWith (setSlot pi ((List.zipWith changed va (updOf a.params pl)).any id))
        va (updOf a.params pl)) ∧
      (∀ n q, findP n f.ps = some q → n ∉ pl.map (·.1) → findP n f'.ps = some q) ∧
      WInv pi tiny f' b vb' ∧
      List.Forall₂ (fun s s' => s'.tp = s.tp ∧ s'.shape = s.shape ∧ s'.fp = s.fp) vb vb' := by
  obtain ⟨f', a', e, hv', _, hnames, hsig, hfok', hframe⟩ :=
    setParameters_real (pi := pi) ht hf ha.view ha.nodup ha.inv pl hpl
  obtain ⟨vb', hb', hrel⟩ := hb.frame hsig hfok'
  refine ⟨f', a', vb', e, ⟨by rw [hnames]; exact ha.nodup, hv', ?_, ?_⟩, hframe, hb', hrel⟩
  · exact forall_zipWith (P := SlotInv tiny) (fun s u hs => setSlot_inv ht _ s u hs) va _ ha.inv
  · exact forall_zipWith_changed (P := Priv pi (2 * tiny)) _
      (fun s u hs hc => setSlot_priv (by linarith) _ s u hs hc) va _ ha.priv (fun hc => hc)

/-- what `setSlot` says of a named coordinate: it takes the given value; the function is set to the
wrapper's copy, which is the back-transformed value as soon as one named coordinate changed, and
within `d` of it otherwise when the private copy was -/
theorem named_coordinate (pi d : ℝ) (ch : Bool) (s : Slot ℝ) (x : ℝ) (hp : Priv pi d s)
    (hch : ch = false → changed s (some x) = false) :
    (setSlot pi ch s (some x)).tp = s.tp.setX x ∧
    (setSlot pi ch s (some x)).fn = (setSlot pi ch s (some x)).fp ∧
    |(setSlot pi ch s (some x)).fn - (setSlot pi ch s (some x)).tp.getOriginal pi| ≤ max d 0 ∧
    (ch = true → (setSlot pi ch s (some x)).fn = (s.tp.setX x).getOriginal pi) := by
  refine ⟨rfl, rfl, ?_, ?_⟩
  · cases ch
    · have := unchanged_setX (hch rfl)
      simp only [setSlot, Bool.false_eq_true, if_false, this]
      exact le_trans hp (le_max_left _ _)
    · simp [setSlot]
  · intro h; subst h; simp [setSlot]

/-- ... and of a coordinate that is not named: nothing moves, neither in the wrapper nor in the
function -/
theorem unnamed_coordinate (pi : ℝ) (s : Slot ℝ) :
    (setSlot pi false s none) = s ∧
    (setSlot pi true s none).tp = s.tp ∧ (setSlot pi true s none).fn = s.fn ∧
    (setSlot pi true s none).fp = s.tp.getOriginal pi := by
  refine ⟨?_, rfl, rfl, ?_⟩ <;> simp [setSlot]

/-- **`f(all the parameters)` through any wrapper is the original function at that wrapper's
back-transformed point, whatever happened through the other wrappers before**: when every
coordinate of `a` is named and at least one changes, afterwards every slot of `a` is in sync — the
function's parameter equals the back-transformed value of the transformed parameter, which is the
value given — so `getValue` = `F` at the point whose coordinates named by `a` are the
back-transformed ones (the others are untouched, `interleaved_eval` 2). -/
theorem full_update_exact (pi tiny : ℝ) (ht : 0 < tiny) {f : Fn ℝ} {a : Wr ℝ} {va : W ℝ}
    (hf : FnOk tiny f) (ha : WInv pi tiny f a va) (pl : List (Nat × ℝ))
    (hpl : ∀ n ∈ pl.map (·.1), n ∈ a.names) (hall : ∀ n ∈ a.names, n ∈ pl.map (·.1))
    (hch : a.params.any (changedTP pl) = true) :
    ∃ f' a' va', a.setParameters pi f pl = .ok (f', a') ∧ WInv pi tiny f' a' va' ∧
      (∀ s ∈ va', Sync pi s) ∧
      List.Forall₂ (fun u s' => ∃ x, u = some x ∧ s'.tp.x = x) (updOf a.params pl) va' := by
  obtain ⟨f', a', vb', e, ha', _, _, _⟩ := interleaved_eval pi tiny ht hf ha ha pl hpl
  rw [← view_changed pl ha.view, hch] at ha'
  refine ⟨f', a', _, e, ha', ?_, ?_⟩
  · -- every coordinate is named
    have hsome : ∀ u ∈ updOf a.params pl, ∃ x, u = some x := by
      intro u hu
      simp only [updOf, List.mem_map] at hu
      obtain ⟨p, hp, rfl⟩ := hu
      have : p.1 ∈ pl.map (·.1) := hall p.1 (List.mem_map.mpr ⟨p, hp, rfl⟩)
      cases hl : lookupV p.1 pl with
      | none => exact absurd this (lookupV_none.mp hl)
      | some x => exact ⟨x, rfl⟩
    have key : ∀ (v : W ℝ) (upd : List (Option ℝ)), (∀ u ∈ upd, ∃ x, u = some x) →
        ∀ s' ∈ List.zipWith (setSlot pi true) v upd, Sync pi s' := by
      intro v
      induction v with
      | nil => intro upd _ s' hs'; simp at hs'
      | cons s v ih =>
        intro upd hu s' hs'
        cases upd with
        | nil => simp at hs'
        | cons u upd =>
          simp only [List.zipWith_cons_cons, List.mem_cons] at hs'
          rcases hs' with rfl | hs'
          · obtain ⟨x, rfl⟩ := hu u (by simp)
            simp [setSlot, Sync]
          · exact ih upd (fun u' hu' => hu u' (by simp [hu'])) s' hs'
    exact key va _ hsome
  · have hlen : (updOf a.params pl).length = va.length := by
      rw [ha.view.length]; simp [updOf]
    have hsome : ∀ u ∈ updOf a.params pl, ∃ x, u = some x := by
      intro u hu
      simp only [updOf, List.mem_map] at hu
      obtain ⟨p, hp, rfl⟩ := hu
      have : p.1 ∈ pl.map (·.1) := hall p.1 (List.mem_map.mpr ⟨p, hp, rfl⟩)
      cases hl : lookupV p.1 pl with
      | none => exact absurd this (lookupV_none.mp hl)
      | some x => exact ⟨x, rfl⟩
    have key : ∀ (v : W ℝ) (upd : List (Option ℝ)), upd.length = v.length →
        (∀ u ∈ upd, ∃ x, u = some x) →
        List.Forall₂ (fun u s' => ∃ x, u = some x ∧ s'.tp.x = x) upd
          (List.zipWith (setSlot pi true) v upd) := by
      intro v
      induction v with
      | nil => intro upd hl _; cases upd with
        | nil => exact List.Forall₂.nil
        | cons _ _ => simp at hl
      | cons s v ih =>
        intro upd hl hu
        cases upd with
        | nil => simp at hl
        | cons u upd =>
          obtain ⟨x, rfl⟩ := hu u (by simp)
          simp only [List.zipWith_cons_cons]
          exact List.Forall₂.cons ⟨x, rfl, by simp [setSlot]⟩
            (ih upd (by simpa using hl) (fun u' hu' => hu u' (by simp [hu'])))
    exact key va _ hlen hsome

/-- the inherited setters (`matchParametersValues`, `setParametersValues`, `setAllParametersValues`,
`setParameterValue`) update the wrapper's private state only: the wrapped function does not move
(so `getValue()` and the derivatives still refer to the old point until `f()` / `setParameters`
names the coordinates), the private copy is refreshed, and the invariant is kept -/
theorem inherited_setters_stay_private (pi tiny : ℝ) (ht : 0 < tiny) {f : Fn ℝ} {w : Wr ℝ} {v : W ℝ}
    (hi : WInv pi tiny f w v) (pl : List (Nat × ℝ)) :
    (∃ w', w.matchValues pi pl = .ok w' ∧ w'.fn = w.fn ∧ w'.names = w.names ∧
      WInv pi tiny f w' (List.zipWith (midSlot pi ((List.zipWith changed v (updOf w.params pl)).any id))
        v (updOf w.params pl))) ∧
    (∃ w', w.setValues pi pl = .ok w' ∧ w'.fn = w.fn ∧ w'.names = w.names ∧
      WInv pi tiny f w' (List.zipWith (midSlot pi true) v (updOf w.params pl))) := by
  constructor
  · obtain ⟨fps1, e, hv'⟩ := matchValues_obj_real (pi := pi) ht hi.view hi.inv pl
    refine ⟨_, e, rfl, map_matchTP_names pl w.params, ⟨?_, hv', ?_, ?_⟩⟩
    · show ((w.params.map (matchTP pl)).map (·.1)).Nodup
      rw [map_matchTP_names]; exact hi.nodup
    · exact forall_zipWith (P := SlotInv tiny) (fun s u hs => midSlot_inv ht _ s u hs) v _ hi.inv
    · exact forall_zipWith_changed (P := Priv pi (2 * tiny)) _
        (fun s u hs hc => midSlot_priv (by linarith) _ s u hs hc) v _ hi.priv (fun hc => hc)
  · obtain ⟨fps1, e, hv'⟩ := setValues_obj_real (pi := pi) ht hi.view hi.inv pl
    refine ⟨_, e, rfl, map_matchTP_names pl w.params, ⟨?_, hv', ?_, ?_⟩⟩
    · show ((w.params.map (matchTP pl)).map (·.1)).Nodup
      rw [map_matchTP_names]; exact hi.nodup
    · exact forall_zipWith (P := SlotInv tiny) (fun s u hs => midSlot_inv ht _ s u hs) v _ hi.inv
    · exact forall_zipWith (P := Priv pi (2 * tiny))
        (fun s u hs => midSlot_priv (by linarith) true s u hs (fun hc => by cases hc)) v _ hi.priv


/-- `enableFirstOrderDerivatives(yn)` / `enableSecondOrderDerivatives(yn)` through a wrapper set the
switch of the (shared) wrapped function and nothing else; the wrapper's getter reads it back  (definitional in the model: a restatement of the transcription, tied to the code by the `w.en`
operation) -/
theorem enable_delegates (f : Fn ℝ) (yn : Bool) :
    ((f.enableFirst yn).d1on = yn ∧ (f.enableFirst yn).d2on = f.d2on ∧ (f.enableFirst yn).ps = f.ps) ∧
    ((f.enableSecond yn).d2on = yn ∧ (f.enableSecond yn).d1on = f.d1on ∧ (f.enableSecond yn).ps = f.ps) :=
  ⟨⟨rfl, rfl, rfl⟩, ⟨rfl, rfl, rfl⟩⟩

/-- `getValue()` through any wrapper is the wrapped function where it stands — it reads the shared
function and nothing of the wrapper (`wrap_f_eq` / `get_is_pure` of the driver)  (definitional in the model; tied by `w.get`) -/
theorem getValue_reads_function (F : List ℝ → ℝ) (f : Fn ℝ) : getValue F f = F f.vals := rfl

/-! ## Derivatives through any wrapper (original or copy): the chain rule, by name

`F` is the wrapped function of the whole list of its parameters, `dF p i` / `d2F p i j` its partial
derivatives; `n` (and `m`) are parameter *names*, `i` (`j`) their positions in the function's list,
`tp` (`tn`, `tm`) the transformed parameters of those names in the wrapper.  The hypotheses say that
`dF f.vals i` is the partial derivative at the back-transformed value of the wrapper's coordinate —
where the function stands whenever that coordinate is in sync (`full_update_exact`,
`named_coordinate`). -/

/-- first order (h:153-157) -/
theorem obj_chain_rule_1 (pi : ℝ) (F : List ℝ → ℝ) (dF : List ℝ → Nat → ℝ) (f : Fn ℝ) (w : Wr ℝ)
    (n i : Nat) (tp : TP ℝ) (hi : f.indexOf n = some i) (htp : findTP n w.params = some tp)
    (hwf : TPWF tp)
    (hF : HasDerivAt (fun y => F (f.vals.set i y)) (dF f.vals i) (tp.getOriginal pi)) :
    ∃ d, w.d1 pi dF f n = .ok d ∧
      HasDerivAt (fun x => F (f.vals.set i ((tp.setX x).getOriginal pi))) d tp.x := by
  refine ⟨dF f.vals i * tp.d1 pi, by simp [Wr.d1, hi, htp], ?_⟩
  have hT := tp_d1_is_derivative pi tp hwf
  have e : (fun x => F (f.vals.set i ((tp.setX x).getOriginal pi)))
      = (fun y => F (f.vals.set i y)) ∘ (fun x => (tp.setX x).getOriginal pi) := rfl
  rw [e]
  apply HasDerivAt.comp
  · simpa using hF
  · exact hT

/-- second order, same variable (h:207-213), away from the junction `x = 0` of a half-line transform
(where the full `HasDerivAt` statement is false: `r_d2_not_derivative_at_junction`; the statement that
holds at every coordinate is `obj_chain_rule_2_right`); `hsync`: the function stands at the back-transformed
value of that coordinate -/
theorem obj_chain_rule_2_partial (pi : ℝ) (dF : List ℝ → Nat → ℝ) (d2F : List ℝ → Nat → Nat → ℝ) (f : Fn ℝ)
    (w : Wr ℝ) (n i : Nat) (tp : TP ℝ) (hi : f.indexOf n = some i)
    (htp : findTP n w.params = some tp) (hwf : TPWF tp) (hx : ∀ t, tp = .r t → t.x ≠ 0)
    (hsync : f.vals[i]? = some (tp.getOriginal pi))
    (hF2 : HasDerivAt (fun y => dF (f.vals.set i y) i) (d2F f.vals i i) (tp.getOriginal pi)) :
    ∃ d, w.d2 pi dF d2F f n = .ok d ∧
      HasDerivAt (fun x => dF (f.vals.set i ((tp.setX x).getOriginal pi)) i * (tp.setX x).d1 pi) d tp.x := by
  refine ⟨d2F f.vals i i * (tp.d1 pi) ^ 2 + dF f.vals i * tp.d2 pi, by simp [Wr.d2, hi, htp], ?_⟩
  have hT := tp_d1_is_derivative pi tp hwf
  have hT2 := tp_d2_is_derivative_partial pi tp hwf hx
  have e : (fun x => dF (f.vals.set i ((tp.setX x).getOriginal pi)) i)
      = (fun y => dF (f.vals.set i y) i) ∘ (fun x => (tp.setX x).getOriginal pi) := rfl
  have hA : HasDerivAt (fun x => dF (f.vals.set i ((tp.setX x).getOriginal pi)) i)
      (d2F f.vals i i * tp.d1 pi) tp.x := by
    rw [e]
    apply HasDerivAt.comp
    · simpa using hF2
    · exact hT
  refine (hA.mul hT2).congr_deriv ?_
  simp only [setX_self, set_self_of_getElem? hsync]
  ring

/-- second order, same variable (h:207-213), **at every coordinate**: the wrapper's second derivative
is the right derivative of its first derivative with respect to the transformed coordinate; `hsync`: the function stands at the back-transformed
value of that coordinate -/
theorem obj_chain_rule_2_right (pi : ℝ) (dF : List ℝ → Nat → ℝ) (d2F : List ℝ → Nat → Nat → ℝ) (f : Fn ℝ)
    (w : Wr ℝ) (n i : Nat) (tp : TP ℝ) (hi : f.indexOf n = some i)
    (htp : findTP n w.params = some tp) (hwf : TPWF tp)
    (hsync : f.vals[i]? = some (tp.getOriginal pi))
    (hF2 : HasDerivAt (fun y => dF (f.vals.set i y) i) (d2F f.vals i i) (tp.getOriginal pi)) :
    ∃ d, w.d2 pi dF d2F f n = .ok d ∧
      HasDerivWithinAt (fun x => dF (f.vals.set i ((tp.setX x).getOriginal pi)) i * (tp.setX x).d1 pi) d
        (Set.Ici tp.x) tp.x := by
  refine ⟨d2F f.vals i i * (tp.d1 pi) ^ 2 + dF f.vals i * tp.d2 pi, by simp [Wr.d2, hi, htp], ?_⟩
  have hT := tp_d1_is_derivative pi tp hwf
  have hT2 := tp_d2_is_right_derivative pi tp hwf
  have e : (fun x => dF (f.vals.set i ((tp.setX x).getOriginal pi)) i)
      = (fun y => dF (f.vals.set i y) i) ∘ (fun x => (tp.setX x).getOriginal pi) := rfl
  have hA : HasDerivAt (fun x => dF (f.vals.set i ((tp.setX x).getOriginal pi)) i)
      (d2F f.vals i i * tp.d1 pi) tp.x := by
    rw [e]
    apply HasDerivAt.comp
    · simpa using hF2
    · exact hT
  refine (hA.hasDerivWithinAt.mul hT2).congr_deriv ?_
  simp only [setX_self, set_self_of_getElem? hsync]
  ring

/-- second order, two *different* variables (h:215-222); `hnm` is used: the same name twice is
`obj_chain_rule_2_diag` -/
theorem obj_chain_rule_2_cross (pi : ℝ) (dF : List ℝ → Nat → ℝ) (d2F : List ℝ → Nat → Nat → ℝ)
    (f : Fn ℝ) (w : Wr ℝ) (n m i j : Nat) (hnm : n ≠ m) (tn tm : TP ℝ) (hi : f.indexOf n = some i)
    (hj : f.indexOf m = some j) (htn : findTP n w.params = some tn) (htm : findTP m w.params = some tm)
    (hwf : TPWF tm)
    (hFx : HasDerivAt (fun y => dF (f.vals.set j y) i) (d2F f.vals i j) (tm.getOriginal pi)) :
    ∃ d, w.d2x pi dF d2F f n m = .ok d ∧
      HasDerivAt (fun x => dF (f.vals.set j ((tm.setX x).getOriginal pi)) i * tn.d1 pi) d tm.x := by
  refine ⟨d2F f.vals i j * tn.d1 pi * tm.d1 pi, by simp [Wr.d2x, hnm, hi, hj, htn, htm], ?_⟩
  have hT := tp_d1_is_derivative pi tm hwf
  have e : (fun x => dF (f.vals.set j ((tm.setX x).getOriginal pi)) i)
      = (fun y => dF (f.vals.set j y) i) ∘ (fun x => (tm.setX x).getOriginal pi) := rfl
  have hA : HasDerivAt (fun x => dF (f.vals.set j ((tm.setX x).getOriginal pi)) i)
      (d2F f.vals i j * tm.d1 pi) tm.x := by
    rw [e]
    apply HasDerivAt.comp
    · simpa using hFx
    · exact hT
  refine (hA.mul_const (tn.d1 pi)).congr_deriv ?_
  ring

/-- the two-argument overload with the same name twice is the one-argument overload, through any
wrapper (original or copy) -/
theorem obj_chain_rule_2_diag (pi : ℝ) (dF : List ℝ → Nat → ℝ) (d2F : List ℝ → Nat → Nat → ℝ)
    (f : Fn ℝ) (w : Wr ℝ) (n : Nat) : w.d2x pi dF d2F f n n = w.d2 pi dF d2F f n := by
  simp [Wr.d2x]

/-! ## Non-vacuity -/

/-- the hypotheses of `copy_carries` / `assign_carries` / `interleaved_eval` are satisfiable by the
configuration of the missed change: a function of five parameters mixing the configurations, a
wrapper built by the second constructor on the sub-list `{p3, p1}` — neither a prefix nor in the
function's order — in a reachable world -/
example : ∃ σ w f, Reach libPI libTINY σ ∧ σ.ws[0]? = some w ∧ w.names = [3, 1] ∧
    σ.fns[w.fn]? = some f ∧ f.names = [0, 1, 2, 3, 4] ∧ w.aligned = true := by
  have ht := libTINY_pos
  have h2 := libTINY_lt
  -- the function
  have hadm : ∀ p ∈ exPs, Admits libTINY p.shape p.value := by
    intro p hp
    simp only [exPs, List.mem_cons, List.not_mem_nil, or_false] at hp
    rcases hp with rfl | rfl | rfl | rfl | rfl <;>
      simp only [Admits, Shape.Accepts, Shape.Roomy] <;> refine ⟨?_, ?_⟩ <;>
      (try constructor) <;> first | trivial | linarith
  have hnd : (exPs.map (·.name)).Nodup := by simp [exPs]
  have r1 : Reach libPI libTINY { fns := [{ ps := exPs }] } :=
    Reach.step (op := .newFn exPs) Reach.empty ⟨hnd, hadm⟩ rfl
  have hfok : FnOk libTINY ({ ps := exPs } : Fn ℝ) :=
    ((r1.inv ht).fns _ (by simp))
  -- the second constructor on {p3, p1}
  let given : List (FParam ℝ) := [⟨3, Shape.oo (-1) 1, 0⟩, ⟨1, Shape.cc 0 1, 1 / 2⟩]
  have hgn : (given.map (·.name)).Nodup := by simp [given]
  have hag : ∀ q ∈ given, ∀ p, findP q.name ({ ps := exPs } : Fn ℝ).ps = some p →
      p.shape = q.shape ∧ p.value = q.value := by
    intro q hq p hp
    simp only [given, List.mem_cons, List.not_mem_nil, or_false] at hq
    rcases hq with rfl | rfl <;> simp [exPs, findP] at hp <;> subst hp <;> simp
  obtain ⟨w, v, e, hi, _, hfn, hnames⟩ := newSub_refines_init libPI libTINY ht 0 _ hfok given hgn hag
  have hstep : World.step libPI libTINY { fns := [{ ps := exPs }] } (.newSub 0 given)
      = .ok { fns := [{ ps := exPs }], ws := [w] } := by
    simp [World.step, e]
  have r2 := Reach.step (op := .newSub 0 given) r1 ⟨_, rfl, hgn, hag⟩ hstep
  refine ⟨_, w, { ps := exPs }, r2, rfl, ?_, by simp [hfn], by simp [Fn.names, exPs], ?_⟩
  · rw [hnames]; simp [given, Fn.names, exPs]
  · exact ((every_wrapper_aligned libPI libTINY ht r2) w (by simp)).1

end Bpp.C11
