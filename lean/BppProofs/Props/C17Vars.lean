import BppProofs.Lemmas.Vars
/-!
# C17 — variable resolution reaches a fixed point in which no resolvable reference remains

Model: `BppModel/Text/Vars.lean` (AttributesTools::resolveVariables, default marks `$( )`); the
unbounded `while` loop is modelled with fuel (`diverge` = out of fuel).
Structured definitions: `SEnv = List (key × List Seg)`, a value is text without `$` interleaved with
references `$(name)`; `AcyclicOk env` (decidable): distinct keys, well-formed segments, and from no
definition a cycle of references is reachable.  No bound on the number of entries, on lengths or on
the depth of the reference chains; the list order of `env` is arbitrary.
-/
namespace Bpp.C17
open Bpp.Text Bpp.Text.Keyval Bpp.Text.Vars

/-! ## whenever it returns, no reference is left (any map, cyclic or not) -/

theorem resolveOne_done_clean (am : Map) (key : Str) (n : Nat) (v v' : Str)
    (h : resolveOne am key n v = .done v') : find ['$', '('] v' = none := by
  induction n generalizing v with
  | zero =>
    rw [resolveOne] at h
    cases hf : find ['$', '('] v with
    | none => simp [hf] at h; rw [← h]; exact hf
    | some i => simp [hf] at h
  | succ n ih =>
    rw [resolveOne] at h
    cases hf : find ['$', '('] v with
    | none => simp [hf] at h; rw [← h]; exact hf
    | some i =>
      simp only [hf] at h
      cases hc : findFrom [')'] v i with
      | none => simp [hc] at h
      | some j => simp only [hc] at h; exact ih _ h

theorem mapFind_mapSet (k k' v : Str) (am : Map) :
    mapFind k' (mapSet k v am) = if k' = k ∧ (mapFind k am).isSome then some v else mapFind k' am := by
  induction am with
  | nil => simp [mapSet, mapFind]
  | cons e am ih =>
    rcases e with ⟨ke, ve⟩
    simp only [mapSet]
    by_cases h1 : ke = k
    · subst h1
      by_cases h2 : k' = ke
      · subst h2; simp [mapFind]
      · have : (k' == ke) = false := by simpa using h2
        simp [mapFind, this, h2]
    · have h1' : (ke == k) = false := by simpa using h1
      have h1'' : (k == ke) = false := by simpa using fun h => h1 h.symm
      simp only [h1', Bool.false_eq_true, if_false, mapFind, h1'']
      by_cases h2 : k' = ke
      · subst h2
        have : ¬ k' = k := h1
        simp [this]
      · have : (k' == ke) = false := by simpa using h2
        simp only [this, Bool.false_eq_true, if_false]; exact ih

/-- "clean at `k`": the entry of `k`, if any, contains no `$(` -/
def CleanAt (m : Map) (k : Str) : Prop := ∀ v, mapFind k m = some v → find ['$', '('] v = none

theorem resolveKeys_clean (fuel : Nat) (ks : List Str) (am m : Map)
    (h : resolveKeys fuel ks am = .ok m) :
    (∀ k, k ∈ ks → CleanAt m k) ∧ (∀ k, CleanAt am k → CleanAt m k)
    ∧ (∀ k, (mapFind k m).isSome → (mapFind k am).isSome) := by
  induction ks generalizing am with
  | nil =>
    simp [resolveKeys] at h; subst h
    exact ⟨fun k hk => by simp at hk, fun k hk => hk, fun k hk => hk⟩
  | cons a ks ih =>
    rw [resolveKeys] at h
    cases hf : mapFind a am with
    | none =>
      simp only [hf] at h
      obtain ⟨i1, i2, i3⟩ := ih am h
      refine ⟨?_, i2, i3⟩
      intro k hk
      rcases List.mem_cons.mp hk with rfl | hk
      · intro v hv
        have := i3 k (by rw [hv]; rfl)
        rw [hf] at this; cases this
      · exact i1 k hk
    | some v =>
      simp only [hf] at h
      cases hr : resolveOne am a fuel v with
      | exc => simp [hr] at h
      | diverge => simp [hr] at h
      | done v' =>
        simp only [hr] at h
        have hcl := resolveOne_done_clean am a fuel v v' hr
        obtain ⟨i1, i2, i3⟩ := ih _ h
        have hset : CleanAt (mapSet a v' am) a := by
          intro w hw
          rw [mapFind_mapSet] at hw
          simp [hf] at hw; rw [← hw]; exact hcl
        refine ⟨?_, ?_, ?_⟩
        · intro k hk
          rcases List.mem_cons.mp hk with rfl | hk
          · exact i2 k hset
          · exact i1 k hk
        · intro k hk
          apply i2
          intro w hw
          rw [mapFind_mapSet] at hw
          by_cases hka : k = a
          · subst hka; simp [hf] at hw; rw [← hw]; exact hcl
          · simp [hka] at hw; exact hk w hw
        · intro k hk
          have := i3 k hk
          rw [mapFind_mapSet] at this
          by_cases hka : k = a
          · subst hka; rw [hf]; rfl
          · simpa [hka] using this

theorem mapFind_isSome_mem (k : Str) (am : Map) (h : (mapFind k am).isSome) : k ∈ am.map (·.1) := by
  induction am with
  | nil => simp [mapFind] at h
  | cons e am ih =>
    rcases e with ⟨ke, ve⟩
    simp only [mapFind] at h
    by_cases hk : k = ke
    · subst hk; simp
    · have : (k == ke) = false := by simpa using hk
      simp only [this, Bool.false_eq_true, if_false] at h
      exact List.mem_cons_of_mem _ (ih h)

/-- **no resolvable reference remains**: whenever `resolveVariables` returns (whatever the map —
cyclic, malformed, any order), no value of the result contains `$(` -/
theorem resolve_no_reference (fuel : Nat) (am m : Map) (h : resolveVariables fuel am = .ok m) :
    ∀ k v, mapFind k m = some v → find ['$', '('] v = none := by
  intro k v hv
  obtain ⟨i1, _, i3⟩ := resolveKeys_clean fuel _ am m h
  have hin : k ∈ am.map (·.1) := mapFind_isSome_mem k am (i3 k (by rw [hv]; rfl))
  exact i1 k hin v hv

/-! ## acyclic definitions: termination and the value reached -/

theorem min_level (env : SEnv) (V : List Seg) :
    ∀ N, okAt env N V = true → ∃ n, n ≤ N ∧ okAt env n V = true ∧ ∀ m, m < n → okAt env m V = false := by
  intro N
  induction N using Nat.strongRecOn with
  | _ N ih =>
    intro h
    by_cases hex : ∃ m, m < N ∧ okAt env m V = true
    · obtain ⟨m, hm, hok⟩ := hex
      obtain ⟨n, hn, h1, h2⟩ := ih m hm hok
      exact ⟨n, by omega, h1, h2⟩
    · refine ⟨N, Nat.le_refl _, h, ?_⟩
      intro m hm
      cases hh : okAt env m V
      · rfl
      · exact absurd ⟨m, hm, hh⟩ hex

theorem outer_loop (env : SEnv)
    (hwf : env.all (fun e => e.2.all segOk) = true) (hd : distinctKeys env = true)
    (hok : env.all (fun e => okAt env env.length e.2) = true) :
    ∀ (ks done : List Str), (∀ k ∈ ks, (slookup env k).isSome) → ks.Nodup →
      (∀ k ∈ ks, done.contains k = false) →
      ∃ F, ∀ fuel, F ≤ fuel →
        resolveKeys fuel ks (amOf env env.length done env) = .ok (amOf env env.length (ks.reverse ++ done) env) := by
  intro ks
  induction ks with
  | nil => intro done _ _ _; exact ⟨0, fun fuel _ => by simp [resolveKeys]⟩
  | cons a ks ih =>
    intro done hdef hnd hdone
    have hnd' := List.nodup_cons.mp hnd
    obtain ⟨segsa, ha⟩ := Option.isSome_iff_exists.mp (hdef a (List.mem_cons_self ..))
    have hoka : okAt env env.length segsa = true := (List.all_eq_true.mp hok) _ (slookup_mem ha)
    have hsega : segsa.all segOk = true := (List.all_eq_true.mp hwf) _ (slookup_mem ha)
    obtain ⟨n, hn, hokn, hmin⟩ := min_level env segsa _ hoka
    obtain ⟨c, hc⟩ := inner_claim env env.length done a segsa hwf ha n hn hmin segsa hsega hokn
    have hstab : expand env env.length segsa = expand env n segsa := expand_stable env n segsa hokn _ hn
    have hcl : cleanText (expand env n segsa) = true := expand_clean env hwf n segsa hsega
    have hda : done.contains a = false := hdone a (List.mem_cons_self ..)
    obtain ⟨F', hF'⟩ := ih (a :: done) (fun k hk => hdef k (List.mem_cons_of_mem _ hk)) hnd'.2
      (by
        intro k hk
        have hka : (k == a) = false := by
          cases hh : k == a
          · rfl
          · have : k = a := by simpa using hh
            rw [this] at hk; exact absurd hk hnd'.1
        rw [contains_cons_ne done hka]; exact hdone k (List.mem_cons_of_mem _ hk))
    refine ⟨c + F', fun fuel hfuel => ?_⟩
    obtain ⟨K, rfl⟩ : ∃ K, fuel = c + K := ⟨fuel - c, by omega⟩
    rw [resolveKeys]
    have hfind : mapFind a (amOf env env.length done env) = some (renderSegs segsa) := by
      rw [mapFind_amOf, ha]; simp only [Option.map_some, hda, Bool.false_eq_true, if_false]
    have hres : resolveOne (amOf env env.length done env) a (c + K) (renderSegs segsa) = .done (expand env env.length segsa) := by
      have := hc K [] [] (by simp [cleanText])
      simp only [List.nil_append, List.append_nil] at this
      rw [this, resolveOne_clean _ _ _ _ hcl, hstab]
    simp only [hfind, hres]
    rw [mapSet_amOf env env.length done env a segsa hd ha hda, hF' (c + K) (by omega)]
    simp [List.reverse_cons, List.append_assoc]

theorem slookup_none_not_mem {env : SEnv} {k : Str} (h : slookup env k = none) : k ∉ env.map (·.1) := by
  induction env with
  | nil => simp
  | cons e env ih =>
    rcases e with ⟨k', s'⟩
    simp only [slookup] at h
    split at h
    · cases h
    · rename_i hne
      have : ¬ k = k' := by simpa using hne
      simp only [List.map_cons, List.mem_cons, not_or]
      exact ⟨this, ih h⟩

theorem distinct_nodup {env : SEnv} (h : distinctKeys env = true) : (env.map (·.1)).Nodup := by
  induction env with
  | nil => simp
  | cons e env ih =>
    rcases e with ⟨k, s⟩
    simp only [distinctKeys, Bool.and_eq_true] at h
    simp only [List.map_cons, List.nodup_cons]
    refine ⟨slookup_none_not_mem ?_, ih h.2⟩
    cases hh : slookup env k with
    | none => rfl
    | some x => rw [hh] at h; simp at h

theorem slookup_of_mem {env : SEnv} {k : Str} (h : k ∈ env.map (·.1)) : (slookup env k).isSome := by
  induction env with
  | nil => simp at h
  | cons e env ih =>
    rcases e with ⟨k', s'⟩
    simp only [slookup]
    by_cases hk : k = k'
    · subst hk; simp
    · have : (k == k') = false := by simpa using hk
      simp only [this, Bool.false_eq_true, if_false]
      simp only [List.map_cons, List.mem_cons, hk, false_or] at h
      exact ih h

/-- **acyclic definitions ⇒ the loop terminates and reaches the full expansion**, for every list
order of the definitions (references to entries visited later are inlined and resolved in place,
references to entries visited earlier find their resolved text): with enough fuel — hence for the
unbounded loop of the code — the result is `resolved env`, entry by entry the expansion
`expand env _ segs` of its definition. -/
theorem resolve_fixed_point (env : SEnv) (h : AcyclicOk env = true) :
    ∃ F, ∀ fuel, F ≤ fuel → resolveVariables fuel (renderEnv env) = .ok (resolved env) := by
  simp only [AcyclicOk, Bool.and_eq_true] at h
  obtain ⟨⟨hd, hwf⟩, hok⟩ := h
  obtain ⟨F, hF⟩ := outer_loop env hwf hd hok (env.map (·.1)) []
    (fun k hk => slookup_of_mem hk) (distinct_nodup hd) (fun k _ => by simp)
  refine ⟨F, fun fuel hfuel => ?_⟩
  have h0 : renderEnv env = amOf env env.length [] env := by
    simp [renderEnv, amOf]
  have h1 : (renderEnv env).map (·.1) = env.map (·.1) := by simp [renderEnv]
  have h2 : amOf env env.length ((env.map (·.1)).reverse ++ []) env = resolved env := by
    simp only [amOf, resolved, List.append_nil]
    apply List.map_congr_left
    intro e he
    have : ((env.map (·.1)).reverse).contains e.1 = true := by
      simp only [List.contains_eq_mem, List.mem_reverse, decide_eq_true_eq]
      exact List.mem_map.mpr ⟨e, he, rfl⟩
    simp only [this, if_true]
  unfold resolveVariables
  rw [h1, h0, hF fuel hfuel, h2]

/-- the values reached contain no `$` at all -/
theorem resolved_clean (env : SEnv) (h : AcyclicOk env = true) :
    ∀ kv ∈ resolved env, cleanText kv.2 = true := by
  simp only [AcyclicOk, Bool.and_eq_true] at h
  intro kv hkv
  obtain ⟨e, he, rfl⟩ := List.mem_map.mp hkv
  exact expand_clean env h.1.2 _ _ ((List.all_eq_true.mp h.1.2) e he)

theorem flatMap_congr' {α β : Type} (l : List α) (f g : α → List β) (h : ∀ x ∈ l, f x = g x) :
    l.flatMap f = l.flatMap g := by
  induction l with
  | nil => rfl
  | cons a l ih =>
    simp only [List.flatMap_cons]
    rw [h a (List.mem_cons_self ..), ih (fun x hx => h x (List.mem_cons_of_mem _ hx))]

/-- … and they are a **fixed point**: each resolved value is its definition with every reference
replaced by the resolved value of the entry it names (nothing for an undefined name).  The equation
does not mention any order of the entries. -/
theorem resolved_is_fixed_point (env : SEnv) (h : AcyclicOk env = true) :
    ∀ e ∈ env, expand env env.length e.2 =
      e.2.flatMap (fun s => match s with
        | .lit t => t
        | .ref b => match slookup env b with
          | none => []
          | some segs => expand env env.length segs) := by
  simp only [AcyclicOk, Bool.and_eq_true] at h
  intro e he
  have hN : ∃ N', env.length = N' + 1 := by
    cases env with
    | nil => cases he
    | cons x xs => exact ⟨xs.length, by simp⟩
  obtain ⟨N', hN'⟩ := hN
  have hoke : okAt env (N' + 1) e.2 = true := by rw [← hN']; exact (List.all_eq_true.mp h.2) e he
  have step : expand env (N' + 1) e.2 = e.2.flatMap (fun s => match s with
      | .lit t => t
      | .ref b => match slookup env b with
        | none => []
        | some segs => expand env N' segs) := by rw [expand]; rfl
  rw [hN', step]
  apply flatMap_congr'
  intro s hs
  cases s with
  | lit t => rfl
  | ref b =>
    cases hb : slookup env b with
    | none => simp only [hb]
    | some segs =>
      simp only [hb]
      have : okAt env N' segs = true := by
        simp only [okAt, List.all_eq_true] at hoke
        have := hoke _ hs
        simpa [hb] using this
      exact (expand_stable env N' segs this (N' + 1) (by omega)).symm

/-! ## the non-terminating map (finding C17-resolvevariables-cyclic-nontermination) -/

/-- `a=$(b), b=$(b)$(b)`: whatever the fuel, the loop does not end — the value of `a` alternates
between `$(b)` and `$(b)$(b)`.  (`resolve_fixed_point` without its acyclicity hypothesis is false.) -/
theorem resolve_diverges_witness :
    ∀ fuel, resolveVariables fuel
      [(['a'], ['$', '(', 'b', ')']), (['b'], ['$', '(', 'b', ')', '$', '(', 'b', ')'])] = .diverge := by
  let am : Map := [(['a'], ['$', '(', 'b', ')']), (['b'], ['$', '(', 'b', ')', '$', '(', 'b', ')'])]
  have hb : cleanName ['b'] = true := by decide
  have key : ∀ n, resolveOne am ['a'] n ['$', '(', 'b', ')'] = .diverge
      ∧ resolveOne am ['a'] n ['$', '(', 'b', ')', '$', '(', 'b', ')'] = .diverge := by
    intro n
    induction n with
    | zero => constructor <;> (rw [resolveOne]; decide)
    | succ n ih =>
      constructor
      · have := resolveOne_step am ['a'] n [] ['b'] [] (by decide) hb
        simp only [refStr, List.nil_append, List.append_nil, List.cons_append] at this
        rw [this]
        have e : (if (['b'] == ['a']) = true then some ['$', '(', 'b', ')'] else mapFind ['b'] am)
            = some ['$', '(', 'b', ')', '$', '(', 'b', ')'] := by decide
        rw [e]
        exact ih.2
      · have := resolveOne_step am ['a'] n [] ['b'] ['$', '(', 'b', ')'] (by decide) hb
        simp only [refStr, List.nil_append, List.singleton_append, List.cons_append, List.append_nil] at this
        rw [this]
        have e : (if (['b'] == ['a']) = true then some ['$', '(', 'b', ')', '$', '(', 'b', ')'] else mapFind ['b'] am)
            = some ['$', '(', 'b', ')', '$', '(', 'b', ')'] := by decide
        rw [e]
        exact ih.1
  intro fuel
  show resolveKeys fuel [['a'], ['b']] am = .diverge
  rw [resolveKeys]
  have : mapFind ['a'] am = some ['$', '(', 'b', ')'] := by decide
  simp only [this, (key fuel).1]

/-- non-vacuity: definitions given in the "wrong" order (a refers to b, visited later) and
through two levels satisfy the hypothesis -/
example : AcyclicOk [(['a'], [.lit ['x'], .ref ['b']]), (['b'], [.ref ['c'], .ref ['u']]), (['c'], [.lit ['1']])] = true := by
  decide

end Bpp.C17
