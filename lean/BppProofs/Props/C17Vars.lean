import BppProofs.Lemmas.Vars
/-!
# C17 — variable resolution reaches a fixed point in which no resolvable reference remains

Model: `BppModel/Text/Vars.lean` (AttributesTools::resolveVariables, default marks `$( )`); the
unbounded `while` loop is modelled with fuel (`diverge` = out of fuel).
Structured definitions: `SEnv = List (key × List Seg)`, a value is text without `$` interleaved with
references `$(name)`; `AcyclicOk env` (decidable): distinct keys, well-formed segments, and from no
definition a cycle of references is reachable.  No bound on the number of entries, on lengths or on
the depth of the reference chains; the list order of `env` is arbitrary.
-/
namespace Bpp.C17
open Bpp.Text Bpp.Text.Keyval Bpp.Text.Vars

/-! ## whenever it returns, no reference is left (any map, cyclic or not) -/

/-- **no resolvable reference remains**: whenever `resolveVariables` returns (whatever the map —
cyclic, malformed, any order), no value of the result contains `$(` -/
theorem resolve_no_reference (fuel : Nat) (am m : Map) (h : resolveVariables fuel am = .ok m) :
    ∀ k v, mapFind k m = some v → find ['$', '('] v = none := by
  intro k v hv
  obtain ⟨i1, _, i3⟩ := resolveKeys_clean fuel _ am m h
  have hin : k ∈ am.map (·.1) := mapFind_isSome_mem k am (i3 k (by rw [hv]; rfl))
  exact i1 k hin v hv

/-! ## acyclic definitions: termination and the value reached -/

/-- **acyclic definitions ⇒ the loop terminates and reaches the full expansion**, for every list
order of the definitions (references to entries visited later are inlined and resolved in place,
references to entries visited earlier find their resolved text): with enough fuel — hence for the
unbounded loop of the code — the result is `resolved env`, entry by entry the expansion
`expand env _ segs` of its definition. -/
theorem resolve_fixed_point (env : SEnv) (h : AcyclicOk env = true) :
    ∃ F, ∀ fuel, F ≤ fuel → resolveVariables fuel (renderEnv env) = .ok (resolved env) := by
  simp only [AcyclicOk, Bool.and_eq_true] at h
  obtain ⟨⟨hd, hwf⟩, hok⟩ := h
  obtain ⟨F, hF⟩ := outer_loop env hwf hd hok (env.map (·.1)) []
    (fun k hk => slookup_of_mem hk) (distinct_nodup hd) (fun k _ => by simp)
  refine ⟨F, fun fuel hfuel => ?_⟩
  have h0 : renderEnv env = amOf env env.length [] env := by
    simp [renderEnv, amOf]
  have h1 : (renderEnv env).map (·.1) = env.map (·.1) := by simp [renderEnv]
  have h2 : amOf env env.length ((env.map (·.1)).reverse ++ []) env = resolved env := by
    simp only [amOf, resolved, List.append_nil]
    apply List.map_congr_left
    intro e he
    have : ((env.map (·.1)).reverse).contains e.1 = true := by
      simp only [List.contains_eq_mem, List.mem_reverse, decide_eq_true_eq]
      exact List.mem_map.mpr ⟨e, he, rfl⟩
    simp only [this, if_true]
  unfold resolveVariables
  rw [h1, h0, hF fuel hfuel, h2]

/-- the values reached contain no `$` at all -/
theorem resolved_clean (env : SEnv) (h : AcyclicOk env = true) :
    ∀ kv ∈ resolved env, cleanText kv.2 = true := by
  simp only [AcyclicOk, Bool.and_eq_true] at h
  intro kv hkv
  obtain ⟨e, he, rfl⟩ := List.mem_map.mp hkv
  exact expand_clean env h.1.2 _ _ ((List.all_eq_true.mp h.1.2) e he)

/-- … and they are a **fixed point**: each resolved value is its definition with every reference
replaced by the resolved value of the entry it names (nothing for an undefined name).  The equation
does not mention any order of the entries. -/
theorem resolved_is_fixed_point (env : SEnv) (h : AcyclicOk env = true) :
    ∀ e ∈ env, expand env env.length e.2 =
      e.2.flatMap (fun s => match s with
        | .lit t => t
        | .ref b => match slookup env b with
          | none => []
          | some segs => expand env env.length segs) := by
  simp only [AcyclicOk, Bool.and_eq_true] at h
  intro e he
  have hN : ∃ N', env.length = N' + 1 := by
    cases env with
    | nil => cases he
    | cons x xs => exact ⟨xs.length, by simp⟩
  obtain ⟨N', hN'⟩ := hN
  have hoke : okAt env (N' + 1) e.2 = true := by rw [← hN']; exact (List.all_eq_true.mp h.2) e he
  have step : expand env (N' + 1) e.2 = e.2.flatMap (fun s => match s with
      | .lit t => t
      | .ref b => match slookup env b with
        | none => []
        | some segs => expand env N' segs) := by rw [expand]; rfl
  rw [hN', step]
  apply flatMapCongr
  intro s hs
  cases s with
  | lit t => rfl
  | ref b =>
    cases hb : slookup env b with
    | none => simp only [hb]
    | some segs =>
      simp only [hb]
      have : okAt env N' segs = true := by
        simp only [okAt, List.all_eq_true] at hoke
        have := hoke _ hs
        simpa [hb] using this
      exact (expand_stable env N' segs this (N' + 1) (by omega)).symm

/-- **independent of the map order**: visiting the same definitions in any other order (any
permutation of the entries) terminates as well, and every name ends up with the same text -/
theorem resolve_order_independent (env env' : SEnv) (hp : env.Perm env') (h : AcyclicOk env = true) :
    (∃ F, ∀ fuel, F ≤ fuel → resolveVariables fuel (renderEnv env') = .ok (resolved env')) ∧
    ∀ k, mapFind k (resolved env') = mapFind k (resolved env) := by
  have h' := acyclicOk_perm hp h
  refine ⟨resolve_fixed_point env' h', fun k => ?_⟩
  simp only [AcyclicOk, Bool.and_eq_true] at h h'
  have hl := slookup_perm hp h.1.1 h'.1.1
  unfold resolved
  rw [mapFind_resolvedAux, mapFind_resolvedAux, hl k, ← hp.length_eq]
  cases slookup env k with
  | none => rfl
  | some segs => simp only [Option.map_some]; rw [expand_congr hl]

/-! ## the non-terminating map (finding C17-resolvevariables-cyclic-nontermination) -/

/-- `a=$(b), b=$(b)$(b)`: whatever the fuel, the loop does not end — the value of `a` alternates
between `$(b)` and `$(b)$(b)`.  (`resolve_fixed_point` without its acyclicity hypothesis is false.) -/
theorem resolve_diverges_witness :
    ∀ fuel, resolveVariables fuel
      [(['a'], ['$', '(', 'b', ')']), (['b'], ['$', '(', 'b', ')', '$', '(', 'b', ')'])] = .diverge := by
  let am : Map := [(['a'], ['$', '(', 'b', ')']), (['b'], ['$', '(', 'b', ')', '$', '(', 'b', ')'])]
  have hb : cleanName ['b'] = true := by decide
  have key : ∀ n, resolveOne am ['a'] n ['$', '(', 'b', ')'] = .diverge
      ∧ resolveOne am ['a'] n ['$', '(', 'b', ')', '$', '(', 'b', ')'] = .diverge := by
    intro n
    induction n with
    | zero => constructor <;> (rw [resolveOne]; decide)
    | succ n ih =>
      constructor
      · have := resolveOne_step am ['a'] n [] ['b'] [] (by decide) hb
        simp only [refStr, List.nil_append, List.append_nil, List.cons_append] at this
        rw [this]
        have e : (if (['b'] == ['a']) = true then some ['$', '(', 'b', ')'] else mapFind ['b'] am)
            = some ['$', '(', 'b', ')', '$', '(', 'b', ')'] := by decide
        rw [e]
        exact ih.2
      · have := resolveOne_step am ['a'] n [] ['b'] ['$', '(', 'b', ')'] (by decide) hb
        simp only [refStr, List.nil_append, List.singleton_append, List.cons_append, List.append_nil] at this
        rw [this]
        have e : (if (['b'] == ['a']) = true then some ['$', '(', 'b', ')', '$', '(', 'b', ')'] else mapFind ['b'] am)
            = some ['$', '(', 'b', ')', '$', '(', 'b', ')'] := by decide
        rw [e]
        exact ih.1
  intro fuel
  show resolveKeys fuel [['a'], ['b']] am = .diverge
  rw [resolveKeys]
  have : mapFind ['a'] am = some ['$', '(', 'b', ')'] := by decide
  simp only [this, (key fuel).1]

/-- non-vacuity: definitions given in the "wrong" order (a refers to b, visited later) and
through two levels satisfy the hypothesis -/
example : AcyclicOk [(['a'], [.lit ['x'], .ref ['b']]), (['b'], [.ref ['c'], .ref ['u']]), (['c'], [.lit ['1']])] = true := by
  decide

end Bpp.C17
