import BppProofs.Props.C15Valid
import BppProofs.Lemmas.TreeRootAtU
/-!
# C15 — re-rooting keeps the topology

`rootAt(n)` on a valid tree — rooted (directed) or unrooted (undirected, after `unRoot` /
`makeUndirected`) — with `n` one of its nodes succeeds and leaves (`Rerooted g g' n`)

* the same nodes and the same undirected edge set with the same edge identities (`SameShape`:
  `uedges g' = uedges g`, the edge table with the end points of every edge put in order),
* `n` as the root and as the only node without father,
* a valid rooted tree: consistent tables, directed, `isTree = true`.

The attached objects are untouched: no notification is involved (`Props/C15Obs.lean`,
`rootAt_keeps_objects`).  The rooted case turns round the father chain of the new root
(`propagateDirection_`); the unrooted case (repaired: `findings/C15.json`) lists the relations from
the new root by a traversal, makes the graph directed and switches the relations that lead towards
the new root.
-/
namespace Bpp.C15
open Bpp Bpp.Graph

/-- **rootAt_spec** -/
theorem rootAt_spec (t : T) (hc : Consistent t.g) (hv : T.isTree t.g = .ok true) (n : Nat) (hn : t.g.hasNode n = true) :
    ∃ t', t.rootAt n = .ok (.ok () t'.g, t') ∧ Rerooted t.g t'.g n := by
  cases hd : t.g.directed with
  | true => exact rootAt_rooted t ⟨hc, hd, hv⟩ n hn
  | false => exact rootAt_unrooted t hc hd hv n hn

/-- the same after any history of the container: whenever `isValid()` answers true, `rootAt` at any
node succeeds with a tree of the same shape rooted there -/
theorem rootAt_spec_history (d : Bool) (ops : List TOp) (n : Nat)
    (hv : ((T.empty d).run ops).isValid.1 = .ok true) (hn : ((T.empty d).run ops).g.hasNode n = true) :
    ∃ t', ((T.empty d).run ops).rootAt n = .ok (.ok () t'.g, t') ∧ Rerooted ((T.empty d).run ops).g t'.g n := by
  rw [isValid_is_isTree d ops] at hv
  exact rootAt_spec _ (history_consistent d ops) hv n hn

/-- what `Rerooted` says, spelled out -/
theorem rerooted_unfold {g g' : G} {n : Nat} (h : Rerooted g g' n) :
    AL.keys g'.nodes = AL.keys g.nodes ∧ uedges g' = uedges g ∧ g'.root = n ∧ g'.directed = true ∧
    T.isTree g' = .ok true ∧ Consistent g' ∧ ∀ x, g'.hasNode x = true → (T.hasFather g' x = some false ↔ x = n) :=
  ⟨h.shape.keys, h.shape.uedges, h.root, h.valid.dir, h.valid.tree, h.valid.cons, h.fatherless⟩

/-- a tree that is not valid, or a node that is not in it, is refused and nothing changes in the graph -/
theorem rootAt_refuses (t : T) (n : Nat) (h : T.isTree t.g = .ok false ∨ (T.isTree t.g = .ok true ∧ t.g.hasNode n = false))
    (hnv : t.valid = false) : ∃ t', t.rootAt n = .ok (.exc t.g, t') ∧ t'.g = t.g := by
  unfold T.rootAt T.isValid
  rcases h with h | ⟨h, hn⟩
  · simp [hnv, h]
  · simp [hnv, h, hn]

/-- **rootAt_total**: on every reachable state of the container `rootAt` returns (re-rooted, or refused): the model never runs
out of fuel and never meets undefined behaviour there, so the fall-back `| _ => t` of `T.step (.rootAt n)` — under which
`cache_sound`, `isValid_iff`, `history_consistent` would silently count such a call as no step — is dead
(found missing, and proved, by the independent audit) -/
theorem rootAt_total (d : Bool) (ops : List TOp) (n : Nat) : ∃ r, ((T.empty d).run ops).rootAt n = .ok r := by
  generalize ht : (T.empty d).run ops = t
  have hc : Consistent t.g := ht ▸ history_consistent d ops
  have hs : CacheSound t := ht ▸ cache_sound d ops
  cases hr : t.g.hasNode t.g.root with
  | false =>
    have he := T.isTree_root_absent hr
    have hv : t.valid = false := by
      cases h : t.valid with
      | false => rfl
      | true => have := hs h; rw [he] at this; cases this
    exact ⟨(.exc t.g, t), by simp [T.rootAt, T.isValid, hv, he]⟩
  | true =>
    obtain ⟨b, hb⟩ := T.isTree_total hc hr
    cases b with
    | false =>
      have hv : t.valid = false := by
        cases h : t.valid with
        | false => rfl
        | true => have := hs h; rw [hb] at this; cases this
      obtain ⟨t', h, _⟩ := rootAt_refuses t n (Or.inl hb) hv
      exact ⟨_, h⟩
    | true =>
      cases hn : t.g.hasNode n with
      | true => obtain ⟨t', h, _⟩ := rootAt_spec t hc hb n hn; exact ⟨_, h⟩
      | false =>
        cases h : t.valid with
        | false => obtain ⟨t', h, _⟩ := rootAt_refuses t n (Or.inr ⟨hb, hn⟩) h; exact ⟨_, h⟩
        | true => exact ⟨(.exc t.g, t), by simp [T.rootAt, T.isValid, h, hn]⟩

/-- hence a `rootAt` in a history is always the step the model computes -/
theorem step_rootAt_eq (d : Bool) (ops : List TOp) (n : Nat) :
    ∃ r, ((T.empty d).run ops).rootAt n = .ok r ∧ ((T.empty d).run ops).step (.rootAt n) = r.2 := by
  obtain ⟨r, hr⟩ := rootAt_total d ops n
  exact ⟨r, hr, by simp [T.step, hr]⟩

/-! non-vacuity: the tree 0 -> 1 -> 3, 0 -> 2 re-rooted at 3; the same unrooted (built undirected with
ids that are not increasing away from 3) re-rooted at 3 — the witness of the repaired defect -/

example : (match ((T.empty true).run exOps).rootAt 3 with | .ok r => T.isTree r.2.g == .ok true && r.2.g.root == 3 | _ => false) = true := by decide
example : (match ((T.empty false).run exOps).rootAt 3 with | .ok r => T.isTree r.2.g == .ok true && r.2.g.root == 3 && r.2.g.directed | _ => false) = true := by decide
example : ∃ t', ((T.empty false).run exOps).rootAt 3 = .ok (.ok () t'.g, t') ∧ Rerooted ((T.empty false).run exOps).g t'.g 3 :=
  rootAt_spec_history false exOps 3 (by decide) (by decide)

end Bpp.C15
