import BppProofs.Lemmas.Graph
/-!
# C14 — graph and association views stay consistent with a reference multigraph
(src/Bpp/Graph/GlobalGraph.{h,cpp}, AssociationGraphImplObserver.h)

Property theorems only; helper lemmas are in `Lemmas/Graph.lean`.
-/
namespace Bpp.C14
open Bpp Bpp.Graph Bpp.Graph.G

/-- a `link` that raises leaves the graph unchanged -/
theorem link_raises_unchanged (g g' : G) (a b : Nat) (h : link a b g = .exc g') : g' = g := by
  unfold link at h
  split at h
  · injection h with h; exact h.symm
  · cases h

end Bpp.C14
