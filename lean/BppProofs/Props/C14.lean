import BppProofs.Lemmas.GraphSpec
/-!
# C14 — graph and association views stay consistent with a reference multigraph
(src/Bpp/Graph/GlobalGraph.{h,cpp}, AssociationGraphImplObserver.h)

Property theorems only; helper lemmas are in `Lemmas/Graph*.lean`.  The model
(`BppModel/Graph.lean`) transcribes the library worktree including its `fix:` commits; the
defects of the unchanged tree are recorded in `findings/C14.json` with witnesses in
`corpus/C14/`.

`Consistent g` (Lemmas/Graph.lean): every edge-table entry `e ↦ (a,b)` is listed in
`out(a)[b]` and `in(b)[a]` (and in `out(b)[a]`, `in(a)[b]` when undirected), every node-table
entry has its edge-table entry, entries live in rows of existing nodes (so every edge has two
existing end points), ids are below the counters, and all maps have ascending keys.
-/
namespace Bpp.C14
open Bpp Bpp.Graph Bpp.Graph.G Bpp.AL

/-! ## The invariant, over all histories -/

theorem consistent_empty (d : Bool) : Consistent (Graph.empty d) := by
  refine ⟨⟨?_, ?_, ?_, ?_, ?_⟩, ?_, ?_, ⟨asc_nil, asc_nil, ?_⟩⟩ <;>
    simp [Graph.empty, G.hasNode, G.hasEdge, G.outE, G.inE, has, find]

theorem all_forget {α : Type} {P : G → Prop} {o : GOut α} (h : o.All P) : P o.forget.state := by
  cases o <;> exact h

theorem all_state {α : Type} {P : G → Prop} {o : GOut α} (h : o.All P) : P o.state := by
  cases o <;> exact h

/-- one operation — whether it succeeds or raises — keeps the graph consistent -/
theorem consistent_step (g : G) (hc : Consistent g) (op : Op) : Consistent (g.step op) := by
  cases op with
  | createNode => exact all_forget (createNode_consistent hc)
  | createNodeFromNode o => exact all_forget (createNodeFromNode_consistent hc o)
  | createNodeOnEdge e => exact all_forget (createNodeOnEdge_consistent hc e)
  | createNodeFromEdge e => exact all_forget (createNodeFromEdge_consistent hc e)
  | link a b => exact all_forget (link_consistent hc a b)
  | linkE a b e => exact all_forget (linkE_consistent hc a b e)
  | unlink a b => exact all_forget (unlink_consistent hc a b)
  | switchNodes a b => exact all_state (switchNodes_consistent hc a b)
  | deleteNode n => exact all_state (deleteNode_consistent hc n)
  | makeDirected => exact makeDirected_consistent hc
  | makeUndirected => exact all_state (makeUndirected_consistent hc)
  | setRoot n => exact all_state (setRoot_consistent hc n)

/-- **consistent_inv**: after any history of node and edge creations, links, unlinks, deletions,
direction changes and re-rootings on a directed or undirected graph — each call succeeding or
raising — the three views agree -/
theorem consistent_inv (d : Bool) (ops : List Op) : Consistent ((Graph.empty d).run ops) := by
  suffices h : ∀ g, Consistent g → Consistent (g.run ops) from h _ (consistent_empty d)
  induction ops with
  | nil => intro g hc; exact hc
  | cons op r ih => intro g hc; exact ih _ (consistent_step g hc op)

/-- the first clause of the property, spelled out: every edge has two existing end points and is
listed by both of them, in both directions when undirected -/
theorem edge_end_points (d : Bool) (ops : List Op) (e a b : Nat)
    (h : find e ((Graph.empty d).run ops).edges = some (a, b)) :
    let g := (Graph.empty d).run ops
    g.hasNode a = true ∧ g.hasNode b = true ∧ g.outE a b = some e ∧ g.inE b a = some e ∧
    (g.directed = false → g.outE b a = some e ∧ g.inE a b = some e) := by
  have hc := consistent_inv d ops
  have := hc.views.edge_listed e a b h
  exact ⟨outE_some_hasNode this.1, inE_some_hasNode this.2.1, this.1, this.2.1, this.2.2⟩

/-- the predicate the driver evaluates on every state reported by the implementation
(`G.check`, names the first failing clause) is exactly the invariant -/
theorem check_is_consistent (g : G) : g.check = none ↔ Consistent g := check_iff g

/-! ## An operation that raises leaves the graph unchanged -/

/-- **raises_unchanged**, for every operation on every reachable (consistent) state -/
theorem raises_unchanged (g : G) (hc : Consistent g) (op : Op) (h : (g.apply op).raised = true) :
    g.step op = g := by
  cases op with
  | createNode => simp [G.apply, createNode, GOut.forget, GOut.raised] at h
  | createNodeFromNode o =>
    simp only [G.step, G.apply] at h ⊢
    rcases hr : createNodeFromNode o g with ⟨n, g'⟩ | g' <;> rw [hr] at h
    · simp [GOut.forget, GOut.raised] at h
    · exact createNodeFromNode_exc hc hr
  | createNodeOnEdge e =>
    simp only [G.step, G.apply] at h ⊢
    rcases hr : createNodeOnEdge e g with ⟨n, g'⟩ | g' <;> rw [hr] at h
    · simp [GOut.forget, GOut.raised] at h
    · exact createNodeOnEdge_exc hc hr
  | createNodeFromEdge e =>
    simp only [G.step, G.apply] at h ⊢
    rcases hr : createNodeFromEdge e g with ⟨n, g'⟩ | g' <;> rw [hr] at h
    · simp [GOut.forget, GOut.raised] at h
    · exact createNodeFromEdge_exc hc hr
  | link a b =>
    simp only [G.step, G.apply] at h ⊢
    rcases hr : link a b g with ⟨n, g'⟩ | g' <;> rw [hr] at h
    · simp [GOut.forget, GOut.raised] at h
    · unfold link at hr; split at hr
      · injection hr with hr; exact hr.symm
      · cases hr
  | linkE a b e =>
    simp only [G.step, G.apply] at h ⊢
    rcases hr : linkE a b e g with ⟨n, g'⟩ | g' <;> rw [hr] at h
    · simp [GOut.forget, GOut.raised] at h
    · unfold linkE at hr
      split at hr
      · injection hr with hr; exact hr.symm
      · split at hr
        · injection hr with hr; exact hr.symm
        · cases hr
  | unlink a b =>
    simp only [G.step, G.apply] at h ⊢
    rcases hO : g.outE a b with _ | e
    · rw [unlink_none hO]; rfl
    · obtain ⟨g', h', _⟩ := unlink_some hc hO
      rw [h'] at h; simp [GOut.forget, GOut.raised] at h
  | switchNodes a b =>
    simp only [G.step, G.apply] at h ⊢
    rcases hr : switchNodes a b g with ⟨u, g'⟩ | g' <;> rw [hr] at h
    · simp [GOut.raised] at h
    · exact switchNodes_exc hr
  | deleteNode n =>
    simp only [G.step, G.apply] at h ⊢
    cases hn : g.hasNode n
    · rw [deleteNode_absent hn]; rfl
    · obtain ⟨g', h', _⟩ := deleteNode_spec hc hn
      rw [h'] at h; simp [GOut.raised] at h
  | makeDirected => simp [G.apply, GOut.raised] at h
  | makeUndirected =>
    simp only [G.step, G.apply] at h ⊢
    cases hd : g.directed
    · rw [makeUndirected_already hd] at h; simp [GOut.raised] at h
    · cases hr : recipLoop (outTriples g.nodes) []
      · obtain ⟨g', h', _⟩ := makeUndirected_spec hc hd hr
        rw [h'] at h; simp [GOut.raised] at h
      · rw [makeUndirected_recip hd hr]; rfl
  | setRoot n =>
    simp only [G.step, G.apply] at h ⊢
    unfold setRoot at h ⊢
    split
    · rename_i hn; simp [hn, GOut.raised] at h
    · rfl

/-- … hence along every history from the empty graph -/
theorem raises_unchanged_inv (d : Bool) (ops : List Op) (op : Op)
    (h : (((Graph.empty d).run ops).apply op).raised = true) :
    ((Graph.empty d).run ops).step op = (Graph.empty d).run ops :=
  raises_unchanged _ (consistent_inv d ops) op h

/-! ## Operations on absent items raise -/

theorem absent_raises (g : G) :
    (∀ a b, g.hasNode a = false ∨ g.hasNode b = false → (g.apply (.link a b)).raised = true) ∧
    (∀ a b, g.outE a b = none → (g.apply (.unlink a b)).raised = true) ∧
    (∀ n, g.hasNode n = false → (g.apply (.deleteNode n)).raised = true) ∧
    (∀ o, g.hasNode o = false → (g.apply (.createNodeFromNode o)).raised = true) ∧
    (∀ e, g.hasEdge e = false → (g.apply (.createNodeOnEdge e)).raised = true ∧ (g.apply (.createNodeFromEdge e)).raised = true) ∧
    (∀ n, g.hasNode n = false → (g.apply (.setRoot n)).raised = true) := by
  refine ⟨?_, ?_, ?_, ?_, ?_, ?_⟩
  · intro a b h
    have : linkRefused g a b = true := by unfold linkRefused; rcases h with h | h <;> simp [h]
    simp [G.apply, link, this, GOut.forget, GOut.raised]
  · intro a b h; simp [G.apply, unlink_none h, GOut.forget, GOut.raised]
  · intro n h; simp [G.apply, deleteNode_absent h, GOut.raised]
  · intro o h; simp [G.apply, createNodeFromNode, h, GOut.forget, GOut.raised]
  · intro e h
    have hf : find e g.edges = none := by
      simp only [G.hasEdge, has] at h
      rcases find_cases e g.edges with hf | ⟨r, hf⟩
      · exact hf
      · simp [hf] at h
    constructor
    · simp [G.apply, createNodeOnEdge, hf, GOut.forget, GOut.raised]
    · simp [G.apply, createNodeFromEdge, h, GOut.forget, GOut.raised]
  · intro n h; simp [G.apply, setRoot, h, GOut.raised]

/-! ## The implementation refines the reference multigraph

`Graph.Spec` (BppModel/Graph.lean) keeps nodes and edge triples only and defines every operation
from scratch on them.  `abs g` forgets the node rows.  `Refines g r o` : reference outcome `r` and
implementation outcome `o` agree — both raise and the implementation is left unchanged, or both
succeed, return the same ids, and `abs` of the new state is the new reference. -/

/-- **refines_spec**: the abstraction function commutes with every operation, on every consistent
state (hence, by `consistent_inv`, on every reachable state) -/
theorem refines_spec (g : G) (hc : Consistent g) (op : Op) : Refines g (g.abs.applyR op) (g.applyR op) :=
  applyR_refines hc op

/-- … along every history: running the reference on `abs` of the empty graph gives `abs` of the
implementation's state, operation by operation (a raising operation leaves both unchanged) -/
theorem refines_spec_history (d : Bool) (ops : List Op) :
    ((Graph.empty d).run ops).abs = ops.foldl (fun s op => match s.applyR op with | some r => r.2 | none => s) (Graph.empty d).abs := by
  suffices h : ∀ g, Consistent g → (g.run ops).abs = ops.foldl (fun s op => match s.applyR op with | some r => r.2 | none => s) g.abs from
    h _ (consistent_empty d)
  induction ops with
  | nil => intro g _; rfl
  | cons op r ih =>
    intro g hc
    have hstep := consistent_step g hc op
    simp only [G.run, List.foldl_cons]
    have hr := refines_spec g hc op
    have habs : (g.step op).abs = (match g.abs.applyR op with | some r => r.2 | none => g.abs) := by
      unfold G.step
      rw [← applyR_forget]
      unfold Refines at hr
      cases hs : g.abs.applyR op with
      | none => rw [hs] at hr; rw [hr]; rfl
      | some p =>
        obtain ⟨v, s'⟩ := p
        rw [hs] at hr
        obtain ⟨g', h1, h2, _⟩ := hr
        rw [h1]; exact h2
    rw [← habs]
    exact ih _ hstep

/-- **queries agree**: on a consistent graph every query answers what the reference computes from
its nodes and edge triples alone: the row of each node (hence outgoing / incoming neighbours and
edges, neighbours, edges, degree, counts, leaf test and the per-node iterators, which are all
functions of the row and the directed flag — `RowQ`), the end points of an edge, the edge between
two nodes in one or either order, the node and edge lists -/
theorem queries_agree (g : G) (hc : Consistent g) :
    (∀ n, g.rowOf n = g.abs.rowOf n) ∧
    (∀ e, g.getNodes e = g.abs.edgeNodes e) ∧
    (∀ a b, g.getEdge a b = g.abs.edgeBetween a b) ∧
    (∀ a b, g.getAnyEdge a b = g.abs.getAnyEdge a b) ∧
    g.allNodes = g.abs.nodes ∧ g.allEdges = g.abs.edges.map (·.1) ∧
    g.directed = g.abs.directed := by
  refine ⟨fun n => (abs_rowOf hc n).symm, fun e => (abs_edgeNodes g e).symm, fun a b => (abs_edgeBetween hc a b).symm,
    ?_, rfl, ?_, rfl⟩
  · intro a b
    simp only [G.getAnyEdge, G.getEdge, Spec.getAnyEdge, abs_edgeBetween hc]
  · simp only [G.allEdges, abs_edges]; rfl

/-- leaves and inner nodes, list versions -/
theorem leaves_agree (g : G) (hc : Consistent g) :
    g.allLeaves = g.abs.allLeaves ∧ g.allInnerNodes = g.abs.allInnerNodes := by
  have hrow : ∀ p ∈ g.nodes, g.abs.row p.1 = p.2 := by
    intro p hp
    have hf := (mem_iff_find hc.sorted.nodes p.1 p.2).mp hp
    have := abs_rowOf hc p.1
    simp only [Spec.rowOf, G.rowOf, hf] at this
    split at this
    · injection this
    · cases this
  have hd : g.abs.directed = g.directed := rfl
  constructor
  · simp only [G.allLeaves, Spec.allLeaves, hd]
    show _ = List.filter _ (g.nodes.map (·.1))
    rw [List.filter_map]
    congr 1
    apply List.filter_congr
    intro p hp
    simp only [Function.comp, hrow p hp]
  · simp only [G.allInnerNodes, Spec.allInnerNodes]
    show _ = List.filter _ (g.nodes.map (·.1))
    rw [List.filter_map]
    congr 1
    apply List.filter_congr
    intro p hp
    have := hrow p hp
    simp only [Function.comp]
    have e1 : g.abs.outPairs p.1 = p.2.out := by
      have : (g.abs.row p.1).out = p.2.out := by rw [this]
      exact this
    rw [e1]

/-- **iterators_enumerate**: an iterator yields exactly the sequence the list query returns
(per-node iterators on an existing node; on an absent node the list query raises and the iterator
is undefined behaviour) -/
theorem iterators_enumerate (g : G) (n : Nat) :
    (∀ r, g.rowOf n = some r →
      RowQ.iter (fun r => AL.keys r.out) (g.rowOf n) = .ok ((g.outNeighbors n).getD []) ∧
      RowQ.iter (fun r => AL.keys r.inn) (g.rowOf n) = .ok ((g.inNeighbors n).getD []) ∧
      RowQ.iter (fun r => AL.vals r.out) (g.rowOf n) = .ok ((g.outEdges n).getD []) ∧
      RowQ.iter (fun r => AL.vals r.inn) (g.rowOf n) = .ok ((g.inEdges n).getD []) ∧
      g.outNeighbors n = some (AL.keys r.out)) ∧
    (g.rowOf n = none → g.outNeighbors n = none ∧ RowQ.iter (fun r => AL.keys r.out) (g.rowOf n) = .ub) := by
  constructor
  · intro r hr
    simp [RowQ.iter, G.outNeighbors, G.inNeighbors, G.outEdges, G.inEdges, RowQ.outNeighbors, RowQ.inNeighbors,
      RowQ.outEdges, RowQ.inEdges, hr]
  · intro hr
    simp [RowQ.iter, G.outNeighbors, RowQ.outNeighbors, hr]

/-! ## Non-vacuity -/

example : ((Graph.empty true).run [.createNode, .createNode, .link 0 1, .link 1 0, .unlink 0 1]).edges = [(1, (1, 0))] := by decide
example : ((Graph.empty false).run [.createNode, .createNode, .link 1 0, .makeDirected]).edges = [(0, (0, 1))] := by decide
example : (((Graph.empty false).run [.createNode, .createNode, .link 1 0]).apply (.link 0 1)).raised = true := by decide

end Bpp.C14
