import BppProofs.Lemmas.SimplexObj
/-!
# C19 — objects, copies, histories   (src/Bpp/Numeric/Prob/Simplex.{h,cpp})

Property theorems about the object model `BppModel/SimplexObj.lean` over `ℝ`: `Simplex` /
`OrderedSimplex` objects carrying ALL their data members (`parameters_` as addresses of `Parameter`
objects with their constraint, `dim_`, `method_`, `vProb_`, `valpha_`, `vValues_`) in a heap;
constructors, setters, `fireParameterChanged`, copy construction, `clone()`, `operator=` (same class,
ordered -> plain) transcribed member by member.  Helper lemmas: `Lemmas/SimplexObj.lean`.

* `history_inv` — after ANY history of admissible calls on any number of objects (assignments
  between objects of different coding, dimension, constraint option and class included; rejected
  calls included), EVERY object satisfies: probabilities = image of its parameters under ITS method,
  sum one, positive, parameters inside their constraint, cache of the right size, ordered values =
  tail sums of the probabilities (non-increasing, sum one).
* `history_cache_fresh` — and `valpha_` = ratios of the parameters, for histories in which no call raises;
  `rejected_setFrequencies_touches_only_cache`, `stale_cache_never_read`, `rejected_call_changes_nothing`
  say exactly what a raising call leaves behind.
* `no_parameter_shared` — separation for ALL histories (arbitrary arguments): no two objects share a
  `Parameter`; `frame`, `copy_independent`, `assign_independent` follow: later calls on either object
  never change any member of the other.
* `assign_carries`, `copy_carries`, `slice_*` — after `tgt = src` / copy construction / `clone()`
  every member of the target (probabilities, parameters with their constraints, method, dimension,
  cache, ordered values) equals the source's, whatever the target was before.

Admissible (`Adm`): constructors with arguments inside the property's quantifier; setters with such
arguments OR, on objects built with the strict constraint, with ANY values (`setFrequencies` of a
plain `Simplex`: a vector of at least `dim` entries — a shorter one is read out of bounds by the C++,
undefined behaviour about which nothing is claimed; `OrderedSimplex::setFrequencies`: values strictly
decreasing and summing to one exactly — for a sum within 1e-6 of one the stored values and the
normalised probabilities differ by that amount, rounding territory — or a non-empty vector of another
size, which the repaired code rejects); copies: any; the assignment through a base-class reference
(`baseAssign`) is excluded: `baseAssign_breaks_values`.
-/
namespace Bpp.C19
open Bpp Bpp.Simplex Bpp.SimplexObj

/-! ## one object: what the invariant says -/

/-- the invariant, spelled out for an observer of any object -/
theorem object_inv_spec (o : Obj ℝ) (h : OK o) :
    probsOf o.method o.dim o.θ = some o.vProb ∧ o.vProb.sum = 1 ∧ AllPos o.vProb ∧
    o.vProb.length = o.dim ∧ InOpen o.θ ∧ o.params.length = o.dim - 1 ∧ ValidMethod o.method ∧
    (if o.method = 2 then o.valpha.length = o.dim - 1 else o.valpha = []) ∧
    (∀ v, o.vValues = some v →
      v = orderedValues o.vProb 1 ∧ NonIncreasing v ∧ v.sum = 1 ∧ (∀ x ∈ v, 0 ≤ x) ∧ v.length = o.dim) := by
  obtain ⟨s1, s2, s3⟩ := h.spec
  refine ⟨h.probs, s1, s2, s3, h.inOpen, h.len, h.method, h.cache, ?_⟩
  intro v hv
  obtain ⟨o1, o2, o3, o4⟩ := h.ordered_spec v hv
  exact ⟨h.values v hv, o1, o2, o3, o4⟩

/-- `fireParameterChanged` re-establishes everything from the parameters alone: whatever `vProb_`,
`valpha_` (of the right size), `vValues_` held -/
theorem notification_restores (o : Obj ℝ) (h : Shape o) : OK o.fire ∧ Fresh o.fire :=
  fire_ok o h

/-- the ratio cache is never read before it is rewritten: two objects that differ in `valpha_` only
are notified into objects that differ in `valpha_` only, and not at all under the local-ratio coding -/
theorem stale_cache_never_read (a b : Obj ℝ) (h : EqButCache a b) :
    EqButCache a.fire b.fire ∧ (b.method = 2 → b.dim ≠ 0 → a.fire = b.fire) :=
  fire_ignores_cache a b h

/-- the frequency setter on an object satisfying the invariant (vector inside the quantifier, or any
vector of at least `dim` entries under the strict constraint): the invariant holds afterwards whether the call raised or
not; if it did not, the cache is fresh; if it did, every member but the cache is as before -/
theorem setFrequencies_preserves (o : Obj ℝ) (h : OK o) (p : List ℝ) (hp : SetFreqArg o p) :
    OK (o.setFrequencies p).1 ∧ SameShape o (o.setFrequencies p).1 ∧
    ((o.setFrequencies p).2 = none → Fresh (o.setFrequencies p).1) ∧
    ((o.setFrequencies p).2 ≠ none → EqButCache (o.setFrequencies p).1 o) :=
  setFrequencies_pres o h p hp

/-- round trip on the object with all its members: accepted, returned unchanged -/
theorem object_setFrequencies_roundtrip (o : Obj ℝ) (h : OK o) (p : List ℝ) (hv : ValidProbs p)
    (hl : p.length = o.dim) :
    (o.setFrequenciesBase p).2 = none ∧ (o.setFrequenciesBase p).1.vProb = p ∧
    (o.setFrequenciesBase p).1.θ = paramsOf o.method p :=
  setFrequenciesBase_roundtrip o h p hv hl

/-- no member function changes the dimension, the coding, the class, the number of parameters or
the constraint of any parameter — unconditionally (any state, any argument) -/
theorem setters_keep_members (o : Obj ℝ) :
    SameShape o o.fire ∧ (∀ p, SameShape o (o.setFrequencies p).1) ∧
    (∀ req o', o.matchReq req = .ok o' → SameShape o o') ∧
    (∀ req o', o.setReq req = .ok o' → SameShape o o') ∧
    (∀ i v o', o.setOne i v = .ok o' → SameShape o o') :=
  ⟨fire_sameShape o, setFrequencies_same o, fun req o' e => matchReq_same o o' req e,
    fun req o' e => setReq_same o o' req e, fun i v o' e => setOne_same o o' i v e⟩

/-- the constructors (arguments inside the quantifier) succeed and establish the invariant, a fresh
cache, the requested dimension, coding and — on every parameter — the requested constraint -/
theorem constructors_members (m : Nat) (a : Bool) (hm : ValidMethod m) :
    (∀ p, ValidProbs p → ∃ o, SimplexObj.construct p m a = .ok o ∧ Built o p.length m a ∧ o.vProb = p ∧ o.vValues = none) ∧
    (∀ n, 0 < n → n < 2 ^ 31 → ∃ o, SimplexObj.constructDim (α := ℝ) n m a = .ok o ∧ Built o n m a ∧ o.vProb = uniform n ∧ o.vValues = none) ∧
    (∀ v, ValidOrdered v → ∃ o, SimplexObj.oConstruct v m a = .ok o ∧ Built o v.length m a ∧ o.vValues = some v) ∧
    (∀ n, 0 < n → n < 2 ^ 31 → ∃ o, SimplexObj.oConstructDim (α := ℝ) n m a = .ok o ∧ Built o n m a ∧
      o.vValues = some (orderedValues (uniform n) 1)) := by
  refine ⟨fun p hp => ?_, fun n h0 h1 => SimplexObj.constructDim_ok n m a hm h0 h1,
    fun v hv => SimplexObj.oConstruct_ok v m a hm hv, fun n h0 h1 => SimplexObj.oConstructDim_ok n m a hm h0 h1⟩
  obtain ⟨o, e, b, h1, h2, _⟩ := SimplexObj.construct_ok p m a hm hp
  exact ⟨o, e, b, h1, h2⟩

/-- the unchanged code does leave the ratios of a REJECTED vector in the cache (Simplex.cpp:234 is
executed before the validation at :268): witness, local-ratio coding, strict constraint, object
built from (1/2, 1/4, 1/4), rejected vector (1/2, -1/4, 3/4) -/
noncomputable def staleWitness : Obj ℝ :=
  ⟨[⟨2/3, false⟩, ⟨1/2, false⟩], 3, 2, [1/2, 1/4, 1/4], [1/2, 1], none⟩

theorem rejected_setFrequencies_leaves_stale_cache :
    Fresh staleWitness ∧
    (staleWitness.setFrequencies [1/2, -1/4, 3/4]).2 = some Err.constraint ∧
    (staleWitness.setFrequencies [1/2, -1/4, 3/4]).1 = { staleWitness with valpha := [-1/2, -3] } ∧
    ¬ Fresh (staleWitness.setFrequencies [1/2, -1/4, 3/4]).1 := by
  have hs : sumOk ([1/2, -1/4, 3/4] : List ℝ) = true := sumOk_of _ (by norm_num)
  have ht : testFrom (reqOfList (paramsOf 2 ([1/2, -1/4, 3/4] : List ℝ))) 1
      ([⟨2/3, false⟩, ⟨1/2, false⟩] : List (Param ℝ)) = false := by
    simp [testFrom, reqOfList, paramsOf, paramsLocal, inConstraint, Scalar.gtb, Scalar.ltb]
    norm_num
  have hr : ratios ([1/2, -1/4, 3/4] : List ℝ) = [-1/2, -3] := by
    simp [ratios]; norm_num
  have e : staleWitness.setFrequencies [1/2, -1/4, 3/4] =
      ({ staleWitness with valpha := [-1/2, -3] }, some Err.constraint) := by
    have h3 : List.take 3 ([1/2, -1/4, 3/4] : List ℝ) = [1/2, -1/4, 3/4] := rfl
    simp only [Obj.setFrequencies, staleWitness, Obj.setFrequenciesBase, hs, Obj.cacheWrite, Obj.matchReq,
      ↓reduceIte, Bool.not_true, Bool.false_eq_true, List.length_cons, List.length_nil, Nat.reduceAdd,
      Nat.lt_irrefl, OfNat.ofNat_ne_zero, ne_eq, not_true_eq_false, h3, ht, hr]
  refine ⟨?_, by rw [e], by rw [e], ?_⟩
  · intro _
    simp [staleWitness, Obj.θ, alphas]; norm_num
  · rw [e]
    intro hf
    have := hf rfl
    simp [staleWitness, Obj.θ, alphas] at this
    norm_num at this

/-- the repaired `Simplex::setFrequencies` rejects every vector whose size is not the dimension
(before: a shorter one that passed the sum test was read out of bounds, of a longer one the first
`dim` entries were used) and leaves the object untouched -/
theorem setFrequencies_rejects_wrong_size (o : Obj ℝ) (p : List ℝ) (hd : o.dim ≠ 0) (h1 : p.length ≠ o.dim) :
    o.setFrequenciesBase p = (o, some Err.sum) := by
  unfold Obj.setFrequenciesBase
  by_cases hs : sumOk p = true
  · simp [hd, hs, h1]
  · simp [hd, hs]

/-- the repaired `OrderedSimplex::setFrequencies` rejects every non-empty vector whose size is not
the dimension (shorter ones, formerly read out of bounds, included) and leaves the object untouched -/
theorem ordered_setFrequencies_rejects_wrong_size (o : Obj ℝ) (v : List ℝ) (h0 : v.length ≠ 0)
    (h1 : v.length ≠ o.dim) : o.oSetFrequencies v = (o, some Err.sum) :=
  oSetFrequencies_wrong_size o v h0 h1

/-- the object built by `OrderedSimplex({7/10, 3/10}, method 1)` -/
noncomputable def longWitness : Obj ℝ :=
  ⟨[⟨2/5, false⟩], 2, 1, [2/5, 3/5], [], some [7/10, 3/10]⟩

/-- DEFECT OF THE UNCHANGED TREE (repaired, findings/C19.json): `OrderedSimplex::setFrequencies` did
not test the size of its argument.  A vector LONGER than the dimension is defined behaviour there
(the function works with the argument's size, the base class reads the first `dim_` entries): the
three values (1/2, 3/10, 1/5) given to a two-dimensional object were accepted, the probabilities
became (1/5, 4/5) and `getFrequencies()` returned three values — after the next notification
(0.625, 0.375, 0.2), sum 1.2 (corpus/C19/ordered_long_vector.txt).  The repaired setter raises. -/
theorem ordered_setFrequencies_unchecked_long_vector :
    OK longWitness ∧
    longWitness.oSetFrequenciesUnchecked [1/2, 3/10, 1/5] =
      (⟨[⟨1/5, false⟩], 2, 1, [1/5, 4/5], [], some [1/2, 3/10, 1/5]⟩, none) ∧
    ¬ OK (longWitness.oSetFrequenciesUnchecked [1/2, 3/10, 1/5]).1 ∧
    longWitness.oSetFrequencies [1/2, 3/10, 1/5] = (longWitness, some Err.sum) := by
  have hp : orderedToProbs ([1/2, 3/10, 1/5] : List ℝ) 1 = [1/5, 1/5, 3/5] := by
    simp [orderedToProbs]; norm_num
  have hs : sumOk ([1/5, 1/5, 3/5] : List ℝ) = true := sumOk_of _ (by norm_num)
  have h3 : List.take 2 ([1/5, 1/5, 3/5] : List ℝ) = [1/5, 1/5] := rfl
  have hpar : paramsOf 1 ([1/5, 1/5] : List ℝ) = [1/5] := by
    simp [paramsOf, paramsGlobal]
  have h12 : ((1 : ℕ) = 2) = False := eq_false (by decide)
  have ht : testFrom (reqOfList ([1/5] : List ℝ)) 1 ([⟨2/5, false⟩] : List (Param ℝ)) = true := by
    simp [testFrom, reqOfList, inConstraint, Scalar.gtb, Scalar.ltb]; norm_num
  have hc : changedFrom (reqOfList ([1/5] : List ℝ)) 1 ([⟨2/5, false⟩] : List (Param ℝ)) = true := by
    simp [changedFrom, reqOfList, Scalar.eqb]; norm_num
  have hw : writeFrom (reqOfList ([1/5] : List ℝ)) 1 ([⟨2/5, false⟩] : List (Param ℝ)) = [⟨1/5, false⟩] := by
    simp [writeFrom, reqOfList, Scalar.eqb]
    try norm_num
  have hf : (⟨[⟨1/5, false⟩], 2, 1, [2/5, 3/5], [], some [7/10, 3/10]⟩ : Obj ℝ).fire =
      ⟨[⟨1/5, false⟩], 2, 1, [1/5, 4/5], [], some (orderedValues [1/5, 4/5] 1)⟩ := by
    simp [Obj.fire, Obj.fireBase, Obj.refresh, Obj.θ, probsGlobal]; norm_num
  have e : longWitness.oSetFrequenciesUnchecked [1/2, 3/10, 1/5] =
      (⟨[⟨1/5, false⟩], 2, 1, [1/5, 4/5], [], some [1/2, 3/10, 1/5]⟩, none) := by
    simp only [Obj.oSetFrequenciesUnchecked, longWitness, hp, Obj.setFrequenciesBaseUnchecked, hs, Obj.cacheWrite, Obj.matchReq,
      ↓reduceIte, Bool.not_true, Bool.false_eq_true, List.length_cons, List.length_nil, Nat.reduceAdd,
      OfNat.ofNat_ne_zero, h12, h3, hpar, ht, hc, hw, hf, Nat.reduceLT]
  refine ⟨⟨⟨Or.inl rfl, by norm_num [longWitness], by norm_num [longWitness], rfl, ?_, by simp [longWitness]⟩, ?_, ?_⟩, e, ?_, ?_⟩
  · intro x hx; simp [longWitness, Obj.θ] at hx; rw [hx]; norm_num
  · simp [longWitness, Obj.θ, probsOf, probsGlobal]; norm_num
  · intro v hv; simp [longWitness] at hv; rw [← hv]; simp [longWitness, orderedValues]; norm_num
  · rw [e]
    intro hok
    have := congrArg List.length (hok.values [1/2, 3/10, 1/5] rfl)
    simp [orderedValues_length] at this
  · exact oSetFrequencies_wrong_size longWitness _ (by simp) (by simp [longWitness])

/-! ## the heap: all histories -/

/-- INVARIANT OVER ALL HISTORIES: starting from the empty heap, after any history of admissible
calls (accepted or rejected) on any number of objects, every object satisfies the invariant -/
theorem history_inv (n : Nat) (ops : List (HOp ℝ)) (ha : AdmRun (Heap.empty n) ops) (r : Nat) (o : Obj ℝ)
    (hg : (runH (Heap.empty n) ops).get r = some o) :
    probsOf o.method o.dim o.θ = some o.vProb ∧ o.vProb.sum = 1 ∧ AllPos o.vProb ∧
    o.vProb.length = o.dim ∧ InOpen o.θ ∧ o.params.length = o.dim - 1 ∧ ValidMethod o.method ∧
    (if o.method = 2 then o.valpha.length = o.dim - 1 else o.valpha = []) ∧
    (∀ v, o.vValues = some v →
      v = orderedValues o.vProb 1 ∧ NonIncreasing v ∧ v.sum = 1 ∧ (∀ x ∈ v, 0 ≤ x) ∧ v.length = o.dim) :=
  object_inv_spec o ((run_inv _ (inv_empty n) ops ha).2 r o hg)

/-- the same from any heap satisfying the invariant (every moment of a history is such a heap) -/
theorem history_inv_from (h : Heap ℝ) (hi : HInv h) (ops : List (HOp ℝ)) (ha : AdmRun h ops) :
    HInv (runH h ops) :=
  run_inv h hi ops ha

/-- ... and the ratio cache of every local-ratio object holds the ratios of its current parameters,
when no call of the history raises -/
theorem history_cache_fresh (n : Nat) (ops : List (HOp ℝ)) (ha : AdmRun (Heap.empty n) ops)
    (hn : NoRaise (Heap.empty n) ops) (r : Nat) (o : Obj ℝ)
    (hg : (runH (Heap.empty n) ops).get r = some o) : o.method = 2 → o.valpha = alphas o.θ :=
  run_fresh _ (inv_empty n) (fresh_empty n) ops ha hn r o hg

/-- a call that raises leaves the whole heap as it was — `setFrequencies` excepted -/
theorem rejected_call_changes_nothing (h : Heap ℝ) (hs : Sep h) (op : HOp ℝ) (hr : (applyH h op).2 ≠ none)
    (hop : ∀ k p, op ≠ .setFreq k p) : stepH h op = h :=
  rejected_unchanged h hs op hr hop

/-- a `setFrequencies` that raises leaves every member of every object as it was, except the ratio
cache of the object it was called on (which `stale_cache_never_read` shows to be unobservable) -/
theorem rejected_setFrequencies_touches_only_cache (h : Heap ℝ) (hs : Sep h) (k : Nat) (p : List ℝ)
    (hr : (applyH h (.setFreq k p)).2 ≠ none) (r : Nat) (o : Obj ℝ) (hg : h.get r = some o) :
    ∃ o', (stepH h (.setFreq k p)).get r = some o' ∧ EqButCache o' o ∧ (r ≠ k → o' = o) :=
  rejected_setFrequencies h hs k p hr r o hg

/-! ## copies -/

/-- SEPARATION over ALL histories, whatever the arguments: the parameter lists of the objects point
to `Parameter` objects inside the heap, without repetition, and no `Parameter` belongs to two objects -/
theorem no_parameter_shared (n : Nat) (ops : List (HOp ℝ)) : Sep (runH (Heap.empty n) ops) :=
  run_sep _ (sep_empty n) ops

/-- FRAME: a call changes no member of any object other than its target -/
theorem frame (h : Heap ℝ) (hs : Sep h) (op : HOp ℝ) (r : Nat) (hr : r ≠ op.target) :
    (stepH h op).get r = h.get r :=
  (step_sep_frame h hs op).2.1 r hr

/-- after `*tgt = *src` (objects of the same class; any coding, dimension, constraint option of the
target) EVERY member of the target equals the source's, and the call does not raise -/
theorem assign_carries (h : Heap ℝ) (hs : Sep h) (k j : Nat) (src tgt : Obj ℝ) (hk : h.get k = some src)
    (hj : h.get j = some tgt) (hc : src.vValues.isSome = tgt.vValues.isSome) :
    (stepH h (.assign k j)).get j = some src ∧ (applyH h (.assign k j)).2 = none :=
  SimplexObj.assign_carries h hs k j src tgt hk hj hc

/-- copy construction / `clone()` -/
theorem copy_carries (h : Heap ℝ) (hs : Sep h) (k j : Nat) (src : Obj ℝ) (hk : h.get k = some src)
    (hj : j < h.regs.length) : (stepH h (.copy k j)).get j = some src :=
  SimplexObj.copy_carries h hs k j src hk hj

/-- slicing copy construction `Simplex(const Simplex&)` of an `OrderedSimplex`: a plain simplex with
the source's `Simplex` members -/
theorem slice_copy_carries (h : Heap ℝ) (hs : Sep h) (k j : Nat) (src : Obj ℝ) (hk : h.get k = some src)
    (hj : j < h.regs.length) : (stepH h (.sliceCopy k j)).get j = some { src with vValues := none } :=
  sliceCopy_carries h hs k j src hk hj

/-- `plain = ordered` -/
theorem slice_assign_carries (h : Heap ℝ) (hs : Sep h) (k j : Nat) (src tgt : Obj ℝ)
    (hk : h.get k = some src) (hj : h.get j = some tgt) (hcs : src.vValues.isSome = true)
    (hct : tgt.vValues = none) :
    (stepH h (.sliceAssign k j)).get j = some { src with vValues := none } :=
  sliceAssign_carries h hs k j src tgt hk hj hcs hct

/-- A COPY IS INDEPENDENT OF ITS SOURCE: after copy construction / `clone()` of `k` into `j`, both
hold the source's state; any later calls (any arguments, any number, on any objects) none of which
targets `k` leave every member of `k` as it was, and likewise for `j` -/
theorem copy_independent (h : Heap ℝ) (hs : Sep h) (k j : Nat) (src : Obj ℝ) (hk : h.get k = some src)
    (hj : j < h.regs.length) (hkj : k ≠ j) (ops : List (HOp ℝ)) :
    (stepH h (.copy k j)).get j = some src ∧ (stepH h (.copy k j)).get k = some src ∧
    ((∀ op ∈ ops, op.target ≠ k) → (runH (stepH h (.copy k j)) ops).get k = some src) ∧
    ((∀ op ∈ ops, op.target ≠ j) → (runH (stepH h (.copy k j)) ops).get j = some src) := by
  obtain ⟨f1, f2, _⟩ := step_sep_frame h hs (.copy k j)
  have c := SimplexObj.copy_carries h hs k j src hk hj
  have ck : (stepH h (.copy k j)).get k = some src := by rw [f2 k hkj]; exact hk
  exact ⟨c, ck, fun ht => by rw [run_frame _ f1 k ops ht]; exact ck,
    fun ht => by rw [run_frame _ f1 j ops ht]; exact c⟩

/-- the same after an assignment `*j = *k` -/
theorem assign_independent (h : Heap ℝ) (hs : Sep h) (k j : Nat) (src tgt : Obj ℝ)
    (hk : h.get k = some src) (hj : h.get j = some tgt) (hc : src.vValues.isSome = tgt.vValues.isSome)
    (hkj : k ≠ j) (ops : List (HOp ℝ)) :
    (stepH h (.assign k j)).get j = some src ∧ (stepH h (.assign k j)).get k = some src ∧
    ((∀ op ∈ ops, op.target ≠ k) → (runH (stepH h (.assign k j)) ops).get k = some src) ∧
    ((∀ op ∈ ops, op.target ≠ j) → (runH (stepH h (.assign k j)) ops).get j = some src) := by
  obtain ⟨f1, f2, _⟩ := step_sep_frame h hs (.assign k j)
  have c := (SimplexObj.assign_carries h hs k j src tgt hk hj hc).1
  have ck : (stepH h (.assign k j)).get k = some src := by rw [f2 k hkj]; exact hk
  exact ⟨c, ck, fun ht => by rw [run_frame _ f1 k ops ht]; exact ck,
    fun ht => by rw [run_frame _ f1 j ops ht]; exact c⟩

/-- the assignment through a base-class reference (`static_cast<Simplex&>(ordered) = plain`, which
the language allows since `operator=` is not virtual) assigns the `Simplex` members only:
`vValues_` keeps the tail sums of the FORMER probabilities.  Witness: the ordered values stay
those of (1/2, 1/2) while the probabilities become (1/4, 3/4).  Outside the property (a caller's
slicing error), excluded from `Adm`; the next notification heals the object (`notification_restores`). -/
theorem baseAssign_breaks_values :
    let tgt : Obj ℝ := ⟨[⟨1/2, false⟩], 2, 1, [1/2, 1/2], [], some [3/4, 1/4]⟩
    let src : Obj ℝ := ⟨[⟨1/4, false⟩], 2, 1, [1/4, 3/4], [], none⟩
    OK tgt ∧ OK src ∧ ¬ OK (tgt.assignSimplexPart src) := by
  intro tgt src
  refine ⟨⟨⟨Or.inl rfl, by norm_num, by norm_num, rfl, ?_, by simp [tgt]⟩, ?_, ?_⟩,
    ⟨⟨Or.inl rfl, by norm_num, by norm_num, rfl, ?_, by simp [src]⟩, ?_, ?_⟩, ?_⟩
  · intro x hx; simp [tgt, Obj.θ] at hx; rw [hx]; norm_num
  · simp [tgt, Obj.θ, probsOf, probsGlobal]; norm_num
  · intro v hv; simp [tgt] at hv; rw [← hv]; simp [tgt, orderedValues]; norm_num
  · intro x hx; simp [src, Obj.θ] at hx; rw [hx]; norm_num
  · simp [src, Obj.θ, probsOf, probsGlobal]; norm_num
  · intro v hv; simp [src] at hv
  · intro hok
    have := hok.values [3/4, 1/4] (by simp [assignSimplexPart_eq, tgt])
    simp [assignSimplexPart_eq, src, orderedValues] at this
    norm_num at this

/-! ## the value-level object of `BppModel/Simplex.lean` is a projection of this model

The theorems of `Props/C19.lean` on objects (`construct_roundtrip`, `setFrequencies_roundtrip`,
`invariant_all_histories_strict`, `ordered_*` …) and the models of C09 / C13 speak of `Simplex.St` /
`Simplex.OSt`: dimension, method, ONE constraint flag, parameter values, probabilities (, ordered
values).  The driver runs the full object model; these theorems say that every member function of
the value-level model is the projection (`toSt`: forget cache, heap and per-parameter constraints) of
the member function of the full model, so the correspondence check ties both. -/

/-- plain objects: constructors, `fireParameterChanged`, `matchParametersValues` (all parameters),
`setParameterValue`, `setFrequencies` -/
theorem value_model_is_projection (a : Bool) :
    (∀ p m, (SimplexObj.construct p m a).map (toSt a) = Simplex.construct p m a) ∧
    (∀ n m, (SimplexObj.constructDim (α := ℝ) n m a).map (toSt a) = Simplex.constructDim n m a) ∧
    (∀ o : Obj ℝ, toSt a o.fire = Simplex.fire (toSt a o)) ∧
    (∀ (o : Obj ℝ) θ, HasConstraint a o → θ.length = o.params.length →
      (o.matchReq (reqOfList θ)).map (toSt a) = Simplex.matchParams (toSt a o) θ) ∧
    (∀ (o : Obj ℝ) i v, HasConstraint a o → (o.setOne i v).map (toSt a) = Simplex.setOne (toSt a o) i v) ∧
    (∀ (o : Obj ℝ) p, HasConstraint a o → ValidMethod o.method → o.params.length = o.dim - 1 →
      (pairToExcept (o.setFrequenciesBase p)).map (toSt a) = Simplex.setFrequencies (toSt a o) p) :=
  ⟨fun p m => construct_refines p m a, fun n m => constructDim_refines n m a, fun o => toSt_fire a o,
    fun o θ hc hl => matchReq_refines a o θ hc hl, fun o i v hc => setOne_refines a o i v hc,
    fun o p hc hm hl => setFrequenciesBase_refines a o p hc hm hl⟩

/-- ordered objects (`ProjO a o s`: `s = ⟨toSt a o, the values of o⟩`) -/
theorem ordered_value_model_is_projection (a : Bool) :
    (∀ n m, (∀ o, SimplexObj.oConstructDim (α := ℝ) n m a = .ok o →
        ∃ s, Simplex.oConstructDim n m a = .ok s ∧ ProjO a o s) ∧
      (∀ e, SimplexObj.oConstructDim (α := ℝ) n m a = .error e → Simplex.oConstructDim (α := ℝ) n m a = .error e)) ∧
    (∀ v m, ValidMethod m →
      (∀ o, SimplexObj.oConstruct v m a = .ok o → ∃ s, Simplex.oConstruct v m a = .ok s ∧ ProjO a o s) ∧
      (∀ e, SimplexObj.oConstruct v m a = .error e → Simplex.oConstruct v m a = .error e)) ∧
    (∀ (o : Obj ℝ) w θ, HasConstraint a o → θ.length = o.params.length → o.vValues = some w →
      (∀ o', o.matchReq (reqOfList θ) = .ok o' → ∃ s', oMatchParams ⟨toSt a o, w⟩ θ = .ok s' ∧ ProjO a o' s') ∧
      (∀ e, o.matchReq (reqOfList θ) = .error e → oMatchParams ⟨toSt a o, w⟩ θ = .error e)) ∧
    (∀ (o : Obj ℝ) w i v, HasConstraint a o → o.vValues = some w →
      (∀ o', o.setOne i v = .ok o' → ∃ s', Simplex.oSetOne ⟨toSt a o, w⟩ i v = .ok s' ∧ ProjO a o' s') ∧
      (∀ e, o.setOne i v = .error e → Simplex.oSetOne ⟨toSt a o, w⟩ i v = .error e)) ∧
    (∀ (o : Obj ℝ) w v, HasConstraint a o → ValidMethod o.method → o.params.length = o.dim - 1 →
      o.vValues = some w →
      (∀ o', o.oSetFrequencies v = (o', none) →
        ∃ s', Simplex.oSetFrequencies ⟨toSt a o, w⟩ v = .ok s' ∧ ProjO a o' s') ∧
      (∀ o' e, o.oSetFrequencies v = (o', some e) → Simplex.oSetFrequencies ⟨toSt a o, w⟩ v = .error e)) :=
  ⟨fun n m => oConstructDim_refines n m a, fun v m hm => oConstruct_refines v m a hm,
    fun o w θ hc hl hw => oMatchReq_refines a o w θ hc hl hw, fun o w i v hc hw => oSetOne_refines a o w i v hc hw,
    fun o w v hc hm hl hw => oSetFrequencies_refines a o w v hc hm hl hw⟩

/-! ## acceptance of arguments inside the quantifier -/

/-- a request whose values lie in the open interval is accepted whatever the constraints, and the
object then holds exactly the requested values -/
theorem object_setParameters_ok (o : Obj ℝ) (h : OK o) (θ : List ℝ) (hl : θ.length = o.params.length)
    (ho : InOpen θ) : ∃ o', o.matchReq (reqOfList θ) = .ok o' ∧ OK o' ∧ o'.θ = θ ∧ SameShape o o' := by
  have hr : ReqOpen (reqOfList θ) 1 o.params.length := reqOfList_open θ _ ho
  obtain ⟨o', e⟩ := matchReq_accepts o _ hr
  obtain ⟨h1, _, h3⟩ := matchReq_ok o h _ (Or.inl hr) o' e
  refine ⟨o', e, h1, ?_, h3⟩
  rcases matchReq_gen o h.toShape _ (Or.inl hr) o' e with ⟨he, hw⟩ | ⟨_, _, _, h4⟩
  · have := writeFrom_reqOfList o.params θ hl
    rw [hw] at this; rw [he]; exact this
  · simp only [Obj.θ, h4]; exact writeFrom_reqOfList o.params θ hl

/-- the ordered setter with values inside the quantifier: accepted, returned unchanged -/
theorem object_ordered_setFrequencies_roundtrip (o : Obj ℝ) (h : OK o) (v : List ℝ) (hv : ValidOrdered v)
    (hl : v.length = o.dim) :
    (o.oSetFrequencies v).2 = none ∧ OK (o.oSetFrequencies v).1 ∧ (o.oSetFrequencies v).1.vValues = some v ∧
    (o.oSetFrequencies v).1.vProb = orderedToProbs v 1 := by
  obtain ⟨c1, c2, _, c4, _, _, _, c8⟩ := oSetFrequencies_core o h.toShape h.probs v hv hl
  exact ⟨c1, c2, c4, c8⟩

/-! ## non-vacuity -/

/-- an admissible history over three registers with two codings, two dimensions and both constraint
options: constructions, an assignment across codings, notifications on both objects, a rejected-or-
accepted arbitrary value on a strict object, a clone -/
example : AdmRun (Heap.empty 3 : Heap ℝ)
    [.newVec 0 false 2 false [1/2, 1/4, 1/4], .newDim 1 false 5 3 true, .assign 0 1,
     .setOne 1 1 (1/3), .setPar 0 [1/5, 4/5], .copy 1 2, .fire 2, .setOne 2 2 (1/7)] := by
  refine ⟨⟨Or.inr (Or.inl rfl), ?_⟩, ⟨Or.inr (Or.inr rfl), by norm_num, by norm_num⟩, trivial, ?_, ?_, trivial,
    trivial, ?_, trivial⟩
  · refine ⟨?_, by simp, by norm_num, by simp⟩
    intro x hx; simp at hx; rcases hx with rfl | rfl | rfl <;> norm_num
  · intro o _; left; norm_num
  · intro o _; left
    intro j v _ _ e
    simp [reqOfList] at e
    obtain ⟨_, e⟩ := e
    have : j - 1 = 0 ∨ j - 1 = 1 ∨ 2 ≤ j - 1 := by omega
    rcases this with h0 | h1 | h2
    · rw [h0] at e; simp at e; rw [← e]; norm_num
    · rw [h1] at e; simp at e; rw [← e]; norm_num
    · rw [List.getElem?_eq_none (by simpa using h2)] at e; cases e
  · intro o _; left; norm_num

/-- the hypotheses of `history_cache_fresh` (`AdmRun` and `NoRaise`) hold together on a history
that builds a plain global-ratio and an ordered local-ratio object with different constraints -/
example : AdmRun (Heap.empty 2 : Heap ℝ) [.newDim 0 false 3 1 false, .newDim 1 true 4 2 true] ∧
    NoRaise (Heap.empty 2 : Heap ℝ) [.newDim 0 false 3 1 false, .newDim 1 true 4 2 true] := by
  refine ⟨⟨⟨Or.inl rfl, by norm_num, by norm_num⟩, ⟨Or.inr (Or.inl rfl), by norm_num, by norm_num⟩, trivial⟩, ?_, ?_, trivial⟩
  · obtain ⟨o, e, _⟩ := SimplexObj.constructDim_ok 3 1 false (Or.inl rfl) (by norm_num) (by norm_num)
    rcases create_effect (Heap.empty 2 : Heap ℝ) 0 (SimplexObj.constructDim 3 1 false) with ⟨_, _, _, h⟩ | ⟨err, h, _⟩
    · exact h
    · rw [e] at h; cases h
  · obtain ⟨o, e, _⟩ := SimplexObj.oConstructDim_ok 4 2 true (Or.inr (Or.inl rfl)) (by norm_num) (by norm_num)
    rcases create_effect (stepH (Heap.empty 2 : Heap ℝ) (.newDim 0 false 3 1 false)) 1
      (SimplexObj.oConstructDim 4 2 true) with ⟨_, _, _, h⟩ | ⟨err, h, _⟩
    · exact h
    · rw [e] at h; cases h

/-- the hypotheses of `copy_independent` / `assign_carries` are met by a reachable heap -/
example : ∃ (h : Heap ℝ) (src : Obj ℝ), Sep h ∧ h.get 0 = some src ∧ 1 < h.regs.length ∧ OK src := by
  obtain ⟨o, e, b, _⟩ := SimplexObj.constructDim_ok 4 2 false (Or.inr (Or.inl rfl)) (by norm_num) (by norm_num)
  refine ⟨(Heap.empty 2 : Heap ℝ).allocObj 0 o, o, ?_, ?_, ?_, b.ok⟩
  · exact (alloc_spec _ (sep_empty 2) 0 o).1
  · exact (alloc_spec _ (sep_empty 2) 0 o).2.1 (by simp [Heap.empty])
  · simp [Heap.allocObj, Heap.empty]

end Bpp.C19
