import BppProofs.Lemmas.EigenGlue
/-!
# C06 — eigen-decomposition: the logic around the iteration kernels
(src/Bpp/Numeric/Matrix/EigenValue.h, MatrixTools.h pow/exp)

Level `other`: the QL/QR iterations are not transcribed and nothing is proved about them.
-/
namespace Bpp.C06
open Bpp Bpp.EigenGlue

/-- `cdiv` inverts complex multiplication, in both branches: `(cdivr + i·cdivi)·(yr + i·yi) = xr + i·xi`
(stated as its real and imaginary parts) for every non-zero divisor. -/
theorem cdiv_spec (xr xi yr yi : ℝ) (hy : ¬ (yr = 0 ∧ yi = 0)) :
    (cdiv xr xi yr yi).1 * yr - (cdiv xr xi yr yi).2 * yi = xr ∧
    (cdiv xr xi yr yi).1 * yi + (cdiv xr xi yr yi).2 * yr = xi := by
  unfold cdiv
  simp only [nabs_eq, ScalarReal.gtb_iff]
  split
  · rename_i h
    have hyr : yr ≠ 0 := by
      intro h0; rw [h0, abs_zero] at h; exact absurd h (not_lt.mpr (abs_nonneg _))
    have hd : yr + yi / yr * yi ≠ 0 := by
      have : yr + yi / yr * yi = (yr ^ 2 + yi ^ 2) / yr := by field_simp
      rw [this]
      have : 0 < yr ^ 2 + yi ^ 2 := by positivity
      exact div_ne_zero (ne_of_gt this) hyr
    constructor <;> (simp only []; field_simp; ring)
  · rename_i h
    rw [not_lt] at h
    have hyi : yi ≠ 0 := by
      intro h0; apply hy; refine ⟨?_, h0⟩
      rw [h0, abs_zero] at h; exact abs_eq_zero.mp (le_antisymm h (abs_nonneg _))
    have hd : yi + yr / yi * yr ≠ 0 := by
      have : yi + yr / yi * yr = (yi ^ 2 + yr ^ 2) / yi := by field_simp
      rw [this]
      have : 0 < yi ^ 2 + yr ^ 2 := by positivity
      exact div_ne_zero (ne_of_gt this) hyi
    constructor <;> (simp only []; field_simp; ring)

end Bpp.C06
