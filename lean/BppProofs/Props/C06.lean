import BppProofs.Lemmas.EigenGlue
/-!
# C06 — eigen-decomposition: the logic around the iteration kernels
(src/Bpp/Numeric/Matrix/EigenValue.h, MatrixTools.h pow/exp)

Level `other`: the QL/QR iterations are not transcribed and nothing is proved about them.
-/
namespace Bpp.C06
open Bpp Bpp.EigenGlue

/-- `cdiv` inverts complex multiplication, in both branches: `(cdivr + i·cdivi)·(yr + i·yi) = xr + i·xi`
(stated as its real and imaginary parts) for every non-zero divisor. -/
theorem cdiv_spec (xr xi yr yi : ℝ) (hy : ¬ (yr = 0 ∧ yi = 0)) :
    (cdiv xr xi yr yi).1 * yr - (cdiv xr xi yr yi).2 * yi = xr ∧
    (cdiv xr xi yr yi).1 * yi + (cdiv xr xi yr yi).2 * yr = xi := by
  unfold cdiv
  simp only [nabs_eq, ScalarReal.gtb_iff]
  split
  · rename_i h
    have hyr : yr ≠ 0 := by
      intro h0; rw [h0, abs_zero] at h; exact absurd h (not_lt.mpr (abs_nonneg _))
    have hd : yr + yi / yr * yi ≠ 0 := by
      have : yr + yi / yr * yi = (yr ^ 2 + yi ^ 2) / yr := by field_simp
      rw [this]
      have : 0 < yr ^ 2 + yi ^ 2 := by positivity
      exact div_ne_zero (ne_of_gt this) hyr
    constructor <;> (simp only []; field_simp; ring)
  · rename_i h
    rw [not_lt] at h
    have hyi : yi ≠ 0 := by
      intro h0; apply hy; refine ⟨?_, h0⟩
      rw [h0, abs_zero] at h; exact abs_eq_zero.mp (le_antisymm h (abs_nonneg _))
    have hd : yi + yr / yi * yr ≠ 0 := by
      have : yi + yr / yi * yr = (yi ^ 2 + yr ^ 2) / yi := by field_simp
      rw [this]
      have : 0 < yi ^ 2 + yr ^ 2 := by positivity
      exact div_ne_zero (ne_of_gt this) hyi
    constructor <;> (simp only []; field_simp; ring)

/-- no division in `cdiv` is by zero when the divisor `yr + i·yi` is non-zero (so `cdiv_spec` does not
lean on Lean's `x / 0 = 0`): in the first branch the divisors are `yr` and `d = yr + (yi/yr)·yi`, in
the second `yi` and `d = yi + (yr/yi)·yr` -/
theorem cdiv_divisors_nonzero (yr yi : ℝ) (hy : ¬ (yr = 0 ∧ yi = 0)) :
    (|yi| < |yr| → yr ≠ 0 ∧ yr + yi / yr * yi ≠ 0) ∧
    (¬ |yi| < |yr| → yi ≠ 0 ∧ yi + yr / yi * yr ≠ 0) := by
  constructor
  · intro h
    have hyr : yr ≠ 0 := by
      intro h0; rw [h0, abs_zero] at h; exact absurd h (not_lt.mpr (abs_nonneg _))
    refine ⟨hyr, ?_⟩
    have : yr + yi / yr * yi = (yr ^ 2 + yi ^ 2) / yr := by field_simp
    rw [this]
    have : 0 < yr ^ 2 + yi ^ 2 := by positivity
    exact div_ne_zero (ne_of_gt this) hyr
  · intro h
    rw [not_lt] at h
    have hyi : yi ≠ 0 := by
      intro h0; apply hy; refine ⟨?_, h0⟩
      rw [h0, abs_zero] at h; exact abs_eq_zero.mp (le_antisymm h (abs_nonneg _))
    refine ⟨hyi, ?_⟩
    have : yi + yr / yi * yr = (yi ^ 2 + yr ^ 2) / yi := by field_simp
    rw [this]
    have : 0 < yi ^ 2 + yr ^ 2 := by positivity
    exact div_ne_zero (ne_of_gt this) hyi

/-- both branches are reachable (non-vacuity), e.g. `1 / (2 + i)` and `1 / (1 + 2i)` -/
example : (cdiv (1 : ℝ) 0 2 1).1 * 2 - (cdiv (1 : ℝ) 0 2 1).2 * 1 = 1 := (cdiv_spec 1 0 2 1 (by norm_num)).1
example : (cdiv (1 : ℝ) 0 1 2).1 * 1 - (cdiv (1 : ℝ) 0 1 2).2 * 2 = 1 := (cdiv_spec 1 0 1 2 (by norm_num)).1

/-! ## symmetry test and dispatch (EigenValue.h:1280-1323) -/

/-- the constructor's symmetry flag is the mathematical predicate "A equals its transpose" -/
theorem symm_dispatch (n : Nat) (A : FMat ℝ) :
    isSymmetric n A = true ↔ ∀ i j, i < n → j < n → A i j = A j i :=
  isSymmetric_iff n A

/-- tred2+tql2 run exactly on symmetric input, orthes+hqr2 exactly when some pair differs -/
theorem dispatch_route (n : Nat) (A : FMat ℝ) :
    (dispatch n A = .tred2_tql2 ↔ ∀ i j, i < n → j < n → A i j = A j i) ∧
    (dispatch n A = .orthes_hqr2 ↔ ∃ i j, i < n ∧ j < n ∧ A i j ≠ A j i) := by
  unfold dispatch
  by_cases h : isSymmetric n A = true
  · have h' := (isSymmetric_iff n A).mp h
    simp only [h, if_true, true_iff, reduceCtorEq, false_iff]
    refine ⟨h', ?_⟩
    rintro ⟨i, j, hi, hj, hne⟩; exact hne (h' i j hi hj)
  · have h' : ¬ ∀ i j, i < n → j < n → A i j = A j i := fun hh => h ((isSymmetric_iff n A).mpr hh)
    simp only [h, if_false, reduceCtorEq, false_iff, true_iff]
    refine ⟨h', ?_⟩
    by_contra hne
    apply h'
    intro i j hi hj
    by_contra hij
    exact hne ⟨i, j, hi, hj, hij⟩

example : isSymmetric 2 (fun i j => ((i + j : Nat) : ℝ)) = true :=
  (symm_dispatch 2 _).mpr (fun i j _ _ => by simp [Nat.add_comm])

/-! ## getD (EigenValue.h:1381-1400) -/

/-- `getD` stays inside `D_` exactly when no positive imaginary part sits in the last position and
no negative one in the first; otherwise it writes outside a row vector (undefined behaviour) -/
theorem getD_in_range_iff (n : Nat) (d e : Nat → ℝ) :
    (∃ rows, getD n d e = .ok rows) ↔ ∀ i, i < n → (0 < e i → i + 1 < n) ∧ (e i < 0 → 0 < i) := by
  constructor
  · rintro ⟨rows, h⟩
    by_contra hne
    have : ∃ i, i < n ∧ ¬ InRangeAt n e i := by
      by_contra hh; apply hne; intro i hi; by_contra hi'; exact hh ⟨i, hi, hi'⟩
    have hub := getDRows_ub n d e n (le_refl n) this
    unfold getD at h; rw [hub] at h; cases h
  · intro h
    obtain ⟨rows, h1, _, _⟩ := getDRows_ok n d e n (le_refl n) h
    exact ⟨rows, h1⟩

theorem getD_ub_iff (n : Nat) (d e : Nat → ℝ) :
    getD n d e = .error .ub ↔ ∃ i, i < n ∧ ((0 < e i ∧ n ≤ i + 1) ∨ (e i < 0 ∧ i = 0)) := by
  constructor
  · intro h
    by_contra hne
    have hall : ∀ i, i < n → (0 < e i → i + 1 < n) ∧ (e i < 0 → 0 < i) := by
      intro i hi
      refine ⟨fun hp => ?_, fun hm => ?_⟩
      · by_contra hh; exact hne ⟨i, hi, Or.inl ⟨hp, by omega⟩⟩
      · by_contra hh; exact hne ⟨i, hi, Or.inr ⟨hm, by omega⟩⟩
    obtain ⟨rows, hr⟩ := (getD_in_range_iff n d e).mpr hall
    rw [hr] at h; cases h
  · rintro ⟨i, hi, hbad⟩
    apply getDRows_ub n d e n (le_refl n)
    refine ⟨i, hi, ?_⟩
    rintro ⟨h1, h2⟩
    rcases hbad with ⟨hp, hle⟩ | ⟨hm, h0⟩
    · have := h1 hp; omega
    · have := h2 hm; omega

/-- when all writes are in range, `getD` returns `n` rows whose entries are exactly the documented
ones: `d i` on the diagonal, a positive `e i` to the right of it, a negative `e i` to the left -/
theorem getD_entries (n : Nat) (d e : Nat → ℝ)
    (hr : ∀ i, i < n → (0 < e i → i + 1 < n) ∧ (e i < 0 → 0 < i)) :
    ∃ rows, getD n d e = .ok rows ∧ rows.length = n ∧
      ∀ i j, i < n → j < n → entry? rows i j = some (blockEntry d e i j) :=
  getDRows_ok n d e n (le_refl n) hr

/-- **getD_blocks.** For well-formed `(d, e)` (a positive imaginary part is followed by its
conjugate with the same real part, a negative one is preceded by it — the shape `hqr2` produces)
`getD` writes in range and `D` is block diagonal: `[[d, e], [−e, d]]` for each conjugate pair,
`[d]` for each real eigenvalue, zero elsewhere.

Note: the hypothesis needs *both* clauses of `PairsWF`; with the forward clause alone
(`e i > 0 → …`) a negative `e 0` is still an out-of-range write, see
`getD_forward_clause_insufficient`. -/
theorem getD_blocks (n : Nat) (d e : Nat → ℝ) (hwf : PairsWF n d e) :
    ∃ rows, getD n d e = .ok rows ∧ rows.length = n ∧
      (∀ i j, i < n → j < n → entry? rows i j = some (blockEntry d e i j)) ∧
      (∀ i, i < n → 0 < e i →
        entry? rows i i = some (d i) ∧ entry? rows i (i + 1) = some (e i) ∧
        entry? rows (i + 1) i = some (-(e i)) ∧ entry? rows (i + 1) (i + 1) = some (d i)) ∧
      (∀ i, i < n → entry? rows i i = some (d i)) ∧
      (∀ i j, i < n → j < n → i ≠ j → ¬ (j = i + 1 ∧ 0 < e i) → ¬ (i = j + 1 ∧ 0 < e j) →
        entry? rows i j = some 0) := by
  obtain ⟨rows, h1, h2, h3⟩ := getD_entries n d e hwf.inRange
  refine ⟨rows, h1, h2, h3, ?_, ?_, ?_⟩
  · intro i hi hp
    obtain ⟨hi1, he1, hd1⟩ := (hwf i hi).1 hp
    have hneg : e (i + 1) < 0 := by rw [he1]; linarith
    have hnp : ¬ 0 < e (i + 1) := not_lt.mpr (le_of_lt hneg)
    refine ⟨?_, ?_, ?_, ?_⟩
    · rw [h3 i i hi hi]; simp [blockEntry]
    · rw [h3 i (i + 1) hi hi1]; simp [blockEntry, hp]
    · rw [h3 (i + 1) i hi1 hi]
      simp only [blockEntry, ScalarReal.gtb_iff, ScalarReal.ltb_iff, ScalarReal.zero_eq]
      rw [if_neg (by omega), if_neg (fun h => absurd h.1 (by omega)), if_pos ⟨trivial, hneg⟩, he1]
    · rw [h3 (i + 1) (i + 1) hi1 hi1]; simp [blockEntry, hd1]
  · intro i hi
    rw [h3 i i hi hi]; simp [blockEntry]
  · intro i j hi hj hij hup hlo
    rw [h3 i j hi hj]
    have hji : ¬ j = i := fun h => hij h.symm
    simp only [blockEntry, hji, if_false, ScalarReal.gtb_iff, ScalarReal.ltb_iff, ScalarReal.zero_eq]
    rw [if_neg hup]
    by_cases hm : j + 1 = i ∧ e i < 0
    · exfalso
      obtain ⟨hj1, hneg⟩ := hm
      obtain ⟨_, he, _⟩ := (hwf i hi).2 hneg
      have hj' : i - 1 = j := by omega
      rw [hj'] at he
      exact hlo ⟨hj1.symm, by rw [he]; linarith⟩
    · rw [if_neg hm]

/-- a malformed `e`: positive imaginary part in the last position — `D_(n-1, n)` is written -/
theorem getD_malformed_last (n : Nat) (d e : Nat → ℝ) (hn : 0 < n) (h : 0 < e (n - 1)) :
    getD n d e = .error .ub :=
  (getD_ub_iff n d e).mpr ⟨n - 1, by omega, Or.inl ⟨h, by omega⟩⟩

/-- a malformed `e`: negative imaginary part in the first position — `D_(0, SIZE_MAX)` is written -/
theorem getD_malformed_first (n : Nat) (d e : Nat → ℝ) (hn : 0 < n) (h : e 0 < 0) :
    getD n d e = .error .ub :=
  (getD_ub_iff n d e).mpr ⟨0, hn, Or.inr ⟨h, rfl⟩⟩

/-- concrete witnesses (1 × 1) -/
theorem getD_witness_last : getD 1 (fun _ => (0 : ℝ)) (fun _ => 1) = .error .ub :=
  getD_malformed_last 1 _ _ Nat.one_pos one_pos
theorem getD_witness_first : getD 1 (fun _ => (0 : ℝ)) (fun _ => -1) = .error .ub :=
  getD_malformed_first 1 _ _ Nat.one_pos (by norm_num)

/-- the forward clause of well-formedness alone (as in the plan of DESIGN §7) does not exclude an
out-of-range write -/
theorem getD_forward_clause_insufficient :
    ∃ (n : Nat) (d e : Nat → ℝ),
      (∀ i, i < n → 0 < e i → i + 1 < n ∧ e (i + 1) = -e i ∧ d (i + 1) = d i) ∧
      getD n d e = .error .ub :=
  ⟨1, fun _ => 0, fun _ => -1, fun i _ hp => absurd hp (by norm_num), getD_witness_first⟩

/-- the Boolean test the driver runs on the implementation's `(d, e)` is `PairsWF` -/
theorem pairsWF_decidable (n : Nat) (d e : Nat → ℝ) : pairsWFb n d e = true ↔ PairsWF n d e :=
  pairsWFb_iff n d e

/-- non-vacuity: one conjugate pair followed by a real eigenvalue -/
example : PairsWF 3 (fun i => if i < 2 then 1 else 5) (fun i => if i = 0 then 2 else if i = 1 then -2 else 0) := by
  intro i hi
  have : i = 0 ∨ i = 1 ∨ i = 2 := by omega
  rcases this with h | h | h <;> subst h <;> norm_num

/-! ## trace and determinant are reproduced by the spectrum -/

/-- **spectrum_trace_det.** If `A·V = V·D` with `D` the block-diagonal matrix that `getD` assembles
from a well-formed `(d, e)`, and `V` is invertible, then `tr A = Σ d` and
`det A = Π_blocks` (`d` per real eigenvalue, `d² + e²` per conjugate pair) — `spectrumSum` /
`spectrumProd` are the definitions the driver evaluates on the implementation's lists. -/
theorem spectrum_trace_det (n : Nat) (A V W : FMat ℝ) (d e : Nat → ℝ) (hwf : PairsWF n d e)
    (hAV : toMatrix n A * toMatrix n V = toMatrix n V * toMatrix n (blockEntry d e))
    (hVW : toMatrix n V * toMatrix n W = 1) :
    Matrix.trace (toMatrix n A) = spectrumSum n d ∧ Matrix.det (toMatrix n A) = spectrumProd n d e := by
  constructor
  · rw [trace_of_similar _ _ _ _ hAV hVW, trace_blockEntry, spectrumSum_eq]
  · rw [det_of_similar _ _ _ _ hAV hVW, det_blockEntry n d e hwf, spectrumProd_eq]

/-- the quantity the driver's `residual` clause measures (entries of `A·V − V·D` computed with the
model's product loop and the model's `blockEntry`) vanishes exactly when the hypothesis
`A·V = V·D` of `spectrum_trace_det` holds -/
theorem residual_zero_iff (n : Nat) (A V : FMat ℝ) (d e : Nat → ℝ) :
    (∀ i j, i < n → j < n → multEntry n A V i j - multEntry n V (blockEntry d e) i j = 0) ↔
    toMatrix n A * toMatrix n V = toMatrix n V * toMatrix n (blockEntry d e) := by
  rw [← toMatrix_mult, ← toMatrix_mult]
  constructor
  · intro h; ext i j
    have := h i j i.isLt j.isLt
    simp only [toMatrix]; linarith
  · intro h i j hi hj
    have := congrFun (congrFun h ⟨i, hi⟩) ⟨j, hj⟩
    simp only [toMatrix] at this
    linarith

/-- the determinant of `D` itself (no similarity needed): 2 × 2 blocks contribute `d² + e²` -/
theorem getD_det (n : Nat) (d e : Nat → ℝ) (hwf : PairsWF n d e) :
    Matrix.det (toMatrix n (blockEntry d e)) = spectrumProd n d e := by
  rw [det_blockEntry n d e hwf, spectrumProd_eq]

/-- for a real spectrum the block matrix is `diag d`, so `pow_glue`'s hypothesis is the special
case `e = 0` of `spectrum_trace_det`'s -/
theorem blockEntry_real (n : Nat) (d e : Nat → ℝ) (he : ∀ i, i < n → e i = 0) :
    toMatrix n (blockEntry d e) = Matrix.diagonal (fun i : Fin n => d i) := by
  ext i j
  have h1 : ¬ 0 < e i := by rw [he i i.isLt]; exact lt_irrefl 0
  have h2 : ¬ e i < 0 := by rw [he i i.isLt]; exact lt_irrefl 0
  by_cases hij : i = j
  · subst hij; simp [toMatrix, blockEntry]
  · have : ¬ (j : Nat) = i := fun h => hij (Fin.ext h.symm)
    simp [toMatrix, blockEntry, Matrix.diagonal_apply_ne _ hij, this, h1, h2]

/-! ## pow(A, double) and exp(A) (MatrixTools.h:526-557): the wrappers are right *given* a
correct decomposition and inverse -/

theorem glue_dimension (f : ℝ → ℝ) (nr nc : Nat) (V W : FMat ℝ) (lam : Nat → ℝ) (h : nr ≠ nc) :
    glue f nr nc V lam W = .error .dimension := by
  simp [glue, h]

/-- the result of the glue is `V · diag(f λ) · W` -/
theorem glue_eq (f : ℝ → ℝ) (n : Nat) (V W : FMat ℝ) (lam : Nat → ℝ) :
    ∃ O, glue f n n V lam W = .ok O ∧
      toMatrix n O = toMatrix n V * Matrix.diagonal (fun k : Fin n => f (lam k)) * toMatrix n W :=
  ⟨_, by simp [glue], toMatrix_multDiag n V (fun k => f (lam k)) W⟩

/-- **pow_glue.** If `A·V = V·diag λ` and `V·W = 1` then `pow(A, k)` returns `A^k` (k-fold
product), for every natural `k` passed as a double. -/
theorem pow_glue (n : Nat) (A V W : FMat ℝ) (lam : Nat → ℝ) (k : Nat)
    (hAV : toMatrix n A * toMatrix n V = toMatrix n V * Matrix.diagonal (fun i : Fin n => lam i))
    (hVW : toMatrix n V * toMatrix n W = 1) :
    ∃ O, powGlue n n V lam W (k : ℝ) = .ok O ∧ toMatrix n O = toMatrix n A ^ k := by
  obtain ⟨O, h1, h2⟩ := glue_eq (fun x => Scalar.pow x (k : ℝ)) n V W lam
  refine ⟨O, h1, ?_⟩
  rw [h2, eq_conj_of_eigen _ _ _ _ hAV hVW, conj_pow _ _ _ hVW]
  simp only [ScalarReal.pow_eq, Real.rpow_natCast]

/-- symmetric route: with an orthonormal `V` the inverse is the transpose, so
`V · diag(λ^k) · Vᵀ = A^k`; this is the statement for the output of tred2/tql2 -/
theorem pow_glue_orthonormal (n : Nat) (A V : FMat ℝ) (lam : Nat → ℝ) (k : Nat)
    (hAV : toMatrix n A * toMatrix n V = toMatrix n V * Matrix.diagonal (fun i : Fin n => lam i))
    (horth : (toMatrix n V).transpose * toMatrix n V = 1) :
    ∃ O, powGlue n n V lam (fun i j => V j i) (k : ℝ) = .ok O ∧ toMatrix n O = toMatrix n A ^ k := by
  have hW : toMatrix n (fun i j => V j i) = (toMatrix n V).transpose := by
    ext i j; simp [toMatrix, Matrix.transpose_apply]
  apply pow_glue n A V _ lam k hAV
  rw [hW]
  exact mul_eq_one_comm.mp horth

/-- real exponents, positive spectrum: the results form a one-parameter group through `A`
(`O_p · O_q = O_{p+q}`, `O_1 = A`, `O_0 = 1`), which is what "real matrix power" means; in
particular `O_{-1}` is the inverse and `O_{1/2}` a square root of `A`. -/
theorem pow_glue_real (n : Nat) (A V W : FMat ℝ) (lam : Nat → ℝ)
    (hAV : toMatrix n A * toMatrix n V = toMatrix n V * Matrix.diagonal (fun i : Fin n => lam i))
    (hVW : toMatrix n V * toMatrix n W = 1) (hpos : ∀ i, i < n → 0 < lam i) :
    ∃ O : ℝ → FMat ℝ, (∀ p, powGlue n n V lam W p = .ok (O p)) ∧
      (∀ p q, toMatrix n (O p) * toMatrix n (O q) = toMatrix n (O (p + q))) ∧
      toMatrix n (O 1) = toMatrix n A ∧ toMatrix n (O 0) = 1 := by
  refine ⟨fun p => multDiagEntry n V (fun k => Scalar.pow (lam k) p) W, fun p => by simp [powGlue, glue], ?_, ?_, ?_⟩
  · intro p q
    simp only [toMatrix_multDiag]
    rw [conj_mul_conj _ _ hVW]
    congr 2
    ext i j
    by_cases hij : i = j
    · subst hij
      simp only [Matrix.diagonal_apply_eq, ScalarReal.pow_eq]
      exact (Real.rpow_add (hpos i i.isLt) p q).symm
    · simp [Matrix.diagonal_apply_ne _ hij]
  · simp only [toMatrix_multDiag, ScalarReal.pow_eq, Real.rpow_one]
    exact (eq_conj_of_eigen _ _ _ _ hAV hVW).symm
  · simp only [toMatrix_multDiag, ScalarReal.pow_eq, Real.rpow_zero]
    have : (Matrix.diagonal fun _ : Fin n => (1 : ℝ)) = 1 := Matrix.diagonal_one
    rw [this, Matrix.mul_one, hVW]

/-- **exp_glue.** If `A·V = V·diag λ` and `V·W = 1` then `exp(A)` returns the matrix exponential
`Σ A^k / k!` (Mathlib's `NormedSpace.exp`). -/
theorem exp_glue (n : Nat) (A V W : FMat ℝ) (lam : Nat → ℝ)
    (hAV : toMatrix n A * toMatrix n V = toMatrix n V * Matrix.diagonal (fun i : Fin n => lam i))
    (hVW : toMatrix n V * toMatrix n W = 1) :
    ∃ O, expGlue n n V lam W = .ok O ∧ toMatrix n O = NormedSpace.exp (toMatrix n A) := by
  obtain ⟨O, h1, h2⟩ := glue_eq Scalar.exp n V W lam
  refine ⟨O, h1, ?_⟩
  rw [h2, eq_conj_of_eigen _ _ _ _ hAV hVW, conj_exp _ _ _ hVW]
  simp only [ScalarReal.exp_eq]

/-- the quarter-turn rotation: eigenvalues `±i`, so `getRealEigenValues()` is `(0, 0)` -/
def rot90 : FMat ℝ := fun i j => if i = 0 ∧ j = 1 then -1 else if i = 1 ∧ j = 0 then 1 else 0

/-- **Outside the property's scope, recorded as a witness.** `pow` / `exp` pass only the real
parts of the eigenvalues to the glue. For the quarter-turn rotation (real parts `0, 0`) `pow(A, 2)`
is the zero matrix whatever `V` and `W` are, while `A² = −1`: the wrappers are wrong for complex
spectra (the property restricts this clause to real spectra). -/
theorem pow_glue_drops_imaginary_parts (V W : FMat ℝ) :
    ∃ O, powGlue 2 2 V (fun _ => 0) W 2 = .ok O ∧ toMatrix 2 O = 0 ∧ toMatrix 2 rot90 ^ 2 = -1 := by
  obtain ⟨O, h1, h2⟩ := glue_eq (fun x => Scalar.pow x (2 : ℝ)) 2 V W (fun _ => 0)
  refine ⟨O, h1, ?_, ?_⟩
  · rw [h2]
    have : (Matrix.diagonal fun _ : Fin 2 => Scalar.pow (0 : ℝ) (2 : ℝ)) = 0 := by
      ext i j; by_cases h : i = j
      · subst h; simp [ScalarReal.pow_eq]
      · simp [Matrix.diagonal_apply_ne _ h]
    rw [this, Matrix.mul_zero, Matrix.zero_mul]
  · ext i j
    fin_cases i <;> fin_cases j <;> simp [pow_two, toMatrix, rot90, Matrix.mul_apply, Fin.sum_univ_two]

/-- non-vacuity of the hypotheses of `pow_glue` / `exp_glue`: a 2 × 2 matrix with eigenvalues 1, 3 -/
example : ∃ (A V W : FMat ℝ) (lam : Nat → ℝ),
    toMatrix 2 A * toMatrix 2 V = toMatrix 2 V * Matrix.diagonal (fun i : Fin 2 => lam i) ∧
    toMatrix 2 V * toMatrix 2 W = 1 ∧ ∀ i, i < 2 → 0 < lam i := by
  refine ⟨fun i j => if i = j then 2 else 1, fun i j => if i = 0 ∧ j = 0 then -1 else 1,
    fun i j => if i = 0 ∧ j = 0 then -1/2 else 1/2, fun i => if i = 0 then 1 else 3, ?_, ?_, ?_⟩
  · ext i j; fin_cases i <;> fin_cases j <;> simp [toMatrix, Matrix.mul_apply, Fin.sum_univ_two, Matrix.diagonal] <;> norm_num
  · ext i j; fin_cases i <;> fin_cases j <;> simp [toMatrix, Matrix.mul_apply, Fin.sum_univ_two] <;> norm_num
  · intro i hi; beta_reduce; split <;> norm_num

end Bpp.C06
