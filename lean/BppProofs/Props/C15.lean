import BppModel.Tree
import BppProofs.Props.C14
/-!
# C15 — tree container (src/Bpp/Graph/TreeGraphImpl.h on GlobalGraph): soundness of the cached validity

Proved here, for all histories: the cached validity flag is **sound** — whenever `isValid_` is set,
the single-visit traversal from the root (`isTree`, GlobalGraph.cpp:668) answers true on the
*current* graph — hence `isValid()` always answers what the traversal answers now, "at every
moment and regardless of earlier queries".  Every mutating primitive of GlobalGraph ends with the
virtual `topologyHasChanged_()`; the model (`BppModel/Tree.lean`, `T.lift`) resets the flag exactly
when such a primitive has run; an operation that raises before touching anything leaves the graph
unchanged (C14 `raises_unchanged`), so the flag may stay.

The other clauses of the property:
* `Props/C15Valid.lean`   — `isTree_iff`, `isValid_iff`: the traversal decides "tree spanning all nodes from the root"
* `Props/C15Fuel.lean`    — the fuel of the model's recursions suffices
* `Props/C15Queries.lean` — father / sons / branches / leaves-under / subtree / path / edge path / MRCA against the reference tree
* `Props/C15RootAt.lean`  — `rootAt_spec` (rooted and unrooted trees)
* `Props/C15Dag.lean`     — the DAG container: cache soundness, `isDA_iff_acyclic`
* `Props/C15Obs.lean`, `Props/C15ObsReady.lean` — `setFather` / `addSon` with an edge object, `rootAt` keeps the associations
* `Props/C15ValidU.lean`  — `isUnrootedTree_iff`: the reference decision for unrooted validity; `isValid_eq_ref`
* `Props/C15Unrooted.lean` — the queries that need a rooted tree refuse an unrooted one (`*_refuses_unrooted`)
* `Props/C15Copy.lean`    — copies of the tree / DAG containers: `copy_same_relations`, `copy_independent`, `heap_cache_sound`
* `Props/C15ObsCopy.lean` — copies of the tree observer, `removeSon(s)` and the object-level queries over all histories
* `Props/C15DagObs.lean`  — the DAG observer's wrappers; `Props/C15Remove.lean` — removals remove exactly the relation
-/
namespace Bpp.C15
open Bpp Bpp.Graph Bpp.Graph.T

/-- the cache never lies: when `isValid_` is set, the traversal answers true on the current graph -/
def CacheSound (t : T) : Prop := t.valid = true → T.isTree t.g = .ok true

theorem cacheSound_empty (d : Bool) : CacheSound (T.empty d) := by intro h; cases h

theorem cacheSound_invalid {g : G} : CacheSound { g := g, valid := false } := by intro h; cases h

/-- the traversal only reads the node table, the directed flag and the root -/
theorem metOnce_congr {g1 g2 : G} (hn : g1.nodes = g2.nodes) (hd : g1.directed = g2.directed) :
    ∀ fuel node origin met, T.metOnce g1 fuel node origin met = T.metOnce g2 fuel node origin met := by
  intro fuel
  induction fuel with
  | zero => intro _ _ _; rfl
  | succ n ih =>
    intro node origin met
    simp only [T.metOnce]
    have ho : g1.outNeighbors node = g2.outNeighbors node := by simp [G.outNeighbors, G.rowOf, hn]
    rw [ho, hd]
    split
    · rfl
    · split
      · rfl
      · congr 1
        funext acc nb
        split
        · rw [ih]
        · rfl

theorem isTree_congr {g1 g2 : G} (hn : g1.nodes = g2.nodes) (hd : g1.directed = g2.directed) (hr : g1.root = g2.root) :
    T.isTree g1 = T.isTree g2 := by
  unfold T.isTree
  rw [metOnce_congr hn hd, hn, hr]

theorem cacheSound_lift {α : Type} (t : T) (h : CacheSound t) (r : GOut α) : CacheSound (t.lift r).2 := by
  unfold T.lift
  cases r with
  | ok a g' => exact cacheSound_invalid
  | exc g' =>
    simp only
    by_cases hg : g' = t.g
    · subst hg
      simp only [if_true]
      intro hv
      have := h hv
      rw [← this]
      exact isTree_congr rfl rfl rfl
    · simp only [hg, if_false]; exact cacheSound_invalid

theorem cacheSound_isValid (t : T) (h : CacheSound t) : CacheSound t.isValid.2 := by
  unfold T.isValid
  split
  · exact h
  · rcases hr : T.isTree t.g with b | _ | _ | _ <;> simp only
    · intro hv
      simp only at hv
      subst hv
      exact hr
    · exact h
    · exact h
    · exact h

theorem cacheSound_makeDirected (t : T) (h : CacheSound t) : CacheSound t.makeDirected := by
  unfold T.makeDirected; split
  · exact h
  · exact cacheSound_invalid

theorem cacheSound_makeUndirected (t : T) (h : CacheSound t) : CacheSound t.makeUndirected.2 := by
  unfold T.makeUndirected; split
  · exact h
  · exact cacheSound_lift t h _

theorem cacheSound_touch (r : GOut Unit × T) (h : CacheSound r.2) : CacheSound (T.touch r).2 := by
  unfold T.touch
  split
  · intro hv; cases hv
  · exact h

theorem cacheSound_andThen {α β : Type} (r : GOut α × T) (f : α → T → GOut β × T) (h : CacheSound r.2)
    (hf : ∀ a t', CacheSound t' → CacheSound (f a t').2) : CacheSound (T.andThen r f).2 := by
  unfold T.andThen
  split
  · exact hf _ _ h
  · exact h

theorem cacheSound_setFather (t : T) (h : CacheSound t) (n f : Nat) : CacheSound (t.setFather n f).2 := by
  unfold T.setFather
  split
  · exact h
  · split
    · exact h
    · apply cacheSound_touch
      apply cacheSound_andThen
      · split
        · split
          · exact h
          · exact cacheSound_lift t h _
        · exact h
      · intro _ t' h'; exact cacheSound_lift t' h' _

theorem cacheSound_propagate (fuel : Nat) : ∀ (t : T) (n : Nat) (r : GOut Unit × T), CacheSound t →
    T.propagate fuel t n = .ok r → CacheSound r.2 := by
  induction fuel with
  | zero => intro t n r _ hr; simp [T.propagate] at hr
  | succ k ih =>
    intro t n r h hr
    simp only [T.propagate] at hr
    split at hr
    · injection hr with hr; subst hr; exact h
    · injection hr with hr; subst hr; exact h
    · split at hr
      · injection hr with hr; subst hr; exact h
      · rename_i f _
        rcases hp : T.propagate k t f with r1 | _ | _ | _ <;> rw [hp] at hr
        · injection hr with hr; subst hr
          apply cacheSound_andThen _ _ (ih t f r1 h hp)
          intro _ t' h'; exact cacheSound_lift t' h' _
        · cases hr
        · cases hr
        · cases hr

theorem cacheSound_orientStep (r : GOut Unit × T) (p : Nat × Nat) (h : CacheSound r.2) : CacheSound (T.orientStep r p).2 := by
  unfold T.orientStep
  apply cacheSound_andThen _ _ h
  intro _ t' h'
  split
  · exact h'
  · split
    · exact h'
    · split
      · exact cacheSound_lift t' h' _
      · exact h'

theorem cacheSound_orientFold (rel : List (Nat × Nat)) : ∀ (r : GOut Unit × T), CacheSound r.2 →
    CacheSound (rel.foldl T.orientStep r).2 := by
  induction rel with
  | nil => intro r h; exact h
  | cons p rest ih => intro r h; exact ih _ (cacheSound_orientStep r p h)

theorem cacheSound_rootAt (t : T) (h : CacheSound t) (n : Nat) (r : GOut Unit × T) (hr : t.rootAt n = .ok r) :
    CacheSound r.2 := by
  unfold T.rootAt at hr
  have h0 := cacheSound_isValid t h
  rcases hv : t.isValid with ⟨v, t0⟩
  rw [hv] at hr h0
  simp only at hr h0
  cases v with
  | ok b =>
    cases b with
    | true =>
      simp only at hr
      split at hr
      · injection hr with hr; subst hr; exact h0
      · split at hr
        · have h2 := cacheSound_lift t0 h0 (t0.g.setRoot n)
          rcases hs : t0.setRoot n with ⟨o, t2⟩
          have hs' : (t0.lift (t0.g.setRoot n)) = (o, t2) := hs
          rw [hs'] at h2
          rw [hs] at hr
          cases o with
          | ok u g' => exact cacheSound_propagate _ _ _ _ h2 hr
          | exc g' => injection hr with hr; subst hr; exact h2
        · rcases hrel : T.relationsFrom t0.g (t0.g.nodes.length + 2) n n [] with rel | _ | _ | _ <;> rw [hrel] at hr <;> simp only at hr
          · have h1 := cacheSound_makeDirected t0 h0
            have h2 := cacheSound_lift t0.makeDirected h1 (t0.makeDirected.g.setRoot n)
            rcases hs : t0.makeDirected.setRoot n with ⟨o, t2⟩
            have hs' : (t0.makeDirected.lift (t0.makeDirected.g.setRoot n)) = (o, t2) := hs
            rw [hs'] at h2
            rw [hs] at hr
            cases o with
            | ok u g' =>
              injection hr with hr; subst hr
              exact cacheSound_orientFold rel _ h2
            | exc g' => injection hr with hr; subst hr; exact h2
          · injection hr with hr; subst hr; exact h0
          · cases hr
          · cases hr
    | false => injection hr with hr; subst hr; exact h0
  | exc => injection hr with hr; subst hr; exact h0
  | fuel => cases hr
  | ub => cases hr

theorem cacheSound_unit {α : Type} (r : GOut α × T) (h : CacheSound r.2) : CacheSound (T.unit r).2 := h

theorem cacheSound_unRoot (t : T) (h : CacheSound t) (j : Bool) : CacheSound (t.unRoot j).2 := by
  unfold T.unRoot
  apply cacheSound_andThen
  · split
    · split
      · exact h
      · refine cacheSound_andThen _ _ (cacheSound_unit _ (cacheSound_lift t h _)) ?_
        intro _ t1 h1
        refine cacheSound_andThen _ _ (cacheSound_unit _ (cacheSound_lift t1 h1 _)) ?_
        intro _ t2 h2
        refine cacheSound_andThen _ _ (cacheSound_unit _ (cacheSound_lift t2 h2 _)) ?_
        intro _ t3 h3
        exact cacheSound_unit _ (cacheSound_lift t3 h3 _)
      · exact h
    · exact h
  · intro _ t' h'; exact cacheSound_makeUndirected t' h'

theorem cacheSound_setFatherE (t : T) (h : CacheSound t) (n f e : Nat) : CacheSound (t.setFatherE n f e).2 := by
  unfold T.setFatherE
  split
  · exact h
  · split
    · exact h
    · apply cacheSound_touch
      apply cacheSound_andThen
      · split
        · split
          · exact h
          · exact cacheSound_lift t h _
        · exact h
      · intro _ t' h'; exact cacheSound_lift t' h' _

theorem cacheSound_removeSonsFold (n : Nat) (sons : List Nat) : ∀ (r : GOut Unit × T), CacheSound r.2 →
    CacheSound (sons.foldl (fun acc s => T.andThen acc (fun _ t' => t'.removeSon n s)) r).2 := by
  induction sons with
  | nil => intro r h; exact h
  | cons s rest ih =>
    intro r h
    apply ih
    apply cacheSound_andThen _ _ h
    intro _ t' h'
    exact cacheSound_touch _ (cacheSound_lift t' h' _)

theorem cacheSound_removeSons (t : T) (h : CacheSound t) (n : Nat) : CacheSound (t.removeSons n).2 := by
  unfold T.removeSons
  split
  · exact h
  · rename_i sons _
    have := cacheSound_removeSonsFold n sons (.ok () t.g, t) h
    simp only
    split <;> exact this

theorem cacheSound_getSubtree (t : T) (h : CacheSound t) (e : Bool) (n : Nat) : CacheSound (t.getSubtree e n).2 := by
  unfold T.getSubtree
  have h0 := cacheSound_isValid t h
  rcases hv : t.isValid with ⟨v, t0⟩
  rw [hv] at h0
  simp only at h0 ⊢
  split
  · split <;> exact h0
  all_goals exact h0

theorem cacheSound_orientate (t : T) (h : CacheSound t) : CacheSound t.orientate.2 := by
  unfold T.orientate
  rcases t.g.orientate with ⟨u, g'⟩ | g' <;> simp only
  all_goals
    by_cases hg : g' = t.g
    · subst hg
      simp only [if_true]
      intro hv
      rw [← h hv]
      exact isTree_congr rfl rfl rfl
    · simp only [hg, if_false]; exact cacheSound_invalid

/-- one operation keeps the cache sound -/
theorem cacheSound_step (t : T) (h : CacheSound t) (op : TOp) : CacheSound (t.step op) := by
  cases op with
  | createNode => exact cacheSound_lift t h _
  | link a b => exact cacheSound_lift t h _
  | unlink a b => exact cacheSound_lift t h _
  | deleteNode n => exact cacheSound_lift t h _
  | setRoot n => exact cacheSound_lift t h _
  | makeDirected => exact cacheSound_makeDirected t h
  | makeUndirected => exact cacheSound_makeUndirected t h
  | setFather n f => exact cacheSound_setFather t h n f
  | addSon n s => exact cacheSound_touch _ (cacheSound_lift t h _)
  | removeSon n s => exact cacheSound_touch _ (cacheSound_lift t h _)
  | setFatherE n f e => exact cacheSound_setFatherE t h n f e
  | addSonE n s e => exact cacheSound_touch _ (cacheSound_lift t h _)
  | removeSons n => exact cacheSound_removeSons t h n
  | rootAt n =>
    simp only [T.step]
    rcases hr : t.rootAt n with r | _ | _ | _
    · exact cacheSound_rootAt t h n r hr
    · exact h
    · exact h
    · exact h
  | unRoot j => exact cacheSound_unRoot t h j
  | createNodeFromNode o => exact cacheSound_lift t h _
  | createNodeOnEdge e => exact cacheSound_lift t h _
  | createNodeFromEdge e => exact cacheSound_lift t h _
  | orientate => exact cacheSound_orientate t h
  | isValid => exact cacheSound_isValid t h
  | getSubtree e n => exact cacheSound_getSubtree t h e n

/-- **cache_sound**: after any history of topology edits (node creations, links, unlinks, deletions,
add son, set father, remove son, re-root, un-root, set root, direction changes, the inherited `createNodeFromNode` /
`createNodeOnEdge` / `createNodeFromEdge` / `orientate`) and validity
queries, each call succeeding or raising, a set validity flag means the traversal answers true on
the graph as it is now.  (`T.step (.rootAt n)` falls back to "no step" when the model's `rootAt` has no answer: that never
happens on a reachable state, `rootAt_total` in `Props/C15RootAt.lean`.) -/
theorem cache_sound (d : Bool) (ops : List TOp) : CacheSound ((T.empty d).run ops) := by
  suffices h : ∀ t, CacheSound t → CacheSound (t.run ops) from h _ (cacheSound_empty d)
  induction ops with
  | nil => intro t h; exact h
  | cons op r ih => intro t h; exact ih _ (cacheSound_step t h op)

/-- … hence `isValid()` answers exactly what the traversal answers on the current graph (or raises
exactly when it raises), whatever was asked or edited before -/
theorem isValid_is_isTree (d : Bool) (ops : List TOp) :
    ((T.empty d).run ops).isValid.1 = T.isTree ((T.empty d).run ops).g := by
  have h := cache_sound d ops
  unfold T.isValid
  split
  · rename_i hv; rw [h hv]
  · rcases hr : T.isTree ((T.empty d).run ops).g with b | _ | _ | _ <;> rfl

/-- the check's predicate `cache_sound` is this definition, evaluated on the reported flag and graph -/
theorem cacheSound_decidable (t : T) : CacheSound t ↔ (!t.valid || (T.isTree t.g == .ok true)) = true := by
  unfold CacheSound
  cases t.valid <;> simp

end Bpp.C15
