import BppProofs.Lemmas.EigenBook
/-!
# C06 (round 2) — the bookkeeping of the iteration kernels
(src/Bpp/Numeric/Matrix/EigenValue.h: hqr2 "Outer loop over eigenvalue index", tql2)

The QR / QL sweeps are not transcribed; they are the `sweep` events of two small state machines
(`BppModel/EigenBook.lean`), arbitrary except for the one property of a similarity transformation of
the active window that the theorems name: it preserves the window's trace.  What IS transcribed and
proved here, for every event sequence of any length:

* hqr2: `exshift` is the sum of all exceptional shifts taken so far; a deflated eigenvalue is reported
  as its diagonal entry plus that sum (one root), resp. as the roots of the 2 × 2 trailing block shifted
  by that sum (two roots: real pair / conjugate pair of the shape `getD` expects); reported values are
  never touched again; the reported real parts add up to the trace of the matrix the iteration
  started from.
* tql2: the implicit shift lowers every entry `d[l .. n-1]` by the same `h`; `f` is the sum of all
  shifts; `d[l] + f` is reported; finished entries are never touched again; the reported eigenvalues
  add up to the trace of the tridiagonal matrix; the final sort is ascending, a permutation, and moves
  the eigenvector columns with their eigenvalues (so `A·V = V·diag d` survives it).

The records of the guarded instrumentation tie these definitions to the C++ bit for bit
(Drive/C06.lean, op `trace`); the hypotheses `SweepsPreserveTrace` / `TqlEvsOK` are *explored* on the
implementation's records (verdict clauses `hqr2_sweep_trace`, `tql2_sweep_trace`, `tql2_hypot`).
-/
namespace Bpp.C06
open Bpp Bpp.EigenGlue Bpp.EigenBook

/-! ## hqr2: "Two roots found" -/

/-- real pair (`q = p² + w ≥ 0`): both imaginary parts are 0 and the two reported values are the roots of
the characteristic polynomial of the trailing block `[[a+σ, b], [c, dd+σ]]` (`σ = exshift`): their sum
is its trace, their product its determinant -/
theorem hqr2_two_roots_real (a b c dd σ : ℝ) (hq : 0 ≤ defQ a b c dd) :
    (deflate2 a b c dd σ).e1 = 0 ∧ (deflate2 a b c dd σ).e2 = 0 ∧
    (deflate2 a b c dd σ).d1 + (deflate2 a b c dd σ).d2 = (a + σ) + (dd + σ) ∧
    (deflate2 a b c dd σ).d1 * (deflate2 a b c dd σ).d2 = (a + σ) * (dd + σ) - b * c :=
  deflate2_real a b c dd σ hq

/-- complex pair (`q < 0`): equal real parts, imaginary parts `+z, −z` with `z > 0` in this order (the
shape `PairsWF` that `getD_blocks` needs), `2·re` = trace and `re² + im²` = determinant of the shifted
trailing block -/
theorem hqr2_two_roots_complex (a b c dd σ : ℝ) (hq : defQ a b c dd < 0) :
    (deflate2 a b c dd σ).d1 = (deflate2 a b c dd σ).d2 ∧
    0 < (deflate2 a b c dd σ).e1 ∧ (deflate2 a b c dd σ).e2 = -(deflate2 a b c dd σ).e1 ∧
    (deflate2 a b c dd σ).d1 + (deflate2 a b c dd σ).d2 = (a + σ) + (dd + σ) ∧
    (deflate2 a b c dd σ).d1 * (deflate2 a b c dd σ).d2 + (deflate2 a b c dd σ).e1 * (deflate2 a b c dd σ).e1
      = (a + σ) * (dd + σ) - b * c :=
  deflate2_complex a b c dd σ hq

/-- both cases occur: `[[2,1],[1,2]]` has the real pair 3, 1; `[[0,-1],[1,0]]` the pair `±i` -/
example : 0 ≤ defQ 2 1 1 2 := by norm_num [defQ, defP]
example : defQ 0 (-1) 1 0 < 0 := by norm_num [defQ, defP]

/-! ## hqr2: the shift / deflate bookkeeping -/

/-- *Invariant of the state machine* (audit round 1, F1: close to definitional — `shifts` is a history
variable that `applyShift` extends with the value it adds to `exshift`; the statement is that no other
transition writes `exshift`). Its content about the C++ comes from the record tie (op `trace` replays the
model's running total against the logged `exshift`); the statement with mathematical content is
`hqr2_exceptional_shift_invisible` / `hqr2_trace_bookkeeping` below.

**`exshift` is the sum of all exceptional shifts applied so far** — after any sequence of sweeps,
exceptional shifts (iter == 10, iter == 30) and deflations, from the start of the iteration -/
theorem hqr2_exshift_is_sum_of_shifts (N : Nat) (diag : Nat → ℝ) (evs : List (HqrEv ℝ)) (st : HqrSt ℝ)
    (h : hqrRun (hqrInit N diag) evs = some st) : st.exshift = st.shifts.sum :=
  hqr_exshift_run evs _ st h (by simp [hqrInit])

/-- **an exceptional shift is invisible in the frame of the original matrix**: both exceptional shifts
(`iter == 10`, `iter == 30`, taken or not) leave `H(i,i) + exshift` unchanged for every `i` of the active
window, and change nothing else that is reported. This is where two separate statements of the C++ — the
loop `H(i,i) -= x` over `low..n` and `exshift += x` — have to agree; it is the step of
`hqr2_trace_bookkeeping` that `exshift = x` (seeded C06-b2) and a shortened loop (mutant m16) break. -/
theorem hqr2_exceptional_shift_invisible (st st' : HqrSt ℝ) (ev : HqrEv ℝ)
    (hev : ev = .ex10 ∨ ∃ w, ev = .ex30 w) (h : hqrStep st ev = some st') :
    st'.n = st.n ∧ st'.d = st.d ∧ st'.e = st.e ∧
    ∀ i, i < st.n → st'.diag i + st'.exshift = st.diag i + st.exshift := by
  rcases hev with rfl | ⟨w, rfl⟩
  · simp only [hqrStep] at h
    split at h
    · simp only [Option.some.injEq] at h; subst h
      exact ⟨rfl, rfl, rfl, fun i hi => applyShift_unshifted st _ i hi⟩
    · cases h
  · simp only [hqrStep] at h
    split at h
    · split at h
      · simp only [Option.some.injEq] at h; subst h
        exact ⟨rfl, rfl, rfl, fun i hi => applyShift_unshifted st _ i hi⟩
      · simp only [Option.some.injEq] at h; subst h
        exact ⟨rfl, rfl, rfl, fun i _ => rfl⟩
    · cases h

/-- non-vacuity: the `iter == 10` shift of a 3 × 3 window with diagonal (1, 2, 3) -/
example : ∃ st', hqrStep (hqrInit 3 (fun i => ((i : ℝ) + 1))) .ex10 = some st' ∧ st'.exshift = 3 ∧ st'.diag 0 = -2 := by
  refine ⟨_, rfl, ?_, ?_⟩
  all_goals (first | (simp [applyShift, hqrInit]; done) | (simp [applyShift, hqrInit]; norm_num))

/-- the cancellation is a property of the transcribed text, not of every update of this shape: with
`exshift = x` in place of `exshift += x` (`applyShiftOverwrite`, not the model) a second shift moves the
window in the original frame by the first one -/
theorem hqr2_overwriting_exshift_is_visible :
    ∃ (st : HqrSt ℝ) (x : ℝ), 0 < st.n ∧
      (applyShiftOverwrite st x).diag 0 + (applyShiftOverwrite st x).exshift ≠ st.diag 0 + st.exshift := by
  refine ⟨applyShift (hqrInit 3 (fun _ => (1 : ℝ))) 1, 1, by simp [applyShift, hqrInit], ?_⟩
  simp [applyShiftOverwrite, applyShift, hqrInit]

/-- *Invariant of the state machine* (audit F1: the `defl1` transition unfolded plus the invariant above;
content through the record tie).
**one root: the reported eigenvalue is the deflated diagonal entry plus the sum of all exceptional
shifts applied so far**, its imaginary part is 0 and the window shrinks by one — whatever happened
before (`pre` is any event sequence).  This is the clause that `exshift = x` in place of
`exshift += x` breaks from the second exceptional shift on. -/
theorem hqr2_one_root_reports_entry_plus_shifts (N : Nat) (diag : Nat → ℝ) (pre : List (HqrEv ℝ))
    (st : HqrSt ℝ) (h : hqrRun (hqrInit N diag) pre = some st) (hn : 1 ≤ st.n) :
    ∃ st', hqrStep st .defl1 = some st' ∧ st'.n = st.n - 1 ∧
      st'.d (st.n - 1) = st.diag (st.n - 1) + st.shifts.sum ∧ st'.e (st.n - 1) = 0 := by
  have hs := hqr2_exshift_is_sum_of_shifts N diag pre st h
  refine ⟨{ st with n := st.n - 1, d := upd st.d (st.n - 1) (st.diag (st.n - 1) + st.exshift),
                    e := upd st.e (st.n - 1) Scalar.zero }, by simp [hqrStep, hn], rfl, ?_, ?_⟩
  · simp [upd, hs]
  · simp [upd]

/-- **two roots: the reported pair are the eigenvalues of the trailing 2 × 2 block with the sum of all
exceptional shifts added to its diagonal** (trace and determinant; `im = 0` for a real pair,
`+z, −z` for a conjugate pair) -/
theorem hqr2_two_roots_report_shifted_block (N : Nat) (diag : Nat → ℝ) (pre : List (HqrEv ℝ))
    (st : HqrSt ℝ) (b c : ℝ) (h : hqrRun (hqrInit N diag) pre = some st) (hn : 2 ≤ st.n) :
    ∃ st', hqrStep st (.defl2 b c) = some st' ∧ st'.n = st.n - 2 ∧
      (let σ := st.shifts.sum
       let a := st.diag (st.n - 2)
       let dd := st.diag (st.n - 1)
       let re1 := st'.d (st.n - 2); let re2 := st'.d (st.n - 1)
       let im1 := st'.e (st.n - 2); let im2 := st'.e (st.n - 1)
       re1 + re2 = (a + σ) + (dd + σ) ∧ im2 = -im1 ∧ 0 ≤ im1 ∧ (im1 ≠ 0 → re1 = re2) ∧
       re1 * re2 + im1 * im1 = (a + σ) * (dd + σ) - b * c) := by
  have hs := hqr2_exshift_is_sum_of_shifts N diag pre st h
  obtain ⟨k, hk⟩ : ∃ k, st.n = k + 2 := ⟨st.n - 2, by omega⟩
  have hstep : hqrStep st (.defl2 b c) = some
      { st with n := st.n - 1 - 1,
                d := upd (upd st.d (st.n - 1 - 1) (deflate2 (st.diag (st.n - 1 - 1)) b c (st.diag (st.n - 1)) st.exshift).d1)
                  (st.n - 1) (deflate2 (st.diag (st.n - 1 - 1)) b c (st.diag (st.n - 1)) st.exshift).d2,
                e := upd (upd st.e (st.n - 1 - 1) (deflate2 (st.diag (st.n - 1 - 1)) b c (st.diag (st.n - 1)) st.exshift).e1)
                  (st.n - 1) (deflate2 (st.diag (st.n - 1 - 1)) b c (st.diag (st.n - 1)) st.exshift).e2 } := by
    simp [hqrStep, hn]
  refine ⟨_, hstep, by simp only []; omega, ?_⟩
  have e1 : st.n - 1 = k + 1 := by omega
  have e2 : st.n - 2 = k := by omega
  have e3 : k + 1 - 1 = k := by omega
  simp only [e1, e2, e3, ← hs]
  rw [upd_ne _ _ _ _ (show k ≠ k + 1 by omega), upd_same, upd_same, upd_ne _ _ _ _ (show k ≠ k + 1 by omega),
    upd_same, upd_same]
  by_cases hq : 0 ≤ defQ (st.diag k) b c (st.diag (k + 1))
  · obtain ⟨r1, r2, r3, r4⟩ := deflate2_real (st.diag k) b c (st.diag (k + 1)) st.exshift hq
    refine ⟨r3, by rw [r1, r2]; simp, by rw [r1], fun hne => absurd r1 hne, by rw [r1, r4]; ring⟩
  · obtain ⟨r1, r2, r3, r4, r5⟩ := deflate2_complex (st.diag k) b c (st.diag (k + 1)) st.exshift (not_le.mp hq)
    exact ⟨r4, r3, le_of_lt r2, fun _ => r1, r5⟩

/-- *Frame property of the state machine* (audit F1: the transitions write `d`, `e` only at the indices they
deflate; content through the record tie, which compares the model's accumulated lists with the final ones).
**a reported eigenvalue is final**: no later event changes `d[i]`, `e[i]` outside the active window,
and the window never grows -/
theorem hqr2_reported_is_final (st st' : HqrSt ℝ) (evs : List (HqrEv ℝ)) (h : hqrRun st evs = some st') :
    st'.n ≤ st.n ∧ ∀ i, st.n ≤ i → st'.d i = st.d i ∧ st'.e i = st.e i :=
  hqr_stable_run evs st st' h

/-- **trace bookkeeping**: when every sweep preserves the trace of the active window (an orthogonal
similarity does) and the iteration has deflated everything (`n = 0`), the reported real parts add up to
the trace of the Hessenberg matrix the iteration started from — for any number and order of exceptional
shifts, one-root and two-root deflations -/
theorem hqr2_trace_bookkeeping (N : Nat) (diag : Nat → ℝ) (evs : List (HqrEv ℝ)) (st : HqrSt ℝ)
    (h : hqrRun (hqrInit N diag) evs = some st) (hsw : SweepsPreserveTrace (hqrInit N diag) evs)
    (hdone : st.n = 0) : winSum st.d N = winSum diag N := by
  have := hqr_total_run N evs (hqrInit N diag) st (le_refl N) h hsw
  unfold hqrTotal at this
  rw [hdone] at this
  simp only [hqrInit, ScalarReal.zero_eq] at this
  rw [tailSum_zero, tailSum_self] at this
  simp [winSum] at this ⊢
  linarith

/-- non-vacuity: a 3 × 3 run with an exceptional shift, a one-root and a two-root deflation -/
example : ∃ st, hqrRun (hqrInit 3 (fun _ => (1 : ℝ))) [.sweep (fun _ => 1), .ex10, .defl1, .defl2 0 0] = some st ∧
    st.n = 0 ∧ SweepsPreserveTrace (hqrInit 3 (fun _ => (1 : ℝ))) [.sweep (fun _ => 1), .ex10, .defl1, .defl2 0 0] := by
  refine ⟨_, rfl, rfl, ?_⟩
  simp [SweepsPreserveTrace, SweepOK, hqrInit]

/-! ## tql2: the implicit shift and its accumulation -/

/-- **the shift is uniform**: with `r = hypot(p, 1)` (`r > 0`, `r² = p² + 1`) and `e[l] ≠ 0`, the closed
formulas for `d[l]`, `d[l+1]` and the loop over `l+2 .. n-1` lower *every* entry `d[l .. n-1]` by the same
`h`, and nothing else changes.  (The loop bound `i < n` is what `i <= m` breaks: entries beyond a split
would keep their old values while `f` still accumulates `h`.) -/
theorem tql2_shift_uniform (n l : Nat) (d : Nat → ℝ) (el r : ℝ) (hl : l + 1 < n) (hel : el ≠ 0) (hr : 0 < r)
    (hrr : r * r = tqlP l d el * tqlP l d el + 1) :
    (∀ i, l ≤ i → i < n → (tqlShift n l d el r).1 i = d i - (tqlShift n l d el r).2) ∧
    (∀ i, (i < l ∨ n ≤ i) → (tqlShift n l d el r).1 i = d i) :=
  tqlShift_uniform n l d el r hl hel hr hrr

example : ∃ (d : Nat → ℝ) (el r : ℝ), el ≠ 0 ∧ 0 < r ∧ r * r = tqlP 0 d el * tqlP 0 d el + 1 :=
  ⟨fun _ => 0, 1, 1, by norm_num, by norm_num, by simp [tqlP]⟩

/-- **a shift of tql2 is invisible in the frame of the tridiagonal matrix**: with `r = hypot(p, 1)` and
`e[l] ≠ 0`, one pass of the do-loop up to `f = f + h` leaves `d[i] + f` unchanged for every `i` of the
active part `l .. n-1` (closed formulas for `l`, `l+1`, the loop for the rest, and the accumulation have to
agree: `i <= m` for `i < n`, seeded C06-b1, and `f = h`, mutant m18, break it) and touches nothing else -/
theorem tql2_shift_invisible (st st' : TqlSt ℝ) (el r : ℝ) (hel : el ≠ 0) (hr : 0 < r)
    (hrr : r * r = tqlP st.l st.d el * tqlP st.l st.d el + 1) (h : tqlStep st (.shift el r) = some st') :
    st'.l = st.l ∧ st'.n = st.n ∧ (∀ i, st.l ≤ i → i < st.n → st'.d i + st'.f = st.d i + st.f) ∧
    ∀ i, (i < st.l ∨ st.n ≤ i) → st'.d i = st.d i := by
  simp only [tqlStep] at h
  split at h
  · rename_i hl
    simp only [Option.some.injEq] at h; subst h
    obtain ⟨u1, u2⟩ := tqlShift_uniform st.n st.l st.d el r hl hel hr hrr
    refine ⟨rfl, rfl, fun i h1 h2 => ?_, fun i hi => u2 i hi⟩
    simp only []
    rw [u1 i h1 h2]; ring
  · cases h

/-- *Invariant of the state machine* (audit F1: `shifts` is a history variable extended with the `h` added to
`f`; content through the record tie). **`f` is the sum of all shifts so far** -/
theorem tql2_f_is_sum_of_shifts (n : Nat) (d : Nat → ℝ) (evs : List (TqlEv ℝ)) (st : TqlSt ℝ)
    (h : tqlRun (tqlInit n d) evs = some st) : st.f = st.shifts.sum :=
  tql_f_run evs _ st h (by simp [tqlInit])

/-- *Invariant of the state machine* (audit F1: the `fin` transition unfolded plus the invariant above).
**the reported eigenvalue is the working entry plus the sum of all shifts so far** -/
theorem tql2_reports_entry_plus_shifts (n : Nat) (d : Nat → ℝ) (pre : List (TqlEv ℝ)) (st : TqlSt ℝ)
    (h : tqlRun (tqlInit n d) pre = some st) (hl : st.l < st.n) :
    ∃ st', tqlStep st .fin = some st' ∧ st'.l = st.l + 1 ∧ st'.d st.l = st.d st.l + st.shifts.sum := by
  have hs := tql2_f_is_sum_of_shifts n d pre st h
  exact ⟨{ st with d := upd st.d st.l (st.d st.l + st.f), l := st.l + 1 }, by simp [tqlStep, hl], rfl, by simp [upd, hs]⟩

/-- *Frame property of the state machine* (audit F1). **a finished eigenvalue is final** -/
theorem tql2_reported_is_final (st st' : TqlSt ℝ) (evs : List (TqlEv ℝ)) (h : tqlRun st evs = some st') :
    st.l ≤ st'.l ∧ ∀ i, i < st.l → st'.d i = st.d i :=
  ⟨(tql_stable_run evs st st' h).1, (tql_stable_run evs st st' h).2.2.2⟩

/-- **trace bookkeeping**: when every value passed for `hypot(p, 1)` is `√(p² + 1)`, every `e[l]` used by a
shift is non-zero and every QL transformation preserves the sum of `d[l .. n-1]`, the eigenvalues
reported when the loop ends (`l = n`) add up to the trace of the tridiagonal matrix -/
theorem tql2_trace_bookkeeping (n : Nat) (d : Nat → ℝ) (evs : List (TqlEv ℝ)) (st : TqlSt ℝ)
    (h : tqlRun (tqlInit n d) evs = some st) (hok : TqlEvsOK (tqlInit n d) evs) (hdone : st.l = n) :
    winSum st.d n = winSum d n := by
  have hn : st.n = n := (tql_stable_run evs _ st h).2.1
  have := tql_total_run evs (tqlInit n d) st (Nat.zero_le _) h hok
  unfold tqlTotal at this
  rw [hdone, hn, tailSum_self] at this
  simp only [tqlInit, ScalarReal.zero_eq] at this
  rw [tailSum_zero] at this
  simp [winSum] at this ⊢
  linarith

/-- non-vacuity: a 2 × 2 run `d = (0, 0)`, `e[0] = 1`: one shift (`p = 0`, `r = 1`, `h = -1`), the QL
transformation, two reports -/
example : ∃ st, tqlRun (tqlInit 2 (fun _ => (0 : ℝ))) [.shift 1 1, .sweep (fun i => if i = 0 then 2 else 0), .fin, .fin] = some st ∧
    st.l = 2 := ⟨_, rfl, rfl⟩

/-! ## tql2: the final sort -/

/-- **sorted, a permutation, and the columns move with their eigenvalues**: there is one permutation `σ` of
`[0, n)` with `d'[j] = d[σ j]` and `V'(r, j) = V(r, σ j)` for all rows, and `d'` is ascending -/
theorem tql2_sort_sorted_perm (n : Nat) (d : Nat → ℝ) (V : FMat ℝ) :
    ∃ σ : Equiv.Perm ℕ, (∀ j, n ≤ j → σ j = j) ∧ (∀ j, j < n → σ j < n) ∧
      (∀ j, (sortEig n d V).1 j = d (σ j)) ∧ (∀ r j, (sortEig n d V).2 r j = V r (σ j)) ∧
      (∀ a b, a ≤ b → b < n → (sortEig n d V).1 a ≤ (sortEig n d V).1 b) := by
  obtain ⟨σ, f1, f2, f3, f4⟩ := sortEig_spec n d V
  exact ⟨σ, f1, perm_lt_of_fix σ n f1, f2, f3, f4⟩

/-- consequently the sort preserves eigenpairs: if column `j` of `V` is an eigenvector of `A` for `d[j]`
(entries of `A·V` computed with the model's product loop), the same holds after the sort -/
theorem tql2_sort_preserves_eigenpairs (n : Nat) (A : FMat ℝ) (d : Nat → ℝ) (V : FMat ℝ)
    (h : ∀ r j, j < n → multEntry n A V r j = V r j * d j) :
    ∀ r j, j < n → multEntry n A (sortEig n d V).2 r j = (sortEig n d V).2 r j * (sortEig n d V).1 j := by
  obtain ⟨σ, f1, f1', f2, f3, _⟩ := tql2_sort_sorted_perm n d V
  intro r j hj
  rw [f2 j, f3 r j, ← h r (σ j) (f1' j hj), multEntry_eq, multEntry_eq]
  apply Finset.sum_congr rfl
  intro k _
  rw [f3 k j]

end Bpp.C06
