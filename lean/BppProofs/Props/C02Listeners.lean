import BppProofs.Props.C02Complete
import BppProofs.Lemmas.ParamListListen
/-!
# C02 and parameters that carry listeners (audit round 1, finding F1)

`Parameter`'s copy constructor / `operator=` / `clone()` copy the vector of
`shared_ptr<ParameterListener>`: a cloned parameter fires the listener objects of its source.
The theorems of `Props/C02.lean` and `Props/C02Complete.lean` are about parameter objects *without
listeners* (the model's `Par` has none) — this file says so formally: the listener-aware routines
of `BppModel/ParamListListen.lean` coincide with the plain ones when no listener is involved
(`listeners_free_is_base`), independence of a copy is proved when the copied parameters carry no
listener (`copy_independent_with_listeners_partial`), and both the independence of copies and the
atomicity of the bulk setters are *false* with listeners (witnesses; known findings
`C02-copied-listeners`, `C02-listener-raise-half-way`).
-/
namespace Bpp.C02
open Bpp Bpp.ParamList

/-- **listeners_free_is_base**: without listeners on the parameters that are written, the
listener-aware `setParameterValue` / `setParametersValues` are the routines of `Props/C02.lean`, and
cloning parameters that carry no listener adds none. -/
theorem listeners_free_is_base (m : Mirrors) (h : Store) (l src : List ObjId) (n : String) (v : Rat) :
    ((∀ i, find? h l n = some i → targets m i = []) →
      setParameterValueL m h l n v = some ((setParameterValue h l n v).heap, (setParameterValue h l n v).err)) ∧
    setParametersValuesL [] h l src = some ((setParametersValues h l src).heap, (setParametersValues h l src).err) ∧
    (∀ base, (∀ i ∈ src, targets m i = []) → cloneMirrors m src base = []) :=
  ⟨setParameterValueL_plain m h l n v, setParametersValuesL_nil h l src, fun b nt => cloneMirrors_nil_of m src b nt⟩

/-- **copy_independent_with_listeners_partial**.  Full statement (false of the code, known finding
`C02-copied-listeners`): *after `L[j] := ParameterList(L[k])`, a write through `L[j]` never changes
what `L[k]` shows*.  Proved here when no parameter of `L[k]` carries a listener (every listener of
the table is attached to an allocated object): then the copy is the copy of `copy_independent`, the
write is the plain `setParameterValue`, and the source shows what it showed.  What is missing: a
copied parameter that carries a listener fires it (`copy_independent_with_listeners_witness`). -/
theorem copy_independent_with_listeners_partial (L : LState) (inv : Inv L.s) (k j : Nat) (hkj : k ≠ j)
    (valid : ∀ p ∈ L.mirrors, p.1 < L.s.heap.next)
    (nolis : ∀ i ∈ L.s.lists k, targets L.mirrors i = []) (n : String) (v : Rat) :
    ∃ L1 a1 L2 a2, lstep L (.copy k j) = some (L1, a1) ∧ lstep L1 (.setValue j n v) = some (L2, a2) ∧
      L1.mirrors = L.mirrors ∧ obs L2.s k = obs L.s k := by
  have hm : cloneMirrors L.mirrors (L.s.lists k) L.s.heap.next = [] := cloneMirrors_nil_of _ _ _ nolis
  obtain ⟨c1, c2, _, _, _, _⟩ := copy_independent L.s inv k j
  have hs1 : (step L.s (.copy k j)).1 =
      (L.s.withHeap (cloneAll L.s.heap (L.s.lists k)).1).setList j (cloneAll L.s.heap (L.s.lists k)).2 := rfl
  -- the objects of the copy are fresh: no listener of the table is attached to them
  have fresh : ∀ i, find? (step L.s (.copy k j)).1.heap ((step L.s (.copy k j)).1.lists j) n = some i →
      targets L.mirrors i = [] := by
    intro i hi
    have hmem := (find?_some hi).1
    have hge := c2 i hmem
    unfold targets
    rw [List.map_eq_nil_iff, List.filter_eq_nil_iff]
    intro p hp c
    have h1 := valid p hp
    have h2 : p.1 = i := by simpa using c
    rw [h2] at h1
    exact Nat.lt_irrefl _ (Nat.lt_of_lt_of_le h1 hge)
  let L1 : LState := { s := (step L.s (.copy k j)).1, mirrors := L.mirrors }
  have e1 : lstep L (.copy k j) = some (L1, ⟨.base .ok, none⟩) := by
    simp only [lstep, hm, List.append_nil]; rfl
  have e2 : lstep L1 (.setValue j n v) =
      some ({ L1 with s := (step L1.s (.setValue j n v)).1 },
            ⟨.base (.ofErr (setParameterValue L1.s.heap (L1.s.lists j) n v).err), none⟩) := by
    simp only [lstep]
    rw [setParameterValueL_plain _ _ _ n v fresh]
    rfl
  refine ⟨L1, _, _, _, e1, e2, rfl, ?_⟩
  have w := (copy_then_write L.s inv k j hkj (.setValue j n v)).1 (by simp [Op.writes]) (by simp [Op.dest])
  have u := obs_unchanged L.s inv (.copy k j) k (by simp [Op.writes]) (by simp [Op.dest]; exact fun c => hkj c.symm)
  exact w.trans u

/-- non-vacuity: a listener somewhere else in the machine, none on the copied list -/
example :
    let s := run State.init [.add 0 ⟨"a", 1, none⟩, .add 1 ⟨"x", 1, none⟩, .add 1 ⟨"y", 1, none⟩]
    (∀ p ∈ ([(1, 2)] : Mirrors), p.1 < s.heap.next) ∧ (∀ i ∈ s.lists 0, targets [(1, 2)] i = []) := by decide

/-- known finding `C02-copied-listeners`: `[a, b]` with a listener on `a` whose target is `b`; a copy
is taken; writing `a` *of the copy* changes `b` *of the source* (and not `b` of the copy) -/
theorem copy_independent_with_listeners_witness :
    let s := run State.init [.add 0 ⟨"a", 1, none⟩, .add 0 ⟨"b", 1, none⟩]
    let L : LState := { s := s, mirrors := [(0, 1)] }
    ∃ L1 a1 L2 a2, lstep L (.copy 0 1) = some (L1, a1) ∧ lstep L1 (.setValue 1 "a" 5) = some (L2, a2) ∧
      a2.out = .base .ok ∧ (obs L2.s 0).map (·.value) = [1, 5] ∧ (obs L2.s 1).map (·.value) = [5, 1] := by
  refine ⟨_, _, _, _, rfl, rfl, ?_⟩
  decide

/-- known finding `C02-listener-raise-half-way`: `[a, b, c]`, a listener on `b` whose target `c`
accepts `[-2, 2]` only; `setParametersValues([a=5, b=100])` passes the first pass (neither `a` nor `b`
is constrained), writes `a` and `b`, and then the listener's `c.setValue(100)` raises: the call raised
and changed two values -/
theorem bulk_atomic_with_listeners_witness :
    let s := run State.init [.add 0 ⟨"a", 1, none⟩, .add 0 ⟨"b", 1, none⟩,
                              .add 0 ⟨"c", 1, some ⟨.fin (-2), .fin 2, true, true⟩⟩,
                              .add 1 ⟨"a", 5, none⟩, .add 1 ⟨"b", 100, none⟩]
    ∃ h, setParametersValuesL [(1, 2)] s.heap (s.lists 0) (s.lists 1) = some (h, some .constraint) ∧
      (s.lists 0).map (fun i => (h.get i).value) = [5, 100, 1] ∧
      (setParametersValues s.heap (s.lists 0) (s.lists 1)).err = none := by
  refine ⟨_, rfl, ?_⟩
  decide

end Bpp.C02
