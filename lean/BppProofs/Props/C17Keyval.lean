import BppProofs.Lemmas.Keyval
/-!
# C17 — key-value procedures: render → parse gives back name and map; substitution is exact

Model: `BppModel/Text/Keyval.lean` (KeyvalTools::singleKeyval / multipleKeyvals / changeKeyvals /
parseProcedure with the non-solid StringTokenizer / NestedStringTokenizer).
`render name [(k1,v1),…] = name(k1=v1,…)`.  Side conditions (all decidable, `Keyval.NameOk`,
`Keyval.PairOk`): the name has no parenthesis and no leading white space; keys have none of
`, = ( )` and no surrounding white space; values have no surrounding white space and every comma of
a value is inside balanced parentheses — any nesting depth, which contains the property's "one
nesting level"; a pair is not (empty key, empty value).  Any number of arguments.
-/
namespace Bpp.C17
open Bpp.Text Bpp.Text.Keyval

/-- **parse ∘ render = id** on procedures: the name and the argument map come back -/
theorem parse_render (name : Str) (kvs : List (Str × Str))
    (hn : NameOk name = true) (hk : kvs.all PairOk = true) :
    parseProcedure (render name kvs) = some (name, mapOfList kvs) := by
  have hm : mergeEq (kvs.map tokOf) [] = some (kvs.map tokOf) := by
    rw [mergeEq_plain]; · simp
    intro t ht
    obtain ⟨kv, hkv, rfl⟩ := List.mem_map.mp ht
    exact tok_ne_eq kv ((List.all_eq_true.mp hk) kv hkv)
  unfold parseProcedure
  rw [splitProcedure_render name kvs hn]
  simp only [multipleKeyvals, tokensOf, if_true]
  rw [nested_renderArgs kvs hk]
  simp only [hm]
  rw [foldlM_tokens kvs hk]
  rfl

/-- a procedure without parentheses is its own name, with no arguments -/
theorem parse_bare_name (name : Str) (h : name.all (fun c => c != '(' && c != ')') = true) :
    parseProcedure name = some (name, []) := by
  have hh : ∀ a ∈ name, a ≠ '(' ∧ a ≠ ')' := by
    intro a ha
    have := (List.all_eq_true.mp h) a ha
    simpa using this
  have h1 := findChar_none '(' name (fun a ha => (hh a ha).1)
  have h2 := findLastChar_none ')' name (fun a ha => (hh a ha).2)
  simp [parseProcedure, splitProcedure, h1, h2]

/-- the map that comes back answers lookups like the argument list (last binding wins) -/
theorem mapFind_insert (k k' v : Str) (m : Map) :
    mapFind k' (mapInsert k v m) = if k' = k then some v else mapFind k' m := by
  induction m with
  | nil => by_cases h : k' = k <;> simp [mapInsert, mapFind, h]
  | cons a m ih =>
    rcases a with ⟨ka, va⟩
    simp only [mapInsert]
    by_cases h1 : k = ka
    · subst h1
      by_cases h : k' = k <;> simp [mapFind, h]
    · have h1' : (k == ka) = false := by simpa using h1
      simp only [h1', Bool.false_eq_true, if_false]
      by_cases h2 : strLt k ka = true
      · by_cases h : k' = k <;> simp [h2, mapFind, h]
      · simp only [h2, Bool.false_eq_true, if_false, mapFind, ih]
        by_cases h : k' = k
        · subst h
          have : (k' == ka) = false := by simpa using h1
          simp [this]
        · simp [h]

/-! ## substitution -/

/-- **substituting arguments changes exactly the named ones**: the result is the rendering of the
same name with the same keys in the same order, the value replaced where (and only where) the key
is in `newkv`; the new values are arbitrary strings -/
theorem changeKeyvals_exact (name : Str) (kvs : List (Str × Str)) (newkv : Map)
    (hn : NameOk name = true) (hk : kvs.all PairOk = true) :
    changeKeyvals (render name kvs) newkv [','] true = some (render name (substArgs newkv kvs)) := by
  have hm : mergeEq (kvs.map tokOf) [] = some (kvs.map tokOf) := by
    rw [mergeEq_plain]; · simp
    intro t ht
    obtain ⟨kv, hkv, rfl⟩ := List.mem_map.mp ht
    exact tok_ne_eq kv ((List.all_eq_true.mp hk) kv hkv)
  unfold changeKeyvals
  rw [splitProcedure_render name kvs hn]
  simp only [tokensOf, if_true]
  rw [nested_renderArgs kvs hk]
  simp only [hm]
  cases kvs with
  | nil => simp [render, renderArgs, substArgs]
  | cons a rest =>
    simp only [List.all_cons, Bool.and_eq_true] at hk
    obtain ⟨h1, h2, _⟩ := singleKeyval_tok a hk.1
    simp only [List.map_cons, List.foldlM_cons, chgStep, h1, h2]
    cases hf : mapFind a.1 newkv with
    | some nv =>
      simp only [if_true, Option.bind_eq_bind, Option.bind_some]
      rw [foldlM_change newkv rest hk.2]
      simp [render, substArgs, hf, renderArgs_cons, tokOf]
    | none =>
      simp only [if_true, Option.bind_eq_bind, Option.bind_some]
      rw [foldlM_change newkv rest hk.2]
      simp [render, substArgs, hf, renderArgs_cons, tokOf]

/-- reading back after a substitution: the same name, and the map of the substituted list
(when the substituted pairs still satisfy the side conditions) -/
theorem parse_after_change (name : Str) (kvs : List (Str × Str)) (newkv : Map)
    (hn : NameOk name = true) (hk : kvs.all PairOk = true)
    (hk' : (substArgs newkv kvs).all PairOk = true) :
    (changeKeyvals (render name kvs) newkv [','] true).bind parseProcedure
      = some (name, mapOfList (substArgs newkv kvs)) := by
  rw [changeKeyvals_exact name kvs newkv hn hk]
  exact parse_render name _ hn hk'

/-! ## the nested tokenizer -/

/-- **nested tokenising never splits inside balanced brackets**: whenever
`NestedStringTokenizer(s, "(", ")", delimiters)` (non-solid) returns, every token is non-empty, has
as many `(` as `)`, and every delimiter character it contains is inside brackets — a cut is made only
where the bracket count is 0.  For every input and every delimiter set without brackets. -/
theorem nested_balanced (isD : Char → Bool) (hbr : ∀ c, isD c = true → delta c = 0) (s : Str)
    (toks : List Str) (h : nested isD false 0 s = some toks) :
    ∀ t ∈ toks, depthSum t = 0 ∧ delimsInside isD 0 t = true ∧ t ≠ [] :=
  (nested_spec isD hbr s).1 0 toks h

/-- non-vacuity: a nested value with commas and an `=` inside satisfies the side conditions -/
example : NameOk "Gamma".toList = true ∧
    PairOk ("alpha".toList, "Beta(a=1,b=g(x=2,y=3))".toList) = true ∧ PairOk ([], "z".toList) = true := by
  decide

end Bpp.C17
