import BppProofs.Lemmas.ToIntU
/-!
# C16 — TextTools::toInt: no signed overflow, the scaling loop is bounded

Model: `BppModel/Text/ToIntU.lean` (UB-aware: the three loops of `TextTools::toInt` compute in a
`long long`; every `long long` operation goes through `llRes`, whose result outside the range is
`.error .ub`; the scaling loop runs on `scaleFuel = 12` rounds of fuel and is `.error .hang` when
it needs more; `.error .bpp` = the library's exception).  `safe x = true` means: `x` returned or
raised the library's exception.  `Number.toInt` is C17's transcription of the same function on
naturals, where neither an overflow nor a non-terminating loop can be expressed.
-/
namespace Bpp.C16
open Bpp.Text Bpp.Text.U

/-! ## refinement -/

/-- **the UB-aware `toInt` is the natural-number `toInt`, on every text and for EVERY exponent
mark** (no hypothesis on `sci`: the recogniser tests `c == sci` before `isDigit c`, as the mantissa
loop does, and refuses a second mark, so even a digit used as the mark is handled consistently):
with an overflow check on every `long long` operation and 12 rounds of fuel for the scaling loop the
outcome is exactly `Number.toInt`'s — the value, or the library's exception; never `.ub`, never
`.hang`.  On an accepted text every character the mantissa loop reads is a digit
(`s[i] - '0'` is in `[0, 9]`, the mantissa stays in `[0, 2^31 + 1]`), what follows the mark and the
optional `+` is made of digits (the exponent stays in `[0, 11]`), and the scaling loop runs at most
11 times on a mantissa in `[0, 2^31 + 1]`. -/
theorem toIntU_refines (sci : Char) (s : Str) : toIntU sci s = lift (Number.toInt sci s) :=
  toIntU_refines_lem sci s

example : toIntU 'e' "21e+2".toList = .ok 2100 := by decide +kernel
example : toIntU 'e' "-2147483648".toList = .ok (-2147483648) := by decide +kernel
example : toIntU 'e' "2147483648".toList = .error .bpp := by decide +kernel
example : toIntU 'e' "2147483647".toList = .ok 2147483647 := by decide +kernel
/-- 214748364 * 10 = 2147483640 still fits; 214748365 * 10 does not -/
example : toIntU 'E' "214748364E1".toList = .ok 2147483640 ∧
    toIntU 'E' "214748365E1".toList = .error .bpp := by decide +kernel
example : toIntU 'E' "214748364E+0".toList = .ok 214748364 := by decide +kernel
/-- leading zeros of the exponent do not saturate it: 10^9 fits an `int` -/
example : toIntU 'e' "1e0000000000000000000009".toList = .ok 1000000000 := by decide +kernel
example : toIntU 'e' "1e10".toList = .error .bpp := by decide +kernel
example : toIntU 'e' "-0e5".toList = .ok 0 := by decide +kernel
/-- not accepted: empty, sign only, negative exponent, two marks, a blank -/
example : toIntU 'e' [] = .error .bpp ∧ toIntU 'e' "-".toList = .error .bpp ∧
    toIntU 'e' "1e-2".toList = .error .bpp ∧ toIntU 'e' "1e2e3".toList = .error .bpp ∧
    toIntU 'e' " 12".toList = .error .bpp := by decide +kernel
/-- a digit as the exponent mark: "152" is 1 * 10^2 -/
example : toIntU '5' "152".toList = .ok 100 ∧ Number.toInt '5' "152".toList = some 100 := by
  decide +kernel

/-- **`toInt` is safe on every text**: it returns an `int` or raises the library's exception — no
signed overflow in the three loops, and the scaling loop ends within its fuel -/
theorem toIntU_safe (sci : Char) (s : Str) : safe (toIntU sci s) = true := by
  rw [toIntU_refines]; exact safe_lift _

/-- the outcome is a value in the range of `int` or the library's exception -/
theorem toIntU_range (sci : Char) (s : Str) (v : Int) (h : toIntU sci s = .ok v) :
    -2147483648 ≤ v ∧ v ≤ 2147483647 := by
  rw [toIntU_refines] at h
  cases hv : Number.toInt sci s with
  | none => rw [hv] at h; cases h
  | some w =>
    rw [hv] at h
    simp only [lift, Except.ok.injEq] at h
    subst h
    exact toInt_range_lem sci s w hv

example : toIntU 'e' "-2147483649".toList = .error .bpp := by decide +kernel

/-! ## the bounds of the exponent and of the scaling loop -/

/-- **the exponent loop saturates at 11**: on a digit string (of any length) it returns a value in
`[0, 11]` — it does not overflow, because the exponent is reset to 11 as soon as it exceeds 10 and
`11 * 10 + 9` fits easily -/
theorem expU_sat_bound (ds : Str) (hds : Number.AllDigits ds) :
    ∃ e, expU true 0 ds = .ok e ∧ 0 ≤ e ∧ e ≤ 11 :=
  expU_sat_bound_lem ds hds

example : expU true 0 "99999999999999999999".toList = .ok 11 := by decide +kernel
example : expU true 0 "0000000000000000000010".toList = .ok 10 := by decide +kernel
example : expU false 0 "99999999999999999999".toList = .error .ub := by decide +kernel

/-- **the scaling loop with such an exponent ends within the fuel of the entry point**: for an
exponent in `[0, 11]` and a mantissa in `[0, 2^31 + 1]` the 12 rounds suffice, `m * 10` never
overflows, and the result is again in `[0, 2^31 + 1]` -/
theorem scaleU_rounds (e m : Int) (he0 : 0 ≤ e) (he : e ≤ 11) (hm0 : 0 ≤ m) (hm : m ≤ toIntLimI + 1) :
    ∃ v, scaleU scaleFuel e m = .ok v ∧ 0 ≤ v ∧ v ≤ toIntLimI + 1 :=
  scaleU_rounds_lem e m he0 he hm0 hm

example : scaleU scaleFuel 11 2147483649 = .ok 2147483649 := by decide +kernel
example : scaleU scaleFuel 11 1 = .ok 2147483649 := by decide +kernel
example : scaleU scaleFuel 13 1 = .error .hang := by decide +kernel
/-- a zero mantissa ends the loop at once, whatever the exponent -/
example : scaleU 0 9223372036854775807 0 = .ok 0 := by decide +kernel

/-- **on an accepted text the scaling loop runs at most 11 times**: the mantissa loop returns a
mantissa in `[0, 2^31 + 1]` (no overflow: every character it read is a digit); either the text ends
there, or what follows the mark and the optional `+` is made of digits, the exponent loop returns an
exponent in `[0, 11]`, and that is below the fuel (12) the entry point gives to the scaling loop -/
theorem toIntU_scale_rounds (sci : Char) (s : Str) (h : Number.isDecimalInteger sci s = true) :
    ∃ m rest, mantU sci 0 (if (s.head? == some '-') then s.drop 1 else s) = .ok (m, rest) ∧
      0 ≤ m ∧ m ≤ toIntLimI + 1 ∧
      (rest = [] ∨ ∃ c r e, rest = c :: r ∧ Number.AllDigits (Number.skipPlus r) ∧
        expU true 0 (Number.skipPlus r) = .ok e ∧ 0 ≤ e ∧ e ≤ 11 ∧ e < (scaleFuel : Int)) :=
  toIntU_scale_rounds_lem sci s h

example : mantU 'e' 0 "99999999999999999999e+5".toList = .ok (2147483649, "e+5".toList) := by
  decide +kernel

/-! ## the model sees the saturation: the code without `if (e > 10) e = 11;` -/

/-- **without the saturation the exponent loop overflows**: twenty 9s exceed `LLONG_MAX`
(9223372036854775807), so `e * 10 + 9` is a signed overflow -/
theorem toIntNoSat_overflows : toIntNoSat 'e' "1e99999999999999999999".toList = .error .ub := by
  decide +kernel

/-- **without the saturation the scaling loop runs as many rounds as the exponent says**: 13
exceeds the fuel of the entry point (the mantissa saturates after ten rounds, the loop goes on) -/
theorem toIntNoSat_spins : toIntNoSat 'e' "1e13".toList = .error .hang := by decide +kernel

/-- … an exponent that still fits a `long long` asks for 10^18 - 1 rounds -/
example : toIntNoSat 'e' "1e999999999999999999".toList = .error .hang := by decide +kernel
/-- … and even a zero mantissa does not help the unsaturated exponent loop -/
example : toIntNoSat 'e' "0e99999999999999999999".toList = .error .ub := by decide +kernel

/-- **the code, on the same texts**: the library's exception (the value does not fit an `int`),
and 0 for a zero mantissa -/
theorem toIntU_saturates :
    toIntU 'e' "1e99999999999999999999".toList = .error .bpp ∧
    toIntU 'e' "1e13".toList = .error .bpp ∧
    toIntU 'e' "0e99999999999999999999".toList = .ok 0 := by decide +kernel

end Bpp.C16
