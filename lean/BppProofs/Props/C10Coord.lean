import BppProofs.Lemmas.OptimCoord
/-!
# C10, part 8 — the coordinate-wise optimisers in full

`SimpleMultiDimensions` (Brent's method along each coordinate in turn, with outward bracketing from
`[v - t, v + t]`) and `SimpleNewtonMultiDimensions` (Newton along each coordinate in turn), model in
`BppModel/OptimMulti.lean`, on the objective of the harness: any objective `obj : List ℝ → ℝ`, any
derivatives, any dimension, any subset of the function's parameters in any order, any constraints
(interval or none), the three constraint policies, any tolerance / cap / number of steps.  Over `ℝ`.

Hypotheses on the list given to `init` (what `ParameterList` and the harness guarantee): precision 0
and feasible values (`Good`), distinct names that are parameters of the function.
-/
namespace Bpp.C10
open Bpp Bpp.Optim

/-- **simple_multi_descent** (with `reported_value_consistent` and `state_at_report`).  After `init`
and `optimize`:
* the value returned is not above the objective at the starting point (the function's point with the
  values of `init`'s list written into it) — every coordinate search ends no higher than it began
  (`brent_descent`: Brent never loses its initial guess), and what it finds is copied back;
* it is the objective at the point the function has been left at, that point holds the values the
  optimiser reports, and it is the optimiser's current value. -/
theorem simple_multi_descent (obj : List ℝ → ℝ) (D : Deriv ℝ) (cap : Option Nat) (fuel fuel' : Nat)
    (s s1 s2 : St (Fn ℝ) (Simple ℝ) ℝ) (params : PList ℝ) (v : ℝ)
    (hgood : Good params) (hnd : (names params).Nodup) (hlt : ∀ n ∈ names params, n < s.fn.point.length)
    (hinit : (simpleAlgo (Fn.iface obj D cap) fuel).init s params = .ok s1)
    (hopt : (simpleAlgo (Fn.iface obj D cap) fuel).optimize fuel' s1 = .ok (s2, v)) :
    Spec.descent v (obj (matchPoint s.fn.point params)) = true ∧
    Spec.consistent obj v s2.fn.point = true ∧
    Spec.stateAt s2.fn.point (names s2.core.params) (values s2.core.params) = true ∧
    s2.core.cur = v := by
  have hi := multi_init_spec obj D cap (simpleAlgo (Fn.iface obj D cap) fuel) rfl rfl s s1 params hgood ⟨hnd, hlt⟩
    (by
      intro s0 sa h
      change simpleDoInit (Fn.iface obj D cap) s0 params = .ok sa at h
      unfold simpleDoInit at h
      simp only [] at h
      split at h
      · rename_i hz
        simp only [Except.ok.injEq] at h
        subst h
        exact ⟨rfl, Or.inl ⟨by simpa using hz, rfl⟩⟩
      · split at h
        · cases h
        · rename_i fn1 hsp
          simp only [Except.ok.injEq] at h
          subst h
          exact ⟨rfl, Or.inr hsp⟩) hinit
  obtain ⟨h2, hcur⟩ := multi_optimize_spec obj (simpleAlgo (Fn.iface obj D cap) fuel) rfl _ _ _
    (by
      intro u u' w hu h
      change simpleDoStep (Fn.iface obj D cap) fuel u = .ok (u', w) at h
      unfold simpleDoStep at h
      split at h
      · cases h
      · rename_i ua fa hc
        simp only [Except.ok.injEq, Prod.mk.injEq] at h
        obtain ⟨rfl, rfl⟩ := h
        obtain ⟨a, b, c, -, -⟩ := simpleCoords_spec obj D cap fuel _ _ ⟨hnd, hlt⟩ _ u ua _ fa hu rfl hc
        exact ⟨⟨a.good, a.names, a.sync, a.len⟩, b, c⟩) fuel' s1 s2 v hi hopt
  refine ⟨?_, ?_, ?_, hcur⟩
  · simp only [Spec.descent, ScalarReal.leb_iff]; rw [← hcur]; exact h2.below
  · simp only [Spec.consistent, ScalarReal.eqb_iff]; rw [← hcur]; exact h2.cur
  · exact h2.coord.sync.stateAt

/-- **simple_newton_descent** (with `reported_value_consistent` and `state_at_report`): the same for
Newton along each coordinate in turn (`newton1d_descent` for each coordinate search). -/
theorem simple_newton_descent (obj : List ℝ → ℝ) (D : Deriv ℝ) (cap : Option Nat) (fuel fuel' : Nat)
    (s s1 s2 : St (Fn ℝ) (SNewton ℝ) ℝ) (params : PList ℝ) (v : ℝ)
    (hgood : Good params) (hnd : (names params).Nodup) (hlt : ∀ n ∈ names params, n < s.fn.point.length)
    (hinit : (snewtonAlgo (Fn.iface obj D cap) fuel).init s params = .ok s1)
    (hopt : (snewtonAlgo (Fn.iface obj D cap) fuel).optimize fuel' s1 = .ok (s2, v)) :
    Spec.descent v (obj (matchPoint s.fn.point params)) = true ∧
    Spec.consistent obj v s2.fn.point = true ∧
    Spec.stateAt s2.fn.point (names s2.core.params) (values s2.core.params) = true ∧
    s2.core.cur = v := by
  have hi := multi_init_spec obj D cap (snewtonAlgo (Fn.iface obj D cap) fuel) rfl rfl s s1 params hgood ⟨hnd, hlt⟩
    (by
      intro s0 sa h
      change snewtonDoInit (Fn.iface obj D cap) s0 params = .ok sa at h
      unfold snewtonDoInit at h
      simp only [] at h
      split at h
      · rename_i hz
        simp only [Except.ok.injEq] at h
        subst h
        exact ⟨rfl, Or.inl ⟨by simpa using hz, rfl⟩⟩
      · split at h
        · cases h
        · rename_i fn1 hsp
          simp only [Except.ok.injEq] at h
          subst h
          exact ⟨rfl, Or.inr hsp⟩) hinit
  obtain ⟨h2, hcur⟩ := multi_optimize_spec obj (snewtonAlgo (Fn.iface obj D cap) fuel) rfl _ _ _
    (by
      intro u u' w hu h
      change snewtonDoStep (Fn.iface obj D cap) fuel u = .ok (u', w) at h
      unfold snewtonDoStep at h
      split at h
      · cases h
      · rename_i ua fa hc
        simp only [Except.ok.injEq, Prod.mk.injEq] at h
        obtain ⟨rfl, rfl⟩ := h
        obtain ⟨a, b, c, -, -⟩ := snewtonCoords_spec obj D cap fuel _ _ ⟨hnd, hlt⟩ _ u ua _ fa hu rfl hc
        exact ⟨⟨a.good, a.names, a.sync, a.len⟩, b, c⟩) fuel' s1 s2 v hi hopt
  refine ⟨?_, ?_, ?_, hcur⟩
  · simp only [Spec.descent, ScalarReal.leb_iff]; rw [← hcur]; exact h2.below
  · simp only [Spec.consistent, ScalarReal.eqb_iff]; rw [← hcur]; exact h2.cur
  · exact h2.coord.sync.stateAt

/-- non-vacuity: a list as the harness builds them (an interval constraint on the first parameter,
none on the second) satisfies the hypotheses -/
example : let c : Interval ℝ := ⟨.fin 0, .fin 10, true, true, 0⟩
    let params : PList ℝ := [⟨0, ⟨4, 0, some c, false⟩⟩, ⟨1, ⟨-2, 0, none, false⟩⟩]
    Good params ∧ (names params).Nodup ∧ ∀ n ∈ names params, n < ([4, -2] : List ℝ).length := by
  intro c params
  refine ⟨?_, by simp [params, names], by simp [params, names]⟩
  intro q hq
  simp only [params, List.mem_cons, List.not_mem_nil, or_false] at hq
  rcases hq with rfl | rfl
  · refine ⟨rfl, ?_⟩
    simp [Param.invOk, Param.accepts, c, Interval.isCorrect, Interval.isCorrectB, Bound.geb, Bound.leb]; norm_num
  · exact ⟨rfl, rfl⟩

end Bpp.C10
