import BppProofs.Lemmas.RangeObj
/-!
# C20 — copies are deep and independent of their source   (ownership model)

Theorems about `BppModel/RangeObj.lean`: a heap of cells and objects holding vectors of owned
pointers.  What is proved: every member function is local to its object (it overwrites / deletes
only cells the object owns and allocates fresh ones); the copy constructor and `operator=`
allocate a fresh cell per element, so source and copy share nothing; hence, along **every history**
of member-function calls, copies and assignments, no call on one object changes what another
object shows (`copy_independent`).  The values written by the in-place loops are parameters of the
skeleton (they are the subject of `Props/C20.lean`).
-/
namespace Bpp.C20Obj
open Bpp Bpp.RangeObj
variable {α : Type}

/-- **local_preserves**: a step local to `k` keeps the separation and leaves what every other
object shows unchanged -/
theorem local_preserves (w w' : World α) (k : Nat) (hs : Sep w) (h : LocalStep w w' k) :
    Sep w' ∧ ∀ i, i ≠ k → view w' i = view w i := by
  have hfr : ∀ i, i ≠ k → ∀ a ∈ w.regs i, w'.heap a = w.heap a := by
    intro i hi a ha
    exact h.frame a ((hs i).2.1 a ha).1 ((hs i).2.2 k (Ne.symm hi) a ha)
  constructor
  · intro i
    by_cases hik : i = k
    · subst hik
      refine ⟨h.nodup, fun a ha => (h.owned a ha).2, ?_⟩
      intro j hj a ha hmem
      rw [h.others j hj] at hmem
      rcases (h.owned a ha).1 with e | e
      · exact (hs i).2.2 j hj a e hmem
      · have := ((hs j).2.1 a hmem).1; omega
    · rw [h.others i hik]
      refine ⟨(hs i).1, ?_, ?_⟩
      · intro a ha
        have := (hs i).2.1 a ha
        rw [hfr i hik a ha]
        exact ⟨by have := h.grow; omega, this.2⟩
      · intro j hj a ha hmem
        by_cases hjk : j = k
        · subst hjk
          rcases (h.owned a hmem).1 with e | e
          · exact (hs i).2.2 j hj a ha e
          · have := ((hs i).2.1 a ha).1; omega
        · rw [h.others j hjk] at hmem
          exact (hs i).2.2 j hj a ha hmem
  · intro i hi
    simp only [view]
    rw [h.others i hi]
    exact List.map_congr_left (fun a ha => hfr i hi a ha)

/-- the in-place loops (slice / expand / delete-and-erase / `clear_`) are local -/
theorem inPlace_local (w : World α) (k : Nat) (out : List (Option (Range α))) (hs : Sep w)
    (hlen : out.length = (w.regs k).length) : LocalStep w (inPlace w k out) k := by
  have hkeys : ((w.regs k).zip out).map Prod.fst = w.regs k := by
    rw [List.map_fst_zip]; omega
  have hnd : (((w.regs k).zip out).map Prod.fst).Nodup := by rw [hkeys]; exact (hs k).1
  refine ⟨?_, ?_, Nat.le_refl _, ?_, ?_⟩
  · intro i hi; simp [inPlace, hi]
  · intro a _ hna
    have : ((w.regs k).zip out).find? (fun p => p.1 == a) = none := by
      rw [List.find?_eq_none]
      intro p hp
      have : p.1 ∈ w.regs k := (List.of_mem_zip hp).1
      have hne : p.1 ≠ a := fun e => hna (e ▸ this)
      simpa using hne
    simp only [inPlace, this]
  · intro a ha
    simp only [inPlace, if_true, List.mem_filterMap, Option.map_eq_some_iff] at ha
    obtain ⟨p, hp, y, hy, e⟩ := ha
    have hmem : p.1 ∈ w.regs k := (List.of_mem_zip hp).1
    subst e
    refine ⟨Or.inl hmem, ((hs k).2.1 _ hmem).1, ?_⟩
    have := find_of_nodup _ hnd p hp
    simp only [inPlace, this, hy, Option.isSome_some]
  · have : (inPlace w k out).regs k = ((w.regs k).zip out).filterMap (fun p => p.2.map (fun _ => p.1)) := by
      simp [inPlace]
    rw [this]
    exact (keep_sublist _).nodup hnd

/-- `push_back(clone)` is local -/
theorem allocs_local (w : World α) (k : Nat) (xs : List (Range α)) (hs : Sep w) :
    LocalStep w (allocs w k xs) k := by
  refine ⟨?_, ?_, by simp [allocs], ?_, ?_⟩
  · intro i hi; simp [allocs, hi]
  · intro a ha _
    have : ¬ (w.next ≤ a ∧ a < w.next + xs.length) := by omega
    simp only [allocs, this, if_false]
  · intro a ha
    simp only [allocs, if_true, List.mem_append, List.mem_range'_1] at ha
    rcases ha with e | e
    · have := (hs k).2.1 a e
      refine ⟨Or.inl e, by simp only [allocs]; omega, ?_⟩
      have hn : ¬ (w.next ≤ a ∧ a < w.next + xs.length) := by omega
      simp only [allocs, hn, if_false]; exact this.2
    · refine ⟨Or.inr e.1, by simp only [allocs]; omega, ?_⟩
      have hlt : a - w.next < xs.length := by omega
      simp only [allocs, e, and_self, if_true, List.getElem?_eq_getElem hlt, Option.map_some, Option.isSome_some]
  · simp only [allocs, if_true]
    rw [List.nodup_append]
    refine ⟨(hs k).1, List.nodup_range' .., ?_⟩
    intro a ha b hb
    have := ((hs k).2.1 a ha).1
    simp only [List.mem_range'_1] at hb
    omega

/-- `std::sort` on the pointer vector is local and does not touch the heap -/
theorem permute_local (w : World α) (k : Nat) (v' : List Nat) (hs : Sep w) (hp : v'.Perm (w.regs k)) :
    LocalStep w (permute w k v') k ∧ (permute w k v').heap = w.heap := by
  refine ⟨⟨?_, fun _ _ _ => rfl, Nat.le_refl _, ?_, ?_⟩, rfl⟩
  · intro i hi; simp [permute, hi]
  · intro a ha
    simp only [permute, if_true] at ha
    have hm := hp.mem_iff.mp ha
    exact ⟨Or.inl hm, (hs k).2.1 a hm⟩
  · simp only [permute, if_true]; exact hp.nodup_iff.mpr (hs k).1

/-- after `clear_()` the object owns nothing -/
theorem clear_regs (w : World α) (k : Nat) : (clear w k).regs k = [] := by
  simp only [clear, inPlace, if_true]
  induction w.regs k with
  | nil => rfl
  | cons a as ih => simpa [List.zip_cons_cons, List.filterMap_cons] using ih

theorem clear_local (w : World α) (k : Nat) (hs : Sep w) : LocalStep w (clear w k) k :=
  inPlace_local w k _ hs (by simp)

/-- what an object shows after allocating clones into an empty vector: exactly the clones -/
theorem allocs_view (w : World α) (j : Nat) (xs : List (Range α)) (h0 : w.regs j = []) :
    view (allocs w j xs) j = xs.map some ∧ ∀ a ∈ (allocs w j xs).regs j, w.next ≤ a := by
  constructor
  · simp only [view, allocs, if_true, h0, List.nil_append]
    apply List.ext_getElem (by simp)
    intro n h1 h2
    simp only [List.length_map, List.length_range'] at h1
    simp only [List.getElem_map, List.getElem_range']
    have : w.next ≤ w.next + 1 * n ∧ w.next + 1 * n < w.next + xs.length := by omega
    rw [if_pos this]
    have hn : w.next + 1 * n - w.next = n := by omega
    rw [hn, List.getElem?_eq_getElem h1]
    cases xs[n]; rfl
  · intro a ha
    simp only [allocs, if_true, h0, List.nil_append, List.mem_range'_1] at ha
    exact ha.1

/-- **copy_spec**: the copy constructor gives the new object a fresh cell for every element of the
source, holding an equal range; the source and every other object are untouched; separation is
kept — source and copy share no cell -/
theorem copy_spec (w : World α) (k j : Nat) (hkj : k ≠ j) (hs : Sep w) :
    Sep (copyCtor w k j) ∧
    view (copyCtor w k j) j = (vals w k).map some ∧
    (∀ i, i ≠ j → view (copyCtor w k j) i = view w i) ∧
    (∀ a ∈ (copyCtor w k j).regs j, a ∉ (copyCtor w k j).regs k ∧ w.next ≤ a) := by
  have h1 := local_preserves w _ j hs (clear_local w j hs)
  have h2 := local_preserves _ _ j h1.1 (allocs_local (clear w j) j (vals w k) h1.1)
  have hv := allocs_view (clear w j) j (vals w k) (clear_regs w j)
  simp only [copyCtor]
  refine ⟨h2.1, hv.1, fun i hi => by rw [h2.2 i hi, h1.2 i hi], ?_⟩
  intro a ha
  refine ⟨?_, ?_⟩
  · exact (h2.1 j).2.2 k hkj a ha
  · have := hv.2 a ha
    simpa [clear, inPlace] using this

/-- **assign_spec**: `operator=` onto another object behaves like destruction + copy construction;
onto itself (`this == &set`) it does nothing -/
theorem assign_spec (w : World α) (k j : Nat) (hs : Sep w) :
    (j = k → assign w k j = w) ∧
    (j ≠ k → Sep (assign w k j) ∧ view (assign w k j) j = (vals w k).map some ∧
      (∀ i, i ≠ j → view (assign w k j) i = view w i) ∧
      ∀ a ∈ (assign w k j).regs j, a ∉ (assign w k j).regs k) := by
  constructor
  · intro e; simp [assign, e]
  · intro hjk
    have h1 := local_preserves w _ j hs (clear_local w j hs)
    have hvals : vals (clear w j) k = vals w k := by
      have hv := h1.2 k (Ne.symm hjk)
      simp only [view, vals] at *
      have hr : (clear w j).regs k = w.regs k := (clear_local w j hs).others k (Ne.symm hjk)
      rw [hr] at hv ⊢
      have : ∀ a ∈ w.regs k, (clear w j).heap a = w.heap a := by
        intro a ha
        exact (clear_local w j hs).frame a ((hs k).2.1 a ha).1 ((hs k).2.2 j hjk a ha)
      exact filterMap_congr_mem _ _ _ this
    have h2 := local_preserves _ _ j h1.1 (allocs_local (clear w j) j (vals w k) h1.1)
    have hv := allocs_view (clear w j) j (vals w k) (clear_regs w j)
    simp only [assign, hjk, if_false, hvals]
    exact ⟨h2.1, hv.1, fun i hi => by rw [h2.2 i hi, h1.2 i hi], fun a ha => (h2.1 j).2.2 k (Ne.symm hjk) a ha⟩

/-- **assign_unguarded_self_empties** — the code before the round-2 repair: without the guard,
`x = x` deletes every cell and then clones the (now empty) vector: the object ends up empty -/
theorem assign_unguarded_self_empties (w : World α) (k : Nat) :
    (assignUnguarded w k k).regs k = [] := by
  have h0 := clear_regs w k
  simp [assignUnguarded, allocs, vals, h0]

/-- **shallow_copy_shares** — what the copy constructor must not do (mutant M8): copying the
pointers makes two objects own the same cells, the separation is lost as soon as the source is
not empty, and a deletion through one object is seen through the other -/
theorem shallow_copy_shares (w : World α) (k j : Nat) (hkj : k ≠ j) (a : Nat) (ha : a ∈ w.regs k) :
    ¬ Sep (shallowCopy w k j) := by
  intro h
  have hk : (shallowCopy w k j).regs k = w.regs k := by simp [shallowCopy, hkj]
  have hj : (shallowCopy w k j).regs j = w.regs k := by simp [shallowCopy]
  exact (h k).2.2 j (Ne.symm hkj) a (by rw [hk]; exact ha) (by rw [hj]; exact ha)

/-! ## every history -/

/-- one call on the collections: a member function of object `k` (any composition of in-place
loops, pushes of clones and `std::sort`), a copy construction, or an assignment -/
inductive Call (α : Type) where
  | inPlace (k : Nat) (out : List (Option (Range α)))
  | push (k : Nat) (xs : List (Range α))
  | sort (k : Nat) (v' : List Nat)
  | copy (k j : Nat)
  | assign (k j : Nat)

def Call.wf (w : World α) : Call α → Prop
  | .inPlace k out => out.length = (w.regs k).length
  | .push _ _ => True
  | .sort k v' => v'.Perm (w.regs k)
  | .copy k j => k ≠ j
  | .assign _ _ => True

def exec (w : World α) : Call α → World α
  | .inPlace k out => RangeObj.inPlace w k out
  | .push k xs => allocs w k xs
  | .sort k v' => permute w k v'
  | .copy k j => copyCtor w k j
  | .assign k j => RangeObj.assign w k j

/-- the object a call writes to -/
def Call.target : Call α → Nat
  | .inPlace k _ | .push k _ | .sort k _ => k
  | .copy _ j | .assign _ j => j

theorem exec_sep (w : World α) (c : Call α) (hs : Sep w) (hc : c.wf w) :
    Sep (exec w c) ∧ ∀ i, i ≠ c.target → view (exec w c) i = view w i := by
  cases c with
  | inPlace k out => exact local_preserves _ _ k hs (inPlace_local w k out hs hc)
  | push k xs => exact local_preserves _ _ k hs (allocs_local w k xs hs)
  | sort k v' => exact local_preserves _ _ k hs (permute_local w k v' hs hc).1
  | copy k j => have := copy_spec w k j hc hs; exact ⟨this.1, this.2.2.1⟩
  | assign k j =>
    by_cases hjk : j = k
    · rw [show exec w (.assign k j) = w from (assign_spec w k j hs).1 hjk]
      exact ⟨hs, fun _ _ => rfl⟩
    · have := (assign_spec w k j hs).2 hjk; exact ⟨this.1, this.2.2.1⟩

/-- a history: each call well formed in the state it is made in -/
inductive Hist : World α → List (Call α) → World α → Prop where
  | nil (w : World α) : Hist w [] w
  | cons (w : World α) (c : Call α) (cs : List (Call α)) (w' : World α) :
      c.wf w → Hist (exec w c) cs w' → Hist w (c :: cs) w'

/-- **copy_independent**: along every history of member-function calls, copies and assignments
(self-assignment included), the separation is kept — no two objects ever share a cell — and an
object that is not the target of any call of the history shows the same ranges at the end as at
the beginning.  In particular after `copy k j` (or `j = k`) any sequence of operations on the copy
leaves the source as it was, and vice versa. -/
theorem copy_independent (w w' : World α) (cs : List (Call α)) (hs : Sep w) (h : Hist w cs w') :
    Sep w' ∧ ∀ i, (∀ c ∈ cs, c.target ≠ i) → view w' i = view w i := by
  induction h with
  | nil w => exact ⟨hs, fun _ _ => rfl⟩
  | cons w c cs w' hc _ ih =>
    have h1 := exec_sep w c hs hc
    have h2 := ih h1.1
    refine ⟨h2.1, ?_⟩
    intro i hi
    rw [h2.2 i (fun c' hc' => hi c' (by simp [hc'])), h1.2 i (fun e => hi c (by simp) e.symm)]

/-- the empty world (no object owns anything) is separated: the hypotheses of the history theorem
are satisfiable, and a concrete history — build `{[1,5[,[7,9[}`, copy it, delete the first range of
the copy — leaves the source showing both ranges -/
example : Sep ({ heap := fun _ => none, next := 0, regs := fun _ => [] } : World Int) := by
  intro i
  exact ⟨List.nodup_nil, (by intro a h; cases h), (by intro j _ a h; cases h)⟩

example :
    let w0 : World Int := { heap := fun _ => none, next := 0, regs := fun _ => [] }
    let w := exec (exec (exec w0 (.push 0 [⟨1, 5⟩, ⟨7, 9⟩])) (.copy 0 1)) (.inPlace 1 [none, some ⟨7, 8⟩])
    view w 0 = [some ⟨1, 5⟩, some ⟨7, 9⟩] ∧ view w 1 = [some ⟨7, 8⟩] := by
  decide

end Bpp.C20Obj
