import BppProofs.Props.C15Queries
import BppProofs.Props.C15Fuel
/-!
# C15 — the queries that need a rooted tree refuse an unrooted one

`getLeavesUnderNode`, `getSubtreeNodes`, `getSubtreeEdges`, `getNodePathBetweenTwoNodes`,
`getEdgePathBetweenTwoNodes` and `MRCA` are defined through fathers and sons.  In an unrooted
(undirected) tree every neighbour is both a son and a father, and the unrepaired recursions did not
return on some *valid* unrooted trees (`leavesUnder_unrooted_diverges_witness`: between two inner
nodes; the climbs of the path queries: between two nodes joined to each other alone).  As repaired
(`mustBeRooted_()` first; `findings/C15.json`) each of them raises on every undirected graph,
valid or not, whatever the arguments — proved here — and on a rooted tree nothing changed
(`leavesUnderQ_rooted`, and the `*_spec` theorems of `Props/C15Queries.lean`).

What remains of the recorded finding `C15-nontermination-invalid`: *directed* graphs with a cycle
(`leavesUnder_diverges_witness`, `climb_diverges_witness`), which are not valid trees.
-/
namespace Bpp.C15
open Bpp Bpp.Graph

/-- `getLeavesUnderNode` raises on an unrooted tree -/
theorem leavesUnder_refuses_unrooted (g : G) (hd : g.directed = false) (n : Nat) : T.leavesUnderQ g n = .exc := by
  simp [T.leavesUnderQ, hd]

/-- `getNodePathBetweenTwoNodes` raises on an unrooted tree -/
theorem nodePath_refuses_unrooted (g : G) (hd : g.directed = false) (a b : Nat) (inc : Bool) : T.nodePath g a b inc = .exc := by
  simp [T.nodePath, hd]

/-- `getEdgePathBetweenTwoNodes` raises on an unrooted tree -/
theorem edgePath_refuses_unrooted (g : G) (hd : g.directed = false) (a b : Nat) : T.edgePath g a b = .exc := by
  simp [T.edgePath, nodePath_refuses_unrooted g hd]

/-- `MRCA` raises on an unrooted tree -/
theorem mrca_refuses_unrooted (g : G) (hd : g.directed = false) (l : List Nat) : T.mrca g l = .exc := by
  simp [T.mrca, hd]

/-- `getSubtreeNodes` / `getSubtreeEdges` never answer on an unrooted tree: when the tree is valid they raise
(`mustBeRooted_`), when it is not they raise as well (`mustBeValid_`) -/
theorem subtree_refuses_unrooted (t : T) (hd : t.g.directed = false) (edges : Bool) (n : Nat) (hr : t.g.hasNode t.g.root = true)
    (hc : Consistent t.g) : (t.getSubtree edges n).1 = .exc := by
  unfold T.getSubtree T.isValid
  obtain ⟨b, hb⟩ := T.isTree_total hc hr
  by_cases hv : t.valid = true
  · simp [hv, hd]
  · cases b <;> simp [hv, hb, hd]

/-- on a rooted tree the repaired `getLeavesUnderNode` is the recursion `leaves_under_spec` is about -/
theorem leavesUnderQ_rooted (g : G) (hd : g.directed = true) (n : Nat) :
    T.leavesUnderQ g n = T.leavesUnder g (g.nodes.length + 2) n [] := by
  simp [T.leavesUnderQ, hd]

/-- hence, on a valid rooted tree, `getLeavesUnderNode` lists each once the descendants without child -/
theorem leaves_under_query_spec (g : G) (hv : ValidRooted g) (n : Nat) (hn : g.hasNode n = true) :
    ∃ l, T.leavesUnderQ g n = .ok l ∧ (refRaw g).isLeavesUnder n l = true := by
  obtain ⟨l, hl, hs, _⟩ := leaves_under_spec g hv n hn
  exact ⟨l, by rw [leavesUnderQ_rooted g hv.dir, hl], hs⟩

/-! non-vacuity: the valid unrooted tree 0-1, 0-2, 1-3 on which the unrepaired recursion of
`getLeavesUnderNode` did not return, and the unrooted tree 0-1 on which the climbs did not -/

example : unrooted4.directed = false ∧ T.isTree unrooted4 = .ok true := by decide
example : T.leavesUnderQ unrooted4 0 = .exc := leavesUnder_refuses_unrooted _ (by decide) 0

/-- the unrooted tree 0-1 -/
def unrooted2 : G := ((T.empty false).run [.createNode, .createNode, .link 0 1]).g

example : T.isTree unrooted2 = .ok true := by decide

/-- … on which the unrepaired climb of the path queries ran for ever: each node is the other's single incoming neighbour -/
theorem climb_unrooted_diverges_witness : ∀ fuel n acc, n < 2 → T.climb unrooted2 fuel n acc = .fuel := by
  intro fuel
  induction fuel with
  | zero => intro n acc _; rfl
  | succ f ih =>
    intro n acc hn
    have h0 : T.hasFather unrooted2 0 = some true := by decide
    have h1 : T.hasFather unrooted2 1 = some true := by decide
    have f0 : T.father unrooted2 0 = some 1 := by decide
    have f1 : T.father unrooted2 1 = some 0 := by decide
    match n, hn with
    | 0, _ => simp only [T.climb, h0, f0]; exact ih 1 _ (by omega)
    | 1, _ => simp only [T.climb, h1, f1]; exact ih 0 _ (by omega)

example : T.nodePath unrooted2 0 1 true = .exc := nodePath_refuses_unrooted _ (by decide) 0 1 true
example : (({ g := unrooted2 } : T).getSubtree false 0).1 = .exc :=
  subtree_refuses_unrooted _ (by decide) false 0 (by decide) (history_consistent false _)

end Bpp.C15
