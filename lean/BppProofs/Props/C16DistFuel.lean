import BppProofs.Lemmas.DistFuel
/-!
# C16 — the `dist<k>` loop of the `Mixture` branch is ended by a missing key, never by its fuel

Model: `BppModel/Text/DistU.lean`, `nestedDists args fuel k` =
`while (args.find("dist" + toString(++nbd)) != args.end())` (:153-154).  The model's loop takes fuel
and returns what it has when the fuel runs out (`| 0, _ => []`), silently; `mixtureStage` calls it
with `args.length + 1` rounds from `k = 1`.  The theorems below show that this silent case is never
reached: the keys `dist1`, `dist2`, … are pairwise different (`Number.natDigits` is injective), each
one that `mapFind` finds is the key of an entry of `args`, so among `args.length + 1` consecutive
keys one is missing (pigeonhole), and the loop stops there.
-/
namespace Bpp.C16
open Bpp.Text Bpp.Text.U

/-- **the fuel `mixtureStage` gives always suffices**: any larger fuel gives the same list — the
loop is ended by a missing key `dist<k>`, never by the fuel -/
theorem nestedDists_fuel_suffices (args : Keyval.Map) (fuel : Nat) (h : args.length + 1 ≤ fuel) :
    nestedDists args fuel 1 = nestedDists args (args.length + 1) 1 :=
  nestedDists_fuel_suffices_lem args fuel h

/-- **the loop stops on a missing key**: with `n` descriptions returned, `dist<n+1>` is not a key of
the map (so the C++ `while` ends there too) -/
theorem nestedDists_stops_on_missing_key (args : Keyval.Map) :
    Keyval.mapFind ("dist".toList ++ Number.natDigits (1 + (nestedDists args (args.length + 1) 1).length))
      args = none :=
  nestedDists_stops_missing args (args.length + 1) 1 (exists_missing args 1)

/-- **and every description returned is the value of its key**: the `i`-th one (from 0) is
`args["dist<i+1>"]` -/
theorem nestedDists_values (args : Keyval.Map) (i : Nat) (d : Str)
    (h : (nestedDists args (args.length + 1) 1)[i]? = some d) :
    Keyval.mapFind ("dist".toList ++ Number.natDigits (1 + i)) args = some d :=
  nestedDists_getElem? args (args.length + 1) 1 i d h

/-- at most one description per entry of the map -/
theorem nestedDists_length_le_args (args : Keyval.Map) :
    (nestedDists args (args.length + 1) 1).length ≤ args.length := by
  have hstop := nestedDists_stops_missing args (args.length + 1) 1 (exists_missing args 1)
  have hle := nestedDists_length_le args (args.length + 1) 1
  apply Classical.byContradiction
  intro hgt
  have hlen : (nestedDists args (args.length + 1) 1).length = args.length + 1 := by omega
  -- all of `dist1 … dist<n+1>` would be found: impossible by the pigeonhole
  obtain ⟨j, hj, hnone⟩ := exists_missing args 1
  have hsome : ∃ d, (nestedDists args (args.length + 1) 1)[j]? = some d :=
    ⟨_, List.getElem?_eq_getElem (by omega)⟩
  obtain ⟨d, hd⟩ := hsome
  have := nestedDists_getElem? args (args.length + 1) 1 j d hd
  rw [this] at hnone; cases hnone

example : nestedDists [("dist1".toList, "A".toList), ("dist2".toList, "B".toList), ("dist4".toList, "D".toList)] 4 1
    = ["A".toList, "B".toList] := by decide +kernel
example : nestedDists [("probas".toList, "x".toList)] 2 1 = [] := by decide +kernel

end Bpp.C16
