import BppProofs.Lemmas.LogSpace
import BppProofs.Lemmas.LogSpace2
/-!
# C07 — log-domain reductions   (VectorTools.h:637-753, NumTools.h:96-101)

Property theorems only; helper lemmas are in `Lemmas/LogSpace.lean`.  The program text of
`BppModel/LogSpace.lean` is read at `ℝ` (exact arithmetic, no infinities) and, for the statements
about log-zero, at `Ext ℝ` (reals with `+∞`, `-∞ = log 0` and NaN, IEEE rules for the special
values).  "Stays finite where the naive formula overflows" is a floating-point fact; what is proved
is its structural reason: every argument handed to `exp` is `≤ 0` (`lse_args_nonpos`), so every
term is in `(0,1]` and the shifted sum in `[1,n]`.
-/
namespace Bpp.C07
open Bpp Bpp.VecTools Bpp.LogSpace

/-! ## pairwise log-sum (NumTools::logsum, repaired) -/

/-- `logsum (ln x) (ln y) = ln (x + y)` for positive `x`, `y` -/
theorem logsum_spec (x y : ℝ) (hx : 0 < x) (hy : 0 < y) :
    logsum (Real.log x) (Real.log y) = Real.log (x + y) := by
  rw [logsum_eq, Real.exp_log hx, Real.exp_log hy]

/-- for all reals: `logsum a b = ln (eᵃ + eᵇ)` -/
theorem logsum_eq_log_add_exp (a b : ℝ) : logsum a b = Real.log (Real.exp a + Real.exp b) := logsum_eq a b

theorem logsum_comm (a b : ℝ) : logsum a b = logsum b a := by
  rw [logsum_eq, logsum_eq, add_comm]

/-- between the larger argument and the larger argument plus `ln 2` -/
theorem logsum_bounds (a b : ℝ) : max a b ≤ logsum a b ∧ logsum a b ≤ max a b + Real.log 2 := by
  rw [logsum_eq]
  have hM : Real.exp (max a b) ≤ Real.exp a + Real.exp b := by
    rcases le_total a b with h | h
    · rw [max_eq_right h]; linarith [Real.exp_pos a]
    · rw [max_eq_left h]; linarith [Real.exp_pos b]
  have hU : Real.exp a + Real.exp b ≤ 2 * Real.exp (max a b) := by
    have h1 : Real.exp a ≤ Real.exp (max a b) := Real.exp_le_exp.mpr (le_max_left a b)
    have h2 : Real.exp b ≤ Real.exp (max a b) := Real.exp_le_exp.mpr (le_max_right a b)
    linarith
  constructor
  · have := Real.log_le_log (Real.exp_pos _) hM
    rwa [Real.log_exp] at this
  · have := Real.log_le_log (by positivity) hU
    rw [Real.log_mul (by norm_num) (Real.exp_pos _).ne', Real.log_exp] at this
    linarith

/-- the only exponent the code ever passes to `exp` is `-|a - b| ≤ 0` -/
theorem logsum_arg_nonpos (a b : ℝ) (hab : a ≠ b) :
    logsum a b = max a b + Real.log (1 + Real.exp (-|a - b|)) := by
  unfold logsum
  have h1 : LogArith.eqb a b = false := by simp [hab]
  simp only [h1, Bool.false_eq_true, if_false, LogSpace.ofNat_eq, LogSpace.log_eq, LogSpace.exp_eq]
  by_cases hlt : b < a
  · simp only [LogSpace.ltb_iff, hlt, if_true]
    rw [max_eq_left hlt.le, abs_of_pos (sub_pos.mpr hlt), neg_sub]; push_cast; rfl
  · simp only [LogSpace.ltb_iff, hlt, if_false]
    have hle : a ≤ b := not_lt.mp hlt
    rw [max_eq_right hle, abs_of_nonpos (sub_nonpos.mpr hle), neg_neg]; push_cast; rfl

/-- on the reals the repair changes nothing -/
theorem logsum_repair_conservative (a b : ℝ) : logsum a b = logsumOrig a b := by
  unfold logsum logsumOrig
  by_cases hab : a = b
  · subst hab
    simp only [LogSpace.eqb_iff, if_true, LogSpace.ltb_iff, lt_irrefl, if_false, sub_self, LogSpace.exp_eq,
      Real.exp_zero, LogSpace.ofNat_eq, LogSpace.log_eq]
    norm_num
  · have h1 : LogArith.eqb a b = false := by simp [hab]
    simp only [h1, Bool.false_eq_true, if_false]

/-! ### log-zero as an explicit `-∞` -/

/-- the log-sum of two log-zeros is log-zero -/
theorem logsum_zero_zero : logsum (Ext.ninf : Ext ℝ) Ext.ninf = Ext.ninf := logsum_ninf_ninf

/-- witness of the defect: before the repair it was NaN (`-∞ - -∞`) -/
theorem logsumOrig_zero_zero_nan : logsumOrig (Ext.ninf : Ext ℝ) Ext.ninf = Ext.nan := logsumOrig_ninf_ninf

/-- log-zero is the neutral element -/
theorem logsum_zero_neutral (b : ℝ) :
    logsum (Ext.ninf : Ext ℝ) (Ext.fin b) = Ext.fin b ∧ logsum (Ext.fin b) (Ext.ninf : Ext ℝ) = Ext.fin b :=
  logsum_ninf_fin b

/-- on finite values the extended reading is the real one -/
theorem logsum_finite (a b : ℝ) : logsum (Ext.fin a) (Ext.fin b) = Ext.fin (logsum a b) := logsum_fin_fin a b

theorem logsum_inf_inf : logsum (Ext.pinf : Ext ℝ) Ext.pinf = Ext.pinf := logsum_pinf_pinf

/-- commutative on all extended values, NaN included -/
theorem logsum_comm_extended (a b : Ext ℝ) : logsum a b = logsum b a := logsum_comm_ext a b

/-! ## logSumExp, logMeanExp, sumExp, logNorm -/

/-- `logSumExp v = ln Σ exp vᵢ` -/
theorem lse_spec (v : List ℝ) (hv : v ≠ []) : logSumExp v = .ok (Real.log (v.map Real.exp).sum) :=
  logSumExp_eq v hv

/-- the empty vector is reported by EmptyVectorException (raised by `max`) -/
theorem lse_empty_raises :
    logSumExp ([] : List ℝ) = .error .empty ∧ logMeanExp ([] : List ℝ) = .error .empty ∧
    sumExp ([] : List ℝ) = .error .empty ∧ logNorm ([] : List ℝ) = .error .empty ∧
    logSumExpW ([] : List ℝ) [] = .error .empty ∧ sumExpW ([] : List ℝ) [] = .error .empty := by
  refine ⟨rfl, rfl, rfl, rfl, rfl, rfl⟩

/-- witness: before the repair `sumExp` of the empty vector read `v[0]` -/
theorem sumExpOrig_empty_ub : sumExpOrig ([] : List ℝ) = .error .ub := rfl

/-- shift-equivariance: `logSumExp (v + c) = logSumExp v + c` -/
theorem lse_shift (v : List ℝ) (c : ℝ) (hv : v ≠ []) :
    ∃ r, logSumExp v = .ok r ∧ logSumExp (v.map (· + c)) = .ok (r + c) := by
  refine ⟨_, logSumExp_eq v hv, ?_⟩
  rw [logSumExp_eq _ (by simpa using hv), sum_exp_map_add,
    Real.log_mul (sum_exp_pos v hv).ne' (Real.exp_pos _).ne', Real.log_exp]

/-- `max v ≤ logSumExp v ≤ max v + ln n` -/
theorem lse_bounds (v : List ℝ) (hv : v ≠ []) :
    ∃ M r, vmax v = .ok M ∧ logSumExp v = .ok r ∧ M ≤ r ∧ r ≤ M + Real.log v.length := by
  obtain ⟨M, hM⟩ := vmax_defined v hv
  obtain ⟨hmem, hle⟩ := vmax_spec v M hM
  obtain ⟨hlo, hhi⟩ := sum_exp_bounds v M hmem hle
  refine ⟨M, _, hM, logSumExp_eq v hv, ?_, ?_⟩
  · have := Real.log_le_log (Real.exp_pos _) hlo
    rwa [Real.log_exp] at this
  · have hn : (0:ℝ) < v.length := by
      have : 0 < v.length := List.length_pos_iff.mpr hv
      exact_mod_cast this
    have := Real.log_le_log (sum_exp_pos v hv) hhi
    rwa [Real.log_mul hn.ne' (Real.exp_pos _).ne', Real.log_exp, add_comm] at this

/-- the structural reason for overflow-safety: with `M = max v` the value is computed as
`ln (Σ exp aᵢ) + M` where every argument `aᵢ = vᵢ - M` of `exp` is `≤ 0`, hence every term is in
`(0,1]` and the sum in `[1, n]` — nothing can overflow, and the logarithm's argument is `≥ 1` -/
theorem lse_args_nonpos (v : List ℝ) (hv : v ≠ []) (h1 : v.length ≠ 1) :
    ∃ M, vmax v = .ok M ∧ logSumExp v = .ok (Real.log ((shifted M v).map Real.exp).sum + M) ∧
      (∀ a ∈ shifted M v, a ≤ 0) ∧ (∀ a ∈ shifted M v, 0 < Real.exp a ∧ Real.exp a ≤ 1) ∧
      1 ≤ ((shifted M v).map Real.exp).sum ∧ ((shifted M v).map Real.exp).sum ≤ v.length := by
  obtain ⟨M, hM, hlse⟩ := logSumExp_unfold v hv h1
  obtain ⟨hmem, hle⟩ := vmax_spec v M hM
  have hneg : ∀ a ∈ shifted M v, a ≤ 0 := by
    intro a ha
    simp only [shifted, List.mem_map] at ha
    obtain ⟨x, hx, rfl⟩ := ha
    linarith [hle x hx]
  have hzero : (0:ℝ) ∈ shifted M v := by
    simp only [shifted, List.mem_map]; exact ⟨M, hmem, sub_self M⟩
  have hlen : (shifted M v).length = v.length := by simp [shifted]
  obtain ⟨hlo, hhi⟩ := sum_exp_bounds (shifted M v) 0 hzero hneg
  rw [Real.exp_zero, mul_one, hlen] at hhi
  rw [Real.exp_zero] at hlo
  exact ⟨M, hM, hlse, hneg,
    fun a ha => ⟨Real.exp_pos a, by have := Real.exp_le_exp.mpr (hneg a ha); rwa [Real.exp_zero] at this⟩, hlo, hhi⟩

/-- `sumExp v = Σ exp vᵢ` (repaired: also defined for a single element, empty raises) -/
theorem sumExp_spec (v : List ℝ) (hv : v ≠ []) : sumExp v = .ok (v.map Real.exp).sum := sumExp_eq v hv

/-- `logMeanExp v = ln ((Σ exp vᵢ)/n)` -/
theorem logMeanExp_spec (v : List ℝ) (hv : v ≠ []) :
    logMeanExp v = .ok (Real.log ((v.map Real.exp).sum / v.length)) := by
  unfold logMeanExp
  rw [logSumExp_eq v hv]
  have hn : (0:ℝ) < v.length := by
    have : 0 < v.length := List.length_pos_iff.mpr hv
    exact_mod_cast this
  simp only [bind, Except.bind, pure, Except.pure, LogSpace.log_eq, LogSpace.ofNat_eq]
  rw [Real.log_div (sum_exp_pos v hv).ne' hn.ne']

/-- weighted `logSumExp (v, w) = ln Σ wᵢ·exp vᵢ` for a **positive** weighted sum (`wsum v w` is
`Σ wᵢ·exp vᵢ`).  For a sum `≤ 0` the code takes `std::log` of a non-positive number: see
`lsew_sign_outcome` — over `ℝ` alone `Real.log x = ln |x|` would hide that. -/
theorem lsew_spec (v w : List ℝ) (hv : v ≠ []) (h : v.length = w.length) (hpos : 0 < wsum v w) :
    logSumExpW v w = .ok (Real.log (wsum v w)) := logSumExpW_eq_pos v w hv h hpos

example : logSumExpW ([0, 1] : List ℝ) [2, 3] = .ok (Real.log (2 * Real.exp 0 + 3 * Real.exp 1)) := by
  have h : wsum ([0, 1] : List ℝ) [2, 3] = 2 * Real.exp 0 + 3 * Real.exp 1 := by simp [wsum]
  rw [lsew_spec [0, 1] [2, 3] (by simp) rfl (by rw [h]; positivity), h]

/-- the complete outcome on finite inputs, in the reading with `±∞` and NaN (which is what the
double computation does with the special values): the logarithm for a positive weighted sum, **NaN
for a negative one** (`std::log` of a negative number), `-∞` for a zero one.  Weights of either
sign are allowed. -/
theorem lsew_sign_outcome (v w : List ℝ) (hv : v ≠ []) (h : v.length = w.length) :
    logSumExpW (v.map Ext.fin) (w.map Ext.fin) =
      .ok (if 0 < wsum v w then Ext.fin (Real.log (wsum v w))
           else if wsum v w < 0 then Ext.nan else Ext.ninf) := logSumExpW_fin v w hv h

/-- e.g. `logSumExp([0], [-1])` is NaN, not `ln |-1| = 0` -/
theorem lsew_negative_nan : logSumExpW [Ext.fin (0 : ℝ)] [Ext.fin (-1)] = .ok Ext.nan := by
  have := lsew_sign_outcome [0] [-1] (by simp) rfl
  simp only [wsum, List.zipWith_cons_cons, List.zipWith_nil_right, List.sum_cons, List.sum_nil, Real.exp_zero] at this
  norm_num at this
  simpa using this

/-- shift-equivariance of the weighted form: `logSumExp (v + c, w) = logSumExp (v, w) + c`
(positive weighted sum) -/
theorem lsew_shift (v w : List ℝ) (c : ℝ) (hv : v ≠ []) (h : v.length = w.length) (hpos : 0 < wsum v w) :
    ∃ r, logSumExpW v w = .ok r ∧ logSumExpW (v.map (· + c)) w = .ok (r + c) := by
  refine ⟨_, lsew_spec v w hv h hpos, ?_⟩
  have hpos' : 0 < wsum (v.map (· + c)) w := by rw [wsum_map_add]; exact mul_pos hpos (Real.exp_pos _)
  rw [lsew_spec _ _ (by simpa using hv) (by simpa using h) hpos', wsum_map_add,
    Real.log_mul hpos.ne' (Real.exp_pos _).ne', Real.log_exp]

/-- bounds of the weighted form for non-negative weights and a positive weighted sum: with
`M = max v`, `logSumExp (v, w) ≤ M + ln Σw`, and `vᵢ + ln wᵢ ≤ logSumExp (v, w)` for every entry with
a positive weight (in particular `M + ln w_argmax` when the maximal entry carries weight) -/
theorem lsew_bounds (v w : List ℝ) (hv : v ≠ []) (h : v.length = w.length) (hw : ∀ c ∈ w, 0 ≤ c)
    (hpos : 0 < wsum v w) :
    ∃ M r, vmax v = .ok M ∧ logSumExpW v w = .ok r ∧ 0 < w.sum ∧ r ≤ M + Real.log w.sum ∧
      ∀ (i : Nat) (x c : ℝ), v[i]? = some x → w[i]? = some c → 0 < c → x + Real.log c ≤ r := by
  obtain ⟨M, hM⟩ := vmax_defined v hv
  obtain ⟨-, hle⟩ := vmax_spec v M hM
  have hup := wsum_le v w M h hw hle
  have hsw : 0 < w.sum := by
    by_contra hn
    have : w.sum * Real.exp M ≤ 0 := mul_nonpos_of_nonpos_of_nonneg (not_lt.mp hn) (Real.exp_pos _).le
    linarith
  refine ⟨M, _, hM, lsew_spec v w hv h hpos, hsw, ?_, ?_⟩
  · have := Real.log_le_log hpos hup
    rwa [Real.log_mul hsw.ne' (Real.exp_pos _).ne', Real.log_exp, add_comm] at this
  · intro i x c hx hc hcpos
    have hterm := wsum_ge_term v w hw i x c hx hc
    have := Real.log_le_log (mul_pos hcpos (Real.exp_pos x)) hterm
    rwa [Real.log_mul hcpos.ne' (Real.exp_pos _).ne', Real.log_exp, add_comm] at this

example : ∃ M r, vmax ([0, 1] : List ℝ) = .ok M ∧ logSumExpW ([0, 1] : List ℝ) [2, 3] = .ok r ∧
    r ≤ M + Real.log ([2, 3] : List ℝ).sum := by
  obtain ⟨M, r, h1, h2, -, h3, -⟩ := lsew_bounds ([0, 1] : List ℝ) [2, 3] (by simp) rfl
    (by intro c hc; simp at hc; rcases hc with rfl | rfl <;> norm_num)
    (by simp only [wsum, List.zipWith_cons_cons, List.zipWith_nil_right, List.sum_cons, List.sum_nil]; positivity)
  exact ⟨M, r, h1, h2, h3⟩

/-- the structural reason for overflow-safety, weighted form: every argument of `exp` is `≤ 0`,
so every term is `wᵢ·t` with `t ∈ (0,1]` -/
theorem lsew_args_nonpos (v w : List ℝ) (hv : v ≠ []) (h : v.length = w.length) :
    ∃ M, vmax v = .ok M ∧
      logSumExpW v w = .ok (Real.log (List.zipWith (fun x c => c * Real.exp (x - M)) v w).sum + M) ∧
      (∀ a ∈ shifted M v, a ≤ 0) ∧ (∀ a ∈ shifted M v, 0 < Real.exp a ∧ Real.exp a ≤ 1) := by
  obtain ⟨M, hM, hl⟩ := logSumExpW_unfold v w hv h
  obtain ⟨-, hle⟩ := vmax_spec v M hM
  have hneg : ∀ a ∈ shifted M v, a ≤ 0 := by
    intro a ha
    simp only [shifted, List.mem_map] at ha
    obtain ⟨x, hx, rfl⟩ := ha
    linarith [hle x hx]
  exact ⟨M, hM, hl, hneg,
    fun a ha => ⟨Real.exp_pos a, by have := Real.exp_le_exp.mpr (hneg a ha); rwa [Real.exp_zero] at this⟩⟩

/-- weighted `sumExp` is shift-*multiplicative*: `sumExp (v + c, w) = sumExp (v, w)·exp c` -/
theorem sumExpW_shift (v w : List ℝ) (c : ℝ) (hv : v ≠ []) (h : v.length = w.length) :
    ∃ r, sumExpW v w = .ok r ∧ sumExpW (v.map (· + c)) w = .ok (r * Real.exp c) := by
  refine ⟨_, sumExpW_eq v w hv h, ?_⟩
  rw [sumExpW_eq _ _ (by simpa using hv) (by simpa using h)]
  exact congrArg Except.ok (wsum_map_add v w c)

/-- `sumExp (v + c) = sumExp v · exp c`, and `exp M ≤ sumExp v ≤ n·exp M` with `M = max v` -/
theorem sumExp_shift_bounds (v : List ℝ) (c : ℝ) (hv : v ≠ []) :
    ∃ M r, vmax v = .ok M ∧ sumExp v = .ok r ∧ sumExp (v.map (· + c)) = .ok (r * Real.exp c) ∧
      Real.exp M ≤ r ∧ r ≤ v.length * Real.exp M := by
  obtain ⟨M, hM⟩ := vmax_defined v hv
  obtain ⟨hmem, hle⟩ := vmax_spec v M hM
  obtain ⟨hlo, hhi⟩ := sum_exp_bounds v M hmem hle
  refine ⟨M, _, hM, sumExp_eq v hv, ?_, hlo, hhi⟩
  rw [sumExp_eq _ (by simpa using hv), sum_exp_map_add]

/-- `logMeanExp (v + c) = logMeanExp v + c`, and `M - ln n ≤ logMeanExp v ≤ M` with `M = max v` -/
theorem lme_shift_bounds (v : List ℝ) (c : ℝ) (hv : v ≠ []) :
    ∃ M r, vmax v = .ok M ∧ logMeanExp v = .ok r ∧ logMeanExp (v.map (· + c)) = .ok (r + c) ∧
      M - Real.log v.length ≤ r ∧ r ≤ M := by
  obtain ⟨M, l, hM, hl, hlo, hhi⟩ := lse_bounds v hv
  obtain ⟨l', hl', hshift⟩ := lse_shift v c hv
  rw [hl] at hl'; cases hl'
  refine ⟨M, l - Real.log v.length, hM, ?_, ?_, by linarith, by linarith⟩
  · unfold logMeanExp; rw [hl]; rfl
  · unfold logMeanExp; rw [hshift]
    simp only [bind, Except.bind, pure, Except.pure, LogSpace.log_eq, LogSpace.ofNat_eq, List.length_map]
    congr 1; ring

/-- the pairwise log-sum is shift-equivariant -/
theorem logsum_shift (a b c : ℝ) : logsum (a + c) (b + c) = logsum a b + c := by
  rw [logsum_eq, logsum_eq, Real.exp_add, Real.exp_add, ← add_mul,
    Real.log_mul (by positivity) (Real.exp_pos _).ne', Real.log_exp]

/-! ### infinite maxima (reading with `±∞`): documented BadNumberException / infinite answers -/

/-- weighted `logSumExp` / `sumExp` of log-zeros only raise BadNumberException (the maximum is
`-∞`) … -/
theorem lsew_all_logzero_raises (n : Nat) (w : List (Ext ℝ)) (hw : w.length = n + 1) :
    logSumExpW (List.replicate (n + 1) (Ext.ninf : Ext ℝ)) w = .error .badnumber ∧
    (n ≠ 0 → sumExpW (List.replicate (n + 1) (Ext.ninf : Ext ℝ)) w = .error .badnumber) :=
  ⟨logSumExpW_inf_max _ w _ (by simp [hw]) (vmax_all_logzero n) rfl,
   fun hn => sumExpW_inf_max _ w _ (by simp [hw]) (by simpa using hn) (vmax_all_logzero n) rfl⟩

/-- … and so does any vector whose maximum is infinite (a `+∞` entry); the unweighted
`logSumExp` answers that infinite maximum -/
theorem log_inf_max (v w : List (Ext ℝ)) (M : Ext ℝ) (hM : vmax v = .ok M) (hi : Ext.isInf' M = true) :
    (v.length = w.length → logSumExpW v w = .error .badnumber) ∧
    (v.length ≠ 1 → logSumExp v = .ok M) :=
  ⟨fun h => logSumExpW_inf_max v w M h hM hi, fun h1 => logSumExp_inf_max v M h1 hM hi⟩

example : logSumExp [Ext.fin (1 : ℝ), Ext.pinf, Ext.fin 2] = .ok Ext.pinf ∧
    logSumExpW [Ext.fin (1 : ℝ), Ext.pinf] [Ext.fin 1, Ext.fin 1] = .error .badnumber := by
  have hM : vmax [Ext.fin (1 : ℝ), Ext.pinf, Ext.fin 2] = .ok Ext.pinf := by
    simp [vmax, extremum, Ext.lt]
  have hM2 : vmax [Ext.fin (1 : ℝ), Ext.pinf] = .ok Ext.pinf := by
    simp [vmax, extremum, Ext.lt]
  exact ⟨(log_inf_max _ [] _ hM rfl).2 (by simp), (log_inf_max _ _ _ hM2 rfl).1 rfl⟩

/-- weighted `sumExp (v, w) = Σ wᵢ·exp vᵢ` -/
theorem sumExpW_spec (v w : List ℝ) (hv : v ≠ []) (h : v.length = w.length) :
    sumExpW v w = .ok (wsum v w) := sumExpW_eq v w hv h

/-- the weighted reductions report a size mismatch -/
theorem log_mismatch_raises (v w : List ℝ) (h : v.length ≠ w.length) :
    logSumExpW v w = .error .dimension ∧ sumExpW v w = .error .dimension := by
  simp [logSumExpW, sumExpW, h]

/-- `logNorm` subtracts `logSumExp v`: afterwards `Σ exp vᵢ = 1` -/
theorem logNorm_spec (v : List ℝ) (hv : v ≠ []) :
    ∃ r, logNorm v = .ok r ∧ r.length = v.length ∧ (r.map Real.exp).sum = 1 := by
  unfold logNorm
  rw [logSumExp_eq v hv]
  refine ⟨_, rfl, by simp, ?_⟩
  have := sum_exp_map_add v (-(Real.log (v.map Real.exp).sum))
  simp only [← sub_eq_add_neg] at this
  rw [this, Real.exp_neg, Real.exp_log (sum_exp_pos v hv)]
  exact mul_inv_cancel₀ (sum_exp_pos v hv).ne'

/-- no log-space routine reads out of range, for any sizes -/
theorem log_no_ub (v w : List ℝ) :
    NoUb (logSumExp v) ∧ NoUb (logMeanExp v) ∧ NoUb (sumExp v) ∧ NoUb (logNorm v) ∧
    NoUb (logSumExpW v w) ∧ NoUb (sumExpW v w) := by
  have key : ∀ (u : List ℝ), NoUb (logSumExp u) ∧ NoUb (sumExp u) := by
    intro u
    cases u with
    | nil => exact ⟨by simp [NoUb, logSumExp, vmax, extremum, bind, Except.bind],
                     by simp [NoUb, sumExp, vmax, extremum, bind, Except.bind]⟩
    | cons x xs =>
      rw [logSumExp_eq _ (by simp), sumExp_eq _ (by simp)]; exact ⟨noUb_ok _, noUb_ok _⟩
  refine ⟨(key v).1, noUb_map _ _ (key v).1, (key v).2, noUb_map _ _ (key v).1, ?_, ?_⟩
  · by_cases h : v.length = w.length
    · cases v with
      | nil => simp [NoUb, logSumExpW, h, vmax, extremum, bind, Except.bind]
      | cons x xs =>
        obtain ⟨M, hM⟩ := vmax_defined (x :: xs) (by simp)
        unfold logSumExpW
        rw [if_neg (by simpa using h), hM]
        simp only [bind, Except.bind, LogSpace.isInf_eq, Bool.false_eq_true, if_false,
          expSumW_eq M (x :: xs) w (by simp) h]
        exact noUb_ok _
    · rw [(log_mismatch_raises v w h).1]; exact noUb_err _ (by decide)
  · by_cases h : v.length = w.length
    · cases v with
      | nil =>
        have hw : w = [] := List.length_eq_zero_iff.mp (by simpa using h.symm)
        subst hw; simp [NoUb, sumExpW, vmax, extremum, bind, Except.bind]
      | cons x xs => rw [sumExpW_eq _ _ (by simp) h]; exact noUb_ok _
    · rw [(log_mismatch_raises v w h).2]; exact noUb_err _ (by decide)

/-! ## log-zeros inside a vector (extended reading) -/

/-- over finite values and log-zeros (`-∞`), at least one of them finite, `logSumExp` is the finite
`ln Σ exp` over the finite entries: a log-zero contributes `exp(-∞) = 0` and never produces a NaN -/
theorem lse_log_zeros (v : List (Ext ℝ)) (hv : LogVals v) (hf : finPart v ≠ []) :
    logSumExp v = .ok (Ext.fin (Real.log ((finPart v).map Real.exp).sum)) := logSumExp_logzeros v hv hf

/-- `logSumExp` of log-zeros only is log-zero -/
theorem lse_all_log_zero (n : Nat) :
    logSumExp (List.replicate (n + 1) (Ext.ninf : Ext ℝ)) = .ok Ext.ninf := logSumExp_all_logzero n

example : logSumExp [Ext.ninf, Ext.fin 3, Ext.ninf] = .ok (Ext.fin (Real.log (Real.exp 3))) := by
  have := lse_log_zeros [Ext.ninf, Ext.fin 3, Ext.ninf]
    (by intro e he; simp at he; rcases he with rfl | rfl | rfl <;> simp) (by simp [finPart])
  simpa [finPart] using this

end Bpp.C07
