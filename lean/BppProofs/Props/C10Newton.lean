import BppProofs.Lemmas.OptimNewton
/-!
# C10, part 7 — NewtonOneDimension in full

`doInit`, `doStep` (with the Felsenstein-Churchill correction loop), `FunctionStopCondition` and the
template's `optimize`, on the objective of the harness (any objective `obj : List ℝ → ℝ`, any
derivatives — what the derivatives are plays no role for these clauses), over `ℝ`.
-/
namespace Bpp.C10
open Bpp Bpp.Optim

/-- **newton1d_descent** (with `reported_value_consistent` and `state_at_report` for this optimiser).
After `init` and `optimize` — whatever the derivatives, the tolerance, the cap, the number of steps
and of corrections:
* the value returned is not above the objective at the starting point (the function's point with the
  values of `init`'s list written into it);
* it is the objective at the point the function has been left at (`Spec.consistent`), that point holds
  the values the optimiser reports (`Spec.stateAt`), and it is the optimiser's current value.
Each step either accepts a trial whose value is not above the current one, or — corrections
exhausted — puts the function back where the step found it and reports the current value. -/
theorem newton1d_descent (obj : List ℝ → ℝ) (D : Deriv ℝ) (cap : Option Nat) (fuel : Nat)
    (s s1 s2 : St (Fn ℝ) (Newton1 ℝ) ℝ) (params : PList ℝ) (v : ℝ)
    (hnd : (names params).Nodup) (hlt : ∀ n ∈ names params, n < s.fn.point.length)
    (hinit : (newtonAlgo (Fn.iface obj D cap)).init s params = .ok s1)
    (hopt : (newtonAlgo (Fn.iface obj D cap)).optimize fuel s1 = .ok (s2, v)) :
    Spec.descent v (obj (matchPoint s.fn.point params)) = true ∧
    Spec.consistent obj v s2.fn.point = true ∧
    Spec.stateAt s2.fn.point (names s2.core.params) (values s2.core.params) = true ∧
    s2.core.cur = v := by
  obtain ⟨hi, -⟩ := newton_init_spec obj D cap s s1 params ⟨hnd, hlt⟩ hinit
  obtain ⟨h2, hcur⟩ := newton_optimize_spec obj D cap _ _ _ ⟨hnd, hlt⟩ fuel s1 s2 v hi hopt
  refine ⟨?_, ?_, h2.sync.stateAt, hcur⟩
  · simp only [Spec.descent, ScalarReal.leb_iff]; rw [← hcur]; exact h2.below
  · simp only [Spec.consistent, ScalarReal.eqb_iff]; rw [← hcur]; exact h2.cur

/-- every step on its own: the value it returns is not above the optimiser's current value -/
theorem newton1d_step_descent (obj : List ℝ → ℝ) (D : Deriv ℝ) (cap : Option Nat) (B : ℝ) (len : Nat) (ns : List Nat)
    (hns : ns.Nodup ∧ ∀ n ∈ ns, n < len) (s s' : St (Fn ℝ) (Newton1 ℝ) ℝ) (v : ℝ)
    (hi : Newton.Inv obj B len ns s) (h : newtonDoStep (Fn.iface obj D cap) s = .ok (s', v)) :
    v ≤ s.core.cur :=
  (newtonDoStep_spec obj D cap B len ns hns s s' v hi h).2

/-- non-vacuity: the hypotheses of `newton1d_descent` on names are met by the one-parameter list of
the harness, and the invariant by a state left at its parameter -/
example : Newton.Inv (fun x => x.sum) 7 2 [0]
    ({ core := { params := [⟨0, ⟨3, 0, none, false⟩⟩], policy := .keep, nbEvalMax := 10, nbEval := 0, cur := 7, tol := false,
                 initialized := true, tolerance := 0, callCount := 0, burnin := 0, lastF := 0, newF := 0 },
       fn := ⟨[3, 4], []⟩, ext := ⟨0, 10⟩ } : St (Fn ℝ) (Newton1 ℝ) ℝ) :=
  ⟨by norm_num, by intro q hq; simp at hq; subst hq; rfl, rfl, rfl, le_refl _⟩

end Bpp.C10
