import BppProofs.Props.C15
import BppProofs.Props.C15Dag
import BppProofs.Lemmas.TreeCopy
/-!
# C15 — copies of the tree and DAG containers (model `BppModel/TreeCopy.lean`)

`TreeGraphImpl<GlobalGraph>` and `DAGraphImpl<GlobalGraph>` have compiler-generated copy constructors
and assignment operators: the tables of `GlobalGraph` are copied, then the cached flags.  Assigning
through the base class (`GlobalGraph::operator=`) runs the first half only and — as repaired — resets
the flags.  Proved here (helper lemmas in `Lemmas/TreeCopy.lean`):

* `copy_same_relations`, `assign_same_relations`, `graphAssign_relations` (and `dag_*`): a copy has the tables,
  the root, the directedness, the id counters and the flag(s) of its source; `graphAssign` has the tables of the
  graph and reset flag(s); self-assignment changes nothing;
* `heap_step_other`, `heap_copy_get` (and `dag_heap_*`): **independence** — several containers side by side
  (`Heap`): an operation writes one slot only, all the other containers are what they were, in particular a
  container is not touched by what happens to its copy;
* `heap_cache_sound`, `dag_heap_cache_sound`: over all heap histories (operations of C15 on any container,
  copies, assignments, base-class assignments, each succeeding or raising or addressing an absent slot)
  every container has sound cached flags and consistent tables.
-/
namespace Bpp.C15
open Bpp Bpp.Graph

/-! ## a copy has the relations and the flag of its source -/

/-- **copy_same_relations**: copy construction: same node table, edge table, root, directedness, id counters, and
the flag travels with the tables it was computed from -/
theorem copy_same_relations (t : T) :
    (T.copy t).g.nodes = t.g.nodes ∧ (T.copy t).g.edges = t.g.edges ∧ (T.copy t).g.root = t.g.root ∧
    (T.copy t).g.directed = t.g.directed ∧ (T.copy t).g.nextNode = t.g.nextNode ∧
    (T.copy t).g.nextEdge = t.g.nextEdge ∧ (T.copy t).valid = t.valid :=
  ⟨rfl, rfl, rfl, rfl, rfl, rfl, rfl⟩

/-- assignment from another object: the target is a copy of the source (nothing of the target is left) -/
theorem assign_same_relations (dst src : T) :
    (T.assign dst src false).g.nodes = src.g.nodes ∧ (T.assign dst src false).g.edges = src.g.edges ∧
    (T.assign dst src false).g.root = src.g.root ∧ (T.assign dst src false).g.directed = src.g.directed ∧
    (T.assign dst src false).g.nextNode = src.g.nextNode ∧ (T.assign dst src false).g.nextEdge = src.g.nextEdge ∧
    (T.assign dst src false).valid = src.valid ∧ T.assign dst src false = T.copy src :=
  ⟨rfl, rfl, rfl, rfl, rfl, rfl, rfl, rfl⟩

/-- assignment through the base class: the tables of the graph, and the flag is reset -/
theorem graphAssign_relations (dst : T) (g : G) :
    (T.graphAssign dst g false).g.nodes = g.nodes ∧ (T.graphAssign dst g false).g.edges = g.edges ∧
    (T.graphAssign dst g false).g.root = g.root ∧ (T.graphAssign dst g false).g.directed = g.directed ∧
    (T.graphAssign dst g false).g.nextNode = g.nextNode ∧ (T.graphAssign dst g false).g.nextEdge = g.nextEdge ∧
    (T.graphAssign dst g false).valid = false :=
  ⟨rfl, rfl, rfl, rfl, rfl, rfl, rfl⟩

/-- self-assignment, either way: nothing happens -/
theorem assign_self (dst src : T) (g : G) : T.assign dst src true = dst ∧ T.graphAssign dst g true = dst := ⟨rfl, rfl⟩

/-- **dag_copy_same_relations**: the same for the DAG container, with its two flags -/
theorem dag_copy_same_relations (d : D) :
    (D.copy d).g.nodes = d.g.nodes ∧ (D.copy d).g.edges = d.g.edges ∧ (D.copy d).g.root = d.g.root ∧
    (D.copy d).g.directed = d.g.directed ∧ (D.copy d).g.nextNode = d.g.nextNode ∧
    (D.copy d).g.nextEdge = d.g.nextEdge ∧ (D.copy d).valid = d.valid ∧ (D.copy d).rooted = d.rooted :=
  ⟨rfl, rfl, rfl, rfl, rfl, rfl, rfl, rfl⟩

theorem dag_assign_same_relations (dst src : D) :
    (D.assign dst src false).g.nodes = src.g.nodes ∧ (D.assign dst src false).g.edges = src.g.edges ∧
    (D.assign dst src false).g.root = src.g.root ∧ (D.assign dst src false).g.directed = src.g.directed ∧
    (D.assign dst src false).g.nextNode = src.g.nextNode ∧ (D.assign dst src false).g.nextEdge = src.g.nextEdge ∧
    (D.assign dst src false).valid = src.valid ∧ (D.assign dst src false).rooted = src.rooted ∧
    D.assign dst src false = D.copy src :=
  ⟨rfl, rfl, rfl, rfl, rfl, rfl, rfl, rfl, rfl⟩

theorem dag_graphAssign_relations (dst : D) (g : G) :
    (D.graphAssign dst g false).g.nodes = g.nodes ∧ (D.graphAssign dst g false).g.edges = g.edges ∧
    (D.graphAssign dst g false).g.root = g.root ∧ (D.graphAssign dst g false).g.directed = g.directed ∧
    (D.graphAssign dst g false).g.nextNode = g.nextNode ∧ (D.graphAssign dst g false).g.nextEdge = g.nextEdge ∧
    (D.graphAssign dst g false).valid = false ∧ (D.graphAssign dst g false).rooted = false :=
  ⟨rfl, rfl, rfl, rfl, rfl, rfl, rfl, rfl⟩

theorem dag_assign_self (dst src : D) (g : G) : D.assign dst src true = dst ∧ D.graphAssign dst g true = dst := ⟨rfl, rfl⟩

/-! ## independence: an operation writes one container only -/

/-- reading the slot just written -/
theorem heap_get_set_same {α : Type} (h : Heap α) (k : Nat) (a : α) : (h.set k a).get k = some a :=
  Heap.get_set_same h k a

/-- … and any other slot (absent slots stay absent) -/
theorem heap_get_set_other {α : Type} (h : Heap α) (k j : Nat) (a : α) (hj : j ≠ k) : (h.set k a).get j = h.get j :=
  Heap.get_set_other h k j a hj

/-- **heap_step_other** (`copy_independent`): whatever a heap operation is — an operation of the container in slot
`k`, a copy into `k`, an assignment to `k`, either way — every container other than the target
(`THOp.target`: `.op k _`, `.copy _ k`, `.assign _ k`, `.graphAssign _ k` ↦ `k`) is what it was -/
theorem heap_step_other (h : TH) (op : THOp) (j : Nat) (hj : j ≠ op.target) : (h.step op).get j = h.get j :=
  TH.step_other h op j hj

/-- the four cases spelt out -/
theorem copy_independent (h : TH) (j k i : Nat) (o : TOp) (hj : j ≠ k) :
    (h.step (.op k o)).get j = h.get j ∧ (h.step (.copy i k)).get j = h.get j ∧
    (h.step (.assign i k)).get j = h.get j ∧ (h.step (.graphAssign i k)).get j = h.get j :=
  ⟨heap_step_other h _ j hj, heap_step_other h _ j hj, heap_step_other h _ j hj, heap_step_other h _ j hj⟩

/-- **heap_copy_get**: copying container `j` into another slot `k` puts there the copy of `copy_same_relations`
(and leaves `j` alone, `heap_step_other`) -/
theorem heap_copy_get (h : TH) (j k : Nat) (s : T) (hs : h.get j = some s) (hjk : j ≠ k) :
    (h.step (.copy j k)).get k = some s.copy :=
  TH.copy_get h j k s hs hjk

theorem dag_heap_step_other (h : DH) (op : DHOp) (j : Nat) (hj : j ≠ op.target) : (h.step op).get j = h.get j :=
  DH.step_other h op j hj

theorem dag_copy_independent (h : DH) (j k i : Nat) (o : DOp) (hj : j ≠ k) :
    (h.step (.op k o)).get j = h.get j ∧ (h.step (.copy i k)).get j = h.get j ∧
    (h.step (.assign i k)).get j = h.get j ∧ (h.step (.graphAssign i k)).get j = h.get j :=
  ⟨dag_heap_step_other h _ j hj, dag_heap_step_other h _ j hj, dag_heap_step_other h _ j hj, dag_heap_step_other h _ j hj⟩

theorem dag_heap_copy_get (h : DH) (j k : Nat) (s : D) (hs : h.get j = some s) (hjk : j ≠ k) :
    (h.step (.copy j k)).get k = some s.copy :=
  DH.copy_get h j k s hs hjk

/-! ## the caches of all the containers are sound over all heap histories -/

/-- the flag of a copy is sound when the flag of the source is: the traversal reads the tables that were copied -/
theorem cacheSound_copy (t : T) (h : CacheSound t) : CacheSound t.copy := by
  intro hv
  rw [isTree_congr (g1 := t.copy.g) (g2 := t.g) rfl rfl rfl]
  exact h hv

theorem cacheSound_assign (d s : T) (b : Bool) (hd : CacheSound d) (hs : CacheSound s) : CacheSound (d.assign s b) := by
  unfold T.assign
  split
  · exact hd
  · exact cacheSound_copy s hs

/-- the repaired base-class assignment resets the flag, so nothing is claimed about tables never traversed -/
theorem cacheSound_graphAssign (d : T) (g : G) (b : Bool) (hd : CacheSound d) : CacheSound (d.graphAssign g b) := by
  unfold T.graphAssign
  split
  · exact hd
  · exact cacheSound_invalid

/-- **heap_cache_sound**: every container of every heap history — operations of the tree container on any slot,
copy constructions, assignments, base-class assignments, in any order — has a sound cache and consistent tables -/
theorem heap_cache_sound (d : Bool) (ops : List THOp) (k : Nat) (t : T) (h : ((TH.init d).run ops).get k = some t) :
    CacheSound t ∧ Consistent t.g := by
  have key := TH.all_run (fun t => CacheSound t ∧ TInv t)
    (fun t o ht => ⟨cacheSound_step t ht.1 o, T.tinv_step t ht.2 o⟩)
    (fun t ht => ⟨cacheSound_copy t ht.1, T.tinv_copy t ht.2⟩)
    (fun d s b hd hs => ⟨cacheSound_assign d s b hd.1 hs.1, T.tinv_assign d s b hd.2 hs.2⟩)
    (fun d s b hd hs => ⟨cacheSound_graphAssign d s.g b hd.1, T.tinv_graphAssign d s.g b hd.2 hs.2.1⟩)
    ops (TH.init d) (Heap.all_single ⟨cacheSound_empty d, T.tinv_empty d⟩)
  exact ⟨(key k t h).1, (key k t h).2.1⟩

/-- … hence every container of a heap history answers `isValid()` what the traversal answers on its own tables -/
theorem heap_isValid_is_isTree (d : Bool) (ops : List THOp) (k : Nat) (t : T) (h : ((TH.init d).run ops).get k = some t) :
    t.isValid.1 = T.isTree t.g := by
  have hs := (heap_cache_sound d ops k t h).1
  unfold T.isValid
  split
  · rename_i hv; rw [hs hv]
  · rcases hr : T.isTree t.g with b | _ | _ | _ <;> rfl

/-- **dag_heap_cache_sound**: the same for the DAG container: both flags sound, tables consistent and directed -/
theorem dag_heap_cache_sound (ops : List DHOp) (k : Nat) (d : D) (h : (DH.init.run ops).get k = some d) :
    DagCacheSound d ∧ Consistent d.g ∧ d.g.directed = true := by
  have key := DH.all_run D.Inv (fun t o ht => D.inv_step t ht o) D.inv_copy D.inv_assign
    (fun d s b hd hs => D.inv_graphAssign d s.g b hd hs.1) ops DH.init (Heap.all_single D.inv_empty)
  exact ⟨(key k d h).2, (key k d h).1.1, (key k d h).1.2⟩

/-! ## non-vacuity -/

/-- a valid tree 0 -> 1 whose cache is written (slot 0), copied into slot 1; the copy is edited into a non-tree
(an isolated node): the original still has its flag and still is a tree; the flag of the copy is reset and
`isValid()` answers false there -/
example :
    let h := (TH.init true).run [.op 0 .createNode, .op 0 .createNode, .op 0 (.link 0 1), .op 0 .isValid,
      .copy 0 1, .op 1 .createNode]
    (h.get 0).map (·.valid) = some true ∧ (h.get 0).map (fun t => T.isTree t.g) = some (.ok true) ∧
    (h.get 1).map (·.valid) = some false ∧ (h.get 1).map (fun t => t.isValid.1) = some (.ok false) ∧
    (h.get 2).isNone = true := by decide

/-- before the edit the copy has the flag of the original -/
example :
    let h := (TH.init true).run [.op 0 .createNode, .op 0 .createNode, .op 0 (.link 0 1), .op 0 .isValid, .copy 0 1]
    (h.get 1).map (·.valid) = some true ∧ (h.get 1).map (·.g) = (h.get 0).map (·.g) := by decide

/-- base-class assignment of a 2-node non-tree (slot 1: the copy with its relation removed) over the container
whose flag was set (slot 0): the flag is false afterwards, the tables are those of the non-tree, and `isValid()`
answers false (the unrepaired code answered true from the cache) -/
example :
    let h := (TH.init true).run [.op 0 .createNode, .op 0 .createNode, .op 0 (.link 0 1), .op 0 .isValid,
      .copy 0 1, .op 1 (.unlink 0 1), .graphAssign 1 0]
    (h.get 0).map (·.valid) = some false ∧ (h.get 0).map (·.g) = (h.get 1).map (·.g) ∧
    (h.get 0).map (fun t => t.isValid.1) = some (.ok false) := by decide

/-- the DAG container: the diamond 0 -> 1 -> 3, 0 -> 2 -> 3, both caches written, copied; the copy gets the relation
3 -> 0 (a cycle): the original keeps its flags and is acyclic, the flags of the copy are reset and it answers false -/
example :
    let h := DH.init.run [.op 0 .createNode, .op 0 .createNode, .op 0 .createNode, .op 0 .createNode,
      .op 0 (.addSon 0 1), .op 0 (.addSon 0 2), .op 0 (.addSon 1 3), .op 0 (.addSon 2 3), .op 0 .isRooted, .op 0 .isValid,
      .copy 0 1, .op 1 (.link 3 0)]
    (h.get 0).map (·.valid) = some true ∧ (h.get 0).map (·.rooted) = some true ∧
    (h.get 0).map (fun d => D.isDA d.g) = some (.ok true) ∧
    (h.get 1).map (·.valid) = some false ∧ (h.get 1).map (·.rooted) = some false ∧
    (h.get 1).map (fun d => d.isValid.1) = some (.ok false) := by decide

/-- base-class assignment of the cyclic graph over the flagged original: both flags false afterwards -/
example :
    let h := DH.init.run [.op 0 .createNode, .op 0 .createNode, .op 0 .createNode, .op 0 .createNode,
      .op 0 (.addSon 0 1), .op 0 (.addSon 0 2), .op 0 (.addSon 1 3), .op 0 (.addSon 2 3), .op 0 .isRooted, .op 0 .isValid,
      .copy 0 1, .op 1 (.link 3 0), .graphAssign 1 0]
    (h.get 0).map (·.valid) = some false ∧ (h.get 0).map (·.rooted) = some false ∧
    (h.get 0).map (·.g) = (h.get 1).map (·.g) := by decide

end Bpp.C15
