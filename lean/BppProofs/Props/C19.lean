import BppProofs.Lemmas.Simplex
/-!
# C19 — simplex parametrisations   (src/Bpp/Numeric/Prob/Simplex.{h,cpp})

Property theorems only (helper lemmas: `Lemmas/Simplex.lean`).  All statements are about the
model `BppModel/Simplex.lean` interpreted over `ℝ` (exact arithmetic; rounding is not modelled),
for every dimension.
-/
namespace Bpp.C19
open Bpp Bpp.Simplex

/-! ## method 1: global ratio -/

/-- any parameter vector (no hypothesis at all) gives probabilities that sum to one -/
theorem global_probs_sum_one (θ : List ℝ) : (probsGlobal θ 1).sum = 1 :=
  probsGlobal_sum θ 1

theorem global_probs_nonneg (θ : List ℝ) (h : ∀ t ∈ θ, 0 ≤ t ∧ t ≤ 1) :
    ∀ p ∈ probsGlobal θ 1, 0 ≤ p :=
  probsGlobal_nonneg θ 1 zero_le_one h

theorem global_probs_pos (θ : List ℝ) (h : InOpen θ) : AllPos (probsGlobal θ 1) :=
  probsGlobal_pos θ 1 one_pos h

theorem global_roundtrip (p : List ℝ) (hp : AllPos p) (hne : p ≠ []) (hs : p.sum = 1) :
    probsGlobal (paramsGlobal p 1) 1 = p :=
  Simplex.global_roundtrip p 1 hp hne hs

theorem global_params_in_constraints (p : List ℝ) (hp : AllPos p) (hs : p.sum = 1) :
    InOpen (paramsGlobal p 1) :=
  paramsGlobal_inOpen p 1 hp hs

theorem global_left_inverse (θ : List ℝ) (h : InOpen θ) :
    paramsGlobal (probsGlobal θ 1) 1 = θ :=
  Simplex.global_left_inverse θ 1 one_ne_zero (fun t m => ne_of_lt (h t m).2)

theorem global_injective (θ θ' : List ℝ) (h : InOpen θ) (h' : InOpen θ')
    (e : probsGlobal θ 1 = probsGlobal θ' 1) : θ = θ' := by
  rw [← global_left_inverse θ h, e, global_left_inverse θ' h']

/-! ## method 2: local ratio -/

theorem local_probs_sum_one (dim : Nat) (θ : List ℝ) (h : InOpen θ) : (probsLocal dim θ).sum = 1 :=
  probsLocal_sum dim θ h

theorem local_probs_pos (dim : Nat) (θ : List ℝ) (h : InOpen θ) : AllPos (probsLocal dim θ) :=
  probsLocal_pos dim θ h

theorem local_roundtrip (dim : Nat) (p : List ℝ) (hp : AllPos p) (hne : p ≠ []) (hs : p.sum = 1) :
    probsLocal dim (paramsLocal p) = p :=
  Simplex.local_roundtrip dim p hp hne hs

theorem local_params_in_constraints (p : List ℝ) (hp : AllPos p) : InOpen (paramsLocal p) :=
  paramsLocal_inOpen p hp

theorem local_left_inverse (dim : Nat) (θ : List ℝ) (h : InOpen θ) :
    paramsLocal (probsLocal dim θ) = θ :=
  Simplex.local_left_inverse dim θ h

theorem local_injective (dim : Nat) (θ θ' : List ℝ) (h : InOpen θ) (h' : InOpen θ')
    (e : probsLocal dim θ = probsLocal dim θ') : θ = θ' := by
  rw [← local_left_inverse dim θ h, e, local_left_inverse dim θ' h']

end Bpp.C19
