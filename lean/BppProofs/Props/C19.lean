import BppProofs.Lemmas.Simplex
/-!
# C19 — simplex parametrisations   (src/Bpp/Numeric/Prob/Simplex.{h,cpp})

Property theorems only (helper lemmas: `Lemmas/Simplex.lean`).  All statements are about the
model `BppModel/Simplex.lean` interpreted over `ℝ` (exact arithmetic; rounding is not modelled),
for EVERY dimension: induction on the list of parameters (global and local ratio), on the bit
length (binary coding), on the list of values (ordered variant), on the list of calls (histories).

The only bound is `dim < 2^31` for the binary coding: the C++ computes `1 << (ld-1)` on `int`,
which is undefined beyond; the model's `clearBit` is the 64-bit `k & ~(1 << b)` and the lemma
`clearBit_eq` needs `b < 64`.

Hypotheses are exactly the property's: parameters in the open cube `]0,1[^(n-1)` (`InOpen`),
probability vectors with positive entries summing to one (`AllPos`, `sum = 1`, `ValidProbs`).
They guarantee that every denominator met by the code is non-zero, so none of these statements
relies on `x / 0 = 0`.  The exception are the theorems that admit ARBITRARY vectors on objects with
the strict constraint (`invariant_all_histories_strict` here; `history_inv`, `setFrequencies_preserves`,
`rejected_setFrequencies_*` in `C19Obj.lean`): there `paramsOf` / `ratios` may divide by zero, where ℝ
gives `x / 0 = 0` and the C++ gives ±inf or NaN.  The outcome of the call coincides all the same:
0, NaN and ±inf are all outside `]0,1[`, `matchParametersValues` tests every value before writing any
and rejects the whole list on one bad value, so both sides reject and leave the object unchanged
(only the dead ratio cache then holds 0 in ℝ and inf/NaN in the C++; at `Float` the model computes
inf/NaN too).  Under `allowNull` — where Lean's `0 ∈ [0,1]` would be accepted while the C++ NaN is
rejected (method 1, p = (1,0,0)) — only positive vectors are admitted.
-/
namespace Bpp.C19
open Bpp Bpp.Simplex

/-! ## method 1: global ratio -/

/-- any parameter vector (no hypothesis at all) gives probabilities that sum to one -/
theorem global_probs_sum_one (θ : List ℝ) : (probsGlobal θ 1).sum = 1 :=
  probsGlobal_sum θ 1

theorem global_probs_nonneg (θ : List ℝ) (h : ∀ t ∈ θ, 0 ≤ t ∧ t ≤ 1) :
    ∀ p ∈ probsGlobal θ 1, 0 ≤ p :=
  probsGlobal_nonneg θ 1 zero_le_one h

theorem global_probs_pos (θ : List ℝ) (h : InOpen θ) : AllPos (probsGlobal θ 1) :=
  probsGlobal_pos θ 1 one_pos h

theorem global_roundtrip (p : List ℝ) (hp : AllPos p) (hne : p ≠ []) (hs : p.sum = 1) :
    probsGlobal (paramsGlobal p 1) 1 = p :=
  Simplex.global_roundtrip p 1 hp hne hs

theorem global_params_in_constraints (p : List ℝ) (hp : AllPos p) (hs : p.sum = 1) :
    InOpen (paramsGlobal p 1) :=
  paramsGlobal_inOpen p 1 hp hs

theorem global_left_inverse (θ : List ℝ) (h : InOpen θ) :
    paramsGlobal (probsGlobal θ 1) 1 = θ :=
  Simplex.global_left_inverse θ 1 one_ne_zero (fun t m => ne_of_lt (h t m).2)

theorem global_injective (θ θ' : List ℝ) (h : InOpen θ) (h' : InOpen θ')
    (e : probsGlobal θ 1 = probsGlobal θ' 1) : θ = θ' := by
  rw [← global_left_inverse θ h, e, global_left_inverse θ' h']

/-! ## method 2: local ratio -/

theorem local_probs_sum_one (dim : Nat) (θ : List ℝ) (h : InOpen θ) : (probsLocal dim θ).sum = 1 :=
  probsLocal_sum dim θ h

theorem local_probs_pos (dim : Nat) (θ : List ℝ) (h : InOpen θ) : AllPos (probsLocal dim θ) :=
  probsLocal_pos dim θ h

/-- the `x > TINY` rescue branch (Simplex.cpp:166-175) is dead on the open cube -/
theorem local_rescue_branch_dead (dim : Nat) (θ : List ℝ) (h : InOpen θ) :
    probsLocal dim θ = (rawLocal (alphas θ) 1).map (fun v => v / (rawLocal (alphas θ) 1).sum) :=
  probsLocal_eq dim θ h

theorem local_roundtrip (dim : Nat) (p : List ℝ) (hp : AllPos p) (hne : p ≠ []) (hs : p.sum = 1) :
    probsLocal dim (paramsLocal p) = p :=
  Simplex.local_roundtrip dim p hp hne hs

/-- without the hypothesis on the sum the coding normalises -/
theorem local_roundtrip_normalises (dim : Nat) (p : List ℝ) (hp : AllPos p) (hne : p ≠ []) :
    probsLocal dim (paramsLocal p) = p.map (fun q => q / p.sum) :=
  Simplex.local_roundtrip_normalises dim p hp hne

theorem local_params_in_constraints (p : List ℝ) (hp : AllPos p) : InOpen (paramsLocal p) :=
  paramsLocal_inOpen p hp

theorem local_left_inverse (dim : Nat) (θ : List ℝ) (h : InOpen θ) :
    paramsLocal (probsLocal dim θ) = θ :=
  Simplex.local_left_inverse dim θ h

theorem local_injective (dim : Nat) (θ θ' : List ℝ) (h : InOpen θ) (h' : InOpen θ')
    (e : probsLocal dim θ = probsLocal dim θ') : θ = θ' := by
  rw [← local_left_inverse dim θ h, e, local_left_inverse dim θ' h']

/-! ## method 3: binary coding (general induction on the bit length, every dimension) -/

/-- any parameter vector (no hypothesis on its values or its length) -/
theorem binary_probs_sum_one (dim : Nat) (θ : List ℝ) (hd : 0 < dim) (h31 : dim < 2 ^ 31) :
    (probsBinary dim θ).sum = 1 :=
  probsBinary_sum dim θ hd h31

theorem binary_probs_nonneg (dim : Nat) (θ : List ℝ) (h : ∀ t ∈ θ, 0 ≤ t ∧ t ≤ 1) :
    ∀ p ∈ probsBinary dim θ, 0 ≤ p :=
  probsBinary_nonneg dim θ h

theorem binary_probs_pos (dim : Nat) (θ : List ℝ) (hl : θ.length = dim - 1) (h : InOpen θ)
    (h31 : dim < 2 ^ 31) : AllPos (probsBinary dim θ) :=
  probsBinary_pos dim θ hl h h31

/-- the marginal structure behind the coding: the mass of the indices `≡ r (mod 2^b)` is the
product of the factors of the `b` low bits -/
theorem binary_marginals (dim : Nat) (θ : Nat → ℝ) (B : Nat) (hB : B ≤ 64) (hdim : dim ≤ 2 ^ B)
    (b : Nat) (hb : b ≤ B) (r : Nat) (hr : r < 2 ^ b) (hrd : r < dim) :
    M dim (fun i => W dim θ B i) b r = W dim θ b r :=
  marginal_walk dim θ B hB hdim (B - b) b (by omega) r hr hrd

theorem binary_roundtrip (p : List ℝ) (hp : AllPos p) (hs : p.sum = 1) (h31 : p.length < 2 ^ 31) :
    probsBinary p.length (paramsBinary p) = p := by
  rw [binary_roundtrip_normalises p hp h31, hs]; simp

theorem binary_roundtrip_normalises (p : List ℝ) (hp : AllPos p) (h31 : p.length < 2 ^ 31) :
    probsBinary p.length (paramsBinary p) = p.map (fun q => q / p.sum) :=
  Simplex.binary_roundtrip_normalises p hp h31

theorem binary_params_in_constraints (p : List ℝ) (hp : AllPos p) (h31 : p.length < 2 ^ 31) :
    InOpen (paramsBinary p) :=
  paramsBinary_inOpen p hp h31

theorem binary_left_inverse (dim : Nat) (θ : List ℝ) (hl : θ.length = dim - 1) (h : InOpen θ)
    (h31 : dim < 2 ^ 31) : paramsBinary (probsBinary dim θ) = θ :=
  Simplex.binary_left_inverse dim θ hl h h31

theorem binary_injective (dim : Nat) (θ θ' : List ℝ) (hl : θ.length = dim - 1)
    (hl' : θ'.length = dim - 1) (h : InOpen θ) (h' : InOpen θ') (h31 : dim < 2 ^ 31)
    (e : probsBinary dim θ = probsBinary dim θ') : θ = θ' := by
  rw [← binary_left_inverse dim θ hl h h31, e, binary_left_inverse dim θ' hl' h' h31]

/-- the walk never reads a parameter outside theta_1 .. theta_(dim-1): the default value of the
model's `lookup` is irrelevant -/
theorem binary_reads_only_existing_parameters (dim : Nat) (θ θ' : Nat → ℝ)
    (h : ∀ k, 1 ≤ k → k < dim → θ k = θ' k) (b k : Nat) (hb : b ≤ 64) (hk : k < 2 ^ b) (hd : k < dim) :
    W dim θ b k = W dim θ' b k :=
  W_congr dim θ θ' h b k hb hk hd

/-! ## the three codings through `probsOf` / `paramsOf` (the `switch (method_)`) -/

theorem probs_sum_one (m dim : Nat) (θ : List ℝ) (hm : ValidMethod m) (hd : 0 < dim)
    (h31 : dim < 2 ^ 31) (hl : θ.length = dim - 1) (h : InOpen θ) :
    ∃ p, probsOf m dim θ = some p ∧ p.length = dim ∧ p.sum = 1 ∧ AllPos p :=
  probsOf_spec m dim θ hm hd h31 hl h

theorem roundtrip (m : Nat) (p : List ℝ) (hm : ValidMethod m) (hp : ValidProbs p) :
    probsOf m p.length (paramsOf m p) = some p :=
  roundtrip_all m p hm hp.pos hp.ne hp.sum hp.len

theorem params_in_constraints (m : Nat) (p : List ℝ) (hm : ValidMethod m) (hp : ValidProbs p) :
    InOpen (paramsOf m p) ∧ (paramsOf m p).length = p.length - 1 :=
  ⟨paramsOf_inOpen m p hm hp.pos hp.sum hp.len, paramsOf_length m p hm⟩

theorem left_inverse (m dim : Nat) (θ p : List ℝ) (hm : ValidMethod m) (h31 : dim < 2 ^ 31)
    (hl : θ.length = dim - 1) (h : InOpen θ) (e : probsOf m dim θ = some p) : paramsOf m p = θ :=
  left_inverse_all m dim θ p hm h31 hl h e

theorem injective (m dim : Nat) (θ θ' : List ℝ) (hm : ValidMethod m) (h31 : dim < 2 ^ 31)
    (hl : θ.length = dim - 1) (hl' : θ'.length = dim - 1) (h : InOpen θ) (h' : InOpen θ')
    (e : probsOf m dim θ = probsOf m dim θ') : θ = θ' := by
  rcases Nat.eq_zero_or_pos dim with h0 | h0
  · subst h0
    have e1 : θ = [] := List.length_eq_zero_iff.mp (by simpa using hl)
    have e2 : θ' = [] := List.length_eq_zero_iff.mp (by simpa using hl')
    rw [e1, e2]
  · obtain ⟨p, hp, _⟩ := probsOf_spec m dim θ hm h0 h31 hl h
    rw [← left_inverse m dim θ p hm h31 hl h hp, left_inverse m dim θ' p hm h31 hl' h' (e ▸ hp)]

/-! ## the object: constructors, setters, every history -/

/-- construction from a probability vector: accepted, returned unchanged, parameters inside
their constraint, invariant established -/
theorem construct_roundtrip (p : List ℝ) (m : Nat) (a : Bool) (hm : ValidMethod m) (hp : ValidProbs p) :
    ∃ s, construct p m a = .ok s ∧ s.probs = p ∧ s.params = paramsOf m p ∧ Inv s ∧ s.allowNull = a :=
  construct_ok p m a hm hp

/-- construction from a dimension: the uniform vector -/
theorem constructDim_uniform (dim m : Nat) (a : Bool) (hm : ValidMethod m) (hd : 0 < dim)
    (h31 : dim < 2 ^ 31) :
    ∃ s, constructDim dim m a = .ok s ∧ s.probs = uniform dim ∧ Inv s ∧ s.allowNull = a ∧ s.dim = dim
      ∧ s.method = m :=
  constructDim_ok dim m a hm hd h31

/-- the frequency setter: accepted, and the getter returns the vector unchanged -/
theorem setFrequencies_roundtrip (s : St ℝ) (h : Inv s) (p : List ℝ) (hp : ValidProbs p)
    (hl : p.length = s.dim) :
    ∃ s', setFrequencies s p = .ok s' ∧ s'.probs = p ∧ s'.params = paramsOf s.method p ∧ Inv s' :=
  setFrequencies_ok s h p hp hl

theorem setParameters_ok (s : St ℝ) (h : Inv s) (θ : List ℝ) (hl : θ.length = s.dim - 1) (ho : InOpen θ) :
    ∃ s', matchParams s θ = .ok s' ∧ Inv s' ∧ s'.params = θ ∧ s'.dim = s.dim ∧ s'.method = s.method
      ∧ s'.allowNull = s.allowNull :=
  matchParams_ok s h θ hl ho

theorem setParameterValue_ok (s : St ℝ) (h : Inv s) (i : Nat) (v : ℝ) (hi : 1 ≤ i ∧ i < s.dim)
    (hv : 0 < v ∧ v < 1) :
    ∃ s', setOne s i v = .ok s' ∧ Inv s' ∧ s'.params = s.params.set (i - 1) v :=
  setOne_ok s h i v hi hv

/-- what the invariant gives to an observer -/
theorem inv_is_probability_vector (s : St ℝ) (h : Inv s) :
    s.probs.sum = 1 ∧ AllPos s.probs ∧ s.probs.length = s.dim ∧ InOpen s.params :=
  ⟨h.sum_one.1, h.sum_one.2.1, h.sum_one.2.2, h.inOpen⟩

/-- Strict constraint (`allowNull = false`): after ANY sequence of calls with ANY values in their
arguments (rejected calls raise and change nothing) the object holds a probability vector and
parameters inside their constraint.  `WellFormed`: `matchParametersValues` gets one value per
parameter, `setFrequencies` a vector of AT LEAST `dim` entries — a shorter one is read out of bounds
by the C++ (undefined behaviour; the model's `Err.ub` is a label, not a behaviour). -/
theorem invariant_all_histories_strict (s : St ℝ) (h : Inv s) (ha : s.allowNull = false)
    (ops : List Op) (hw : ∀ o ∈ ops, WellFormed s.dim o) :
    Inv (run s ops) :=
  inv_run_strict s h ha ops hw

/-- Either constraint: any sequence of calls whose arguments are inside the property's
quantifier (positive probability vectors, parameters in the open cube) is accepted throughout
and keeps the invariant. -/
theorem invariant_admissible_histories (s : St ℝ) (h : Inv s) (ops : List Op)
    (hw : ∀ o ∈ ops, Admissible s.dim o) : Inv (run s ops) :=
  inv_run_admissible s h ops hw

/-! Copies, assignment, the heap of objects with all their data members, the invariant over all
histories of several objects: `Props/C19Obj.lean`.  The object `St` of this section (dimension,
method, one constraint flag, parameter values, probabilities — what C09 / C13 build on) is the
projection of the full object model run by the driver: `C19.value_model_is_projection`,
`C19.ordered_value_model_is_projection`. -/

/-! ## OrderedSimplex -/

theorem ordered_values_sum (p : List ℝ) : (orderedValues p 1).sum = p.sum :=
  orderedValues_sum_eq p

theorem ordered_values_nonincreasing (p : List ℝ) (h : ∀ x ∈ p, 0 ≤ x) :
    NonIncreasing (orderedValues p 1) ∧ ∀ v ∈ orderedValues p 1, 0 ≤ v :=
  orderedValues_nonincreasing p 1 h

/-- the two maps of the ordered variant are inverse of each other -/
theorem ordered_maps_inverse (l : List ℝ) :
    orderedValues (orderedToProbs l 1) 1 = l ∧ orderedToProbs (orderedValues l 1) 1 = l :=
  ⟨orderedValues_toProbs l 1 (le_refl _), orderedToProbs_values l 1 (le_refl _)⟩

/-- on every reachable state: non-increasing non-negative values that sum to one -/
theorem ordered_nonincreasing_sum_one (o : OSt ℝ) (h : OInv o) :
    NonIncreasing o.values ∧ o.values.sum = 1 ∧ (∀ v ∈ o.values, 0 ≤ v) ∧ o.values.length = o.base.dim :=
  h.spec

theorem ordered_roundtrip (o : OSt ℝ) (h : Inv o.base) (v : List ℝ) (hv : ValidOrdered v)
    (hl : v.length = o.base.dim) :
    ∃ o', oSetFrequencies o v = .ok o' ∧ o'.values = v ∧ OInv o' ∧ o'.base.probs = orderedToProbs v 1 :=
  oSetFrequencies_ok o h v hv hl

theorem ordered_construct_roundtrip (v : List ℝ) (m : Nat) (a : Bool) (hm : ValidMethod m)
    (hv : ValidOrdered v) :
    ∃ o, oConstruct v m a = .ok o ∧ o.values = v ∧ OInv o ∧ o.base.allowNull = a :=
  oConstruct_ok v m a hm hv

theorem ordered_constructDim (dim m : Nat) (a : Bool) (hm : ValidMethod m) (hd : 0 < dim)
    (h31 : dim < 2 ^ 31) :
    ∃ o, oConstructDim dim m a = .ok o ∧ OInv o ∧ o.base.dim = dim ∧ o.base.method = m
      ∧ o.base.allowNull = a :=
  oConstructDim_ok dim m a hm hd h31

theorem ordered_setParameters_ok (o : OSt ℝ) (h : OInv o) (θ : List ℝ) (hl : θ.length = o.base.dim - 1)
    (ho : InOpen θ) : ∃ o', oMatchParams o θ = .ok o' ∧ OInv o' ∧ o'.base.params = θ :=
  oMatchParams_ok o h θ hl ho

theorem ordered_setParameterValue_ok (o : OSt ℝ) (h : OInv o) (i : Nat) (v : ℝ)
    (hi : 1 ≤ i ∧ i < o.base.dim) (hv : 0 < v ∧ v < 1) : ∃ o', oSetOne o i v = .ok o' ∧ OInv o' :=
  oSetOne_ok o h i v hi hv

/-! ### the defect of the unchanged tree (repaired; see findings/C19.json) -/

/-- the object built by `OrderedSimplex({1/2, 3/10, 1/5}, method 1)` -/
noncomputable def witnessObj : OSt ℝ :=
  ⟨⟨3, 1, false, [1/5, 1/4], [1/5, 1/5, 3/5]⟩, [1/2, 3/10, 1/5]⟩

theorem witnessObj_inv : OInv witnessObj := by
  refine ⟨⟨Or.inl rfl, by simp [witnessObj], by simp [witnessObj], by simp [witnessObj], ?_, ?_⟩, ?_⟩
  · intro x hx; simp [witnessObj] at hx; rcases hx with rfl | rfl <;> norm_num
  · simp [witnessObj, probsOf, probsGlobal]; norm_num
  · simp [witnessObj, orderedValues]; norm_num

/-- it IS the object the constructor builds -/
theorem witnessObj_reachable : oConstruct ([1/2, 3/10, 1/5] : List ℝ) 1 false = .ok witnessObj := by
  have hv : ValidOrdered ([1/2, 3/10, 1/5] : List ℝ) := by
    refine ⟨?_, by simp, by norm_num, by simp⟩
    simp [StrictDecrPos]; norm_num
  obtain ⟨s, e, _, hi, ha, hdim, hme⟩ := constructDim_ok 3 1 false (Or.inl rfl) (by norm_num) (by norm_num)
  obtain ⟨o', e', hval, hoi, hpr⟩ := oSetFrequencies_ok ⟨s, [1/2, 3/10, 1/5]⟩ hi _ hv (by simp [hdim])
  have hc : oConstruct ([1/2, 3/10, 1/5] : List ℝ) 1 false = .ok o' := by
    simp only [oConstruct, List.length_cons, List.length_nil]
    rw [e]; exact e'
  rw [hc]
  -- the fields of o'
  have hne : ¬ (([1/2, 3/10, 1/5] : List ℝ).length = 0) := by simp
  have hne2 : ¬ (([1/2, 3/10, 1/5] : List ℝ).length ≠ s.dim) := by simp [hdim]
  simp only [oSetFrequencies, hne, hne2, if_false] at e'
  cases e1 : setFrequencies s (orderedToProbs ([1/2, 3/10, 1/5] : List ℝ) 1) with
  | error err => rw [e1] at e'; cases e'
  | ok b =>
    rw [e1] at e'
    have hob : o' = ⟨b, [1/2, 3/10, 1/5]⟩ := by cases e'; rfl
    have hsame := applyOp_same s b (.setFreq (orderedToProbs ([1/2, 3/10, 1/5] : List ℝ) 1)) e1
    have hp : orderedToProbs ([1/2, 3/10, 1/5] : List ℝ) 1 = [1/5, 1/5, 3/5] := by
      simp [orderedToProbs]; norm_num
    have hbp : b.probs = [1/5, 1/5, 3/5] := by rw [← hp, ← hpr, hob]
    have hbi : Inv b := by rw [hob] at hoi; exact hoi.base
    have hpar : b.params = [1/5, 1/4] := by
      have := left_inverse_all b.method b.dim b.params b.probs hbi.method hbi.dim_lt hbi.len hbi.inOpen hbi.probs
      rw [← this, hsame.2.1, hme, hbp]
      simp [paramsOf, paramsGlobal]; norm_num
    rw [hob]
    cases b
    simp only at hbp hpar hsame
    obtain ⟨h1, h2, h3⟩ := hsame
    simp only at h1 h2 h3
    subst hbp hpar
    simp [witnessObj, h1, h2, h3, hdim, hme, ha]

/-- `OrderedSimplex::setFrequencies` as it was: the increasing vector (1/5, 3/10, 1/2) is
rejected (ConstraintException) and nevertheless stays in the object, which then violates
`ordered_nonincreasing_sum_one`.  Replayed on the implementation: corpus/C19. -/
theorem ordered_setFrequencies_orig_keeps_rejected :
    oSetFrequenciesOrig witnessObj [1/5, 3/10, 1/2] =
      (⟨witnessObj.base, [1/5, 3/10, 1/2]⟩, some Err.constraint)
    ∧ ¬ NonIncreasing ([1/5, 3/10, 1/2] : List ℝ) := by
  have h1 : sumOk (orderedToProbs ([1/5, 3/10, 1/2] : List ℝ) 1) = true := by
    apply sumOk_of
    rw [orderedToProbs_sum]; norm_num
  have h2 : ((paramsOf 1 (List.take 3 (orderedToProbs ([1/5, 3/10, 1/2] : List ℝ) 1))).all
      (inConstraint false)) = false := by
    simp [orderedToProbs, paramsOf, paramsGlobal, inConstraint, Scalar.gtb, Scalar.ltb]
    norm_num
  have h3 : ¬ ((orderedToProbs ([1/5, 3/10, 1/2] : List ℝ) 1).length ≠ 3) := by
    rw [orderedToProbs_length]; simp
  constructor
  · simp only [oSetFrequenciesOrig, witnessObj, setFrequencies, matchParams, h1, h2, h3]
    simp
  · simp [NonIncreasing]; norm_num

/-- as it was, the setter on the empty vector (reached from `OrderedSimplex(std::vector<double>())`)
indexed out of bounds; repaired: returns at once -/
theorem ordered_setFrequencies_orig_empty_undefined (o : OSt ℝ) :
    (oSetFrequenciesOrig o []).2 = some Err.ub ∧ oSetFrequencies o [] = .ok o := by
  simp [oSetFrequenciesOrig, oSetFrequencies]

/-- the repaired setter on the same call: raises, and (being an `Except`) returns no new object -/
theorem ordered_setFrequencies_rejects_witness :
    oSetFrequencies witnessObj [1/5, 3/10, 1/2] = .error Err.constraint := by
  have h1 : sumOk (orderedToProbs ([1/5, 3/10, 1/2] : List ℝ) 1) = true := by
    apply sumOk_of
    rw [orderedToProbs_sum]; norm_num
  have h2 : ((paramsOf 1 (List.take 3 (orderedToProbs ([1/5, 3/10, 1/2] : List ℝ) 1))).all
      (inConstraint false)) = false := by
    simp [orderedToProbs, paramsOf, paramsGlobal, inConstraint, Scalar.gtb, Scalar.ltb]
    norm_num
  have h3 : ¬ ((orderedToProbs ([1/5, 3/10, 1/2] : List ℝ) 1).length ≠ 3) := by
    rw [orderedToProbs_length]; simp
  simp only [oSetFrequencies, witnessObj, setFrequencies, matchParams, h1, h2, h3]
  simp
  rfl

/-! ## non-vacuity of the hypotheses -/

example : InOpen ([1/2, 1/3, 9/10] : List ℝ) := by
  intro x hx; simp at hx; rcases hx with rfl | rfl | rfl <;> norm_num
example : ValidProbs ([1/2, 1/4, 1/8, 1/8] : List ℝ) := by
  refine ⟨?_, by simp, by norm_num, by simp⟩
  intro x hx; simp at hx; rcases hx with rfl | rfl | rfl | rfl <;> norm_num
example : ValidOrdered ([1/2, 3/10, 1/5] : List ℝ) := by
  refine ⟨?_, by simp, by norm_num, by simp⟩
  simp [StrictDecrPos]; norm_num
example : ValidMethod 3 := Or.inr (Or.inr rfl)
example : ∃ s : St ℝ, Inv s ∧ s.allowNull = false := by
  obtain ⟨s, _, _, hi, ha, _⟩ := constructDim_ok 5 3 false (Or.inr (Or.inr rfl)) (by norm_num) (by norm_num)
  exact ⟨s, hi, ha⟩

end Bpp.C19
