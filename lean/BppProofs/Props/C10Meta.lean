import BppProofs.Lemmas.OptimMetaProof
/-!
# C10, part 12 — `MetaOptimizer`

The meta-optimiser in the configuration the harness builds (model in `BppModel/OptimMeta.lean`): a
`SimpleMultiDimensions` for a first group of parameter names and a `BfgsMultiDimensions` for a second
one, both making one `step` or a whole `optimize` per step of the meta-optimiser, on the objective of the
harness: any objective `obj : List ℝ → ℝ`, any derivatives, any dimension, any subset of the function's
parameters in any order, any constraints, the three constraint policies, any groups (they may overlap, be
empty, or name parameters that are not optimised), any schedule of tolerances (`log10` is arbitrary), any
cap / number of steps.  Over `ℝ`.

Hypotheses: on the list given to `init`, what `ParameterList` and the harness guarantee — precision 0 and
feasible values (`Good`), distinct names that are parameters of the function —, and **neither group of
names contains a repetition**: `doInit` builds the sub-lists with `ParameterList::addParameter`, which
raises for a name already in the list; the model (`metaSubList`) does not transcribe that exception, so
the groups are taken without repetition (as `MetaOptimizerInfos` is used by the harness).  The two groups
need *not* be disjoint: each sub-optimiser starts from a fresh copy of the meta-optimiser's values.
-/
namespace Bpp.C10
open Bpp Bpp.Optim

/-- **meta_step_descent**.  A `MetaOptimizer::doStep` from a state in which the optimiser's parameters are
good, named `ns` (distinct parameters of the function), held by the function, the sub-lists are good
parameters with distinct names among `ns` (`Meta.Sub`, what `doInit` builds), and the current value is
the objective at the function's point: the same holds afterwards, the value returned is the objective at
the point the function is left at, and it is not above the optimiser's current value.

Each sub-optimiser that has parameters gets the meta-optimiser's values (`matchParametersValues`: its list
then holds the function's coordinates, so its `init` does not move the function), runs (`step` or
`optimize`: never above where it started, function left at its list, no coordinate outside its list
moved), and its values are copied back (the meta-optimiser's list again holds the function's
coordinates). -/
theorem meta_step_descent (obj : List ℝ → ℝ) (D : Deriv ℝ) (cap : Option Nat) (fuel : Nat) (len : Nat)
    (ns : List Nat) (hns : ns.Nodup ∧ ∀ n ∈ ns, n < len) (s s' : St (Fn ℝ) (Meta ℝ) ℝ) (v : ℝ)
    (hi : Coord.Inv len ns s) (hsub : Meta.Sub ns s.ext) (hcur : s.core.cur = obj s.fn.point)
    (h : metaDoStep (Fn.iface obj D cap) fuel s = .ok (s', v)) :
    Coord.Inv len ns s' ∧ Meta.Sub ns s'.ext ∧ v = obj s'.fn.point ∧ Spec.descent v s.core.cur = true := by
  obtain ⟨a, b, c, d, -⟩ := metaDoStep_spec obj D cap fuel len ns hns s s' v hi hsub h
  exact ⟨a, b, c, by simp only [Spec.descent, ScalarReal.leb_iff]; rw [hcur]; exact d⟩

/-- **meta_descent** (with `reported_value_consistent` and `state_at_report`).  After `init` and
`optimize`:
* the value returned is not above **the objective at the function's own point when `init` was called**
  (`obj s.fn.point`).  `MetaOptimizer::doInit` does not start from the values of the list given to `init`:
  it reads the function's current point back into its list (`matchParametersValues`, which raises when a
  parameter does not accept the function's value — `hinit` says it did not) and then sets the function to
  that list, which does not move it: `s1.fn.point = s.fn.point` (see `meta_frame`).  The values of
  `params` play no role; its names, constraints and dynamic types do;
* it is the objective at the point the function has been left at, that point holds the values the
  optimiser reports, and it is the optimiser's current value.

Added hypotheses `hg1`, `hg2`: no repetition within a group of names (see the header: the C++ raises for a
repeated name, the model does not transcribe that).  Nothing is asked of the two groups together. -/
theorem meta_descent (obj : List ℝ → ℝ) (D : Deriv ℝ) (cap : Option Nat) (log10 : ℝ → ℝ) (fuel fuel' : Nat)
    (s s1 s2 : St (Fn ℝ) (Meta ℝ) ℝ) (params : PList ℝ) (v : ℝ)
    (hgood : Good params) (hnd : (names params).Nodup) (hlt : ∀ n ∈ names params, n < s.fn.point.length)
    (hg1 : s.ext.g1.Nodup) (hg2 : s.ext.g2.Nodup)
    (hinit : (metaAlgo (Fn.iface obj D cap) log10 fuel).init s params = .ok s1)
    (hopt : (metaAlgo (Fn.iface obj D cap) log10 fuel).optimize fuel' s1 = .ok (s2, v)) :
    Spec.descent v (obj s.fn.point) = true ∧
    Spec.consistent obj v s2.fn.point = true ∧
    Spec.stateAt s2.fn.point (names s2.core.params) (values s2.core.params) = true ∧
    s2.core.cur = v := by
  obtain ⟨hi, -⟩ := meta_init_spec obj D cap log10 fuel s s1 params hgood hnd hlt hg1 hg2 hinit
  obtain ⟨h2, hcur⟩ := run_optimize obj (metaAlgo (Fn.iface obj D cap) log10 fuel) rfl (Meta.Sub (names params)) _ _ _ _
    (by
      intro u u' w hu he h
      obtain ⟨a, b, c, d, e⟩ := metaDoStep_spec obj D cap fuel _ _ ⟨hnd, hlt⟩ u u' w hu.coord he h
      exact ⟨a, b, c, by rw [hu.cur]; exact d, e⟩) fuel' s1 s2 v hi hopt
  refine ⟨?_, ?_, ?_, hcur⟩
  · simp only [Spec.descent, ScalarReal.leb_iff]; rw [← hcur]; exact h2.multi.below
  · simp only [Spec.consistent, ScalarReal.eqb_iff]; rw [← hcur]; exact h2.multi.cur
  · exact h2.multi.coord.sync.stateAt

/-- **meta_frame**.  Under the hypotheses of `meta_descent`: `init` leaves the function where it found
it, and the whole run moves no coordinate of the function other than those named in the list given to
`init`; the reported list has those names. -/
theorem meta_frame (obj : List ℝ → ℝ) (D : Deriv ℝ) (cap : Option Nat) (log10 : ℝ → ℝ) (fuel fuel' : Nat)
    (s s1 s2 : St (Fn ℝ) (Meta ℝ) ℝ) (params : PList ℝ) (v : ℝ)
    (hgood : Good params) (hnd : (names params).Nodup) (hlt : ∀ n ∈ names params, n < s.fn.point.length)
    (hg1 : s.ext.g1.Nodup) (hg2 : s.ext.g2.Nodup)
    (hinit : (metaAlgo (Fn.iface obj D cap) log10 fuel).init s params = .ok s1)
    (hopt : (metaAlgo (Fn.iface obj D cap) log10 fuel).optimize fuel' s1 = .ok (s2, v)) :
    s1.fn.point = s.fn.point ∧ s1.core.cur = obj s.fn.point ∧
    s2.fn.point.length = s.fn.point.length ∧ (∀ i, i ∉ names params → s2.fn.point[i]? = s.fn.point[i]?) ∧
    names s2.core.params = names params := by
  obtain ⟨hi, hpt⟩ := meta_init_spec obj D cap log10 fuel s s1 params hgood hnd hlt hg1 hg2 hinit
  obtain ⟨h2, -⟩ := run_optimize obj (metaAlgo (Fn.iface obj D cap) log10 fuel) rfl (Meta.Sub (names params)) _ _ _ _
    (by
      intro u u' w hu he h
      obtain ⟨a, b, c, d, e⟩ := metaDoStep_spec obj D cap fuel _ _ ⟨hnd, hlt⟩ u u' w hu.coord he h
      exact ⟨a, b, c, by rw [hu.cur]; exact d, e⟩) fuel' s1 s2 v hi hopt
  exact ⟨hpt, by rw [hi.multi.cur, hpt], h2.off.1, h2.off.2, h2.multi.coord.names⟩

/-- non-vacuity: a list as the harness builds them (an interval constraint on the first parameter, none
on the second) and groups as it gives them to `MetaOptimizerInfos` (the first parameter to the
`SimpleMultiDimensions`, the second to the `BfgsMultiDimensions`) satisfy the hypotheses; the sub-lists
`doInit` builds from them are the two parameters, and satisfy `Meta.Sub` -/
example : let c : Interval ℝ := ⟨.fin 0, .fin 10, true, true, 0⟩
    let params : PList ℝ := [⟨0, ⟨4, 0, some c, false⟩⟩, ⟨1, ⟨-2, 0, none, false⟩⟩]
    let g1 : List Nat := [0]
    let g2 : List Nat := [1]
    Good params ∧ (names params).Nodup ∧ (∀ n ∈ names params, n < ([4, -2] : List ℝ).length) ∧ g1.Nodup ∧ g2.Nodup ∧
    names (metaSubList params params g1) = [0] ∧ names (metaSubList params params g2) = [1] ∧
    Meta.Sub (names params)
      { (default : Meta ℝ) with p1 := metaSubList params params g1, p2 := metaSubList params params g2 } := by
  intro c params g1 g2
  have hg : Good params := by
    intro q hq
    simp only [params, List.mem_cons, List.not_mem_nil, or_false] at hq
    rcases hq with rfl | rfl
    · refine ⟨rfl, ?_⟩
      simp [Param.invOk, Param.accepts, c, Interval.isCorrect, Interval.isCorrectB, Bound.geb, Bound.leb]; norm_num
    · exact ⟨rfl, rfl⟩
  have h1 := metaSubList_spec params params hg g1 (by simp [g1])
  have h2 := metaSubList_spec params params hg g2 (by simp [g2])
  refine ⟨hg, by simp [params, names], by simp [params, names], by simp [g1], by simp [g2], ?_, ?_,
    ⟨h1.1, h1.2.1, fun n hn => (h1.2.2 n hn).2⟩, ⟨h2.1, h2.2.1, fun n hn => (h2.2.2 n hn).2⟩⟩
  · simp [metaSubList, findNamed, params, g1, names]
  · simp [metaSubList, findNamed, params, g2, names]

end Bpp.C10
