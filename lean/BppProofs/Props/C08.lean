import BppProofs.Lemmas.DistGuards
/-!
# C08 — cumulative and quantile functions   (src/Bpp/Numeric/Random/RandomTools.{h,cpp})
-/
namespace Bpp.C08
open Bpp Bpp.Scalar Bpp.PNorm

/-- outside the cut-offs `pNorm` is exactly 0 / 1, for every `exp` and `trunc` -/
theorem pnorm_ends (ex tr : ℝ → ℝ) (x : ℝ) :
    (x ≤ -lowCut → pNorm ex tr x = 0) ∧ (upCut ≤ x → pNorm ex tr x = 1) := by
  have h0 := cut1_pos
  have h12 := cut1_lt_cut2
  have h2u := cut2_lt_upCut
  have hul := upCut_lt_lowCut
  constructor
  · intro h
    have hy : |x| = -x := abs_of_neg (by linarith)
    have c1 : ¬ (|x| ≤ cut1) := by rw [hy]; intro; linarith
    have c2 : ¬ (|x| ≤ cut2) := by rw [hy]; intro; linarith
    have c3 : ¬ (-lowCut < x) := by linarith
    have c4 : ¬ (0 < x) := by linarith
    simp [pNorm, c1, c2, c3, c4]
  · intro h
    have hy : |x| = x := abs_of_pos (by linarith)
    have c1 : ¬ (|x| ≤ cut1) := by rw [hy]; intro; linarith
    have c2 : ¬ (|x| ≤ cut2) := by rw [hy]; intro; linarith
    have c3 : ¬ (x < upCut) := by linarith
    have c4 : (0 : ℝ) < x := by linarith
    simp [pNorm, c1, c2, c3, c4]

end Bpp.C08
