import BppProofs.Lemmas.DistGuards
/-!
# C08 — cumulative and quantile functions   (src/Bpp/Numeric/Random/RandomTools.{h,cpp})
-/
namespace Bpp.C08
open Bpp Bpp.Scalar Bpp.PNorm

/-- outside the cut-offs `pNorm` is exactly 0 / 1, for every `exp` and `trunc` -/
theorem pnorm_ends (ex tr : ℝ → ℝ) (x : ℝ) :
    (x ≤ -lowCut → pNorm ex tr x = 0) ∧ (upCut ≤ x → pNorm ex tr x = 1) := by
  have h0 := cut1_pos
  have h12 := cut1_lt_cut2
  have h2u := cut2_lt_upCut
  have hul := upCut_lt_lowCut
  constructor
  · intro h
    have hy : |x| = -x := abs_of_neg (by linarith)
    have c1 : ¬ (|x| ≤ cut1) := by rw [hy]; intro; linarith
    have c2 : ¬ (|x| ≤ cut2) := by rw [hy]; intro; linarith
    have c3 : ¬ (-lowCut < x) := by linarith
    have c4 : ¬ (0 < x) := by linarith
    simp [pNorm, c1, c2, c3, c4]
  · intro h
    have hy : |x| = x := abs_of_pos (by linarith)
    have c1 : ¬ (|x| ≤ cut1) := by rw [hy]; intro; linarith
    have c2 : ¬ (|x| ≤ cut2) := by rw [hy]; intro; linarith
    have c3 : ¬ (x < upCut) := by linarith
    have c4 : (0 : ℝ) < x := by linarith
    simp [pNorm, c1, c2, c3, c4]

/-- **Reflection.**  `pNorm (-x) = 1 - pNorm x` in exact arithmetic, for every `exp` and every odd
`trunc`, on `|x| < 8.2924` and on `37.5193 ≤ |x|`.  (Between the two cut-offs the code computes
the two tails by different formulas: see `pnorm_reflect_gap`.) -/
theorem pnorm_reflect (ex tr : ℝ → ℝ) (htr : ∀ z, tr (-z) = -tr z) (x : ℝ)
    (hx : |x| < upCut ∨ lowCut ≤ |x|) : pNorm ex tr (-x) = 1 - pNorm ex tr x := by
  have h0 := cut1_pos
  have h12 := cut1_lt_cut2
  have h2u := cut2_lt_upCut
  have hul := upCut_lt_lowCut
  rcases hx with hx | hx
  · -- |x| < upCut : the same branch is taken at x and -x
    rw [pNorm_real, pNorm_real, abs_neg]
    by_cases c1 : |x| ≤ cut1
    · simp only [c1, if_true, central_real, centralTemp_neg]; ring
    · simp only [c1, if_false]
      have hx0 : x ≠ 0 := by
        intro h; apply c1; rw [h, abs_zero]; exact le_of_lt h0
      by_cases c2 : |x| ≤ cut2
      · simp only [c2, if_true, middle_real, abs_neg]
        rcases lt_or_gt_of_ne hx0 with hn | hp
        · have : ¬ (0 < x) := not_lt.mpr (le_of_lt hn)
          simp [this, hn]
        · have : ¬ (0 < -x) := by linarith
          simp [this, hp]
      · simp only [c2, if_false]
        have hb := abs_lt.mp hx
        have r1 : -lowCut < x ∧ x < upCut := ⟨by linarith [hb.1], hb.2⟩
        have r2 : -lowCut < -x ∧ -x < upCut := ⟨by linarith [hb.2], by linarith [hb.1]⟩
        simp only [r1, r2, and_self, if_true, far_real, farTail_neg ex tr htr]
        rcases lt_or_gt_of_ne hx0 with hn | hp
        · have : ¬ (0 < x) := not_lt.mpr (le_of_lt hn)
          simp [this, hn]
        · have : ¬ (0 < -x) := by linarith
          simp [this, hp]
  · -- both ends are exact
    rcases le_abs'.mp hx with h | h
    · rw [(pnorm_ends ex tr x).1 h, (pnorm_ends ex tr (-x)).2 (by linarith)]; ring
    · rw [(pnorm_ends ex tr x).2 (by linarith), (pnorm_ends ex tr (-x)).1 (by linarith)]; ring

/-- **What holds between the cut-offs** `8.2924 ≤ x < 37.5193`: the upper value is the constant 1
while the lower value is still computed by the asymptotic tail formula, so in exact arithmetic
`pNorm (-x) + pNorm x = 1 + farTail x`; the two agree only up to the size of the lower tail
(`< 1.2e-16` there, below the rounding unit of 1). -/
theorem pnorm_reflect_gap (ex tr : ℝ → ℝ) (htr : ∀ z, tr (-z) = -tr z) (x : ℝ)
    (h1 : upCut ≤ x) (h2 : x < lowCut) :
    pNorm ex tr x = 1 ∧ pNorm ex tr (-x) = farTail ex tr x := by
  have h0 := cut1_pos
  have h12 := cut1_lt_cut2
  have h2u := cut2_lt_upCut
  have hul := upCut_lt_lowCut
  refine ⟨(pnorm_ends ex tr x).2 h1, ?_⟩
  have hy : |x| = x := abs_of_pos (by linarith)
  have c1 : ¬ (|x| ≤ cut1) := by rw [hy]; intro; linarith
  have c2 : ¬ (|x| ≤ cut2) := by rw [hy]; intro; linarith
  have r : -lowCut < -x ∧ -x < upCut := ⟨by linarith, by linarith⟩
  have c4 : ¬ (0 < -x) := by linarith
  rw [pNorm_real, abs_neg]
  simp only [c1, c2, r, and_self, if_true, if_false, far_real, c4, farTail_neg ex tr htr]

/-- **Range.**  `0 ≤ pNorm x ≤ 1` for every `x`, in exact arithmetic, for every `exp` with values in
`[0,1]` on the non-positive axis and every odd `trunc` with `0 ≤ trunc z ≤ z` on `z ≥ 0`
(`ExpTrunc`; `Real.exp` and the mathematical `trunc` qualify: `expTrunc_real`). -/
theorem pnorm_range (ex tr : ℝ → ℝ) (H : ExpTrunc ex tr) (x : ℝ) :
    0 ≤ pNorm ex tr x ∧ pNorm ex tr x ≤ 1 := by
  have h0 := cut1_pos
  have h5 := five_le_cut2
  rw [pNorm_real]
  by_cases c1 : |x| ≤ cut1
  · simp only [c1, if_true, central_real]
    have := abs_le.mp (centralTemp_bd c1)
    constructor <;> linarith [this.1, this.2]
  · simp only [c1, if_false]
    by_cases c2 : |x| ≤ cut2
    · simp only [c2, if_true, middle_real]
      have := middleTail_bd H (abs_nonneg x)
      split <;> constructor <;> linarith [this.1, this.2]
    · simp only [c2, if_false]
      by_cases c3 : -lowCut < x ∧ x < upCut
      · simp only [c3, and_self, if_true, far_real]
        have := farTail_bd H (x := x) (by linarith [not_le.mp c2])
        split <;> constructor <;> linarith [this.1, this.2]
      · simp only [c3, if_false]
        split <;> norm_num

/-- the hypotheses of `pnorm_range` are satisfiable: the real exponential and truncation -/
example (x : ℝ) : 0 ≤ pNorm Real.exp truncR x ∧ pNorm Real.exp truncR x ≤ 1 :=
  pnorm_range _ _ expTrunc_real x

end Bpp.C08
