import BppProofs.Lemmas.DistGuards
/-!
# C08 — cumulative and quantile functions   (src/Bpp/Numeric/Random/RandomTools.{h,cpp})

Level `other`: partial proof + exploration.  What is proved here, for *all* arguments, in the
exact-arithmetic (`ℝ`) reading of the transcribed code (rounding is not modelled):

* `pNorm` (Cody's three rational ranges, transcribed exactly, `exp`/`trunc` abstract):
  `pnorm_reflect` (reflection identity on `|x| < 8.2924 ∨ 37.5193 ≤ |x|`), `pnorm_reflect_gap` and
  `pnorm_reflect_fails_in_gap` (what holds between the cut-offs: the code uses different formulas
  for the two tails there), `pnorm_ends`, `pnorm_range`, `pnorm_zero`.
* `qNorm` (Odeh–Evans, transcribed exactly): `guards_total_qNorm` (error value iff
  `p < 1e-20 ∨ p > 1 - 1e-20`), `qnorm_bounded`, `qnorm_reflect`.
* the guard / wrapper layer with the numeric kernels as abstract parameters (`Kernels`):
  `guards_total_*` — decision tables of the argument checks of `incompleteGamma`, `pGamma`,
  `pChisq`, `qChisq`, `qGamma`, `qNorm(p,μ,σ)`, `incompleteBeta`/`pBeta`, `qBeta`;
  `wrapper_*`, `pGamma_scale`, `qGamma_scale`, `normal_affine_inverts` — wrapper identities;
  `qGamma_inverts_relative` — relative inverse theorem; `affine_monotone_*`, `incompleteGamma_monotone_relative` —
  monotone kernels give monotone wrappers.
* witnesses of the defects of the snapshot that were repaired in the library:
  `qGammaOld_rescales_sentinel`, `qNorm3Old_rescales_sentinel`,
  `incompleteGammaOld_zero_shadows_check`.

NOT proved (explored numerically by the check, `coverage.search_*`): accuracy, monotonicity and
inverse relations of the kernels (incomplete gamma series / continued fraction, AS91, Cephes
incomplete beta, AS109, and `pNorm`'s / `qNorm`'s closeness to Φ, Φ⁻¹).
-/
namespace Bpp.C08
open Bpp Bpp.Scalar Bpp.PNorm Bpp.DistGuards

/-- outside the cut-offs `pNorm` is exactly 0 / 1, for every `exp` and `trunc` -/
theorem pnorm_ends (ex tr : ℝ → ℝ) (x : ℝ) :
    (x ≤ -lowCut → pNorm ex tr x = 0) ∧ (upCut ≤ x → pNorm ex tr x = 1) := by
  have h0 := cut1_pos
  have h12 := cut1_lt_cut2
  have h2u := cut2_lt_upCut
  have hul := upCut_lt_lowCut
  constructor
  · intro h
    have hy : |x| = -x := abs_of_neg (by linarith)
    have c1 : ¬ (|x| ≤ cut1) := by rw [hy]; intro; linarith
    have c2 : ¬ (|x| ≤ cut2) := by rw [hy]; intro; linarith
    have c3 : ¬ (-lowCut < x) := by linarith
    have c4 : ¬ (0 < x) := by linarith
    simp [pNorm, c1, c2, c3, c4]
  · intro h
    have hy : |x| = x := abs_of_pos (by linarith)
    have c1 : ¬ (|x| ≤ cut1) := by rw [hy]; intro; linarith
    have c2 : ¬ (|x| ≤ cut2) := by rw [hy]; intro; linarith
    have c3 : ¬ (x < upCut) := by linarith
    have c4 : (0 : ℝ) < x := by linarith
    simp [pNorm, c1, c2, c3, c4]

/-- **Reflection.**  `pNorm (-x) = 1 - pNorm x` in exact arithmetic, for every `exp` and every odd
`trunc`, on `|x| < 8.2924` and on `37.5193 ≤ |x|`.  (Between the two cut-offs the code computes
the two tails by different formulas: see `pnorm_reflect_gap`.) -/
theorem pnorm_reflect (ex tr : ℝ → ℝ) (htr : ∀ z, tr (-z) = -tr z) (x : ℝ)
    (hx : |x| < upCut ∨ lowCut ≤ |x|) : pNorm ex tr (-x) = 1 - pNorm ex tr x := by
  have h0 := cut1_pos
  have h12 := cut1_lt_cut2
  have h2u := cut2_lt_upCut
  have hul := upCut_lt_lowCut
  rcases hx with hx | hx
  · -- |x| < upCut : the same branch is taken at x and -x
    rw [pNorm_real, pNorm_real, abs_neg]
    by_cases c1 : |x| ≤ cut1
    · simp only [c1, if_true, central_real, centralTemp_neg]; ring
    · simp only [c1, if_false]
      have hx0 : x ≠ 0 := by
        intro h; apply c1; rw [h, abs_zero]; exact le_of_lt h0
      by_cases c2 : |x| ≤ cut2
      · simp only [c2, if_true, middle_real, abs_neg]
        rcases lt_or_gt_of_ne hx0 with hn | hp
        · have : ¬ (0 < x) := not_lt.mpr (le_of_lt hn)
          simp [this, hn]
        · have : ¬ (0 < -x) := by linarith
          simp [this, hp]
      · simp only [c2, if_false]
        have hb := abs_lt.mp hx
        have r1 : -lowCut < x ∧ x < upCut := ⟨by linarith [hb.1], hb.2⟩
        have r2 : -lowCut < -x ∧ -x < upCut := ⟨by linarith [hb.2], by linarith [hb.1]⟩
        simp only [r1, r2, and_self, if_true, far_real, farTail_neg ex tr htr]
        rcases lt_or_gt_of_ne hx0 with hn | hp
        · have : ¬ (0 < x) := not_lt.mpr (le_of_lt hn)
          simp [this, hn]
        · have : ¬ (0 < -x) := by linarith
          simp [this, hp]
  · -- both ends are exact
    rcases le_abs'.mp hx with h | h
    · rw [(pnorm_ends ex tr x).1 h, (pnorm_ends ex tr (-x)).2 (by linarith)]; ring
    · rw [(pnorm_ends ex tr x).2 (by linarith), (pnorm_ends ex tr (-x)).1 (by linarith)]; ring

/-- **What holds between the cut-offs** `8.2924 ≤ x < 37.5193`: the upper value is the constant 1
while the lower value is still computed by the asymptotic tail formula, so in exact arithmetic
`pNorm (-x) + pNorm x = 1 + farTail x`; the two agree only up to the size of the lower tail
(`< 1.2e-16` there, below the rounding unit of 1). -/
theorem pnorm_reflect_gap (ex tr : ℝ → ℝ) (htr : ∀ z, tr (-z) = -tr z) (x : ℝ)
    (h1 : upCut ≤ x) (h2 : x < lowCut) :
    pNorm ex tr x = 1 ∧ pNorm ex tr (-x) = farTail ex tr x := by
  have h0 := cut1_pos
  have h12 := cut1_lt_cut2
  have h2u := cut2_lt_upCut
  have hul := upCut_lt_lowCut
  refine ⟨(pnorm_ends ex tr x).2 h1, ?_⟩
  have hy : |x| = x := abs_of_pos (by linarith)
  have c1 : ¬ (|x| ≤ cut1) := by rw [hy]; intro; linarith
  have c2 : ¬ (|x| ≤ cut2) := by rw [hy]; intro; linarith
  have r : -lowCut < -x ∧ -x < upCut := ⟨by linarith, by linarith⟩
  have c4 : ¬ (0 < -x) := by linarith
  rw [pNorm_real, abs_neg]
  simp only [c1, c2, r, and_self, if_true, if_false, far_real, c4, farTail_neg ex tr htr]

/-- … and with the real exponential the lower value is strictly positive there, so reflection
is *not* an identity of the code between the cut-offs (it holds to within the lower tail). -/
theorem pnorm_reflect_fails_in_gap (x : ℝ) (h1 : upCut ≤ x) (h2 : x < lowCut) :
    pNorm Real.exp truncR (-x) ≠ 1 - pNorm Real.exp truncR x := by
  obtain ⟨e1, e2⟩ := pnorm_reflect_gap Real.exp truncR truncR_odd x h1 h2
  rw [e1, e2, sub_self]
  have h5 := five_le_cut2
  have h2u := cut2_lt_upCut
  have hx : 5 ≤ |x| := by rw [abs_of_pos (by linarith)]; linarith
  have ht := (tailTemp_bd hx).1
  simp only [farTail]
  exact ne_of_gt (mul_pos (mul_pos (Real.exp_pos _) (Real.exp_pos _)) ht)

/-- **Range.**  `0 ≤ pNorm x ≤ 1` for every `x`, in exact arithmetic, for every `exp` with values in
`[0,1]` on the non-positive axis and every odd `trunc` with `0 ≤ trunc z ≤ z` on `z ≥ 0`
(`ExpTrunc`; `Real.exp` and the mathematical `trunc` qualify: `expTrunc_real`). -/
theorem pnorm_range (ex tr : ℝ → ℝ) (H : ExpTrunc ex tr) (x : ℝ) :
    0 ≤ pNorm ex tr x ∧ pNorm ex tr x ≤ 1 := by
  have h0 := cut1_pos
  have h5 := five_le_cut2
  rw [pNorm_real]
  by_cases c1 : |x| ≤ cut1
  · simp only [c1, if_true, central_real]
    have := abs_le.mp (centralTemp_bd c1)
    constructor <;> linarith [this.1, this.2]
  · simp only [c1, if_false]
    by_cases c2 : |x| ≤ cut2
    · simp only [c2, if_true, middle_real]
      have := middleTail_bd H (abs_nonneg x)
      split <;> constructor <;> linarith [this.1, this.2]
    · simp only [c2, if_false]
      by_cases c3 : -lowCut < x ∧ x < upCut
      · simp only [c3, and_self, if_true, far_real]
        have := farTail_bd H (x := x) (by linarith [not_le.mp c2])
        split <;> constructor <;> linarith [this.1, this.2]
      · simp only [c3, if_false]
        split <;> norm_num

/-- the hypotheses of `pnorm_range` are satisfiable: the real exponential and truncation -/
example (x : ℝ) : 0 ≤ pNorm Real.exp truncR x ∧ pNorm Real.exp truncR x ≤ 1 :=
  pnorm_range _ _ expTrunc_real x

/-! ## Decision tables of the argument checks (`guards_total_*`) -/

/-- `incompleteGamma(x, α, ·)` (repaired code): the error value -1 iff `x < 0 ∨ α ≤ 0`; inside the
domain 0 at `x = 0` and the kernel for `x > 0`. -/
theorem guards_total_incompleteGamma (K : Kernels ℝ) (x a g : ℝ) :
    (igSentinel x a = true → incompleteGamma K x a g = -1) ∧
    (0 < a → incompleteGamma K 0 a g = 0) ∧
    (0 < x → 0 < a → incompleteGamma K x a g = K.igCore x a g) ∧
    (igSentinel x a = true ↔ x < 0 ∨ a ≤ 0) := by
  refine ⟨?_, ?_, ?_, igSentinel_iff x a⟩
  · intro h
    have h1 := (igSentinel_iff x a).mp h
    simp only [incompleteGamma, Bool.or_eq_true, ScalarReal.ltb_iff, ScalarReal.leb_iff,
      ScalarReal.zero_eq, h1, if_true, minusOne_real]
  · intro ha
    simp [incompleteGamma, ha]
  · intro hx ha
    have h0 : x ≠ 0 := ne_of_gt hx
    have h1 : ¬ (x < 0 ∨ a ≤ 0) := by push Not; exact ⟨le_of_lt hx, ha⟩
    simp only [incompleteGamma, ScalarReal.eqb_iff, ScalarReal.zero_eq, h0, if_false,
      Bool.or_eq_true, ScalarReal.ltb_iff, ScalarReal.leb_iff, h1]

/-- under the kernel's contract (inside the domain its value is not the error value) the error
value is returned *iff* the arguments are outside the domain -/
theorem incompleteGamma_sentinel_iff (K : Kernels ℝ)
    (hK : ∀ x a g, 0 < x → 0 < a → K.igCore x a g ≠ -1) (x a g : ℝ) :
    incompleteGamma K x a g = -1 ↔ (x < 0 ∨ a ≤ 0) := by
  obtain ⟨h1, h2, h3, h4⟩ := guards_total_incompleteGamma K x a g
  rw [← h4]
  refine ⟨?_, h1⟩
  intro h
  by_contra hs
  rw [h4] at hs
  push Not at hs
  rcases eq_or_lt_of_le hs.1 with hx0 | hx
  · rw [← hx0, (guards_total_incompleteGamma K 0 a g).2.1 hs.2] at h; norm_num at h
  · rw [h3 hx hs.2] at h
    exact hK x a g hx hs.2 h

/-- the snapshot returned 0 at `x = 0` whatever `α`: `incompleteGamma(0, -1, ·) = 0`, a
plausible value for an argument outside the domain -/
theorem incompleteGammaOld_zero_shadows_check (K : Kernels ℝ) (g : ℝ) :
    incompleteGammaOld K 0 (-1) g = 0 := by
  simp [incompleteGammaOld]

/-- `pGamma(x, α, β)`: raises iff `α < 0 ∨ β < 0`; 1 at `α = 0`; otherwise the incomplete gamma
ratio at `β x` (so the error value -1 for `β x < 0`) -/
theorem guards_total_pGamma (K : Kernels ℝ) (x a b : ℝ) :
    (pGamma K x a b = .exc ↔ pGammaRaises a b = true) ∧
    (pGammaRaises a b = true ↔ a < 0 ∨ b < 0) ∧
    (a = 0 → 0 ≤ b → pGamma K x a b = .val 1) ∧
    (0 < a → 0 ≤ b → pGamma K x a b = .val (incompleteGamma K (b * x) a (K.lnGamma a))) := by
  refine ⟨?_, pGammaRaises_iff a b, ?_, ?_⟩
  · rw [pGammaRaises_iff]
    unfold pGamma
    by_cases ha : a < 0
    · simp [ha]
    · by_cases hb : b < 0
      · simp [ha, hb]
      · by_cases h0 : a = 0 <;> simp [ha, hb, h0]
  · intro h0 hb
    have : ¬ (b < 0) := not_lt.mpr hb
    simp [pGamma, h0, this]
  · intro ha hb
    have h1 : ¬ (a < 0) := by linarith
    have h2 : ¬ (b < 0) := not_lt.mpr hb
    have h3 : a ≠ 0 := ne_of_gt ha
    simp [pGamma, h1, h2, h3]

/-- `pChisq(x, v)`: 0 for `x < 0` (whatever `v`); otherwise raises iff `v < 0` -/
theorem guards_total_pChisq (K : Kernels ℝ) (x v : ℝ) :
    (x < 0 → pChisq K x v = .val 0) ∧
    (pChisq K x v = .exc ↔ pChisqRaises x v = true) ∧
    (pChisqRaises x v = true ↔ 0 ≤ x ∧ v < 0) := by
  refine ⟨?_, ?_, pChisqRaises_iff x v⟩
  · intro h; simp [pChisq, h]
  · rw [pChisqRaises_iff]
    unfold pChisq
    by_cases hx : x < 0
    · have : ¬ (0 ≤ x) := not_le.mpr hx
      simp [hx, this]
    · have hx' : 0 ≤ x := not_lt.mp hx
      simp only [ScalarReal.ltb_iff, ScalarReal.zero_eq, hx, if_false, hx', true_and]
      rw [(guards_total_pGamma K x (v / two) half).1, pGammaRaises_iff]
      simp only [two_real, half_real]
      constructor
      · rintro (h | h)
        · linarith
        · norm_num at h
      · intro h; left; linarith

/-- `qChisq(p, v)`: the error value -1 when `p < 0.000002 ∨ p > 0.999998 ∨ v ≤ 0`, the AS91 kernel
otherwise -/
theorem guards_total_qChisq (K : Kernels ℝ) (p v : ℝ) :
    (qChisqSentinel p v = true → qChisq K p v = -1) ∧
    (qChisqSentinel p v = false → qChisq K p v = K.qChisqCore p v) ∧
    (qChisqSentinel p v = true ↔ p < chLo ∨ chHi < p ∨ v ≤ 0) := by
  refine ⟨?_, ?_, qChisqSentinel_iff p v⟩
  · intro h
    have : (ltb p chLo || gtb p chHi || leb v zero) = true := h
    simp only [qChisq, this, if_true, minusOne_real]
  · intro h
    have : (ltb p chLo || gtb p chHi || leb v zero) = false := h
    simp only [qChisq, this, Bool.false_eq_true, if_false]

/-- `qGamma(p, α, β)` (repaired code): outside the domain of `qChisq(p, 2α)` the error value -1
itself; inside, `qChisq / (2β)` provided the kernel's value is non-negative (its contract); and
then, for `β > 0`, -1 is returned *only* outside the domain. -/
theorem guards_total_qGamma (K : Kernels ℝ) (p a b : ℝ) :
    (qChisqSentinel p (two * a) = true → qGamma K p a b = -1) ∧
    (qChisqSentinel p (two * a) = false → 0 ≤ K.qChisqCore p (two * a) →
        qGamma K p a b = K.qChisqCore p (two * a) / (2 * b)) ∧
    ((∀ p v, 0 ≤ K.qChisqCore p v) → 0 < b →
        (qGamma K p a b = -1 ↔ qChisqSentinel p (two * a) = true)) ∧
    (qChisqSentinel p (two * a) = true ↔ p < chLo ∨ chHi < p ∨ a ≤ 0) := by
  have e : qGamma K p a b = if qChisq K p (two * a) < 0 then qChisq K p (two * a)
      else qChisq K p (two * a) / (2 * b) := by simp [qGamma]
  have hsen : qChisqSentinel p (two * a) = true → qGamma K p a b = -1 := by
    intro h
    rw [e, qChisq_of_sentinel K p _ h]; norm_num
  have hdom : qChisqSentinel p (two * a) = false → 0 ≤ K.qChisqCore p (two * a) →
        qGamma K p a b = K.qChisqCore p (two * a) / (2 * b) := by
    intro h h0
    have : ¬ (K.qChisqCore p (two * a) < 0) := not_lt.mpr h0
    rw [e, qChisq_of_domain K p _ h, if_neg this]
  refine ⟨hsen, hdom, ?_, ?_⟩
  · intro hK hb
    refine ⟨?_, hsen⟩
    intro h
    by_contra hs
    have hs' : qChisqSentinel p (two * a) = false := by simpa using hs
    rw [hdom hs' (hK _ _)] at h
    have : 0 ≤ K.qChisqCore p (two * a) / (2 * b) := div_nonneg (hK _ _) (by linarith)
    linarith
  · rw [qChisqSentinel_iff]
    simp only [two_real]
    constructor
    · rintro (h | h | h)
      · exact Or.inl h
      · exact Or.inr (Or.inl h)
      · right; right; linarith
    · rintro (h | h | h)
      · exact Or.inl h
      · exact Or.inr (Or.inl h)
      · right; right; linarith

/-- the snapshot's `qGamma` divided the error value by `2β`: for `p = 0, α = 1, β = 1/10` it
returned -5, whatever the kernels -/
theorem qGammaOld_rescales_sentinel (K : Kernels ℝ) : qGammaOld K 0 1 (1 / 10) = -5 := by
  have h : qChisqSentinel (0 : ℝ) (two * 1) = true := by
    rw [qChisqSentinel_iff]; left; exact chLo_pos
  have e : qGammaOld K 0 1 (1 / 10) = qChisq K 0 (two * 1) / (2 * (1 / 10)) := by simp [qGammaOld]
  rw [e, qChisq_of_sentinel K _ _ h]; norm_num

/-- `incompleteBeta(x, α, β)` (= `pBeta`): raises iff `α ≤ 0 ∨ β ≤ 0 ∨ x < 0 ∨ x > 1`; exact end
points; the kernel strictly inside -/
theorem guards_total_incompleteBeta (K : Kernels ℝ) (x a b : ℝ) :
    (incompleteBeta K x a b = .exc ↔ ibRaises x a b = true) ∧
    (ibRaises x a b = true ↔ a ≤ 0 ∨ b ≤ 0 ∨ x < 0 ∨ 1 < x) ∧
    (0 < a → 0 < b → incompleteBeta K 0 a b = .val 0 ∧ incompleteBeta K 1 a b = .val 1) ∧
    (0 < a → 0 < b → 0 < x → x < 1 → incompleteBeta K x a b = .val (K.ibCore x a b)) ∧
    pBeta K x a b = incompleteBeta K x a b := by
  refine ⟨?_, ibRaises_iff x a b, ?_, ?_, rfl⟩
  · rw [ibRaises_iff]
    unfold incompleteBeta
    by_cases h1 : a ≤ 0 ∨ b ≤ 0
    · have : a ≤ 0 ∨ b ≤ 0 ∨ x < 0 ∨ 1 < x := by tauto
      simp [h1, this]
    · by_cases h2 : x < 0 ∨ 1 < x
      · have : a ≤ 0 ∨ b ≤ 0 ∨ x < 0 ∨ 1 < x := by tauto
        simp [h1, h2]
      · have : ¬ (a ≤ 0 ∨ b ≤ 0 ∨ x < 0 ∨ 1 < x) := by tauto
        simp only [this, iff_false]
        simp only [Bool.or_eq_true, ScalarReal.leb_iff, ScalarReal.ltb_iff, ScalarReal.gtb_iff,
          ScalarReal.zero_eq, ScalarReal.one_eq, h1, h2, if_false]
        split
        · simp
        · split <;> simp
  · intro ha hb
    have h1 : ¬ (a ≤ 0 ∨ b ≤ 0) := by push Not; exact ⟨ha, hb⟩
    constructor <;> simp [incompleteBeta, h1]
  · intro ha hb hx0 hx1
    have h1 : ¬ (a ≤ 0 ∨ b ≤ 0) := by push Not; exact ⟨ha, hb⟩
    have h2 : ¬ (x < 0 ∨ 1 < x) := by push Not; exact ⟨le_of_lt hx0, le_of_lt hx1⟩
    have h3 : x ≠ 0 := ne_of_gt hx0
    have h4 : x ≠ 1 := ne_of_lt hx1
    simp [incompleteBeta, h1, h2, h3, h4]

/-- `qBeta(p, α, β)`: raises when `p ∉ [0,1]` or a shape is negative; returns `p` at `p ∈ {0,1}`
(also for a zero shape: the check is `< 0`); the AS109 kernel otherwise — which, calling `pBeta`,
raises for a zero shape.  Under that contract, for non-negative shapes and `0 < p < 1` an
exception is raised iff a shape is zero. -/
theorem guards_total_qBeta (K : Kernels ℝ) (p a b : ℝ) :
    (qBetaRaises p a b = true → qBeta K p a b = .exc) ∧
    (qBetaRaises p a b = true ↔ p < 0 ∨ 1 < p ∨ a < 0 ∨ b < 0) ∧
    (0 ≤ a → 0 ≤ b → qBeta K 0 a b = .val 0 ∧ qBeta K 1 a b = .val 1) ∧
    (0 ≤ a → 0 ≤ b → 0 < p → p < 1 → qBeta K p a b = K.qBetaCore p a b) := by
  refine ⟨?_, qBetaRaises_iff p a b, ?_, ?_⟩
  · intro h
    rw [qBetaRaises_iff] at h
    unfold qBeta
    by_cases h1 : p < 0 ∨ 1 < p
    · simp [h1]
    · have h2 : a < 0 ∨ b < 0 := by tauto
      simp [h1, h2]
  · intro ha hb
    have h2 : ¬ (a < 0 ∨ b < 0) := by push Not; exact ⟨ha, hb⟩
    constructor <;> simp [qBeta, h2]
  · intro ha hb h0 h1
    have h1' : ¬ (p < 0 ∨ 1 < p) := by push Not; exact ⟨le_of_lt h0, le_of_lt h1⟩
    have h2 : ¬ (a < 0 ∨ b < 0) := by push Not; exact ⟨ha, hb⟩
    have h3 : p ≠ 0 := ne_of_gt h0
    have h4 : p ≠ 1 := ne_of_lt h1
    simp [qBeta, h1', h2, h3, h4]

/-- `qNorm(p)`: the error value -9999 **iff** `p < 1e-20 ∨ p > 1 - 1e-20` (no kernel contract is
needed: inside the domain the Odeh–Evans value lies in `[-12, 12]`) -/
theorem guards_total_qNorm (p : ℝ) :
    (qNorm p = -9999 ↔ qNormSentinel p = true) ∧
    (qNormSentinel p = true ↔ p < qEps ∨ 1 - qEps < p) := by
  refine ⟨⟨?_, ?_⟩, qNormSentinel_iff p⟩
  · intro h
    by_contra hs
    exact qNorm_ne_sentinel (by simpa using hs) h
  · intro h
    have : qP1 p < qEps := by simpa [qNormSentinel] using h
    rw [qNorm_real, if_pos this]

/-- `qNorm(p, μ, σ)` (repaired code): the error value itself outside the domain, the affine image
of the standard quantile inside -/
theorem guards_total_qNorm3 (p mu sigma : ℝ) :
    (qNormSentinel p = true → qNorm3 p mu sigma = -9999) ∧
    (qNormSentinel p = false → qNorm3 p mu sigma = qNorm p * sigma + mu) := by
  have e : qNorm3 p mu sigma = if qNorm p = -9999 then qNorm p else qNorm p * sigma + mu := by
    simp [qNorm3]
  constructor
  · intro h
    have := (guards_total_qNorm p).1.mpr h
    rw [e, if_pos this, this]
  · intro h
    rw [e, if_neg (qNorm_ne_sentinel h)]

/-- the snapshot's `qNorm(p, μ, σ)` mapped the error value affinely: `qNorm(0, 5, 2) = -19993` -/
theorem qNorm3Old_rescales_sentinel : qNorm3Old (0 : ℝ) 5 2 = -19993 := by
  have h : qNorm (0 : ℝ) = -9999 :=
    (guards_total_qNorm 0).1.mpr ((qNormSentinel_iff 0).mpr (Or.inl qEps_pos))
  simp only [qNorm3Old, h]; norm_num

/-- symmetry of the quantile inside the domain: the two halves use the same formula.  (Outside,
both sides are the error value -9999, which is *not* antisymmetric.) -/
theorem qnorm_reflect (p : ℝ) (h0 : qEps ≤ p) (hp : p < 1 / 2) : qNorm (1 - p) = -qNorm p := by
  have h1 : ¬ (1 - p < 1 / 2) := by linarith
  have e1 : qP1 (1 - p) = p := by rw [qP1_real, if_neg h1]; ring
  have e2 : qP1 p = p := by rw [qP1_real, if_pos hp]
  rw [qNorm_real, qNorm_real, e1, e2, if_neg h1, if_pos hp, if_neg (not_lt.mpr h0), if_neg (not_lt.mpr h0), neg_neg]


/-! ## Wrapper identities -/

/-- `pChisq x v = pGamma x (v/2) (1/2)` on the support -/
theorem wrapper_pChisq (K : Kernels ℝ) (x v : ℝ) (hx : 0 ≤ x) :
    pChisq K x v = pGamma K x (v / 2) (1 / 2) := by
  have : ¬ (x < 0) := not_lt.mpr hx
  simp [pChisq, this]

/-- `qGamma p α β = qChisq p (2α) / (2β)` whenever `qChisq` did not report an error -/
theorem wrapper_qGamma (K : Kernels ℝ) (p a b : ℝ) (h : 0 ≤ qChisq K p (2 * a)) :
    qGamma K p a b = qChisq K p (2 * a) / (2 * b) := by
  have : ¬ (qChisq K p (2 * a) < 0) := not_lt.mpr h
  simp [qGamma, this]

/-- affine forms of the normal -/
theorem wrapper_pNorm3 (ex tr : ℝ → ℝ) (x mu sigma : ℝ) :
    pNorm3 ex tr x mu sigma = pNorm ex tr ((x - mu) / sigma) := rfl

theorem wrapper_qNorm3 (p mu sigma : ℝ) (h : qNormSentinel p = false) :
    qNorm3 p mu sigma = qNorm p * sigma + mu := (guards_total_qNorm3 p mu sigma).2 h

theorem wrapper_lnBeta (K : Kernels ℝ) (a b : ℝ) :
    lnBeta K a b = K.lnGamma a + K.lnGamma b - K.lnGamma (a + b) := rfl

theorem wrapper_pBeta (K : Kernels ℝ) (x a b : ℝ) : pBeta K x a b = incompleteBeta K x a b := rfl

/-- the location-scale wrappers of the normal are mutually inverse exactly as far as the
standard functions are: `pNorm (qNorm p μ σ) μ σ = pNorm (qNorm p)` for `σ ≠ 0` -/
theorem normal_affine_inverts (ex tr : ℝ → ℝ) (p mu sigma : ℝ) (hs : sigma ≠ 0)
    (h : qNormSentinel p = false) :
    pNorm3 ex tr (qNorm3 p mu sigma) mu sigma = pNorm ex tr (qNorm p) := by
  rw [wrapper_pNorm3, wrapper_qNorm3 p mu sigma h]
  congr 1
  field_simp
  ring

/-- **Relative inverse theorem** (`_relative`: about the wrappers, *relative to* a contract the actual
kernels do not meet — AS91 inverts the chi-square cdf to about 5e-9, not exactly; see
`qGamma_roundtrip_eq` for the statement that needs no such contract).  If the chi-square pair inverts
exactly on the domain of `qChisq`, so does the gamma pair, for every rate `β > 0`. -/
theorem qGamma_inverts_relative (K : Kernels ℝ)
    (hinv : ∀ p v, qChisqSentinel p v = false → pChisq K (qChisq K p v) v = .val p)
    (p a b : ℝ) (hb : 0 < b) (hp : qChisqSentinel p (2 * a) = false) :
    pGamma K (qGamma K p a b) a b = .val p := by
  have hI := hinv p (2 * a) hp
  have hdom : ¬ (p < chLo ∨ chHi < p ∨ 2 * a ≤ 0) := by
    rw [← qChisqSentinel_iff]; simp [hp]
  push Not at hdom
  have ha : 0 < a := by linarith [hdom.2.2]
  -- the quantile is non-negative: otherwise pChisq would be 0 ≠ p
  have hc : 0 ≤ qChisq K p (2 * a) := by
    by_contra hneg
    rw [(guards_total_pChisq K _ _).1 (not_le.mp hneg)] at hI
    have : (0 : ℝ) = p := by injection hI
    linarith [chLo_pos, hdom.1]
  rw [wrapper_qGamma K p a b hc]
  rw [wrapper_pChisq K _ _ hc] at hI
  have h2a : 0 < 2 * a / 2 := by linarith
  rw [(guards_total_pGamma K _ _ _).2.2.2 h2a (by norm_num)] at hI
  rw [(guards_total_pGamma K _ _ _).2.2.2 ha (le_of_lt hb), ← hI]
  have e1 : b * (qChisq K p (2 * a) / (2 * b)) = 1 / 2 * qChisq K p (2 * a) := by
    field_simp
  have e2 : 2 * a / 2 = a := by ring
  rw [e1, e2]

/-! ## Monotone kernels give monotone wrappers (`σ, β > 0`) -/

theorem affine_monotone_pNorm3 (ex tr : ℝ → ℝ) (hmono : Monotone (pNorm ex tr)) (mu sigma : ℝ)
    (hs : 0 < sigma) : Monotone (fun x => pNorm3 ex tr x mu sigma) := by
  intro x y hxy
  simp only [wrapper_pNorm3]
  apply hmono
  exact div_le_div_of_nonneg_right (by linarith) (le_of_lt hs)

theorem affine_monotone_qNorm3 (mu sigma : ℝ) (hs : 0 < sigma) (p q : ℝ)
    (hp : qNormSentinel p = false) (hq : qNormSentinel q = false)
    (hmono : qNorm p ≤ qNorm q) : qNorm3 p mu sigma ≤ qNorm3 q mu sigma := by
  rw [wrapper_qNorm3 p mu sigma hp, wrapper_qNorm3 q mu sigma hq]
  have := mul_le_mul_of_nonneg_right hmono (le_of_lt hs)
  linarith

/-- `incompleteGamma` is non-decreasing on `x ≥ 0` when its kernel is non-decreasing and
non-negative on `x > 0` (the value at 0 is the constant 0).  `_relative`: the antecedent "kernel
non-decreasing" is **refuted for the actual kernel** by the known findings
`C08-pgamma-switch-monotone` / `C08-pchisq-switch-monotone` (it steps down by ~1e-8 at the series /
continued-fraction switch); `incompleteGamma_monotone_slack` is the version whose antecedent the
exploration supports (`δ = 2e-8`). -/
theorem incompleteGamma_monotone_relative (K : Kernels ℝ) (a g : ℝ) (ha : 0 < a)
    (hpos : ∀ x, 0 < x → 0 ≤ K.igCore x a g)
    (hmono : ∀ x y, 0 < x → x ≤ y → K.igCore x a g ≤ K.igCore y a g)
    (x y : ℝ) (hx : 0 ≤ x) (hxy : x ≤ y) :
    incompleteGamma K x a g ≤ incompleteGamma K y a g := by
  rcases eq_or_lt_of_le hx with h0 | h0
  · rw [← h0, (guards_total_incompleteGamma K 0 a g).2.1 ha]
    rcases eq_or_lt_of_le (le_trans hx hxy) with h1 | h1
    · rw [← h1, (guards_total_incompleteGamma K 0 a g).2.1 ha]
    · rw [(guards_total_incompleteGamma K y a g).2.2.1 h1 ha]; exact hpos y h1
  · have hy : 0 < y := lt_of_lt_of_le h0 hxy
    rw [(guards_total_incompleteGamma K x a g).2.2.1 h0 ha,
      (guards_total_incompleteGamma K y a g).2.2.1 hy ha]
    exact hmono x y h0 hxy

/-- `pGamma(·, α, β)` is non-decreasing on `x ≥ 0` for `α > 0, β > 0` under the same contract
(`_relative`: a contract the actual gamma kernel fails, see `incompleteGamma_monotone_relative`) -/
theorem affine_monotone_pGamma_relative (K : Kernels ℝ) (a b : ℝ) (ha : 0 < a) (hb : 0 < b)
    (hpos : ∀ x, 0 < x → 0 ≤ K.igCore x a (K.lnGamma a))
    (hmono : ∀ x y, 0 < x → x ≤ y → K.igCore x a (K.lnGamma a) ≤ K.igCore y a (K.lnGamma a))
    (x y : ℝ) (hx : 0 ≤ x) (hxy : x ≤ y) :
    ∃ u v, pGamma K x a b = .val u ∧ pGamma K y a b = .val v ∧ u ≤ v := by
  refine ⟨_, _, (guards_total_pGamma K x a b).2.2.2 ha (le_of_lt hb),
    (guards_total_pGamma K y a b).2.2.2 ha (le_of_lt hb), ?_⟩
  exact incompleteGamma_monotone_relative K a _ ha hpos hmono _ _ (mul_nonneg (le_of_lt hb) hx)
    (mul_le_mul_of_nonneg_left hxy (le_of_lt hb))

/-- `pChisq(·, v)` is non-decreasing on the whole line for `v > 0` (0 left of the support), under the
same contract (`_relative`: a contract the actual gamma kernel fails) -/
theorem affine_monotone_pChisq_relative (K : Kernels ℝ) (v : ℝ) (hv : 0 < v)
    (hpos : ∀ x, 0 < x → 0 ≤ K.igCore x (v / 2) (K.lnGamma (v / 2)))
    (hmono : ∀ x y, 0 < x → x ≤ y →
      K.igCore x (v / 2) (K.lnGamma (v / 2)) ≤ K.igCore y (v / 2) (K.lnGamma (v / 2)))
    (x y : ℝ) (hxy : x ≤ y) :
    ∃ u w, pChisq K x v = .val u ∧ pChisq K y v = .val w ∧ u ≤ w := by
  have hv2 : 0 < v / 2 := by linarith
  by_cases hx : x < 0
  · by_cases hy : y < 0
    · exact ⟨0, 0, (guards_total_pChisq K x v).1 hx, (guards_total_pChisq K y v).1 hy, le_refl _⟩
    · have hy' : 0 ≤ y := not_lt.mp hy
      obtain ⟨u, w, h1, h2, _⟩ := affine_monotone_pGamma_relative K (v / 2) (1 / 2) hv2 (by norm_num) hpos hmono
        y y hy' (le_refl _)
      refine ⟨0, w, (guards_total_pChisq K x v).1 hx, by rw [wrapper_pChisq K y v hy']; exact h2, ?_⟩
      -- the value at y ≥ 0 is an incomplete gamma value, hence ≥ 0
      rw [(guards_total_pGamma K y (v / 2) (1 / 2)).2.2.2 hv2 (by norm_num)] at h2
      have hw : w = incompleteGamma K (1 / 2 * y) (v / 2) (K.lnGamma (v / 2)) := by injection h2 with h; exact h.symm
      rw [hw]
      have := incompleteGamma_monotone_relative K (v / 2) _ hv2 hpos hmono 0 (1 / 2 * y) (le_refl _) (by positivity)
      rwa [(guards_total_incompleteGamma K 0 _ _).2.1 hv2] at this
  · have hx' : 0 ≤ x := not_lt.mp hx
    have hy' : 0 ≤ y := le_trans hx' hxy
    rw [wrapper_pChisq K x v hx', wrapper_pChisq K y v hy']
    exact affine_monotone_pGamma_relative K (v / 2) (1 / 2) hv2 (by norm_num) hpos hmono x y hx' hxy

/-- `qGamma(·, α, β)` is non-decreasing on the domain of `qChisq` for `β > 0` when the AS91
kernel is non-decreasing and non-negative -/
theorem affine_monotone_qGamma (K : Kernels ℝ) (a b : ℝ) (hb : 0 < b)
    (hpos : ∀ p, 0 ≤ K.qChisqCore p (2 * a))
    (p q : ℝ) (hp : qChisqSentinel p (2 * a) = false) (hq : qChisqSentinel q (2 * a) = false)
    (hmono : K.qChisqCore p (2 * a) ≤ K.qChisqCore q (2 * a)) :
    qGamma K p a b ≤ qGamma K q a b := by
  have e1 := qChisq_of_domain K p _ hp
  have e2 := qChisq_of_domain K q _ hq
  rw [wrapper_qGamma K p a b (by rw [e1]; exact hpos p), wrapper_qGamma K q a b (by rw [e2]; exact hpos q),
    e1, e2]
  exact div_le_div_of_nonneg_right hmono (by linarith)


/-- **The gamma round trip *is* the chi-square round trip** — no contract on accuracy: for `α, β > 0`
and a non-negative `qChisq` value (i.e. not its error value), `pGamma (qGamma p α β) α β` and
`pChisq (qChisq p 2α) 2α` are the same `incompleteGamma` call.  Hence whatever accuracy `ε` the
chi-square pair achieves (explored: 1e-8), the gamma pair achieves the same for every rate. -/
theorem qGamma_roundtrip_eq (K : Kernels ℝ) (p a b : ℝ) (ha : 0 < a) (hb : 0 < b)
    (hc : 0 ≤ qChisq K p (2 * a)) :
    pGamma K (qGamma K p a b) a b = pChisq K (qChisq K p (2 * a)) (2 * a) := by
  rw [wrapper_qGamma K p a b hc, wrapper_pChisq K _ _ hc]
  have h2a : 0 < 2 * a / 2 := by linarith
  rw [(guards_total_pGamma K _ _ _).2.2.2 h2a (by norm_num), (guards_total_pGamma K _ _ _).2.2.2 ha (le_of_lt hb)]
  have e1 : b * (qChisq K p (2 * a) / (2 * b)) = 1 / 2 * qChisq K p (2 * a) := by
    field_simp
  have e2 : 2 * a / 2 = a := by ring
  rw [e1, e2]

/-- monotone *up to `δ`*: when the kernel is non-negative and non-decreasing up to a slack `δ ≥ 0` on
`x > 0`, so is `incompleteGamma` on `x ≥ 0`.  (`δ = 0` is `incompleteGamma_monotone_relative`; the
exploration checks the antecedent for the actual kernel at `δ = 2e-8`, clause
`search_monotone_pgamma@switch`.) -/
theorem incompleteGamma_monotone_slack (K : Kernels ℝ) (a g δ : ℝ) (ha : 0 < a) (hδ : 0 ≤ δ)
    (hpos : ∀ x, 0 < x → 0 ≤ K.igCore x a g)
    (hmono : ∀ x y, 0 < x → x ≤ y → K.igCore x a g ≤ K.igCore y a g + δ)
    (x y : ℝ) (hx : 0 ≤ x) (hxy : x ≤ y) :
    incompleteGamma K x a g ≤ incompleteGamma K y a g + δ := by
  rcases eq_or_lt_of_le hx with h0 | h0
  · rw [← h0, (guards_total_incompleteGamma K 0 a g).2.1 ha]
    rcases eq_or_lt_of_le (le_trans hx hxy) with h1 | h1
    · rw [← h1, (guards_total_incompleteGamma K 0 a g).2.1 ha]; linarith
    · rw [(guards_total_incompleteGamma K y a g).2.2.1 h1 ha]; linarith [hpos y h1]
  · have hy : 0 < y := lt_of_lt_of_le h0 hxy
    rw [(guards_total_incompleteGamma K x a g).2.2.1 h0 ha,
      (guards_total_incompleteGamma K y a g).2.2.1 hy ha]
    exact hmono x y h0 hxy

/-! ## Further exact facts -/

/-- special case: the median, for every `exp` and `trunc` -/
theorem pnorm_zero (ex tr : ℝ → ℝ) : pNorm ex tr 0 = 1 / 2 := by
  have h0 := cut1_pos
  have c1 : |(0 : ℝ)| ≤ cut1 := by rw [abs_zero]; exact le_of_lt h0
  rw [pNorm_real, if_pos c1, central_real]
  simp [centralTemp]

/-- inside its domain the standard normal quantile is a number of ordinary size (so the error
value -9999 cannot be mistaken for a quantile) -/
theorem qnorm_bounded (p : ℝ) (h : qNormSentinel p = false) : |qNorm p| ≤ 12 := by
  have hs : ¬ (qP1 p < qEps) := by simpa [qNormSentinel] using h
  rw [qNorm_real, if_neg hs]
  have hb := qZ_bd (qP1 p)
  have hy := qY_le (not_lt.mp hs)
  have hy0 := Real.sqrt_nonneg (Real.log (1 / (qP1 p * qP1 p)))
  split <;> rw [abs_le] <;> constructor <;> linarith [hb.1, hb.2]

/-- rate scaling of the gamma cdf: `pGamma x α β = pGamma (β x) α 1` -/
theorem pGamma_scale (K : Kernels ℝ) (x a b : ℝ) (ha : 0 < a) (hb : 0 ≤ b) :
    pGamma K x a b = pGamma K (b * x) a 1 := by
  rw [(guards_total_pGamma K x a b).2.2.2 ha hb, (guards_total_pGamma K (b * x) a 1).2.2.2 ha (by norm_num),
    one_mul]

/-- rate scaling of the gamma quantile: `qGamma p α β = qGamma p α 1 / β` for `β ≠ 0`, as long as
`qChisq` reported no error -/
theorem qGamma_scale (K : Kernels ℝ) (p a b : ℝ) (hb : b ≠ 0) (h : 0 ≤ qChisq K p (2 * a)) :
    qGamma K p a b = qGamma K p a 1 / b := by
  rw [wrapper_qGamma K p a b h, wrapper_qGamma K p a 1 h]
  field_simp

/-- under the AS109 kernel's contract (no exception for positive shapes) `qBeta` raises, for
positive shapes, **iff** the probability is outside `[0,1]` -/
theorem qBeta_exc_iff (K : Kernels ℝ) (hK : ∀ p a b, 0 < a → 0 < b → K.qBetaCore p a b ≠ .exc)
    (p a b : ℝ) (ha : 0 < a) (hb : 0 < b) : qBeta K p a b = .exc ↔ (p < 0 ∨ 1 < p) := by
  obtain ⟨h1, h2, h3, h4⟩ := guards_total_qBeta K p a b
  constructor
  · intro h
    by_contra hn
    push Not at hn
    rcases eq_or_lt_of_le hn.1 with e0 | l0
    · rw [← e0, ((guards_total_qBeta K 0 a b).2.2.1 (le_of_lt ha) (le_of_lt hb)).1] at h; cases h
    · rcases eq_or_lt_of_le hn.2 with e1 | l1
      · rw [e1, ((guards_total_qBeta K 1 a b).2.2.1 (le_of_lt ha) (le_of_lt hb)).2] at h; cases h
      · rw [h4 (le_of_lt ha) (le_of_lt hb) l0 l1] at h
        exact hK p a b ha hb h
  · intro h
    apply h1; rw [h2]
    rcases h with h | h
    · exact Or.inl h
    · exact Or.inr (Or.inl h)

/-! ## Non-vacuity: kernels meeting the contracts used above exist -/

/-- a toy kernel family: `igCore x = x`, `qChisqCore p = 2p` -/
def toyK : Kernels ℝ where
  lnGamma _ := 0
  igCore x _ _ := x
  qChisqCore p _ := 2 * p
  ibCore x _ _ := x
  qBetaCore p _ _ := .val p

example (p a b : ℝ) (hb : 0 < b) (hp : qChisqSentinel p (2 * a) = false) :
    pGamma toyK (qGamma toyK p a b) a b = .val p := by
  apply qGamma_inverts_relative toyK _ p a b hb hp
  intro p v h
  have hdom : ¬ (p < chLo ∨ chHi < p ∨ v ≤ 0) := by rw [← qChisqSentinel_iff]; simp [h]
  push Not at hdom
  have hp0 : 0 < p := lt_of_lt_of_le chLo_pos hdom.1
  have hc : qChisq toyK p v = 2 * p := qChisq_of_domain toyK p v h
  rw [hc, wrapper_pChisq toyK _ _ (by linarith),
    (guards_total_pGamma toyK _ _ _).2.2.2 (by linarith [hdom.2.2]) (by norm_num),
    (guards_total_incompleteGamma toyK _ _ _).2.2.1 (by linarith) (by linarith [hdom.2.2])]
  simp [toyK]

example : qChisqSentinel (1 / 2 : ℝ) (2 * 1) = false := by
  have : ¬ ((1 / 2 : ℝ) < chLo ∨ chHi < (1 / 2 : ℝ) ∨ (2 * 1 : ℝ) ≤ 0) := by
    rw [chLo_real, chHi_real]; norm_num
  rw [← qChisqSentinel_iff] at this; simpa using this

end Bpp.C08
