import BppProofs.Lemmas.DistGuards
/-!
# C08 — cumulative and quantile functions   (src/Bpp/Numeric/Random/RandomTools.{h,cpp})
-/
namespace Bpp.C08
open Bpp Bpp.Scalar Bpp.PNorm Bpp.DistGuards

/-- outside the cut-offs `pNorm` is exactly 0 / 1, for every `exp` and `trunc` -/
theorem pnorm_ends (ex tr : ℝ → ℝ) (x : ℝ) :
    (x ≤ -lowCut → pNorm ex tr x = 0) ∧ (upCut ≤ x → pNorm ex tr x = 1) := by
  have h0 := cut1_pos
  have h12 := cut1_lt_cut2
  have h2u := cut2_lt_upCut
  have hul := upCut_lt_lowCut
  constructor
  · intro h
    have hy : |x| = -x := abs_of_neg (by linarith)
    have c1 : ¬ (|x| ≤ cut1) := by rw [hy]; intro; linarith
    have c2 : ¬ (|x| ≤ cut2) := by rw [hy]; intro; linarith
    have c3 : ¬ (-lowCut < x) := by linarith
    have c4 : ¬ (0 < x) := by linarith
    simp [pNorm, c1, c2, c3, c4]
  · intro h
    have hy : |x| = x := abs_of_pos (by linarith)
    have c1 : ¬ (|x| ≤ cut1) := by rw [hy]; intro; linarith
    have c2 : ¬ (|x| ≤ cut2) := by rw [hy]; intro; linarith
    have c3 : ¬ (x < upCut) := by linarith
    have c4 : (0 : ℝ) < x := by linarith
    simp [pNorm, c1, c2, c3, c4]

/-- **Reflection.**  `pNorm (-x) = 1 - pNorm x` in exact arithmetic, for every `exp` and every odd
`trunc`, on `|x| < 8.2924` and on `37.5193 ≤ |x|`.  (Between the two cut-offs the code computes
the two tails by different formulas: see `pnorm_reflect_gap`.) -/
theorem pnorm_reflect (ex tr : ℝ → ℝ) (htr : ∀ z, tr (-z) = -tr z) (x : ℝ)
    (hx : |x| < upCut ∨ lowCut ≤ |x|) : pNorm ex tr (-x) = 1 - pNorm ex tr x := by
  have h0 := cut1_pos
  have h12 := cut1_lt_cut2
  have h2u := cut2_lt_upCut
  have hul := upCut_lt_lowCut
  rcases hx with hx | hx
  · -- |x| < upCut : the same branch is taken at x and -x
    rw [pNorm_real, pNorm_real, abs_neg]
    by_cases c1 : |x| ≤ cut1
    · simp only [c1, if_true, central_real, centralTemp_neg]; ring
    · simp only [c1, if_false]
      have hx0 : x ≠ 0 := by
        intro h; apply c1; rw [h, abs_zero]; exact le_of_lt h0
      by_cases c2 : |x| ≤ cut2
      · simp only [c2, if_true, middle_real, abs_neg]
        rcases lt_or_gt_of_ne hx0 with hn | hp
        · have : ¬ (0 < x) := not_lt.mpr (le_of_lt hn)
          simp [this, hn]
        · have : ¬ (0 < -x) := by linarith
          simp [this, hp]
      · simp only [c2, if_false]
        have hb := abs_lt.mp hx
        have r1 : -lowCut < x ∧ x < upCut := ⟨by linarith [hb.1], hb.2⟩
        have r2 : -lowCut < -x ∧ -x < upCut := ⟨by linarith [hb.2], by linarith [hb.1]⟩
        simp only [r1, r2, and_self, if_true, far_real, farTail_neg ex tr htr]
        rcases lt_or_gt_of_ne hx0 with hn | hp
        · have : ¬ (0 < x) := not_lt.mpr (le_of_lt hn)
          simp [this, hn]
        · have : ¬ (0 < -x) := by linarith
          simp [this, hp]
  · -- both ends are exact
    rcases le_abs'.mp hx with h | h
    · rw [(pnorm_ends ex tr x).1 h, (pnorm_ends ex tr (-x)).2 (by linarith)]; ring
    · rw [(pnorm_ends ex tr x).2 (by linarith), (pnorm_ends ex tr (-x)).1 (by linarith)]; ring

/-- **What holds between the cut-offs** `8.2924 ≤ x < 37.5193`: the upper value is the constant 1
while the lower value is still computed by the asymptotic tail formula, so in exact arithmetic
`pNorm (-x) + pNorm x = 1 + farTail x`; the two agree only up to the size of the lower tail
(`< 1.2e-16` there, below the rounding unit of 1). -/
theorem pnorm_reflect_gap (ex tr : ℝ → ℝ) (htr : ∀ z, tr (-z) = -tr z) (x : ℝ)
    (h1 : upCut ≤ x) (h2 : x < lowCut) :
    pNorm ex tr x = 1 ∧ pNorm ex tr (-x) = farTail ex tr x := by
  have h0 := cut1_pos
  have h12 := cut1_lt_cut2
  have h2u := cut2_lt_upCut
  have hul := upCut_lt_lowCut
  refine ⟨(pnorm_ends ex tr x).2 h1, ?_⟩
  have hy : |x| = x := abs_of_pos (by linarith)
  have c1 : ¬ (|x| ≤ cut1) := by rw [hy]; intro; linarith
  have c2 : ¬ (|x| ≤ cut2) := by rw [hy]; intro; linarith
  have r : -lowCut < -x ∧ -x < upCut := ⟨by linarith, by linarith⟩
  have c4 : ¬ (0 < -x) := by linarith
  rw [pNorm_real, abs_neg]
  simp only [c1, c2, r, and_self, if_true, if_false, far_real, c4, farTail_neg ex tr htr]

/-- … and with the real exponential the lower value is strictly positive there, so reflection
is *not* an identity of the code between the cut-offs (it holds to within the lower tail). -/
theorem pnorm_reflect_fails_in_gap (x : ℝ) (h1 : upCut ≤ x) (h2 : x < lowCut) :
    pNorm Real.exp truncR (-x) ≠ 1 - pNorm Real.exp truncR x := by
  obtain ⟨e1, e2⟩ := pnorm_reflect_gap Real.exp truncR truncR_odd x h1 h2
  rw [e1, e2, sub_self]
  have h5 := five_le_cut2
  have h2u := cut2_lt_upCut
  have hx : 5 ≤ |x| := by rw [abs_of_pos (by linarith)]; linarith
  have ht := (tailTemp_bd hx).1
  simp only [farTail]
  exact ne_of_gt (mul_pos (mul_pos (Real.exp_pos _) (Real.exp_pos _)) ht)

/-- **Range.**  `0 ≤ pNorm x ≤ 1` for every `x`, in exact arithmetic, for every `exp` with values in
`[0,1]` on the non-positive axis and every odd `trunc` with `0 ≤ trunc z ≤ z` on `z ≥ 0`
(`ExpTrunc`; `Real.exp` and the mathematical `trunc` qualify: `expTrunc_real`). -/
theorem pnorm_range (ex tr : ℝ → ℝ) (H : ExpTrunc ex tr) (x : ℝ) :
    0 ≤ pNorm ex tr x ∧ pNorm ex tr x ≤ 1 := by
  have h0 := cut1_pos
  have h5 := five_le_cut2
  rw [pNorm_real]
  by_cases c1 : |x| ≤ cut1
  · simp only [c1, if_true, central_real]
    have := abs_le.mp (centralTemp_bd c1)
    constructor <;> linarith [this.1, this.2]
  · simp only [c1, if_false]
    by_cases c2 : |x| ≤ cut2
    · simp only [c2, if_true, middle_real]
      have := middleTail_bd H (abs_nonneg x)
      split <;> constructor <;> linarith [this.1, this.2]
    · simp only [c2, if_false]
      by_cases c3 : -lowCut < x ∧ x < upCut
      · simp only [c3, and_self, if_true, far_real]
        have := farTail_bd H (x := x) (by linarith [not_le.mp c2])
        split <;> constructor <;> linarith [this.1, this.2]
      · simp only [c3, if_false]
        split <;> norm_num

/-- the hypotheses of `pnorm_range` are satisfiable: the real exponential and truncation -/
example (x : ℝ) : 0 ≤ pNorm Real.exp truncR x ∧ pNorm Real.exp truncR x ≤ 1 :=
  pnorm_range _ _ expTrunc_real x

/-! ## Decision tables of the argument checks (`guards_total_*`) -/

/-- `incompleteGamma(x, α, ·)`: 0 at `x = 0` (whatever `α`), the error value -1 iff
`x ≠ 0 ∧ (x < 0 ∨ α ≤ 0)`, the kernel otherwise. -/
theorem guards_total_incompleteGamma (K : Kernels ℝ) (x a g : ℝ) :
    (x = 0 → incompleteGamma K x a g = 0) ∧
    (igSentinel x a = true → incompleteGamma K x a g = -1) ∧
    (0 < x → 0 < a → incompleteGamma K x a g = K.igCore x a g) ∧
    (igSentinel x a = true ↔ x ≠ 0 ∧ (x < 0 ∨ a ≤ 0)) := by
  refine ⟨?_, ?_, ?_, igSentinel_iff x a⟩
  · intro h; simp [incompleteGamma, h]
  · intro h
    obtain ⟨h0, h1⟩ := (igSentinel_iff x a).mp h
    simp only [incompleteGamma, ScalarReal.eqb_iff, ScalarReal.zero_eq, h0, if_false,
      Bool.or_eq_true, ScalarReal.ltb_iff, ScalarReal.leb_iff, h1, if_true, minusOne_real]
  · intro hx ha
    have h0 : x ≠ 0 := ne_of_gt hx
    have h1 : ¬ (x < 0 ∨ a ≤ 0) := by push Not; exact ⟨le_of_lt hx, ha⟩
    simp only [incompleteGamma, ScalarReal.eqb_iff, ScalarReal.zero_eq, h0, if_false,
      Bool.or_eq_true, ScalarReal.ltb_iff, ScalarReal.leb_iff, h1]

/-- under the kernel's contract (inside the domain its value is not the error value) the error
value is returned *iff* the arguments are outside the domain -/
theorem incompleteGamma_sentinel_iff (K : Kernels ℝ)
    (hK : ∀ x a g, 0 < x → 0 < a → K.igCore x a g ≠ -1) (x a g : ℝ) :
    incompleteGamma K x a g = -1 ↔ igSentinel x a = true := by
  obtain ⟨h1, h2, h3, h4⟩ := guards_total_incompleteGamma K x a g
  constructor
  · intro h
    by_contra hs
    rw [h4] at hs
    by_cases hx0 : x = 0
    · rw [h1 hx0] at h; norm_num at h
    · have hx : 0 < x := by
        rcases lt_or_gt_of_ne hx0 with hn | hp
        · exact absurd ⟨hx0, Or.inl hn⟩ hs
        · exact hp
      have ha : 0 < a := by
        by_contra ha; exact hs ⟨hx0, Or.inr (not_lt.mp ha)⟩
      rw [h3 hx ha] at h
      exact hK x a g hx ha h
  · exact h2

/-- `pGamma(x, α, β)`: raises iff `α < 0 ∨ β < 0`; 1 at `α = 0`; otherwise the incomplete gamma
ratio at `β x` (so the error value -1 for `β x < 0`) -/
theorem guards_total_pGamma (K : Kernels ℝ) (x a b : ℝ) :
    (pGamma K x a b = .exc ↔ pGammaRaises a b = true) ∧
    (pGammaRaises a b = true ↔ a < 0 ∨ b < 0) ∧
    (a = 0 → 0 ≤ b → pGamma K x a b = .val 1) ∧
    (0 < a → 0 ≤ b → pGamma K x a b = .val (incompleteGamma K (b * x) a (K.lnGamma a))) := by
  refine ⟨?_, pGammaRaises_iff a b, ?_, ?_⟩
  · rw [pGammaRaises_iff]
    unfold pGamma
    by_cases ha : a < 0
    · simp [ha]
    · by_cases hb : b < 0
      · simp [ha, hb]
      · by_cases h0 : a = 0 <;> simp [ha, hb, h0]
  · intro h0 hb
    have : ¬ (b < 0) := not_lt.mpr hb
    simp [pGamma, h0, this]
  · intro ha hb
    have h1 : ¬ (a < 0) := by linarith
    have h2 : ¬ (b < 0) := not_lt.mpr hb
    have h3 : a ≠ 0 := ne_of_gt ha
    simp [pGamma, h1, h2, h3]

/-- `pChisq(x, v)`: 0 for `x < 0` (whatever `v`); otherwise raises iff `v < 0` -/
theorem guards_total_pChisq (K : Kernels ℝ) (x v : ℝ) :
    (x < 0 → pChisq K x v = .val 0) ∧
    (pChisq K x v = .exc ↔ pChisqRaises x v = true) ∧
    (pChisqRaises x v = true ↔ 0 ≤ x ∧ v < 0) := by
  refine ⟨?_, ?_, pChisqRaises_iff x v⟩
  · intro h; simp [pChisq, h]
  · rw [pChisqRaises_iff]
    unfold pChisq
    by_cases hx : x < 0
    · have : ¬ (0 ≤ x) := not_le.mpr hx
      simp [hx, this]
    · have hx' : 0 ≤ x := not_lt.mp hx
      simp only [ScalarReal.ltb_iff, ScalarReal.zero_eq, hx, if_false, hx', true_and]
      rw [(guards_total_pGamma K x (v / two) half).1, pGammaRaises_iff]
      simp only [two_real, half_real]
      constructor
      · rintro (h | h)
        · linarith
        · norm_num at h
      · intro h; left; linarith

/-- `qChisq(p, v)`: the error value -1 when `p < 0.000002 ∨ p > 0.999998 ∨ v ≤ 0`, the AS91 kernel
otherwise -/
theorem guards_total_qChisq (K : Kernels ℝ) (p v : ℝ) :
    (qChisqSentinel p v = true → qChisq K p v = -1) ∧
    (qChisqSentinel p v = false → qChisq K p v = K.qChisqCore p v) ∧
    (qChisqSentinel p v = true ↔ p < chLo ∨ chHi < p ∨ v ≤ 0) := by
  refine ⟨?_, ?_, qChisqSentinel_iff p v⟩
  · intro h
    have : (ltb p chLo || gtb p chHi || leb v zero) = true := h
    simp only [qChisq, this, if_true, minusOne_real]
  · intro h
    have : (ltb p chLo || gtb p chHi || leb v zero) = false := h
    simp only [qChisq, this, Bool.false_eq_true, if_false]

/-- `qGamma(p, α, β)` (repaired code): outside the domain of `qChisq(p, 2α)` the error value -1
itself; inside, `qChisq / (2β)` provided the kernel's value is non-negative (its contract); and
then, for `β > 0`, -1 is returned *only* outside the domain. -/
theorem guards_total_qGamma (K : Kernels ℝ) (p a b : ℝ) :
    (qChisqSentinel p (two * a) = true → qGamma K p a b = -1) ∧
    (qChisqSentinel p (two * a) = false → 0 ≤ K.qChisqCore p (two * a) →
        qGamma K p a b = K.qChisqCore p (two * a) / (2 * b)) ∧
    ((∀ p v, 0 ≤ K.qChisqCore p v) → 0 < b →
        (qGamma K p a b = -1 ↔ qChisqSentinel p (two * a) = true)) ∧
    (qChisqSentinel p (two * a) = true ↔ p < chLo ∨ chHi < p ∨ a ≤ 0) := by
  have e : qGamma K p a b = if qChisq K p (two * a) < 0 then qChisq K p (two * a)
      else qChisq K p (two * a) / (2 * b) := by simp [qGamma]
  have hsen : qChisqSentinel p (two * a) = true → qGamma K p a b = -1 := by
    intro h
    rw [e, qChisq_of_sentinel K p _ h]; norm_num
  have hdom : qChisqSentinel p (two * a) = false → 0 ≤ K.qChisqCore p (two * a) →
        qGamma K p a b = K.qChisqCore p (two * a) / (2 * b) := by
    intro h h0
    have : ¬ (K.qChisqCore p (two * a) < 0) := not_lt.mpr h0
    rw [e, qChisq_of_domain K p _ h, if_neg this]
  refine ⟨hsen, hdom, ?_, ?_⟩
  · intro hK hb
    refine ⟨?_, hsen⟩
    intro h
    by_contra hs
    have hs' : qChisqSentinel p (two * a) = false := by simpa using hs
    rw [hdom hs' (hK _ _)] at h
    have : 0 ≤ K.qChisqCore p (two * a) / (2 * b) := div_nonneg (hK _ _) (by linarith)
    linarith
  · rw [qChisqSentinel_iff]
    simp only [two_real]
    constructor
    · rintro (h | h | h)
      · exact Or.inl h
      · exact Or.inr (Or.inl h)
      · right; right; linarith
    · rintro (h | h | h)
      · exact Or.inl h
      · exact Or.inr (Or.inl h)
      · right; right; linarith

/-- the snapshot's `qGamma` divided the error value by `2β`: for `p = 0, α = 1, β = 1/10` it
returned -5, whatever the kernels -/
theorem qGammaOld_rescales_sentinel (K : Kernels ℝ) : qGammaOld K 0 1 (1 / 10) = -5 := by
  have h : qChisqSentinel (0 : ℝ) (two * 1) = true := by
    rw [qChisqSentinel_iff]; left; exact chLo_pos
  have e : qGammaOld K 0 1 (1 / 10) = qChisq K 0 (two * 1) / (2 * (1 / 10)) := by simp [qGammaOld]
  rw [e, qChisq_of_sentinel K _ _ h]; norm_num

/-- `incompleteBeta(x, α, β)` (= `pBeta`): raises iff `α ≤ 0 ∨ β ≤ 0 ∨ x < 0 ∨ x > 1`; exact end
points; the kernel strictly inside -/
theorem guards_total_incompleteBeta (K : Kernels ℝ) (x a b : ℝ) :
    (incompleteBeta K x a b = .exc ↔ ibRaises x a b = true) ∧
    (ibRaises x a b = true ↔ a ≤ 0 ∨ b ≤ 0 ∨ x < 0 ∨ 1 < x) ∧
    (0 < a → 0 < b → incompleteBeta K 0 a b = .val 0 ∧ incompleteBeta K 1 a b = .val 1) ∧
    (0 < a → 0 < b → 0 < x → x < 1 → incompleteBeta K x a b = .val (K.ibCore x a b)) ∧
    pBeta K x a b = incompleteBeta K x a b := by
  refine ⟨?_, ibRaises_iff x a b, ?_, ?_, rfl⟩
  · rw [ibRaises_iff]
    unfold incompleteBeta
    by_cases h1 : a ≤ 0 ∨ b ≤ 0
    · have : a ≤ 0 ∨ b ≤ 0 ∨ x < 0 ∨ 1 < x := by tauto
      simp [h1, this]
    · by_cases h2 : x < 0 ∨ 1 < x
      · have : a ≤ 0 ∨ b ≤ 0 ∨ x < 0 ∨ 1 < x := by tauto
        simp [h1, h2]
      · have : ¬ (a ≤ 0 ∨ b ≤ 0 ∨ x < 0 ∨ 1 < x) := by tauto
        simp only [this, iff_false]
        simp only [Bool.or_eq_true, ScalarReal.leb_iff, ScalarReal.ltb_iff, ScalarReal.gtb_iff,
          ScalarReal.zero_eq, ScalarReal.one_eq, h1, h2, if_false]
        split
        · simp
        · split <;> simp
  · intro ha hb
    have h1 : ¬ (a ≤ 0 ∨ b ≤ 0) := by push Not; exact ⟨ha, hb⟩
    constructor <;> simp [incompleteBeta, h1]
  · intro ha hb hx0 hx1
    have h1 : ¬ (a ≤ 0 ∨ b ≤ 0) := by push Not; exact ⟨ha, hb⟩
    have h2 : ¬ (x < 0 ∨ 1 < x) := by push Not; exact ⟨le_of_lt hx0, le_of_lt hx1⟩
    have h3 : x ≠ 0 := ne_of_gt hx0
    have h4 : x ≠ 1 := ne_of_lt hx1
    simp [incompleteBeta, h1, h2, h3, h4]

/-- `qBeta(p, α, β)`: raises when `p ∉ [0,1]` or a shape is negative; returns `p` at `p ∈ {0,1}`
(also for a zero shape: the check is `< 0`); the AS109 kernel otherwise — which, calling `pBeta`,
raises for a zero shape.  Under that contract, for non-negative shapes and `0 < p < 1` an
exception is raised iff a shape is zero. -/
theorem guards_total_qBeta (K : Kernels ℝ) (p a b : ℝ) :
    (qBetaRaises p a b = true → qBeta K p a b = .exc) ∧
    (qBetaRaises p a b = true ↔ p < 0 ∨ 1 < p ∨ a < 0 ∨ b < 0) ∧
    (0 ≤ a → 0 ≤ b → qBeta K 0 a b = .val 0 ∧ qBeta K 1 a b = .val 1) ∧
    (0 ≤ a → 0 ≤ b → 0 < p → p < 1 → qBeta K p a b = K.qBetaCore p a b) := by
  refine ⟨?_, qBetaRaises_iff p a b, ?_, ?_⟩
  · intro h
    rw [qBetaRaises_iff] at h
    unfold qBeta
    by_cases h1 : p < 0 ∨ 1 < p
    · simp [h1]
    · have h2 : a < 0 ∨ b < 0 := by tauto
      simp [h1, h2]
  · intro ha hb
    have h2 : ¬ (a < 0 ∨ b < 0) := by push Not; exact ⟨ha, hb⟩
    constructor <;> simp [qBeta, h2]
  · intro ha hb h0 h1
    have h1' : ¬ (p < 0 ∨ 1 < p) := by push Not; exact ⟨le_of_lt h0, le_of_lt h1⟩
    have h2 : ¬ (a < 0 ∨ b < 0) := by push Not; exact ⟨ha, hb⟩
    have h3 : p ≠ 0 := ne_of_gt h0
    have h4 : p ≠ 1 := ne_of_lt h1
    simp [qBeta, h1', h2, h3, h4]

end Bpp.C08
