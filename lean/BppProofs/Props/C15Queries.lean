import BppProofs.Props.C15Valid
import BppProofs.Lemmas.TreeMrca
import BppProofs.Lemmas.TreeSub
import BppProofs.Lemmas.TreeSubE
import BppProofs.Lemmas.TreePath
import BppProofs.Lemmas.TreeFamily
/-!
# C15 — structural queries of a valid rooted tree against an independent reference tree

The reference (`BppModel/TreeRef.lean`) is the parent function `Ref.parent` read off the *edge table*
(`refRaw g`), with ancestors, most recent common ancestor and paths defined on it; the queries of the
model read the *node table*.  `ValidRooted g`: consistent tables (C14), directed, `isTree g = true`.
Every theorem concludes with the executable predicate the check evaluates on the implementation's
answers (`Ref.isMrca`, `Ref.isSubtree`, ...), and none of the fuelled recursions runs out of fuel.

* `father_spec`, `sons_spec`, `branches_spec` — `getFatherOfNode`, `hasFather`, `getEdgeToFather`, `getSons`, `getBranches`
* `leaves_under_spec` — `getLeavesUnderNode` (after the repair: inner nodes with one son are gone through)
* `subtree_spec`, `subtree_edges_spec` — `getSubtreeNodes`, `getSubtreeEdges`
* `path_spec`, `path_without_ancestor_spec`, `edge_path_spec` — `getNodePathBetweenTwoNodes`, `getEdgePathBetweenTwoNodes`,
  for every pair of nodes: ancestor / descendant pairs and `a = b` included
* `mrca_spec` — `MRCA` (after the repair) for every non-empty list of nodes, repetitions and ancestor pairs included
-/
namespace Bpp.C15
open Bpp Bpp.Graph

theorem isAnc_desc_mem {P : PTree} (hw : P.WF) {a x : Nat} (h : IsAnc P.par a x) (ha : a ∈ P.nodes) : x ∈ P.nodes := by
  cases h with
  | refl => exact ha
  | step hp _ => exact (hw.par_mem hp).1

/-- father, `hasFather` and the edge to the father are the ones of the reference -/
theorem father_spec (g : G) (hv : ValidRooted g) (n : Nat) (hn : g.hasNode n = true) :
    T.father g n = (refRaw g).parent n ∧ T.hasFather g n = some ((refRaw g).parent n).isSome ∧
    T.edgeToFather g n = (refRaw g).edgeUp n ∧ (((refRaw g).parent n).isSome = false ↔ n = g.root) := by
  obtain ⟨P, hd, hr⟩ := hv.dtree
  refine ⟨by rw [hd.father hn, hd.ref_parent], by rw [hd.hasFather hn, hd.ref_parent], (hd.ref_edgeUp hn).symm, ?_⟩
  rw [hd.ref_parent, ← hr]
  have := hd.fatherless_iff hn
  rw [hd.hasFather hn] at this
  constructor
  · intro h; exact this.1 (by rw [h])
  · intro h; have := this.2 h; simpa using this

/-- `getSons` lists the children of the reference, `getNumberOfSons` counts them, `isLeaf` says whether there is none -/
theorem sons_spec (g : G) (hv : ValidRooted g) (n : Nat) (hn : g.hasNode n = true) :
    ∃ sons, g.outNeighbors n = some sons ∧ sons.Perm ((refRaw g).children n) ∧
      RowQ.nbOut (g.rowOf n) = some ((refRaw g).children n).length ∧ T.isLeafT g n = some ((refRaw g).children n).isEmpty := by
  obtain ⟨P, hd, _⟩ := hv.dtree
  have hperm := hd.sons_perm n
  have hnP := (hd.nodes n).2 hn
  refine ⟨g.outKeys n, G.outNeighbors_of_hasNode hn, hperm, ?_, ?_⟩
  · obtain ⟨r, hr⟩ := (G.hasNode_iff g n).1 hn
    simp only [RowQ.nbOut, G.rowOf, hr, Option.map_some]
    rw [← hperm.length_eq, DTree.outKeys_of_row hr]; simp [AL.keys]
  · rw [hd.isLeafT hnP]
    congr 1
    have := hperm.length_eq
    cases h1 : g.outKeys n <;> cases h2 : (refRaw g).children n <;> simp_all

/-- `getBranches` lists the edges to the children; at the place of each son stands the edge to it -/
theorem branches_spec (g : G) (hv : ValidRooted g) (n : Nat) (hn : g.hasNode n = true) :
    ∃ row : List (Nat × Nat), g.outNeighbors n = some (row.map (·.1)) ∧ g.outEdges n = some (row.map (·.2)) ∧
      (row.map (·.2)).Perm ((refRaw g).branches n) ∧ ∀ q ∈ row, (refRaw g).edgeUp q.1 = some q.2 := by
  obtain ⟨P, hd, _⟩ := hv.dtree
  exact hd.branches_spec hn

/-- **mrca_spec**: `MRCA` of a non-empty list of nodes is their most recent common ancestor in the reference tree -/
theorem mrca_spec (g : G) (hv : ValidRooted g) (x : Nat) (rest : List Nat) (hS : ∀ s ∈ x :: rest, g.hasNode s = true) :
    ∃ m, T.mrca g (x :: rest) = .ok m ∧ (refRaw g).isMrca (x :: rest) m = true ∧
      (∀ s ∈ x :: rest, IsAnc (refRaw g).parent m s) ∧ ∀ c, (∀ s ∈ x :: rest, IsAnc (refRaw g).parent c s) → IsAnc (refRaw g).parent c m := by
  obtain ⟨P, hd, _⟩ := hv.dtree
  have hSP : ∀ s ∈ x :: rest, s ∈ P.nodes := fun s hs => (hd.nodes s).2 (hS s hs)
  obtain ⟨m, hm, hmn, hmr⟩ := hd.mrca x rest hSP
  refine ⟨m, hm, ?_, by rw [hd.ref_parent_eq]; exact hmr.1, by rw [hd.ref_parent_eq]; exact hmr.2⟩
  unfold Ref.isMrca
  simp only [Bool.and_eq_true, List.all_eq_true, Bool.or_eq_true, Bool.not_eq_true']
  refine ⟨⟨?_, ?_⟩, ?_⟩
  · simp only [List.contains_iff_mem, DTree.ref_nodes]
    exact (G.mem_keys_hasNode g m).2 ((hd.nodes m).1 hmn)
  · intro s hs; exact (hd.ref_isAnc (hSP s hs) m).2 (hmr.1 s hs)
  · intro c hc
    have hcP : c ∈ P.nodes := (hd.nodes c).2 ((G.mem_keys_hasNode g c).1 hc)
    by_cases hall : ∀ s ∈ x :: rest, (refRaw g).isAnc c s = true
    · right
      exact (hd.ref_isAnc hmn c).2 (hmr.2 c (fun s hs => (hd.ref_isAnc (hSP s hs) c).1 (hall s hs)))
    · left
      cases hb : (x :: rest).all ((refRaw g).isAnc c) with
      | false => rfl
      | true => exact absurd (fun s hs => List.all_eq_true.1 hb s hs) hall

/-- **subtree_spec**: `getSubtreeNodes` lists, each once, the descendants of the node (itself included) -/
theorem subtree_spec (t : T) (hv : ValidRooted t.g) (n : Nat) (hn : t.g.hasNode n = true) :
    ∃ l, (t.getSubtree false n).1 = .ok l ∧ (refRaw t.g).isSubtree n l = true ∧ l.Nodup ∧ ∀ x, x ∈ l ↔ IsAnc (refRaw t.g).parent n x := by
  obtain ⟨P, hd, _⟩ := hv.dtree
  have hnP := (hd.nodes n).2 hn
  obtain ⟨l, hl, hnd, hmem⟩ := hd.subtreeNodes (t.g.nodes.length + 2) n [] hnP (by omega)
  refine ⟨l, ?_, ?_, hnd, by rw [hd.ref_parent_eq]; exact hmem⟩
  · unfold T.getSubtree
    rw [T.isValid_of_tree hv.tree]
    simp only [hv.dir, Bool.not_true, Bool.false_eq_true, if_false]
    simpa using hl
  · unfold Ref.isSubtree
    simp only [Bool.and_eq_true, List.all_eq_true, beq_iff_eq, List.contains_iff_mem, DTree.ref_nodes]
    refine ⟨fun x hx => (G.mem_keys_hasNode _ x).2 ((hd.nodes x).1 (isAnc_desc_mem hd.wf ((hmem x).1 hx) hnP)), ?_⟩
    intro x hx
    have hxP : x ∈ P.nodes := (hd.nodes x).2 ((G.mem_keys_hasNode _ x).1 hx)
    rw [hnd.count]
    by_cases hax : IsAnc P.par n x
    · simp [(hmem x).2 hax, (hd.ref_isAnc hxP n).2 hax]
    · have h1 : x ∉ l := fun h => hax ((hmem x).1 h)
      have h2 : (refRaw t.g).isAnc n x = false := by
        cases hb : (refRaw t.g).isAnc n x with
        | false => rfl
        | true => exact absurd ((hd.ref_isAnc hxP n).1 hb) hax
      simp [h1, h2]

/-- **leaves_under_spec**: `getLeavesUnderNode` lists, each once, the descendants of the node that have no child -/
theorem leaves_under_spec (g : G) (hv : ValidRooted g) (n : Nat) (hn : g.hasNode n = true) :
    ∃ l, T.leavesUnder g (g.nodes.length + 2) n [] = .ok l ∧ (refRaw g).isLeavesUnder n l = true ∧ l.Nodup ∧
      ∀ x, x ∈ l ↔ (IsAnc (refRaw g).parent n x ∧ (refRaw g).children x = []) := by
  obtain ⟨P, hd, _⟩ := hv.dtree
  have hnP := (hd.nodes n).2 hn
  obtain ⟨l, hl, hnd, hmem⟩ := hd.leavesUnder (g.nodes.length + 2) n [] hnP (by omega)
  have hch : ∀ x, g.outKeys x = [] ↔ (refRaw g).children x = [] := by
    intro x
    have := (hd.sons_perm x).length_eq
    constructor <;> intro h <;> rw [h] at this
    · exact List.length_eq_zero_iff.1 this.symm
    · exact List.length_eq_zero_iff.1 this
  refine ⟨l, by simpa using hl, ?_, hnd, fun x => by rw [hmem x, hd.ref_parent_eq, hch x]⟩
  unfold Ref.isLeavesUnder
  simp only [Bool.and_eq_true, List.all_eq_true, beq_iff_eq, List.contains_iff_mem, DTree.ref_nodes]
  refine ⟨fun x hx => (G.mem_keys_hasNode _ x).2 ((hd.nodes x).1 (isAnc_desc_mem hd.wf ((hmem x).1 hx).1 hnP)), ?_⟩
  intro x hx
  have hxP : x ∈ P.nodes := (hd.nodes x).2 ((G.mem_keys_hasNode _ x).1 hx)
  rw [hnd.count]
  by_cases hax : IsAnc P.par n x ∧ g.outKeys x = []
  · have h2 : (refRaw g).children x = [] := (hch x).1 hax.2
    simp [(hmem x).2 hax, (hd.ref_isAnc hxP n).2 hax.1, h2]
  · have h1 : x ∉ l := fun h => hax ((hmem x).1 h)
    have h2 : ((refRaw g).isAnc n x && ((refRaw g).children x).isEmpty) = false := by
      cases hb : ((refRaw g).isAnc n x && ((refRaw g).children x).isEmpty) with
      | false => rfl
      | true =>
        simp only [Bool.and_eq_true, List.isEmpty_iff] at hb
        exact absurd ⟨(hd.ref_isAnc hxP n).1 hb.1, (hch x).2 hb.2⟩ hax
    rw [if_neg h1, if_neg (fun hh => by simp [hh.1, hh.2] at h2)]

/-- **subtree_edges_spec**: `getSubtreeEdges` lists, each once, the edges to the father of the proper descendants -/
theorem subtree_edges_spec (t : T) (hv : ValidRooted t.g) (n : Nat) (hn : t.g.hasNode n = true) :
    ∃ l, (t.getSubtree true n).1 = .ok l ∧ (refRaw t.g).isSubtreeEdges n l = true := by
  obtain ⟨P, hd, _⟩ := hv.dtree
  have hnP := (hd.nodes n).2 hn
  obtain ⟨l, hl, hnd, hmem⟩ := hd.subtreeEdges (t.g.nodes.length + 2) n [] hnP (by omega)
  refine ⟨l, ?_, ?_⟩
  · unfold T.getSubtree
    rw [T.isValid_of_tree hv.tree]
    simp only [hv.dir, Bool.not_true, Bool.false_eq_true, if_false]
    simpa using hl
  · unfold Ref.isSubtreeEdges
    simp only [Bool.and_eq_true, List.all_eq_true, beq_iff_eq, List.any_eq_true]
    constructor
    · rintro ⟨c, a, e⟩ ht
      have ho := (hd.mem_up c a e).1 ht
      have hpc : P.par c = some a := (hd.arc a c).1 (arc_of_out ho)
      have hup : UpEdge t.g P c e := ⟨a, hpc, ho⟩
      have hcP := (hd.wf.par_mem hpc).1
      simp only
      rw [hnd.count]
      by_cases hin : IsAnc P.par n c ∧ c ≠ n
      · have : e ∈ l := (hmem e).2 ⟨c, hin.1, hin.2, hup⟩
        simp [this, (hd.ref_isAnc hcP n).2 hin.1, hin.2]
      · have h1 : e ∉ l := by
          intro hel
          obtain ⟨x, hx1, hx2, hx3⟩ := (hmem e).1 hel
          have := hd.upEdge_inj hx3 hup
          subst this
          exact hin ⟨hx1, hx2⟩
        have h2 : ((refRaw t.g).isAnc n c && (c != n)) = false := by
          cases hb : ((refRaw t.g).isAnc n c && (c != n)) with
          | false => rfl
          | true =>
            simp only [Bool.and_eq_true, bne_iff_ne] at hb
            exact absurd ⟨(hd.ref_isAnc hcP n).1 hb.1, hb.2⟩ hin
        rw [if_neg h1, if_neg (fun hh => by simp [hh.1, hh.2] at h2)]
    · intro e he
      obtain ⟨x, _, _, p, hp, ho⟩ := (hmem e).1 he
      exact ⟨(x, p, e), (hd.mem_up x p e).2 ho, rfl⟩

/-- **path_spec**: the node path between two nodes goes from the first to the second through father-son
links without visiting a node twice — for every pair, ancestor / descendant pairs and `a = b` included -/
theorem path_spec (g : G) (hv : ValidRooted g) (a b : Nat) (ha : g.hasNode a = true) (hb : g.hasNode b = true) :
    ∃ p, T.nodePath g a b true = .ok p ∧ (refRaw g).isPath a b p = true := by
  obtain ⟨P, hd, _⟩ := hv.dtree
  obtain ⟨p, h1, h2, _⟩ := hd.isPath ((hd.nodes a).2 ha) ((hd.nodes b).2 hb)
  exact ⟨p, h1, h2⟩

/-- without the common ancestor the answer is the same path minus the most recent common ancestor of the two nodes -/
theorem path_without_ancestor_spec (g : G) (hv : ValidRooted g) (a b : Nat) (ha : g.hasNode a = true) (hb : g.hasNode b = true) :
    ∃ m pre post, (refRaw g).isMrca [a, b] m = true ∧ T.nodePath g a b true = .ok (pre ++ [m] ++ post) ∧
      T.nodePath g a b false = .ok (pre ++ post) := by
  obtain ⟨P, hd, _⟩ := hv.dtree
  obtain ⟨m, i, j, hmr, _, _, h1, h2⟩ := hd.nodePath ((hd.nodes a).2 ha) ((hd.nodes b).2 hb)
  obtain ⟨m', hm', hbool, _, _⟩ := mrca_spec g hv a [b] (by intro s hs; simp at hs; rcases hs with rfl | rfl <;> assumption)
  -- the most recent common ancestor is unique
  obtain ⟨m'', hm'', _, hmr''⟩ := hd.mrca a [b] (by intro s hs; simp at hs; rcases hs with rfl | rfl; exact (hd.nodes _).2 ha; exact (hd.nodes _).2 hb)
  have e1 : m'' = m' := by rw [hm''] at hm'; cases hm'; rfl
  have e2 : m'' = m := hd.wf.anc_antisymm (hmr.2 m'' hmr''.1) (hmr''.2 m hmr.1)
  subst e1; subst e2
  exact ⟨m'', _, _, hbool, h1, h2⟩

/-- **edge_path_spec**: the edge path lists the edges along the node path, each the edge between a node and its father -/
theorem edge_path_spec (g : G) (hv : ValidRooted g) (a b : Nat) (ha : g.hasNode a = true) (hb : g.hasNode b = true) :
    ∃ p es, T.nodePath g a b true = .ok p ∧ (refRaw g).isPath a b p = true ∧
      T.edgePath g a b = .ok es ∧ (refRaw g).isEdgePath p es = true := by
  obtain ⟨P, hd, _⟩ := hv.dtree
  exact hd.edgePath ((hd.nodes a).2 ha) ((hd.nodes b).2 hb)

/-! non-vacuity on the tree 0 -> 1 -> 3, 0 -> 2: an ancestor / descendant pair, two cousins, a repeated node -/

example : T.mrca ((T.empty true).run exOps).g [1, 3] = .ok 1 := by decide
example : T.mrca ((T.empty true).run exOps).g [3, 2] = .ok 0 := by decide
example : T.mrca ((T.empty true).run exOps).g [3, 3] = .ok 3 := by decide
example : T.nodePath ((T.empty true).run exOps).g 3 0 true = .ok [3, 1, 0] := by decide
example : T.nodePath ((T.empty true).run exOps).g 3 2 true = .ok [3, 1, 0, 2] := by decide
example : T.nodePath ((T.empty true).run exOps).g 3 3 true = .ok [3] := by decide
example : T.leavesUnder ((T.empty true).run exOps).g 6 1 [] = .ok [3] := by decide
example : ∃ m, T.mrca ((T.empty true).run exOps).g [1, 3] = .ok m ∧ (refRaw ((T.empty true).run exOps).g).isMrca [1, 3] m = true := by
  obtain ⟨m, h1, h2, _⟩ := mrca_spec _ exTree_valid 1 [3] (by decide)
  exact ⟨m, h1, h2⟩

end Bpp.C15
