import BppProofs.Lemmas.DiscretizeCompound
import BppProofs.Lemmas.DiscretizeTermination
import BppProofs.Lemmas.DiscretizeCompoundHistory
/-!
# C09 — compound distributions obey the same normalisation
(ConstantDistribution, SimpleDiscreteDistribution, InvariantMixedDiscreteDistribution,
MixtureOfDiscreteDistributions; model `BppModel/DiscretizeCompound.lean`)

`Normalised m`: every probability of the class map is non-negative and they sum to one (exactly,
over `ℝ`).  `normalised_iff` ties it to the executable predicates `probsNonneg` / `probsSumOne` that
the driver evaluates on the implementation's state.
-/
namespace Bpp.C09
open Bpp Bpp.Discretize

/-- `Normalised` is what the driver evaluates -/
theorem compound_normalised_pred (s : DD ℝ) :
    Normalised s.dist ↔ (probsNonneg s = true ∧ probsSumOne 0 s = true) := normalised_iff s

/-- **compound_normalised** (constant): one class of probability one — after construction and
after every parameter update, restriction or median toggle, accepted or refused -/
theorem compound_normalised_constant (v : ℝ) :
    Normalised (ConstSt.make v).dd.dist ∧
    ∀ c : ConstSt ℝ, Normalised c.dd.dist →
      (∀ name w c', c.setP name w = .ok c' → Normalised c'.dd.dist) ∧
      (∀ i, Normalised (c.restrict i).1.dd.dist) ∧ (∀ b, Normalised (c.setMed b).dd.dist) := by
  have one : ∀ w : ℝ, Normalised [(w, (Scalar.one : ℝ))] := fun w => ⟨by simp, by simp [TMap.vals]⟩
  refine ⟨one v, ?_⟩
  intro c hc
  refine ⟨?_, ?_, fun b => hc⟩
  · intro name w c' h
    unfold ConstSt.setP at h
    split at h
    · simp at h
    · split at h
      · simp at h
      · injection h with h; subst h; exact one w
  · intro i
    unfold ConstSt.restrict
    split
    · exact hc
    · split
      · exact hc
      · rename_i d changed _
        simp only
        cases changed <;> simp only [Bool.false_eq_true, if_false, if_true] <;> split <;> exact hc

/-- **compound_normalised** (user-specified): whenever the class map is rebuilt from the
parameters (`fireParameterChanged`) the probabilities are the stick-breaking image of the `theta`
parameters — non-negative and summing to one as long as the thetas lie in `[0,1]`, which their
constraint `PROP_CONSTRAINT_IN` enforces on every accepted update. -/
theorem compound_normalised_simple (s s' : SimpleSt ℝ) (hlen : s.thetas.length + 1 = s.vs.length)
    (hth : ∀ t ∈ s.thetas, 0 ≤ t ∧ t ≤ 1) (h : s.rebuild = .ok s') : Normalised s'.dd.dist :=
  simple_rebuild_normalised s s' hlen hth h

/-- **constant_class_is_value**: the one class of a constant distribution is its `value` parameter
with probability one — after construction and after every parameter update, restriction (which
must not re-discretise it generically) and median toggle, accepted or refused -/
theorem constant_class_is_value (v : ℝ) :
    (ConstSt.make v).dd.dist = [((ConstSt.make v).value, 1)] ∧
    ∀ c : ConstSt ℝ, c.dd.dist = [(c.value, 1)] →
      (∀ name w c', c.setP name w = .ok c' → c'.dd.dist = [(c'.value, 1)]) ∧
      (∀ i, (c.restrict i).1.dd.dist = [((c.restrict i).1.value, 1)]) ∧
      (∀ b, (c.setMed b).dd.dist = [((c.setMed b).value, 1)]) := by
  refine ⟨by simp [ConstSt.make], ?_⟩
  intro c hc
  refine ⟨?_, ?_, fun b => hc⟩
  · intro name w c' h
    unfold ConstSt.setP at h
    split at h
    · simp at h
    · split at h
      · simp at h
      · injection h with h; subst h; simp
  · intro i
    unfold ConstSt.restrict
    split
    · exact hc
    · split
      · exact hc
      · rename_i d changed _
        simp only
        cases changed <;> simp only [Bool.false_eq_true, if_false, if_true] <;> split <;> exact hc

/-- **simple_restrict_keeps_classes**: a restriction of a user-specified distribution — accepted or
refused — leaves its classes (values and probabilities) and its parameters as they are -/
theorem simple_restrict_keeps_classes (s : SimpleSt ℝ) (c : Interval ℝ) :
    (s.restrict c).1.dd.dist = s.dd.dist ∧ (s.restrict c).1.vs = s.vs ∧ (s.restrict c).1.thetas = s.thetas :=
  simple_restrict_same s c

/-- **compound_normalised_simple_history**: a user-specified distribution built by its constructor
(at least one value) satisfies, after *every* history of parameter updates (accepted or refused),
restrictions, median toggles and re-discretisations: one theta less than values, every theta in
`[0,1]`, and probabilities summing to one up to the precision given to the constructor — the
constructor accepts `|1 − Σp| ≤ precision` and stores the given probabilities as they are (so right
after construction the normalisation is *not* exact, and the last probability may be negative by
up to the precision); from the first accepted update on the sum is exactly one and every
probability non-negative (`compound_normalised_simple_update`). -/
theorem compound_normalised_simple_history (values probas : List ℝ) (prec : ℝ) (s : SimpleSt ℝ) (ops : List SimpleOp)
    (hne : values ≠ []) (hp : 0 ≤ prec) (h : SimpleSt.make values probas prec = .ok s) :
    SimpleInv (ops.foldl simpleStep s) ∧ |1 - (TMap.vals (ops.foldl simpleStep s).dd.dist).sum| ≤ prec :=
  simpleRun_good prec hp ops s (simple_make_spec values probas prec s hne h)

/-- an accepted update of a state satisfying the invariant leaves an exactly normalised distribution
and the invariant -/
theorem compound_normalised_simple_update (s s' : SimpleSt ℝ) (name : String) (v : ℝ) (hi : SimpleInv s)
    (h : s.setP name v = .ok s') : SimpleInv s' ∧ Normalised s'.dd.dist :=
  simple_setP_inv s s' name v hi h

/-- non-vacuity: the constructor accepts probabilities that do not sum to one exactly -/
example : (match SimpleSt.make [1, 2] [1/2, 1/2 + 1/2000] (1/1000 : Rat) with
    | .ok s => s.dd.dist == [(1, 1/2), (2, 1/2 + 1/2000)] && s.thetas == [1/2]
    | .error _ => false) = true := by decide +kernel

/-- **simple_rebuild_terminates**: `fireParameterChanged` of a user-specified distribution returns
for every precision `≥ 0` (0 included: exact comparison), every domain and all parameter values —
the repaired loop that separates equal values uses a positive step that is at least the precision,
and ignores the domain once it has no room on either side (same pigeonhole as for `insertClass_`) -/
theorem simple_rebuild_terminates (s : SimpleSt ℝ) (hp : 0 ≤ s.dd.prec) : ∃ s', s.rebuild = .ok s' := by
  unfold SimpleSt.rebuild
  obtain ⟨m, hm⟩ := simple_go_some s hp (s.vs.zip (probsOfThetas s.thetas Scalar.one)) []
  simp only [hm]
  exact ⟨_, rfl⟩

/-- as found the loop stepped by `j · precision` inside the domain only: with precision 0 a value
equal to a key was looked for again and again — for every fuel
(`SimpleDiscreteDistribution d({1,2},{.5,.5}, 0.); d.setParameterValue("V1", 2)` never returned) -/
theorem simple_legacy_loops (lo hi v : ℝ) (m : TMap ℝ) (h : (TMap.find? 0 v m).isSome = true) (fuel : Nat) (j : Int) :
    SimpleSt.Legacy.findFree 0 lo hi v m fuel j = none := simple_legacy_findFree_loops lo hi v m h fuel j

/-- an accepted update of a `theta` parameter keeps all thetas in `[0,1]` -/
theorem simple_theta_accepted (s : SimpleSt ℝ) (i : Nat) (v : ℝ) (hi : i < s.thetas.length)
    (hth : ∀ t ∈ s.thetas, 0 ≤ t ∧ t ≤ 1)
    (hacc : (s.thetas[i]? = some v) ∨ SimpleSt.rejects s (false, i) v = false) :
    ∀ t ∈ (SimpleSt.write s (false, i) v).thetas, 0 ≤ t ∧ t ≤ 1 := by
  have hv : 0 ≤ v ∧ v ≤ 1 := by
    rcases hacc with h | h
    · exact hth v (List.mem_of_getElem? h)
    · simp only [SimpleSt.rejects, Bool.false_eq_true, if_false, Bool.not_eq_false'] at h
      exact (unitC_iff v).1 h
  intro t ht
  simp only [SimpleSt.write, Bool.false_eq_true, if_false] at ht
  rcases List.mem_or_eq_of_mem_set ht with h | h
  · exact hth t h
  · rw [h]; exact hv

/-- **compound_normalised** (invariant-mixed): `updateDistribution()` puts `p` on the invariant and
adds `(1 − p)·probability` on every class of the nested distribution: normalised whenever the
nested distribution is and `0 ≤ p ≤ 1` (the constraint of `p`) — whatever the class values,
in particular when one of them is merged with the invariant by the tolerance of the map. -/
theorem compound_normalised_invariant (s : InvarSt ℝ) (hp : 0 ≤ s.p ∧ s.p ≤ 1)
    (hsub : Normalised s.sub.top.dist) : Normalised s.update.1.top.dist :=
  invar_update_normalised s hp hsub

/-- **compound_normalised** (mixture): `updateDistribution()` adds `weight · probability` on
every class value of every component: normalised whenever every component is and the weights
are non-negative with sum one. -/
theorem compound_normalised_mixture (s : MixSt ℝ) (hlen : s.subs.length = s.probas.length)
    (hw : (∀ w ∈ s.probas, 0 ≤ w) ∧ s.probas.sum = 1) (hsub : ∀ l ∈ s.subs, Normalised l.top.dist) :
    Normalised s.update.top.dist :=
  mix_update_normalised s hlen hw hsub

/-- the weights a mixture (and the probabilities a user-specified distribution) recomputes from
its `theta` parameters on every notification are a point of the simplex -/
theorem stick_breaking_simplex (ts : List ℝ) (h : ∀ t ∈ ts, 0 ≤ t ∧ t ≤ 1) :
    (∀ p ∈ probsOfThetas ts (1 : ℝ), 0 ≤ p) ∧ (probsOfThetas ts (1 : ℝ)).sum = 1 ∧
      (probsOfThetas ts (1 : ℝ)).length = ts.length + 1 :=
  ⟨probsOfThetas_nonneg ts 1 (by norm_num) h, probsOfThetas_sum ts 1, probsOfThetas_length ts 1⟩

/-- non-vacuity: a normalised two-class nested distribution, `p = 1/4` -/
example : Normalised ([(1, 1/2), (2, 1/2)] : TMap ℝ) ∧ ((0 : ℝ) ≤ 1/4 ∧ (1/4 : ℝ) ≤ 1) := by
  refine ⟨⟨?_, ?_⟩, by norm_num⟩
  · intro e he; simp at he; rcases he with rfl | rfl <;> norm_num
  · simp [TMap.vals]; norm_num

end Bpp.C09
