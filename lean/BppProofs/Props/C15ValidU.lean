import BppProofs.Props.C15Valid
import BppProofs.Lemmas.TreeRefU
/-!
# C15 — the reference decision of the validity predicate, unrooted case

`C15Valid` connects the reference decision for *rooted* trees (`isRootedTree`) to `IsTreeFrom`.  Here the
same is done for the reference decision for *unrooted* trees, `isUnrootedTree` (`BppModel/TreeRef.lean`):
undirected, the root is a node, every entry of the edge table joins two existing distinct nodes,
|E| + 1 = |V|, and every node is reached from the root by the search `reachU` over the edge table.

* `isUnrootedTree_iff` — on consistent undirected tables it is true exactly when `IsTreeFrom g`.
  (⇒) the search builds a spanning tree of the nodes it reaches, one entry of the edge table per
  non-root node, all different; with |E| = |V| - 1 these are all the entries, so the relations of the graph are
  exactly the father-son pairs.  (⇐) in a tree the search reaches depth `k` after `k` rounds, depths are
  below |V|, and sending an entry to its son end is a bijection onto the non-root nodes
  (`Lemmas/TreeRefU.lean`).
* `isTree_eq_ref_unrooted`, `isTree_eq_ref` — whenever the root is a node, the traversal `isTree`
  (GlobalGraph.cpp:668) answers what the reference decision `isTreeRef` answers, directed or not.
* `isValid_eq_ref` — so does the cached `isValid()` after any history.
-/
namespace Bpp.C15
open Bpp Bpp.Graph

/-- the reference decision for unrooted trees (connected from the root, |E| + 1 = |V|, entries join existing
distinct nodes) accepts exactly the trees spanning all nodes from the root -/
theorem isUnrootedTree_iff (g : G) (hc : Consistent g) (hd : g.directed = false) :
    isUnrootedTree g = true ↔ IsTreeFrom g :=
  Bpp.Graph.isUnrootedTree_iff g hc hd

/-- on an undirected graph whose root is a node, `isTree` answers what the reference decision answers -/
theorem isTree_eq_ref_unrooted (g : G) (hc : Consistent g) (hd : g.directed = false) (hr : g.hasNode g.root = true) :
    T.isTree g = .ok (isTreeRef g) := by
  obtain ⟨b, hb⟩ := T.isTree_total hc hr
  rw [hb]
  congr 1
  have href : isTreeRef g = isUnrootedTree g := by unfold isTreeRef; simp [hd]
  rw [href]
  cases b with
  | true => exact ((Bpp.Graph.isUnrootedTree_iff g hc hd).2 ((T.isTree_iff hc).1 hb)).symm
  | false =>
    cases hu : isUnrootedTree g with
    | false => rfl
    | true =>
      have := (T.isTree_iff hc).2 ((Bpp.Graph.isUnrootedTree_iff g hc hd).1 hu)
      rw [hb] at this; cases this

/-- for every graph whose root is a node -/
theorem isTree_eq_ref (g : G) (hc : Consistent g) (hr : g.hasNode g.root = true) : T.isTree g = .ok (isTreeRef g) := by
  cases hd : g.directed with
  | true => exact isTree_eq_ref_rooted g hc hd hr
  | false => exact isTree_eq_ref_unrooted g hc hd hr

/-- after any history, isValid() answers the reference decision whenever the root is a node -/
theorem isValid_eq_ref (d : Bool) (ops : List TOp) (hr : ((T.empty d).run ops).g.hasNode ((T.empty d).run ops).g.root = true) :
    ((T.empty d).run ops).isValid.1 = .ok (isTreeRef ((T.empty d).run ops).g) := by
  rw [isValid_is_isTree d ops]
  exact isTree_eq_ref _ (history_consistent d ops) hr

/-! non-vacuity: the unrooted tree 3 - 1 - 0 - 2; a triangle (too many edges); a triangle and an isolated
node (|E| + 1 = |V| but not connected); the empty container, where the root is no node (`hr` is needed: `isTree`
raises while the reference decision says false) -/

def exTriangle : List TOp := [.createNode, .createNode, .createNode, .link 0 1, .link 1 2, .link 2 0]
def exTrianglePlus : List TOp := exTriangle ++ [.createNode]

example : isUnrootedTree ((T.empty false).run exOps).g = true := by decide
example : IsTreeFrom ((T.empty false).run exOps).g :=
  (isUnrootedTree_iff _ (history_consistent false exOps) (by decide)).1 (by decide)
example : ((T.empty false).run exOps).isValid.1 = .ok true := by
  rw [isValid_eq_ref false exOps (by decide)]; decide

example : isUnrootedTree ((T.empty false).run exTriangle).g = false := by decide
example : ¬ IsTreeFrom ((T.empty false).run exTriangle).g :=
  fun h => by have := (isUnrootedTree_iff _ (history_consistent false _) (by decide)).2 h; revert this; decide
example : T.isTree ((T.empty false).run exTriangle).g = .ok false := by
  rw [isTree_eq_ref _ (history_consistent false _) (by decide)]; decide

example : isUnrootedTree ((T.empty false).run exTrianglePlus).g = false := by decide
example : ((T.empty false).run exTrianglePlus).g.edges.length + 1 = ((T.empty false).run exTrianglePlus).g.nodes.length := by decide
example : ((T.empty false).run exTrianglePlus).isValid.1 = .ok false := by
  rw [isValid_eq_ref false exTrianglePlus (by decide)]; decide

example : T.isTree ((T.empty false).run []).g = .exc := by decide
example : isTreeRef ((T.empty false).run []).g = false := by decide

end Bpp.C15
