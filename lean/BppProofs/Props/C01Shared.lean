import BppProofs.Props.C01
import BppProofs.Lemmas.ParamShared
/-!
# C01 — the invariant when constraints are what they are in the code: shared mutable objects
(src/Bpp/Numeric/Parameter.h:104, 196-231, Parameter.cpp:34-64, 94-109, Constraints.h:171-172, 250, 331)

`Props/C01.lean` proves the invariant on the by-value model.  Here the constraint of a parameter
is a pointer into a heap of constraint objects (`BppModel/ParamShared.lean`): the constructor and
`setConstraint` attach the caller's pointer, copies share it, `getConstraint()` hands it out, and
`setLowerBound` / `setUpperBound` / `operator&=` / `readDescription` change the object in place.

* `shared_simulates`, `shared_refines`: every call on a parameter does to the dereferenced views
  exactly what the by-value call does; in a history without in-place mutation the by-value model
  is exact, so every theorem of `Props/C01.lean` applies to the pointer model.
* `shared_param_step_inv`: every call on a parameter (and every allocation) keeps the invariant.
* `shared_mutate_inv_iff`: an in-place mutation keeps it iff the new interval accepts the value of
  every parameter attached to the object.
* `shared_inv_partial`: the invariant over all histories in which every in-place mutation meets
  that guard.  The full statement (no guard) is false of the code: `shared_mutation_witness`
  (known finding C01-shared-constraint-mutation).
-/
namespace Bpp.C01
open Bpp Bpp.Interval Bpp.Param Bpp.SWorld

/-- the invariant of C01 on the pointer model: the heap is well formed and every parameter's
view (pointer dereferenced *now*) holds a value its constraint accepts -/
def SInv (w : SWorld ℝ) : Prop := w.WF ∧ StoreInv w.viewStore

theorem sinv_empty : SInv SWorld.empty :=
  ⟨SWorld.wf_empty, by intro k p h; cases h⟩

/-- the executable predicate of the driver is this invariant -/
theorem sinv_invOk (w : SWorld ℝ) (hs : SInv w) (k : Nat) (p : SParam ℝ) (h : w.ps k = some p) :
    (w.view p).invOk = true := by
  have : w.viewStore k = some (w.view p) := by rw [viewStore_apply, h]; rfl
  exact (Param.invOk_iff _).2 (hs.2 k _ this).1

/-! ## calls on parameters: simulation of the by-value model -/

/-- **shared_simulates**: a call on a parameter whose pointer arguments are live has the same
outcome and the same effect on the views as the by-value call with the pointers dereferenced,
and does not touch the heap -/
theorem shared_simulates (w : SWorld ℝ) (op : SOp ℝ) (e : POp ℝ) (he : op.erase w = some e) (hr : op.refsOk w = true) :
    (SOp.step w op).1.viewStore = (POp.step w.viewStore e).1 ∧ (SOp.step w op).2 = (POp.step w.viewStore e).2 ∧
    (SOp.step w op).1.heap = w.heap :=
  let h := SOp.sim_step w op e he hr
  ⟨h.1, h.2.1, h.2.2.1⟩

/-- is the call an in-place mutation of a constraint object? -/
def isMutate : SOp ℝ → Prop
  | .mutate _ _ => True
  | _ => False

/-- a call that names a dangling address is refused by the model (`.absent`) and changes nothing -/
theorem step_refs_bad (w : SWorld ℝ) (op : SOp ℝ) (hr : op.refsOk w = false) : (SOp.step w op).1 = w := by
  cases op <;> simp only [SOp.refsOk] at hr <;> first | cases hr | simp [SOp.step, hr]

/-- **shared_param_step_inv**: construct (attaching the caller's pointer) / copy (sharing it) /
convert / assign / setValue (plain or auto-correcting) / setPrecision / setConstraint /
removeConstraint, and the creation of a constraint object, keep the invariant — whether the call
raises or not -/
theorem shared_param_step_inv (w : SWorld ℝ) (op : SOp ℝ) (hs : SInv w) (hm : ¬ isMutate op) :
    SInv (SOp.step w op).1 := by
  refine ⟨SOp.wf_step w hs.1 op, ?_⟩
  cases he : op.erase w with
  | none =>
    cases op with
    | alloc c => rw [SOp.alloc_viewStore w hs.1 c]; exact hs.2
    | mutate a m => exact absurd trivial hm
    | _ => cases he
  | some e =>
    cases hr : op.refsOk w with
    | false => rw [step_refs_bad w op hr]; exact hs.2
    | true =>
      rw [(SOp.sim_step w op e he hr).1]
      exact step_inv _ e hs.2

/-- a raising call changes nothing: neither the parameter, nor any other, nor any constraint object -/
theorem shared_reject_unchanged (w : SWorld ℝ) (op : SOp ℝ) (e : PErr) (h : (SOp.step w op).2 = .raised e) :
    (SOp.step w op).1 = w := by
  cases op <;> simp only [SOp.step] at h ⊢ <;> (repeat' split) <;> simp_all

/-- copies share the constraint object: after `Parameter q(p)` both hold the same pointer -/
theorem shared_copy_shares (w : SWorld ℝ) (s d : Nat) (p : SParam ℝ) (h : w.ps s = some p) :
    ∃ q, (SOp.step w (.copy s d)).1.ps d = some q ∧ q.cref = p.cref := by
  refine ⟨p, ?_, rfl⟩
  simp [SOp.step, h, SWorld.setP]

/-! ## in-place mutation of a constraint object -/

/-- **shared_mutate_inv_iff**: after `setLowerBound` / `setUpperBound` / `operator&=` /
`readDescription` on the object at `a`, the invariant holds iff the new interval accepts the value
of every parameter attached to that object -/
theorem shared_mutate_inv_iff (w : SWorld ℝ) (hs : SInv w) (a : CRef) (m : CMut ℝ) (c : Interval ℝ)
    (hc : w.heap a = some c) :
    SInv (SOp.step w (.mutate a m)).1 ↔
      ∀ k p, w.ps k = some p → p.cref = some a → (m.apply c).isCorrect p.value = true := by
  have hps := SOp.mutate_ps w a m
  constructor
  · intro h k p hk hp
    have hv : (SOp.step w (.mutate a m)).1.viewStore k = some ((SOp.step w (.mutate a m)).1.view p) := by
      rw [viewStore_apply, hps, hk]; rfl
    have hinv := (h.2 k _ hv).1
    rw [SOp.mutate_view w a m c hc p, if_pos hp] at hinv
    exact (isCorrect_iff _ _).2 (hinv (m.apply c) rfl)
  · intro h
    refine ⟨SOp.wf_step w hs.1 _, ?_⟩
    intro k q hq
    rw [viewStore_apply, hps] at hq
    cases hk : w.ps k with
    | none => rw [hk] at hq; cases hq
    | some p =>
      rw [hk] at hq
      have hq' : q = (SOp.step w (.mutate a m)).1.view p := (Option.some.inj hq).symm
      have hold : w.viewStore k = some (w.view p) := by rw [viewStore_apply, hk]; rfl
      have ho := hs.2 k _ hold
      rw [hq', SOp.mutate_view w a m c hc p]
      by_cases hp : p.cref = some a
      · rw [if_pos hp]
        refine ⟨?_, ho.2⟩
        intro c' hc'
        cases hc'
        exact (isCorrect_iff _ _).1 (h k p hk hp)
      · rw [if_neg hp]; exact ho

/-- mutating an object that no parameter is attached to is harmless (what the harness of the
by-value check does: parameters receive clones, registers are mutated in place) -/
theorem shared_detached_mutation_inv (w : SWorld ℝ) (hs : SInv w) (a : CRef) (m : CMut ℝ)
    (hd : ∀ k p, w.ps k = some p → p.cref ≠ some a) : SInv (SOp.step w (.mutate a m)).1 := by
  cases hc : w.heap a with
  | none => simp only [SOp.step, hc]; exact hs
  | some c => exact (shared_mutate_inv_iff w hs a m c hc).2 (fun k p hk hp => absurd hp (hd k p hk))

/-- the guard of `shared_inv_partial`: an in-place mutation leaves the value of every attached
parameter accepted -/
def SafeOp (w : SWorld ℝ) : SOp ℝ → Prop
  | .mutate a m => ∀ c, w.heap a = some c → ∀ k p, w.ps k = some p → p.cref = some a → (m.apply c).isCorrect p.value = true
  | _ => True

def SafeRun (w : SWorld ℝ) : List (SOp ℝ) → Prop
  | [] => True
  | op :: rest => SafeOp w op ∧ SafeRun (SOp.step w op).1 rest

/-- The invariant over histories on the pointer model.
Full statement wanted: `∀ ops, SInv (SOp.run SWorld.empty ops)` — "at every moment of its life".
It is false of the code (`shared_mutation_witness`): `ops` may mutate an attached constraint object
in place.  Proved: the invariant holds after every history (of any length, raising calls
included) in which each in-place mutation leaves the values of the attached parameters accepted;
calls on parameters and allocations are unrestricted. -/
theorem shared_inv_partial (ops : List (SOp ℝ)) (w : SWorld ℝ) (hs : SInv w) (h : SafeRun w ops) :
    SInv (SOp.run w ops) := by
  induction ops generalizing w with
  | nil => exact hs
  | cons op rest ih =>
    refine ih _ ?_ h.2
    by_cases hm : isMutate op
    · cases op with
      | mutate a m =>
        cases hc : w.heap a with
        | none => simp only [SOp.step, hc]; exact hs
        | some c => exact (shared_mutate_inv_iff w hs a m c hc).2 (h.1 c hc)
      | _ => exact absurd hm (by simp [isMutate])
    · exact shared_param_step_inv w op hs hm

/-- the guard is needed, and the unguarded statement is false of the code: attach `[0,3]` to a
parameter holding 1 (the caller keeps its pointer), then `setLowerBound(2, false)` through that
pointer: the parameter holds 1 under the constraint `[2,3]`.  Each call is a public member used
as documented; no call raises. -/
theorem shared_mutation_witness :
    let before : List (SOp ℝ) := [.alloc (Interval.make (.fin 0) (.fin 3) true true 0), .construct 0 false 1 (some 0) 0]
    let w0 := SOp.run SWorld.empty before
    let w := (SOp.step w0 (.mutate 0 (.setLower (.fin 2) false))).1
    SInv w0 ∧ (SOp.step w0 (.mutate 0 (.setLower (.fin 2) false))).2 = .done ∧
      ∃ p, w.ps 0 = some p ∧ (w.view p).invOk = false := by
  intro before w0 w
  have hsafe : SafeRun SWorld.empty before := ⟨trivial, trivial, trivial⟩
  have h0 : SInv w0 := shared_inv_partial before _ sinv_empty hsafe
  have hw0 : w0.ps 0 = some ⟨1, 0, some 0, false⟩ ∧ w0.heap 0 = some (Interval.make (.fin 0) (.fin 3) true true 0) := by
    simp [w0, before, SOp.run, SOp.step, SWorld.empty, SWorld.validRef, SWorld.deref, SWorld.setP, Param.construct,
      Param.accepts, Param.setPrecision, Interval.make, Interval.isCorrect, Interval.isCorrectB, Bound.geb, Bound.leb]
  refine ⟨h0, ?_, ⟨1, 0, some 0, false⟩, ?_, ?_⟩
  · simp [SOp.step, hw0.2]
  · show (SOp.step w0 _).1.ps 0 = _
    rw [SOp.mutate_ps]; exact hw0.1
  · show ((SOp.step w0 _).1.view _).invOk = false
    rw [SOp.mutate_view w0 0 _ _ hw0.2]
    simp [SWorld.view, Param.invOk, Param.accepts, CMut.apply, Interval.setLowerBound, Interval.make, Interval.isCorrect,
      Interval.isCorrectB, Bound.geb, Bound.leb]

/-! ## histories without in-place mutation: the by-value model is exact -/

/-- a history of calls none of which mutates a constraint object in place or names a dangling address -/
def PlainRun (w : SWorld ℝ) : List (SOp ℝ) → Prop
  | [] => True
  | op :: rest => ¬ isMutate op ∧ op.refsOk w = true ∧ PlainRun (SOp.step w op).1 rest

/-- the history as the by-value model sees it -/
noncomputable def eraseRun (w : SWorld ℝ) : List (SOp ℝ) → List (POp ℝ)
  | [] => []
  | op :: rest => (match op.erase w with | some e => [e] | none => []) ++ eraseRun (SOp.step w op).1 rest

theorem run_append (s : PStore ℝ) (a b : List (POp ℝ)) : POp.run s (a ++ b) = POp.run (POp.run s a) b := by
  induction a generalizing s with
  | nil => rfl
  | cons x xs ih => exact ih _

/-- **shared_refines**: in a history without in-place mutation, sharing is not observable — the
views of the pointer model run exactly like the by-value model (so `param_inv`,
`reject_unchanged`, `setValue_raises_iff`, `auto_total_partial`, `auto_nearest_partial`, `auto_lands` … apply to it) -/
theorem shared_refines (ops : List (SOp ℝ)) (w : SWorld ℝ) (hw : w.WF) (hp : PlainRun w ops) :
    (SOp.run w ops).viewStore = POp.run w.viewStore (eraseRun w ops) := by
  induction ops generalizing w with
  | nil => rfl
  | cons op rest ih =>
    obtain ⟨hm, hr, hrest⟩ := hp
    have hw' := SOp.wf_step w hw op
    show (SOp.run (SOp.step w op).1 rest).viewStore = _
    rw [ih _ hw' hrest]
    show _ = POp.run w.viewStore ((match op.erase w with | some e => [e] | none => []) ++ eraseRun (SOp.step w op).1 rest)
    rw [run_append]
    congr 1
    cases he : op.erase w with
    | none =>
      cases op with
      | alloc c => exact SOp.alloc_viewStore w hw c
      | mutate a m => exact absurd trivial hm
      | _ => cases he
    | some e => exact (SOp.sim_step w op e he hr).1

/-! ## non-vacuity -/

/-- a guarded history with an in-place mutation of an attached, shared object: two parameters
(the second a copy) attached to `[0,3]`, values 1 and 1; `setLowerBound(1, false)` keeps both
accepted -/
example :
    let ops : List (SOp ℝ) := [.alloc (Interval.make (.fin 0) (.fin 3) true true 0), .construct 0 false 1 (some 0) 0,
      .copy 0 1, .mutate 0 (.setLower (.fin 1) false)]
    SafeRun SWorld.empty ops := by
  refine ⟨trivial, trivial, trivial, ?_, trivial⟩
  intro c hc k p hk hp
  have hheap : c = Interval.make (.fin 0) (.fin 3) true true 0 := by
    simp [SOp.step, SWorld.empty, SWorld.validRef, SWorld.deref, SWorld.setP, Param.construct,
      Param.accepts, Param.setPrecision, Interval.make, Interval.isCorrect, Interval.isCorrectB, Bound.geb, Bound.leb] at hc
    exact hc.symm
  have hval : p.value = 1 := by
    simp [SOp.step, SWorld.empty, SWorld.validRef, SWorld.deref, SWorld.setP, Param.construct,
      Param.accepts, Param.setPrecision, Interval.make, Interval.isCorrect, Interval.isCorrectB, Bound.geb, Bound.leb] at hk
    split_ifs at hk <;> (cases hk; rfl)
  rw [hheap, hval]
  simp [CMut.apply, Interval.setLowerBound, Interval.make, Interval.isCorrect, Interval.isCorrectB, Bound.geb, Bound.leb]

/-- a plain history (hypotheses of `shared_refines`) that attaches a pointer and copies the parameter -/
example : PlainRun SWorld.empty
    ([.alloc (Interval.make (.fin 0) (.fin 3) true true 0), .construct 0 false 1 (some 0) 0, .copy 0 1] : List (SOp ℝ)) := by
  refine ⟨fun h => h, rfl, fun h => h, ?_, fun h => h, rfl, trivial⟩
  simp [SOp.refsOk, SOp.step, SWorld.validRef, SWorld.empty]

end Bpp.C01
