import BppProofs.Lemmas.OptimBacktrack
import BppProofs.Lemmas.OptimObjective
/-!
# C10, part 4 — NewtonBacktrackOneDimension (the line search of `lineSearch` / BFGS) in full

Model in `BppModel/OptimOneDim.lean` (the code after the `fix:` commit of findings/C10.json), over `ℝ`,
for every function object whose evaluation step computes a function `g` of the step length.
-/
namespace Bpp.C10
open Bpp Bpp.Optim

variable {F : Type} {J : F → PList ℝ → Prop}

/-- **backtrack_descent**.  `init` evaluates the function at the parameter's starting value `x0`
(`fold_`); when `optimize` then returns with the tolerance flag set — the optimiser's way of saying
"done" — and the slope it was given is that of a descent direction (`slope ≤ 0`), the value returned
is not above `fold_`, or the search gave up and went back to the step length 0 (which is where
`lineSearch` starts it: then `g 0 = fold_` too).  The value is the function at what the optimiser's
parameter holds, and the optimiser's current value.

Full statement of the clause ("the point reported after optimisation has a value no greater than the
starting value") is not true of this optimiser without the two hypotheses: it reports the *last
trial* when the evaluation cap stops it (flag not set), and for an ascent slope the acceptance test
`f ≤ fold + 1e-4 λ slope` accepts an increase.  Both are explored by the driver (clause `descent`,
evaluated for Newton backtracking only when the flag is set and the slope is ≤ 0). -/
theorem backtrack_descent (I : FunI F ℝ) (g : ℝ → ℝ) (hd : Det I g J) (fuel : Nat)
    (s s1 s2 : St F (NBack ℝ) ℝ) (params : PList ℝ) (x0 v : ℝ)
    (hJ : J s.fn (applyPolicy s.core.policy params))
    (hx0 : value0 (applyPolicy s.core.policy params) = some x0)
    (hinit : (nbackAlgo I).init s params = .ok s1)
    (hopt : (nbackAlgo I).optimize fuel s1 = .ok (s2, v))
    (htol : s2.core.tol = true) (hslope : s.ext.slope ≤ 0) :
    s1.ext.fold = g x0 ∧ (Spec.descent v (g x0) = true ∨ v = g 0) ∧ s2.core.cur = v ∧
    ∃ x, v = g x ∧ value0 s2.core.params = some x := by
  -- init
  unfold Algo.init at hinit
  simp only [] at hinit
  split at hinit
  · cases hinit
  rename_i sa hdi
  simp only [Except.ok.injEq] at hinit
  change nbackDoInit I _ params = .ok sa at hdi
  unfold nbackDoInit at hdi
  split at hdi
  · cases hdi
  simp only [] at hdi
  split at hdi
  · cases hdi
  rename_i fn0 v0 hf0
  simp only [Except.ok.injEq] at hdi
  obtain ⟨hv0, hJ0⟩ := hd.direct _ _ _ _ _ hJ hx0 hf0
  have hone : (Scalar.one : ℝ) = 1 := by simp
  have hi1 : NBack.Inv J (g x0) s.ext.slope s1 := by
    rw [← hinit, ← hdi]
    exact ⟨by show (0 : ℝ) < Scalar.one; rw [hone]; norm_num, hJ0, hv0, rfl⟩
  have hfold : s1.ext.fold = g x0 := hi1.fold
  refine ⟨hfold, ?_⟩
  -- optimize
  unfold Algo.optimize at hopt
  split at hopt
  · cases hopt
  cases hl : (nbackAlgo I).loop fuel { s1 with core := { s1.core with tol := false, nbEval := 1 } } with
  | error e => rw [hl] at hopt; cases hopt
  | ok sL =>
    rw [hl] at hopt
    simp only [Except.ok.injEq, Prod.mk.injEq] at hopt
    obtain ⟨rfl, rfl⟩ := hopt
    have hstepinv : ∀ (u u' : St F (NBack ℝ) ℝ) (w : ℝ), NBack.Inv J (g x0) s.ext.slope u → Guard u →
        (nbackAlgo I).step u = .ok (u', w) → NBack.Inv J (g x0) s.ext.slope u' := by
      intro u u' w hu _ hst
      obtain ⟨u1, hd1, hc⟩ := step_cases _ u hst
      have h1 := (nbackDoStep_spec I g hd _ _ hslope u u1 w hu hd1).1
      rcases hc with ⟨_, rfl⟩ | ⟨_, rfl⟩
      · exact ⟨h1.alam, h1.j, h1.fold, h1.slope⟩
      · exact ⟨h1.alam, h1.j, h1.fold, h1.slope⟩
    have hbump : ∀ u : St F (NBack ℝ) ℝ, NBack.Inv J (g x0) s.ext.slope u → NBack.Inv J (g x0) s.ext.slope (bump u) :=
      fun u hu => ⟨hu.alam, hu.j, hu.fold, hu.slope⟩
    have hstart : NBack.Inv J (g x0) s.ext.slope
        ({ s1 with core := { s1.core with tol := false, nbEval := 1 } } : St F (NBack ℝ) ℝ) :=
      ⟨hi1.alam, hi1.j, hi1.fold, hi1.slope⟩
    rcases loop_last_step_inv _ _ hstepinv hbump fuel _ _ hstart hl with rfl | ⟨sb, sa2, w, hib, hgb, hst, rfl⟩
    · -- no step at all: the flag is not set
      simp at htol
    · obtain ⟨u1, hd1, hc⟩ := step_cases _ sb hst
      obtain ⟨-, ⟨x, hvx, hxst⟩, hdesc, -, -⟩ := nbackDoStep_spec I g hd _ _ hslope sb u1 w hib hd1
      rcases hc with ⟨ht1, rfl⟩ | ⟨ht1, rfl⟩
      · refine ⟨?_, rfl, x, hvx, hxst⟩
        rcases hdesc ht1 hgb.2 with h | h
        · left; simp only [Spec.descent, ScalarReal.leb_iff]; exact h
        · right; exact h
      · -- the stop condition of this optimiser never says "reached"
        exfalso
        have : (bump ({ ((nbackAlgo I).stop { u1 with core := { u1.core with cur := w } }).1 with
            core := { ((nbackAlgo I).stop { u1 with core := { u1.core with cur := w } }).1.core with
              tol := ((nbackAlgo I).stop { u1 with core := { u1.core with cur := w } }).2 } } : St F (NBack ℝ) ℝ)).core.tol = false := rfl
        rw [this] at htol; cases htol

/-- `backtrack_descent` as `lineSearch` uses the optimiser (step length starting at 0), for the
objective of the harness along one unconstrained coordinate -/
theorem backtrack_descent_objective (obj : List ℝ → ℝ) (D : Deriv ℝ) (cap : Option Nat) (pt0 : List ℝ) (k : Nat) (hk : k < pt0.length)
    (q : NP ℝ) (hq : q.name = k) (hp : q.p.precision = 0) (hc : q.p.constraint = none) (hq0 : q.p.value = 0)
    (fuel : Nat) (s s1 s2 : St (Fn ℝ) (NBack ℝ) ℝ) (v : ℝ) (hpt : s.fn.point = pt0)
    (hinit : (nbackAlgo (Fn.iface obj D cap)).init s [q] = .ok s1)
    (hopt : (nbackAlgo (Fn.iface obj D cap)).optimize fuel s1 = .ok (s2, v))
    (htol : s2.core.tol = true) (hslope : s.ext.slope ≤ 0) :
    v ≤ obj (pt0.set k 0) ∧ ∃ x, value0 s2.core.params = some x ∧ v = obj (pt0.set k x) := by
  have hJ : Along pt0 k s.fn (applyPolicy s.core.policy [q]) := by
    refine ⟨?_, hk, by rw [hpt], fun _ _ => by rw [hpt]⟩
    cases s.core.policy
    · exact ⟨q, rfl, hq, hp, hc⟩
    · exact ⟨_, rfl, hq, hp, by simp [Param.removeConstraint]⟩
    · exact ⟨_, rfl, hq, hp, hc⟩
  have hx0 : value0 (applyPolicy s.core.policy [q]) = some 0 := by
    cases s.core.policy <;> simp [applyPolicy, value0, hq0, Param.toAuto, Param.removeConstraint]
  obtain ⟨-, h2, -, x, hvx, hxs⟩ :=
    backtrack_descent _ _ (objective_det obj D cap pt0 k) fuel s s1 s2 [q] 0 v hJ hx0 hinit hopt htol hslope
  refine ⟨?_, x, hxs, hvx⟩
  rcases h2 with h | h
  · simpa [Spec.descent] using h
  · exact le_of_eq h

end Bpp.C10
