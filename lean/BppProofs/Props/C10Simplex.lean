import BppProofs.Lemmas.OptimSimplex
/-!
# C10, part 9 — `DownhillSimplexMethod` in full

The downhill simplex method (Nelder–Mead; model in `BppModel/OptimMulti.lean`, transcribed after the
`fix:` commits of findings/C10.json), on the objective of the harness: any objective
`obj : List ℝ → ℝ`, any dimension, any subset of the function's parameters in any order, any
constraints (interval or none), the three constraint policies, any tolerance / cap / number of steps.
Over `ℝ`.

Hypotheses on the list given to `init` (what `ParameterList` and the harness guarantee): precision 0
and feasible values (`Good`), distinct names that are parameters of the function.

The invariant (`Simplex.Inv pt0 P0`, `BppProofs/Lemmas/OptimSimplex.lean`): `pt0` is the function's
point when `init` was called and `P0` the list given to `init` with the policy applied; the function
has not moved off the names of `P0`; the optimiser's list and every vertex are `P0` holding other
feasible values; the list of sums carries the same names, precision 0 and no constraint; the lists of
vertices and of vertex values have the same length and every vertex value is the objective at `pt0`
with the vertex written into it.
-/
namespace Bpp.C10
open Bpp Bpp.Optim

/-- **simplex_best_monotone**: one `doStep` from a state that satisfies the invariant returns a value
that is not above *any* vertex value `y[j]` the step began with — in particular the best vertex value
never increases.  (The ranking loop finds an argmin of `y`; a trial point replaces the highest vertex
only when it is strictly better; the contraction around the lowest vertex leaves that vertex and its
value alone.)  The invariant is kept, and the value returned is the vertex value `y[iLowest]` of the
vertex `simplex[iLowest]` that the step leaves in the optimiser's list. -/
theorem simplex_best_monotone (obj : List ℝ → ℝ) (D : Deriv ℝ) (cap : Option Nat)
    (pt0 : List ℝ) (P0 : PList ℝ) (hg : Good P0) (s s' : St (Fn ℝ) (Simplex ℝ) ℝ) (v : ℝ)
    (hi : Simplex.Inv obj pt0 P0 s) (h : simplexDoStep (Fn.iface obj D cap) s = .ok (s', v)) :
    (∀ (j : Nat) (yj : ℝ), s.ext.y[j]? = some yj → v ≤ yj) ∧
    Simplex.Inv obj pt0 P0 s' ∧
    s'.ext.simplex[s'.ext.iLowest]? = some s'.core.params ∧ s'.ext.y[s'.ext.iLowest]? = some v := by
  obtain ⟨a, b, c, d⟩ := simplexDoStep_spec obj D cap pt0 P0 hg s s' v hi h
  exact ⟨d, a, b, c⟩

/-- **simplex_step_consistent**: the value one `doStep` returns is the objective at the parameters the
step leaves in the optimiser's list (written into the point the function was at when `init` was
called; the function itself has not moved off those names). -/
theorem simplex_step_consistent (obj : List ℝ → ℝ) (D : Deriv ℝ) (cap : Option Nat)
    (pt0 : List ℝ) (P0 : PList ℝ) (hg : Good P0) (s s' : St (Fn ℝ) (Simplex ℝ) ℝ) (v : ℝ)
    (hi : Simplex.Inv obj pt0 P0 s) (h : simplexDoStep (Fn.iface obj D cap) s = .ok (s', v)) :
    v = obj (matchPoint pt0 s'.core.params) ∧ names s'.core.params = names P0 ∧
    s'.fn.point.length = pt0.length ∧ ∀ i, i ∉ names P0 → s'.fn.point[i]? = pt0[i]? := by
  obtain ⟨a, b, c, _⟩ := simplexDoStep_spec obj D cap pt0 P0 hg s s' v hi h
  exact ⟨a.exact.2 _ _ _ b c, a.params.names, a.off.1, a.off.2⟩

/-- `init` establishes the invariant of `simplex_best_monotone` / `simplex_step_consistent` (so they are
about every step of a run: `simplex_run_invariant`) -/
theorem simplex_init_invariant (obj : List ℝ → ℝ) (D : Deriv ℝ) (cap : Option Nat)
    (s s1 : St (Fn ℝ) (Simplex ℝ) ℝ) (params : PList ℝ) (hgood : Good params)
    (hinit : (simplexAlgo (Fn.iface obj D cap)).init s params = .ok s1) :
    Good (applyPolicy s.core.policy params) ∧
    Simplex.Inv obj s.fn.point (applyPolicy s.core.policy params) s1 :=
  ⟨applyPolicy_good _ _ hgood, (simplexInit_spec obj D cap s s1 params hgood hinit).1⟩

/-- a step of the template (`AbstractOptimizer::step`: `doStep`, then the stop condition) keeps the
invariant -/
theorem simplex_run_invariant (obj : List ℝ → ℝ) (D : Deriv ℝ) (cap : Option Nat)
    (pt0 : List ℝ) (P0 : PList ℝ) (hg : Good P0) (s s' : St (Fn ℝ) (Simplex ℝ) ℝ) (v : ℝ)
    (hi : Simplex.Inv obj pt0 P0 s) (h : (simplexAlgo (Fn.iface obj D cap)).step s = .ok (s', v)) :
    Simplex.Inv obj pt0 P0 s' := by
  obtain ⟨s1, hd1, hc⟩ := step_cases _ s h
  obtain ⟨a, _, _, _⟩ := simplexDoStep_spec obj D cap pt0 P0 hg s s1 v hi hd1
  rcases hc with ⟨_, rfl⟩ | ⟨_, rfl⟩
  · exact ⟨a.off, a.params, a.verts, a.psum, a.exact⟩
  · exact ⟨a.off, a.params, a.verts, a.psum, a.exact⟩

/-- **simplex_descent** (with `reported_value_consistent` and `state_at_report`).  After `init` and
`optimize` of a `DownhillSimplexMethod`:
* the value returned is not above the objective at the starting point (the function's point with the
  values of `init`'s list written into it): the starting point is vertex 0 of the initial simplex,
  every step returns a value not above any vertex value it began with (`simplex_best_monotone`), and
  `optimize` ends by evaluating the function at the vertex `iLowest`, whose value that is;
* it is the objective at the point the function has been left at;
* that point holds the values the optimiser reports (`getParameters()` is the vertex `iLowest`).

No hypothesis on the dimension is needed (with an empty list `doStep` raises, which `hopt` excludes;
without a step the statement holds as well).

The optimiser need not be a freshly constructed one: `doInit` (repaired, findings/C10.json) forgets the
ranking of an earlier run, so that `optimize` reports the starting vertex when the loop makes no step
(`nbEvalMax ≤ 1`).  Before the repair a re-initialised optimiser with a stale `iLowest_` reported
another vertex of the new simplex, with a larger value (corpus/C10/simplex_reinit.txt). -/
theorem simplex_descent (obj : List ℝ → ℝ) (D : Deriv ℝ) (cap : Option Nat) (fuel : Nat)
    (s s1 s2 : St (Fn ℝ) (Simplex ℝ) ℝ) (params : PList ℝ) (v : ℝ)
    (hgood : Good params) (hnd : (names params).Nodup) (hlt : ∀ n ∈ names params, n < s.fn.point.length)
    (hinit : (simplexAlgo (Fn.iface obj D cap)).init s params = .ok s1)
    (hopt : simplexOptimize (Fn.iface obj D cap) fuel s1 = .ok (s2, v)) :
    Spec.descent v (obj (matchPoint s.fn.point params)) = true ∧
    Spec.consistent obj v s2.fn.point = true ∧
    Spec.stateAt s2.fn.point (names s2.core.params) (values s2.core.params) = true := by
  obtain ⟨hinv, hbest, hy0⟩ := simplexInit_spec obj D cap s s1 params hgood hinit
  have hrun : Simplex.Run obj (obj (matchPoint s.fn.point params)) s.fn.point (applyPolicy s.core.policy params) s1 :=
    ⟨hinv, hbest, _, hy0, le_refl _⟩
  obtain ⟨h1, h2, h3, _, _⟩ := simplexOptimize_spec obj D cap _ _ _ (applyPolicy_good _ _ hgood)
    (by rw [applyPolicy_names]; exact hnd) (by rw [applyPolicy_names]; exact hlt) fuel s1 s2 v hrun hopt
  refine ⟨?_, ?_, h3.stateAt⟩
  · simp only [Spec.descent, ScalarReal.leb_iff]; exact h1
  · simp only [Spec.consistent, ScalarReal.eqb_iff]; exact h2

/-- what else holds at the end of `simplex_descent`: the reported parameters have the names of `init`'s
list, the function is at the starting point with them written into it, and the run's invariant still
holds (the reported list is the vertex `iLowest`, whose stored value is `v`) -/
theorem simplex_report (obj : List ℝ → ℝ) (D : Deriv ℝ) (cap : Option Nat) (fuel : Nat)
    (s s1 s2 : St (Fn ℝ) (Simplex ℝ) ℝ) (params : PList ℝ) (v : ℝ)
    (hgood : Good params) (hnd : (names params).Nodup) (hlt : ∀ n ∈ names params, n < s.fn.point.length)
    (hinit : (simplexAlgo (Fn.iface obj D cap)).init s params = .ok s1)
    (hopt : simplexOptimize (Fn.iface obj D cap) fuel s1 = .ok (s2, v)) :
    names s2.core.params = names params ∧
    s2.fn.point = matchPoint s.fn.point s2.core.params ∧
    s2.ext.simplex[s2.ext.iLowest]? = some s2.core.params ∧
    s2.ext.y[s2.ext.iLowest]? = some v ∧
    Good s2.core.params := by
  obtain ⟨hinv, hbest, hy0⟩ := simplexInit_spec obj D cap s s1 params hgood hinit
  have hrun : Simplex.Run obj (obj (matchPoint s.fn.point params)) s.fn.point (applyPolicy s.core.policy params) s1 :=
    ⟨hinv, hbest, _, hy0, le_refl _⟩
  have hg := applyPolicy_good s.core.policy _ hgood
  obtain ⟨_, h2, _, h4, h5⟩ := simplexOptimize_spec obj D cap _ _ _ hg
    (by rw [applyPolicy_names]; exact hnd) (by rw [applyPolicy_names]; exact hlt) fuel s1 s2 v hrun hopt
  obtain ⟨yl, hyl, _⟩ := h5.below
  refine ⟨by rw [h5.inv.params.names, applyPolicy_names], h4, h5.best, ?_, h5.inv.params.good hg⟩
  rw [hyl, h5.inv.exact.2 _ _ _ h5.best hyl, h2, h4]

/-- non-vacuity: a list as the harness builds them (an interval constraint on the first parameter,
none on the second) satisfies the hypotheses -/
example : let c : Interval ℝ := ⟨.fin 0, .fin 10, true, true, 0⟩
    let params : PList ℝ := [⟨0, ⟨4, 0, some c, false⟩⟩, ⟨1, ⟨-2, 0, none, false⟩⟩]
    Good params ∧ (names params).Nodup ∧ (∀ n ∈ names params, n < ([4, -2] : List ℝ).length) := by
  intro c params
  refine ⟨?_, by simp [params, names], by simp [params, names]⟩
  intro q hq
  simp only [params, List.mem_cons, List.not_mem_nil, or_false] at hq
  rcases hq with rfl | rfl
  · refine ⟨rfl, ?_⟩
    simp [Param.invOk, Param.accepts, c, Interval.isCorrect, Interval.isCorrectB, Bound.geb, Bound.leb]; norm_num
  · exact ⟨rfl, rfl⟩

end Bpp.C10
