import BppProofs.Props.C15
import BppProofs.Lemmas.TreeValid
import BppProofs.Lemmas.TreeHistory
import BppProofs.Lemmas.TreeRefCheck
import BppProofs.Lemmas.TreeRefSound
import BppProofs.Lemmas.TreeWalk
/-!
# C15 — the validity predicate of the tree container at full strength

`isValid()` is true exactly when the current graph is a tree spanning all its nodes from the root,
at every moment and regardless of earlier queries and edits:

* `isTree_iff` — on consistent tables (C14), the single-visit traversal `isTree`
  (GlobalGraph.cpp:668) answers true iff `IsTreeFrom g`: there is a parent function, defined on the
  nodes other than the root and strictly decreasing a depth towards the root, whose father-son pairs
  are exactly the relations of the graph (each way round when the graph is undirected).  Both
  directions are proved on the traversal itself (`Lemmas/TreeDfsSound.lean`, `TreeDfsComplete.lean`).
* `isTree_iff_unique_path` — for a directed graph that is: the root is a node and every node is joined to the root by
  exactly one directed path (`UpWalk`: the path listed from the node back to the root).
* `isTree_answers`, `isTree_raises_iff` — it answers whenever the root is a node and raises exactly when it is not.
* `history_consistent` — every history of the container keeps consistent tables.
* `isValid_iff` — for every history, the (cached) `isValid()` answers true iff `IsTreeFrom` of the current graph.
* `validRooted_refOf`, `isRootedTree_iff_validRooted`, `isTree_eq_ref_rooted` — the reference decision of the check for
  rooted trees (`isRootedTree`: in-degrees read off the edge table, every ancestor line ends at the root) accepts
  exactly the valid rooted trees, so the reference tree `refOf` is defined exactly on them and, on a directed graph
  whose root is a node, `isTree` answers what the reference answers.  The reference decision for *unrooted* trees,
  `isUnrootedTree` (connected from the root and |E| = |V| - 1), is connected to `IsTreeFrom` in
  `Props/C15ValidU.lean` (`isUnrootedTree_iff`, `isTree_eq_ref`, `isValid_eq_ref`).
-/
namespace Bpp.C15
open Bpp Bpp.Graph

/-- the traversal decides "tree spanning all nodes from the root" -/
theorem isTree_iff (g : G) (hc : Consistent g) : T.isTree g = .ok true ↔ IsTreeFrom g := T.isTree_iff hc

/-- for a rooted (directed) container: `isTree` answers true iff the root is a node and every node is
joined to the root by exactly one directed path -/
theorem isTree_iff_unique_path (g : G) (hc : Consistent g) (hd : g.directed = true) :
    T.isTree g = .ok true ↔
      (g.hasNode g.root = true ∧ ∀ n, g.hasNode n = true → ∃ w, UpWalk g g.root n w ∧ ∀ w', UpWalk g g.root n w' → w' = w) :=
  (T.isTree_iff hc).trans (isTreeFrom_iff_unique_path hc hd)

/-- it answers (true or false) whenever the root is a node ... -/
theorem isTree_answers (g : G) (hc : Consistent g) (hr : g.hasNode g.root = true) : ∃ b, T.isTree g = .ok b :=
  T.isTree_total hc hr

/-- ... and raises exactly when it is not (an empty container: `getOutgoingNeighbors(root_)` throws) -/
theorem isTree_raises_iff (g : G) (hc : Consistent g) : T.isTree g = .exc ↔ g.hasNode g.root = false := by
  constructor
  · intro h
    cases hr : g.hasNode g.root with
    | false => rfl
    | true => obtain ⟨b, hb⟩ := T.isTree_total hc hr; rw [hb] at h; cases h
  · exact T.isTree_root_absent

theorem isTree_false_iff (g : G) (hc : Consistent g) : T.isTree g = .ok false ↔ (g.hasNode g.root = true ∧ ¬ IsTreeFrom g) := by
  constructor
  · intro h
    refine ⟨?_, fun ht => by rw [(T.isTree_iff hc).2 ht] at h; cases h⟩
    cases hr : g.hasNode g.root with
    | true => rfl
    | false => rw [T.isTree_root_absent hr] at h; cases h
  · rintro ⟨hr, hn⟩
    obtain ⟨b, hb⟩ := T.isTree_total hc hr
    cases b with
    | false => exact hb
    | true => exact absurd ((T.isTree_iff hc).1 hb) hn

/-- every history of topology edits and queries, each call succeeding or raising, leaves consistent tables -/
theorem history_consistent (d : Bool) (ops : List TOp) : Consistent ((T.empty d).run ops).g :=
  (T.tinv_run ops _ (T.tinv_empty d)).1

/-- **isValid_iff**: after any history, `isValid()` answers true exactly when the current graph is a
tree spanning all its nodes from the root — whatever was asked or edited before -/
theorem isValid_iff (d : Bool) (ops : List TOp) :
    ((T.empty d).run ops).isValid.1 = .ok true ↔ IsTreeFrom ((T.empty d).run ops).g := by
  rw [isValid_is_isTree d ops]
  exact T.isTree_iff (history_consistent d ops)

/-- it answers false exactly when the root is a node and the graph is not such a tree -/
theorem isValid_false_iff (d : Bool) (ops : List TOp) :
    ((T.empty d).run ops).isValid.1 = .ok false ↔
      (((T.empty d).run ops).g.hasNode ((T.empty d).run ops).g.root = true ∧ ¬ IsTreeFrom ((T.empty d).run ops).g) := by
  rw [isValid_is_isTree d ops]
  exact isTree_false_iff _ (history_consistent d ops)

/-- the reference tree of the check (`refOf`: parent function read off the edge table) is defined
on every valid rooted tree -/
theorem validRooted_refOf (g : G) (hv : ValidRooted g) : refOf g = some (refRaw g) := by
  obtain ⟨P, hd, hr⟩ := hv.dtree
  exact hd.refOf hr

/-- the reference test of the check accepts exactly the valid rooted trees -/
theorem isRootedTree_iff_validRooted (g : G) (hc : Consistent g) : isRootedTree g = true ↔ ValidRooted g :=
  isRootedTree_iff hc

/-- on a directed graph whose root is a node, `isTree` answers what the reference decision answers -/
theorem isTree_eq_ref_rooted (g : G) (hc : Consistent g) (hd : g.directed = true) (hr : g.hasNode g.root = true) :
    T.isTree g = .ok (isTreeRef g) := by
  obtain ⟨b, hb⟩ := T.isTree_total hc hr
  rw [hb]
  congr 1
  unfold isTreeRef
  rw [if_pos hd]
  cases b with
  | true => exact ((isRootedTree_iff hc).2 ⟨hc, hd, hb⟩).symm
  | false =>
    cases hrt : isRootedTree g with
    | false => rfl
    | true => have := ((isRootedTree_iff hc).1 hrt).tree; rw [hb] at this; cases this

/-! non-vacuity: a valid rooted tree (0 -> 1 -> 3, 0 -> 2), a valid unrooted one, an invalid graph -/

def exOps : List TOp := [.createNode, .createNode, .createNode, .createNode, .link 0 1, .link 0 2, .link 1 3]

example : T.isTree ((T.empty true).run exOps).g = .ok true := by decide
example : T.isTree ((T.empty false).run exOps).g = .ok true := by decide
example : IsTreeFrom ((T.empty true).run exOps).g := (isTree_iff _ (history_consistent true exOps)).1 (by decide)
example : ¬ IsTreeFrom ((T.empty true).run (exOps ++ [.link 3 0])).g :=
  fun h => by have := (isTree_iff _ (history_consistent true _)).2 h; revert this; decide

theorem exTree_valid : ValidRooted ((T.empty true).run exOps).g :=
  ⟨history_consistent true exOps, by decide, by decide⟩

end Bpp.C15
