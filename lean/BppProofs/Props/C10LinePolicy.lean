import BppProofs.Lemmas.OptimLinePolicy
import BppProofs.Props.C10Policy
/-!
# C10, part 5b — the constraint policy of the optimisers built on line searches

"Under the automatic-constraint policy the objective is never evaluated outside its parameters'
constraints and the reported point is feasible", end to end for `PowellMultiDimensions`,
`ConjugateGradientMultiDimensions` and `BfgsMultiDimensions` (`BppModel/OptimLine.lean`).

These optimisers evaluate the objective
* at their own parameter list (`init`'s list with the policy applied, moved by `setValue` only);
* at a copy of it moved by `setValue` (Powell's extrapolated point `ptt`);
* at the list given to `init` itself (`doInit` of the conjugate gradient and BFGS optimisers), which is
  tied to its own constraints when its values are feasible and its names distinct;
* through a `DirectionFunction` (`lineMinimization`: Brent's method with outward bracketing;
  `lineSearch`: Newton backtracking), which always runs under the *automatic* policy: it sets the
  objective to auto-correcting copies `xt` of the optimiser's parameters, moved by `setValue` to
  `p + x ξ` — whatever abscissa `x` the one-dimensional optimiser asks for (`dirfn_objective_feasible`).
All of these lists are tied to `init`'s constraints (C01: a `setValue`, plain or auto-correcting, that
returns leaves the parameter inside its constraint), hence every logged point is feasible, however
the run ends (exceptions carry the function, and `ROk` demands the feasibility of its log too).
As in `C10Policy`, the theorems only need `policy ≠ ignore`.
-/
namespace Bpp.C10
open Bpp Bpp.Optim

/-- **dirfn_objective_feasible**: one evaluation through a `DirectionFunction` wrapped around the
objective of the harness.  When the wrapped function's log and point are feasible and the copies `xt`
are tied to `cons`, `f(pl)` — for *every* one-dimensional list `pl`, whatever abscissa it holds —
leaves the wrapped function with a feasible log and point and the copies tied, also when it raises. -/
theorem dirfn_objective_feasible (obj : List ℝ → ℝ) (D : Deriv ℝ) (cap : Option Nat) (cons : Spec.Cons ℝ)
    (df : DirFn (Fn ℝ) ℝ) (pl : PList ℝ) (hQ : FeasFn cons df.inner) (hT : Tied cons df.xt) :
    ROk (fun df' : DirFn (Fn ℝ) ℝ => FeasFn cons df'.inner ∧ Tied cons df'.xt)
      (fun r => (Spec.feasibleLog cons r.1.inner.log = true ∧ Spec.feasiblePoint cons r.1.inner.point = true) ∧ Tied cons r.1.xt)
      ((DirFn.iface (Fn.iface obj D cap)).f df pl) := by
  have hJ := dirfn_safe (objective_safeSet obj D cap cons)
  cases h : (DirFn.iface (Fn.iface obj D cap)).f df pl with
  | error e => obtain ⟨e1, df1⟩ := e; exact hJ.f_err df pl e1 df1 ⟨hQ, hT⟩ trivial h
  | ok r => obtain ⟨df1, v⟩ := r; exact hJ.f_ok df pl df1 v ⟨hQ, hT⟩ trivial h

/-- **backtrack_auto_policy_feasible**: `NewtonBacktrackOneDimension` used as an optimiser in its own right
(the quantifier lists it; inside the library it only ever runs on a `DirectionFunction`, which
`dirfn_objective_feasible` covers) — `init` (one evaluation at the optimiser's list), any number of steps
(each evaluates at the list moved by `setValue`; on giving up the function is put back with the list set
to 0 by `setValue`) — on the objective of the harness: however the run ends, every evaluation was made at
a feasible point and the reported parameter is feasible. -/
theorem backtrack_auto_policy_feasible (obj : List ℝ → ℝ) (D : Deriv ℝ) (cap : Option Nat)
    (params : PList ℝ) (s : St (Fn ℝ) (NBack ℝ) ℝ) (hpol : s.core.policy ≠ .ignore)
    (hfeas : feasibleList params = true) (hnd : (params.map (·.name)).Nodup)
    (hs0 : FeasFn (consOf params) s.fn) :
    ROk (FeasFn (consOf params))
      (fun s1 => Spec.feasibleLog (consOf params) s1.fn.log = true ∧ Spec.feasibleReport s1.core.params = true ∧
        ∀ fuel', ROk (FeasFn (consOf params))
          (fun r => Spec.feasibleLog (consOf params) r.1.fn.log = true ∧ Spec.feasibleReport r.1.core.params = true)
          ((nbackAlgo (Fn.iface obj D cap)).optimize fuel' s1))
      ((nbackAlgo (Fn.iface obj D cap)).init s params) :=
  auto_policy_feasible (nbackAlgo (Fn.iface obj D cap)) params
    (nback_safeAlgo' (objective_safe obj D cap (consOf params))) s hpol hfeas hnd hs0

/-- **powell_auto_policy_feasible**: `PowellMultiDimensions` — `init` (one evaluation), any number of
steps (a line minimisation and an evaluation per direction, the extrapolated point, possibly one more
line minimisation), the final evaluation of its `optimize` — on the objective of the harness: however
the run ends, every evaluation was made at a feasible point, and the reported parameters are feasible. -/
theorem powell_auto_policy_feasible (obj : List ℝ → ℝ) (D : Deriv ℝ) (cap : Option Nat) (fuel : Nat)
    (params : PList ℝ) (s : St (Fn ℝ) (Powell ℝ) ℝ) (hpol : s.core.policy ≠ .ignore)
    (hfeas : feasibleList params = true) (hnd : (params.map (·.name)).Nodup)
    (hs0 : FeasFn (consOf params) s.fn) :
    ROk (FeasFn (consOf params))
      (fun s1 => Spec.feasibleLog (consOf params) s1.fn.log = true ∧ Spec.feasibleReport s1.core.params = true ∧
        ∀ fuel', ROk (FeasFn (consOf params))
          (fun r => Spec.feasibleLog (consOf params) r.1.fn.log = true ∧ Spec.feasibleReport r.1.core.params = true)
          (powellOptimize (Fn.iface obj D cap) fuel' s1))
      ((powellAlgo (Fn.iface obj D cap) fuel).init s params) := by
  have hsafe := objective_safe obj D cap (consOf params)
  have hset := objective_safeSet obj D cap (consOf params)
  have hT0 := applyPolicy_tied params s.core.policy hpol hfeas hnd
  have hi := init_safe (powell_safeAlgo hsafe hset fuel) s params hs0 hT0
  cases hinit : (powellAlgo (Fn.iface obj D cap) fuel).init s params with
  | error e => rw [hinit] at hi; exact hi
  | ok s1 =>
    rw [hinit] at hi
    refine ⟨hi.1.1, hi.2.report, fun fuel' => ?_⟩
    have ho := powellOptimize_safe hsafe hset fuel' s1 hi.1 hi.2
    cases hopt : powellOptimize (Fn.iface obj D cap) fuel' s1 with
    | error e => rw [hopt] at ho; exact ho
    | ok r => rw [hopt] at ho; exact ⟨ho.1.1, ho.2.report⟩

/-- **cg_auto_policy_feasible**: the same for `ConjugateGradientMultiDimensions` — `init` (which sets
the function to the list it is given), any number of steps (a line minimisation and an evaluation). -/
theorem cg_auto_policy_feasible (obj : List ℝ → ℝ) (D : Deriv ℝ) (cap : Option Nat) (fuel : Nat)
    (params : PList ℝ) (s : St (Fn ℝ) (Cg ℝ) ℝ) (hpol : s.core.policy ≠ .ignore)
    (hfeas : feasibleList params = true) (hnd : (params.map (·.name)).Nodup)
    (hs0 : FeasFn (consOf params) s.fn) :
    ROk (FeasFn (consOf params))
      (fun s1 => Spec.feasibleLog (consOf params) s1.fn.log = true ∧ Spec.feasibleReport s1.core.params = true ∧
        ∀ fuel', ROk (FeasFn (consOf params))
          (fun r => Spec.feasibleLog (consOf params) r.1.fn.log = true ∧ Spec.feasibleReport r.1.core.params = true)
          ((cgAlgo (Fn.iface obj D cap) fuel).optimize fuel' s1))
      ((cgAlgo (Fn.iface obj D cap) fuel).init s params) := by
  have hsafe := objective_safe obj D cap (consOf params)
  have hset := objective_safeSet obj D cap (consOf params)
  have hT0 := applyPolicy_tied params s.core.policy hpol hfeas hnd
  have hTp : Tied (consOf params) params := applyPolicy_tied params .keep (by decide) hfeas hnd
  have hstep := cg_safeStep hsafe hset fuel
  have hi := init_safeS hstep s params (cgDoInit_safe hset _ params hs0 hT0 hTp)
  cases hinit : (cgAlgo (Fn.iface obj D cap) fuel).init s params with
  | error e => rw [hinit] at hi; exact hi
  | ok s1 =>
    rw [hinit] at hi
    refine ⟨hi.1.1, hi.2.report, fun fuel' => ?_⟩
    have ho := optimize_safeS hstep fuel' s1 hi.1 hi.2
    cases hopt : (cgAlgo (Fn.iface obj D cap) fuel).optimize fuel' s1 with
    | error e => rw [hopt] at ho; exact ho
    | ok r => rw [hopt] at ho; exact ⟨ho.1.1, ho.2.report⟩

/-- **bfgs_auto_policy_feasible**: the same for `BfgsMultiDimensions` — `init` (bounds, the function set
to the list it is given), any number of steps (a line search and an evaluation; on a function
increase the optimiser's list is set back by `setValue` to the point the step started from and the
function is evaluated there). -/
theorem bfgs_auto_policy_feasible (obj : List ℝ → ℝ) (D : Deriv ℝ) (cap : Option Nat) (fuel : Nat)
    (params : PList ℝ) (s : St (Fn ℝ) (Bfgs ℝ) ℝ) (hpol : s.core.policy ≠ .ignore)
    (hfeas : feasibleList params = true) (hnd : (params.map (·.name)).Nodup)
    (hs0 : FeasFn (consOf params) s.fn) :
    ROk (FeasFn (consOf params))
      (fun s1 => Spec.feasibleLog (consOf params) s1.fn.log = true ∧ Spec.feasibleReport s1.core.params = true ∧
        ∀ fuel', ROk (FeasFn (consOf params))
          (fun r => Spec.feasibleLog (consOf params) r.1.fn.log = true ∧ Spec.feasibleReport r.1.core.params = true)
          ((bfgsAlgo (Fn.iface obj D cap) fuel).optimize fuel' s1))
      ((bfgsAlgo (Fn.iface obj D cap) fuel).init s params) := by
  have hsafe := objective_safe obj D cap (consOf params)
  have hset := objective_safeSet obj D cap (consOf params)
  have hT0 := applyPolicy_tied params s.core.policy hpol hfeas hnd
  have hTp : Tied (consOf params) params := applyPolicy_tied params .keep (by decide) hfeas hnd
  have hstep := bfgs_safeStep hsafe hset fuel
  have hi := init_safeS hstep s params (bfgsDoInit_safe hset _ params hs0 hT0 hTp)
  cases hinit : (bfgsAlgo (Fn.iface obj D cap) fuel).init s params with
  | error e => rw [hinit] at hi; exact hi
  | ok s1 =>
    rw [hinit] at hi
    refine ⟨hi.1.1, hi.2.report, fun fuel' => ?_⟩
    have ho := optimize_safeS hstep fuel' s1 hi.1 hi.2
    cases hopt : (bfgsAlgo (Fn.iface obj D cap) fuel).optimize fuel' s1 with
    | error e => rw [hopt] at ho; exact ho
    | ok r => rw [hopt] at ho; exact ⟨ho.1.1, ho.2.report⟩

/-- non-vacuity: the hypotheses of the three theorems hold for a two-parameter list (parameter 0
constrained to `[0, 10]`, parameter 1 free), a Powell optimiser under the automatic policy and a
function at the feasible point `(4, 1)` with an empty log -/
example : let c : Interval ℝ := ⟨.fin 0, .fin 10, true, true, 0⟩
    let params : PList ℝ := [⟨0, ⟨4, 0, some c, false⟩⟩, ⟨1, ⟨1, 0, none, false⟩⟩]
    let s : St (Fn ℝ) (Powell ℝ) ℝ := ⟨{ freshCore 100 0 0 with policy := .auto }, ⟨[4, 1], []⟩, Powell.fresh⟩
    s.core.policy ≠ .ignore ∧ feasibleList params = true ∧ (params.map (·.name)).Nodup ∧ FeasFn (consOf params) s.fn := by
  intro c params s
  refine ⟨by simp [s], ?_, by simp [params], ?_, ?_⟩
  · simp [params, feasibleList, Param.invOk, Param.accepts, c, Interval.isCorrect, Interval.isCorrectB, Bound.geb, Bound.leb]; norm_num
  · rfl
  · simp [s, params, consOf, Spec.feasiblePoint, Spec.accepts, c, Interval.isCorrect, Interval.isCorrectB, Bound.geb, Bound.leb]; norm_num

end Bpp.C10
