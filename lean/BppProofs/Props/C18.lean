import BppProofs.Lemmas.Rand
import BppProofs.Lemmas.RandRcont
import BppProofs.Lemmas.RandRcontTotal
import BppProofs.Lemmas.RandWalk
import BppModel.DistGuards
import BppProofs.Lemmas.RandLaw
import BppProofs.Lemmas.RandSampleLaw
import BppProofs.Lemmas.RandMonteCarlo
import BppProofs.Lemmas.RandLawPred
/-!
# C18 — random draws   (RandomTools, ContingencyTableGenerator, ContingencyTableTest, discrete rand)

Property theorems only; helper lemmas are in `Lemmas/Rand.lean`.  The model (`BppModel/Rand.lean`)
takes the results of the primitive draws as an input; every theorem quantifies over ALL of them.
The contracts of the primitives are hypotheses where needed:
  * an integer draw with entry `n` is `< n`            (`std::uniform_int_distribution(0, n-1)`)
  * a uniform draw `u` with entry 1 has `0 ≤ u < 1`     (`std::uniform_real_distribution(0, 1)`)
  * `std::shuffle` leaves a permutation.
-/
namespace Bpp.C18
open Bpp Bpp.Rand

/-! ## picks and samples without weights -/

/-- `pickOne(v, replace)`: for every admissible draw the result is an element of `v`; with
replacement `v` is unchanged, without it exactly that one occurrence is removed -/
theorem pickOne_spec {τ : Type} (v : List τ) (replace : Bool) (pos : Nat) (hpos : pos < v.length) :
    ∃ e rest, pickOne v replace pos = .ok (e, rest) ∧ e ∈ v ∧
      (replace = true → rest = v) ∧ (replace = false → v.Perm (e :: rest)) := by
  obtain ⟨e, he, hp⟩ := pickOne_ok replace hpos
  refine ⟨e, _, hp, List.mem_of_getElem? he, ?_, ?_⟩
  · intro h; simp [h]
  · intro h; simp only [h, Bool.false_eq_true, if_false]; exact swapPop_perm he

/-- sampling without replacement (`std::shuffle` leaves any permutation `hat` of the positions):
the output is an injective selection of source positions — hence a sub-multiset of the source —
and a permutation of the source when the sizes match -/
theorem sample_norepl_distinct {τ : Type} (vin : List τ) (k : Nat) (draws hat : List Nat)
    (hhat : hat.Perm (List.range vin.length)) (hk : k ≤ vin.length) :
    ∃ out idx, getSample vin k false draws hat = .ok out ∧ out.length = k ∧
      idx.Nodup ∧ (∀ i ∈ idx, i < vin.length) ∧ List.Forall₂ (fun o i => vin[i]? = some o) out idx ∧
      out.Subperm vin ∧ (k = vin.length → out.Perm vin) := by
  have hnd : (hat.take k).Nodup := (List.take_sublist k hat).nodup (hhat.nodup_iff.mpr List.nodup_range)
  have hlt : ∀ i ∈ hat.take k, i < vin.length := fun i hi =>
    List.mem_range.mp (hhat.mem_iff.mp (List.mem_of_mem_take hi))
  obtain ⟨out, ho, hsel⟩ := selectBy_ok hlt
  have hlen : out.length = k := by
    rw [hsel.length, List.length_take, hhat.length_eq, List.length_range]; omega
  have hsub := hsel.subperm hnd hlt
  refine ⟨out, hat.take k, ?_, hlen, hnd, hlt, hsel, hsub, ?_⟩
  · have : ¬ vin.length < k := by omega
    simp [getSample, this, ho]
  · intro hkn; exact hsub.perm_of_length_le (by omega)

/-- the same for the weighted `getSample(vin, w, vout, false)`: whatever the uniform draws (even
NaN) and whatever the weights, as long as there is one weight per element -/
theorem sample_norepl_distinct_weighted {α : Type} [Scalar α] {τ : Type} (vin : List τ) (w : List α) (k : Nat)
    (draws : List α) (hw : w.length = vin.length) (hk : k ≤ vin.length) (hd : k ≤ draws.length) :
    ∃ out idx, getSampleW vin w k false draws = .ok out ∧ out.length = k ∧
      idx.Nodup ∧ (∀ i ∈ idx, i < vin.length) ∧ List.Forall₂ (fun o i => vin[i]? = some o) out idx ∧
      out.Subperm vin ∧ (k = vin.length → out.Perm vin) := by
  obtain ⟨ps, hps, hlen, hsub⟩ := pickPositionsNoRepl_ok k (List.range vin.length) w draws
    (by simp [hw]) (by simpa using hk) hd
  have hnd : ps.Nodup := subperm_nodup hsub List.nodup_range
  have hlt : ∀ i ∈ ps, i < vin.length := fun i hi => List.mem_range.mp (hsub.subset hi)
  obtain ⟨out, ho, hsel⟩ := selectBy_ok hlt
  have hol : out.length = k := by rw [hsel.length, hlen]
  have hs := hsel.subperm hnd hlt
  refine ⟨out, ps, ?_, hol, hnd, hlt, hsel, hs, ?_⟩
  · have : ¬ vin.length < k := by omega
    simp [getSampleW, this, hps, ho]
  · intro hkn; exact hs.perm_of_length_le (by omega)

/-- over-long requests without replacement are refused, whatever the draws -/
theorem sample_too_long_raises {α : Type} [Scalar α] {τ : Type} (vin : List τ) (w : List α) (k : Nat)
    (draws hat : List Nat) (udraws : List α) (hk : vin.length < k) :
    getSample vin k false draws hat = .error .index ∧ getSampleW vin w k false udraws = .error .index := by
  simp [getSample, getSampleW, hk]

/-- sampling with replacement returns only source elements — for every draw sequence on which
the code returns at all — and it does return when the draws respect the primitive's contract -/
theorem sample_repl_subset {τ : Type} (vin : List τ) (k : Nat) (draws hat : List Nat) :
    (∀ out, getSample vin k true draws hat = .ok out → out.length = k ∧ ∀ x ∈ out, x ∈ vin) ∧
    (k ≤ draws.length → (∀ d ∈ draws, d < vin.length) → ∃ out, getSample vin k true draws hat = .ok out) := by
  constructor
  · intro out h
    simp only [getSample, Bool.not_true, Bool.and_false, Bool.false_eq_true, if_false, if_true] at h
    exact sampleRepl_mem k draws out h
  · intro hk hd
    obtain ⟨out, ho, _, _⟩ := sampleRepl_ok (vin := vin) k draws hk hd
    exact ⟨out, by simp [getSample, ho]⟩

/-- the same for the weighted `getSample(vin, w, vout, true)`: only source elements, for all
uniform draws and all weights; and an answer exists when there is one weight per element -/
theorem sample_repl_subset_weighted {α : Type} [Scalar α] {τ : Type} (vin : List τ) (w : List α) (k : Nat) (draws : List α) :
    (∀ out, getSampleW vin w k true draws = .ok out → out.length = k ∧ ∀ x ∈ out, x ∈ vin) ∧
    (w.length = vin.length → vin ≠ [] → k ≤ draws.length → ∃ out, getSampleW vin w k true draws = .ok out) := by
  constructor
  · intro out h
    simp only [getSampleW, Bool.not_true, Bool.and_false, Bool.false_eq_true, if_false, if_true] at h
    exact sampleWRepl_mem _ w k draws out h
  · intro hw hne hk
    obtain ⟨out, ho⟩ := sampleWRepl_ok w hw hne k draws hk
    exact ⟨out, by simp [getSampleW, ho]⟩

/-- emptiness is reported by exception, whatever the draws: every pick on an empty vector and
every non-empty sample with replacement from an empty vector raises `EmptyVectorException`
(`pickFromCumSum` only after `fix:` 57b79ce — see `pickFromCumSum_unrepaired_witness`) -/
theorem empty_raises {α : Type} [Scalar α] {τ : Type} (replace : Bool) (pos k : Nat) (draws hat : List Nat)
    (w : List α) (u : α) (us : List α) :
    pickOne ([] : List τ) replace pos = .error .empty ∧
    pickOneConst ([] : List τ) pos = .error .empty ∧
    pickOneW ([] : List τ) w replace u = .error .empty ∧
    pickOneWConst ([] : List τ) w u = .error .empty ∧
    getSample ([] : List τ) (k + 1) true draws hat = .error .empty ∧
    getSampleW ([] : List τ) w (k + 1) true us = .error .empty ∧
    pickFromCumSum ([] : List α) u = .error .empty := by
  refine ⟨rfl, rfl, rfl, rfl, ?_, ?_, rfl⟩
  · simp [getSample, sampleRepl]
  · simp [getSampleW, sampleWRepl]

/-- … and only emptiness: on a non-empty vector no admissible draw raises -/
theorem nonempty_no_raise {τ : Type} (v : List τ) (replace : Bool) (pos : Nat) (hpos : pos < v.length) :
    (∃ r, pickOne v replace pos = .ok r) ∧ (∃ r, pickOneConst v pos = .ok r) := by
  obtain ⟨e, _, hp⟩ := pickOne_ok replace hpos
  exact ⟨⟨_, hp⟩, ⟨_, pickOneConst_ok hpos⟩⟩

/-! The `…_law` / `…_pred` theorems about `lawPickAt`, `lawSampleUnif`, `cumSumPickOk`,
`multinomialLawOk`, `hmmStepOk` (`pick_law`, `sample_repl_law`, `cumsum_pick_law_pred`,
`multinomial_state_law_pred`, `hmm_sample_law`, `hmm_step_pred`) restate the model's algorithm as a
predicate ("the model computes what it computes"): they carry no hypotheses and little content as
theorems.  Their purpose is that the driver evaluates these predicates on the IMPLEMENTATION's
recorded draws.  The theorems with real content are the interval statements under explicit
hypotheses: `weighted_pick_law`, `weight_intervals_partition`, `weighted_sample_law`,
`weighted_sample_norepl_law`, `cumsum_pick_law_sorted`, `multinomial_state_law`, `drand_law`,
`hmm_step_law`.  For the unweighted pick the law is the primitive's (trusted) uniformity. -/

/-- the law of the unweighted picks given the integer draw (`FAIL:pick_law` in the driver): both
`pickOne(v, replace)` and `pickOne(const v)` return the element at the position the draw designates
— so a uniform draw on `0..n-1` (the primitive's contract) gives every position probability `1/n` -/
theorem pick_law {τ : Type} [BEq τ] [LawfulBEq τ] (v : List τ) (replace : Bool) (pos : Nat) :
    (∀ e rest, pickOne v replace pos = .ok (e, rest) → lawPickAt v pos e = true) ∧
    (∀ e, pickOneConst v pos = .ok e → lawPickAt v pos e = true) :=
  ⟨fun e rest h => pickOne_lawPickAt v replace pos e rest h, fun e h => pickOneConst_lawPickAt v pos e h⟩

/-- … and of the unweighted sample with replacement (`FAIL:sample_repl_law`): element `i` of the
sample is the source element at the position integer draw `i` designates, for every size -/
theorem sample_repl_law {τ : Type} [BEq τ] [LawfulBEq τ] (vin : List τ) (k : Nat) (draws hat : List Nat) (out : List τ)
    (h : getSample vin k true draws hat = .ok out) : lawSampleUnif vin (draws.take k) out = true := by
  simp only [getSample, Bool.not_true, Bool.and_false, Bool.false_eq_true, if_false, if_true] at h
  exact sampleRepl_law vin k draws out h

example : lawSampleUnif [10, 20, 30] [0, 2, 2, 1] [10, 30, 30, 20] = true := by decide
example : lawSampleUnif [10, 20, 30] [0, 2] [10, 20] = false := by decide

/-- before `fix:` 57b79ce `pickFromCumSum` of an empty vector read `w[0]` (segfault on the real code,
corpus/C18/cumsum-empty.txt) instead of raising -/
theorem pickFromCumSum_unrepaired_witness :
    pickFromCumSumUnrepaired ([] : List Rat) 0 = .error .ub := rfl

/-! non-vacuity -/
example : getSample [10, 20, 30] 2 false [] [2, 0, 1] = .ok [30, 10] := rfl
example : getSample [10, 20, 30] 4 true [0, 2, 2, 1] [] = .ok [10, 30, 30, 20] := rfl
example : pickOne [1, 2, 3, 4] false 1 = .ok (2, [1, 4, 3]) := rfl

/-! ## random contingency tables (AS159) -/

/-- `rcont2_margins`: for ALL margins and ALL values the inverse-cdf walk can stop at, the table
returned by `rcont2` (after `fix:` f276286) has the requested shape, non-negative entries, and
exactly the requested row and column totals -/
theorem rcont2_margins (nrowt ncolt : List Nat) (picks : List (List Int)) (T : List (List Int))
    (h : rcont2 nrowt ncolt picks = .ok T) :
    marginsOk nrowt ncolt T = true := rcont2_marginsOk nrowt ncolt picks T h

/-- `marginsOk` spelled out -/
theorem marginsOk_iff (nrowt ncolt : List Nat) (T : List (List Int)) :
    marginsOk nrowt ncolt T = true ↔
      T.length = nrowt.length ∧ (∀ row ∈ T, row.length = ncolt.length ∧ ∀ x ∈ row, 0 ≤ x) ∧
      T.map List.sum = nrowt.map Int.ofNat ∧ colSums ncolt.length T = ncolt.map Int.ofNat := by
  simp only [marginsOk, Bool.and_eq_true, beq_iff_eq, List.all_eq_true, decide_eq_true_eq]
  tauto

/-- the repaired code never indexes the log-factorial table outside `0..ntot`, whatever the
margins and the choices (the unrepaired code did: `rcont2_unrepaired_witness`) -/
theorem rcont2_reads_in_bounds (nrowt ncolt : List Nat) (picks : List (List Int)) :
    rcont2 nrowt ncolt picks ≠ .error .ub := rcont2_no_ub nrowt ncolt picks

/-- what "any value the loops can stop at" means: from the (repaired) starting value the
increment / decrement walk reaches exactly the support of the cell's conditional hypergeometric
law, `max(0, ia+id-ie) ≤ v ≤ min(ia, id)` — so the abstraction of the float-dependent choice
neither forbids a value the code can produce nor (given `rcont2_margins`) admits a harmful one -/
theorem rcont2_cell_support (ia id ie v : Int) (ha : 0 ≤ ia) (hd : 0 ≤ id) (hie : 0 < ie) (hae : ia ≤ ie) (hde : id ≤ ie) :
    canReach ia id (ie - ia - id) (startCell ia id ie) v = true ↔
      max 0 (ia + id - ie) ≤ v ∧ v ≤ min ia id := by
  obtain ⟨s0, s1, s2, s3⟩ := startCell_bound ha hd hie hae hde
  rw [canReach_iff s0 (by omega) s2 s3]
  constructor
  · rintro ⟨h1, h2, h3, h4⟩; exact ⟨by omega, by omega⟩
  · rintro ⟨h1, h2⟩; exact ⟨by omega, by omega, by omega, by omega⟩

/-- margins that are refused: fewer than two rows / columns, or different totals -/
theorem rcont2_rejects (nrowt ncolt : List Nat) (picks : List (List Int)) :
    (nrowt.length < 2 ∨ ncolt.length < 2 ∨ nrowt.sum ≠ ncolt.sum) → rcont2 nrowt ncolt picks = .error .bpp := by
  intro h
  unfold rcont2 rcont2With
  by_cases h1 : nrowt.length < 2 ∨ ncolt.length < 2
  · rw [if_pos (by simpa using h1)]
  · have h2 : nrowt.sum ≠ ncolt.sum := by tauto
    rw [if_neg (by simpa using h1), if_pos (by simpa using h2)]

/-- `rcont2_total` — the totality companion of `rcont2_margins` (which is conditional on
`rcont2 … = .ok T`).  For every interpretation `P` of the standard library — in particular of the
float-dependent inverse-cdf walk `P.rcell`, of which only "it stops at a value inside the support
`max(0, ia+id-ie) ≤ v ≤ min(ia, id)` of the cell" is assumed (`WalkInSupport`; that a walk started
inside the support can stop nowhere else is `rcont2_cell_support`, that the walk of the code does
stop is `rcont2_walk_terminates`) —, every generator state and ALL margins the constructor accepts
(at least two rows and columns, equal totals; zeros allowed): `rcont2` returns a table, and the
table has exactly the requested margins.  Never `starved`, `unreachable`, `ub`, `bpp`. -/
theorem rcont2_total {σ α : Type} (P : RandGen.Prims σ α) (hP : WalkInSupport P) (nrowt ncolt : List Nat) (g : σ)
    (h2r : 2 ≤ nrowt.length) (h2c : 2 ≤ ncolt.length) (hsum : nrowt.sum = ncolt.sum) :
    ∃ T, (RandGen.rcont2G P nrowt ncolt g).1 = .ok T ∧ marginsOk nrowt ncolt T = true := by
  obtain ⟨T, hT⟩ := rcont2G_ok P hP nrowt ncolt g h2r h2c hsum
  refine ⟨T, hT, ?_⟩
  rw [rcont2G_eq P nrowt ncolt g h2r h2c hsum] at hT
  exact rcont2_marginsOk nrowt ncolt _ T hT

/-- in terms of the draw-taking model: for all valid margins there ARE cell values on which
`rcont2` returns a table (so `rcont2_margins` is never vacuous), e.g. the starting values -/
theorem rcont2_total_picks (nrowt ncolt : List Nat)
    (h2r : 2 ≤ nrowt.length) (h2c : 2 ≤ ncolt.length) (hsum : nrowt.sum = ncolt.sum) :
    ∃ picks T, rcont2 nrowt ncolt picks = .ok T ∧ marginsOk nrowt ncolt T = true := by
  obtain ⟨T, hT, hm⟩ := rcont2_total startWalk startWalk_inSupport nrowt ncolt () h2r h2c hsum
  rw [rcont2G_eq startWalk nrowt ncolt () h2r h2c hsum] at hT
  exact ⟨_, T, hT, hm⟩

/-- … and for ANY supplied cell values the only failures on valid margins are those of the
supply itself (too few values, or a value the walk cannot reach): never an outcome of the code -/
theorem rcont2_fails_only_on_bad_picks (nrowt ncolt : List Nat) (picks : List (List Int))
    (h2r : 2 ≤ nrowt.length) (h2c : 2 ≤ ncolt.length) (hsum : nrowt.sum = ncolt.sum) :
    (∃ T, rcont2 nrowt ncolt picks = .ok T) ∨ rcont2 nrowt ncolt picks = .error .starved ∨
      rcont2 nrowt ncolt picks = .error .unreachable :=
  rcont2_outcomes nrowt ncolt picks h2r h2c hsum

/-- the refusal is exactly the constructor's guard (converse of `rcont2_rejects`) -/
theorem rcont2_rejects_iff (nrowt ncolt : List Nat) (picks : List (List Int)) :
    rcont2 nrowt ncolt picks = .error .bpp ↔ (nrowt.length < 2 ∨ ncolt.length < 2 ∨ nrowt.sum ≠ ncolt.sum) := by
  constructor
  · intro h
    by_contra hc
    simp only [not_or, not_lt, ne_eq, not_not] at hc
    rcases rcont2_outcomes nrowt ncolt picks hc.1 hc.2.1 hc.2.2 with ⟨T, hT⟩ | h' | h' <;> rw [h] at * <;> simp_all
  · exact rcont2_rejects nrowt ncolt picks

/-! non-vacuity of `WalkInSupport`: the walk that stops at its starting value; any walk is allowed
to depend on the generator state -/
example : WalkInSupport startWalk := startWalk_inSupport
example : (RandGen.rcont2G startWalk [4, 6, 5] [7, 8] ()).1 = .ok [[2, 2], [3, 3], [2, 3]] := by decide

/-- `rcont2_walk_terminates` — the `do … while (true)` walk of one cell, in the terms of its
transcription `BppModel/RandWalk.lean` (control flow of ContingencyTableGenerator.cpp:99-163 over an
abstract non-negative probability mass `x0` at the starting value; real arithmetic): for every cell
the book-keeping can present (`0 ≤ ia, id ≤ ie`, `0 < ie`), every first threshold `dummy`, and ONE
further uniform draw `u ≤ 1` for the restart, the walk returns — after at most one restart, never
running into the model's iteration bound — and the value it returns is one the abstraction of
`rcont2` admits (`canReach`, i.e. inside the support of the cell: `rcont2_cell_support`).  Why one
restart suffices: an exhausted pass has added up the total `S` of its terms; the next threshold is
`S·u ≤ S`, and the next pass adds the same terms in the same order (`sweep_replay`).
Not covered: `long double` rounding (the argument only needs `fl(S·u) ≤ S` and the repeatability of
the pass, which hold in floating point too, but that is not proved here), and the tie of this
transcription to the code (reading; clause `terminates` on executions). -/
theorem rcont2_walk_terminates (ia id ie : Int) (x0 dummy u : ℝ) (us : List ℝ)
    (ha : 0 ≤ ia) (hd : 0 ≤ id) (hie : 0 < ie) (hae : ia ≤ ie) (hde : id ≤ ie) (hx0 : 0 ≤ x0) (hu : u ≤ 1) :
    ∃ v, walk ia id (ie - ia - id) (startCell ia id ie) x0 dummy (u :: us) = .ok v ∧
      canReach ia id (ie - ia - id) (startCell ia id ie) v = true := by
  obtain ⟨s0, s1, s2, s3⟩ := startCell_bound ha hd hie hae hde
  set st := startCell ia id ie with hst
  have hreach : ∀ v, InSupp ia id (ie - ia - id) v → canReach ia id (ie - ia - id) st v = true :=
    fun v hv => (canReach_iff (ii := ie - ia - id) s0 (by omega) s2 s3).mpr hv
  have hstart : InSupp ia id (ie - ia - id) st := ⟨s0, by omega, s2, s3⟩
  have hinv : WalkInv ia id (ie - ia - id) ⟨st, st, x0, x0, x0⟩ :=
    ⟨s0, by show 0 ≤ ie - ia - id + st; omega, le_refl _, s2, s3, hx0, hx0, hx0⟩
  have hfuel : (ia - st) + st + 2 ≤ ((walkFuel ia id : Nat) : Int) := by
    unfold walkFuel; push_cast
    rw [Int.toNat_of_nonneg ha, Int.toNat_of_nonneg hd]; omega
  have hok := fun d => sweep_ok ia id (ie - ia - id) d (walkFuel ia id) ⟨st, st, x0, x0, x0⟩ hinv hfuel
  rw [walk]
  split
  · exact ⟨st, rfl, hreach st hstart⟩
  · have h1 := hok dummy
    cases hs : sweep ia id (ie - ia - id) dummy (walkFuel ia id) ⟨st, st, x0, x0, x0⟩ with
    | hit v => rw [hs] at h1; exact ⟨v, rfl, hreach v h1⟩
    | fuel => rw [hs] at h1; exact False.elim h1
    | exhausted S =>
      rw [hs] at h1
      have hS : 0 ≤ S := h1
      have hle : S * u ≤ S := by nlinarith
      dsimp only
      rw [walk]
      split
      · exact ⟨st, rfl, hreach st hstart⟩
      · rename_i hnot
        have h2 := hok (S * u)
        rcases sweep_replay ia id (ie - ia - id) dummy (S * u) S _ _ hs hle with ⟨v, hv⟩ | ⟨_, hS0⟩
        · simp only [smul] at hv ⊢
          rw [hv] at h2 ⊢
          exact ⟨v, rfl, hreach v h2⟩
        · exfalso; apply hnot
          simp only [Scalar.geb, ScalarReal.leb_iff, smul]
          have : S = x0 := hS0
          rw [← this]; exact hle

/-! non-vacuity: the cell `ia = 5, id = 3, ie = 6` (first cell of rows (5,1), columns (3,3)): start 3 -/
example : ∃ v, walk 5 3 (6 - 5 - 3) (startCell 5 3 6) (1 / 2 : ℝ) (9 / 10) [1 / 3] = .ok v ∧
    canReach 5 3 (6 - 5 - 3) (startCell 5 3 6) v = true :=
  rcont2_walk_terminates 5 3 6 (1 / 2) (9 / 10) (1 / 3) [] (by norm_num) (by norm_num) (by norm_num) (by norm_num)
    (by norm_num) (by norm_num) (by norm_num)

/-- the unrepaired starting value `ia * (size_t)(id/ie + 0.5)`: for rows (5,1) and columns (3,3)
the very first cell starts at `nlm = 5 > id = 3` and reads `fact_[id - nlm]` out of bounds, for
every choice.  On the real code: seed 39 returns the table `5 0 / 2^64-2 3`
(corpus/C18/rcont2-cast.txt). -/
theorem rcont2_unrepaired_witness (picks : List (List Int)) :
    rcont2Unrepaired [5, 1] [3, 3] picks = .error .ub := by
  simp [rcont2Unrepaired, rcont2With, rowsLoop, rowLoop, startCellUnrepaired, factReadsOk]

/-! non-vacuity: tables are produced, several values of a cell are reachable -/
example : rcont2 [5, 1] [3, 3] [[3]] = .ok [[3, 2], [0, 1]] := by decide
example : rcont2 [5, 1] [3, 3] [[2]] = .ok [[2, 3], [1, 0]] := by decide
example : rcont2 [5, 1] [3, 3] [[4]] = .error .unreachable := by decide
example : rcont2 [4, 6, 5] [7, 8] [[2], [3]] = .ok [[2, 2], [3, 3], [2, 3]] := by decide
example : rcont2 [0, 0] [0, 0] [] = .ok [[0, 0], [0, 0]] := by decide

/-! ## weighted picks follow the weights (given a uniform draw) — over the reals -/

/-- the weighted `pickOne` overloads return the element at the position `weightedIndex` chooses,
for every draw `u` (any scalar type, even NaN), provided there is one weight per element -/
theorem weighted_pick_is_indexed {α : Type} [Scalar α] {τ : Type} (v : List τ) (w : List α) (replace : Bool) (u : α)
    (hv : v ≠ []) (hw : w.length = v.length) :
    ∃ pos e, pos < v.length ∧ v[pos]? = some e ∧ weightedIndex v.length w u = .ok pos ∧
      pickOneW v w replace u = .ok (e, if replace then v else swapPop v pos, if replace then w else swapPop w pos) ∧
      (replace = false → v.Perm (e :: swapPop v pos)) := by
  obtain ⟨pos, e, h1, h2, h3, h4⟩ := pickOneW_ok hv hw replace u
  exact ⟨pos, e, h1, h2, h3, h4, fun _ => swapPop_perm h2⟩

/-- a weighted pick without replacement removes the picked element *together with its weight*:
the remaining (element, weight) pairs are the original ones minus the picked pair -/
theorem weighted_pick_keeps_weights_attached {α : Type} [Scalar α] {τ : Type} (v : List τ) (w : List α) (u : α)
    (hv : v ≠ []) (hw : w.length = v.length) :
    ∃ e we v' w', pickOneW v w false u = .ok (e, v', w') ∧ (v.zip w).Perm ((e, we) :: v'.zip w') := by
  obtain ⟨pos, e, hlt, hget, _, hpick⟩ := pickOneW_ok hv hw false u
  have hlw : pos < w.length := by omega
  refine ⟨e, w[pos], swapPop v pos, swapPop w pos, by simpa using hpick, ?_⟩
  have hz : (v.zip w)[pos]? = some (e, w[pos]) := by
    rw [List.getElem?_zip_eq_some]
    exact ⟨hget, List.getElem?_eq_getElem hlw⟩
  have := swapPop_perm hz
  rwa [swapPop_zip v w pos hw.symm] at this

/-- `weighted_pick_law`: for non-negative weights `w = pre ++ x :: post` with positive sum `S` and a
uniform draw `u ∈ [0,1)`, the position of `x` is picked exactly when
`Σpre / S ≤ u < (Σpre + x) / S`: the set `{u | pick u = i}` is an interval of length `wᵢ / Σw` -/
theorem weighted_pick_law (pre : List ℝ) (x : ℝ) (post : List ℝ) (u : ℝ)
    (hw : ∀ y ∈ pre ++ x :: post, 0 ≤ y) (hS : 0 < (pre ++ x :: post).sum) (hu0 : 0 ≤ u) (hu1 : u < 1) :
    weightedIndex (pre ++ x :: post).length (pre ++ x :: post) u = .ok pre.length ↔
      pre.sum / (pre ++ x :: post).sum ≤ u ∧ u < (pre.sum + x) / (pre ++ x :: post).sum :=
  weightedIndex_law pre x post u hw hS hu0 hu1

/-- the length of that interval is the normalised weight -/
theorem weighted_pick_interval_length (pre : List ℝ) (x : ℝ) (post : List ℝ) :
    (pre.sum + x) / (pre ++ x :: post).sum - pre.sum / (pre ++ x :: post).sum = x / (pre ++ x :: post).sum := by
  rw [← sub_div]; congr 1; ring

/-- `weighted_pick_support`: under the same hypotheses a picked position has positive weight -/
theorem weighted_pick_support (pre : List ℝ) (x : ℝ) (post : List ℝ) (u : ℝ)
    (hw : ∀ y ∈ pre ++ x :: post, 0 ≤ y) (hS : 0 < (pre ++ x :: post).sum) (hu0 : 0 ≤ u) (hu1 : u < 1)
    (h : weightedIndex (pre ++ x :: post).length (pre ++ x :: post) u = .ok pre.length) : 0 < x := by
  obtain ⟨h1, h2⟩ := (weighted_pick_law pre x post u hw hS hu0 hu1).mp h
  have := lt_of_le_of_lt h1 h2
  rw [div_lt_div_iff_of_pos_right hS] at this
  linarith

/-- … and for every draw whatsoever some position `< n` is picked (the default is the last one) -/
theorem weighted_pick_total {α : Type} [Scalar α] (w : List α) (u : α) (hw : w ≠ []) :
    ∃ pos, weightedIndex w.length w u = .ok pos ∧ pos < w.length :=
  weightedIndex_ok (List.length_pos_iff.mpr hw) rfl u

/-! ### the law as an executable predicate: what the driver evaluates on the implementation's
recorded draws (`FAIL:weighted_pick_law`, `FAIL:weighted_sample_law`, `FAIL:weighted_sample_norepl_law`) -/

/-- `inWeightInterval w u i` says: `Σ_{j<i} wⱼ / Σw ≤ u < Σ_{j≤i} wⱼ / Σw` -/
theorem inWeightInterval_spec (w : List ℝ) (u : ℝ) (i : Nat) (hi : i < w.length) :
    inWeightInterval w u i = true ↔ (w.take i).sum / w.sum ≤ u ∧ u < (w.take (i + 1)).sum / w.sum :=
  inWeightInterval_iff w u i hi

/-- `weighted_pick_law` in predicate form: for non-negative weights with a positive total and a
uniform draw `u ∈ [0,1)`, position `i` is chosen iff the weight interval of `i` contains `u` -/
theorem weighted_pick_law_interval (w : List ℝ) (u : ℝ) (i : Nat) (hi : i < w.length)
    (hw : weightsOk w = true) (hu0 : 0 ≤ u) (hu1 : u < 1) :
    weightedIndex w.length w u = .ok i ↔ inWeightInterval w u i = true := by
  obtain ⟨h1, h2⟩ := (weightsOk_iff w).mp hw
  exact weightedIndex_iff_interval w u i hi h1 h2 hu0 hu1

/-- the weight intervals partition `[0,1)`: every draw lies in the interval of exactly one position
(so "the element whose weight interval contains the draw" is well defined) -/
theorem weight_intervals_partition (w : List ℝ) (u : ℝ) (hw : weightsOk w = true) (hu0 : 0 ≤ u) (hu1 : u < 1) :
    ∃ i, i < w.length ∧ inWeightInterval w u i = true ∧ ∀ j, inWeightInterval w u j = true → j = i := by
  obtain ⟨h1, h2⟩ := (weightsOk_iff w).mp hw
  have hne : w ≠ [] := by intro h; subst h; simp at h2
  obtain ⟨i, hi, hlt⟩ := weighted_pick_total w u hne
  refine ⟨i, hlt, (weightedIndex_iff_interval w u i hlt h1 h2 hu0 hu1).mp hi, ?_⟩
  intro j hj
  have hjl := inWeightInterval_lt_length w u j hj
  have := (weightedIndex_iff_interval w u j hjl h1 h2 hu0 hu1).mpr hj
  rw [hi] at this
  exact (Except.ok.inj this).symm

/-- both weighted `pickOne` overloads follow the weights: the element returned is one whose weight
interval contains the draw -/
theorem weighted_pick_follows_weights {τ : Type} [BEq τ] [LawfulBEq τ] (v : List τ) (w : List ℝ) (replace : Bool) (u : ℝ)
    (hv : v ≠ []) (hwl : w.length = v.length) (hw : weightsOk w = true) (hu0 : 0 ≤ u) (hu1 : u < 1) :
    (∃ e v' w', pickOneW v w replace u = .ok (e, v', w') ∧ lawElem v w u e = true) ∧
    (∃ e, pickOneWConst v w u = .ok e ∧ lawElem v w u e = true) := by
  obtain ⟨h1, h2⟩ := (weightsOk_iff w).mp hw
  refine ⟨pickOneW_law v w replace u hv hwl h1 h2 hu0 hu1, ?_⟩
  obtain ⟨e, v', w', hp, hl⟩ := pickOneW_law v w true u hv hwl h1 h2 hu0 hu1
  exact ⟨e, by simp [pickOneWConst, hp], hl⟩

/-- `weighted_sample_law`: every element of a weighted sample WITH replacement is the element whose
weight interval (normalised by `Σw`) contains its own uniform draw — for every sample size `k`,
shorter than, equal to or longer than the source -/
theorem weighted_sample_law {τ : Type} [BEq τ] [LawfulBEq τ] (vin : List τ) (w : List ℝ) (k : Nat) (draws : List ℝ)
    (hwl : w.length = vin.length) (hw : weightsOk w = true) (hk : k ≤ draws.length)
    (hu : ∀ u ∈ draws, 0 ≤ u ∧ u < 1) :
    ∃ out, getSampleW vin w k true draws = .ok out ∧ out.length = k ∧
      lawSampleRepl vin w (draws.take k) out = true := by
  obtain ⟨h1, h2⟩ := (weightsOk_iff w).mp hw
  have hne : vin ≠ [] := by
    intro h; subst h
    have : w = [] := List.length_eq_zero_iff.mp (by simpa using hwl)
    subst this; simp at h2
  obtain ⟨out, ho⟩ := sampleWRepl_ok w hwl hne k draws hk
  have hlen := (sampleWRepl_mem _ w k draws out ho).1
  exact ⟨out, by simp [getSampleW, ho], hlen, sampleWRepl_law vin w hwl h1 h2 k draws out hk hu ho⟩

/-- `weighted_sample_norepl_law`: the same WITHOUT replacement — each element is the one whose
interval among the elements still present (with their own weights) contains its draw — as long as
the sample is not larger than the number of positive weights (beyond that the code divides 0/0 and
falls back to the last remaining element) -/
theorem weighted_sample_norepl_law {τ : Type} [BEq τ] [LawfulBEq τ] (vin : List τ) (w : List ℝ) (k : Nat) (draws : List ℝ)
    (hwl : w.length = vin.length) (hw : ∀ y ∈ w, 0 ≤ y) (hkp : k ≤ nPositive w) (hk : k ≤ draws.length)
    (hu : ∀ u ∈ draws, 0 ≤ u ∧ u < 1) :
    ∃ out, getSampleW vin w k false draws = .ok out ∧ lawSampleNoRepl (draws.take k) out vin w = true := by
  have hkl : k ≤ vin.length := by
    have : nPositive w ≤ w.length := List.length_filter_le _ _
    omega
  obtain ⟨ps, hps, hlaw⟩ := pickPositionsNoRepl_law k (List.range vin.length) w draws (by simp [hwl]) hw hkp hk hu
  obtain ⟨ps', hps', _, hsub⟩ := pickPositionsNoRepl_ok k (List.range vin.length) w draws (by simp [hwl]) (by simpa using hkl) hk
  rw [hps] at hps'
  have hpe : ps' = ps := (Except.ok.inj hps').symm
  subst hpe
  have hlt : ∀ i ∈ ps', i < vin.length := fun i hi => List.mem_range.mp (hsub.subset hi)
  obtain ⟨out, ho, _⟩ := selectBy_ok hlt
  refine ⟨out, ?_, ?_⟩
  · have : ¬ vin.length < k := by omega
    simp [getSampleW, this, hps, ho]
  · cases hv : vin with
    | nil =>
      subst hv
      have hk0 : k = 0 := by simpa using hkl
      subst hk0
      have : ps' = [] := by
        unfold pickPositionsNoRepl at hps; exact (Except.ok.inj hps).symm
      subst this
      simp only [selectBy, Except.ok.injEq] at ho; subst ho
      simp [lawSampleNoRepl]
    | cons a rest =>
      have hmap := lawSampleNoRepl_map (fun p => vin[p]?.getD a) (draws.take k) ps' (List.range vin.length) w hlaw
      rw [range_map_getD a, ← selectBy_eq_map a ps' out ho] at hmap
      rw [← hv]; exact hmap

/-! non-vacuity: weights 1, 3 (not normalised): `u = 0.2` lies in `[0, 1/4)`, `u = 0.5` in `[1/4, 1)`;
a sampler that compared `u` with the un-normalised cumulative sums `1, 4` would return the first
element for both draws and fail the predicate on the second -/
example : inWeightInterval ([1, 3] : List ℝ) (1 / 5) 0 = true ∧ inWeightInterval ([1, 3] : List ℝ) (1 / 2) 1 = true
    ∧ inWeightInterval ([1, 3] : List ℝ) (1 / 2) 0 = false := by
  refine ⟨?_, ?_, ?_⟩
  · rw [inWeightInterval_spec _ _ _ (by simp)]; norm_num
  · rw [inWeightInterval_spec _ _ _ (by simp)]; norm_num
  · rw [Bool.eq_false_iff]; intro h
    rw [inWeightInterval_spec _ _ _ (by simp)] at h; norm_num at h
example : weightsOk ([1, 3] : List ℝ) = true := (weightsOk_iff _).mpr ⟨by simp, by norm_num⟩
example : ∃ out, getSampleW [10, 20] ([1, 3] : List ℝ) 3 true [1 / 5, 1 / 2, 9 / 10] = .ok out ∧ out.length = 3 ∧
    lawSampleRepl [10, 20] ([1, 3] : List ℝ) [1 / 5, 1 / 2, 9 / 10] out = true :=
  weighted_sample_law [10, 20] [1, 3] 3 _ rfl ((weightsOk_iff _).mpr ⟨by simp, by norm_num⟩) (by simp)
    (by intro u hu; simp only [List.mem_cons, List.not_mem_nil, or_false] at hu; rcases hu with rfl | rfl | rfl <;> norm_num)
/-- the sample `10, 10` for the draws `0.2, 0.5` (what a pick from the un-normalised cumulative sums
returns) does not satisfy the predicate -/
example : lawSampleRepl [10, 20] ([1, 3] : List ℝ) [1 / 5, 1 / 2] [10, 10] = false := by
  rw [Bool.eq_false_iff]; intro h
  simp only [lawSampleRepl, Bool.and_eq_true, lawElem, List.any_eq_true, List.mem_range] at h
  obtain ⟨_, ⟨i, hi, h2⟩, _⟩ := h
  simp only [List.length_cons, List.length_nil] at hi
  have hi' : i = 0 ∨ i = 1 := by omega
  rcases hi' with rfl | rfl
  · rw [inWeightInterval_spec _ _ _ (by simp)] at h2; norm_num at h2
  · simp at h2

/-- `pickFromCumSum` on a cumulative vector `c = pre ++ x :: post`: the position of `x` is returned
iff every earlier entry is `< u` and (`x` is the last entry or `u ≤ x`).  For a non-decreasing `c`
this is the interval `(c_{i-1}, c_i]` (closed at 0 for `i = 0`, open-ended for the last index), of
length `c_i - c_{i-1}` within `[0,1)` when the last entry is 1. -/
theorem cumsum_pick_law (pre : List ℝ) (x : ℝ) (post : List ℝ) (u : ℝ) :
    pickFromCumSum (pre ++ x :: post) u = .ok pre.length ↔ (∀ y ∈ pre, y < u) ∧ (post = [] ∨ u ≤ x) :=
  pickFromCumSum_decomp pre x post u

/-- the same as the executable predicate the driver evaluates on the implementation's recorded
draw (`FAIL:cumsum_pick_law`) -/
theorem cumsum_pick_law_pred (w : List ℝ) (u : ℝ) (p : Nat) (hp : p < w.length) :
    pickFromCumSum w u = .ok p ↔ cumSumPickOk w u p = true := pickFromCumSum_iff_ok w u p hp

/-- for a non-decreasing cumulative vector "every earlier entry" is "the previous entry" -/
theorem cumsum_pick_law_sorted (pre : List ℝ) (a x : ℝ) (post : List ℝ) (u : ℝ)
    (hs : (pre ++ [a]).Pairwise (· ≤ ·)) :
    pickFromCumSum ((pre ++ [a]) ++ x :: post) u = .ok (pre.length + 1) ↔ a < u ∧ (post = [] ∨ u ≤ x) := by
  have := cumsum_pick_law (pre ++ [a]) x post u
  simp only [List.length_append, List.length_singleton] at this
  rw [this]
  constructor
  · rintro ⟨h1, h2⟩; exact ⟨h1 a (by simp), h2⟩
  · rintro ⟨h1, h2⟩
    refine ⟨?_, h2⟩
    intro y hy
    rcases List.mem_append.mp hy with hy | hy
    · have := (List.pairwise_append.mp hs).2.2 y hy a (by simp)
      linarith
    · simp at hy; subst hy; exact h1

/-- support of `pickFromCumSum`: a returned position that is not the last one carries a positive
step of the cumulative function, unless `u = 0` hit a leading zero (an event of probability
`2^-64` for `std::uniform_real_distribution`; witness below) -/
theorem cumsum_pick_support (pre : List ℝ) (a x : ℝ) (post : List ℝ) (u : ℝ) (hpost : post ≠ [])
    (hs : (pre ++ [a]).Pairwise (· ≤ ·))
    (h : pickFromCumSum ((pre ++ [a]) ++ x :: post) u = .ok (pre.length + 1)) : a < x := by
  obtain ⟨h1, h2⟩ := (cumsum_pick_law_sorted pre a x post u hs).mp h
  rcases h2 with h2 | h2
  · exact absurd h2 hpost
  · linarith

theorem cumsum_pick_support_u0_witness : pickFromCumSum ([0, 1] : List ℝ) 0 = .ok 0 := by
  have := (cumsum_pick_law [] 0 [1] 0).mpr ⟨by simp, Or.inr (le_refl _)⟩
  simpa using this

/-! ## multinomial draws by inverse cdf -/

/-- `multinomial_counts_sum`: for ALL draws, `randMultinomial(n, probs)` returns `n` states in
`0..probs.size()` (the last value being the code's "not found" state) — each the inverse-cdf image
of its own draw — and the counts of the states add up to `n` -/
theorem multinomial_counts_sum {α : Type} [Scalar α] (probs : List α) (n : Nat) (draws : List α) (hd : n ≤ draws.length)
    (hok : multinomialRaises probs n = false) :
    ∃ states, randMultinomial probs n draws = .ok states ∧ states.length = n ∧
      states = (draws.take n).map (multinomialState probs) ∧
      (∀ s ∈ states, s ≤ probs.length) ∧ (counts probs.length states).sum = n ∧
      countsOk probs.length n states = true := by
  have hle : ∀ s ∈ (draws.take n).map (multinomialState probs), s ≤ probs.length := by
    intro s hs; obtain ⟨r, _, rfl⟩ := List.mem_map.mp hs; exact multinomialState_le probs r
  have hlen : ((draws.take n).map (multinomialState probs)).length = n := by simp [hd]
  have hsum := counts_sum probs.length _ hle
  rw [hlen] at hsum
  refine ⟨_, randMultinomial_eq probs n draws hok hd, hlen, rfl, hle, hsum, ?_⟩
  simp only [countsOk, Bool.and_eq_true, List.all_eq_true, decide_eq_true_eq, beq_iff_eq]
  exact ⟨hle, hsum⟩

/-- the law of one state given its uniform draw `r` (non-negative `probs = pre ++ x :: post` with
positive sum `S`): state `pre.length` iff `Σpre / S < r ≤ (Σpre + x) / S` (closed at 0 for the first
state): an interval of length `x / S` -/
theorem multinomial_state_law (pre : List ℝ) (x : ℝ) (post : List ℝ) (r : ℝ)
    (hw : ∀ y ∈ pre ++ x :: post, 0 ≤ y) (hS : 0 < (pre ++ x :: post).sum) :
    multinomialState (pre ++ x :: post) r = pre.length ↔
      (pre = [] ∨ pre.sum / (pre ++ x :: post).sum < r) ∧ r ≤ (pre.sum + x) / (pre ++ x :: post).sum :=
  multinomialState_decomp pre x post r hw hS

/-- the executable form (`FAIL:multinomial_state_law` in the driver): for ALL draws and ALL
`probs`, every state `randMultinomial` returns lies on the step of the running sums of
`probs/Σprobs` on which its own draw falls (`c[j-1] < r ≤ c[j]`; the "not found" state above all) -/
theorem multinomial_state_law_pred (probs : List ℝ) (n : Nat) (draws : List ℝ) (hd : n ≤ draws.length)
    (hok : multinomialRaises probs n = false) :
    ∃ states, randMultinomial probs n draws = .ok states ∧
      List.Forall₂ (fun r s => multinomialLawOk probs r s = true) (draws.take n) states := by
  refine ⟨_, randMultinomial_eq probs n draws hok hd, ?_⟩
  rw [List.forall₂_map_right_iff]
  exact List.forall₂_same.mpr (fun r _ => multinomialState_law probs r)

/-- without a positive sum the probabilities cannot be scaled: a non-empty request is refused
(after the `fix:` of audit round 2), whatever the draws — also for an empty `probs` -/
theorem multinomial_refuses_nonpositive_sum {α : Type} [Scalar α] (probs : List α) (n : Nat) (draws : List α)
    (h : multinomialRaises probs n = true) : randMultinomial probs n draws = .error .bpp := by
  simp [randMultinomial, h]

/-- the documented range, at full strength: for non-negative `probs` with a positive sum and draws
`≤ 1` (exact arithmetic) every returned state is one of `0 … x-1` -/
theorem multinomial_states_in_range (probs : List ℝ) (n : Nat) (draws : List ℝ) (hd : n ≤ draws.length)
    (hw : ∀ y ∈ probs, 0 ≤ y) (hS : 0 < probs.sum) (hr : ∀ r ∈ draws, r ≤ 1) :
    ∃ states, randMultinomial probs n draws = .ok states ∧ states.length = n ∧ ∀ s ∈ states, s < probs.length := by
  have hok : multinomialRaises probs n = false := by
    simp only [multinomialRaises, sumFromZero_real, ScalarReal.ofInt_eq, Int.cast_zero, Bool.and_eq_false_iff,
      Bool.not_eq_false', ScalarReal.ltb_iff]
    exact Or.inr hS
  refine ⟨_, randMultinomial_eq probs n draws hok hd, by simp [hd], ?_⟩
  intro s hs
  obtain ⟨r, hrm, rfl⟩ := List.mem_map.mp hs
  exact multinomialState_lt probs r hw hS (hr r (List.mem_of_mem_take hrm))

/-- before the repair: all-zero probabilities gave the out-of-range state `probs.size()`
(`multinom 4 0 0 0` answered `3 3 3 3` on the unchanged tree; corpus/C18/multinomial-zero-sum.txt).
Over the reals `0/0 = 0`, so the witness uses a draw `> 0`; in floating point `0/0` is NaN and every
draw gives this state. -/
theorem multinomial_unrepaired_witness :
    randMultinomialUnrepaired ([0, 0, 0] : List ℝ) 1 [1 / 2] = .ok [3] := by
  have h : multinomialState ([0, 0, 0] : List ℝ) (1 / 2) = 3 := by
    simp only [multinomialState, sumFromZero_real, invCdf, sadd, sdiv, ScalarReal.ofInt_eq, ScalarReal.leb_iff]
    norm_num
  simp only [randMultinomialUnrepaired, multinomialLoop, h]

/-- with a draw `r ≤ 1` the "not found" state never occurs (exact arithmetic) -/
theorem multinomial_state_range (probs : List ℝ) (r : ℝ) (hw : ∀ y ∈ probs, 0 ≤ y) (hS : 0 < probs.sum) (hr : r ≤ 1) :
    multinomialState probs r < probs.length := multinomialState_lt probs r hw hS hr

/-! ## the discrete draw of a distribution (`AbstractDiscreteDistribution::rand`) -/

/-- with `dist = pre ++ (c, p) :: post` (categories in ascending order, non-negative probabilities)
the category `c` is returned whenever `Σpre < r ≤ Σpre + p` (closed at 0 for the first category) -/
theorem drand_law (pre : List (ℝ × ℝ)) (c p : ℝ) (post : List (ℝ × ℝ)) (r : ℝ)
    (hpre : ∀ y ∈ pre, 0 ≤ y.2) (hlo : pre = [] ∨ (pre.map (·.2)).sum < r) (hhi : r ≤ (pre.map (·.2)).sum + p) :
    dRand (pre ++ (c, p) :: post) r = c := by
  unfold dRand
  apply dRandFrom_decomp r c p post pre _ hpre
  · simpa using hlo
  · simpa using hhi

/-- the executable form (`FAIL:drand_law` in the driver): the category returned is the one on
whose step of the cumulative probabilities the draw falls -/
theorem drand_law_pred (dist : List (ℝ × ℝ)) (r : ℝ) (hne : dist ≠ []) (hr : r ≤ (dist.map (·.2)).sum) :
    dRandLawOk dist r (dRand dist r) = true := dRand_law dist r hr hne

/-- the "can't be reached" `return -1.` is not reached when the draw is at most the total mass:
the result is one of the categories -/
theorem drand_member (dist : List (ℝ × ℝ)) (r : ℝ) (hne : dist ≠ []) (hr : r ≤ (dist.map (·.2)).sum) :
    dRand dist r ∈ dist.map (·.1) := by
  unfold dRand
  apply dRandFrom_mem r dist _ hne
  simpa using hr

/-! ## sampling a hidden Markov chain (`AbstractHmmTransitionMatrix::sample`) -/

/-- one step: with a non-negative row `p = pre ++ x :: post` and a draw `u ≥ 0`, state `pre.length` is
chosen iff `Σpre ≤ u < Σpre + x` — an interval of length `x` -/
theorem hmm_step_law (pre : List ℝ) (x : ℝ) (post : List ℝ) (u : ℝ) (dflt : Option Nat)
    (hpre : ∀ y ∈ pre, 0 ≤ y) (hu : 0 ≤ u) (hfound : u < (pre ++ x :: post).sum) :
    hmmState (pre ++ x :: post) u dflt = .ok pre.length ↔ pre.sum ≤ u ∧ u < pre.sum + x := by
  have key := subtractSearch_decomp x post pre u 0 hpre hu
  simp only [Nat.zero_add] at key
  unfold hmmState
  cases h : subtractSearch u (pre ++ x :: post) 0 with
  | some i => rw [← key, h]; simp
  | none =>
    have := subtractSearch_none _ u 0 hu h
    linarith

/-- the chain never reads the uninitialised `stb`: with probability rows (sum 1), a probability
vector `eq`, and draws in `[0,1)`, `sample(size)` returns `size` states, all `< n` -/
theorem hmm_sample_defined (n : Nat) (eq : List ℝ) (rows : List (List ℝ)) (heq : eq.length = n) (heqs : eq.sum = 1)
    (hrows : rows.length = n) (hrow : ∀ r ∈ rows, r.length = n ∧ r.sum = 1)
    (size : Nat) (draws : List ℝ) (hd : size ≤ draws.length) (hu : ∀ u ∈ draws, 0 ≤ u ∧ u < 1) :
    ∃ states, hmmSample eq rows size draws = .ok states ∧ states.length = size ∧ ∀ s ∈ states, s < n := by
  have chain : ∀ (k : Nat) (us : List ℝ) (sta : Nat), sta < n → k ≤ us.length → (∀ u ∈ us, 0 ≤ u ∧ u < 1) →
      ∃ l, hmmChain rows sta k us = .ok l ∧ l.length = k ∧ ∀ s ∈ l, s < n := by
    intro k
    induction k with
    | zero => intro us sta _ _ _; exact ⟨[], by cases us <;> rfl, rfl, by simp⟩
    | succ k ih =>
      intro us sta hsta hk hus
      cases us with
      | nil => simp at hk
      | cons u us =>
        have hu1 := hus u List.mem_cons_self
        have hlt : sta < rows.length := by omega
        have hr := hrow rows[sta] (List.getElem_mem hlt)
        obtain ⟨stb, hstb, hlt2⟩ := hmmState_defined rows[sta] u hr.2 hu1.1 hu1.2 none
        obtain ⟨l, hl, hlen, hmem⟩ := ih us stb (by omega) (by simpa using hk) (fun x hx => hus x (List.mem_cons_of_mem _ hx))
        refine ⟨stb :: l, ?_, by simp [hlen], ?_⟩
        · simp [hmmChain, List.getElem?_eq_getElem hlt, hstb, hl]
        · intro s hs
          rcases List.mem_cons.mp hs with rfl | hs
          · omega
          · exact hmem s hs
  cases size with
  | zero => exact ⟨[], by cases draws <;> rfl, rfl, by simp⟩
  | succ k =>
    cases draws with
    | nil => simp at hd
    | cons u us =>
      have hu1 := hu u List.mem_cons_self
      obtain ⟨sta, hsta, hlt⟩ := hmmState_defined eq u heqs hu1.1 hu1.2 (some 0)
      obtain ⟨l, hl, hlen, hmem⟩ := chain k us sta (by omega) (by simpa using hd) (fun x hx => hu x (List.mem_cons_of_mem _ hx))
      refine ⟨sta :: l, ?_, by simp [hlen], ?_⟩
      · simp [hmmSample, hsta, hl]
      · intro s hs
        rcases List.mem_cons.mp hs with rfl | hs
        · omega
        · exact hmem s hs

/-- the executable form of the chain's law (`FAIL:hmm_sample_law` in the driver), for every scalar
type, all draws, all matrices: the first state lies on the step of its draw within the equilibrium
frequencies (or is the initial value 0 when no step is found), each following state on the step of
its own draw within the transition row of its predecessor (`hmmStepOk`; for a non-negative row this
is `Σ_{j<i} p_j ≤ u < Σ_{j≤i} p_j`, `hmm_step_law`) -/
theorem hmm_sample_law {α : Type} [Scalar α] (eq : List α) (rows : List (List α)) (size : Nat) (draws : List α) (l : List Nat)
    (h : hmmSample eq rows size draws = .ok l) : hmmSampleLawOk eq rows (draws.take size) l = true :=
  hmmSample_law eq rows size draws l h

/-- the step predicate is the subtractive search of the code -/
theorem hmm_step_pred {α : Type} [Scalar α] (p : List α) (u : α) (i : Nat) :
    subtractSearch u p 0 = some i ↔ hmmStepOk p u i = true := by
  have := subtractSearch_iff_stepOk p u 0 i
  simpa using this

/-- in floating point a row can sum to slightly less than 1; a draw above the sum then leaves `stb`
uninitialised (the model's `ub`): a row `[0.5, 0.25]` and the draw `0.9` -/
theorem hmm_uninitialised_witness : hmmChain [[(1 : ℝ) / 2, 1 / 4], [1 / 2, 1 / 2]] 0 1 [9 / 10] = .error .ub := by
  simp only [hmmChain, List.getElem?_cons_zero, hmmState, subtractSearch, ssub, ScalarReal.ofInt_eq, Int.cast_zero, ScalarReal.ltb_iff]
  norm_num

/-! ## the permutation p-value of `ContingencyTableTest` -/

/-- `pvalue_range`, about the transcribed Monte-Carlo loop of the constructor
(`count = 0; for (k = 0; k < nbPermutations; ++k) { …rcont2()…; if (stat_rep >= statistic_) count++; }
pvalue_ = (count + 1) / (nbPermutations + 1)`): for every observed statistic, every number of
permutations `> 0` and every stream of replicate statistics, the loop ends with `count ≤ nbPermutations`,
hence the p-value lies in `(0, 1]` -/
-- Scope: the Monte-Carlo branch only.  The constructor takes it for `nbPermutations > 0`; the DEFAULT
-- `nbPermutations = 0` computes `1 - pChisq(statistic, df)` instead (ContingencyTableTest.cpp:100-108),
-- for which there is no theorem (C08's kernel; the range is checked on executions only).  The
-- statement below also holds of `nb = 0` (`mcPValue stat 0 sims = .ok 1`), a case the code never
-- runs through this loop.
theorem pvalue_range (stat : ℝ) (nb : Nat) (sims : List ℝ) (p : ℝ) (h : mcPValue stat nb sims = .ok p) :
    0 < p ∧ p ≤ 1 := by
  unfold mcPValue mcPValueWith loopIterations at h
  simp only [if_true] at h
  cases hc : mcCount stat nb sims 0 with
  | error e => rw [hc] at h; cases h
  | ok count =>
    rw [hc] at h
    simp only [Except.ok.injEq] at h; subst h
    have := (mcCount_bounds stat nb sims 0 count hc).2
    exact pvalueOfCount_range count nb (by omega)

/-- the loop draws exactly `nbPermutations` tables (it consumes that many statistics of the stream,
whatever follows them) and its result is the filter form `permPValue` on them -/
theorem pvalue_loop_draws_nb_tables {α : Type} [Scalar α] (stat : α) (nb : Nat) (sims : List α) :
    (nb ≤ sims.length → mcPValue stat nb sims = .ok (permPValue stat (sims.take nb))) ∧
    (sims.length < nb → mcPValue stat nb sims = .error .starved) := by
  constructor
  · intro h
    unfold mcPValue mcPValueWith loopIterations permPValue
    simp only [if_true, mcCount_eq stat nb sims 0 h, Nat.zero_add, List.length_take, Nat.min_eq_left h]
  · intro h
    unfold mcPValue mcPValueWith loopIterations
    simp only [if_true, mcCount_starved stat nb sims 0 h]

/-- `pvalue_range` in the filter form: whatever the simulated statistics,
`(count+1)/(nbPermutations+1)` lies in `(0, 1]` -/
theorem pvalue_range_of_sims (stat : ℝ) (sims : List ℝ) :
    0 < permPValue stat sims ∧ permPValue stat sims ≤ 1 := by
  unfold permPValue
  exact pvalueOfCount_range _ _ (countGe_le stat sims)

/-- the bound of the loop matters: with `k <= nbPermutations` (one table too many; seeded change
C18-b2) a table whose statistic no replicate undercuts gets `p = (nb+2)/(nb+1) > 1` -/
theorem pvalue_loop_le_witness : mcPValueWith "<=" (0 : ℝ) 1 [1, 1] = .ok (3 / 2) := by
  have h : mcCount (0 : ℝ) 2 [1, 1] 0 = .ok 2 := by
    rw [mcCount_eq _ _ _ _ (by simp)]; simp [countGe, Scalar.geb]
  have e : loopIterations "<=" 1 = some 2 := by decide
  simp only [mcPValueWith, e, h, pvalueOfCount, ScalarReal.ofInt_eq, sdiv]
  norm_num

/-- the source has `k = 0; k < nbPermutations` and `count = 0` (regenerated on every run) -/
theorem pvalue_loop_source :
    ("ContingencyTableTest.loop", "<") ∈ Generated.comparisons ∧
    ("ContingencyTableTest.count", ">=") ∈ Generated.comparisons ∧
    ("ContingencyTableTest.pvalue=(count+1)/(nbPermutations+1)", "/") ∈ Generated.comparisons := by decide

/-! non-vacuity: two replicates, one of them at least the observed statistic: `p = 2/3` -/
example : mcPValue (2 : ℝ) 2 [1, 3, 7] = .ok (2 / 3) := by
  have h : mcCount (2 : ℝ) 2 [1, 3, 7] 0 = .ok 1 := by
    rw [mcCount_eq _ _ _ _ (by simp)]; simp [countGe, Scalar.geb]; norm_num
  have e : loopIterations "<" 2 = some 2 := by decide
  simp only [mcPValue, mcPValueWith, e, h, pvalueOfCount, ScalarReal.ofInt_eq, sdiv]
  norm_num

/-- replicates whose statistic ties with the observed one count (`>=`): if every simulated
statistic is at least the observed one the p-value is exactly 1 -/
theorem pvalue_all_ge (stat : ℝ) (sims : List ℝ) (h : ∀ s ∈ sims, stat ≤ s) : permPValue stat sims = 1 := by
  have hc : countGe stat sims = sims.length := by
    unfold countGe
    rw [List.filter_eq_self.mpr]
    intro s hs
    simpa [Scalar.geb] using h s hs
  unfold permPValue pvalueOfCount
  rw [hc]
  simp only [ScalarReal.ofInt_eq, sdiv]
  have : (((sims.length + 1 : Nat) : Int) : ℝ) ≠ 0 := by push_cast; positivity
  exact div_self this

/-- the relational form used on executions: any `count ≤ nb` gives a value in `(0, 1]` -/
theorem pvalue_range_of_count (count nb : Nat) (h : count ≤ nb) :
    0 < (pvalueOfCount count nb : ℝ) ∧ (pvalueOfCount count nb : ℝ) ≤ 1 := pvalueOfCount_range count nb h

/-! ## parameter conventions of the sampler wrappers (table regenerated from the sources) -/

/-- `wrapper_conventions` — a comparison of tables, not a statement about probability measures.
For every sampler wrapper found in RandomTools.h / RandomTools.cpp (`giveRandomNumberBetweenZeroAndEntry`,
`flipCoin`, `randGaussian`, `randGamma` (both), `randExponential`, `randBeta`; table regenerated from
the source on every run): the tagged tuple (family, canonical parameters, location) that the
hand-written table `stdLawS` assigns to "this std:: distribution with the argument expressions the
wrapper passes" equals — as real numbers, for ALL real parameter values (a variance non-negative) —
the tuple the hand-written table `libLawS` assigns to the wrapper's name.  `stdLawS` records the
parameter order of ISO C++ [rand.dist] (normal(mean, stddev), gamma(shape, scale), exponential(rate));
`libLawS` records what the library's own cumulative functions mean by the wrapper's parameter
names (`pNorm(x, mu, sigma)`, `pGamma(x, alpha, beta)` with `beta` a rate, …).  Both tables are
TRUSTED (`trusted_base`); nothing in Lean gives the tag `LawFam.exponential [r]` a mean of `1/r`.
What ties `libLawS` to the library is `libLaw_gamma_beta_is_rate` / `libLaw_norm_sigma_is_scale`
below (against C08's transcription of the cdfs) and, on executions, the KS tests.  Canonical
parametrisation: normal (mean, variance); exponential (rate); gamma (shape, rate); beta (α, β);
uniform (lo, hi); plus a location. -/
theorem wrapper_conventions : ∀ w ∈ Generated.wrappers,
    ∃ a b, stdLawS w.family w.args = some a ∧ libLawS w.name = some b ∧
      ∀ ρ : String → ℝ, (∀ n ∈ nonnegParams, 0 ≤ ρ n) → a.eval ρ = b.eval ρ := by
  intro w hw
  exact wrapperOk_sound (List.all_eq_true.mp wrappers_all_ok w hw)

/-- the same table comparison for each distribution class' `randC()` (Beta, Exponential, Gamma with
its offset, Gaussian, TruncatedExponential, Uniform): the tuple of the wrapper it calls, with the
arguments it passes and the shift it adds, equals the tuple the hand-written (trusted) table
`distLawS` records for the class' own `pProb`.  The rejection loop on the bounds and the
truncation point are not in the table. -/
theorem randC_conventions : ∀ r ∈ Generated.randCs,
    ∃ a b, randCLawS Generated.wrappers r = some a ∧ distLawS r.dist = some b ∧
      ∀ ρ : String → ℝ, (∀ n ∈ nonnegParams, 0 ≤ ρ n) → a.eval ρ = b.eval ρ := by
  intro r hr
  exact randCOk_sound (List.all_eq_true.mp randCs_all_ok r hr)

/-- semantic anchor of the hand-written table `libLawS` (1): in C08's transcription of the
library's own `pGamma(x, alpha, beta)` (`DistGuards.pGamma`, tied to the code by C08's check), `beta`
is a RATE — the cdf at `x` with rate `beta` is the unit-rate cdf at `beta · x` — for every kernel -/
theorem libLaw_gamma_beta_is_rate (K : DistGuards.Kernels ℝ) (x a b : ℝ) (hb : 0 ≤ b) :
    DistGuards.pGamma K x a b = DistGuards.pGamma K (b * x) a 1 := by
  have h1 : Scalar.ltb b (Scalar.zero : ℝ) = false := by simp [Scalar.zero]; exact hb
  have h2 : Scalar.ltb (1 : ℝ) (Scalar.zero : ℝ) = false := by simp [Scalar.zero]
  simp only [DistGuards.pGamma, h1, h2, Bool.false_eq_true, if_false, smul, one_mul]

/-- semantic anchor (2): in C08's transcription of `pNorm(x, mu, sigma)`, `mu` is a location and
`sigma` a scale (standard deviation, not variance): the cdf is the standard one at `(x - mu)/sigma` -/
theorem libLaw_norm_sigma_is_scale (ex tr : ℝ → ℝ) (x mu sigma : ℝ) :
    PNorm.pNorm3 ex tr x mu sigma = PNorm.pNorm ex tr ((x - mu) / sigma) := rfl

/-- every drawing wrapper the hand-written table knows is present in the regenerated table, and
every distribution family with a direct continuous draw -/
theorem wrapper_table_complete :
    ["giveRandomNumberBetweenZeroAndEntry/1", "flipCoin/1", "randGaussian/2", "randGamma/1", "randGamma/2",
      "randBeta/2", "randExponential/1"].all (fun n => Generated.wrappers.any (fun w => w.name == n)) = true ∧
    ["Beta", "Exponential", "Gamma", "Gaussian", "TruncatedExponential", "Uniform"].all
      (fun d => Generated.randCs.any (fun r => r.dist == d)) = true := by decide

/-- what the table says for two of them, spelled out: `UniformDiscreteDistribution::randC` draws
`U(0, max - min) + min`, which is the uniform law on `(min, max)` of its `pProb`; `Gamma…::randC`
draws `Gamma(alpha, rate beta) + offset` -/
example : randCLawS Generated.wrappers ⟨"Uniform", "giveRandomNumberBetweenZeroAndEntry/1", [.sub (.var "max") (.var "min")], .var "min"⟩
    = some ⟨.uniform, [.add (.lit 0 1) (.var "min"), .add (.sub (.var "max") (.var "min")) (.var "min")], Expr.zero⟩ := by decide
example : (LawS.norm ⟨.uniform, [.add (.lit 0 1) (.var "min"), .add (.sub (.var "max") (.var "min")) (.var "min")], Expr.zero⟩)
    = ⟨.uniform, [.var "min", .var "max"], Expr.zero⟩ := by decide

/-- which end of each interval is closed is decided by one comparison operator in the source; hitting
such an end point has probability about `2^-53` per draw, so no execution ties it.  The operators
are therefore regenerated from the sources on every run and must be the ones the model transcribes:
`prob < sumw[i]` (`searchLt`), `prob <= w[pos]` / `r <= cumprob` (`searchLe`, `invCdf`, `dRandFrom`),
`prob < 0` (`subtractSearch`), `stat_rep >= statistic_` (`countGe`), `vout.size() > vin.size()`. -/
theorem source_comparisons :
    Generated.comparisons =
      [("pickOne(v,w,replace)", "<"), ("pickOne(const v,const w)", "<"), ("pickFromCumSum", "<="),
       ("pickFromCumSum.loop", "<"), ("getSample.tooLong", ">"), ("getSampleW.tooLong", ">"),
       ("randMultinomial", "<="), ("AbstractDiscreteDistribution::rand", "<="), ("hmm.first", "<"),
       ("hmm.next", "<"), ("ContingencyTableTest.count", ">="), ("ContingencyTableTest.loop", "<"),
       ("ContingencyTableTest.pvalue=(count+1)/(nbPermutations+1)", "/")] := by decide

/-- the unrepaired sources (before `fix:` 54d504f, 5746c3e, 985f4b7): `randExponential(mean)` passed
the mean as the rate, `randGamma(alpha, beta)` the rate as the scale, and
`GaussianDiscreteDistribution::randC` the standard deviation as the variance -/
theorem wrapper_conventions_unrepaired_witness :
    wrapperOk ⟨"randExponential/1", ["mean"], .exponential, [.var "mean"]⟩ = false ∧
    wrapperOk ⟨"randGamma/2", ["alpha", "beta"], .gamma, [.var "alpha", .var "beta"]⟩ = false ∧
    randCOk Generated.wrappers ⟨"Gaussian", "randGaussian/2", [.var "mu", .var "sigma"], Expr.zero⟩ = false := by decide

/-- … and they really denote different laws: e.g. at `mean = 4` the rate was 4 instead of 1/4 -/
theorem randExponential_unrepaired_differs :
    (⟨.exponential, [.var "mean"], Expr.zero⟩ : LawS).eval (fun _ => 4) ≠ (⟨.exponential, [.div Expr.one (.var "mean")], Expr.zero⟩ : LawS).eval (fun _ => 4) := by
  simp [LawS.eval, Expr.eval, Expr.one]
  norm_num

end Bpp.C18
