import BppProofs.Lemmas.Rand
/-!
# C18 — random draws   (RandomTools, ContingencyTableGenerator, ContingencyTableTest, discrete rand)

Property theorems only.  Every theorem quantifies over ALL results of the primitive draws.
-/
namespace Bpp.C18
open Bpp Bpp.Rand

/-- emptiness is reported by exception: `pickOne` on an empty vector raises, whatever the draw -/
theorem empty_raises_pickOne {τ : Type} (replace : Bool) (pos : Nat) :
    pickOne ([] : List τ) replace pos = .error .empty := rfl

end Bpp.C18
