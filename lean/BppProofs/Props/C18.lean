import BppProofs.Lemmas.Rand
import BppProofs.Lemmas.RandRcont
/-!
# C18 — random draws   (RandomTools, ContingencyTableGenerator, ContingencyTableTest, discrete rand)

Property theorems only; helper lemmas are in `Lemmas/Rand.lean`.  The model (`BppModel/Rand.lean`)
takes the results of the primitive draws as an input; every theorem quantifies over ALL of them.
The contracts of the primitives are hypotheses where needed:
  * an integer draw with entry `n` is `< n`            (`std::uniform_int_distribution(0, n-1)`)
  * a uniform draw `u` with entry 1 has `0 ≤ u < 1`     (`std::uniform_real_distribution(0, 1)`)
  * `std::shuffle` leaves a permutation.
-/
namespace Bpp.C18
open Bpp Bpp.Rand

/-! ## picks and samples without weights -/

/-- `pickOne(v, replace)`: for every admissible draw the result is an element of `v`; with
replacement `v` is unchanged, without it exactly that one occurrence is removed -/
theorem pickOne_spec {τ : Type} (v : List τ) (replace : Bool) (pos : Nat) (hpos : pos < v.length) :
    ∃ e rest, pickOne v replace pos = .ok (e, rest) ∧ e ∈ v ∧
      (replace = true → rest = v) ∧ (replace = false → v.Perm (e :: rest)) := by
  obtain ⟨e, he, hp⟩ := pickOne_ok replace hpos
  refine ⟨e, _, hp, List.mem_of_getElem? he, ?_, ?_⟩
  · intro h; simp [h]
  · intro h; simp only [h, Bool.false_eq_true, if_false]; exact swapPop_perm he

/-- sampling without replacement (`std::shuffle` leaves any permutation `hat` of the positions):
the output is an injective selection of source positions — hence a sub-multiset of the source —
and a permutation of the source when the sizes match -/
theorem sample_norepl_distinct {τ : Type} (vin : List τ) (k : Nat) (draws hat : List Nat)
    (hhat : hat.Perm (List.range vin.length)) (hk : k ≤ vin.length) :
    ∃ out idx, getSample vin k false draws hat = .ok out ∧ out.length = k ∧
      idx.Nodup ∧ (∀ i ∈ idx, i < vin.length) ∧ List.Forall₂ (fun o i => vin[i]? = some o) out idx ∧
      out.Subperm vin ∧ (k = vin.length → out.Perm vin) := by
  have hnd : (hat.take k).Nodup := (List.take_sublist k hat).nodup (hhat.nodup_iff.mpr List.nodup_range)
  have hlt : ∀ i ∈ hat.take k, i < vin.length := fun i hi =>
    List.mem_range.mp (hhat.mem_iff.mp (List.mem_of_mem_take hi))
  obtain ⟨out, ho, hsel⟩ := selectBy_ok hlt
  have hlen : out.length = k := by
    rw [hsel.length, List.length_take, hhat.length_eq, List.length_range]; omega
  have hsub := hsel.subperm hnd hlt
  refine ⟨out, hat.take k, ?_, hlen, hnd, hlt, hsel, hsub, ?_⟩
  · have : ¬ vin.length < k := by omega
    simp [getSample, this, ho]
  · intro hkn; exact hsub.perm_of_length_le (by omega)

/-- the same for the weighted `getSample(vin, w, vout, false)`: whatever the uniform draws (even
NaN) and whatever the weights, as long as there is one weight per element -/
theorem sample_norepl_distinct_weighted {α : Type} [Scalar α] {τ : Type} (vin : List τ) (w : List α) (k : Nat)
    (draws : List α) (hw : w.length = vin.length) (hk : k ≤ vin.length) (hd : k ≤ draws.length) :
    ∃ out idx, getSampleW vin w k false draws = .ok out ∧ out.length = k ∧
      idx.Nodup ∧ (∀ i ∈ idx, i < vin.length) ∧ List.Forall₂ (fun o i => vin[i]? = some o) out idx ∧
      out.Subperm vin ∧ (k = vin.length → out.Perm vin) := by
  obtain ⟨ps, hps, hlen, hsub⟩ := pickPositionsNoRepl_ok k (List.range vin.length) w draws
    (by simp [hw]) (by simpa using hk) hd
  have hnd : ps.Nodup := subperm_nodup hsub List.nodup_range
  have hlt : ∀ i ∈ ps, i < vin.length := fun i hi => List.mem_range.mp (hsub.subset hi)
  obtain ⟨out, ho, hsel⟩ := selectBy_ok hlt
  have hol : out.length = k := by rw [hsel.length, hlen]
  have hs := hsel.subperm hnd hlt
  refine ⟨out, ps, ?_, hol, hnd, hlt, hsel, hs, ?_⟩
  · have : ¬ vin.length < k := by omega
    simp [getSampleW, this, hps, ho]
  · intro hkn; exact hs.perm_of_length_le (by omega)

/-- over-long requests without replacement are refused, whatever the draws -/
theorem sample_too_long_raises {α : Type} [Scalar α] {τ : Type} (vin : List τ) (w : List α) (k : Nat)
    (draws hat : List Nat) (udraws : List α) (hk : vin.length < k) :
    getSample vin k false draws hat = .error .index ∧ getSampleW vin w k false udraws = .error .index := by
  simp [getSample, getSampleW, hk]

/-- sampling with replacement returns only source elements — for every draw sequence on which
the code returns at all — and it does return when the draws respect the primitive's contract -/
theorem sample_repl_subset {τ : Type} (vin : List τ) (k : Nat) (draws hat : List Nat) :
    (∀ out, getSample vin k true draws hat = .ok out → out.length = k ∧ ∀ x ∈ out, x ∈ vin) ∧
    (k ≤ draws.length → (∀ d ∈ draws, d < vin.length) → ∃ out, getSample vin k true draws hat = .ok out) := by
  constructor
  · intro out h
    simp only [getSample, Bool.not_true, Bool.and_false, Bool.false_eq_true, if_false, if_true] at h
    exact sampleRepl_mem k draws out h
  · intro hk hd
    obtain ⟨out, ho, _, _⟩ := sampleRepl_ok (vin := vin) k draws hk hd
    exact ⟨out, by simp [getSample, ho]⟩

/-- emptiness is reported by exception, whatever the draws: every pick on an empty vector and
every non-empty sample with replacement from an empty vector raises `EmptyVectorException`
(`pickFromCumSum` only after `fix:` 57b79ce — see `pickFromCumSum_unrepaired_witness`) -/
theorem empty_raises {α : Type} [Scalar α] {τ : Type} (replace : Bool) (pos k : Nat) (draws hat : List Nat)
    (w : List α) (u : α) (us : List α) :
    pickOne ([] : List τ) replace pos = .error .empty ∧
    pickOneConst ([] : List τ) pos = .error .empty ∧
    pickOneW ([] : List τ) w replace u = .error .empty ∧
    pickOneWConst ([] : List τ) w u = .error .empty ∧
    getSample ([] : List τ) (k + 1) true draws hat = .error .empty ∧
    getSampleW ([] : List τ) w (k + 1) true us = .error .empty ∧
    pickFromCumSum ([] : List α) u = .error .empty := by
  refine ⟨rfl, rfl, rfl, rfl, ?_, ?_, rfl⟩
  · simp [getSample, sampleRepl]
  · simp [getSampleW, sampleWRepl]

/-- … and only emptiness: on a non-empty vector no admissible draw raises -/
theorem nonempty_no_raise {τ : Type} (v : List τ) (hv : v ≠ []) (replace : Bool) (pos : Nat) (hpos : pos < v.length) :
    (∃ r, pickOne v replace pos = .ok r) ∧ (∃ r, pickOneConst v pos = .ok r) := by
  obtain ⟨e, _, hp⟩ := pickOne_ok replace hpos
  exact ⟨⟨_, hp⟩, ⟨_, pickOneConst_ok hpos⟩⟩

/-- before `fix:` 57b79ce `pickFromCumSum` of an empty vector read `w[0]` (segfault on the real code,
corpus/C18/cumsum-empty.txt) instead of raising -/
theorem pickFromCumSum_unrepaired_witness :
    pickFromCumSumUnrepaired ([] : List Rat) 0 = .error .ub := rfl

/-! non-vacuity -/
example : getSample [10, 20, 30] 2 false [] [2, 0, 1] = .ok [30, 10] := rfl
example : getSample [10, 20, 30] 4 true [0, 2, 2, 1] [] = .ok [10, 30, 30, 20] := rfl
example : pickOne [1, 2, 3, 4] false 1 = .ok (2, [1, 4, 3]) := rfl

/-! ## random contingency tables (AS159) -/

/-- `rcont2_margins`: for ALL margins and ALL values the inverse-cdf walk can stop at, the table
returned by `rcont2` (after `fix:` f276286) has the requested shape, non-negative entries, and
exactly the requested row and column totals -/
theorem rcont2_margins (nrowt ncolt : List Nat) (picks : List (List Int)) (T : List (List Int))
    (h : rcont2 nrowt ncolt picks = .ok T) :
    marginsOk nrowt ncolt T = true := rcont2_marginsOk nrowt ncolt picks T h

/-- `marginsOk` spelled out -/
theorem marginsOk_iff (nrowt ncolt : List Nat) (T : List (List Int)) :
    marginsOk nrowt ncolt T = true ↔
      T.length = nrowt.length ∧ (∀ row ∈ T, row.length = ncolt.length ∧ ∀ x ∈ row, 0 ≤ x) ∧
      T.map List.sum = nrowt.map Int.ofNat ∧ colSums ncolt.length T = ncolt.map Int.ofNat := by
  simp only [marginsOk, Bool.and_eq_true, beq_iff_eq, List.all_eq_true, decide_eq_true_eq]
  tauto

/-- the repaired code never indexes the log-factorial table outside `0..ntot`, whatever the
margins and the choices (the unrepaired code did: `rcont2_unrepaired_witness`) -/
theorem rcont2_reads_in_bounds (nrowt ncolt : List Nat) (picks : List (List Int)) :
    rcont2 nrowt ncolt picks ≠ .error .ub := rcont2_no_ub nrowt ncolt picks

/-- margins that are refused: fewer than two rows / columns, or different totals -/
theorem rcont2_rejects (nrowt ncolt : List Nat) (picks : List (List Int)) :
    (nrowt.length < 2 ∨ ncolt.length < 2 ∨ nrowt.sum ≠ ncolt.sum) → rcont2 nrowt ncolt picks = .error .bpp := by
  intro h
  unfold rcont2 rcont2With
  by_cases h1 : nrowt.length < 2 ∨ ncolt.length < 2
  · rw [if_pos (by simpa using h1)]
  · have h2 : nrowt.sum ≠ ncolt.sum := by tauto
    rw [if_neg (by simpa using h1), if_pos (by simpa using h2)]

/-- the unrepaired starting value `ia * (size_t)(id/ie + 0.5)`: for rows (5,1) and columns (3,3)
the very first cell starts at `nlm = 5 > id = 3` and reads `fact_[id - nlm]` out of bounds, for
every choice.  On the real code: seed 39 returns the table `5 0 / 2^64-2 3`
(corpus/C18/rcont2-cast.txt). -/
theorem rcont2_unrepaired_witness (picks : List (List Int)) :
    rcont2Unrepaired [5, 1] [3, 3] picks = .error .ub := by
  simp [rcont2Unrepaired, rcont2With, rowsLoop, rowLoop, startCellUnrepaired, factReadsOk]

/-! non-vacuity: tables are produced, several values of a cell are reachable -/
example : rcont2 [5, 1] [3, 3] [[3]] = .ok [[3, 2], [0, 1]] := by decide
example : rcont2 [5, 1] [3, 3] [[2]] = .ok [[2, 3], [1, 0]] := by decide
example : rcont2 [5, 1] [3, 3] [[4]] = .error .unreachable := by decide
example : rcont2 [4, 6, 5] [7, 8] [[2], [3]] = .ok [[2, 2], [3, 3], [2, 3]] := by decide
example : rcont2 [0, 0] [0, 0] [] = .ok [[0, 0], [0, 0]] := by decide

end Bpp.C18
