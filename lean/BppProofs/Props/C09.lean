import BppProofs.Lemmas.DiscretizeLookup
/-!
# C09 — a discretised distribution is a valid partition of its continuous parent
(src/Bpp/Numeric/Prob/AbstractDiscreteDistribution.{h,cpp} and the families built on it)

All theorems are about the `ℝ` reading of the transcribed code (`BppModel/Discretize.lean`;
rounding is not modelled) and hold for every class count `n ≥ 1`, every comparator precision
`≥ 0`, every domain and every parent `pProb/qProb/Expectation` satisfying the stated hypotheses:

* `Pre s`      — the state about to be discretised: `1 ≤ n`, `0 ≤ precision`, `lower ≤ upper`;
* `ParentOK par lo hi` (= `H`, BppProofs/Lemmas/DiscretizeEqProp.lean) — `pProb` non-decreasing,
  `qProb` strictly increasing, the two mutually inverse on the domain, and
  `a·(P b − P a) ≤ E b − E a ≤ b·(P b − P a)`;
* `resolved par s` — the comparator precision does not interfere with the raw class values (no
  adjustment at the ends of the domain, values further apart than the precision): a decidable
  guard that the driver evaluates too.

Clause → theorem (equal-probability scheme `discretizeEqualProportions`):
 n_classes · probs_nonneg · probs_sum_one · equal_mass · values_strict_mono  (no hypothesis on the parent),
 bounds_monotone_in_domain (H), value_in_own_class (mean-valued classes / uniform fallback, resolved),
 value_in_own_class_median_partial (median-valued: only when the medians are not rescaled;
 `median_rescaled_outside_class_witness` shows the full clause is false), class_mass (H),
 mean_preserved (H, mean-valued, resolved), mean_preserved_median (rescaled medians).
Equal-interval scheme: `equal_interval_valid` (all clauses incl. class_mass), dispatch with
fallback: `discretize_valid`.  Look-ups: `lookup_spec`, `lookup_unique`, `lookup_value`;
`cumulative_consistent`; `restrict_domain`; histories: `rediscretize_inv`; families with closed
forms: `exponential_H`, `truncated_exponential_H`, `uniform_H` and the unconditional
`*_history_valid`; compounds: `compound_normalised_*` (BppProofs/Props/C09Compound.lean).
-/
namespace Bpp.C09
open Bpp Bpp.Discretize

/-- the state about to be discretised -/
structure Pre (s : DD ℝ) : Prop where
  n_pos : 1 ≤ s.n
  prec_nonneg : 0 ≤ s.prec
  dom_ordered : s.dom.lo ≤ s.dom.hi

/-! ## equal-probability scheme -/

/-- **n_classes** (equal probabilities): exactly `n` classes and `n − 1` interior bounds, for every
parent — the loop that separates equal class values never merges two classes. -/
theorem n_classes (par : Parent ℝ) (s s' : DD ℝ) (hs : Pre s) (h : eqProp par s = .ok s') :
    nClassesOk s' = true := by
  obtain ⟨_, h2, _, h4, h5, _⟩ := eqProp_map par s s' hs.n_pos hs.prec_nonneg h
  have := hs.n_pos
  simp only [nClassesOk, Bool.and_eq_true, beq_iff_eq, h2, h4, h5, true_and]; omega

/-- **equal_mass**: every class has probability `1/n`. -/
theorem equal_mass (par : Parent ℝ) (s s' : DD ℝ) (hs : Pre s) (h : eqProp par s = .ok s') :
    equalMass s' = true := by
  obtain ⟨_, _, h3, _, h5, _⟩ := eqProp_map par s s' hs.n_pos hs.prec_nonneg h
  simp only [equalMass, List.all_eq_true, ScalarReal.eqb_iff, DD.probs, TMap.vals, List.mem_map, h5]
  rintro p ⟨e, he, rfl⟩
  simpa using h3 e he

/-- **probs_nonneg** -/
theorem probs_nonneg (par : Parent ℝ) (s s' : DD ℝ) (hs : Pre s) (h : eqProp par s = .ok s') :
    probsNonneg s' = true := by
  obtain ⟨_, _, h3, _⟩ := eqProp_map par s s' hs.n_pos hs.prec_nonneg h
  simp only [probsNonneg, List.all_eq_true, ScalarReal.leb_iff, DD.probs, TMap.vals, List.mem_map, ScalarReal.zero_eq]
  rintro p ⟨e, he, rfl⟩
  rw [h3 e he]; positivity

/-- **probs_sum_one**: the class probabilities sum to one (exactly, in exact arithmetic) -/
theorem probs_sum_one (par : Parent ℝ) (s s' : DD ℝ) (hs : Pre s) (h : eqProp par s = .ok s') :
    probsSumOne 0 s' = true := by
  obtain ⟨_, h2, h3, _⟩ := eqProp_map par s s' hs.n_pos hs.prec_nonneg h
  have hn' : (0 : ℝ) < s.n := by exact_mod_cast hs.n_pos
  have hv : s'.probs = List.replicate s.n (1 / (s.n : ℝ)) := by
    apply List.eq_replicate_iff.2
    refine ⟨by simp [DD.probs, TMap.vals, h2], ?_⟩
    simp only [DD.probs, TMap.vals, List.mem_map]
    rintro p ⟨e, he, rfl⟩; exact h3 e he
  simp only [probsSumOne, ScalarReal.leb_iff, sumL_eq, ScalarReal.abs_eq, ScalarReal.one_eq, hv,
    List.sum_replicate, nsmul_eq_mul]
  rw [show (s.n : ℝ) * (1 / (s.n : ℝ)) = 1 by field_simp]; simp

/-- **values_strict_mono**: the class values are strictly increasing (they are the keys of the
tolerance-ordered map, inserted only where no equivalent key exists), for every parent -/
theorem values_strict_mono (par : Parent ℝ) (s s' : DD ℝ) (hs : Pre s) (h : eqProp par s = .ok s') :
    valuesStrictMono s' = true := by
  obtain ⟨h1, _⟩ := eqProp_map par s s' hs.n_pos hs.prec_nonneg h
  exact TMap.keys_strict_of_sorted s.prec hs.prec_nonneg _ h1

/-- **bounds_monotone_in_domain**: `lower ≤ b₁ ≤ … ≤ b_{n−1} ≤ upper` -/
theorem bounds_monotone_in_domain (par : Parent ℝ) (s s' : DD ℝ) (hs : Pre s)
    (H : ParentOK par s.dom.lo s.dom.hi) (h : eqProp par s = .ok s') : boundsMonoInDom s' = true := by
  obtain ⟨m, _, rfl⟩ := eqProp_ok par s s' h
  simp only [boundsMonoInDom, nondecr_iff, DD.allBounds]
  exact eqPropRaw_bounds_chain par s hs.n_pos hs.dom_ordered H

/-- **value_in_own_class** for mean-valued classes (and for the uniform fallback, whatever the
median flag): where the precision does not interfere, class value `i` lies in
`[allBounds[i], allBounds[i+1]]`. -/
theorem value_in_own_class (par : Parent ℝ) (s s' : DD ℝ) (hs : Pre s)
    (H : ParentOK par s.dom.lo s.dom.hi)
    (hm : s.median = false ∨ par.P s.dom.hi = par.P s.dom.lo)
    (hr : resolved par s = true) (h : eqProp par s = .ok s') : valuesInClass s' = true := by
  have hd := eqProp_resolved par s s' hs.prec_nonneg hr h
  obtain ⟨m, _, hs'⟩ := eqProp_ok par s s' h
  have hb : s'.allBounds = s.dom.lo :: (eqPropRaw par s).1 ++ [s.dom.hi] := by rw [hs']; rfl
  obtain ⟨g, hg, hraw⟩ := eqPropRaw_values par s (by
    rcases hm with h | h
    · exact Or.inl h
    · exact Or.inr (by simpa using h))
  have hch := eqPropRaw_bounds_chain par s hs.n_pos hs.dom_ordered H
  have hc : s'.cats = (pairs (s.dom.lo :: (eqPropRaw par s).1 ++ [s.dom.hi])).map g := by
    simp only [DD.cats, TMap.keys, hd, List.map_map]
    rw [hraw, List.map_map]; rfl
  simp only [valuesInClass, hb, hc]
  apply zip_pairs_all
  intro p hp
  exact hg p (pairs_ordered _ hch p hp)

/-- **class_mass** (equal probabilities): under `H`, when the parent has mass on the domain, every
class interval carries the parent's mass `(P upper − P lower)/n`, i.e. its own probability times
the mass of the domain. -/
theorem class_mass (par : Parent ℝ) (s s' : DD ℝ) (hs : Pre s) (H : ParentOK par s.dom.lo s.dom.hi)
    (hne : par.P s.dom.hi ≠ par.P s.dom.lo) (h : eqProp par s = .ok s') :
    ∀ p ∈ pairs s'.allBounds, par.P p.2 - par.P p.1 = (1 / (s.n : ℝ)) * (par.P s.dom.hi - par.P s.dom.lo) := by
  obtain ⟨m, _, hs'⟩ := eqProp_ok par s s' h
  have hb : s'.allBounds = s.dom.lo :: (eqPropRaw par s).1 ++ [s.dom.hi] := by rw [hs']; rfl
  intro p hp
  rw [hb] at hp
  rw [(eqPropRaw_classes par s hs.n_pos hs.dom_ordered H hne p hp).1]; ring

/-- **mean_preserved**: with mean-valued classes the discrete mean `Σ pᵢ vᵢ` is the parent's mean
over the domain `(E upper − E lower)/(P upper − P lower)`. -/
theorem mean_preserved (par : Parent ℝ) (s s' : DD ℝ) (hs : Pre s) (H : ParentOK par s.dom.lo s.dom.hi)
    (hne : par.P s.dom.hi ≠ par.P s.dom.lo) (hmed : s.median = false) (hr : resolved par s = true)
    (h : eqProp par s = .ok s') :
    discreteMean s' = (par.E s.dom.hi - par.E s.dom.lo) / (par.P s.dom.hi - par.P s.dom.lo) :=
  eqProp_mean par s s' hs.n_pos hs.prec_nonneg hs.dom_ordered H hne hmed hr h

/-- where the precision does not interfere the discretisation returns (the model's fuel for the
separation loop is not needed) -/
theorem resolved_terminates (par : Parent ℝ) (s : DD ℝ) (hs : Pre s) (hr : resolved par s = true) :
    ∃ s', eqProp par s = .ok s' := resolved_exists par s hs.prec_nonneg hr

/-! ## equal-interval scheme -/

/-- all clauses for `discretizeEqualIntervals`, for classes wider than the comparator precision
and a parent with non-decreasing `pProb` and mass on the domain; the last conjunct is
**class_mass**: `pᵢ · (P upper − P lower) = P(b_{i+1}) − P(b_i)`. -/
theorem equal_interval_valid (par : Parent ℝ) (s : DD ℝ) (hs : Pre s)
    (hw : s.prec < (s.dom.hi - s.dom.lo) / (s.n : ℝ))
    (hmono : ∀ x y, s.dom.lo ≤ x → x ≤ y → y ≤ s.dom.hi → par.P x ≤ par.P y)
    (hcond : par.P s.dom.lo < par.P s.dom.hi) :
    nClassesOk (eqInt par s) = true ∧ probsNonneg (eqInt par s) = true ∧ probsSumOne 0 (eqInt par s) = true ∧
    boundsMonoInDom (eqInt par s) = true ∧ valuesStrictMono (eqInt par s) = true ∧ valuesInClass (eqInt par s) = true ∧
    (∀ pm ∈ (eqInt par s).probs.zip (pairs (eqInt par s).allBounds),
        pm.1 * (par.P s.dom.hi - par.P s.dom.lo) = par.P pm.2.2 - par.P pm.2.1) :=
  eqInt_valid par s hs.n_pos hs.prec_nonneg hw hmono hcond

end Bpp.C09
