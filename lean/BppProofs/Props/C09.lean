import BppProofs.Lemmas.DiscretizeHistory
import BppProofs.Lemmas.DiscretizeFamilies
import BppProofs.Lemmas.DiscretizeFamInst
import BppProofs.Lemmas.DiscretizeWitness
import BppProofs.Lemmas.DiscretizeTermination
/-!
# C09 — a discretised distribution is a valid partition of its continuous parent
(src/Bpp/Numeric/Prob/AbstractDiscreteDistribution.{h,cpp} and the families built on it)

All theorems are about the `ℝ` reading of the transcribed code (`BppModel/Discretize.lean`;
rounding is not modelled) and hold for every class count `n ≥ 1`, every comparator precision
`≥ 0`, every domain and every parent `pProb/qProb/Expectation` satisfying the stated hypotheses:

* `Pre s`      — the state about to be discretised: `1 ≤ n`, `0 ≤ precision`, `lower ≤ upper`;
* `ParentOK par lo hi` (= `H`, BppProofs/Lemmas/DiscretizeEqProp.lean) — `pProb` non-decreasing,
  `qProb` strictly increasing, the two mutually inverse on the domain, and
  `a·(P b − P a) ≤ E b − E a ≤ b·(P b − P a)`;
* `resolved par s` — the comparator precision does not interfere with the raw class values (no
  adjustment at the ends of the domain, values further apart than the precision): a decidable
  guard that the driver evaluates too.

Clause → theorem (equal-probability scheme `discretizeEqualProportions`):
 n_classes · probs_nonneg · probs_sum_one · equal_mass · values_strict_mono  (no hypothesis on the parent),
 bounds_in_domain (every parent), bounds_monotone_in_domain (H), value_in_own_class_partial (mean-valued classes /
 uniform fallback, resolved; `separated_value_outside_class_witness` shows the guard is needed),
 value_in_own_class_median_partial (median-valued: only when the medians are not rescaled;
 `median_rescaled_outside_class_witness` shows the full clause is false), class_mass (H),
 mean_preserved (H, mean-valued, resolved), mean_preserved_median (rescaled medians).
Equal-interval scheme: `equal_interval_partition` (no side condition), `equal_interval_valid` (with
value_in_own_class and class_mass), dispatch with fallback: `discretize_partition`.  Look-ups: `lookup_spec`, `lookup_unique`, `lookup_outside`;
`cumulative_consistent`; `restrict_domain`; histories: `rediscretize_inv`; families with closed
forms: `exponential_H`, `truncated_exponential_H`, `uniform_H` and the unconditional
`exponential_history_valid`, `uniform_history_valid`, `truncated_exponential_history_valid`; compounds: `compound_normalised_*` (BppProofs/Props/C09Compound.lean).
-/
namespace Bpp.C09
open Bpp Bpp.Discretize

/-! ## equal-probability scheme -/

/-- **n_classes** (equal probabilities): exactly `n` classes and `n − 1` interior bounds, for every
parent — the loop that separates equal class values never merges two classes. -/
theorem n_classes (par : Parent ℝ) (s s' : DD ℝ) (hs : Pre s) (h : eqProp par s = .ok s') :
    nClassesOk s' = true := by
  obtain ⟨_, h2, _, h4, h5, _⟩ := eqProp_map par s s' hs.n_pos hs.prec_nonneg h
  have := hs.n_pos
  simp only [nClassesOk, Bool.and_eq_true, beq_iff_eq, h2, h4, h5, true_and]; omega

/-- **equal_mass**: every class has probability `1/n`. -/
theorem equal_mass (par : Parent ℝ) (s s' : DD ℝ) (hs : Pre s) (h : eqProp par s = .ok s') :
    equalMass s' = true := by
  obtain ⟨_, _, h3, _, h5, _⟩ := eqProp_map par s s' hs.n_pos hs.prec_nonneg h
  simp only [equalMass, List.all_eq_true, ScalarReal.eqb_iff, DD.probs, TMap.vals, List.mem_map, h5]
  rintro p ⟨e, he, rfl⟩
  simpa using h3 e he

/-- **probs_nonneg** -/
theorem probs_nonneg (par : Parent ℝ) (s s' : DD ℝ) (hs : Pre s) (h : eqProp par s = .ok s') :
    probsNonneg s' = true := by
  obtain ⟨_, _, h3, _⟩ := eqProp_map par s s' hs.n_pos hs.prec_nonneg h
  simp only [probsNonneg, List.all_eq_true, ScalarReal.leb_iff, DD.probs, TMap.vals, List.mem_map, ScalarReal.zero_eq]
  rintro p ⟨e, he, rfl⟩
  rw [h3 e he]; positivity

/-- **probs_sum_one**: the class probabilities sum to one (exactly, in exact arithmetic) -/
theorem probs_sum_one (par : Parent ℝ) (s s' : DD ℝ) (hs : Pre s) (h : eqProp par s = .ok s') :
    probsSumOne 0 s' = true := by
  obtain ⟨_, h2, h3, _⟩ := eqProp_map par s s' hs.n_pos hs.prec_nonneg h
  have hn' : (0 : ℝ) < s.n := by exact_mod_cast hs.n_pos
  have hv : s'.probs = List.replicate s.n (1 / (s.n : ℝ)) := by
    apply List.eq_replicate_iff.2
    refine ⟨by simp [DD.probs, TMap.vals, h2], ?_⟩
    simp only [DD.probs, TMap.vals, List.mem_map]
    rintro p ⟨e, he, rfl⟩; exact h3 e he
  simp only [probsSumOne, ScalarReal.leb_iff, sumL_eq, ScalarReal.abs_eq, ScalarReal.one_eq, hv,
    List.sum_replicate, nsmul_eq_mul]
  rw [show (s.n : ℝ) * (1 / (s.n : ℝ)) = 1 by field_simp]; simp

/-- **values_strict_mono**: the class values are strictly increasing (they are the keys of the
tolerance-ordered map, inserted only where no equivalent key exists), for every parent -/
theorem values_strict_mono (par : Parent ℝ) (s s' : DD ℝ) (hs : Pre s) (h : eqProp par s = .ok s') :
    valuesStrictMono s' = true := by
  obtain ⟨h1, _⟩ := eqProp_map par s s' hs.n_pos hs.prec_nonneg h
  exact TMap.keys_strict_of_sorted s.prec hs.prec_nonneg _ h1

/-- **bounds_monotone_in_domain**: `lower ≤ b₁ ≤ … ≤ b_{n−1} ≤ upper` -/
theorem bounds_monotone_in_domain (par : Parent ℝ) (s s' : DD ℝ) (hs : Pre s)
    (H : ParentOK par s.dom.lo s.dom.hi) (h : eqProp par s = .ok s') : boundsMonoInDom s' = true := by
  obtain ⟨m, _, rfl⟩ := eqProp_ok par s s' h
  simp only [boundsMonoInDom, nondecr_iff, DD.allBounds]
  exact eqPropRaw_bounds_chain par s hs.n_pos hs.dom_ordered H

/-- **bounds_in_domain**: after `discretize()` — any of the three schemes, *any* parent (no `H`: the
quantiles are clamped into the domain) — the domain is ordered and every interior bound lies in
it.  The driver judges this clause unconditionally. -/
theorem bounds_in_domain (par : Parent ℝ) (s s' : DD ℝ) (hs : Pre s) (h : discretize par s = .ok s') :
    boundsInDom s' = true := discretize_bounds_in_dom par s s' hs.n_pos hs.dom_ordered h

/-- **value_in_domain**: with mean-valued classes (or in the uniform fallback), where the comparator
precision does not interfere (`resolved`), every class value lies in the domain — for *every*
parent (no `H`: a class mean outside its bounds is replaced by their midpoint, the bounds are
clamped into the domain).  The driver judges the clause on every state; outside `resolved` and for
median-valued classes it is false of the code (known findings C09-separated-value-outside-domain,
-low-mass, C09-median-value-beyond-domain-end: a class value *above the end of the support*). -/
theorem value_in_domain (par : Parent ℝ) (s s' : DD ℝ) (hs : Pre s)
    (hm : s.median = false ∨ Scalar.eqb (par.P s.dom.hi) (par.P s.dom.lo) = true)
    (hr : resolved par s = true) (h : eqProp par s = .ok s') : valuesInDom s' = true :=
  eqProp_values_in_dom par s s' hs.n_pos hs.prec_nonneg hs.dom_ordered hm hr h

/-- **value_in_own_class** — `_partial`.  Full clause wanted: after every discretisation each class
value lies in its own class interval.  Proved: for mean-valued classes (and for the uniform fallback,
whatever the median flag) *where the comparator precision does not interfere* (`resolved`: no
adjustment at the ends of the domain, raw values further apart than the precision).  Outside the
guard the clause is false of the code: the separation loop of `insertClass_` moves class values by at
least the precision, out of their class and possibly out of the domain — on a domain narrower than
`n·precision` (`separated_value_outside_class_witness`, known finding C09-separated-value-outside-class),
and on an ordinary domain whose first classes are narrower than the precision (Gamma(0.1, ·) with
19–32 classes: known finding C09-class-narrower-than-precision);
for rescaled medians see `value_in_own_class_median_partial`.  One-step only: the clause is not
part of `Valid`, hence of no history theorem. -/
theorem value_in_own_class_partial (par : Parent ℝ) (s s' : DD ℝ) (hs : Pre s)
    (H : ParentOK par s.dom.lo s.dom.hi)
    (hm : s.median = false ∨ par.P s.dom.hi = par.P s.dom.lo)
    (hr : resolved par s = true) (h : eqProp par s = .ok s') : valuesInClass s' = true := by
  have hd := eqProp_resolved par s s' hs.prec_nonneg hr h
  obtain ⟨m, _, hs'⟩ := eqProp_ok par s s' h
  have hb : s'.allBounds = s.dom.lo :: (eqPropRaw par s).1 ++ [s.dom.hi] := by rw [hs']; rfl
  obtain ⟨g, hg, hraw⟩ := eqPropRaw_values par s (by
    rcases hm with h | h
    · exact Or.inl h
    · exact Or.inr (by simpa using h))
  have hch := eqPropRaw_bounds_chain par s hs.n_pos hs.dom_ordered H
  have hc : s'.cats = (pairs (s.dom.lo :: (eqPropRaw par s).1 ++ [s.dom.hi])).map g := by
    simp only [DD.cats, TMap.keys, hd, List.map_map]
    rw [hraw, List.map_map]; rfl
  simp only [valuesInClass, hb, hc]
  apply zip_pairs_all
  intro p hp
  exact hg p (pairs_ordered _ hch p hp)

/-- the guard `resolved` is needed: the uniform parent on `[1/2, 1/2 + 10⁻¹³]` (H holds), 3 classes,
precision `10⁻¹²`: the three raw class values are equivalent for the map, the separation loop puts
the first `≈ 3·10⁻¹²` below and the third `≈ 2·10⁻¹²` above the domain; `getValueCategory` of those
two class values raises "out of bounds" on the real library (same numbers). -/
theorem separated_value_outside_class_witness :
    let s : DD Rat := Witness.narrowState
    resolved Witness.unif01 s = false ∧
    (match eqProp Witness.unif01 s with
     | .ok r => nClassesOk r && valuesStrictMono r && !(valuesInClass r) && (r.cats.map (fun c => r.dom.isCorrect c) == [false, true, false])
     | .error _ => false) = true := by
  constructor <;> decide +kernel

/-- **class_mass** (equal probabilities): under `H`, when the parent has mass on the domain, every
class interval carries the parent's mass `(P upper − P lower)/n`, i.e. its own probability times
the mass of the domain. -/
theorem class_mass (par : Parent ℝ) (s s' : DD ℝ) (hs : Pre s) (H : ParentOK par s.dom.lo s.dom.hi)
    (hne : par.P s.dom.hi ≠ par.P s.dom.lo) (h : eqProp par s = .ok s') :
    ∀ p ∈ pairs s'.allBounds, par.P p.2 - par.P p.1 = (1 / (s.n : ℝ)) * (par.P s.dom.hi - par.P s.dom.lo) := by
  obtain ⟨m, _, hs'⟩ := eqProp_ok par s s' h
  have hb : s'.allBounds = s.dom.lo :: (eqPropRaw par s).1 ++ [s.dom.hi] := by rw [hs']; rfl
  intro p hp
  rw [hb] at hp
  rw [(eqPropRaw_classes par s hs.n_pos hs.dom_ordered H hne p hp).1]; ring

/-- **mean_preserved**: with mean-valued classes the discrete mean `Σ pᵢ vᵢ` is the parent's mean
over the domain `(E upper − E lower)/(P upper − P lower)`. -/
theorem mean_preserved (par : Parent ℝ) (s s' : DD ℝ) (hs : Pre s) (H : ParentOK par s.dom.lo s.dom.hi)
    (hne : par.P s.dom.hi ≠ par.P s.dom.lo) (hmed : s.median = false) (hr : resolved par s = true)
    (h : eqProp par s = .ok s') :
    discreteMean s' = (par.E s.dom.hi - par.E s.dom.lo) / (par.P s.dom.hi - par.P s.dom.lo) :=
  eqProp_mean par s s' hs.n_pos hs.prec_nonneg hs.dom_ordered H hne hmed hr h

/-- **class values are class means**: with mean-valued classes every stored class value is the
parent's conditional mean over its own class interval, `(E b − E a)/(P b − P a)` -/
theorem class_value_is_mean (par : Parent ℝ) (s s' : DD ℝ) (hs : Pre s) (H : ParentOK par s.dom.lo s.dom.hi)
    (hne : par.P s.dom.hi ≠ par.P s.dom.lo) (hmed : s.median = false) (hr : resolved par s = true)
    (h : eqProp par s = .ok s') :
    s'.cats = (pairs s'.allBounds).map (fun p => (par.E p.2 - par.E p.1) / (par.P p.2 - par.P p.1)) :=
  eqProp_class_means par s s' hs.n_pos hs.prec_nonneg hs.dom_ordered H hne hmed hr h

/-- where the precision does not interfere the discretisation returns (the model's fuel for the
separation loop is not needed) -/
theorem resolved_terminates (par : Parent ℝ) (s : DD ℝ) (hs : Pre s) (hr : resolved par s = true) :
    ∃ s', eqProp par s = .ok s' := resolved_exists par s hs.prec_nonneg hr

/-- **discretize_terminates**: with a positive comparator precision (1e-12 for every family, 1e-20 for
beta) `discretize()` returns with any of the three schemes, for every parent, class count, domain
and whatever the class values are — the loop of `insertClass_` that separates equal class values
ends within `6·n + 1` turns: its step is at least the precision, so every key of the map is
equivalent to at most three candidates on each side (pigeonhole, `blocked_turns_bound`).  The
model's fuel (`6·size + 10⁶`) is never exhausted: `Err.fuel` is unreachable. -/
theorem discretize_terminates (par : Parent ℝ) (s : DD ℝ) (hn : 1 ≤ s.n) (hp : 0 < s.prec) :
    ∃ s', discretize par s = .ok s' := discretize_total par s hn hp

/-- the hypothesis `0 < precision` is needed: with precision 0 and a class value 0 that is already
a key the step `max(precision, 4·ε·|v|)` is 0, every candidate is the value itself and the loop
never ends, whatever the fuel.  (Not reachable through the shipped families, whose precision is
positive; `AbstractDiscreteDistribution(n, 0., …)` is a protected constructor.) -/
theorem separation_zero_step_loops (hi : ℝ) (m : TMap ℝ) (h : (TMap.find? 0 0 m).isSome = true) (fuel : Nat) (j f : Int) :
    searchFree 0 (sepStep 0 0) hi 0 m fuel j f = none := searchFree_zero_step hi m h fuel j f

/-! ## equal-interval scheme -/

/-- **equal_interval_partition**: after `discretizeEqualIntervals` (repaired: class values kept
distinct by `insertClass_`, equal probabilities on a domain without mass) the object has exactly
`n` classes with non-negative probabilities summing to one, non-decreasing bounds inside the
domain and strictly increasing class values — for *every* class count, precision and ordered
domain, and every parent with non-decreasing `pProb`; no side condition on the width of the
classes or on the mass of the domain is left. -/
theorem equal_interval_partition (par : Parent ℝ) (s r : DD ℝ) (hs : Pre s)
    (hmono : ∀ x y, s.dom.lo ≤ x → x ≤ y → y ≤ s.dom.hi → par.P x ≤ par.P y)
    (h : eqInt par s = .ok r) :
    nClassesOk r = true ∧ probsNonneg r = true ∧ probsSumOne 0 r = true ∧
    boundsMonoInDom r = true ∧ valuesStrictMono r = true := by
  obtain ⟨a, b, c, d, e, _⟩ := eqInt_partition par s r hs.n_pos hs.prec_nonneg hs.dom_ordered hmono h
  exact ⟨a, b, c, d, e⟩

/-- all clauses for `discretizeEqualIntervals`, for classes wider than the comparator precision
and a parent with non-decreasing `pProb` and mass on the domain: it returns, every class value
lies in its own class, and — **class_mass** — `pᵢ · (P upper − P lower) = P(b_{i+1}) − P(b_i)`. -/
theorem equal_interval_valid (par : Parent ℝ) (s : DD ℝ) (hs : Pre s)
    (hw : s.prec < (s.dom.hi - s.dom.lo) / (s.n : ℝ))
    (hmono : ∀ x y, s.dom.lo ≤ x → x ≤ y → y ≤ s.dom.hi → par.P x ≤ par.P y)
    (hcond : par.P s.dom.lo < par.P s.dom.hi) :
    ∃ r, eqInt par s = .ok r ∧
    nClassesOk r = true ∧ probsNonneg r = true ∧ probsSumOne 0 r = true ∧
    boundsMonoInDom r = true ∧ valuesStrictMono r = true ∧ valuesInClass r = true ∧
    (∀ pm ∈ r.probs.zip (pairs r.allBounds),
        pm.1 * (par.P s.dom.hi - par.P s.dom.lo) = par.P pm.2.2 - par.P pm.2.1) := by
  obtain ⟨r, hr, a, b, c, d, e, f, g, _⟩ := eqInt_valid par s hs.n_pos hs.prec_nonneg hw hmono hcond
  exact ⟨r, hr, a, b, c, d, e, f, g⟩


/-! ## median-valued classes -/

/-- **value_in_own_class**, median-valued classes — `_partial`: proved only when the medians are
*not* rescaled (`¬ Rescaled`: their sum is zero or has not the sign of the mean).  The full clause
(“each class value lies in its own class interval”, whatever the factor) is false of the code:
`median_rescaled_outside_class_witness`.  Missing: a bound on the rescaling factor
`mean / (mean of the medians)` in terms of the class widths. -/
theorem value_in_own_class_median_partial (par : Parent ℝ) (s s' : DD ℝ) (hs : Pre s)
    (H : ParentOK par s.dom.lo s.dom.hi) (hne : par.P s.dom.hi ≠ par.P s.dom.lo) (hmed : s.median = true)
    (hresc : ¬ Rescaled (medians par s.n s.dom.lo s.dom.hi (par.P s.dom.lo) ((par.P s.dom.hi - par.P s.dom.lo) / (s.n : ℝ)))
      (par.E s.dom.hi - par.E s.dom.lo))
    (hr : resolved par s = true) (h : eqProp par s = .ok s') : valuesInClass s' = true :=
  eqProp_median_in_class par s s' hs.n_pos hs.prec_nonneg hs.dom_ordered H hne hmed hresc hr h

/-- under `H` the class medians (before rescaling) lie in their own classes and are strictly
increasing -/
theorem medians_in_own_class (par : Parent ℝ) (s : DD ℝ) (hs : Pre s) (H : ParentOK par s.dom.lo s.dom.hi)
    (hne : par.P s.dom.hi ≠ par.P s.dom.lo) :
    let ec := (par.P s.dom.hi - par.P s.dom.lo) / (s.n : ℝ)
    let F : ℕ → ℝ := fun i => par.Q (par.P s.dom.lo + (i : ℝ) * ec)
    let G : ℕ → ℝ := fun i => par.Q (par.P s.dom.lo + ((i : ℝ) + 1 / 2) * ec)
    s.dom.lo :: (eqPropRaw par s).1 ++ [s.dom.hi] = (List.range' 0 (s.n + 1)).map F ∧
    medians par s.n s.dom.lo s.dom.hi (par.P s.dom.lo) ec = (List.range' 0 s.n).map G ∧
    (∀ i, i < s.n → F i ≤ G i ∧ G i ≤ F (i + 1)) ∧ (∀ i j, i < j → j < s.n → G i < G j) :=
  medians_in_class par s hs.n_pos hs.dom_ordered H hne

/-- the full clause fails for rescaled medians: on the piecewise-linear parent `plParent` (exact
rationals, precision resolved) the three class values are `1/3, 1, 5/3` while class 1 is
`[10/27, 20/27]`. -/
theorem median_rescaled_outside_class_witness :
    resolved Witness.plParent (Witness.plState true 1) = true ∧
    (match eqProp Witness.plParent (Witness.plState true 1) with
     | .ok s => s.cats == [1/3, 1, 5/3] && s.bounds == [10/27, 20/27] && !(valuesInClass s)
     | .error _ => false) = true := by
  constructor <;> decide +kernel

/-- why the finding is kept: a rescaling of the medians by a *common* factor that preserves the
parent's mean `M` (what the documentation of `setMedian` promises) has no freedom left — the
factor is `M · n / Σ medians`, the one the code uses (`mean / t / ec`).  The witness above shows that
this factor moves class values out of their classes; so no repair within "common factor + mean
preserved" exists, and clamping the values into their classes would give up the mean. -/
theorem median_common_factor_unique (ms : List ℝ) (c M : ℝ) (hn : 0 < ms.length) (ht : ms.sum ≠ 0) :
    (ms.map (fun m => (1 / (ms.length : ℝ)) * (c * m))).sum = M ↔ c = M * ms.length / ms.sum := by
  have hn' : (0 : ℝ) < ms.length := by exact_mod_cast hn
  have e : (ms.map (fun m => (1 / (ms.length : ℝ)) * (c * m))).sum = (1 / (ms.length : ℝ)) * c * ms.sum := by
    have : (fun m : ℝ => (1 / (ms.length : ℝ)) * (c * m)) = (fun m => ((1 / (ms.length : ℝ)) * c) * m) := by
      funext m; ring
    rw [this, sum_map_mul_left]
  rw [e]
  constructor
  · intro h
    field_simp at h ⊢
    linarith
  · intro h
    rw [h]; field_simp

/-- **mean_preserved**, median-valued classes: when the medians are rescaled the discrete mean is
the parent's mean over the domain, for every parent -/
theorem mean_preserved_median (par : Parent ℝ) (s s' : DD ℝ) (hs : Pre s)
    (hne : par.P s.dom.hi ≠ par.P s.dom.lo) (hmed : s.median = true)
    (hresc : Rescaled (medians par s.n s.dom.lo s.dom.hi (par.P s.dom.lo) ((par.P s.dom.hi - par.P s.dom.lo) / (s.n : ℝ)))
      (par.E s.dom.hi - par.E s.dom.lo))
    (hr : resolved par s = true) (h : eqProp par s = .ok s') :
    discreteMean s' = (par.E s.dom.hi - par.E s.dom.lo) / (par.P s.dom.hi - par.P s.dom.lo) :=
  eqProp_mean_median par s s' hs.n_pos hs.prec_nonneg hne hmed hresc hr h

/-! ## scheme dispatch -/

/-- `discretize()` with any of the three schemes yields a valid partition (`Valid`: n classes,
non-negative probabilities summing to one, non-decreasing bounds inside the domain, strictly
increasing class values in comparator order) and leaves class count, domain, precision, median
flag and scheme as they were — for every parent satisfying `H`, whatever the scheme. -/
theorem discretize_partition (par : Parent ℝ) (s s' : DD ℝ) (hs : Pre s) (H : ParentOK par s.dom.lo s.dom.hi)
    (h : discretize par s = .ok s') : Valid s' ∧ SameCfg s s' :=
  discretize_valid par s s' hs H h

/-- EQUAL_PROB_WHEN_POSSIBLE on a domain that is not a single point: the result never has two
equal neighbouring bounds — either the equal-probability bounds are pairwise distinct, or the
equal-interval scheme took over -/
theorem when_possible_distinct_bounds (par : Parent ℝ) (s s' : DD ℝ) (hs : Pre s) (hsch : s.scheme = 3)
    (hlt : s.dom.lo < s.dom.hi) (h : discretize par s = .ok s') : hasEqualNeighbours s'.allBounds = false := by
  unfold discretize at h
  have hn0 : (s.n == 0) = false := by have := hs.n_pos; simp; omega
  simp only [hn0, Bool.false_eq_true, if_false, hsch] at h
  have h31 : ((3 : Nat) == 1) = false := by decide
  have h32 : ((3 : Nat) == 2) = false := by decide
  simp only [h31, h32, Bool.false_eq_true, if_false] at h
  cases he : eqProp par s with
  | error e => simp [he, bind, Except.bind] at h
  | ok s1 =>
    simp only [he, bind, Except.bind] at h
    obtain ⟨_, _, _, _, e5, e6, e7, _, _⟩ := eqProp_map par s s1 hs.n_pos hs.prec_nonneg he
    split at h
    · obtain ⟨m, _, hs'⟩ := eqInt_ok par s1 s' h
      have hn1 : 1 ≤ s1.n := by rw [e5]; exact hs.n_pos
      have hall := (eqInt_lists par s1 hn1).1
      have hb : s'.allBounds = (List.range' 0 (s1.n + 1)).map (fun i : ℕ => s1.dom.lo + (i : ℝ) * ((s1.dom.hi - s1.dom.lo) / (s1.n : ℝ))) := by
        rw [hs']; simpa [DD.allBounds] using hall
      rw [hb]
      have hn' : (0 : ℝ) < s1.n := by exact_mod_cast hn1
      have hwpos : 0 < (s1.dom.hi - s1.dom.lo) / (s1.n : ℝ) := by
        apply div_pos _ hn'; rw [e6]; linarith
      -- strictly increasing: no equal neighbours
      have hchain : ((List.range' 0 (s1.n + 1)).map (fun i : ℕ => s1.dom.lo + (i : ℝ) * ((s1.dom.hi - s1.dom.lo) / (s1.n : ℝ)))).IsChain (· < ·) := by
        apply List.Pairwise.isChain
        rw [List.pairwise_map]
        refine (List.pairwise_lt_range' (s := 0) (n := s1.n + 1) (step := 1) (by omega)).imp ?_
        intro i j hij
        have : (i : ℝ) + 1 ≤ (j : ℝ) := by exact_mod_cast hij
        nlinarith
      generalize ((List.range' 0 (s1.n + 1)).map (fun i : ℕ => s1.dom.lo + (i : ℝ) * ((s1.dom.hi - s1.dom.lo) / (s1.n : ℝ)))) = L at hchain
      induction L with
      | nil => rfl
      | cons a t ih =>
        cases t with
        | nil => rfl
        | cons b t' =>
          rw [List.isChain_cons_cons] at hchain
          simp only [hasEqualNeighbours, Bool.or_eq_false_iff]
          refine ⟨?_, ih hchain.2⟩
          cases hh : Scalar.eqb b a with
          | false => rfl
          | true => exact absurd ((ScalarReal.eqb_iff _ _).1 hh) (ne_of_gt hchain.1)
    · rename_i hneq
      injection h with h; subst h
      simpa using hneq

/-! ## look-ups -/

/-- **lookup_spec**: for every value of the domain `getCategoryIndex` answers with a class `k`
whose interval contains the value (`bounds[k-1] ≤ x < bounds[k]`, the first and last class
extending to the ends of the domain), and `getValueCategory` answers with the value of that class. -/
theorem lookup_spec (s : DD ℝ) (x : ℝ) (hx : s.dom.isCorrect x = true) (hn : nClassesOk s = true) :
    ∃ k v, getCategoryIndex s x = .ok k ∧ lookupOk s x k = true ∧ k < s.n ∧
      s.cats[k]? = some v ∧ getValueCategory s x = .ok v := by
  simp only [nClassesOk, Bool.and_eq_true, beq_iff_eq] at hn
  obtain ⟨k, hk, hok, hle⟩ := getCategoryIndex_spec s x hx
  obtain ⟨k', v, hk', hv, hval⟩ := getValueCategory_spec s x hx (by omega)
  rw [hk] at hk'; injection hk' with hk'; subst hk'
  exact ⟨k, v, hk, hok, by omega, hv, hval⟩

/-- with non-decreasing bounds the class containing a value is unique: the look-up returns *the*
class whose interval contains the value -/
theorem lookup_unique (s : DD ℝ) (x : ℝ) (hx : s.dom.isCorrect x = true) (hb : boundsMonoInDom s = true) (k : Nat)
    (hk : lookupOk s x k = true) : getCategoryIndex s x = .ok k := by
  have hch : s.bounds.IsChain (· ≤ ·) := by
    have := (nondecr_iff _).1 hb
    unfold DD.allBounds at this
    have h2 := (List.isChain_cons.1 this).1 |> fun _ => this.tail
    exact (List.isChain_append.1 h2).1
  have := inClass_unique x s.bounds hch k hk
  simp [getCategoryIndex, hx, this]

/-- outside the domain both look-ups raise -/
theorem lookup_outside (s : DD ℝ) (x : ℝ) (hx : s.dom.isCorrect x = false) :
    getCategoryIndex s x = .error .bpp ∧ getValueCategory s x = .error .bpp := by
  simp [getCategoryIndex, getValueCategory, hx]

/-- the look-ups as found skipped `bounds_[0]`: in 4 classes with bounds 1, 2, 3 the value 3/2
(class 1) was mapped to class 0 and its value -/
theorem lookup_legacy_witness :
    Legacy.getValueCategory Witness.fourClasses (3/2) = .ok (1/2) ∧
    getValueCategory Witness.fourClasses (3/2) = .ok (3/2) ∧
    lookupOk Witness.fourClasses (3/2) 0 = false ∧ lookupOk Witness.fourClasses (3/2) 1 = true := by
  refine ⟨?_, ?_, ?_, ?_⟩ <;> decide +kernel

/-- `getCategoryIndex` as found answered the 1-based position of the bound and threw an integer
for the last class -/
theorem lookup_legacy_throws :
    Legacy.getCategoryIndex Witness.fourClasses (1/2) = .ok (some 1) ∧
    Legacy.getCategoryIndex Witness.fourClasses (7/2) = .ok none ∧
    getCategoryIndex Witness.fourClasses (1/2) = .ok 0 ∧ getCategoryIndex Witness.fourClasses (7/2) = .ok 3 := by
  refine ⟨?_, ?_, ?_, ?_⟩ <;> decide +kernel

/-! ## cumulative class queries -/

/-- **cumulative_consistent**: at the value of class `i` the four queries are the partial sums
of the class probabilities, `Pr(x<c) + Pr(x≥c) = 1`, `Pr(x≤c) + Pr(x>c) = 1`, and, the
probabilities summing to one, `Pr(x≤c) = Pr(x<c) + pᵢ`. -/
theorem cumulative_consistent (s : DD ℝ) (hv : Valid s) (hp : 0 ≤ s.prec) (i : Nat) (c p : ℝ)
    (hc : s.cats[i]? = some c) (hpi : s.probs[i]? = some p) :
    cInf s c = (s.probs.take i).sum ∧ cSup s c = (s.probs.drop (i + 1)).sum ∧
    cInf s c + cSSup s c = 1 ∧ cIInf s c + cSup s c = 1 ∧ cIInf s c = cInf s c + p := by
  obtain ⟨h1, h2, h3, h4⟩ := cumulative_at_class s hp hv.sorted i c hc
  have hsum : s.probs.sum = 1 := by
    have := hv.probs_sum_one
    simp only [probsSumOne, ScalarReal.leb_iff, sumL_eq, ScalarReal.abs_eq, ScalarReal.one_eq, ScalarReal.zero_eq] at this
    have := abs_nonpos_iff.1 this; linarith
  have hsplit := sum_take_add_drop s.probs i
  have hdrop : (s.probs.drop i).sum = p + (s.probs.drop (i + 1)).sum := by
    have hlt : i < s.probs.length := by
      by_contra hh; rw [List.getElem?_eq_none (by omega)] at hpi; simp at hpi
    rw [List.drop_eq_getElem_cons hlt, List.sum_cons]
    rw [List.getElem?_eq_getElem hlt] at hpi; injection hpi with hpi; rw [hpi]
  refine ⟨h1, h3, by rw [h1, h2]; ring, by rw [h4, h3]; ring, ?_⟩
  rw [h4, h1]; linarith

/-! ## restriction -/

/-- **restrict_domain**: `restrictToConstraint` never reaches the branch the model excludes;
it refuses (`Exception`, state unchanged) exactly the constraints whose intersection with the
domain is empty; otherwise the new domain accepts exactly the values accepted by both the old
domain and the constraint (C01's intersection lemma), is ordered, and lies inside the old one. -/
theorem restrict_domain (d : Dom ℝ) (c : Interval ℝ) :
    restrictDom d c ≠ .error .unreachable ∧
    (restrictDom d c = .error .bpp ↔ (d.toInterval.interAssign c).isEmpty = true) ∧
    ∀ d' ch, restrictDom d c = .ok (d', ch) →
      d'.lo ≤ d'.hi ∧ d.lo ≤ d'.lo ∧ d'.hi ≤ d.hi ∧
      (∀ v, d'.isCorrect v = true ↔ (d.isCorrect v = true ∧ c.isCorrect v = true)) := by
  have hspec := restrictDom_spec d c
  refine ⟨hspec.1, ?_, ?_⟩
  · constructor
    · intro h
      by_contra hne
      unfold restrictDom at h
      simp only [hne, Bool.false_eq_true, if_false] at h
      split at h <;> simp at h
    · intro h; simp [restrictDom, h]
  · intro d' ch h
    obtain ⟨_, a, b, c', e, _⟩ := hspec.2 d' ch h
    exact ⟨a, b, c', e⟩

/-! ## histories -/

/-- **rediscretize_inv**: for every history of class-count changes, median toggles,
restrictions, accepted parameter updates (a new parent satisfying `H`, possibly a new ordered
domain) and re-discretisations — of any length — every reached state is a valid partition whose
parent satisfies `H` on its domain.  Induction over the operation list; a refused restriction
leaves the state unchanged; narrowing the domain keeps `H` (`ParentOK.restrict`). -/
theorem rediscretize_inv (st st' : MSt) (ops : List Op) (hg : Good st) (ha : AllAdm st ops)
    (h : run st ops = .ok st') : Good st' :=
  run_good st st' ops hg ha h

/-- **update_keeps_domain_ordered**: `fireParameterChanged` of the gamma (with or without the offset
parameter), beta and gaussian families never leaves an inverted domain — whatever parameter is set
to whatever value, from a state with an ordered domain: when it returns the class count, the
precision and an *ordered* domain containing every interior bound are there (so the hypothesis
"`dom.lo ≤ dom.hi`" that `rediscretize_inv` asks of an `update` is met by the code); an offset that
leaves no support inside the domain is refused (`gamma_offset_refused`).  Before the repair of audit
finding F1 an accepted offset update of a restricted gamma gave the domain `]5, 2]`. -/
theorem update_keeps_domain_ordered (oracle : Parent ℝ) (f f' : FamSt ℝ) (slot : Nat) (v : ℝ)
    (hfam : f.fam = .gamma ∨ f.fam = .beta ∨ f.fam = .gauss) (hpre : Pre f.dd) (h : fire oracle f slot v = .ok f') :
    Pre f'.dd ∧ boundsInDom f'.dd = true := fire_pre oracle f f' slot v hfam hpre h

/-- a gamma with offset 1/2 restricted to `[1,2]`: the offset 5 is refused, the offset 3/2 moves the
lower end to `]3/2`, the offset 1/5 leaves the restricted lower end 1 in force -/
theorem gamma_offset_refused :
    let f : FamSt Rat := Witness.gammaRestricted
    (match fire Witness.plParent f 3 5 with | .error .constraint => true | _ => false) = true ∧
    (match fire Witness.plParent f 3 (3/2) with | .ok g => g.dd.dom.lo == 3/2 && !g.dd.dom.inclLo && boundsInDom g.dd | _ => false) = true ∧
    (match fire Witness.plParent f 3 (1/5) with | .ok g => g.dd.dom.lo == 1 && g.dd.dom.inclLo && g.p3 == 1/5 | _ => false) = true := by
  refine ⟨?_, ?_, ?_⟩ <;> decide +kernel

/-! ## families whose parent has closed forms: `H` is proved, the instances are unconditional -/

/-- **exponential_H**: the transcribed `pProb`, `qProb`, `Expectation` of
`ExponentialDiscreteDistribution` satisfy `H` on every domain, for every rate `lam > 0`
(monotone, mutually inverse, `a·ΔP ≤ ΔE ≤ b·ΔP` from `1 + t ≤ eᵗ`). -/
theorem exponential_H (lam lo hi : ℝ) (hl : 0 < lam) : ParentOK (expParent lam) lo hi :=
  exponential_parentOK lam lo hi hl

/-- **truncated_exponential_H**: likewise for `TruncatedExponentialDiscreteDistribution` on every
domain below the truncation point -/
theorem truncated_exponential_H (lam tp lo hi : ℝ) (hl : 0 < lam) (ht : 0 < tp) (hlo : lo ≤ hi) (hhi : hi ≤ tp) :
    ParentOK (texpParent lam tp (texpCond lam tp)) lo hi :=
  truncated_exponential_parentOK lam tp lo hi hl ht hlo hhi

/-- **uniform_H**: likewise for `UniformDiscreteDistribution` on every sub-interval of its support -/
theorem uniform_H (mn mx lo hi : ℝ) (hw : mn < mx) (h1 : mn ≤ lo) (h2 : hi ≤ mx) (hl : lo ≤ hi) :
    ParentOK (unifParent mn mx) lo hi :=
  uniform_parentOK mn mx lo hi hw h1 h2 hl

/-- **exponential_history_valid**: an `ExponentialDiscreteDistribution` built with `n ≥ 1` classes
and rate `> 0` is a valid partition after every history, of any length, of `setParameterValue`
(any name; values `> 0` when accepted — refused ones leave the object unchanged),
`setNumberOfCategories (≥ 1)`, `setMedian`, `restrictToConstraint` (any interval: refused when
disjoint) and `discretize`.  No hypothesis on the parent is left: `H` is `exponential_H`. -/
theorem exponential_history_valid (orc : Parent ℝ) (n : Nat) (lam : ℝ) (f : FamSt ℝ) (ops : List FOp)
    (hn : 1 ≤ n) (hl : 0 < lam) (hc : construct orc .exp n lam 0 0 false 1 = .ok f)
    (hreg : ∀ op ∈ ops, op.regular) :
    Valid (frun orc f ops).dd ∧ Pre (frun orc f ops).dd ∧ 0 < (frun orc f ops).p1 := by
  have := exp_run orc f ops hreg (exp_construct orc n lam f hn hl hc)
  exact ⟨this.good.valid, this.good.pre, this.rate⟩

/-- **uniform_history_valid**: the same for `UniformDiscreteDistribution(n, a, b)`, `a ≠ b`; the
domain stays inside the support `[min(a,b), max(a,b)]`. -/
theorem uniform_history_valid (orc : Parent ℝ) (n : Nat) (a b : ℝ) (f : FamSt ℝ) (ops : List FOp)
    (hn : 1 ≤ n) (hab : a ≠ b) (hc : construct orc .unif n a b 0 false 1 = .ok f)
    (hreg : ∀ op ∈ ops, op.regular) :
    Valid (frun orc f ops).dd ∧ Pre (frun orc f ops).dd ∧
      (frun orc f ops).p1 ≤ (frun orc f ops).dd.dom.lo ∧ (frun orc f ops).dd.dom.hi ≤ (frun orc f ops).p2 := by
  have := unif_run orc f ops hreg (unif_construct orc n a b f hn hab hc)
  exact ⟨this.good.valid, this.good.pre, this.lo, this.hi⟩

/-- **truncated_exponential_history_valid**: the same for
`TruncatedExponentialDiscreteDistribution(n, lambda, tp)`, `lambda, tp > 0`: updates of `lambda` and of
the truncation point (which moves the upper end of the domain and, after a restriction, is
constrained by the domain itself), class-count changes, median toggles, restrictions (refused when
they do not accept `tp`), re-discretisations; the domain stays below the truncation point. -/
theorem truncated_exponential_history_valid (orc : Parent ℝ) (n : Nat) (lam tp : ℝ) (f : FamSt ℝ) (ops : List FOp)
    (hn : 1 ≤ n) (hl : 0 < lam) (ht : 0 < tp) (hc : construct orc .texp n lam tp 0 false 1 = .ok f)
    (hreg : ∀ op ∈ ops, op.regular) :
    Valid (frun orc f ops).dd ∧ Pre (frun orc f ops).dd ∧ (frun orc f ops).dd.dom.hi ≤ (frun orc f ops).p2 ∧
      (frun orc f ops).p3 = texpCond (frun orc f ops).p1 (frun orc f ops).p2 := by
  have := texp_run orc f ops hreg (texp_construct orc n lam tp f hn hl ht hc)
  exact ⟨this.good.valid, this.good.pre, this.hi, this.cond⟩

/-! ## non-vacuity: the hypotheses are met by concrete states (exact rationals, same program text) -/

/-- mean-valued classes of the piecewise-linear parent: resolved, discretisation returns, all
clauses hold, the discrete mean is the parent's mean 1 -/
example :
    resolved Witness.plParent (Witness.plState false 1) = true ∧
    (match eqProp Witness.plParent (Witness.plState false 1) with
     | .ok s => nClassesOk s && probsNonneg s && probsSumOne 0 s && boundsMonoInDom s && valuesStrictMono s &&
         valuesInClass s && equalMass s && (discreteMean s == 1)
     | .error _ => false) = true := by
  constructor <;> decide +kernel

/-- the equal-interval scheme and the scheme with fallback on the uniform parent, 5 classes -/
example :
    (match eqInt Witness.unif01 (Witness.unifState 5 false 2) with
     | .ok s => nClassesOk s && probsNonneg s && probsSumOne 0 s && boundsMonoInDom s && valuesStrictMono s && valuesInClass s
     | .error _ => false) = true ∧
    (match discretize Witness.unif01 (Witness.unifState 5 true 3) with
     | .ok s => nClassesOk s && probsSumOne 0 s && valuesInClass s && (s.cats == [1/10, 3/10, 1/2, 7/10, 9/10])
     | .error _ => false) = true := by
  constructor <;> decide +kernel

/-- the equal-interval scheme on a one-point domain (no width, no mass — the former known finding
C09-equal-interval-no-width): three classes of probability 1/3 at distinct values -/
example :
    (match eqInt Witness.unif01 { Witness.unifState 3 false 2 with dom := ⟨1/5, 1/5, true, true, 0⟩ } with
     | .ok s => nClassesOk s && probsNonneg s && probsSumOne 0 s && boundsMonoInDom s && valuesStrictMono s &&
         (s.probs == [1/3, 1/3, 1/3])
     | .error _ => false) = true := by
  decide +kernel

/-- `H` is satisfiable: the uniform parent on `[0,1]`, the exponential parent on `[0,5]` -/
example : ParentOK (unifParent 0 1) 0 1 ∧ ParentOK (expParent 2) 0 5 :=
  ⟨uniform_H 0 1 0 1 (by norm_num) le_rfl le_rfl (by norm_num), exponential_H 2 0 5 (by norm_num)⟩

/-- look-ups and cumulative queries on a concrete 4-class state -/
example :
    getCategoryIndex Witness.fourClasses 2 = .ok 2 ∧ getValueCategory Witness.fourClasses (5/2) = .ok (5/2) ∧
    cInf Witness.fourClasses (5/2) = 1/2 ∧ cIInf Witness.fourClasses (5/2) = 3/4 ∧
    cSup Witness.fourClasses (5/2) = 1/4 ∧ cSSup Witness.fourClasses (5/2) = 1/2 := by
  refine ⟨?_, ?_, ?_, ?_, ?_, ?_⟩ <;> decide +kernel

end Bpp.C09
