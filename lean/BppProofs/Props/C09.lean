import BppModel.Discretize
namespace Bpp.C09
end Bpp.C09
