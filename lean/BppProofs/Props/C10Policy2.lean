import BppProofs.Lemmas.OptimPolicy2
import BppProofs.Props.C10Policy
/-!
# C10, part 5c — the constraint policy of the remaining optimisers

"Under the automatic-constraint policy the objective is never evaluated outside its parameters'
constraints and the reported point is feasible", end to end (`init`, any number of steps, the
redefined `optimize` where there is one; however the run ends — exceptions carry the function, and
`ROk` demands the feasibility of its log too) for `NewtonOneDimension`, `SimpleMultiDimensions`,
`SimpleNewtonMultiDimensions`, `DownhillSimplexMethod` and `MetaOptimizer` on the objective of the
harness.  With `C10Policy` (golden section, Brent) and `C10LinePolicy` (Powell, conjugate gradient,
BFGS) all the modelled optimisers are covered (the Newton backtracking search only ever runs on a
`DirectionFunction`: `lineSearch_safe`).

What these optimisers do besides evaluating at lists tied to `init`'s constraints:
* `NewtonOneDimension` undoes a trial that increased the function with `setParameters(bck)`, `bck` being
  the *function's own* list (no constraints) saved when the step began: the point restored is the point
  the step found the function at, which was feasible;
* the coordinate-wise optimisers run a one-dimensional optimiser (under their own constraint policy,
  which the theorem follows through every `init` / `optimize` of that optimiser) on the sub-list of each
  coordinate and copy the function's point back into their list with `matchParametersValues`, which
  checks and then goes through `setValue`;
* the simplex method keeps an *unconstrained* list of coordinate sums, and evaluates the function at it
  in the contraction, where it holds the midpoints of two vertices: an interval constraint accepts the
  midpoint of two values it accepts.  This needs parameters of **precision 0** (hypothesis `hprec` of
  `simplex_auto_policy_feasible_partial`, what the harness and the other simplex theorems assume): with a
  positive precision `Parameter::setValue` ignores a request within `precision/2` of the stored value,
  so the list of sums can keep a stored *sum* (in general outside the constraint) instead of taking the
  midpoint, and the function is evaluated there — `simplex_policy_needs_precision0` is such a run.
As in `C10Policy`, the theorems only need `policy ≠ ignore`.
-/
namespace Bpp.C10
open Bpp Bpp.Optim

/-- **newton1d_auto_policy_feasible**: `NewtonOneDimension` — `init` (one evaluation), any number of steps
(the Newton trial, and the Felsenstein-Churchill corrections: the function is put back where the step
found it with its own unconstrained list, the halved movement is tried) — on the objective of the
harness: however the run ends, every point logged was feasible, and the reported parameter is feasible. -/
theorem newton1d_auto_policy_feasible (obj : List ℝ → ℝ) (D : Deriv ℝ) (cap : Option Nat)
    (params : PList ℝ) (s : St (Fn ℝ) (Newton1 ℝ) ℝ) (hpol : s.core.policy ≠ .ignore)
    (hfeas : feasibleList params = true) (hnd : (params.map (·.name)).Nodup)
    (hs0 : FeasFn (consOf params) s.fn) :
    ROk (FeasFn (consOf params))
      (fun s1 => Spec.feasibleLog (consOf params) s1.fn.log = true ∧ Spec.feasibleReport s1.core.params = true ∧
        ∀ fuel', ROk (FeasFn (consOf params))
          (fun r => Spec.feasibleLog (consOf params) r.1.fn.log = true ∧ Spec.feasibleReport r.1.core.params = true)
          ((newtonAlgo (Fn.iface obj D cap)).optimize fuel' s1))
      ((newtonAlgo (Fn.iface obj D cap)).init s params) := by
  have ha := newton_safeAlgo (objective_safeL obj D cap (consOf params) s.fn.point.length)
    (objective_restore obj D cap (consOf params) s.fn.point.length)
  have hT0 := applyPolicy_tied params s.core.policy hpol hfeas hnd
  refine rok_final (init_safe ha s params ⟨hs0, rfl⟩ hT0) (fun s1 hi => ⟨hi.1.1.1, hi.2.report, fun fuel' => ?_⟩)
  exact rok_final (optimize_safe ha fuel' s1 hi.1 hi.2) (fun r ho => ⟨ho.1.1.1, ho.2.report⟩)

/-- **simple_multi_auto_policy_feasible**: `SimpleMultiDimensions` — `init` (the function is set to the
optimiser's list), any number of steps (for each coordinate: Brent's method, bracketing included,
initialised with the sub-list of that coordinate under the optimiser's policy and run to its end; the
function's point copied back into the optimiser's list). -/
theorem simple_multi_auto_policy_feasible (obj : List ℝ → ℝ) (D : Deriv ℝ) (cap : Option Nat) (fuel : Nat)
    (params : PList ℝ) (s : St (Fn ℝ) (Simple ℝ) ℝ) (hpol : s.core.policy ≠ .ignore)
    (hfeas : feasibleList params = true) (hnd : (params.map (·.name)).Nodup)
    (hs0 : FeasFn (consOf params) s.fn) :
    ROk (FeasFn (consOf params))
      (fun s1 => Spec.feasibleLog (consOf params) s1.fn.log = true ∧ Spec.feasibleReport s1.core.params = true ∧
        ∀ fuel', ROk (FeasFn (consOf params))
          (fun r => Spec.feasibleLog (consOf params) r.1.fn.log = true ∧ Spec.feasibleReport r.1.core.params = true)
          ((simpleAlgo (Fn.iface obj D cap) fuel).optimize fuel' s1))
      ((simpleAlgo (Fn.iface obj D cap) fuel).init s params) := by
  have hsafe := objective_safeL obj D cap (consOf params) s.fn.point.length
  have hset := objective_safeSetL obj D cap (consOf params) s.fn.point.length
  have hT0 := applyPolicy_tied params s.core.policy hpol hfeas hnd
  refine rok_final (simple_init_inv hsafe hset fuel s params ⟨hs0, rfl⟩ hT0 hpol)
    (fun s1 hi => ⟨hi.1.1.1, hi.2.1.report, fun fuel' => ?_⟩)
  exact rok_final (optimize_invS (simple_invStep hsafe fuel) fuel' s1 hi) (fun r ho => ⟨ho.1.1.1, ho.2.1.report⟩)

/-- **simple_newton_auto_policy_feasible**: the same for `SimpleNewtonMultiDimensions` (Newton's method,
with its restorations, along each coordinate in turn). -/
theorem simple_newton_auto_policy_feasible (obj : List ℝ → ℝ) (D : Deriv ℝ) (cap : Option Nat) (fuel : Nat)
    (params : PList ℝ) (s : St (Fn ℝ) (SNewton ℝ) ℝ) (hpol : s.core.policy ≠ .ignore)
    (hfeas : feasibleList params = true) (hnd : (params.map (·.name)).Nodup)
    (hs0 : FeasFn (consOf params) s.fn) :
    ROk (FeasFn (consOf params))
      (fun s1 => Spec.feasibleLog (consOf params) s1.fn.log = true ∧ Spec.feasibleReport s1.core.params = true ∧
        ∀ fuel', ROk (FeasFn (consOf params))
          (fun r => Spec.feasibleLog (consOf params) r.1.fn.log = true ∧ Spec.feasibleReport r.1.core.params = true)
          ((snewtonAlgo (Fn.iface obj D cap) fuel).optimize fuel' s1))
      ((snewtonAlgo (Fn.iface obj D cap) fuel).init s params) := by
  have hsafe := objective_safeL obj D cap (consOf params) s.fn.point.length
  have hset := objective_safeSetL obj D cap (consOf params) s.fn.point.length
  have hres := objective_restore obj D cap (consOf params) s.fn.point.length
  have hT0 := applyPolicy_tied params s.core.policy hpol hfeas hnd
  refine rok_final (snewton_init_inv hsafe hset hres fuel s params ⟨hs0, rfl⟩ hT0 hpol)
    (fun s1 hi => ⟨hi.1.1.1, hi.2.1.report, fun fuel' => ?_⟩)
  exact rok_final (optimize_invS (snewton_invStep hsafe hres fuel) fuel' s1 hi) (fun r ho => ⟨ho.1.1.1, ho.2.1.report⟩)

/-- **simplex_auto_policy_feasible_partial**: `DownhillSimplexMethod` — `init` (the `nDim + 1` vertices), any
number of steps (reflection, expansion, contraction — trial points are the optimiser's list moved by
`setValue` —, and the contraction of the whole simplex, where the function is evaluated at the
*unconstrained* list of sums holding the midpoints of a vertex and the lowest one), the final evaluation
of its `optimize` at the best vertex.

*Partial*: with the four hypotheses of the other theorems alone the statement is **false** for the simplex
as modelled (`simplex_policy_needs_precision0` below: an evaluation outside the constraint).  Extra
hypothesis `hprec`: the parameters have precision 0 (as in the harness, and in `C10Simplex`); on that
domain this is the full statement.  Precision 0 is what makes the list of sums take the midpoints it is
given: `Parameter::setValue` ignores a request within `precision/2` of the stored value, and what the list
of sums stores otherwise — sums of `nDim + 1` coordinates — need not satisfy any constraint. -/
theorem simplex_auto_policy_feasible_partial (obj : List ℝ → ℝ) (D : Deriv ℝ) (cap : Option Nat)
    (params : PList ℝ) (s : St (Fn ℝ) (Simplex ℝ) ℝ) (hpol : s.core.policy ≠ .ignore)
    (hfeas : feasibleList params = true) (hnd : (params.map (·.name)).Nodup)
    (hprec : ∀ q ∈ params, q.p.precision = 0)
    (hs0 : FeasFn (consOf params) s.fn) :
    ROk (FeasFn (consOf params))
      (fun s1 => Spec.feasibleLog (consOf params) s1.fn.log = true ∧ Spec.feasibleReport s1.core.params = true ∧
        ∀ fuel', ROk (FeasFn (consOf params))
          (fun r => Spec.feasibleLog (consOf params) r.1.fn.log = true ∧ Spec.feasibleReport r.1.core.params = true)
          (simplexOptimize (Fn.iface obj D cap) fuel' s1))
      ((simplexAlgo (Fn.iface obj D cap)).init s params) := by
  have hsafe := objective_safeL obj D cap (consOf params) s.fn.point.length
  have hw := objective_safeW obj D cap (consOf params) s.fn.point.length
  have hV0 : Vert (consOf params) (names (applyPolicy s.core.policy params)) (applyPolicy s.core.policy params) :=
    ⟨applyPolicy_tied params s.core.policy hpol hfeas hnd, applyPolicy_prec0 _ _ hprec, rfl⟩
  refine rok_final (simplex_init_inv hsafe hw s params ⟨hs0, rfl⟩ hV0)
    (fun s1 hi => ⟨hi.fn.1.1, hi.params.1.report, fun fuel' => ?_⟩)
  exact rok_final (simplexOptimize_inv hsafe hw fuel' s1 hi) (fun r ho => ⟨ho.fn.1.1, ho.params.1.report⟩)

/-- **simplex_policy_needs_precision0**: the counterexample that makes `hprec` necessary, machine-checked
in exact rational arithmetic (the model is one program text for every scalar type; the run uses `+ - * /`
and comparisons only).  One parameter of value `1/10`, precision `6/25`, constraint `[-7/100, 1/4]`; a
fresh `DownhillSimplexMethod` under the **automatic** policy; the function at `(1/10)` with an empty log;
the objective a table on the visited points (`SimplexCex` in `Lemmas/OptimPolicy2.lean`, where the run is
narrated).  All four hypotheses of the theorems hold, yet after `init` and `optimize` the log contains
`-1/10`, outside the constraint: in the second step's contraction the list of sums held `-1/10` (a sum of
coordinates, not a point), was told to take the midpoint `-1/20`, ignored the request (within
`precision/2 = 3/25`), and the function was evaluated at it. -/
theorem simplex_policy_needs_precision0 :
    SimplexCex.s0.core.policy = .auto ∧ feasibleList SimplexCex.params = true ∧
    (SimplexCex.params.map (·.name)).Nodup ∧
    Spec.feasibleLog SimplexCex.cons SimplexCex.s0.fn.log = true ∧
    Spec.feasiblePoint SimplexCex.cons SimplexCex.s0.fn.point = true ∧
    SimplexCex.log.contains [-1/10] = true ∧
    Spec.feasibleLog SimplexCex.cons SimplexCex.log = false := by
  decide +kernel

/-- **meta_auto_policy_feasible**: `MetaOptimizer` (a `SimpleMultiDimensions` for a first group of
parameters, a `BfgsMultiDimensions` for a second one; iteration type `step` or `full`; any schedule of
tolerances, whatever `log10` is) — `init` (the two sub-lists, the function's point copied into the
optimiser's list, the function set to it), any number of steps (each optimiser in turn: its sub-list
updated from the optimiser's list, `init` under the `MetaOptimizer`'s policy, one step or a whole
`optimize`, the result copied back). -/
theorem meta_auto_policy_feasible (obj : List ℝ → ℝ) (D : Deriv ℝ) (cap : Option Nat) (log10 : ℝ → ℝ) (fuel : Nat)
    (params : PList ℝ) (s : St (Fn ℝ) (Meta ℝ) ℝ) (hpol : s.core.policy ≠ .ignore)
    (hfeas : feasibleList params = true) (hnd : (params.map (·.name)).Nodup)
    (hs0 : FeasFn (consOf params) s.fn) :
    ROk (FeasFn (consOf params))
      (fun s1 => Spec.feasibleLog (consOf params) s1.fn.log = true ∧ Spec.feasibleReport s1.core.params = true ∧
        ∀ fuel', ROk (FeasFn (consOf params))
          (fun r => Spec.feasibleLog (consOf params) r.1.fn.log = true ∧ Spec.feasibleReport r.1.core.params = true)
          ((metaAlgo (Fn.iface obj D cap) log10 fuel).optimize fuel' s1))
      ((metaAlgo (Fn.iface obj D cap) log10 fuel).init s params) := by
  have hsafe := objective_safeL obj D cap (consOf params) s.fn.point.length
  have hset := objective_safeSetL obj D cap (consOf params) s.fn.point.length
  have hT0 := applyPolicy_tied params s.core.policy hpol hfeas hnd
  refine rok_final (meta_init_inv hsafe hset log10 fuel s params ⟨hs0, rfl⟩ hT0 hpol)
    (fun s1 hi => ⟨hi.1.1.1, hi.2.1.report, fun fuel' => ?_⟩)
  exact rok_final (optimize_invS (meta_invStep hsafe hset log10 fuel) fuel' s1 hi) (fun r ho => ⟨ho.1.1.1, ho.2.1.report⟩)

/-- non-vacuity: the hypotheses of the theorems (those of `simplex_auto_policy_feasible`, which has one
more, included) hold for a two-parameter list of precision 0 (parameter 0 constrained to `[0, 10]`,
parameter 1 free), a simplex optimiser under the automatic policy and a function at the feasible point
`(4, 1)` with an empty log -/
example : let c : Interval ℝ := ⟨.fin 0, .fin 10, true, true, 0⟩
    let params : PList ℝ := [⟨0, ⟨4, 0, some c, false⟩⟩, ⟨1, ⟨1, 0, none, false⟩⟩]
    let s : St (Fn ℝ) (Simplex ℝ) ℝ := ⟨{ freshCore 100 0 0 with policy := .auto }, ⟨[4, 1], []⟩, Simplex.fresh⟩
    s.core.policy ≠ .ignore ∧ feasibleList params = true ∧ (params.map (·.name)).Nodup ∧
      (∀ q ∈ params, q.p.precision = 0) ∧ FeasFn (consOf params) s.fn := by
  intro c params s
  refine ⟨by simp [s], ?_, by simp [params], ?_, ?_, ?_⟩
  · simp [params, feasibleList, Param.invOk, Param.accepts, c, Interval.isCorrect, Interval.isCorrectB, Bound.geb, Bound.leb]; norm_num
  · intro q hq
    simp only [params, List.mem_cons, List.not_mem_nil, or_false] at hq
    rcases hq with rfl | rfl <;> rfl
  · rfl
  · simp [s, params, consOf, Spec.feasiblePoint, Spec.accepts, c, Interval.isCorrect, Interval.isCorrectB, Bound.geb, Bound.leb]; norm_num

end Bpp.C10
