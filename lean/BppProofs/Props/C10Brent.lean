import BppProofs.Lemmas.OptimBrent
import BppProofs.Lemmas.OptimObjective
import BppProofs.Lemmas.OptimSync
/-!
# C10, part 6 — BrentOneDimension in full (outward and inward bracketing)

`doInit`, `doStep`, the stop condition and `optimize` of `BrentOneDimension` (model in
`BppModel/OptimOneDim.lean`) driven by the `AbstractOptimizer` template, over `ℝ`, for every function
object whose evaluation step computes a function `g` of the abscissa (`Det I g J`).  This is the
optimiser the coordinate-wise `SimpleMultiDimensions` and every line minimisation (Powell, conjugate
gradient) are built on.  Rounding is not modelled.
-/
namespace Bpp.C10
open Bpp Bpp.Optim

variable {F : Type} {J : F → PList ℝ → Prop}

/-- **brent_descent** (with `reported_value_consistent` for this optimiser).  After `init` (either
bracketing) and `optimize`, whatever the tolerance, the cap and the number of steps: the value
returned is not above the function at the parameter's starting value `x0` ("we don't want to lose
our initial guess"), nor above the function at either end of the initial interval; it is the
function at an abscissa `x` which is what the optimiser's parameter holds, and the optimiser's
current value.  Which abscissa the parabolic interpolation proposes plays no role. -/
theorem brent_descent (I : FunI F ℝ) (g : ℝ → ℝ) (hd : Det I g J) (fuel fuel' : Nat)
    (s s1 s2 : St F (Brent ℝ) ℝ) (params : PList ℝ) (x0 v : ℝ)
    (hJ : J s.fn (applyPolicy s.core.policy params))
    (hx0 : value0 (applyPolicy s.core.policy params) = some x0)
    (hinit : (brentAlgo I fuel).init s params = .ok s1)
    (hopt : brentOptimize I fuel' s1 = .ok (s2, v)) :
    Spec.descent v (g x0) = true ∧ Spec.descent v (g s.ext.xinf) = true ∧ Spec.descent v (g s.ext.xsup) = true ∧
    s2.core.cur = v ∧ ∃ x, v = g x ∧ value0 s2.core.params = some x ∧ J s2.fn s2.core.params := by
  unfold Algo.init at hinit
  dsimp only at hinit
  split at hinit
  · cases hinit
  rename_i sa hdi
  simp only [Except.ok.injEq] at hinit
  have hi := brentDoInit_spec I g hd fuel _ _ params x0 hdi hJ hx0
  have hi1 : Brent.Inv g J (min (g x0) (min (g s.ext.xinf) (g s.ext.xsup))) s1 := by
    rw [← hinit]; exact hi.congr rfl rfl rfl
  obtain ⟨h1, h2, h3⟩ := brentOptimize_spec I g hd fuel' _ s1 s2 v hi1 hopt
  refine ⟨?_, ?_, ?_, h2, h3⟩
  · simp only [Spec.descent, ScalarReal.leb_iff]; exact le_trans h1 (min_le_left _ _)
  · simp only [Spec.descent, ScalarReal.leb_iff]; exact le_trans h1 (le_trans (min_le_right _ _) (min_le_left _ _))
  · simp only [Spec.descent, ScalarReal.leb_iff]; exact le_trans h1 (le_trans (min_le_right _ _) (min_le_right _ _))

/-- the counter of Brent's method never goes backwards (its `doStep` does not touch it): the template
theorems `optimize_terminates` and `budget` (Props/C10.lean) apply to it -/
theorem brent_monotone (I : FunI F ℝ) (fuel : Nat) : Monotone (brentAlgo I fuel) := by
  constructor
  · intro s s' v h
    change brentDoStep I s = .ok (s', v) at h
    unfold brentDoStep at h
    generalize brentPropose s.core.tolerance s.ext = pr at h
    obtain ⟨g1, u⟩ := pr
    dsimp only at h
    split at h
    · cases h
    · split at h
      · cases h
      · split at h
        · cases h
        · simp only [Except.ok.injEq, Prod.mk.injEq] at h
          obtain ⟨rfl, -⟩ := h
          exact ⟨le_refl _, rfl⟩
  · intro s
    unfold brentAlgo brentStop
    dsimp only
    split <;> exact ⟨rfl, rfl⟩

/-- `brent_descent` for the objective of the harness, searched along an unconstrained coordinate
starting from the value `x0` of that coordinate -/
theorem brent_descent_objective (obj : List ℝ → ℝ) (D : Deriv ℝ) (cap : Option Nat) (pt0 : List ℝ) (k : Nat) (hk : k < pt0.length)
    (q : NP ℝ) (hq : q.name = k) (hp : q.p.precision = 0) (hc : q.p.constraint = none)
    (fuel fuel' : Nat) (s s1 s2 : St (Fn ℝ) (Brent ℝ) ℝ) (v : ℝ) (hpt : s.fn.point = pt0)
    (hinit : (brentAlgo (Fn.iface obj D cap) fuel).init s [q] = .ok s1)
    (hopt : brentOptimize (Fn.iface obj D cap) fuel' s1 = .ok (s2, v)) :
    v ≤ obj (pt0.set k q.p.value) ∧ ∃ x, value0 s2.core.params = some x ∧ v = obj (pt0.set k x) ∧ s2.core.cur = v := by
  have hJ : Along pt0 k s.fn (applyPolicy s.core.policy [q]) := by
    refine ⟨?_, hk, by rw [hpt], fun _ _ => by rw [hpt]⟩
    cases s.core.policy
    · exact ⟨q, rfl, hq, hp, hc⟩
    · exact ⟨_, rfl, hq, hp, by simp [Param.removeConstraint]⟩
    · exact ⟨_, rfl, hq, hp, hc⟩
  have hx0 : value0 (applyPolicy s.core.policy [q]) = some q.p.value := by
    cases s.core.policy <;> simp [applyPolicy, value0, Param.toAuto, Param.removeConstraint]
  obtain ⟨h1, -, -, h4, x, hvx, hxs, -⟩ :=
    brent_descent _ _ (objective_det obj D cap pt0 k) fuel fuel' s s1 s2 [q] _ v hJ hx0 hinit hopt
  simp only [Spec.descent, ScalarReal.leb_iff] at h1
  exact ⟨h1, x, hxs, hvx, h4⟩

/-- `brent_descent` for the objective of the harness searched along a coordinate whose parameter has
**any constraint** (interval or none) and either dynamic type, under any of the three policies — only
precision 0 and a feasible starting value are assumed.  Under the automatic policy a request outside
the constraint is corrected by `AutoParameter::setValue`: the abscissae Brent's method books may differ
from the points the objective is evaluated at, but the value returned is still the objective at what
the optimiser's parameter holds, and not above the objective at the starting value. -/
theorem brent_descent_objective_con (obj : List ℝ → ℝ) (D : Deriv ℝ) (cap : Option Nat) (pt0 : List ℝ) (k : Nat) (hk : k < pt0.length)
    (q : NP ℝ) (hq : q.name = k) (hp : q.p.precision = 0) (hi : q.p.invOk = true)
    (fuel fuel' : Nat) (s s1 s2 : St (Fn ℝ) (Brent ℝ) ℝ) (v : ℝ) (hpt : s.fn.point = pt0)
    (hinit : (brentAlgo (Fn.iface obj D cap) fuel).init s [q] = .ok s1)
    (hopt : brentOptimize (Fn.iface obj D cap) fuel' s1 = .ok (s2, v)) :
    v ≤ obj (pt0.set k q.p.value) ∧ ∃ x, value0 s2.core.params = some x ∧ v = obj (pt0.set k x) ∧ s2.core.cur = v := by
  obtain ⟨p0, hap, hp0v, hp0p, hp0i⟩ := applyPolicy_single s.core.policy q
  have hp0prec : p0.precision = 0 := by rw [hp0p]; exact hp
  have hp0inv : p0.invOk = true := hp0i hi
  rw [hq] at hap
  have hJ : AlongP pt0 k p0 s.fn (applyPolicy s.core.policy [q]) := by
    rw [hap]
    exact ⟨⟨p0.value, by rw [reval_self], hp0inv⟩, hk, by rw [hpt], fun _ _ => by rw [hpt]⟩
  have hx0 : value0 (applyPolicy s.core.policy [q]) = some q.p.value := by
    rw [hap]; simp [value0, hp0v]
  obtain ⟨h1, -, -, h4, x, hvx, hxs, hJ2⟩ :=
    brent_descent _ _ (objective_det_con obj D cap pt0 k p0 hp0prec hp0inv) fuel fuel' s s1 s2 [q] _ v hJ hx0 hinit hopt
  simp only [Spec.descent, ScalarReal.leb_iff] at h1
  have hc0 : corr p0 q.p.value = q.p.value := by
    rw [← hp0v]; exact corr_accepted p0 _ hp0prec hp0inv hp0inv
  rw [hc0] at h1
  refine ⟨h1, x, hxs, ?_, h4⟩
  obtain ⟨⟨w, hw, hacc⟩, -⟩ := hJ2
  have hwx : w = x := by
    rw [hw] at hxs; simpa [value0] using hxs
  rw [hvx, ← hwx, corr_accepted p0 w hp0prec hp0inv hacc]

end Bpp.C10
