import BppProofs.Lemmas.TreeObs
import BppProofs.Props.C14Observer
/-!
# C15, object level — the tree container watched by association observers
(src/Bpp/Graph/AssociationTreeGraphImplObserver.h, model `BppModel/TreeObs.lean`)

Proved here:
* **an edge object given to `addSon` / `setFather` is attached to the new branch** (`addSon_keeps_object`,
  `setFather_keeps_object`), including the case where it was the object of the branch to the former
  father (the unlink notification dissociates it, `associateEdge` attaches it again); an object that
  sits on another branch is refused with the state unchanged (`setFather_refuses_foreign_object`); the
  other edge objects stay where they are (`setFather_keeps_other_objects`);
* **re-rooting keeps the attached objects** (`rootAt_keeps_objects`, `rootAt_keeps_invariant`,
  `rootAt_objects_live`): no association changes, and every associated id is still in the graph;
* over all histories of object-level calls the association invariant holds and the cached validity
  flag is sound (`tw_inv`, `tw_cache_sound`).
-/
namespace Bpp.C15
open Bpp Bpp.Graph Bpp.AL Bpp.Graph.TW

/-- **addSon keeps the edge object**: after a successful `addSon(father a, son s, edgeObject x)`
through observer `k`, `getEdgeLinking(a, s)` answers `x`, and the association invariants still hold -/
theorem addSon_keeps_object (tw tw' : TW) (k : Nat) (a s x : Obj) (hw : WInv tw.w)
    (h : tw.addSon k a s (some x) = (.ok, tw')) :
    ∃ o', tw'.w.getObs k = some o' ∧ World.edgeLinking tw'.w o' a s = some (some x) ∧ WInv tw'.w := by
  have h' : tw.ofO (tw.w.link k a s (some x)) true = (.ok, tw') := h
  obtain ⟨u, hl⟩ := ofO_ok h'
  obtain ⟨o, o', ia, ib, e, hk, hk', ha, hb, hNg, he, hx⟩ := world_link_ok_spec hw hl
  have hinv := world_link_inv hw k a s (some x)
  rw [hl] at hinv
  refine ⟨o', hk', ?_, hinv⟩
  simp [World.edgeLinking, hNg, ha, hb, he, hx]

/-- **setFather keeps the edge object**: after a successful `setFather(node a, father f, edgeObject x)`
through observer `k`, the branch `f -> a` carries `x` (`getEdgeLinking(f, a)` answers `x`), `f` is the
father of `a` (directed or not: the node had at most one incoming neighbour, which was unlinked),
and the association invariants still hold.  `x` may be the object of the branch to the former father -/
theorem setFather_keeps_object (tw tw' : TW) (k : Nat) (a f x : Obj) (hw : WInv tw.w)
    (h : tw.setFather k a f (some x) = (.ok, tw')) :
    ∃ o', tw'.w.getObs k = some o' ∧ World.edgeLinking tw'.w o' f a = some (some x) ∧
      tw'.fatherOf o' a = some (some f) ∧ WInv tw'.w := by
  obtain ⟨o, o', ia, ifa, e, hk, hk', ha, hf, hNg, hw', he, hfa, hx, _, _⟩ := setFather_ok_spec hw h
  have hf' : find f o'.Ng = some ifa := by rw [hNg]; exact hf
  refine ⟨o', hk', ?_, ?_, hw'⟩
  · simp [World.edgeLinking, hNg, ha, hf, he, hx]
  · simp [TW.fatherOf, hNg, ha, hfa, nodeFromGid_of_find (hw'.obs k o' hk').nodes hf']

/-- the same through the tree query: `getEdgeToFather(a)` answers `x` -/
theorem setFather_edgeToFather (tw tw' : TW) (k : Nat) (a f x : Obj) (hw : WInv tw.w)
    (h : tw.setFather k a f (some x) = (.ok, tw')) :
    ∃ o', tw'.w.getObs k = some o' ∧ tw'.edgeToFather o' a = some (some x) := by
  obtain ⟨o, o', ia, ifa, e, hk, hk', ha, hf, hNg, hw', he, hfa, hx, _, _⟩ := setFather_ok_spec hw h
  refine ⟨o', hk', ?_⟩
  simp [TW.edgeToFather, T.edgeToFather, hNg, ha, hfa, he, hx]

/-- **an object of another branch is refused**: if `x` is associated to an edge and is not the object of
the branch from `a` to its current father, `setFather(a, f, x)` throws and nothing changes -/
theorem setFather_refuses_foreign_object (tw : TW) (k : Nat) (a f x : Obj) (o : Obs) (hw : WInv tw.w)
    (hk : tw.w.getObs k = some o) (hx : o.hasEdge x = true) (hne : tw.edgeToFather o a ≠ some (some x)) :
    tw.setFather k a f (some x) = (.exc .bpp, tw) := by
  have hi := hw.obs k o hk
  rcases hfx : find x o.Eg with _ | ex
  · simp [Obs.hasEdge, has, hfx] at hx
  apply setFather_refused hk hfx
  intro ia ha he
  apply hne
  simp [TW.edgeToFather, ha, he, edgeFromGid_of_find hi.edges hfx]

/-- **the other objects stay**: every edge object `y ≠ x` whose edge is still in the graph after a
successful `setFather(a, f, x)` is still associated to the same edge, both ways -/
theorem setFather_keeps_other_objects (tw tw' : TW) (k : Nat) (a f x : Obj) (hw : WInv tw.w)
    (h : tw.setFather k a f (some x) = (.ok, tw')) (o : Obs) (hk : tw.w.getObs k = some o)
    (y : Obj) (e' : Nat) (hy : (y, e') ∈ o.Eg) (hne : y ≠ x) (hlive : tw'.w.g.hasEdge e' = true) :
    ∃ o', tw'.w.getObs k = some o' ∧ (y, e') ∈ o'.Eg ∧ o'.edgeFromGid e' = some y := by
  obtain ⟨o0, o', ia, ifa, e, hk0, hk', ha, hf, hNg, hw', he, hfa, hx, _, hkeep⟩ := setFather_ok_spec hw h
  rw [hk] at hk0; injection hk0 with hk0; subst hk0
  have hi := hw.obs k o hk
  have hi' := hw'.obs k o' hk'
  have := hkeep y e' hne ((mem_iff_find hi.edges.asc y e').mp hy) hlive
  exact ⟨o', hk', (mem_iff_find hi'.edges.asc y e').mpr this, edgeFromGid_of_find hi'.edges this⟩

/-- **re-rooting keeps the attached objects**: `rootAt` changes no association of any observer -/
theorem rootAt_keeps_objects (tw : TW) (k : Nat) (a : Obj) (r : TW.WRes × TW) (h : tw.rootAt k a = .ok r) :
    r.2.w.obs = tw.w.obs := rootAt_obs h

/-- … and the association invariants still hold against the re-rooted graph (which is consistent, has
nothing pending, and has every node and edge id it had) -/
theorem rootAt_keeps_invariant (tw : TW) (k : Nat) (a : Obj) (r : TW.WRes × TW) (hw : WInv tw.w)
    (h : tw.rootAt k a = .ok r) : WInv r.2.w := rootAt_winv hw h

/-- … so every object is attached to the same node or edge id as before, and that id is still in the graph -/
theorem rootAt_objects_live (tw : TW) (k : Nat) (a : Obj) (r : TW.WRes × TW) (hw : WInv tw.w)
    (h : tw.rootAt k a = .ok r) (j : Nat) (o : Obs) (hj : tw.w.getObs j = some o) :
    r.2.w.getObs j = some o ∧ (∀ x e, find x o.Eg = some e → r.2.w.g.hasEdge e = true) ∧
    (∀ b id, find b o.Ng = some id → r.2.w.g.hasNode id = true) := by
  have hj' : r.2.w.getObs j = some o := by simp only [World.getObs, rootAt_obs h]; exact hj
  have hi := (rootAt_winv hw h).obs j o hj'
  exact ⟨hj', hi.e_live, hi.n_live⟩

/-- **the association invariant over all histories** of object-level calls on the observed tree container
(node creations, links, unlinks, deletions, `addSon`, `setFather` with or without edge object, `rootAt`,
`isValid`; each call succeeding or raising): the graph is consistent and every observer's maps are
inverse of each other and only name live ids -/
theorem tw_inv (d : Bool) (ops : List TWOp) : WInv ((TW.init d).run ops).w :=
  (run_inv ops _ (inv_init d (C14.winv_init d))).winv

/-- **cache soundness over all histories** of the observed container: a set validity flag means the
traversal answers true on the graph as it is now -/
theorem tw_cache_sound (d : Bool) (ops : List TWOp) :
    ((TW.init d).run ops).valid = true → T.isTree ((TW.init d).run ops).w.g = .ok true :=
  (run_inv ops _ (inv_init d (C14.winv_init d))).sound

/-! ### the hypotheses are satisfiable

A rooted tree `10 -> 11` (edge object 100), `10 -> 12` (edge object 101) built through observer 0; it
satisfies `WInv` by `tw_inv`. -/

/-- the history of the examples -/
def exHist : List TWOp :=
  [.createNode 0 10, .createNode 0 11, .createNode 0 12, .addSon 0 10 11 (some 100), .addSon 0 10 12 (some 101)]

example : WInv ((TW.init true).run exHist).w := tw_inv true exHist
/-- `addSon(11, 12, 102)` succeeds -/
example : (((TW.init true).run exHist).addSon 0 11 12 (some 102)).1 = .ok := by decide
/-- `setFather(11, 12, 100)` with the object of the branch to the former father succeeds (also on an unrooted tree) … -/
example : (((TW.init true).run exHist).setFather 0 11 12 (some 100)).1 = .ok := by decide
example : (((TW.init false).run exHist).setFather 0 11 12 (some 100)).1 = .ok := by decide
/-- … and the object 101 of the other branch is still there afterwards -/
example : (((TW.init true).run exHist).setFather 0 11 12 (some 100)).2.w.g.hasEdge 1 = true ∧
    (((TW.init true).run exHist).w.getObs 0).map (·.Eg) = some [(100, 0), (101, 1)] := by decide
/-- `setFather(11, 12, 101)`: 101 is attached, and not to the branch to the father of 11 -/
example : (((TW.init true).run exHist).w.getObs 0).map
    (fun o => o.hasEdge 101 && decide (((TW.init true).run exHist).edgeToFather o 11 ≠ some (some 101))) = some true := by decide
/-- `rootAt(11)` succeeds on this (valid) tree -/
example : (match ((TW.init true).run exHist).rootAt 0 11 with | .ok r => r.1 == .ok | _ => false) = true := by decide
/-- a history after which the flag is set -/
example : ((TW.init true).run (exHist ++ [.isValid])).valid = true := by decide

end Bpp.C15
