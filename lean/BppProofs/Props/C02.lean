import BppProofs.Lemmas.ParamList
/-!
# C02 — bulk parameter updates are atomic; names stay unique; copies are independent
(src/Bpp/Numeric/ParameterList.{h,cpp}, src/Bpp/Numeric/AbstractParametrizable.{h,cpp})

Property theorems only; helper lemmas are in `Lemmas/ParamList.lean`.  The model
(`BppModel/ParamList.lean`) is a heap of parameter objects plus list registers holding
object ids; `step` interprets one operation, `run` a history.  `Inv` is the invariant of
every reachable state: ids valid, every object accepted by its own constraint, names
pairwise different in every list.
-/
namespace Bpp.C02
open Bpp Bpp.ParamList

/-! ## Histories: names stay unique, constraints stay satisfied -/

/-- the invariant holds along every history without `setNamespace` (all sizes, all lengths) -/
theorem inv_run (ops : List Op) (hops : ∀ op ∈ ops, op.keepsNames = true) {s : State} (inv : Inv s) :
    Inv (run s ops) := by
  induction ops generalizing s with
  | nil => exact inv
  | cons op rest ih =>
    exact ih (fun o ho => hops o (List.mem_cons_of_mem _ ho)) (inv_step inv op (hops op (List.mem_cons_self ..)))

/-- **names_unique**: after any history of add / include / share / set* / match* / delete /
sub-list / copy / assign operations (every operation of the machine except `setNamespace`),
from the empty machine, the names of every list are pairwise different. -/
theorem names_unique (ops : List Op) (hops : ∀ op ∈ ops, op.keepsNames = true) (k : Nat) :
    (names (run State.init ops).heap ((run State.init ops).lists k)).Nodup :=
  (inv_run ops hops inv_init).names k

/-- **list_param_inv**: along the same histories every object reachable from a list is
accepted by its own constraint (C01's invariant through the list-level routes). -/
theorem list_param_inv (ops : List Op) (hops : ∀ op ∈ ops, op.keepsNames = true) (k : Nat) :
    ∀ i ∈ (run State.init ops).lists k, ((run State.init ops).heap.get i).ok = true :=
  fun i hi => (inv_run ops hops inv_init).ok i ((inv_run ops hops inv_init).wf k i hi)

/-- non-vacuity: a history mixing the operation kinds -/
example : (names (run State.init [.add 0 ⟨"a", 1, none⟩, .add 0 ⟨"b", 2, none⟩, .copy 0 1,
    .setParam 1 0 ⟨"c", 0, none⟩, .shareAll 1 0]).heap
    ((run State.init [.add 0 ⟨"a", 1, none⟩, .add 0 ⟨"b", 2, none⟩, .copy 0 1,
    .setParam 1 0 ⟨"c", 0, none⟩, .shareAll 1 0]).lists 1)) = ["c", "b", "a"] := by decide

/-- **add_dup_refused**: `addParameter` refuses a name that is already present and changes nothing. -/
theorem add_dup_refused (h : Store) (l : List ObjId) (p : Par) (hp : p.name ∈ names h l) :
    (addParameter h l p).err = some .bpp ∧ (addParameter h l p).heap = h ∧ (addParameter h l p).list = l := by
  have : hasParameter h l p.name = true := (hasParameter_iff h l p.name).2 hp
  simp [addParameter, this]

/-- … and accepts a new name: one fresh object holding `p` is appended, nothing else changes. -/
theorem add_new_appends (h : Store) (l : List ObjId) (p : Par) (hp : p.name ∉ names h l) :
    (addParameter h l p).err = none ∧ (addParameter h l p).list = l ++ [h.next] ∧
    (addParameter h l p).heap.get h.next = p ∧ ∀ i, i ≠ h.next → (addParameter h l p).heap.get i = h.get i := by
  have : hasParameter h l p.name = false := (hasParameter_false_iff h l p.name).2 hp
  simp only [addParameter, this]
  refine ⟨rfl, rfl, by simp, fun i hi => by simp [hi]⟩

/-! ## Two-pass bulk setters: all or nothing

For each of `setParametersValues`, `matchParametersValues`, `setAllParametersValues`:
* `bulk_atomic_*` (no hypothesis at all — any heap, any lists, shared objects, even duplicated
  names): the call succeeds exactly when the first pass accepts every matching value; otherwise it
  raises (ConstraintException / ParameterNotFoundException) and the heap is *unchanged*;
* `bulk_applies_*` (names of the iterated list pairwise different, which `names_unique` gives for
  every reachable list): on success every matching target holds the source's value, every other
  object is untouched, no name or constraint changed, nothing was allocated. -/

theorem bulk_atomic_setParametersValues (h : Store) (l src : List ObjId) :
    let r := setParametersValues h l src
    (r.err = none ↔
      ∀ s ∈ src, ∀ t, find? h l (nameOf h s) = some t → (h.get t).rejects (h.get s).value = false) ∧
    (∀ e, r.err = some e → e = .constraint ∧ r.heap = h) := by
  simp only [setParametersValues]
  cases c : checkSome h l src with
  | none =>
    have ne := applySome_noerr h l src h (SameShape.refl h) (fun _ => Or.inl rfl) (checkSome_none.1 c)
    exact ⟨⟨fun _ => checkSome_none.1 c, fun _ => ne⟩, fun e he => by rw [ne] at he; cases he⟩
  | some e =>
    refine ⟨⟨fun x => (by cases x), fun x => ?_⟩, fun e' he => ?_⟩
    · rw [checkSome_none.2 x] at c; cases c
    · cases he; exact ⟨checkSome_some c, rfl⟩

theorem bulk_applies_setParametersValues (h : Store) (l src : List ObjId) (nd : (names h src).Nodup)
    (ok : (setParametersValues h l src).err = none) :
    let r := setParametersValues h l src
    SameShape h r.heap ∧ r.heap.next = h.next ∧
    (∀ s ∈ src, ∀ t, find? h l (nameOf h s) = some t → (r.heap.get t).value = (h.get s).value) ∧
    (∀ i, (∀ s ∈ src, find? h l (nameOf h s) ≠ some i) → r.heap.get i = h.get i) := by
  have chk := ((bulk_atomic_setParametersValues h l src).1).1 ok
  have c := checkSome_none.2 chk
  simp only [setParametersValues, c]
  exact (applySome_spec l src h nd chk).2

theorem bulk_atomic_matchParametersValues (h : Store) (l src : List ObjId) :
    let r := matchParametersValues h l src
    (r.err = none ↔
      ∀ s ∈ src, ∀ t, find? h l (nameOf h s) = some t → (h.get t).rejects (h.get s).value = false) ∧
    (∀ e, r.err = some e → e = .constraint ∧ r.heap = h ∧ r.pos = []) := by
  simp only [matchParametersValues]
  cases c : checkSome h l src with
  | none =>
    have ne := matchSome_noerr h l src h 0 (SameShape.refl h) (fun _ => Or.inl rfl) (checkSome_none.1 c)
    exact ⟨⟨fun _ => checkSome_none.1 c, fun _ => ne⟩, fun e he => by rw [ne] at he; cases he⟩
  | some e =>
    refine ⟨⟨fun x => (by cases x), fun x => ?_⟩, fun e' he => ?_⟩
    · rw [checkSome_none.2 x] at c; cases c
    · cases he; exact ⟨checkSome_some c, rfl, rfl⟩

/-- **match_flag_exact** (with `bulk_applies` for `matchParametersValues`): the out-vector is
`diffPos`, i.e. exactly the source positions whose target value differed before the call
(`mem_diffPos`, `diffPos_sorted`); the returned flag is `pos ≠ []` by construction. -/
theorem bulk_applies_matchParametersValues (h : Store) (l src : List ObjId) (nd : (names h src).Nodup)
    (ok : (matchParametersValues h l src).err = none) :
    let r := matchParametersValues h l src
    r.pos = diffPos h l 0 src ∧ SameShape h r.heap ∧ r.heap.next = h.next ∧
    (∀ s ∈ src, ∀ t, find? h l (nameOf h s) = some t → (r.heap.get t).value = (h.get s).value) ∧
    (∀ i, (∀ s ∈ src, find? h l (nameOf h s) ≠ some i) → r.heap.get i = h.get i) := by
  have chk := ((bulk_atomic_matchParametersValues h l src).1).1 ok
  have c := checkSome_none.2 chk
  simp only [matchParametersValues, c]
  exact (matchSome_spec l src h 0 nd chk).2

/-- **match_flag_exact**, read-out: a position is reported iff it is a source position whose name
is in the target list and whose value differed from the target's before the call; positions are
reported in increasing order, each once. -/
theorem match_flag_exact (h : Store) (l src : List ObjId) (nd : (names h src).Nodup)
    (ok : (matchParametersValues h l src).err = none) :
    let r := matchParametersValues h l src
    (∀ p, p ∈ r.pos ↔ ∃ s t, src[p]? = some s ∧ find? h l (nameOf h s) = some t ∧
        (h.get t).value ≠ (h.get s).value) ∧
    r.pos.Pairwise (· < ·) := by
  have e := (bulk_applies_matchParametersValues h l src nd ok).1
  simp only [e]
  refine ⟨fun p => ?_, diffPos_sorted h l src 0⟩
  rw [mem_diffPos]; simp

/-- `testParametersValues` raises like the setters and otherwise answers whether some position differs -/
theorem test_flag_exact (h : Store) (l src : List ObjId) :
    testParametersValues h l src =
      match checkSome h l src with
      | some e => .error e
      | none => .ok (!(diffPos h l 0 src).isEmpty) := by
  unfold testParametersValues
  cases checkSome h l src with
  | none => simp only [testSome_eq h l src 0]
  | some e => rfl

theorem bulk_atomic_setAllParametersValues (h : Store) (l src : List ObjId) :
    let r := setAllParametersValues h l src
    (r.err = none ↔
      ∀ i ∈ l, ∃ j, find? h src (nameOf h i) = some j ∧ (h.get i).rejects (h.get j).value = false) ∧
    (∀ e, r.err = some e → (e = .notfound ∨ e = .constraint) ∧ r.heap = h) := by
  simp only [setAllParametersValues]
  cases c : checkAll h src l with
  | none =>
    have ne := applyAll_noerr h src l h (SameShape.refl h) (fun _ _ => rfl) (checkAll_none.1 c)
    exact ⟨⟨fun _ => checkAll_none.1 c, fun _ => ne⟩, fun e he => by rw [ne] at he; cases he⟩
  | some e =>
    refine ⟨⟨fun x => (by cases x), fun x => ?_⟩, fun e' he => ?_⟩
    · rw [checkAll_none.2 x] at c; cases c
    · cases he; exact ⟨checkAll_some c, rfl⟩

theorem bulk_applies_setAllParametersValues (h : Store) (l src : List ObjId) (nd : (names h l).Nodup)
    (ok : (setAllParametersValues h l src).err = none) :
    let r := setAllParametersValues h l src
    SameShape h r.heap ∧ r.heap.next = h.next ∧
    (∀ i ∈ l, ∀ j, find? h src (nameOf h i) = some j → (r.heap.get i).value = (h.get j).value) ∧
    (∀ i, i ∉ l → r.heap.get i = h.get i) := by
  have chk := ((bulk_atomic_setAllParametersValues h l src).1).1 ok
  have c := checkAll_none.2 chk
  simp only [setAllParametersValues, c]
  exact (applyAll_spec src l h nd chk).2

/-- non-vacuity of `bulk_atomic`: a rejected entry in second position, nothing changes -/
example :
    let s := run State.init [.add 0 ⟨"a", 1, some ⟨.fin 0, .fin 2, true, true⟩⟩, .add 0 ⟨"b", 1, some ⟨.fin 0, .fin 2, true, true⟩⟩,
                              .add 1 ⟨"a", 2, none⟩, .add 1 ⟨"b", 3, none⟩]
    (setParametersValues s.heap (s.lists 0) (s.lists 1)).err = some .constraint := by decide

/-! ## Who can write what: frame, independence of copies, aliasing of shared sub-lists -/

/-- the observable content of register `k` -/
def obs (s : State) (k : Nat) : List Par := (s.lists k).map s.heap.get

/-- **frame**: an operation writes only objects reachable through the registers `op.writes`
(the target list; for `share…` also the list the objects come from), replaces at most the list of
`op.dest`, and never shrinks the heap.  In particular parameters not in the target list — and
lists that are only *read* as a source — are never touched. -/
theorem frame (s : State) (op : Op) :
    (∀ i, i < s.heap.next → (∀ r ∈ op.writes, i ∉ s.lists r) → (step s op).1.heap.get i = s.heap.get i) ∧
    (∀ r, op.dest ≠ some r → (step s op).1.lists r = s.lists r) ∧
    s.heap.next ≤ (step s op).1.heap.next := by
  obtain ⟨f, d⟩ := frame_step s op
  refine ⟨fun i hi hw => f.same i hi ?_, d, f.next_le⟩
  simp only [List.mem_flatMap, not_exists, not_and]
  exact hw

/-- a register that shares no object with the written registers and is not the destination
shows the same content after the operation -/
theorem obs_unchanged (s : State) (inv : Inv s) (op : Op) (k : Nat)
    (disj : ∀ r ∈ op.writes, ∀ i ∈ s.lists r, i ∉ s.lists k) (hd : op.dest ≠ some k) :
    obs (step s op).1 k = obs s k := by
  obtain ⟨f1, f2, _⟩ := frame s op
  unfold obs
  rw [f2 k hd]
  apply List.map_congr_left
  intro i hi
  exact f1 i (inv.wf k i hi) (fun r hr c => disj r hr i c hi)

/-- **copy_independent**: the copy (constructor or assignment) shows the same names, values and
constraints as the source, consists of fresh objects that no other register holds, and leaves
every existing object and every other register as it was. -/
theorem copy_independent (s : State) (inv : Inv s) (k j : Nat) :
    let s' := (step s (.copy k j)).1
    obs s' j = obs s k ∧ (∀ i ∈ s'.lists j, s.heap.next ≤ i) ∧ (s'.lists j).Nodup ∧
    (∀ r, r ≠ j → ∀ i ∈ s'.lists j, i ∉ s'.lists r) ∧
    (∀ r, r ≠ j → s'.lists r = s.lists r) ∧ (∀ i, i < s.heap.next → s'.heap.get i = s.heap.get i) := by
  obtain ⟨_, _, p3, p4, p5, p6⟩ := cloneAll_spec (s.lists k) s.heap (inv.wf k)
  have hj : ((step s (.copy k j)).1).lists j = (cloneAll s.heap (s.lists k)).2 := by
    simp [step, State.setList, State.withHeap]
  have hr : ∀ r, r ≠ j → ((step s (.copy k j)).1).lists r = s.lists r := by
    intro r hr; simp [step, State.setList, State.withHeap, hr]
  refine ⟨?_, ?_, ?_, ?_, hr, p6⟩
  · simp only [obs]; rw [hj]; exact p5
  · rw [hj]; exact p3
  · rw [hj]; exact p4
  · intro r hrj i hi c
    rw [hj] at hi; rw [hr r hrj] at c
    have := p3 i hi; have := inv.wf r i c; omega

/-- … hence a later operation that writes through the copy only cannot change what the source
shows, and vice versa (any operation, any arguments; `k ≠ j`). -/
theorem copy_then_write (s : State) (inv : Inv s) (k j : Nat) (hkj : k ≠ j) (op : Op) :
    let s' := (step s (.copy k j)).1
    ((∀ r ∈ op.writes, r = j) → op.dest ≠ some k → obs (step s' op).1 k = obs s' k) ∧
    ((∀ r ∈ op.writes, r = k) → op.dest ≠ some j → obs (step s' op).1 j = obs s' j) := by
  have inv' : Inv (step s (.copy k j)).1 := inv_step inv _ rfl
  obtain ⟨_, _, _, p4, _, _⟩ := copy_independent s inv k j
  refine ⟨fun hw hd => obs_unchanged _ inv' op k ?_ hd, fun hw hd => obs_unchanged _ inv' op j ?_ hd⟩
  · intro r hr i hi c; rw [hw r hr] at hi; exact p4 k hkj i hi c
  · intro r hr i hi c; rw [hw r hr] at hi; exact p4 k hkj i c hi

/-- **sublist_independent**: `createSubList(names)` (all names present, pairwise different)
returns fresh clones of exactly the named entries, in the requested order; nothing existing changes.
A missing name raises ParameterNotFoundException, a repeated one ParameterException
(`createSubListNames_found`, `names_unique`). -/
theorem sublist_independent_names (h : Store) (l : List ObjId) (ns : List String) (v : Valid h l)
    (hns : ns.Nodup) (all : ∀ n ∈ ns, find? h l n ≠ none) :
    let r := createSubListNames h l [] ns
    let sel := ns.filterMap (find? h l)
    r.err = none ∧ r.list = List.range' h.next sel.length ∧ r.list.map r.heap.get = sel.map h.get ∧
    names h sel = ns ∧ (∀ i, i < h.next → r.heap.get i = h.get i) := by
  have hsel : names h (ns.filterMap (find? h l)) = ns := by
    clear hns
    induction ns with
    | nil => rfl
    | cons n rest ih =>
      cases e : find? h l n with
      | none => exact absurd e (all n (List.mem_cons_self ..))
      | some i =>
        simp only [List.filterMap_cons, e, names, List.map_cons, (find?_some e).2]
        congr 1
        exact ih (fun n' hn' => all n' (List.mem_cons_of_mem _ hn'))
  have vs : Valid h (ns.filterMap (find? h l)) := by
    intro i hi
    obtain ⟨n, _, hn⟩ := List.mem_filterMap.1 hi
    exact find?_valid v hn
  rw [createSubListNames_eq l ns h [] v (Valid.nil _) all]
  obtain ⟨i1, i2, _, i4, i5⟩ := addParameters_spec (ns.filterMap (find? h l)) h [] (Valid.nil _) vs
    (by simpa [hsel] using hns)
  simp only [List.nil_append] at i2
  exact ⟨i1, i2, by rw [i2]; exact i4, hsel, i5⟩

/-- … and `createSubList(indices)` for pairwise different indices: fresh clones of the entries at the
in-range indices, in the requested order (out-of-range indices are skipped by the code). -/
theorem sublist_independent_idx (h : Store) (l : List ObjId) (idx : List Nat) (v : Valid h l)
    (nd : (names h l).Nodup) (hidx : idx.Nodup) :
    let r := createSubListIdx h l [] idx
    let sel := idx.filterMap (l[·]?)
    r.err = none ∧ r.list = List.range' h.next sel.length ∧ r.list.map r.heap.get = sel.map h.get ∧
    (∀ i, i < h.next → r.heap.get i = h.get i) := by
  have vs : Valid h (idx.filterMap (l[·]?)) := by
    intro i hi
    obtain ⟨n, _, hn⟩ := List.mem_filterMap.1 hi
    exact getElem?_valid v hn
  rw [createSubListIdx_eq]
  obtain ⟨i1, i2, _, i4, i5⟩ := addParameters_spec (idx.filterMap (l[·]?)) h [] (Valid.nil _) vs
    (by simpa using nodup_sel_idx nd hidx)
  simp only [List.nil_append] at i2
  exact ⟨i1, i2, by rw [i2]; exact i4, i5⟩

/-- **share_aliases**: `shareSubList(names)` / `shareSubList(indices)` (pairwise different
arguments) return *the very same object ids* and do not touch the heap — so a later write through
either list is a write to the one object both hold. -/
theorem share_aliases_names (h : Store) (l : List ObjId) (ns : List String) (v : Valid h l)
    (hns : ns.Nodup) (all : ∀ n ∈ ns, find? h l n ≠ none) :
    shareSubListNames h l [] ns = { heap := h, list := ns.filterMap (find? h l) } := by
  have hsel : names h (ns.filterMap (find? h l)) = ns := by
    clear hns
    induction ns with
    | nil => rfl
    | cons n rest ih =>
      cases e : find? h l n with
      | none => exact absurd e (all n (List.mem_cons_self ..))
      | some i =>
        simp only [List.filterMap_cons, e, names, List.map_cons, (find?_some e).2]
        congr 1
        exact ih (fun n' hn' => all n' (List.mem_cons_of_mem _ hn'))
  rw [shareSubListNames_eq l ns h [] v (Valid.nil _) all,
    shareParameters_spec _ h [] (by simpa [hsel] using hns)]
  simp

theorem share_aliases_idx (h : Store) (l : List ObjId) (idx : List Nat)
    (nd : (names h l).Nodup) (hidx : idx.Nodup) :
    shareSubListIdx h l [] idx = { heap := h, list := idx.filterMap (l[·]?) } := by
  have h2 := nodup_sel_idx nd hidx
  rw [shareSubListIdx_eq, shareParameters_spec _ h [] (by simpa using h2)]
  simp

/-- sharing a parameter whose name is new appends *that object*; the heap is untouched -/
theorem share_new_aliases (h : Store) (l : List ObjId) (i : ObjId) (hn : nameOf h i ∉ names h l) :
    shareParameter h l i = { heap := h, list := l ++ [i] } := by
  simp [shareParameter, (hasParameter_false_iff h l _).2 hn]

/-- **include_share_collision_updates**: sharing (or including) a parameter whose name is already
present leaves the list as it is and becomes `setParameterValue(name, value)` on the entry of that
name (`setParameterValue_exact` says what that does); hence names stay unique. -/
theorem share_collision_updates (h : Store) (l : List ObjId) (i : ObjId) (hc : nameOf h i ∈ names h l) :
    shareParameter h l i =
      { heap := (setParameterValue h l (nameOf h i) (h.get i).value).heap, list := l,
        err := (setParameterValue h l (nameOf h i) (h.get i).value).err } := by
  simp [shareParameter, (hasParameter_iff h l _).2 hc]

theorem include_collision_updates (h : Store) (l : List ObjId) (i : ObjId) (rest : List ObjId)
    (hc : nameOf h i ∈ names h l) :
    includeParameters h l (i :: rest) =
      match (setParameterValue h l (nameOf h i) (h.get i).value).err with
      | some e => { heap := (setParameterValue h l (nameOf h i) (h.get i).value).heap, list := l, err := some e }
      | none => includeParameters (setParameterValue h l (nameOf h i) (h.get i).value).heap l rest := by
  rw [includeParameters, if_pos ((hasParameter_iff h l _).2 hc)]; rfl

/-- including a parameter whose name is new appends a fresh clone -/
theorem include_new_clones (h : Store) (l : List ObjId) (i : ObjId) (rest : List ObjId)
    (hn : nameOf h i ∉ names h l) :
    includeParameters h l (i :: rest) =
      includeParameters (h.alloc (h.get i)).1 (l ++ [h.next]) rest := by
  simp [includeParameters, (hasParameter_false_iff h l _).2 hn]

/-- exact effect of `setParameterValue(name, v)`: unknown name → ParameterNotFoundException; value
rejected by the entry's constraint → ConstraintException; in both cases nothing changes; otherwise
exactly the first entry of that name holds `v`. -/
theorem setParameterValue_exact (h : Store) (l : List ObjId) (n : String) (v : Rat) :
    let r := setParameterValue h l n v
    match find? h l n with
    | none => r.err = some .notfound ∧ r.heap = h
    | some t =>
      if (h.get t).rejects v = true ∧ v ≠ (h.get t).value then r.err = some .constraint ∧ r.heap = h
      else r.err = none ∧ (r.heap.get t) = { h.get t with value := v } ∧ ∀ i, i ≠ t → r.heap.get i = h.get i :=
  setParameterValue_spec h l n v

/-! ### the bulk forms, exactly (two lists with pairwise different names)

`mergePrefix` = the source entries before the first collision whose value the target refuses
(everything, when none is refused); `mergeNews` = those of them whose name is new to the list. -/

/-- **include_exact**: `includeParameters` processes `mergePrefix`; it raises ConstraintException
iff that is not the whole source; colliding entries become value updates of their targets
(`expectedSome`), new names are appended as fresh clones in order, nothing else changes. -/
theorem include_exact (h : Store) (l src : List ObjId) (v : Valid h l) (vs : Valid h src)
    (ndl : (names h l).Nodup) (nds : (names h src).Nodup) :
    let r := includeParameters h l src
    r.err = (if (mergePrefix h l src).length = src.length then none else some .constraint) ∧
    r.list = l ++ List.range' h.next (mergeNews h l src).length ∧
    r.heap.next = h.next + (mergeNews h l src).length ∧
    (List.range' h.next (mergeNews h l src).length).map r.heap.get = (mergeNews h l src).map h.get ∧
    (∀ i, i < h.next → r.heap.get i = expectedSome h l (mergePrefix h l src) i) :=
  includeParameters_spec src h l v vs ndl nds

/-- **share_all_exact**: the same for `shareParameters`, except that new names are appended as
*the source's own objects* and nothing is allocated. -/
theorem share_all_exact (h : Store) (l src : List ObjId) (ndl : (names h l).Nodup) (nds : (names h src).Nodup) :
    let r := shareParameters h l src
    r.err = (if (mergePrefix h l src).length = src.length then none else some .constraint) ∧
    r.list = l ++ mergeNews h l src ∧ r.heap.next = h.next ∧
    (∀ i, r.heap.get i = expectedSome h l (mergePrefix h l src) i) :=
  shareParameters_full_spec src h l ndl nds

/-- **add_all_exact**: `addParameters` appends fresh clones of the entries before the first name
that is already present, then raises ParameterException; existing objects are untouched. -/
theorem add_all_exact (h : Store) (l src : List ObjId) (v : Valid h l) (vs : Valid h src)
    (ndl : (names h l).Nodup) (nds : (names h src).Nodup) :
    let r := addParameters h l src
    r.err = (if (addPrefix h l src).length = src.length then none else some .bpp) ∧
    r.list = l ++ List.range' h.next (addPrefix h l src).length ∧
    r.heap.next = h.next + (addPrefix h l src).length ∧
    (List.range' h.next (addPrefix h l src).length).map r.heap.get = (addPrefix h l src).map h.get ∧
    (∀ i, i < h.next → r.heap.get i = h.get i) :=
  addParameters_full_spec src h l v vs ndl nds

/-- **whole_parameter_assignment**: `matchParameters` / `setParameters` / `setAllParameters` copy
value *and constraint* of the source entry into the target found by that name; names never change
(so they keep `names_unique`); the latter two stop with ParameterNotFoundException at the first
unknown name, keeping what was already assigned (they are not atomic, and are not claimed to be). -/
theorem whole_parameter_assignment (h : Store) (l src : List ObjId) :
    ((names h src).Nodup →
      (matchParameters h l src).err = none ∧ (∀ x, nameOf (matchParameters h l src).heap x = nameOf h x) ∧
      ∀ i, (matchParameters h l src).heap.get i = expectedPar h l src i) ∧
    ((names h src).Nodup →
      (setParameters h l src).err =
        (if (knownPrefix h l src).length = src.length then none else some .notfound) ∧
      (∀ x, nameOf (setParameters h l src).heap x = nameOf h x) ∧
      ∀ i, (setParameters h l src).heap.get i = expectedPar h l (knownPrefix h l src) i) ∧
    ((names h l).Nodup →
      (setAllParameters h src l).err =
        (if (l.takeWhile (fun i => hasParameter h src (nameOf h i))).length = l.length then none
         else some .notfound) ∧
      (∀ x, nameOf (setAllParameters h src l).heap x = nameOf h x) ∧
      ∀ i, (setAllParameters h src l).heap.get i =
        expectedAllPar h (l.takeWhile (fun i => hasParameter h src (nameOf h i))) src i) := by
  refine ⟨fun nd => ?_, fun nd => ?_, fun nd => ?_⟩
  · obtain ⟨a, _, c, d⟩ := matchParameters_spec l src h nd; exact ⟨a, c, d⟩
  · obtain ⟨a, _, c, d⟩ := setParameters_spec l src h nd; exact ⟨a, c, d⟩
  · obtain ⟨a, _, c, d⟩ := setAllParameters_spec src l h nd; exact ⟨a, c, d⟩

/-! ## Deletion and lookups address exactly the named entries -/

/-- **delete_indices_exact**: for a repeated-free index list, if every index is in range the
survivors are exactly the entries at the other positions, in their order (`keepFrom`); if some
index is out of range, IndexOutOfBoundsException is raised before anything is erased. -/
theorem delete_indices_exact (l : List ObjId) (idx : List Nat) (nd : idx.Nodup) :
    ((∀ d ∈ idx, d < l.length) → deleteParametersIdx l idx = (keepFrom idx 0 l, none)) ∧
    ((∃ d ∈ idx, l.length ≤ d) → deleteParametersIdx l idx = (l, some .index)) :=
  ⟨deleteParametersIdx_spec l idx nd, deleteParametersIdx_out l idx⟩

/-- what `keepFrom` keeps: position `p` of the original list survives iff `p ∉ idx` -/
theorem keepFrom_mem (idx : List Nat) (l : List ObjId) (hl : l.Nodup) (x : ObjId) :
    x ∈ keepFrom idx 0 l ↔ ∃ p, l[p]? = some x ∧ p ∉ idx := by
  suffices H : ∀ (n : Nat) (l : List ObjId), l.Nodup →
      (x ∈ keepFrom idx n l ↔ ∃ p, l[p]? = some x ∧ n + p ∉ idx) by simpa using H 0 l hl
  intro n l
  induction l generalizing n with
  | nil => simp [keepFrom]
  | cons a t ih =>
    intro hnd
    have nd' := List.nodup_cons.1 hnd
    simp only [keepFrom]
    have key : (∃ p, (a :: t)[p]? = some x ∧ n + p ∉ idx) ↔
        ((a = x ∧ n ∉ idx) ∨ ∃ p, t[p]? = some x ∧ n + 1 + p ∉ idx) := by
      constructor
      · rintro ⟨p, hp, hi⟩
        cases p with
        | zero => left; exact ⟨by simpa using hp, by simpa using hi⟩
        | succ p => right; exact ⟨p, by simpa using hp, by rwa [show n + 1 + p = n + (p + 1) by omega]⟩
      · rintro (⟨rfl, hi⟩ | ⟨p, hp, hi⟩)
        · exact ⟨0, by simp, by simpa using hi⟩
        · exact ⟨p + 1, by simpa using hp, by rwa [show n + (p + 1) = n + 1 + p by omega]⟩
    rw [key]
    split
    · next hin => rw [ih (n + 1) nd'.2]; simp [hin]
    · next hin =>
      rw [List.mem_cons, ih (n + 1) nd'.2]
      simp [hin, eq_comm]

/-- out-of-property behaviour kept on record: with a repeated index the loop is *not* atomic
(`[a,b]`, indices `{1,1}`: `b` is erased, then IndexOutOfBounds is raised) -/
theorem delete_indices_repeated_witness :
    deleteParametersIdx [10, 11] [1, 1] = ([10], some .index) := by decide

/-- **delete_name_exact**: `deleteParameter(name)` removes the (first) entry of that name and
nothing else, or raises ParameterNotFoundException when the name is absent. -/
theorem delete_name_exact (h : Store) (l : List ObjId) (n : String) :
    (∀ l', deleteParameter h l n = .ok l' → names h l' = (names h l).erase n ∧ l'.Sublist l ∧ n ∈ names h l) ∧
    (∀ e, deleteParameter h l n = .error e → e = .notfound ∧ n ∉ names h l) := by
  obtain ⟨a, b⟩ := deleteParameter_names h l n
  exact ⟨fun l' e => ⟨(a l' e).1, deleteParameter_sublist e, (a l' e).2⟩, b⟩

/-- **lookup_exact**: `whichParameterHasName` answers the first position carrying the name (the
only one, by `names_unique`), or raises when there is none; `hasParameter` is membership. -/
theorem lookup_exact (h : Store) (l : List ObjId) (n : String) :
    (∀ k, whichParameterHasName h l n = .ok k ↔
      (names h l)[k]? = some n ∧ ∀ j, j < k → (names h l)[j]? ≠ some n) ∧
    (whichParameterHasName h l n = .error .notfound ↔ n ∉ names h l) ∧
    (hasParameter h l n = true ↔ n ∈ names h l) :=
  ⟨which_exact h l n, which_notfound h l n, hasParameter_iff h l n⟩

/-! ## The owner (AbstractParametrizable) forwards to its list, then notifies -/

/-- **owner_forwards**: the three bulk setters of the owner have exactly the effect and the
outcome of the list-level call; `fireParameterChanged` is called iff the call succeeded (for
`matchParametersValues`: iff something changed), with the source list, resp. with the *shared*
sub-list of the source at the updated positions. -/
theorem owner_forwards (h : Store) (l src : List ObjId) :
    ((apSetAllParametersValues h l src).heap = (setAllParametersValues h l src).heap ∧
     (apSetAllParametersValues h l src).err = (setAllParametersValues h l src).err ∧
     (apSetAllParametersValues h l src).fired =
        if (setAllParametersValues h l src).err = none then some src else none) ∧
    ((apSetParametersValues h l src).heap = (setParametersValues h l src).heap ∧
     (apSetParametersValues h l src).err = (setParametersValues h l src).err ∧
     (apSetParametersValues h l src).fired =
        if (setParametersValues h l src).err = none then some src else none) := by
  refine ⟨?_, ?_⟩
  · unfold apSetAllParametersValues; dsimp only
    cases e : (setAllParametersValues h l src).err <;> simp
  · unfold apSetParametersValues; dsimp only
    cases e : (setParametersValues h l src).err <;> simp

/-- the owner's `setParameterValue(name, v)`: outcome and effect of `setParameterValue(prefix+name, v)`
on its list; on success the notification carries one fresh object, a copy of the updated parameter -/
theorem owner_set_value_forwards (h : Store) (l : List ObjId) (pre n : String) (v : Rat) (vl : Valid h l) :
    let r := apSetParameterValue h l pre n v
    r.err = (setParameterValue h l (pre ++ n) v).err ∧
    (∀ t ∈ l, r.heap.get t = (setParameterValue h l (pre ++ n) v).heap.get t) ∧
    (r.err ≠ none → r.fired = none) ∧
    (r.err = none → ∃ t, find? h l (pre ++ n) = some t ∧ r.fired = some [h.next] ∧
      r.heap.get h.next = r.heap.get t) := by
  obtain ⟨a, b⟩ := apSetParameterValue_spec h l pre n v vl
  obtain ⟨c, d⟩ := apSetParameterValue_fired h l pre n v vl
  exact ⟨a, b, c, d⟩

theorem owner_match_forwards (h : Store) (l src : List ObjId) (nd : (names h src).Nodup)
    (ok : (matchParametersValues h l src).err = none) :
    let m := matchParametersValues h l src
    let r := apMatchParametersValues h l src
    r.heap = m.heap ∧ r.err = none ∧ r.flag = decide (m.pos ≠ []) ∧
    r.fired = if m.pos = [] then none else some (m.pos.filterMap (src[·]?)) := by
  have hp := (bulk_applies_matchParametersValues h l src nd ok)
  have ss := hp.2.1
  have hsorted : (matchParametersValues h l src).pos.Nodup := by
    rw [hp.1]; exact (diffPos_sorted h l src 0).imp (fun h => Nat.ne_of_lt h)
  simp only [apMatchParametersValues, ok]
  by_cases he : (matchParametersValues h l src).pos = []
  · simp [he]
  · simp only [ne_eq, he, not_false_eq_true, if_true, if_false, decide_true]
    rw [share_aliases_idx _ src _ (by rw [ss.names]; exact nd) hsorted]
    simp

/-! ## The model passes the check that is run on the implementation

`checkStep` is what the driver evaluates on every (state before, operation, answer, state after)
reconstructed from the *implementation's* answers; the clauses are Boolean forms of the theorems
above (`clauseNames` ↔ `names_unique`, `clauseAtomic` ↔ `bulk_atomic_*`, `clauseApplies` ↔
`bulk_applies_*`, `clauseMatch` ↔ `match_flag_exact` / `owner_forwards`, `clauseFresh` ↔
`copy_independent` / `sublist_independent_*`, `clauseShare` ↔ `share_aliases_*`, `clauseDelete` ↔
`delete_indices_exact` / `delete_name_exact`, `clauseAdd` ↔ `add_dup_refused`, `clauseFrame` ↔
`frame`, `clauseLookup` ↔ `lookup_exact`, `clauseUpdate` ↔ `setParameterValue_exact` /
`share_collision_updates`, `clauseDeleteNames` ↔ `deleteParameters_spec`, `clauseMerge` ↔
`include_exact` / `share_all_exact` / `add_all_exact`, `clauseAssign` ↔ `whole_parameter_assignment`). -/

/-- **check_sound**: from every state satisfying the invariant, every operation of the model
satisfies every clause, for any number `n` of observed registers. -/
theorem check_sound (n : Nat) (s : State) (inv : Inv s) (op : Op) :
    checkStep n s op (step s op).2.out (step s op).2.fired (step s op).1 = none := by
  simp only [checkStep, clauseNames_sound n inv op, clauseOk_sound n inv op, clauseAtomic_sound n inv op,
    clauseFrame_sound n s op, clauseApplies_sound inv op, clauseMatch_sound inv op, clauseFresh_sound inv op,
    clauseShare_sound inv op, clauseDelete_sound op, clauseAdd_sound op, clauseLookup_sound op,
    clauseUpdate_sound inv op, clauseDeleteNames_sound op, clauseMerge_sound inv op, clauseAssign_sound inv op,
    clauseNotify_sound inv op]
  rfl

/-- … hence along every history from the empty machine (without `setNamespace`). -/
theorem check_sound_run (n : Nat) (ops : List Op) (hops : ∀ op ∈ ops, op.keepsNames = true) (op : Op) :
    let s := run State.init ops
    checkStep n s op (step s op).2.out (step s op).2.fired (step s op).1 = none :=
  check_sound n _ (inv_run ops hops inv_init) op

/-! ## The two defects of the unchanged tree (both repaired in the library) -/

/-- before the repair, `setParameter(1, Parameter("a"))` on `[a, b]` gave the names `[a, a]` -/
theorem setParameter_unrepaired_dup_witness :
    let s := run State.init [.add 0 ⟨"a", 1, none⟩, .add 0 ⟨"b", 2, none⟩]
    let r := setParameterUnrepaired s.heap (s.lists 0) 1 ⟨"a", 3, none⟩
    r.err = none ∧ ¬ (names r.heap r.list).Nodup := by decide

/-- before the repair, `createSubList({0,0})` gave a sub-list with the names `[a, a]` -/
theorem createSubListIdx_unrepaired_dup_witness :
    let s := run State.init [.add 0 ⟨"a", 1, none⟩]
    let r := createSubListIdxUnrepaired s.heap (s.lists 0) [] [0, 0]
    r.err = none ∧ ¬ (names r.heap r.list).Nodup := by decide

/-- outside the property's operations, kept on record: `setNamespace` renames parameter objects
in place, so a list that *shares* such an object can end up with duplicated names (replayed on the
real code: corpus/C02/note-setNamespace-shared-object.txt).  This is why `Op.keepsNames` excludes it. -/
theorem setNamespace_breaks_unique_witness :
    let s := run State.init [.add 0 ⟨"a", 1, none⟩, .add 0 ⟨"p.a", 2, none⟩, .share 4 0 "a", .apNamespace 4 "p."]
    ¬ (names s.heap (s.lists 0)).Nodup := by decide

end Bpp.C02
