import BppProofs.Lemmas.ParamList
/-!
# C02 — bulk parameter updates are atomic; names stay unique; copies are independent
(src/Bpp/Numeric/ParameterList.{h,cpp}, src/Bpp/Numeric/AbstractParametrizable.{h,cpp})

Property theorems only; helper lemmas are in `Lemmas/ParamList.lean`.  The model
(`BppModel/ParamList.lean`) is a heap of parameter objects plus list registers holding
object ids; `step` interprets one operation, `run` a history.  `Inv` is the invariant of
every reachable state: ids valid, every object accepted by its own constraint, names
pairwise different in every list.
-/
namespace Bpp.C02
open Bpp Bpp.ParamList

/-! ## Histories: names stay unique, constraints stay satisfied -/

/-- the invariant holds along every history without `setNamespace` (all sizes, all lengths) -/
theorem inv_run (ops : List Op) (hops : ∀ op ∈ ops, op.keepsNames = true) {s : State} (inv : Inv s) :
    Inv (run s ops) := by
  induction ops generalizing s with
  | nil => exact inv
  | cons op rest ih =>
    exact ih (fun o ho => hops o (List.mem_cons_of_mem _ ho)) (inv_step inv op (hops op (List.mem_cons_self ..)))

/-- **names_unique**: after any history of add / include / share / set* / match* / delete /
sub-list / copy / assign operations (every operation of the machine except `setNamespace`),
from the empty machine, the names of every list are pairwise different. -/
theorem names_unique (ops : List Op) (hops : ∀ op ∈ ops, op.keepsNames = true) (k : Nat) :
    (names (run State.init ops).heap ((run State.init ops).lists k)).Nodup :=
  (inv_run ops hops inv_init).names k

/-- **list_param_inv**: along the same histories every object reachable from a list is
accepted by its own constraint (C01's invariant through the list-level routes). -/
theorem list_param_inv (ops : List Op) (hops : ∀ op ∈ ops, op.keepsNames = true) (k : Nat) :
    ∀ i ∈ (run State.init ops).lists k, ((run State.init ops).heap.get i).ok = true :=
  fun i hi => (inv_run ops hops inv_init).ok i ((inv_run ops hops inv_init).wf k i hi)

/-- non-vacuity: a history mixing the operation kinds -/
example : (names (run State.init [.add 0 ⟨"a", 1, none⟩, .add 0 ⟨"b", 2, none⟩, .copy 0 1,
    .setParam 1 0 ⟨"c", 0, none⟩, .shareAll 1 0]).heap
    ((run State.init [.add 0 ⟨"a", 1, none⟩, .add 0 ⟨"b", 2, none⟩, .copy 0 1,
    .setParam 1 0 ⟨"c", 0, none⟩, .shareAll 1 0]).lists 1)) = ["c", "b", "a"] := by decide

/-- **add_dup_refused**: `addParameter` refuses a name that is already present and changes nothing. -/
theorem add_dup_refused (h : Store) (l : List ObjId) (p : Par) (hp : p.name ∈ names h l) :
    (addParameter h l p).err = some .bpp ∧ (addParameter h l p).heap = h ∧ (addParameter h l p).list = l := by
  have : hasParameter h l p.name = true := (hasParameter_iff h l p.name).2 hp
  simp [addParameter, this]

/-- … and accepts a new name: one fresh object holding `p` is appended, nothing else changes. -/
theorem add_new_appends (h : Store) (l : List ObjId) (p : Par) (hp : p.name ∉ names h l) :
    (addParameter h l p).err = none ∧ (addParameter h l p).list = l ++ [h.next] ∧
    (addParameter h l p).heap.get h.next = p ∧ ∀ i, i ≠ h.next → (addParameter h l p).heap.get i = h.get i := by
  have : hasParameter h l p.name = false := (hasParameter_false_iff h l p.name).2 hp
  simp only [addParameter, this]
  refine ⟨rfl, rfl, by simp, fun i hi => by simp [hi]⟩

/-! ## The two defects of the unchanged tree (both repaired in the library) -/

/-- before the repair, `setParameter(1, Parameter("a"))` on `[a, b]` gave the names `[a, a]` -/
theorem setParameter_unrepaired_dup_witness :
    let s := run State.init [.add 0 ⟨"a", 1, none⟩, .add 0 ⟨"b", 2, none⟩]
    let r := setParameterUnrepaired s.heap (s.lists 0) 1 ⟨"a", 3, none⟩
    r.err = none ∧ ¬ (names r.heap r.list).Nodup := by decide

/-- before the repair, `createSubList({0,0})` gave a sub-list with the names `[a, a]` -/
theorem createSubListIdx_unrepaired_dup_witness :
    let s := run State.init [.add 0 ⟨"a", 1, none⟩]
    let r := createSubListIdxUnrepaired s.heap (s.lists 0) [] [0, 0]
    r.err = none ∧ ¬ (names r.heap r.list).Nodup := by decide

end Bpp.C02
