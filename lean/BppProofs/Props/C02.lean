import BppProofs.Lemmas.ParamList
/-!
# C02 — bulk parameter updates are atomic; names stay unique; copies are independent
(src/Bpp/Numeric/ParameterList.{h,cpp}, src/Bpp/Numeric/AbstractParametrizable.{h,cpp})

Property theorems only; helper lemmas are in `Lemmas/ParamList.lean`.  The model
(`BppModel/ParamList.lean`) is a heap of parameter objects plus list registers holding
object ids; `step` interprets one operation, `run` a history.  `Inv` is the invariant of
every reachable state: ids valid, every object accepted by its own constraint, names
pairwise different in every list.
-/
namespace Bpp.C02
open Bpp Bpp.ParamList

/-! ## Histories: names stay unique, constraints stay satisfied -/

/-- the invariant holds along every history without `setNamespace` (all sizes, all lengths) -/
theorem inv_run (ops : List Op) (hops : ∀ op ∈ ops, op.keepsNames = true) {s : State} (inv : Inv s) :
    Inv (run s ops) := by
  induction ops generalizing s with
  | nil => exact inv
  | cons op rest ih =>
    exact ih (fun o ho => hops o (List.mem_cons_of_mem _ ho)) (inv_step inv op (hops op (List.mem_cons_self ..)))

/-- **names_unique**: after any history of add / include / share / set* / match* / delete /
sub-list / copy / assign operations (every operation of the machine except `setNamespace`),
from the empty machine, the names of every list are pairwise different. -/
theorem names_unique (ops : List Op) (hops : ∀ op ∈ ops, op.keepsNames = true) (k : Nat) :
    (names (run State.init ops).heap ((run State.init ops).lists k)).Nodup :=
  (inv_run ops hops inv_init).names k

/-- **list_param_inv**: along the same histories every object reachable from a list is
accepted by its own constraint (C01's invariant through the list-level routes). -/
theorem list_param_inv (ops : List Op) (hops : ∀ op ∈ ops, op.keepsNames = true) (k : Nat) :
    ∀ i ∈ (run State.init ops).lists k, ((run State.init ops).heap.get i).ok = true :=
  fun i hi => (inv_run ops hops inv_init).ok i ((inv_run ops hops inv_init).wf k i hi)

/-- non-vacuity: a history mixing the operation kinds -/
example : (names (run State.init [.add 0 ⟨"a", 1, none⟩, .add 0 ⟨"b", 2, none⟩, .copy 0 1,
    .setParam 1 0 ⟨"c", 0, none⟩, .shareAll 1 0]).heap
    ((run State.init [.add 0 ⟨"a", 1, none⟩, .add 0 ⟨"b", 2, none⟩, .copy 0 1,
    .setParam 1 0 ⟨"c", 0, none⟩, .shareAll 1 0]).lists 1)) = ["c", "b", "a"] := by decide

/-- **add_dup_refused**: `addParameter` refuses a name that is already present and changes nothing. -/
theorem add_dup_refused (h : Store) (l : List ObjId) (p : Par) (hp : p.name ∈ names h l) :
    (addParameter h l p).err = some .bpp ∧ (addParameter h l p).heap = h ∧ (addParameter h l p).list = l := by
  have : hasParameter h l p.name = true := (hasParameter_iff h l p.name).2 hp
  simp [addParameter, this]

/-- … and accepts a new name: one fresh object holding `p` is appended, nothing else changes. -/
theorem add_new_appends (h : Store) (l : List ObjId) (p : Par) (hp : p.name ∉ names h l) :
    (addParameter h l p).err = none ∧ (addParameter h l p).list = l ++ [h.next] ∧
    (addParameter h l p).heap.get h.next = p ∧ ∀ i, i ≠ h.next → (addParameter h l p).heap.get i = h.get i := by
  have : hasParameter h l p.name = false := (hasParameter_false_iff h l p.name).2 hp
  simp only [addParameter, this]
  refine ⟨rfl, rfl, by simp, fun i hi => by simp [hi]⟩

/-! ## Two-pass bulk setters: all or nothing

For each of `setParametersValues`, `matchParametersValues`, `setAllParametersValues`:
* `bulk_atomic_*` (no hypothesis at all — any heap, any lists, shared objects, even duplicated
  names): the call succeeds exactly when the first pass accepts every matching value; otherwise it
  raises (ConstraintException / ParameterNotFoundException) and the heap is *unchanged*;
* `bulk_applies_*` (names of the iterated list pairwise different, which `names_unique` gives for
  every reachable list): on success every matching target holds the source's value, every other
  object is untouched, no name or constraint changed, nothing was allocated. -/

theorem bulk_atomic_setParametersValues (h : Store) (l src : List ObjId) :
    let r := setParametersValues h l src
    (r.err = none ↔
      ∀ s ∈ src, ∀ t, find? h l (nameOf h s) = some t → (h.get t).rejects (h.get s).value = false) ∧
    (∀ e, r.err = some e → e = .constraint ∧ r.heap = h) := by
  simp only [setParametersValues]
  cases c : checkSome h l src with
  | none =>
    have ne := applySome_noerr h l src h (SameShape.refl h) (fun _ => Or.inl rfl) (checkSome_none.1 c)
    exact ⟨⟨fun _ => checkSome_none.1 c, fun _ => ne⟩, fun e he => by rw [ne] at he; cases he⟩
  | some e =>
    refine ⟨⟨fun x => (by cases x), fun x => ?_⟩, fun e' he => ?_⟩
    · rw [checkSome_none.2 x] at c; cases c
    · cases he; exact ⟨checkSome_some c, rfl⟩

theorem bulk_applies_setParametersValues (h : Store) (l src : List ObjId) (nd : (names h src).Nodup)
    (ok : (setParametersValues h l src).err = none) :
    let r := setParametersValues h l src
    SameShape h r.heap ∧ r.heap.next = h.next ∧
    (∀ s ∈ src, ∀ t, find? h l (nameOf h s) = some t → (r.heap.get t).value = (h.get s).value) ∧
    (∀ i, (∀ s ∈ src, find? h l (nameOf h s) ≠ some i) → r.heap.get i = h.get i) := by
  have chk := ((bulk_atomic_setParametersValues h l src).1).1 ok
  have c := checkSome_none.2 chk
  simp only [setParametersValues, c]
  exact (applySome_spec l src h nd chk).2

theorem bulk_atomic_matchParametersValues (h : Store) (l src : List ObjId) :
    let r := matchParametersValues h l src
    (r.err = none ↔
      ∀ s ∈ src, ∀ t, find? h l (nameOf h s) = some t → (h.get t).rejects (h.get s).value = false) ∧
    (∀ e, r.err = some e → e = .constraint ∧ r.heap = h ∧ r.pos = []) := by
  simp only [matchParametersValues]
  cases c : checkSome h l src with
  | none =>
    have ne := matchSome_noerr h l src h 0 (SameShape.refl h) (fun _ => Or.inl rfl) (checkSome_none.1 c)
    exact ⟨⟨fun _ => checkSome_none.1 c, fun _ => ne⟩, fun e he => by rw [ne] at he; cases he⟩
  | some e =>
    refine ⟨⟨fun x => (by cases x), fun x => ?_⟩, fun e' he => ?_⟩
    · rw [checkSome_none.2 x] at c; cases c
    · cases he; exact ⟨checkSome_some c, rfl, rfl⟩

/-- **match_flag_exact** (with `bulk_applies` for `matchParametersValues`): the out-vector is
`diffPos`, i.e. exactly the source positions whose target value differed before the call
(`mem_diffPos`, `diffPos_sorted`); the returned flag is `pos ≠ []` by construction. -/
theorem bulk_applies_matchParametersValues (h : Store) (l src : List ObjId) (nd : (names h src).Nodup)
    (ok : (matchParametersValues h l src).err = none) :
    let r := matchParametersValues h l src
    r.pos = diffPos h l 0 src ∧ SameShape h r.heap ∧ r.heap.next = h.next ∧
    (∀ s ∈ src, ∀ t, find? h l (nameOf h s) = some t → (r.heap.get t).value = (h.get s).value) ∧
    (∀ i, (∀ s ∈ src, find? h l (nameOf h s) ≠ some i) → r.heap.get i = h.get i) := by
  have chk := ((bulk_atomic_matchParametersValues h l src).1).1 ok
  have c := checkSome_none.2 chk
  simp only [matchParametersValues, c]
  exact (matchSome_spec l src h 0 nd chk).2

/-- **match_flag_exact**, read-out: a position is reported iff it is a source position whose name
is in the target list and whose value differed from the target's before the call; positions are
reported in increasing order, each once. -/
theorem match_flag_exact (h : Store) (l src : List ObjId) (nd : (names h src).Nodup)
    (ok : (matchParametersValues h l src).err = none) :
    let r := matchParametersValues h l src
    (∀ p, p ∈ r.pos ↔ ∃ s t, src[p]? = some s ∧ find? h l (nameOf h s) = some t ∧
        (h.get t).value ≠ (h.get s).value) ∧
    r.pos.Pairwise (· < ·) := by
  have e := (bulk_applies_matchParametersValues h l src nd ok).1
  simp only [e]
  refine ⟨fun p => ?_, diffPos_sorted h l src 0⟩
  rw [mem_diffPos]; simp

/-- `testParametersValues` raises like the setters and otherwise answers whether some position differs -/
theorem test_flag_exact (h : Store) (l src : List ObjId) :
    testParametersValues h l src =
      match checkSome h l src with
      | some e => .error e
      | none => .ok (!(diffPos h l 0 src).isEmpty) := by
  unfold testParametersValues
  cases checkSome h l src with
  | none => simp only [testSome_eq h l src 0]
  | some e => rfl

theorem bulk_atomic_setAllParametersValues (h : Store) (l src : List ObjId) :
    let r := setAllParametersValues h l src
    (r.err = none ↔
      ∀ i ∈ l, ∃ j, find? h src (nameOf h i) = some j ∧ (h.get i).rejects (h.get j).value = false) ∧
    (∀ e, r.err = some e → (e = .notfound ∨ e = .constraint) ∧ r.heap = h) := by
  simp only [setAllParametersValues]
  cases c : checkAll h src l with
  | none =>
    have ne := applyAll_noerr h src l h (SameShape.refl h) (fun _ _ => rfl) (checkAll_none.1 c)
    exact ⟨⟨fun _ => checkAll_none.1 c, fun _ => ne⟩, fun e he => by rw [ne] at he; cases he⟩
  | some e =>
    refine ⟨⟨fun x => (by cases x), fun x => ?_⟩, fun e' he => ?_⟩
    · rw [checkAll_none.2 x] at c; cases c
    · cases he; exact ⟨checkAll_some c, rfl⟩

theorem bulk_applies_setAllParametersValues (h : Store) (l src : List ObjId) (nd : (names h l).Nodup)
    (ok : (setAllParametersValues h l src).err = none) :
    let r := setAllParametersValues h l src
    SameShape h r.heap ∧ r.heap.next = h.next ∧
    (∀ i ∈ l, ∀ j, find? h src (nameOf h i) = some j → (r.heap.get i).value = (h.get j).value) ∧
    (∀ i, i ∉ l → r.heap.get i = h.get i) := by
  have chk := ((bulk_atomic_setAllParametersValues h l src).1).1 ok
  have c := checkAll_none.2 chk
  simp only [setAllParametersValues, c]
  exact (applyAll_spec src l h nd chk).2

/-- non-vacuity of `bulk_atomic`: a rejected entry in second position, nothing changes -/
example :
    let s := run State.init [.add 0 ⟨"a", 1, some ⟨.fin 0, .fin 2, true, true⟩⟩, .add 0 ⟨"b", 1, some ⟨.fin 0, .fin 2, true, true⟩⟩,
                              .add 1 ⟨"a", 2, none⟩, .add 1 ⟨"b", 3, none⟩]
    (setParametersValues s.heap (s.lists 0) (s.lists 1)).err = some .constraint := by decide

/-! ## The two defects of the unchanged tree (both repaired in the library) -/

/-- before the repair, `setParameter(1, Parameter("a"))` on `[a, b]` gave the names `[a, a]` -/
theorem setParameter_unrepaired_dup_witness :
    let s := run State.init [.add 0 ⟨"a", 1, none⟩, .add 0 ⟨"b", 2, none⟩]
    let r := setParameterUnrepaired s.heap (s.lists 0) 1 ⟨"a", 3, none⟩
    r.err = none ∧ ¬ (names r.heap r.list).Nodup := by decide

/-- before the repair, `createSubList({0,0})` gave a sub-list with the names `[a, a]` -/
theorem createSubListIdx_unrepaired_dup_witness :
    let s := run State.init [.add 0 ⟨"a", 1, none⟩]
    let r := createSubListIdxUnrepaired s.heap (s.lists 0) [] [0, 0]
    r.err = none ∧ ¬ (names r.heap r.list).Nodup := by decide

end Bpp.C02
