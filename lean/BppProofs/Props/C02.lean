import BppProofs.Lemmas.ParamList
/-!
# C02 — bulk parameter updates are atomic; names stay unique; copies are independent
(src/Bpp/Numeric/ParameterList.{h,cpp}, src/Bpp/Numeric/AbstractParametrizable.{h,cpp})

Property theorems only; helper lemmas are in `Lemmas/ParamList.lean`.
-/
namespace Bpp.C02
open Bpp Bpp.ParamList

/-- `addParameter` refuses a name that is already present and changes nothing. -/
theorem add_dup_refused (h : Store) (l : List ObjId) (p : Par) (hp : p.name ∈ names h l) :
    (addParameter h l p).err = some .bpp ∧ (addParameter h l p).heap = h ∧ (addParameter h l p).list = l := by
  have : hasParameter h l p.name = true := (hasParameter_iff h l p.name).2 hp
  simp [addParameter, this]

end Bpp.C02
