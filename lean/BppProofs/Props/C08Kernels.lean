import BppProofs.Lemmas.DistKernels
/-!
# C08 (round 2) — the branch structure of the special-function kernels
(`BppModel/DistKernels.lean`; RandomTools.cpp:146-279, 428-949)

What is proved here is the *logic* of the transcribed kernels, for all arguments, in the
exact-arithmetic (`ℝ`) reading (rounding is not modelled) — or, where stated for every
`[Scalar α]`, for every interpretation of the arithmetic including `Float`:

* `incompleteGamma`: `ig_guards` (error value / 0 / far-tail 1 / which expansion), `ig_far_tail_one`,
  `ig_inf_one` (every `Scalar`), `ig_never_raises`, `igSeries_terminates` (the series loop l20 returns within a
  computable number of rounds for every `x > 0`, `α > 0` outside the continued-fraction region),
  `ig_series_positive` (so the error value −1 is never produced by the series),
  `ig_fuel_irrelevant`.  The continued-fraction loop l32 has one exit (`dif ≤ 1e-8 ∧ dif ≤ 1e-8·rn`)
  and no bound: its termination is a convergence statement about the fraction and is **not proved**.
* `qChisq`: `qChisq_guard` (error value iff outside the documented domain, for the guard),
  `qcStartKind_table` (which of the three starting values), `qChisq_small_start_returns`,
  `qChisq_ig_error` (an error of `incompleteGamma` gives the error value), `qChisq_never_raises`,
  `qChisq_fuel_irrelevant`.  Loops l2 and l4 have no bound in the code: termination **not proved**.
* `incompleteBeta`: `ib_exc_iff` (exception iff outside the domain, unconditionally), `ib_ends`,
  `ib_direct_series`, `ib_reflect_swapped` / `pBeta_reflect_partial` (on the swapped side the value *is*
  the clamped complement of the mirrored call, for every choice of the sub-kernels), `ib_swapped_le`
  (clamp), `ib_hang_only_at_series_call` / `ib_hangs_only_in_series` (pointwise: it can fail to return
  only inside a power-series call it actually makes); the two continued fractions are bounded by the
  code's own 300 rounds (total functions in the model).
* `qBeta`: `qBeta_guard_raises`, `qBeta_raises_only_through_pBeta`, `qBeta_zero_shape_raises`,
  `qBeta_raises_iff_partial` (over the transcribed `pBeta`: inside `0 ≤ prob ≤ 1`, positive shapes, it
  can raise only through a Newton iterate outside `[0,1]`; `qbInner_exit_in_unit`, `qbReset_in_unit`
  confine that to the inner loop exhausting its cap — **not excluded**, checked on every run),
  `qBeta_raises_iff_of_total_pBeta` (the iff, for a `pBeta` that never raises), `qBeta_ends`,
  `qBeta_reflect` (`qBeta(p;a,b) = 1 − qBeta(1−p;b,a)` for `1/2 < p < 1`, exactly, by construction of the
  tail swap), `qBeta_hang_only_through_pBeta` / `qBeta_terminates` / `qBeta_hangs_only_in_series` (both
  Newton loops are bounded by `niterations`: `qBeta` returns whenever the `pBeta` calls it makes do).

Audit note (round 1 of the audit): the decision-table theorems (`ig_guards`, `ig_far_tail_one`,
`ig_inf_one`, `ig_never_raises`, `qChisq_guard`, `qcStartKind_table`, `qChisq_small_start_returns`,
`qChisq_ig_error`, `qChisq_never_raises`, `ib_ends`, `ib_direct_series`, `qBeta_ends`,
`qBeta_guard_raises`, `*_fuel_irrelevant`) restate the transcribed branch conditions; their value is
that the same Boolean definitions are evaluated on the implementation's output.  The derived
properties are the others.
-/
namespace Bpp.C08
open Bpp Bpp.Scalar Bpp.PNorm Bpp.DistKernels

/-! ## `incompleteGamma` -/

/-- **Decision table.**  The error value −1 iff `x < 0 ∨ α ≤ 0`; 0 at `x = 0`; on `x > 0` the
continued fraction iff `x > 1 ∧ x ≥ α`, the series otherwise. -/
theorem ig_guards (fuel : Nat) (x p g : ℝ) :
    ((x < 0 ∨ p ≤ 0) → incompleteGamma fuel x p g = .val (-1)) ∧
    (0 < p → incompleteGamma fuel 0 p g = .val 0) ∧
    (0 < x → 0 < p → ¬ (1 < x ∧ p ≤ x) →
        incompleteGamma fuel x p g = R.ofOpt (igSeries fuel x p (igFactor x p g))) ∧
    (0 < x → 0 < p → 1 < x → p ≤ x →
        incompleteGamma fuel x p g = R.ofOpt (igCF fuel x p (igFactor x p g))) := by
  refine ⟨?_, ?_, ?_, ?_⟩
  · intro h
    simp [incompleteGamma, h]
  · intro hp
    simp [incompleteGamma, hp]
  · intro hx hp hs
    have h1 : ¬ (x < 0 ∨ p ≤ 0) := by push Not; exact ⟨le_of_lt hx, hp⟩
    have h2 : x ≠ 0 := ne_of_gt hx
    have h3 : igUseCF x p = false := by
      rw [← Bool.not_eq_true, igUseCF_iff]; exact hs
    simp [incompleteGamma, h1, h2, h3]
  · intro hx hp h1x hpx
    have h1 : ¬ (x < 0 ∨ p ≤ 0) := by push Not; exact ⟨le_of_lt hx, hp⟩
    have h2 : x ≠ 0 := ne_of_gt hx
    have h3 : igUseCF x p = true := (igUseCF_iff x p).mpr ⟨h1x, hpx⟩
    have h4 : igFactor x p g ≠ 0 := by simp [igFactor, Real.exp_ne_zero]
    simp [incompleteGamma, h1, h2, h3, h4]

/-- **Far-tail guard** (the repair of round 1), for *every* interpretation of the arithmetic: inside
the domain, on the continued-fraction side, an underflowed `factor` gives exactly 1 and the
continued fraction is not entered (no fuel is consumed: the result does not depend on it). -/
theorem ig_far_tail_one {α : Type} [Scalar α] [InfTest α] (fuel : Nat) (x p g : α)
    (hdom : (ltb x zero || leb p zero) = false) (hx : eqb x zero = false)
    (hcf : igUseCF x p = true) (hf : eqb (igFactor x p g) zero = true) :
    incompleteGamma fuel x p g = .val one := by
  unfold incompleteGamma
  simp only [hdom, hx, Bool.false_eq_true, if_false]
  split
  · rfl
  · simp [hcf, hf]

/-- **Infinite argument** (cpp:158-159, the repair of the non-termination at `x = +∞`), for *every*
interpretation of the arithmetic: inside the domain an infinite `x` gives exactly 1; neither `factor`
(`p·log x − x` is not a number there) nor a loop is evaluated, no fuel is consumed.  Over `ℝ` the
hypothesis `isInf x` is never true (`isInf_real`); the clause speaks about the `Float` reading, where
the driver checks it on the implementation's answer (`k.ig`, clause `ig_inf_one`). -/
theorem ig_inf_one {α : Type} [Scalar α] [InfTest α] (fuel : Nat) (x p g : α)
    (hdom : (ltb x zero || leb p zero) = false) (hx : eqb x zero = false)
    (hinf : InfTest.isInf x = true) : incompleteGamma fuel x p g = .val one := by
  simp [incompleteGamma, hdom, hx, hinf]

/-- the hypotheses of `ig_inf_one` are satisfiable in an interpretation that has an infinite
element: the rationals with every number above 10^9 declared infinite -/
example : @incompleteGamma Rat _ ⟨fun x => decide (1000000000 < x)⟩ 0 2000000000 2 0 = .val 1 := by
  decide

/-- the hypotheses of `ig_far_tail_one` are satisfiable: in the `Rat` interpretation `exp` is the
constant 0, so every `factor` has "underflowed" -/
example : incompleteGamma (α := Rat) 0 5 2 0 = .val 1 := by decide

/-- `incompleteGamma` never raises -/
theorem ig_never_raises {α : Type} [Scalar α] [InfTest α] (fuel : Nat) (x p g : α) :
    incompleteGamma fuel x p g ≠ .exc := by
  unfold incompleteGamma
  split
  · simp
  · split
    · simp
    · split
      · simp
      · simp only []
        split
        · split
          · simp
          · cases igCF fuel x p (igFactor x p g) <;> simp [R.ofOpt]
        · cases igSeries fuel x p (igFactor x p g) <;> simp [R.ofOpt]

/-- **Termination of the series loop** (l20, cpp:173-178), exact arithmetic: for every `x > 0`,
`α > 0` outside the continued-fraction region there is a number of rounds `N` such that the loop has
returned for every fuel `≥ N` (whatever `factor`).  The code has no bound of its own here; the
bound comes from `term_k ≤ (x/(α+1))^k` and `x < α + 1`. -/
theorem igSeries_terminates (x p : ℝ) (hx : 0 < x) (hp : 0 < p) (hs : ¬ (1 < x ∧ p ≤ x)) :
    ∃ N : Nat, ∀ fuel, N ≤ fuel → ∀ factor : ℝ, (igSeries fuel x p factor).isSome = true := by
  have hr : x < p + 1 := by
    by_contra h
    push Not at h
    exact hs ⟨by linarith, by linarith⟩
  have hp1 : 0 < p + 1 := by linarith
  have hr1 : x / (p + 1) < 1 := by rw [div_lt_one hp1]; exact hr
  obtain ⟨m, hm⟩ := exists_pow_lt_of_lt_one accurate_pos hr1
  refine ⟨m + 1, fun fuel hf factor => ?_⟩
  have := igSeries_loop_terminates x p hx hp hr m fuel ⟨p, one, one⟩ hf (le_refl _)
    (by simp) (by simp; exact le_of_lt hm)
  simp only [igSeries, Option.isSome_map]
  exact this

/-- … hence `incompleteGamma` returns there: no `hang` for enough fuel -/
theorem ig_series_region_terminates (x p g : ℝ) (hx : 0 < x) (hp : 0 < p) (hs : ¬ (1 < x ∧ p ≤ x)) :
    ∃ N : Nat, ∀ fuel, N ≤ fuel → ∃ v, incompleteGamma fuel x p g = .val v := by
  obtain ⟨N, hN⟩ := igSeries_terminates x p hx hp hs
  refine ⟨N, fun fuel hf => ?_⟩
  rw [(ig_guards fuel x p g).2.2.1 hx hp hs]
  have := hN fuel hf (igFactor x p g)
  cases h : igSeries fuel x p (igFactor x p g) with
  | none => rw [h] at this; simp at this
  | some v => exact ⟨v, rfl⟩

/-- the series never produces the error value: its value is positive -/
theorem ig_series_positive (fuel : Nat) (x p g v : ℝ) (hx : 0 < x) (hp : 0 < p) (hs : ¬ (1 < x ∧ p ≤ x))
    (h : incompleteGamma fuel x p g = .val v) : 0 < v := by
  rw [(ig_guards fuel x p g).2.2.1 hx hp hs] at h
  simp only [igSeries] at h
  cases hi : iter (igSeriesStep x) fuel ⟨p, one, one⟩ with
  | none => rw [hi] at h; simp [R.ofOpt] at h
  | some gin =>
    rw [hi] at h
    simp only [Option.map_some, R.ofOpt, R.val.injEq] at h
    have hg : 1 ≤ gin := igSeries_gin_ge_one x hx fuel ⟨p, one, one⟩ gin hp (by simp) (by simp) hi
    have hf : 0 < igFactor x p g := by simp [igFactor, Real.exp_pos]
    rw [← h]
    exact mul_pos (by linarith) (div_pos hf hp)

/-- more fuel never changes a delivered value (the fuel is not observable) -/
theorem ig_fuel_irrelevant {α : Type} [Scalar α] [InfTest α] (n k : Nat) (x p g v : α)
    (h : incompleteGamma n x p g = .val v) : incompleteGamma (n + k) x p g = .val v := by
  unfold incompleteGamma at h ⊢
  split
  · rename_i h1; simpa [h1] using h
  · rename_i h1
    simp only [h1] at h
    split
    · rename_i h2; simpa [h2] using h
    · rename_i h2
      simp only [h2] at h
      split
      · rename_i h2'; simpa [h2'] using h
      · rename_i h2'
        simp only [h2'] at h
        simp only [] at h ⊢
        split
        · rename_i h3
          simp only [h3, if_true] at h
          split
          · rename_i h4; simpa [h4] using h
          · rename_i h4
            simp only [h4] at h
            exact ofOpt_iter_mono _ _ n k _ v h
        · rename_i h3
          simp only [h3] at h
          exact ofOpt_iter_mono _ _ n k _ v h

/-! ## `qChisq` -/

/-- **Range guard** (cpp:227): outside `0.000002 ≤ p ≤ 0.999998`, `v > 0` the error value −1, whatever
`lnGamma` and `incompleteGamma` are -/
theorem qChisq_guard (fuel : Nat) (lg : ℝ → ℝ) (ig : ℝ → ℝ → ℝ → R ℝ) (p v : ℝ) :
    (qcGuard p v = true ↔ (p < chLo ∨ chHi < p ∨ v ≤ 0)) ∧
    (qcGuard p v = true → qChisq fuel lg ig p v = .val (-1)) := by
  refine ⟨qcGuard_iff p v, ?_⟩
  intro h
  simp [qChisq, h]

/-- **Which starting value** (cpp:232, 240): the closed form iff `v < -1.24 log p`; otherwise the
`v ≤ 0.32` iteration or Wilson–Hilferty -/
theorem qcStartKind_table (p v : ℝ) :
    (qcStartKind p v = 0 ↔ v < -c1_24 * Real.log p) ∧
    (qcStartKind p v = 1 ↔ (-c1_24 * Real.log p ≤ v ∧ v ≤ c0_32)) ∧
    (qcStartKind p v = 2 ↔ (-c1_24 * Real.log p ≤ v ∧ c0_32 < v)) := by
  have e : qcStartKind p v = if -c1_24 * Real.log p ≤ v then (if c0_32 < v then 2 else 1) else 0 := by
    simp only [qcStartKind, ScalarReal.geb_iff, ScalarReal.gtb_iff, ScalarReal.log_eq]
  rw [e]
  generalize -c1_24 * Real.log p = L
  by_cases h1 : L ≤ v
  · have h1' : ¬ (v < L) := not_lt.mpr h1
    by_cases h2 : c0_32 < v
    · have : ¬ (v ≤ c0_32) := not_le.mpr h2
      simp [h1, h2, this, h1']
    · have h2' : v ≤ c0_32 := not_lt.mp h2
      simp [h1, h2, h2', h1']
  · have h1' : v < L := not_le.mp h1
    simp [h1, h1']

/-- **Early return of the closed-form start** (cpp:236-237): a start below `e = 5e-7` is returned as it
is — `incompleteGamma` is never consulted (the statement holds for every `ig`, every fuel) -/
theorem qChisq_small_start_returns (fuel : Nat) (lg : ℝ → ℝ) (ig : ℝ → ℝ → ℝ → R ℝ) (p v : ℝ)
    (hg : qcGuard p v = false) (hk : qcStartKind p v = 0)
    (hs : qcStart0 p (v / 2) (lg (v / 2)) < qcE) :
    qChisq fuel lg ig p v = .val (qcStart0 p (v / 2) (lg (v / 2))) := by
  have : qcStart0 p (v / 2) (lg (v / 2)) - qcE < 0 := by linarith
  simp [qChisq, hg, hk, this]

/-- **Error exit of the refinement** (cpp:259-263): when `incompleteGamma` reports an error (a negative
value) in a round of l4, that round leaves the loop with the error value −1 -/
theorem qChisq_ig_error (ig : ℝ → ℝ → ℝ → R ℝ) (p xx g c ch t : ℝ)
    (h : ig (half * ch) xx g = .val t) (ht : t < 0) :
    qcL4Step ig p xx g c ch = .inr (.val (-1)) ∧
    ∀ fuel, flat (iter (qcL4Step ig p xx g c) (fuel + 1) ch) = .val (-1) := by
  have e : qcL4Step ig p xx g c ch = .inr (.val (-1)) := by
    simp only [qcL4Step]; rw [h]; simp [ht]
  exact ⟨e, fun fuel => by simp [iter, e, flat]⟩

/-- every exit of a round of l4 is a value or what `incompleteGamma` delivered -/
theorem qcL4_exit_not_exc (ig : ℝ → ℝ → ℝ → R ℝ) (hig : ∀ a b c, ig a b c ≠ .exc) (p xx g c : ℝ) :
    ∀ (n : Nat) (ch : ℝ), flat (iter (qcL4Step ig p xx g c) n ch) ≠ .exc := by
  intro n ch
  cases hi : iter (qcL4Step ig p xx g c) n ch with
  | none => simp [flat]
  | some r =>
    simp only [flat]
    refine iter_some_inv (qcL4Step ig p xx g c) (fun r => r ≠ .exc) ?_ n ch r hi
    intro s b hs
    simp only [qcL4Step] at hs
    cases hc : ig (half * s) xx g with
    | val t =>
      rw [hc] at hs
      simp only at hs
      split at hs
      · injection hs with hs; rw [← hs]; simp
      · split at hs
        · cases hs
        · injection hs with hs; rw [← hs]; simp
    | exc => exact absurd hc (hig _ _ _)
    | hang => rw [hc] at hs; injection hs with hs; rw [← hs]; simp

/-- `qChisq` never raises (given that `incompleteGamma` does not: `ig_never_raises`) -/
theorem qChisq_never_raises (fuel : Nat) (lg : ℝ → ℝ) (ig : ℝ → ℝ → ℝ → R ℝ)
    (hig : ∀ a b c, ig a b c ≠ .exc) (p v : ℝ) : qChisq fuel lg ig p v ≠ .exc := by
  unfold qChisq
  split
  · simp
  · simp only []
    split
    · split
      · simp
      · exact qcL4_exit_not_exc ig hig _ _ _ _ _ _
    · split
      · exact qcL4_exit_not_exc ig hig _ _ _ _ _ _
      · simp
    · exact qcL4_exit_not_exc ig hig _ _ _ _ _ _

/-- more fuel never changes a delivered value (the fuel is not observable), for every `lnGamma` and
`incompleteGamma` -/
theorem qChisq_fuel_irrelevant {α : Type} [Scalar α] (n k : Nat) (lg : α → α) (ig : α → α → α → R α) (p v w : α)
    (h : qChisq n lg ig p v = .val w) : qChisq (n + k) lg ig p v = .val w := by
  unfold qChisq at h ⊢
  by_cases hg : qcGuard p v = true
  · simp only [hg, if_true] at h ⊢; exact h
  · simp only [hg] at h ⊢
    generalize qcStartKind p v = kind at h ⊢
    cases kind with
    | zero =>
      simp only [Bool.false_eq_true, if_false] at h ⊢
      split
      · rename_i h2; simpa [h2] using h
      · rename_i h2
        simp only [h2] at h
        exact flat_iter_mono _ n k _ w h
    | succ k1 =>
      cases k1 with
      | zero =>
        simp only [Bool.false_eq_true, if_false, Nat.zero_add] at h ⊢
        cases hi : iter (qcL2Step (log (one - p)) (lg (v / two)) (v / two - one)) n c0_4 with
        | none => rw [hi] at h; simp at h
        | some ch =>
          rw [hi] at h
          rw [iter_mono _ n k _ ch hi]
          exact flat_iter_mono _ n k _ w h
      | succ m =>
        simp only [Bool.false_eq_true, if_false] at h ⊢
        exact flat_iter_mono _ n k _ w h

example : ∀ a b c : ℝ, incompleteGamma 1000 a b c ≠ .exc := fun a b c => ig_never_raises 1000 a b c

/-! ## `incompleteBeta` -/

/-- **Guard completeness**, unconditionally (for every choice of the sub-kernels): an exception iff
`α ≤ 0 ∨ β ≤ 0 ∨ x < 0 ∨ x > 1` -/
theorem ib_exc_iff (S : BetaSub ℝ) (x a b : ℝ) :
    incompleteBeta S x a b = .exc ↔ (a ≤ 0 ∨ b ≤ 0 ∨ x < 0 ∨ 1 < x) := by
  unfold incompleteBeta
  by_cases h1 : a ≤ 0 ∨ b ≤ 0
  · have : a ≤ 0 ∨ b ≤ 0 ∨ x < 0 ∨ 1 < x := by tauto
    simp [h1, this]
  · by_cases h2 : x < 0 ∨ 1 < x
    · have : a ≤ 0 ∨ b ≤ 0 ∨ x < 0 ∨ 1 < x := by tauto
      simp [h1, h2]
    · have : ¬ (a ≤ 0 ∨ b ≤ 0 ∨ x < 0 ∨ 1 < x) := by tauto
      simp only [this, iff_false]
      simp only [Bool.or_eq_true, ScalarReal.leb_iff, ScalarReal.ltb_iff, ScalarReal.gtb_iff,
        ScalarReal.zero_eq, ScalarReal.one_eq, h1, h2, if_false]
      split
      · simp
      · split
        · simp
        · split
          · cases S.ps a b x <;> simp [R.ofOpt]
          · split
            · split
              · generalize S.ps b a (1 - x) = o
                cases o <;> simp [R.ofOpt, R.map]
              · simp
            · simp

/-- exact end points -/
theorem ib_ends (S : BetaSub ℝ) (a b : ℝ) (ha : 0 < a) (hb : 0 < b) :
    incompleteBeta S 0 a b = .val 0 ∧ incompleteBeta S 1 a b = .val 1 := by
  have h1 : ¬ (a ≤ 0 ∨ b ≤ 0) := by push Not; exact ⟨ha, hb⟩
  constructor <;> simp [incompleteBeta, h1]

/-- strictly inside with `β x ≤ 1 ∧ x ≤ 0.95` the direct power series is the answer -/
theorem ib_direct_series (S : BetaSub ℝ) (x a b : ℝ) (ha : 0 < a) (hb : 0 < b) (hx0 : 0 < x) (hx1 : x < 1)
    (hps : psCond b x = true) : incompleteBeta S x a b = R.ofOpt (S.ps a b x) := by
  have h1 : ¬ (a ≤ 0 ∨ b ≤ 0) := by push Not; exact ⟨ha, hb⟩
  have h2 : ¬ (x < 0 ∨ 1 < x) := by push Not; exact ⟨le_of_lt hx0, le_of_lt hx1⟩
  have h3 : x ≠ 0 := ne_of_gt hx0
  have h4 : x ≠ 1 := ne_of_lt hx1
  simp [incompleteBeta, h1, h2, h3, h4, hps]

/-- **Tail swap, exactly.**  Whenever the executable guard `ibReflExpected` applies (strictly
inside, `x > α/(α+β)`, not in the direct power-series region — the remaining conjuncts hold
automatically in exact arithmetic, see `ibReflExpected_applies`), `incompleteBeta(x, α, β)` is the
clamped complement of `incompleteBeta(1 - x, β, α)`: the same sub-kernel values, `1 - t` (or
`1 - VERY_TINY`).  For every choice of the sub-kernels.  The driver evaluates the same `ibReflExpected`
at `Float` on the implementation's two answers (`refl.ibeta`). -/
theorem ib_reflect_swapped (S : BetaSub ℝ) (x a b : ℝ) (r : R ℝ)
    (h : ibReflExpected x a b (incompleteBeta S (1 - x) b a) = some r) :
    incompleteBeta S x a b = r := by
  simp only [ibReflExpected] at h
  split at h
  · rename_i hg
    simp only [Bool.and_eq_true, ScalarReal.gtb_iff, ScalarReal.ltb_iff, ScalarReal.zero_eq, ScalarReal.one_eq,
      Bool.not_eq_eq_eq_not, Bool.not_true, ScalarReal.eqb_iff] at hg
    obtain ⟨⟨⟨⟨⟨⟨⟨⟨⟨ha, hb⟩, hx0⟩, hx1⟩, hps⟩, hsw⟩, hw0⟩, hw1⟩, hnsw⟩, _⟩ := hg
    have h1 : ¬ (a ≤ 0 ∨ b ≤ 0) := by push Not; exact ⟨ha, hb⟩
    have h1' : ¬ (b ≤ 0 ∨ a ≤ 0) := by push Not; exact ⟨hb, ha⟩
    have h2 : ¬ (x < 0 ∨ 1 < x) := by push Not; exact ⟨le_of_lt hx0, le_of_lt hx1⟩
    have h2' : ¬ (1 - x < 0 ∨ 1 < 1 - x) := by push Not; exact ⟨le_of_lt hw0, le_of_lt hw1⟩
    have h3 : x ≠ 0 := ne_of_gt hx0
    have h4 : x ≠ 1 := ne_of_lt hx1
    have h3' : (1 : ℝ) - x ≠ 0 := ne_of_gt hw0
    have h4' : (1 : ℝ) - x ≠ 1 := ne_of_lt hw1
    have e : (1 : ℝ) - (1 - x) = x := by ring
    have h2'' : ¬ (1 < x ∨ 1 < 1 - x) := by push Not; exact ⟨le_of_lt hx1, le_of_lt hw1⟩
    injection h with h
    rw [← h]
    by_cases hq : psCond a (one - x) = true
    · have hq' : psCond a (1 - x) = true := by simpa using hq
      simp [incompleteBeta, h1, h1', h2, h2', h2'', h3, h4, h3', h4', hps, hsw, hq']
    · have hq0 : psCond a (one - x) = false := by simpa using hq
      have hq' : psCond a (1 - x) = false := by simpa using hq0
      simp [incompleteBeta, h1, h1', h2, h2', h2'', h3, h4, h3', h4', hps, hsw, hq', hnsw, e, R.map]
  · cases h

/-- in exact arithmetic the guard of `ib_reflect_swapped` is just: strictly inside, swapped, not in the
direct power-series region (the mirrored call is then never swapped, and `1 - (1 - x) = x`) -/
theorem ibReflExpected_applies (x a b : ℝ) (r2 : R ℝ) (ha : 0 < a) (hb : 0 < b) (hx0 : 0 < x) (hx1 : x < 1)
    (hps : psCond b x = false) (hsw : a / (a + b) < x) :
    ibReflExpected x a b r2 = some (if psCond a (1 - x) then r2.map complLe else r2.map complLt) := by
  have hab : 0 < a + b := by linarith
  have hns : ¬ (b / (b + a) < 1 - x) := by
    have : a / (a + b) + b / (b + a) = 1 := by
      rw [add_comm b a]; field_simp
    linarith
  have hns' : ibSwap (1 - x) b a = false := by
    rw [← Bool.not_eq_true, ibSwap_iff]; exact hns
  have hsw' : ibSwap x a b = true := (ibSwap_iff x a b).mpr hsw
  have hw0 : (0 : ℝ) < 1 - x := by linarith
  have hw1 : (1 : ℝ) - x < 1 := by linarith
  simp [ibReflExpected, ha, hb, hx0, hx1, hps, hsw', hns', hw0, hw1]

/-- **Reflection of the beta cdf, as far as it holds by construction** (`_partial`: the full
identity `I_x(α,β) = 1 − I_{1−x}(β,α)` for all `x` is a property of the special function, not of the
branch structure; what the code guarantees outright is the swapped side).  For `x` strictly inside,
above `α/(α+β)`, outside the direct power-series region: if the mirrored call delivers `t` above the
clamp threshold, the call delivers exactly `1 − t`. -/
theorem pBeta_reflect_partial (S : BetaSub ℝ) (x a b t : ℝ) (ha : 0 < a) (hb : 0 < b) (hx0 : 0 < x) (hx1 : x < 1)
    (hps : psCond b x = false) (hsw : a / (a + b) < x)
    (hm : incompleteBeta S (1 - x) b a = .val t) (ht : tiny < t) :
    incompleteBeta S x a b = .val (1 - t) := by
  apply ib_reflect_swapped S x a b
  rw [ibReflExpected_applies x a b _ ha hb hx0 hx1 hps hsw, hm]
  have h1 : ¬ (t ≤ tiny) := not_le.mpr ht
  have h2 : ¬ (t < tiny) := by linarith
  split <;> simp [R.map, complLe, complLt, h1, h2]

/-- the hypotheses of `pBeta_reflect_partial` are satisfiable: `α = β = 2`, `x = 0.97`, with
sub-kernels whose continued fractions are the constant 1 -/
example : ∃ S : BetaSub ℝ, ∃ t : ℝ, incompleteBeta S (1 - 97 / 100) 2 2 = .val t ∧
    psCond (2 : ℝ) (97 / 100) = false ∧ (2 : ℝ) / (2 + 2) < 97 / 100 := by
  refine ⟨⟨fun _ => 0, fun _ _ _ => some (1 / 2), fun _ _ _ => 1, fun _ _ _ => 1⟩, 1 / 2, ?_, ?_, by norm_num⟩
  · have : psCond (2 : ℝ) (1 - 97 / 100) = true := by
      rw [psCond_iff]; simp [c0_95]; norm_num
    rw [ib_direct_series _ _ _ _ (by norm_num) (by norm_num) (by norm_num) (by norm_num) this]
    simp [R.ofOpt]
  · rw [← Bool.not_eq_true, psCond_iff]; norm_num

/-- **Clamp of the swapped side** (cpp:615-618, 641-644, 661-664): whatever the sub-kernels deliver, on
the swapped side the value never exceeds `1 − VERY_TINY` -/
theorem ib_swapped_le (S : BetaSub ℝ) (x a b v : ℝ) (hsw : ibSwapped x a b = true)
    (h : incompleteBeta S x a b = .val v) : v ≤ 1 - tiny := by
  simp only [ibSwapped, Bool.and_eq_true, ScalarReal.gtb_iff, ScalarReal.ltb_iff, ScalarReal.zero_eq,
    ScalarReal.one_eq, Bool.not_eq_eq_eq_not, Bool.not_true] at hsw
  obtain ⟨⟨⟨⟨⟨ha, hb⟩, hx0⟩, hx1⟩, hps⟩, hs⟩ := hsw
  have h1 : ¬ (a ≤ 0 ∨ b ≤ 0) := by push Not; exact ⟨ha, hb⟩
  have h2 : ¬ (x < 0 ∨ 1 < x) := by push Not; exact ⟨le_of_lt hx0, le_of_lt hx1⟩
  have h3 : x ≠ 0 := ne_of_gt hx0
  have h4 : x ≠ 1 := ne_of_lt hx1
  have cle : ∀ t : ℝ, complLe t ≤ 1 - tiny := by
    intro t; simp only [complLe, ScalarReal.leb_iff, ScalarReal.one_eq]
    split
    · exact le_refl _
    · rename_i hh; linarith [not_le.mp hh]
  have clt : ∀ t : ℝ, complLt t ≤ 1 - tiny := by
    intro t; simp only [complLt, ScalarReal.ltb_iff, ScalarReal.one_eq]
    split
    · exact le_refl _
    · rename_i hh; linarith [not_lt.mp hh]
  simp only [incompleteBeta, Bool.or_eq_true, ScalarReal.leb_iff, ScalarReal.ltb_iff, ScalarReal.gtb_iff,
    ScalarReal.eqb_iff, ScalarReal.zero_eq, ScalarReal.one_eq, h1, h2, h3, h4, hps, hs, if_false, if_true,
    Bool.false_eq_true] at h
  split at h
  · generalize S.ps b a (1 - x) = o at h
    cases o with
    | none => simp [R.ofOpt, R.map] at h
    | some t => simp only [R.ofOpt, R.map, R.val.injEq] at h; rw [← h]; exact cle t
  · simp only [R.val.injEq] at h; rw [← h]; exact clt _

/-- **Where `incompleteBeta` can fail to return**, pointwise: only inside a call of the power series it
actually makes — the direct one `ps(α, β, x)` when `β x ≤ 1 ∧ x ≤ 0.95`, or the one after the tail swap
`ps(β, α, 1 - x)`.  (The continued fractions are bounded by the code's own 300 rounds.) -/
theorem ib_hang_only_at_series_call (S : BetaSub ℝ) (x a b : ℝ) (h : incompleteBeta S x a b = .hang) :
    (psCond b x = true ∧ S.ps a b x = none) ∨
    (psCond b x = false ∧ ibSwap x a b = true ∧ psCond a (1 - x) = true ∧ S.ps b a (1 - x) = none) := by
  unfold incompleteBeta at h
  split at h
  · cases h
  · split at h
    · cases h
    · split at h
      · cases h
      · split at h
        · cases h
        · split at h
          · rename_i hps
            left
            refine ⟨hps, ?_⟩
            cases hh : S.ps a b x with
            | none => rfl
            | some v => rw [hh] at h; simp [R.ofOpt] at h
          · rename_i hps
            right
            simp only [] at h
            split at h
            · rename_i hsw
              split at h
              · rename_i hq
                have e : (one : ℝ) - x = 1 - x := by simp
                rw [e] at hq h
                refine ⟨by simpa using hps, hsw, hq, ?_⟩
                cases hh : S.ps b a (1 - x) with
                | none => rfl
                | some v => rw [hh] at h; simp [R.ofOpt, R.map] at h
              · cases h
            · cases h

/-- … hence, pointwise: when the two power-series calls `incompleteBeta(x, α, β)` can make return, it
returns.  (Round-2 version assumed `∀ a b x, S.ps a b x ≠ none`, which the transcribed series with a
fixed fuel does not satisfy outside its call region; the hypotheses are now at the arguments passed.) -/
theorem ib_hangs_only_in_series (S : BetaSub ℝ) (x a b : ℝ)
    (h1 : S.ps a b x ≠ none) (h2 : S.ps b a (1 - x) ≠ none) : incompleteBeta S x a b ≠ .hang := by
  intro h
  rcases ib_hang_only_at_series_call S x a b h with ⟨_, hh⟩ | ⟨_, _, _, hh⟩
  · exact h1 hh
  · exact h2 hh

/-- the hypotheses of `ib_hangs_only_in_series` hold for the *transcribed* power series at real
arguments: `betaPs` with `β = 1` (the series `Σ (n-β)…` is identically 0) returns with fuel 1 -/
example (lg : ℝ → ℝ) (x : ℝ) : (betaSub 1 lg).ps 2 1 x ≠ none := by
  have h : ¬ ((tiny : ℝ) * 2⁻¹ < 0) := by have := tiny_pos; linarith
  simp [betaSub, betaPs, iter, psStep, h]

/-- **Termination of the power series** (`while (fabs(v) > z)`, cpp:919-926; the code has no bound
there), exact arithmetic, for `0 < x < 1`, `α > 0`, `0 ≤ β ≤ 2` (`_partial`: for `β > 2` the first
`⌈β⌉ - 2` factors `(n-β)x/n` are negative and can exceed 1 in modulus, the geometric bound starts
later — not proved): there is a number of rounds `N` such that the transcribed `betaPs` has returned
for every fuel `≥ N`, whatever `lnGamma` is.  From `|t_k| ≤ |(1-β)x| · x^k`. -/
theorem betaPs_terminates_partial (lg : ℝ → ℝ) (a b x : ℝ) (ha : 0 < a) (hb0 : 0 ≤ b) (hb2 : b ≤ 2)
    (hx0 : 0 < x) (hx1 : x < 1) : ∃ N : Nat, ∀ fuel, N ≤ fuel → betaPs fuel lg a b x ≠ none := by
  have hpos : (0 : ℝ) < tiny / (|(1 - b) * x| + 1) := div_pos tiny_pos (by positivity)
  obtain ⟨m, hm⟩ := exists_pow_lt_of_lt_one hpos hx1
  refine ⟨m + 1, fun fuel hf => ?_⟩
  have hden : (0 : ℝ) < |(1 - b) * x| + 1 := by positivity
  have hle : |(1 - b) * x| * x ^ m ≤ tiny := by
    have h1 : x ^ m * (|(1 - b) * x| + 1) < tiny := by rwa [lt_div_iff₀ hden] at hm
    have h2 : 0 ≤ x ^ m := pow_nonneg (le_of_lt hx0) m
    nlinarith [abs_nonneg ((1 - b) * x)]
  have ha1 : (0 : ℝ) < a + 1 := by linarith
  have := ps_loop_terminates a b x ha hb0 hb2 hx0 hx1 m fuel
    ⟨two, (one - b) * x, (one - b) * x / (a + one), zero⟩ hf (by simp)
    (by
      show |(one - b) * x / (a + one)| ≤ |(one - b) * x| / a
      simp only [ScalarReal.one_eq]
      rw [abs_div, abs_of_pos ha1]
      exact div_le_div_of_nonneg_left (abs_nonneg _) ha (by linarith))
    (by simpa using hle)
  intro hn
  simp only [betaPs, Option.map_eq_none_iff] at hn
  rw [hn] at this
  simp at this

/-- the hypotheses of `ib_hangs_only_in_series` / `qBeta_terminates` hold for the transcribed sub-kernels
at real, non-degenerate arguments: `incompleteBeta(x, 3/2, 1/2)` with the transcribed `betaPs` returns
for every `0 < x < 1` once the fuel is large enough (the fuel depends on `x`) -/
example (lg : ℝ → ℝ) (x : ℝ) (hx0 : 0 < x) (hx1 : x < 1) :
    ∃ N : Nat, ∀ fuel, N ≤ fuel → incompleteBeta (betaSub fuel lg) x (3 / 2) (1 / 2) ≠ .hang := by
  obtain ⟨N1, h1⟩ := betaPs_terminates_partial lg (3 / 2) (1 / 2) x (by norm_num) (by norm_num) (by norm_num) hx0 hx1
  obtain ⟨N2, h2⟩ := betaPs_terminates_partial lg (1 / 2) (3 / 2) (1 - x) (by norm_num) (by norm_num) (by norm_num)
    (by linarith) (by linarith)
  refine ⟨max N1 N2, fun fuel hf => ?_⟩
  exact ib_hangs_only_in_series _ x _ _ (h1 fuel (le_trans (le_max_left _ _) hf))
    (h2 fuel (le_trans (le_max_right _ _) hf))

/-! ## `qBeta` -/

/-- **Whatever the Newton iteration delivers is a value or the outcome of a `pBeta` call it made**,
pointwise: an outcome `bad` that is not a value was delivered by `pBeta(x, pp, qq)` for some queried
`x`, *at the working shapes* — the only shapes the iteration passes.  Both loops are bounded by the
code's own `niterations = 2000` (no fuel in the model). -/
theorem qbLowerTail_bad_from_query (pb : ℝ → ℝ → ℝ → R ℝ) (bad : R ℝ) (hbad : ∀ v, bad ≠ .val v)
    (a pp qq lnbeta : ℝ) (h : qbLowerTail pb a pp qq lnbeta = bad) : ∃ x, pb x pp qq = bad := by
  unfold qbLowerTail at h
  simp only [] at h
  cases hi : iterCap (qbOuterStep pb a pp qq lnbeta (qbAcu a pp)) niterations
      ⟨qbReset a (qbStart a pp qq lnbeta).2, zero, one, zero, zero⟩ with
  | inl s => rw [hi] at h; exact absurd h.symm (hbad _)
  | inr r =>
    rw [hi] at h
    simp only at h
    subst h
    refine iterCap_inr_inv _ (fun r => (∀ v, r ≠ .val v) → ∃ x, pb x pp qq = r) ?_ _ _ r hi hbad
    intro s b hs hb
    simp only [qbOuterStep] at hs
    cases hc : pb s.xinbta pp qq with
    | exc => rw [hc] at hs; injection hs with hs; exact ⟨s.xinbta, hc.trans hs⟩
    | hang => rw [hc] at hs; injection hs with hs; exact ⟨s.xinbta, hc.trans hs⟩
    | val y0 =>
      rw [hc] at hs
      simp only at hs
      split_ifs at hs <;> (injection hs with hs; exact absurd hs.symm (hb _))

/-- contrapositive form: an outcome `pBeta` never has *at the working shapes* is never the outcome -/
theorem qbLowerTail_ne (pb : ℝ → ℝ → ℝ → R ℝ) (bad : R ℝ) (hbad : ∀ v, bad ≠ .val v)
    (a pp qq lnbeta : ℝ) (hpb : ∀ x, pb x pp qq ≠ bad) : qbLowerTail pb a pp qq lnbeta ≠ bad := by
  intro h
  obtain ⟨x, hx⟩ := qbLowerTail_bad_from_query pb bad hbad a pp qq lnbeta h
  exact hpb x hx

/-- the argument checks of `qBeta` (cpp:451-454): `prob ∉ [0,1]` or a negative shape raise, whatever
`pBeta` is -/
theorem qBeta_guard_raises (lg : ℝ → ℝ) (pb : ℝ → ℝ → ℝ → R ℝ) (prob p q : ℝ)
    (h : prob < 0 ∨ 1 < prob ∨ p < 0 ∨ q < 0) : qBeta lg pb prob p q = .exc := by
  unfold qBeta
  by_cases h1 : prob < 0 ∨ 1 < prob
  · simp [h1]
  · have h2 : p < 0 ∨ q < 0 := by tauto
    simp [h1, h2]

/-- **Past its own checks `qBeta` raises only through a `pBeta` call it makes**, pointwise: for
`0 ≤ prob ≤ 1` and non-negative shapes an exception of `qBeta(prob, α, β)` is the exception of some
`pBeta(x, α, β)` (lower tail) or `pBeta(x, β, α)` (upper tail).  For every `pBeta`. -/
theorem qBeta_raises_only_through_pBeta (lg : ℝ → ℝ) (pb : ℝ → ℝ → ℝ → R ℝ) (prob p q : ℝ)
    (hg : ¬ (prob < 0 ∨ 1 < prob ∨ p < 0 ∨ q < 0)) (h : qBeta lg pb prob p q = .exc) :
    ∃ x, pb x p q = .exc ∨ pb x q p = .exc := by
  have h1 : ¬ (prob < 0 ∨ 1 < prob) := by tauto
  have h2 : ¬ (p < 0 ∨ q < 0) := by tauto
  unfold qBeta at h
  simp only [Bool.or_eq_true, ScalarReal.ltb_iff, ScalarReal.gtb_iff, ScalarReal.zero_eq, ScalarReal.one_eq,
    h1, h2, if_false] at h
  split at h
  · cases h
  · split at h
    · obtain ⟨x, hx⟩ := qbLowerTail_bad_from_query pb .exc (by simp) _ _ _ _ h
      exact ⟨x, Or.inl hx⟩
    · have h' := R.map_eq_bad _ _ _ (by simp) h
      obtain ⟨x, hx⟩ := qbLowerTail_bad_from_query pb .exc (by simp) _ _ _ _ h'
      exact ⟨x, Or.inr hx⟩

/-- every trial point the inner loop *accepts* (exit by `break` or `goto L_converged`, cpp:540-545) lies in
`[0,1]`, and strictly inside on `break`: a Newton iterate can leave `[0,1]` only when the inner loop
runs into its cap -/
theorem qbInner_exit_in_unit (xinbta y prev acu : ℝ) (n : Nat) (s0 st : Inn ℝ) (c : Bool)
    (h : iterCap (qbInnerStep xinbta y prev acu) n s0 = .inr (st, c)) :
    0 ≤ st.tx ∧ st.tx ≤ 1 ∧ (c = false → st.tx ≠ 0 ∧ st.tx ≠ 1) := by
  refine iterCap_inr_inv (qbInnerStep xinbta y prev acu)
    (fun r => 0 ≤ r.1.tx ∧ r.1.tx ≤ 1 ∧ (r.2 = false → r.1.tx ≠ 0 ∧ r.1.tx ≠ 1)) ?_ n s0 (st, c) h
  intro s b hs
  simp only [qbInnerStep, Bool.and_eq_true, ScalarReal.geb_iff, ScalarReal.leb_iff, ScalarReal.ltb_iff,
    ScalarReal.zero_eq, ScalarReal.one_eq, Bool.or_eq_true, Bool.not_eq_eq_eq_not, Bool.not_true,
    ScalarReal.eqb_iff] at hs
  split_ifs at hs with h1 h2 h3 h4
  · injection hs with hs; rw [← hs]; exact ⟨h2.1, h2.2, fun hc => by cases hc⟩
  · injection hs with hs; rw [← hs]
    refine ⟨h2.1, h2.2, fun _ => ⟨?_, ?_⟩⟩
    · intro e
      have e' : xinbta - s.g * y = 0 := e
      have := h4.1; simp [e'] at this
    · intro e
      have e' : xinbta - s.g * y = 1 := e
      have := h4.2; simp [e'] at this

/-- the start value after the reset (cpp:514-515) lies strictly inside `(0,1)` for the working tail
probability `0 < a ≤ 1/2` -/
theorem qbReset_in_unit (a x : ℝ) (ha : 0 < a) (ha2 : a ≤ 1 / 2) : 0 < qbReset a x ∧ qbReset a x < 1 := by
  have hl : (0 : ℝ) < qbLower := by simp [qbLower, fpu, dy2]
  have hu : (qbUpper : ℝ) < 1 := by simp [qbUpper, c2_22em16]
  simp only [qbReset, Bool.or_eq_true, ScalarReal.leb_iff, ScalarReal.geb_iff, half_real, two_real]
  split_ifs with h
  · constructor <;> linarith
  · push Not at h
    constructor <;> linarith [h.1, h.2]

/-- **Guard completeness of `qBeta` over the transcribed `pBeta`, as far as it is proved** (`_partial`).
The full statement for positive shapes is `qBeta(prob, α, β) raises ↔ prob < 0 ∨ prob > 1`.  Proved:
`←` (`qBeta_guard_raises`) and, for `→`, that an exception inside `0 ≤ prob ≤ 1` with `α, β > 0` can
only come from a Newton iterate `x` *outside `[0,1]`* handed to `pBeta` (whose own guard is
`ib_exc_iff`).  Missing: that no iterate leaves `[0,1]`.  By `qbInner_exit_in_unit` and
`qbReset_in_unit` every accepted trial point and the start lie in `[0,1]`; the only leak is the inner
loop running into its cap of 2000 step reductions with its last trial point outside, which exact
arithmetic does not exclude.  The driver checks it on every `k.qbeta` / `qbeta` op (an exception
inside the domain with positive shapes is a `FAIL:qBeta_no_exception_inside_domain`, a concrete
failing input of the property's last clause). -/
theorem qBeta_raises_iff_partial (lg : ℝ → ℝ) (S : BetaSub ℝ) (prob p q : ℝ) (hp : 0 < p) (hq : 0 < q)
    (h0 : 0 ≤ prob) (h1 : prob ≤ 1) (h : qBeta lg (incompleteBeta S) prob p q = .exc) :
    ∃ x, (x < 0 ∨ 1 < x) ∧ (incompleteBeta S x p q = .exc ∨ incompleteBeta S x q p = .exc) := by
  have hg : ¬ (prob < 0 ∨ 1 < prob ∨ p < 0 ∨ q < 0) := by
    push Not; exact ⟨h0, h1, le_of_lt hp, le_of_lt hq⟩
  obtain ⟨x, hx⟩ := qBeta_raises_only_through_pBeta lg _ prob p q hg h
  refine ⟨x, ?_, hx⟩
  rcases hx with hx | hx
  · rcases (ib_exc_iff S x p q).mp hx with h | h | h | h
    · linarith
    · linarith
    · exact Or.inl h
    · exact Or.inr h
  · rcases (ib_exc_iff S x q p).mp hx with h | h | h | h
    · linarith
    · linarith
    · exact Or.inl h
    · exact Or.inr h

/-- **A zero shape raises** (the checks of `qBeta` are `< 0`, those of `pBeta` `≤ 0`): for `0 < prob < 1`
and non-negative shapes one of which is 0, `qBeta` over the transcribed `pBeta` raises — in its first
Newton round.  So the right-hand side of the guard iff for *non-negative* shapes is
`prob ∉ [0,1] ∨ (0 < prob < 1 ∧ (α = 0 ∨ β = 0))` up to the leak described at `qBeta_raises_iff_partial`. -/
theorem qBeta_zero_shape_raises (lg : ℝ → ℝ) (S : BetaSub ℝ) (prob p q : ℝ) (h0 : 0 < prob) (h1 : prob < 1)
    (hp : 0 ≤ p) (hq : 0 ≤ q) (hz : p = 0 ∨ q = 0) : qBeta lg (incompleteBeta S) prob p q = .exc := by
  have a1 : ¬ (prob < 0 ∨ 1 < prob) := by push Not; constructor <;> linarith
  have a2 : ¬ (p < 0 ∨ q < 0) := by push Not; exact ⟨hp, hq⟩
  have a3 : prob ≠ 0 := ne_of_gt h0
  have a4 : prob ≠ 1 := ne_of_lt h1
  have first : ∀ a pp qq l, (pp ≤ 0 ∨ qq ≤ 0) → qbLowerTail (incompleteBeta S) a pp qq l = .exc := by
    intro a pp qq l hz'
    have e : ∀ x, incompleteBeta S x pp qq = .exc := fun x =>
      (ib_exc_iff S x pp qq).mpr (by rcases hz' with h | h; exact Or.inl h; exact Or.inr (Or.inl h))
    have hn : niterations = 1999 + 1 := rfl
    simp only [qbLowerTail, hn, iterCap, qbOuterStep, e]
  unfold qBeta
  simp only [Bool.or_eq_true, ScalarReal.ltb_iff, ScalarReal.gtb_iff, ScalarReal.eqb_iff, ScalarReal.zero_eq,
    ScalarReal.one_eq, a1, a2, a3, a4, if_false, or_self]
  split
  · exact first _ _ _ _ (by rcases hz with h | h; exact Or.inl (le_of_eq h); exact Or.inr (le_of_eq h))
  · rw [first _ _ _ _ (by rcases hz with h | h; exact Or.inr (le_of_eq h); exact Or.inl (le_of_eq h))]
    rfl

/-- the example of the audit: `qBeta(0.25, 0, 1)` raises although none of `qBeta`'s own checks fires -/
example (lg : ℝ → ℝ) (S : BetaSub ℝ) : qBeta lg (incompleteBeta S) (1 / 4) 0 1 = .exc :=
  qBeta_zero_shape_raises lg S _ _ _ (by norm_num) (by norm_num) (le_refl _) (by norm_num) (Or.inl rfl)

/-- Round-2 form of the guard iff, kept under the name that says what it needs: it applies to a
`pBeta` that **never** raises *at the working shapes* — not to the transcribed `incompleteBeta`, which
raises outside `[0,1]` (use `qBeta_raises_iff_partial` there). -/
theorem qBeta_raises_iff_of_total_pBeta (lg : ℝ → ℝ) (pb : ℝ → ℝ → ℝ → R ℝ) (prob p q : ℝ)
    (hpq : ∀ x, pb x p q ≠ .exc) (hqp : ∀ x, pb x q p ≠ .exc) :
    qBeta lg pb prob p q = .exc ↔ (prob < 0 ∨ 1 < prob ∨ p < 0 ∨ q < 0) := by
  refine ⟨fun h => ?_, qBeta_guard_raises lg pb prob p q⟩
  by_contra hg
  obtain ⟨x, hx | hx⟩ := qBeta_raises_only_through_pBeta lg pb prob p q hg h
  · exact hpq x hx
  · exact hqp x hx

/-- a `pBeta` meeting the hypotheses of `qBeta_raises_iff_of_total_pBeta`: one that never raises
(the identity) -/
example (lg : ℝ → ℝ) (prob p q : ℝ) :
    qBeta lg (fun x _ _ => R.val x) prob p q = .exc ↔ (prob < 0 ∨ 1 < prob ∨ p < 0 ∨ q < 0) :=
  qBeta_raises_iff_of_total_pBeta lg _ prob p q (fun _ => by simp) (fun _ => by simp)

/-- **Where `qBeta` can fail to return**, pointwise: both Newton loops carry the code's own cap, so a
`hang` of `qBeta(prob, α, β)` is the `hang` of a `pBeta(x, α, β)` or `pBeta(x, β, α)` call it made -/
theorem qBeta_hang_only_through_pBeta (lg : ℝ → ℝ) (pb : ℝ → ℝ → ℝ → R ℝ) (prob p q : ℝ)
    (h : qBeta lg pb prob p q = .hang) : ∃ x, pb x p q = .hang ∨ pb x q p = .hang := by
  unfold qBeta at h
  split at h
  · cases h
  · split at h
    · cases h
    · split at h
      · cases h
      · split at h
        · obtain ⟨x, hx⟩ := qbLowerTail_bad_from_query pb .hang (by simp) _ _ _ _ h
          exact ⟨x, Or.inl hx⟩
        · have h' := R.map_eq_bad _ _ _ (by simp) h
          obtain ⟨x, hx⟩ := qbLowerTail_bad_from_query pb .hang (by simp) _ _ _ _ h'
          exact ⟨x, Or.inr hx⟩

/-- **Totality**, pointwise in the shapes: `qBeta(prob, α, β)` returns whenever `pBeta(·, α, β)` and
`pBeta(·, β, α)` do (hypotheses at the two shape pairs the routine passes; round 2 had them for all
shapes) -/
theorem qBeta_terminates (lg : ℝ → ℝ) (pb : ℝ → ℝ → ℝ → R ℝ) (prob p q : ℝ)
    (hpq : ∀ x, pb x p q ≠ .hang) (hqp : ∀ x, pb x q p ≠ .hang) : qBeta lg pb prob p q ≠ .hang := by
  intro h
  obtain ⟨x, hx | hx⟩ := qBeta_hang_only_through_pBeta lg pb prob p q h
  · exact hpq x hx
  · exact hqp x hx

/-- … and over the transcribed `incompleteBeta`: a `hang` of `qBeta` is a power-series call that did
not return, at shapes `(α, β)` or `(β, α)` and an argument inside the series region -/
theorem qBeta_hangs_only_in_series (lg : ℝ → ℝ) (S : BetaSub ℝ) (prob p q : ℝ)
    (h : qBeta lg (incompleteBeta S) prob p q = .hang) :
    ∃ x a b, ((a = p ∧ b = q) ∨ (a = q ∧ b = p)) ∧ psCond b x = true ∧ S.ps a b x = none := by
  obtain ⟨x, hx | hx⟩ := qBeta_hang_only_through_pBeta lg _ prob p q h
  · rcases ib_hang_only_at_series_call S x p q hx with ⟨h1, h2⟩ | ⟨_, _, h1, h2⟩
    · exact ⟨x, p, q, Or.inl ⟨rfl, rfl⟩, h1, h2⟩
    · exact ⟨1 - x, q, p, Or.inr ⟨rfl, rfl⟩, h1, h2⟩
  · rcases ib_hang_only_at_series_call S x q p hx with ⟨h1, h2⟩ | ⟨_, _, h1, h2⟩
    · exact ⟨x, q, p, Or.inr ⟨rfl, rfl⟩, h1, h2⟩
    · exact ⟨1 - x, p, q, Or.inl ⟨rfl, rfl⟩, h1, h2⟩

/-- the hypotheses of `qBeta_terminates` hold for the transcribed `incompleteBeta` with a power series
that returns at the two shape pairs (here: the transcribed `betaPs` at `β = α = 1`, fuel 1) -/
example (lg : ℝ → ℝ) (prob : ℝ) : qBeta lg (incompleteBeta (betaSub 1 lg)) prob 1 1 ≠ .hang := by
  intro h
  obtain ⟨x, a, b, hab, _, hps⟩ := qBeta_hangs_only_in_series lg _ prob 1 1 h
  have : a = 1 ∧ b = 1 := by rcases hab with h | h <;> exact h
  rw [this.1, this.2] at hps
  have h' : ¬ ((tiny : ℝ) < 0) := by have := tiny_pos; linarith
  simp [betaSub, betaPs, iter, psStep, h'] at hps

/-- end points are returned as they are (also for a zero shape: the check is `< 0`) -/
theorem qBeta_ends (lg : ℝ → ℝ) (pb : ℝ → ℝ → ℝ → R ℝ) (p q : ℝ) (hp : 0 ≤ p) (hq : 0 ≤ q) :
    qBeta lg pb 0 p q = .val 0 ∧ qBeta lg pb 1 p q = .val 1 := by
  have h2 : ¬ (p < 0 ∨ q < 0) := by push Not; exact ⟨hp, hq⟩
  constructor <;> simp [qBeta, h2]

/-- **Tail swap, exactly**: for `1/2 < prob < 1`, `qBeta(prob; α, β) = 1 − qBeta(1 − prob; β, α)` —
the same lower-tail iteration on the same working triple `(1 − prob, β, α)` with the same `lnBeta`
(symmetric), then the complement.  For every `lnGamma` and `pBeta`, every shapes (both sides raise
together).  The driver evaluates the same `qbReflExpected` at `Float` on the implementation's two
answers (`refl.qbeta`). -/
theorem qBeta_reflect (lg : ℝ → ℝ) (pb : ℝ → ℝ → ℝ → R ℝ) (prob p q : ℝ) (r : R ℝ)
    (h : qbReflExpected prob (qBeta lg pb (1 - prob) q p) = some r) : qBeta lg pb prob p q = r := by
  simp only [qbReflExpected] at h
  split at h
  · rename_i hg
    simp only [Bool.and_eq_true, ScalarReal.gtb_iff, ScalarReal.ltb_iff, ScalarReal.one_eq, half_real] at hg
    obtain ⟨h0, h1⟩ := hg
    injection h with h
    rw [← h]
    have a1 : ¬ (prob < 0 ∨ 1 < prob) := by push Not; constructor <;> linarith
    have a2 : ¬ (1 - prob < 0 ∨ 1 < 1 - prob) := by push Not; constructor <;> linarith
    have a2' : ¬ (1 < prob ∨ 1 < 1 - prob) := by push Not; constructor <;> linarith
    have a3 : prob ≠ 0 := by intro h; linarith
    have a4 : prob ≠ 1 := ne_of_lt h1
    have a5 : (1 : ℝ) - prob ≠ 0 := by intro h; linarith
    have a6 : (1 : ℝ) - prob ≠ 1 := by intro h; linarith
    have a7 : ¬ (prob ≤ 1 / 2) := not_le.mpr h0
    have a8 : (1 : ℝ) - prob ≤ 1 / 2 := by linarith
    have a8' : (1 : ℝ) ≤ 2⁻¹ + prob := by linarith
    have a7' : ¬ (prob ≤ 2⁻¹) := by intro h; linarith
    have el : lnBeta lg q p = lnBeta lg p q := by
      simp only [lnBeta, add_comm q p]; ring
    by_cases hs : p < 0 ∨ q < 0
    · have hs' : q < 0 ∨ p < 0 := by tauto
      simp [qBeta, a1, a2, a2', hs, hs', R.map]
    · have hs' : ¬ (q < 0 ∨ p < 0) := by tauto
      simp [qBeta, a1, a2, a2', a3, a4, a5, a6, a7', a8', hs, hs', el]
  · cases h

/-- the guard of `qBeta_reflect` is satisfiable: `prob = 3/4` -/
example (r2 : R ℝ) : qbReflExpected (3 / 4 : ℝ) r2 = some (r2.map (fun x => 1 - x)) := by
  have h1 : (2⁻¹ : ℝ) < 3 / 4 := by norm_num
  have h2 : (3 / 4 : ℝ) < 1 := by norm_num
  simp [qbReflExpected, h1, h2]

end Bpp.C08
