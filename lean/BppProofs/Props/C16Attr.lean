import BppProofs.Lemmas.AttrU
import BppProofs.Props.C17Vars
/-!
# C16 — AttributesTools: removeComments, getAttributesMap, resolveVariables

Model: `BppModel/Text/AttrU.lean` (UB-aware: `.error .ub` = undefined behaviour, `.error .std` = an
exception that is not the library's, `.error .hang` = the loop does not end, `.error .bpp` = the
library's exception).  `safe x = true` means: `x` returned or raised the library's exception.
-/
namespace Bpp.C16
open Bpp.Text Bpp.Text.U

/-! ## removeComments -/

/-- **removeComments is safe and terminates for any text and ANY pair of marks** (after the repair
"fix: AttributesTools::removeComments never returned for marks that start with one another"): marks
one of which starts with the other (an empty mark, twice the same mark) are refused with the
library's exception; for all the others the end mark is found strictly after the place where the
begin mark was found, so every round erases at least one character. -/
theorem removeComments_safe (s b e : Str) (hs : StrOk s) : safe (removeComments s b e) = true :=
  removeComments_safe_lem s b e hs

example : removeComments "a=1 # c".toList "#".toList "\n".toList = .ok "a=1 ".toList := by decide
example : removeComments "a=/*x*/1/*y*/2".toList "/*".toList "*/".toList = .ok "a=*/1*/2".toList := by
  decide
example : removeComments "ab".toList "ab".toList "a".toList = .error .bpp := by decide
example : removeComments "ab".toList [] "a".toList = .error .bpp := by decide

/-- the result is never longer than the text -/
theorem removeComments_alloc (s b e r : Str) (h : removeComments s b e = .ok r) :
    r.length ≤ s.length :=
  removeComments_alloc_lem s b e r h

/-- **the code as found did not return** for such marks: with `begin = end = "a"` the end mark is
found where the begin mark is, nothing is erased, and the next round starts from the same place;
the same with an empty mark, or with `begin = "ab"`, `end = "a"` (first characters equal) -/
theorem removeComments_old_hangs :
    removeCommentsOld "a".toList "a".toList "a".toList = .error .hang ∧
    removeCommentsOld "\n".toList [] "\n".toList = .error .hang ∧
    removeCommentsOld "ab".toList "ab".toList "a".toList = .error .hang := by decide

/-- the cleaning of one line (three `removeComments`, then `removeWhiteSpaces`) -/
theorem cleanLine_safe (line : Str) (hs : StrOk line) : safe (cleanLine line) = true :=
  cleanLine_safe_lem line hs

/-- … and it never lengthens the line -/
theorem cleanLine_alloc (line r : Str) (h : cleanLine line = .ok r) : r.length ≤ line.length :=
  cleanLine_alloc_lem line r h

example : cleanLine "a = 1 // x".toList = .ok "a=1".toList := by decide
example : cleanLine " k = /* c */ v # z".toList = .ok "k=*/v".toList := by decide

/-! ## getAttributesMap after the two repairs -/

/-- **the continuation-joining loop returns** (no access out of range, whatever the sizes — no
hypothesis on the lines is needed): each round removes one continuation mark from the text still to
be read (`arg` and the lines after `i`), so `fuel` larger than that text suffices; the index does
not go back and the joined line is made of characters of `arg` and of the lines consumed. -/
theorem joinLoop_safe (argv2 : List Str) (fuel : Nat) (arg : Str) (i : Nat)
    (hf : arg.length + sumLen (argv2.drop (i + 1)) < fuel) :
    safe (joinLoop 2 argv2 fuel arg i) = true ∧
    ∀ arg' i', joinLoop 2 argv2 fuel arg i = .ok (arg', i') →
      i ≤ i' ∧
      arg'.length + sumLen (argv2.drop (i' + 1)) ≤ arg.length + sumLen (argv2.drop (i + 1)) ∧
      arg'.length ≤ arg.length + sumLen (argv2.drop (i + 1)) := by
  constructor
  · obtain ⟨p, hp⟩ := joinLoop_ok argv2 fuel arg i hf
    rw [hp]; rfl
  · intro arg' i' h
    obtain ⟨h1, h2⟩ := joinLoop_bounds argv2 fuel arg i arg' i' h
    exact ⟨h1, h2, by omega⟩

/-- the joined line is a `std::string` when the lines together are -/
theorem joinLoop_strOk (argv2 : List Str) (fuel i : Nat) (hi : i < argv2.length)
    (hs : sumLen argv2 ≤ maxStr) (arg' : Str) (i' : Nat)
    (h : joinLoop 2 argv2 fuel argv2[i] i = .ok (arg', i')) : StrOk arg' := by
  obtain ⟨_, h2⟩ := joinLoop_bounds argv2 fuel _ i arg' i' h
  have := sumLen_drop_succ hi
  have := sumLen_drop_le argv2 i
  unfold StrOk; omega

example : joinLoop 2 ["a=\\".toList, "b\\".toList, "c".toList, "d".toList] 9 "a=\\".toList 0
    = .ok ("a=bc".toList, 2) := by decide
example : joinLoop 2 ["a=b\\".toList] 9 "a=b\\".toList 0 = .ok ("a=b".toList, 1) := by decide
example : joinLoop 2 ["\\".toList, []] 9 "\\".toList 0 = .ok ([], 1) := by decide

/-- **getAttributesMap is safe and terminates** on any lines whose total size is that of a
`std::string` (cleaning, joining and parsing; any delimiter, the empty one included) -/
theorem getAttributesMap_safe (argv : List Str) (delim : Str) (hs : sumLen argv ≤ maxStr) :
    safe (getAttributesMap argv delim) = true :=
  getAttributesMapG_safe argv delim hs

example : getAttributesMap ["a = 1 # one".toList, "b = x\\".toList, "y // two".toList, [], "c".toList]
    "=".toList = .ok [("a".toList, "1".toList), ("b".toList, "xy".toList)] := by decide
example : getAttributesMap ["a=b\\".toList] "=".toList = .ok [("a".toList, "b".toList)] := by decide
example : getAttributesMap ["\\".toList, []] "=".toList = .ok [] := by decide

/- `getAttributesMap_alloc` as requested (without `hs`) is not provable: the two `range` calls of
the model go through `toPtrdiff` / `wadd`, which wrap on texts longer than 2^63 characters (longer
than any `std::string`), and then `name` and `value` may overlap. -/
/-- the map holds no more characters than the lines read -/
theorem getAttributesMap_alloc_partial (argv : List Str) (delim : Str) (m : Keyval.Map)
    (hs : sumLen argv ≤ maxStr) (h : getAttributesMap argv delim = .ok m) :
    sumLen (m.map (·.1)) + sumLen (m.map (·.2)) ≤ sumLen argv :=
  getAttributesMapG_alloc argv delim m hs h

/-! ## getAttributesMap: the code as found -/

/-- a last line ending with the continuation mark: `argv[i + 1]` is read past the end -/
theorem attributes_old_ub_last_line :
    getAttributesMapOld ["a=b\\".toList] "=".toList = .error .ub := by decide

/-- a continuation mark alone followed by an empty line: the joined line is empty and
`arg[arg.size() - 1]` is `arg[npos]` -/
theorem attributes_old_ub_empty_join :
    getAttributesMapOld ["\\".toList, []] "=".toList = .error .ub := by decide

/-! ## resolveVariables -/

/-- **resolveVariables has no undefined behaviour and raises no `std::out_of_range`**, whatever the
three mark characters, the map and the number of rounds allowed: every `substr` is within bounds -/
theorem resolve_no_ub (code beg en : Char) (fuel : Nat) (am : Keyval.Map) :
    resolveVariablesU code beg en fuel am ≠ .error .ub ∧
    resolveVariablesU code beg en fuel am ≠ .error .std := by
  constructor <;> intro h <;>
    rcases resolveKeysU_err code beg en fuel _ _ _ h with h' | h' <;> cases h'

example : resolveVariablesU '$' '(' ')' 5 [("a".toList, "x$(b)".toList), ("b".toList, "1".toList)]
    = .ok [("a".toList, "x1".toList), ("b".toList, "1".toList)] := by decide
example : resolveVariablesU '%' '[' ']' 5 [("a".toList, "x%[b".toList)] = .error .bpp := by decide

/-! ### resolveVariables with the default marks and C17's functional model

The statement "`resolveVariablesU '$' '(' ')' fuel am` is `Vars.resolveVariables fuel am` with the
outcomes renamed" is FALSE, for two reasons.
* The two models do not count the same thing: `Vars.resolveOne` tests its fuel after `find` (fuel =
  substitutions allowed), `resolveOneU` before (fuel = evaluations of the `while` test allowed).
  `refines_same_fuel_false` below is the witness.  With `fuel + 1` rounds on one side and `fuel`
  substitutions on the other the models agree (`resolveU_refines_partial`).
* The `size_t` arithmetic of the UB-aware model (`wadd index1 2`, `wsub (wsub index2 index1) 2`,
  `wadd index2 1`) is the plain one only on values shorter than 2^64 characters.  A `std::string`
  is shorter (`StrOk`), but a `Str` of the model need not be, and the values grow by substitution:
  the hypothesis `runOk fuel am` says that every value to which the run applies a substitution is
  a `std::string` (decidable; for a map on which the C17 model returns, one check gives it for
  every fuel: `runOk_all`). -/

theorem refines_same_fuel_false :
    resolveVariablesU '$' '(' ')' 1 [("a".toList, "$(b)".toList)] = .error .hang ∧
    Vars.resolveVariables 1 [("a".toList, "$(b)".toList)] = .ok [("a".toList, [])] := by decide

/-- the requested `resolveU_refines` (same fuel on both sides, no hypothesis) does not hold -/
theorem resolveU_refines_false :
    ¬ ∀ (fuel : Nat) (am : Keyval.Map), resolveVariablesU '$' '(' ')' fuel am =
      (match Vars.resolveVariables fuel am with
        | .ok m => .ok m
        | .exc => .error .bpp
        | .diverge => .error .hang) := by
  intro h
  have := h 1 [("a".toList, "$(b)".toList)]
  revert this
  decide

/-- **the UB-aware model with the default marks is C17's functional model** (strongest true variant
of `resolveU_refines`): when C17's model returns or raises with `fuel` substitutions, the UB-aware
one does the same with `fuel + 1` rounds; when C17's model runs out of fuel, so does the UB-aware
one. -/
theorem resolveU_refines_partial (fuel : Nat) (am : Keyval.Map) (hs : runOk fuel am = true) :
    match Vars.resolveVariables fuel am with
    | .ok m => resolveVariablesU '$' '(' ')' (fuel + 1) am = .ok m
    | .exc => resolveVariablesU '$' '(' ')' (fuel + 1) am = .error .bpp
    | .diverge => resolveVariablesU '$' '(' ')' fuel am = .error .hang := by
  have hs' : keysOk fuel (am.map (fun kv => kv.1)) am = true := hs
  obtain ⟨h1, h2, h3⟩ := keys_sim fuel _ am hs'
  unfold Vars.resolveVariables resolveVariablesU
  cases h : Vars.resolveKeys fuel (am.map (fun kv => kv.1)) am with
  | ok m => exact (h1 m h).1
  | exc => exact h2 h
  | diverge => exact h3 h

/-- an outcome other than `hang` does not depend on the number of rounds allowed (any marks) -/
theorem resolveU_stable (code beg en : Char) (am : Keyval.Map) (n n' : Nat) (hn : n ≤ n')
    (h : resolveVariablesU code beg en n am ≠ .error .hang) :
    resolveVariablesU code beg en n' am = resolveVariablesU code beg en n am :=
  resolveVariablesU_mono code beg en am n h n' hn

/-- the converse: what the UB-aware model returns or raises, C17's model does with the same fuel -/
theorem resolveU_refines_conv (fuel : Nat) (am : Keyval.Map) (hs : runOk fuel am = true) :
    (∀ m, resolveVariablesU '$' '(' ')' fuel am = .ok m → Vars.resolveVariables fuel am = .ok m) ∧
    (resolveVariablesU '$' '(' ')' fuel am = .error .bpp → Vars.resolveVariables fuel am = .exc) := by
  have key := resolveU_refines_partial fuel am hs
  constructor
  · intro m hm
    have hst := resolveU_stable '$' '(' ')' am fuel (fuel + 1) (by omega) (by rw [hm]; intro h; cases h)
    rw [hm] at hst
    cases h : Vars.resolveVariables fuel am with
    | ok m' => rw [h] at key; simp only [] at key; rw [key] at hst; cases hst; rfl
    | exc => rw [h] at key; simp only [] at key; rw [key] at hst; cases hst
    | diverge => rw [h] at key; simp only [] at key; rw [key] at hm; cases hm
  · intro hm
    have hst := resolveU_stable '$' '(' ')' am fuel (fuel + 1) (by omega) (by rw [hm]; intro h; cases h)
    rw [hm] at hst
    cases h : Vars.resolveVariables fuel am with
    | ok m' => rw [h] at key; simp only [] at key; rw [key] at hst; cases hst
    | exc => rfl
    | diverge => rw [h] at key; simp only [] at key; rw [key] at hm; cases hm

example : runOk 5 [("a".toList, "x$(b)".toList), ("b".toList, "$(c)$(c)".toList), ("c".toList, "1".toList)]
    = true := by decide
example : resolveVariablesU '$' '(' ')' 4 [("a".toList, "x$(b)".toList), ("b".toList, "$(c)$(c)".toList),
    ("c".toList, "1".toList)]
    = .ok [("a".toList, "x11".toList), ("b".toList, "11".toList), ("c".toList, "1".toList)] := by decide

/-- **the known finding** (C17-resolvevariables-cyclic-nontermination) in the UB-aware model:
`a=$(b), b=$(b)$(b)` — whatever the number of rounds allowed the loop does not end, the value of `a`
alternates between `$(b)` and `$(b)$(b)` -/
theorem resolve_hangs_witness (fuel : Nat) :
    resolveVariablesU '$' '(' ')' fuel
      [("a".toList, "$(b)".toList), ("b".toList, "$(b)$(b)".toList)] = .error .hang := by
  have e : [("a".toList, "$(b)".toList), ("b".toList, "$(b)$(b)".toList)] = cyclicMap := by decide
  rw [e]
  exact cyclic_resolve_hangs fuel

/-- **why a bounded-expansion guard was not added** (round 2 re-assessment).  A guard "raise after
more than `c(|map|)` substitutions in one entry" changes no terminating run only if `c` is above
what every acyclic map needs.  That need is exponential in the number of entries: the five acyclic
definitions `z0=$(z1)$(z1), z1=$(z2)$(z2), z2=$(z3)$(z3), z3=$(z4)$(z4), z4=` make the loop of
`z0` substitute 30 = 2^5 - 2 times (31 rounds of the model's loop, the last one finds no
variable) while no value ever exceeds 20 characters — with `n` entries `2^n - 2` times.  A cap
polynomial in the size of the map (or any cap on the value length: the oscillating witness above
never grows) would refuse such terminating runs, and a cap of `2^|map|` is no guard in practice.
Telling the cyclic definitions apart needs the set of variables under expansion, i.e. the real
cycle detection that was judged too costly. -/
theorem resolve_acyclic_needs_exponential_rounds :
    let m : Keyval.Map := [("z0".toList, "$(z1)$(z1)".toList), ("z1".toList, "$(z2)$(z2)".toList),
      ("z2".toList, "$(z3)$(z3)".toList), ("z3".toList, "$(z4)$(z4)".toList), ("z4".toList, [])]
    resolveVariablesU '$' '(' ')' 30 m = .error .hang ∧
    resolveVariablesU '$' '(' ')' 31 m =
      .ok [("z0".toList, []), ("z1".toList, []), ("z2".toList, []), ("z3".toList, []), ("z4".toList, [])] := by
  decide +kernel


/-- **the allocation of resolveVariables is exponential in the number of definitions** (audit round 2;
known finding `C16-resolvevariables-exponential-allocation`).  There is NO `resolveVariables_alloc`
theorem with a polynomial bound, and none can exist: the acyclic definitions
`v00=x, v01=$(v00)$(v00), …, v10=$(v09)$(v09)` (11 entries, values of 121 characters in all) resolve — in the
favourable order, two substitutions per entry — to a value of 2^10 = 1024 characters for `v10`;
with 31 entries the value has 2^31 characters and the implementation ends in `std::bad_alloc`.
The true bound (the value of an entry is at most `L * w^n` characters for `n` entries holding at
most `w` references and `L` other characters each) is NOT proved here. -/
theorem resolve_alloc_doubling_witness :
    let chain : Keyval.Map := ("v00".toList, "x".toList) ::
      (List.range 10).map (fun i =>
        let k (j : Nat) : Str := 'v' :: Number.natDigits (j / 10) ++ Number.natDigits (j % 10)
        (k (i + 1), "$(".toList ++ k i ++ ")$(".toList ++ k i ++ ")".toList))
    (chain.map (fun kv => kv.2.length)).sum = 121 ∧
    (resolveVariablesU '$' '(' ')' 3 chain).map (fun m => m.map (fun kv => kv.2.length)) =
      .ok [1, 2, 4, 8, 16, 32, 64, 128, 256, 512, 1024] := by
  decide +kernel


/- The full-strength termination statement
     `∀ am, ∃ F, ∀ fuel, F ≤ fuel → resolveVariablesU '$' '(' ')' fuel am ≠ .error .hang`
   is FALSE: `resolve_hangs_witness` refutes it (`resolve_termination_false` below). -/
theorem resolve_termination_false :
    ¬ ∀ am : Keyval.Map, ∃ F, ∀ fuel, F ≤ fuel → resolveVariablesU '$' '(' ')' fuel am ≠ .error .hang := by
  intro h
  obtain ⟨F, hF⟩ := h [("a".toList, "$(b)".toList), ("b".toList, "$(b)$(b)".toList)]
  exact hF F (Nat.le_refl _) (resolve_hangs_witness F)

/-- **acyclic definitions ⇒ the loop terminates and reaches the full expansion**, in the UB-aware
model (from `Bpp.C17.resolve_fixed_point`).  `hs`: no string longer than a `std::string` is built on
the way. -/
theorem resolve_terminates_partial (env : Vars.SEnv) (h : Vars.AcyclicOk env = true)
    (hs : ∀ fuel, runOk fuel (Vars.renderEnv env) = true) :
    ∃ F, ∀ fuel, F ≤ fuel →
      resolveVariablesU '$' '(' ')' fuel (Vars.renderEnv env) = .ok (Vars.resolved env) := by
  obtain ⟨F, hF⟩ := Bpp.C17.resolve_fixed_point env h
  refine ⟨F + 1, fun fuel hfuel => ?_⟩
  obtain ⟨f, rfl⟩ : ∃ f, fuel = f + 1 := ⟨fuel - 1, by omega⟩
  have key := resolveU_refines_partial f _ (hs f)
  rw [hF f (by omega)] at key
  exact key

/-- the same without reference to acyclicity: one returning run of C17's model on which every
string is a `std::string` is enough -/
theorem resolveU_of_converged (F : Nat) (am m : Keyval.Map) (h : Vars.resolveVariables F am = .ok m)
    (hs : runOk F am = true) :
    ∀ fuel, F + 1 ≤ fuel → resolveVariablesU '$' '(' ')' fuel am = .ok m := by
  intro fuel hfuel
  have key := resolveU_refines_partial F am hs
  rw [h] at key
  simp only [] at key
  rw [resolveU_stable '$' '(' ')' am (F + 1) fuel hfuel (by rw [key]; intro h; cases h), key]

/-- non-vacuity of `resolve_terminates_partial`: definitions in the "wrong" order, two levels -/
example : ∃ F, ∀ fuel, F ≤ fuel →
    resolveVariablesU '$' '(' ')' fuel
      (Vars.renderEnv [(['a'], [.lit ['x'], .ref ['b']]), (['b'], [.ref ['c'], .ref ['u']]), (['c'], [.lit ['1']])])
    = .ok [(['a'], ['x', '1']), (['b'], ['1']), (['c'], ['1'])] :=
  resolve_terminates_partial _ (by decide)
    (runOk_all 4 _ [(['a'], ['x', '1']), (['b'], ['1']), (['c'], ['1'])] (by decide) (by decide))

end Bpp.C16
