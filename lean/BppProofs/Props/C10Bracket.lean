import BppProofs.Lemmas.OptimObjective
/-!
# C10, part 2 — one-dimensional bracketing returns a triple whose middle point has the lowest value

`OneDimensionOptimizationTools::bracketMinimum` / `inwardBracketMinimum` (model in
`BppModel/Optim.lean`), over `ℝ`, for **every** function object `I` whose evaluation step
`parameters[0].setValue(x); function.f(parameters)` computes a function `g` of `x`
(`Det I g J`), every pair of starting abscissae and every number of scan intervals.
`bracket_objective` instantiates `I` with the objective of the harness (any objective
`obj : List ℝ → ℝ`, any point, any coordinate).  Rounding is not modelled.
-/
namespace Bpp.C10
open Bpp Bpp.Optim

variable {F : Type} {J : F → PList ℝ → Prop}

/-- **inward_bracket_lowest**: whenever the inward routine returns, the triple `(a, b, c)` it returns
has its ends at the given abscissae, its three values are the function at its three abscissae, and
the middle point `b` has the lowest value (`Spec.bracketOk`, the predicate the driver evaluates on
the implementation's triples).  All inputs: any `a`, `b`, any number `n` of scan intervals (`n = 0`
makes `jump` a division by zero, which this statement does not depend on). -/
theorem inward_bracket_lowest (I : FunI F ℝ) (g : ℝ → ℝ) (hd : Det I g J) (fuel : Nat) (a b : ℝ) (n : Nat)
    (fn fn' : F) (pl : PList ℝ) (k : Bracket ℝ) (hJ : J fn pl)
    (h : inwardBracketMinimum I fuel a b n fn pl = .ok (fn', k)) :
    Spec.bracketOk k = true ∧ k.a.x = a ∧ k.c.x = b ∧
    k.a.f = g k.a.x ∧ k.b.f = g k.b.x ∧ k.c.f = g k.c.x := by
  obtain ⟨h1, h2, h3, h4, h5, h6, h7, -⟩ := inward_spec I g hd fuel a b n fn fn' pl k hJ h
  refine ⟨?_, h1, h2, h3, h4, h5⟩
  simp [Spec.bracketOk, h6, h7]

/-- the inward routine always returns when the evaluations do (it has no unbounded loop over the
reals: the `while (isnan || isinf)` loop is never entered) -/
theorem inward_bracket_returns (I : FunI F ℝ) (fuel : Nat) (a b : ℝ) (n : Nat) (fn : F) (pl : PList ℝ) (e : Exc × F)
    (h : inwardBracketMinimum I (fuel + 1) a b n fn pl = .error e) :
    ∃ fn0 pl0 x, eval0 I fn0 pl0 x = .error e := by
  unfold inwardBracketMinimum at h
  cases h1 : eval0 I fn pl a with
  | error e1 => rw [h1] at h; simp only [Except.error.injEq] at h; exact ⟨_, _, _, h ▸ h1⟩
  | ok r1 =>
    obtain ⟨fn1, pl1, fa⟩ := r1
    rw [h1] at h
    try simp only [] at h
    cases h2 : eval0 I fn1 pl1 b with
    | error e2 => rw [h2] at h; simp only [Except.error.injEq] at h; exact ⟨_, _, _, h ▸ h2⟩
    | ok r2 =>
      obtain ⟨fn2, pl2, fb⟩ := r2
      rw [h2] at h
      try simp only [] at h
      rw [shrinkB_real] at h
      try simp only [] at h
      -- the scan
      have scan : ∀ (m : Nat) (fn0 : F) (pl0 : PList ℝ) (c : ℝ) (best : BPt ℝ) (e' : Exc × F) (j : ℝ),
          inwardScan I j m fn0 pl0 c best = .error e' → ∃ fn0 pl0 x, eval0 I fn0 pl0 x = .error e' := by
        intro m
        induction m with
        | zero => intro fn0 pl0 c best e' j hs; rw [inwardScan] at hs; cases hs
        | succ m ih =>
          intro fn0 pl0 c best e' j hs
          rw [inwardScan] at hs
          try simp only [] at hs
          cases he : eval0 I fn0 pl0 (c + j) with
          | error e3 => rw [he] at hs; simp only [Except.error.injEq] at hs; exact ⟨_, _, _, hs ▸ he⟩
          | ok r3 => obtain ⟨f3, p3, v3⟩ := r3; rw [he] at hs; exact ih _ _ _ _ _ _ hs
      split at h
      · rename_i e4 hs4
        simp only [Except.error.injEq] at h
        exact scan _ _ _ _ _ _ _ (h ▸ hs4)
      · rename_i fn4 pl4 best hs4
        split at h
        · rename_i e5 h5
          simp only [Except.error.injEq] at h
          exact ⟨_, _, _, h ▸ h5⟩
        · cases h

/-- **bracket_partial_correct**: whenever the outward (parabolic) routine returns — fuel exhaustion
is the modelled non-termination of its `while (b.f > c.f)` loop, which a monotone objective keeps
going for ever — the middle point of the triple has the lowest value, the three values are the
function at the three abscissae, and the middle value is not above the function at either starting
abscissa (the search only goes downhill).  The abscissa proposed by the parabolic fit plays no role
in the proof: the statement holds whatever the division in it yields. -/
theorem bracket_partial_correct (I : FunI F ℝ) (g : ℝ → ℝ) (hd : Det I g J) (fuel : Nat) (a b : ℝ)
    (fn fn' : F) (pl : PList ℝ) (k : Bracket ℝ) (hJ : J fn pl)
    (h : bracketMinimum I fuel a b fn pl = .ok (fn', k)) :
    Spec.bracketOk k = true ∧ k.a.f = g k.a.x ∧ k.b.f = g k.b.x ∧ k.c.f = g k.c.x ∧
    k.b.f ≤ g a ∧ k.b.f ≤ g b := by
  obtain ⟨hk, hbc, -⟩ := outward_spec I g hd fuel a b fn fn' pl k hJ h
  refine ⟨?_, hk.a, hk.b, hk.c, le_trans hk.bm (min_le_left _ _), le_trans hk.bm (min_le_right _ _)⟩
  simp [Spec.bracketOk, hk.ba, hbc]

/-- the same for the objective of the harness: any objective `obj`, any point `pt0` of any dimension,
any coordinate `k` of it, searched through an unconstrained parameter of precision 0 (plain or
auto-correcting): the values of the triple are the objective at `pt0` with coordinate `k` replaced -/
theorem bracket_objective (obj : List ℝ → ℝ) (D : Deriv ℝ) (cap : Option Nat) (pt0 : List ℝ) (k : Nat) (hk : k < pt0.length)
    (q : NP ℝ) (hq : q.name = k) (hp : q.p.precision = 0) (hc : q.p.constraint = none)
    (log : List (List ℝ)) (fuel : Nat) (a b : ℝ) (inward : Bool) (n : Nat) (fn' : Fn ℝ) (br : Bracket ℝ)
    (h : (if inward then inwardBracketMinimum (Fn.iface obj D cap) fuel a b n ⟨pt0, log⟩ [q]
          else bracketMinimum (Fn.iface obj D cap) fuel a b ⟨pt0, log⟩ [q]) = .ok (fn', br)) :
    Spec.bracketOk br = true ∧ br.b.f = obj (pt0.set k br.b.x) ∧
    br.a.f = obj (pt0.set k br.a.x) ∧ br.c.f = obj (pt0.set k br.c.x) := by
  have hJ : Along pt0 k (⟨pt0, log⟩ : Fn ℝ) [q] := ⟨⟨q, rfl, hq, hp, hc⟩, hk, rfl, fun _ _ => rfl⟩
  cases inward with
  | true =>
    obtain ⟨h1, -, -, h4, h5, h6⟩ := inward_bracket_lowest _ _ (objective_det obj D cap pt0 k) fuel a b n _ _ _ _ hJ h
    exact ⟨h1, h5, h4, h6⟩
  | false =>
    obtain ⟨h1, h2, h3, h4, -, -⟩ := bracket_partial_correct _ _ (objective_det obj D cap pt0 k) fuel a b _ _ _ _ hJ h
    exact ⟨h1, h3, h2, h4⟩

/-- non-vacuity: the hypotheses of the theorems above are met by the objective `x ↦ x₀ + x₁` at the
point `(3, 4)`, searched along coordinate 0 -/
example : ∃ (I : FunI (Fn ℝ) ℝ) (g : ℝ → ℝ) (J : Fn ℝ → PList ℝ → Prop),
    Det I g J ∧ J ⟨[3, 4], []⟩ [⟨0, ⟨3, 0, none, false⟩⟩] ∧ g 5 = 9 :=
  ⟨Fn.iface (fun x => x.sum) ⟨fun _ _ => 0, fun _ _ => 0⟩ none, _, _, objective_det _ _ _ [3, 4] 0,
   ⟨⟨_, rfl, rfl, rfl, rfl⟩, by simp, rfl, fun _ _ => rfl⟩, by norm_num⟩

end Bpp.C10
