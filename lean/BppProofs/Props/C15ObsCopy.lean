import BppProofs.Lemmas.TreeObsCopy
import BppProofs.Props.C15Obs
import BppProofs.Props.C14Copy
/-!
# C15, object level, round 2 — observer copies of the tree container, removal of sons
(src/Bpp/Graph/AssociationTreeGraphImplObserver.h, model `BppModel/TreeObsCopy.lean`)

Proved here:
* over all histories of object-level calls that also **copy / clone / assign observers** and **remove sons**
  through an observer, the association invariant holds and the cached validity flag is sound
  (`tw_inv_ext`, `tw_cache_sound_ext`); the number of observer slots never changes (`obs_slots`);
* **a copy has the same relations** (`obs_copy_same_relations`, `obs_clone_same_relations`,
  `obs_assign_same_relations`): the copy constructor, `clone()` and `operator=` install in slot `k` an observer
  with the object↔id pairs of the source; the tree graph, the cached flag and the other observers are untouched;
* **a copy answers the same tree queries** (`obs_copy_same_tree`, `obs_copy_same_tree_rest`, and the same for
  `clone()` / `operator=`): father, edge to the father, leaves under a node, subtree nodes / edges, node / edge
  paths, MRCA, `hasFather`, number of sons — by label, object for object;
* **the copy holds fresh objects only** (`obs_copy_fresh_objects`): the predicate `copy_independent:<map>` the
  driver evaluates on the implementation's identity dump.
-/
set_option linter.unusedVariables false
namespace Bpp.C15
open Bpp Bpp.Graph Bpp.AL Bpp.Graph.TW

/-! ## the invariant over the extended histories -/

/-- **the association invariant over all histories** of object-level calls on the observed tree container,
including observer copies (copy constructor, `clone()`, `operator=`) and `removeSon` / `removeSons` through
an observer; each call succeeding or raising -/
theorem tw_inv_ext (d : Bool) (ops : List TWOpX) : WInv ((TW.init d).runX ops).w :=
  (runX_inv ops _ (inv_init d (C14.winv_init d))).winv

/-- **cache soundness over all those histories**: a set validity flag means the traversal answers true on
the graph as it is now (copying an observer does not touch the tree graph; removing a son resets the flag) -/
theorem tw_cache_sound_ext (d : Bool) (ops : List TWOpX) :
    ((TW.init d).runX ops).valid = true → T.isTree ((TW.init d).runX ops).w.g = .ok true :=
  (runX_inv ops _ (inv_init d (C14.winv_init d))).sound

/-- the world always has its three observer slots: the side condition `k < tw.w.obs.length` of the theorems
below is `k < 3` on every reachable state -/
theorem obs_slots (d : Bool) (ops : List TWOpX) : ((TW.init d).runX ops).w.obs.length = 3 :=
  runX_slots ops _ rfl

/-! ## a copy has the same relations -/

/-- **the copy constructor**: slot `k` (an existing slot: `hk`) holds the copy of observer `j`, with the same
object↔id pairs; the tree graph, the cached validity flag and every other observer are as before
(`hw` is not needed for this part; it is what makes the copy answer like the source, `obs_copy_same_tree`) -/
theorem obs_copy_same_relations (tw tw' : TW) (j k : Nat) (o : Obs) (hw : WInv tw.w) (hj : tw.w.getObs j = some o)
    (hk : k < tw.w.obs.length) (h : tw.copyObs j k = (.ok, tw')) :
    tw'.w.getObs k = some (World.copyObs o) ∧ (World.copyObs o).Ng = o.Ng ∧ (World.copyObs o).Eg = o.Eg ∧
    tw'.w.g = tw.w.g ∧ tw'.valid = tw.valid ∧ (∀ i, i ≠ k → tw'.w.getObs i = tw.w.getObs i) := by
  have hi := copyObs_ok hj hk h
  exact ⟨hi.slot, rfl, rfl, hi.graph, hi.valid, hi.others⟩

/-- **`clone()`** -/
theorem obs_clone_same_relations (tw tw' : TW) (j k : Nat) (o : Obs) (hw : WInv tw.w) (hj : tw.w.getObs j = some o)
    (hk : k < tw.w.obs.length) (h : tw.cloneObs j k = (.ok, tw')) :
    tw'.w.getObs k = some (World.copyObs o) ∧ (World.copyObs o).Ng = o.Ng ∧ (World.copyObs o).Eg = o.Eg ∧
    tw'.w.g = tw.w.g ∧ tw'.valid = tw.valid ∧ (∀ i, i ≠ k → tw'.w.getObs i = tw.w.getObs i) :=
  obs_copy_same_relations tw tw' j k o hw hj hk h

/-- **`operator=`** onto another observer (a successful assignment has a target, so slot `k` exists) -/
theorem obs_assign_same_relations (tw tw' : TW) (j k : Nat) (o : Obs) (hw : WInv tw.w) (hj : tw.w.getObs j = some o)
    (hjk : j ≠ k) (h : tw.assignObs j k = (.ok, tw')) :
    tw'.w.getObs k = some (World.copyObs o) ∧ (World.copyObs o).Ng = o.Ng ∧ (World.copyObs o).Eg = o.Eg ∧
    tw'.w.g = tw.w.g ∧ tw'.valid = tw.valid ∧ (∀ i, i ≠ k → tw'.w.getObs i = tw.w.getObs i) := by
  have hi := assignObs_ok hj hjk h
  exact ⟨hi.slot, rfl, rfl, hi.graph, hi.valid, hi.others⟩

/-- the copy is in order against the shared graph, like every observer of the world after the copy -/
theorem obs_copy_in_order (tw tw' : TW) (j k : Nat) (o : Obs) (hw : WInv tw.w) (hj : tw.w.getObs j = some o)
    (h : tw.copyObs j k = (.ok, tw')) : WInv tw'.w ∧ OInv tw'.w.g (World.copyObs o) := by
  obtain ⟨u, w', hr, ht⟩ := ofObsOnly_ok h
  have hs := world_copy_sameG hw j k
  have hr' : tw.w.copy j k = .ok u w' := hr
  rw [hr'] at hs
  have hg : tw'.w.g = tw.w.g := by rw [ht]; exact hs.2
  refine ⟨by rw [ht]; exact hs.1, ?_⟩
  rw [hg]; exact Graph.copyObs_inv (hw.obs j o hj)

/-! ## a copy answers the same tree queries -/

/-- **the copy maps ids back to the same objects** (by label) as the source: `graphidToN_` / `graphidToE_`
rebuilt by the copy constructor agree with the source's at every id -/
theorem obs_copy_same_objects (g : G) (o : Obs) (hi : OInv g o) :
    (∀ id, (World.copyObs o).nodeFromGid id = o.nodeFromGid id) ∧
    (∀ e, (World.copyObs o).edgeFromGid e = o.edgeFromGid e) ∧
    (∀ ids, (World.copyObs o).nodesFromGids ids = o.nodesFromGids ids) ∧
    (∀ es, (World.copyObs o).edgesFromGids es = o.edgesFromGids es) :=
  ⟨copyObs_nodeFromGid hi, copyObs_edgeFromGid hi, fun ids => congrFun (copyObs_nodesFromGids hi) ids,
   fun es => congrFun (copyObs_edgesFromGids hi) es⟩

/-- **a copy answers the same tree queries**: after a successful copy of observer `j` into slot `k`, the copy
`c` answers `getFatherOfNode`, `getEdgeToFather`, `getLeavesUnderNode`, `getSubtreeNodes`,
`getNodePathBetweenTwoNodes` and `MRCA` like the source did, object for object (by label) -/
theorem obs_copy_same_tree (tw tw' : TW) (j k : Nat) (o : Obs) (hw : WInv tw.w) (hj : tw.w.getObs j = some o)
    (hk : k < tw.w.obs.length) (h : tw.copyObs j k = (.ok, tw')) (a b : Obj) :
    tw'.fatherOf (World.copyObs o) a = tw.fatherOf o a ∧
    tw'.edgeToFather (World.copyObs o) a = tw.edgeToFather o a ∧
    tw'.leavesUnderObj (World.copyObs o) a = tw.leavesUnderObj o a ∧
    tw'.subtreeNodesObj (World.copyObs o) a = tw.subtreeNodesObj o a ∧
    tw'.nodePathObj (World.copyObs o) a b = tw.nodePathObj o a b ∧
    tw'.mrcaObj (World.copyObs o) [a, b] = tw.mrcaObj o [a, b] := by
  have hi := copyObs_ok hj hk h
  have q := copy_queries (hw.obs j o hj) hi.graph hi.valid a b [a, b]
  exact ⟨q.1, q.2.1, q.2.2.1, q.2.2.2.1, q.2.2.2.2.2.1, q.2.2.2.2.2.2.2.1⟩

/-- … and the remaining object-level queries: `getSubtreeEdges`, `getEdgePathBetweenTwoNodes`, `MRCA` of any
list of objects, `hasFather`, `getNumberOfSons` -/
theorem obs_copy_same_tree_rest (tw tw' : TW) (j k : Nat) (o : Obs) (hw : WInv tw.w) (hj : tw.w.getObs j = some o)
    (hk : k < tw.w.obs.length) (h : tw.copyObs j k = (.ok, tw')) (a b : Obj) (l : List Obj) :
    tw'.subtreeEdgesObj (World.copyObs o) a = tw.subtreeEdgesObj o a ∧
    tw'.edgePathObj (World.copyObs o) a b = tw.edgePathObj o a b ∧
    tw'.mrcaObj (World.copyObs o) l = tw.mrcaObj o l ∧
    tw'.hasFatherObj (World.copyObs o) a = tw.hasFatherObj o a ∧
    tw'.nbSonsObj (World.copyObs o) a = tw.nbSonsObj o a := by
  have hi := copyObs_ok hj hk h
  have q := copy_queries (hw.obs j o hj) hi.graph hi.valid a b l
  exact ⟨q.2.2.2.2.1, q.2.2.2.2.2.2.1, q.2.2.2.2.2.2.2.1, q.2.2.2.2.2.2.2.2.1, q.2.2.2.2.2.2.2.2.2⟩

/-- the same for `clone()` -/
theorem obs_clone_same_tree (tw tw' : TW) (j k : Nat) (o : Obs) (hw : WInv tw.w) (hj : tw.w.getObs j = some o)
    (hk : k < tw.w.obs.length) (h : tw.cloneObs j k = (.ok, tw')) (a b : Obj) :
    tw'.fatherOf (World.copyObs o) a = tw.fatherOf o a ∧
    tw'.edgeToFather (World.copyObs o) a = tw.edgeToFather o a ∧
    tw'.leavesUnderObj (World.copyObs o) a = tw.leavesUnderObj o a ∧
    tw'.subtreeNodesObj (World.copyObs o) a = tw.subtreeNodesObj o a ∧
    tw'.nodePathObj (World.copyObs o) a b = tw.nodePathObj o a b ∧
    tw'.mrcaObj (World.copyObs o) [a, b] = tw.mrcaObj o [a, b] :=
  obs_copy_same_tree tw tw' j k o hw hj hk h a b

/-- the same for `operator=` -/
theorem obs_assign_same_tree (tw tw' : TW) (j k : Nat) (o : Obs) (hw : WInv tw.w) (hj : tw.w.getObs j = some o)
    (hjk : j ≠ k) (h : tw.assignObs j k = (.ok, tw')) (a b : Obj) :
    tw'.fatherOf (World.copyObs o) a = tw.fatherOf o a ∧
    tw'.edgeToFather (World.copyObs o) a = tw.edgeToFather o a ∧
    tw'.leavesUnderObj (World.copyObs o) a = tw.leavesUnderObj o a ∧
    tw'.subtreeNodesObj (World.copyObs o) a = tw.subtreeNodesObj o a ∧
    tw'.nodePathObj (World.copyObs o) a b = tw.nodePathObj o a b ∧
    tw'.mrcaObj (World.copyObs o) [a, b] = tw.mrcaObj o [a, b] := by
  have hi := assignObs_ok hj hjk h
  have q := copy_queries (hw.obs j o hj) hi.graph hi.valid a b [a, b]
  exact ⟨q.1, q.2.1, q.2.2.1, q.2.2.2.1, q.2.2.2.2.2.1, q.2.2.2.2.2.2.2.1⟩

/-! ## the copy holds fresh objects only -/

/-- **copy_independent** at the tree observer: the copy of observer `j` built in slot `k` — objects identified
by (owning pool, label) — holds in every one of its eight maps only objects of slot `k`'s own pool -/
theorem obs_copy_fresh_objects (j k : Nat) (o : Obs) : (IObs.copyI k (o.tag j)).foreign k = none := by
  rw [C14.copy_labels j k o]
  exact C14.tag_owned k (World.copyObs o)

/-! ## the hypotheses are satisfiable

`exHist` of `Props/C15Obs.lean` (the rooted tree `10 -> 11` with edge object 100, `10 -> 12` with edge object
101, built through observer 0), then observer 0 is copied into slot 1. -/

/-- the history of the examples -/
def exHistX : List TWOpX := exHist.map .base ++ [.copy 0 1]

example : WInv ((TW.init true).runX exHistX).w := tw_inv_ext true exHistX
/-- the copy succeeds, slot 1 was empty before … -/
example : (((TW.init true).runX (exHist.map .base)).copyObs 0 1).1 = .ok ∧
    ((TW.init true).runX (exHist.map .base)).w.getObs 1 = none := by decide
/-- … and holds an observer with the same object↔id pairs afterwards -/
example : (((TW.init true).runX exHistX).w.getObs 1).map (fun c => (c.Ng, c.Eg)) =
    (((TW.init true).runX exHistX).w.getObs 0).map (fun o => (o.Ng, o.Eg)) ∧
    (((TW.init true).runX exHistX).w.getObs 1).map (·.Ng) = some [(10, 0), (11, 1), (12, 2)] ∧
    (((TW.init true).runX exHistX).w.getObs 1).map (·.Eg) = some [(100, 0), (101, 1)] := by decide
/-- the copy answers the tree queries: the father of 11 is 10 through the branch 100, the leaves under 10 are 11, 12 -/
example : (((TW.init true).runX exHistX).w.getObs 1).map
    (fun c => (((TW.init true).runX exHistX).fatherOf c 11, ((TW.init true).runX exHistX).edgeToFather c 11)) =
      some (some (some 10), some (some 100)) := by decide
/-- `setFather(11, 12, 100)` through the copy succeeds and both observers see 12 as the father of 11 -/
example : (((TW.init true).runX exHistX).setFather 1 11 12 (some 100)).1 = .ok := by decide
example :
    let tw := (TW.init true).runX (exHistX ++ [.base (.setFather 1 11 12 (some 100))])
    (tw.w.getObs 1).map (fun c => tw.fatherOf c 11) = some (some (some 12)) ∧
    (tw.w.getObs 0).map (fun o => tw.fatherOf o 11) = some (some (some 12)) ∧
    -- the source was told that the branch 100 sat on is gone; the copy carries 100 on the new branch
    (tw.w.getObs 0).map (·.Eg) = some [(101, 1)] ∧ (tw.w.getObs 1).map (·.Eg) = some [(100, 2), (101, 1)] := by decide
/-- `removeSon(10, 12)` through the copy: both observers forget the edge object 101 -/
example :
    let tw := (TW.init true).runX (exHistX ++ [.removeSon 1 10 12])
    (tw.w.getObs 0).map (·.Eg) = some [(100, 0)] ∧ (tw.w.getObs 1).map (·.Eg) = some [(100, 0)] := by decide
/-- `removeSons(10)` through the source returns the objects 11, 12 -/
example : (((TW.init true).runX exHistX).removeSons 0 10).1 = some [11, 12] := by decide
/-- `operator=`: after a further node created through the copy, the source is assigned the copy -/
example :
    let tw := (TW.init true).runX (exHistX ++ [.base (.createNode 1 13), .assign 1 0])
    (tw.w.getObs 0).map (·.Ng) = some [(10, 0), (11, 1), (12, 2), (13, 3)] := by decide
/-- a copy into a slot that does not exist changes nothing (hence `hk` in `obs_copy_same_relations`) -/
example : (((TW.init true).runX exHistX).copyObs 0 5).1 = .ok ∧
    (((TW.init true).runX exHistX).copyObs 0 5).2.w.getObs 5 = none := by decide
/-- the copy of the example holds objects of its own pool only -/
example : (((TW.init true).runX exHistX).w.getObs 0).map (fun o => (IObs.copyI 1 (o.tag 0)).foreign 1) = some none := by decide

end Bpp.C15
