import BppProofs.Lemmas.LapEasy
/-!
# C04 — the linear-assignment solver (`MatrixTools::lap`, `MatrixTools.h:1263-1541`)

The model of `lap` is relational (`BppModel/Lap.lean`): an answer `(rowSol, colSol, u, v)` is
accepted iff `rowSol` is a permutation with inverse `colSol` (`permB`) and the dual variables
certify it (`certB`, or `certTolB` with a slack for costs whose reduced costs are not exactly
representable).  The driver evaluates exactly these predicates, in `Rat`, on the implementation's
answer for every generated cost matrix.  The theorems below show, for every size `n` and every
real cost matrix, that a certified answer is optimal among **all** `n!` permutations.
-/
namespace Bpp.C04
open Bpp Bpp.Mx Bpp.Mx.Lap

/-- **Certified answers are optimal within `2·n·ε`.**  If `σ` is a permutation of `{0..n-1}`,
`u i + v j ≤ c i j + ε` everywhere and `c i (σ i) ≤ u i + v (σ i) + ε` on the assignment, then no
permutation `τ` is cheaper than `σ` by more than `2 n ε`. -/
theorem lap_certificate_approx (n : Nat) (c : Nat → Nat → ℝ) (σ ρ : Nat → Nat) (u v : Nat → ℝ) (eps : ℝ)
    (hperm : permB n σ ρ = true) (hcert : certTolB n c σ u v eps = true) (τ : Equiv.Perm (Fin n)) :
    cost n c σ ≤ (∑ i : Fin n, c i.val (τ i).val) + 2 * n * eps := by
  obtain ⟨π, hπ⟩ := perm_of_permB hperm
  simp only [certTolB, Bool.and_eq_true, allLt_iff, ScalarReal.leb_iff] at hcert
  obtain ⟨hfeas, htight⟩ := hcert
  have e1 : cost n c σ = ∑ i : Fin n, c i.val (π i).val := by
    rw [cost, sumTo_fin]
    exact Finset.sum_congr rfl (fun i _ => by rw [hπ i])
  have e2 : ∑ i : Fin n, c i.val (π i).val ≤ ∑ i : Fin n, (u i.val + v (π i).val + eps) :=
    Finset.sum_le_sum (fun i _ => by
      have := htight i.val i.isLt
      rw [← hπ i] at this
      exact this)
  have e3 : ∑ i : Fin n, v (π i).val = ∑ i : Fin n, v i.val := Equiv.sum_comp π (fun i : Fin n => v i.val)
  have e4 : ∑ i : Fin n, v (τ i).val = ∑ i : Fin n, v i.val := Equiv.sum_comp τ (fun i : Fin n => v i.val)
  have e5 : ∑ i : Fin n, (u i.val + v (τ i).val) ≤ ∑ i : Fin n, (c i.val (τ i).val + eps) :=
    Finset.sum_le_sum (fun i _ => hfeas i.val i.isLt (τ i).val (τ i).isLt)
  have hcard : ∑ _i : Fin n, eps = n * eps := by simp
  rw [e1]
  simp only [Finset.sum_add_distrib] at e2 e5
  rw [hcard] at e2 e5
  rw [e3] at e2
  rw [e4] at e5
  linarith

/-- **Certified answers are optimal.**  With an exact certificate (`u i + v j ≤ c i j` for all
`i, j`, equality on the assigned pairs) the assignment has minimal total cost among all
permutations, for every `n`. -/
theorem lap_certificate (n : Nat) (c : Nat → Nat → ℝ) (σ ρ : Nat → Nat) (u v : Nat → ℝ)
    (hperm : permB n σ ρ = true) (hcert : certB n c σ u v = true) (τ : Equiv.Perm (Fin n)) :
    cost n c σ ≤ ∑ i : Fin n, c i.val (τ i).val := by
  have h0 : certTolB n c σ u v 0 = true := by
    simp only [certB, certTolB, Bool.and_eq_true, allLt_iff, ScalarReal.leb_iff] at hcert ⊢
    exact ⟨fun i hi j hj => by simpa using hcert.1 i hi j hj, fun i hi => by simpa using hcert.2 i hi⟩
  have := lap_certificate_approx n c σ ρ u v 0 hperm h0 τ
  simpa using this

/-- on the assignment the certificate is tight: `u i + v (σ i) = c i (σ i)` -/
theorem lap_certificate_tight (n : Nat) (c : Nat → Nat → ℝ) (σ ρ : Nat → Nat) (u v : Nat → ℝ)
    (hperm : permB n σ ρ = true) (hcert : certB n c σ u v = true) (i : Nat) (hi : i < n) :
    u i + v (σ i) = c i (σ i) := by
  simp only [certB, Bool.and_eq_true, allLt_iff, ScalarReal.leb_iff] at hcert
  rw [permB, allLt_iff] at hperm
  have hs : σ i < n := by have := hperm i hi; simp at this; exact this.1
  exact le_antisymm (hcert.1 i hi (σ i) hs) (hcert.2 i hi)

/-- the total cost of a certified answer is the sum of the dual variables (what makes the
returned cost checkable in `O(n)`) -/
theorem lap_cost_eq_duals (n : Nat) (c : Nat → Nat → ℝ) (σ ρ : Nat → Nat) (u v : Nat → ℝ)
    (hperm : permB n σ ρ = true) (hcert : certB n c σ u v = true) :
    cost n c σ = (∑ i : Fin n, u i.val) + ∑ j : Fin n, v j.val := by
  obtain ⟨π, hπ⟩ := perm_of_permB hperm
  rw [cost, sumTo_fin]
  have : ∀ i : Fin n, c i.val (σ i.val) = u i.val + v (π i).val := fun i => by
    rw [hπ i]; exact (lap_certificate_tight n c σ ρ u v hperm hcert i.val i.isLt).symm
  rw [Finset.sum_congr rfl (fun i _ => this i), Finset.sum_add_distrib,
    Equiv.sum_comp π (fun i : Fin n => v i.val)]

/-- two certified answers for the same cost matrix have the same total cost: the optimum is unique
even when the optimal assignment is not (ties) — so any tie-breaking inside the solver is admissible -/
theorem lap_certified_cost_unique (n : Nat) (c : Nat → Nat → ℝ) (σ ρ σ' ρ' : Nat → Nat) (u v u' v' : Nat → ℝ)
    (hp : permB n σ ρ = true) (hc : certB n c σ u v = true) (hp' : permB n σ' ρ' = true) (hc' : certB n c σ' u' v' = true) :
    cost n c σ = cost n c σ' := by
  obtain ⟨π, hπ⟩ := perm_of_permB hp
  obtain ⟨π', hπ'⟩ := perm_of_permB hp'
  have e : ∀ (s : Nat → Nat) (τ : Equiv.Perm (Fin n)), (∀ i : Fin n, (τ i).val = s i.val) → cost n c s = ∑ i : Fin n, c i.val (τ i).val := by
    intro s τ h
    rw [cost, sumTo_fin]
    exact Finset.sum_congr rfl (fun i _ => by rw [h i])
  apply le_antisymm
  · rw [e σ' π' hπ']; exact lap_certificate n c σ ρ u v hp hc π'
  · rw [e σ π hπ]; exact lap_certificate n c σ' ρ' u' v' hp' hc' π

/-! ## the routine itself

Full statement (`lap_total`, **not proved**): for every `n` and every real `n × n` cost matrix the
Jonker–Volgenant routine terminates and its answer `(rowSol, colSol, u, v, cost)` satisfies
`permB n rowSol colSol ∧ certB n c rowSol u v ∧ cost = Σ c i (rowSol i)`.

Proved (`lap_partial`): the statement for the part of the routine that is transcribed
(`Lap.lapEasy`: column reduction, reduction transfer, final loop), i.e. for every cost matrix whose
column minima lie in pairwise different rows, so that the augmenting row reduction and the
augmentation find no free row and do nothing.  On the remaining inputs the clause is checked on the
implementation's answers (certificate evaluated in `Rat`, brute force over all permutations), not
proved: the loop invariants of the shortest-augmenting-path phases are missing. -/

/-- on inputs without free rows after the column reduction the routine returns a permutation with
its inverse, dual variables certifying it, and the cost of that assignment -/
theorem lap_partial (n : Nat) (c : Nat → Nat → ℝ) (a : Easy ℝ) (h : lapEasy n c = some a) :
    permB n a.rowSol a.colSol = true ∧ certB n c a.rowSol a.u a.v = true ∧ a.cost = cost n c a.rowSol :=
  lapEasy_certified' n c a h

/-- … hence an assignment of minimal total cost among all `n!` permutations -/
theorem lap_partial_optimal (n : Nat) (c : Nat → Nat → ℝ) (a : Easy ℝ) (h : lapEasy n c = some a)
    (τ : Equiv.Perm (Fin n)) : a.cost ≤ ∑ i : Fin n, c i.val (τ i).val := by
  obtain ⟨hp, hc, hcost⟩ := lap_partial n c a h
  rw [hcost]
  exact lap_certificate n c a.rowSol a.colSol a.u a.v hp hc τ

/-- the column reduction keeps, for every column, a row holding the column's minimum (the first step
of the routine, on every input) -/
theorem lap_column_reduction (n : Nat) (c : Nat → Nat → ℝ) (j : Nat) (hn : 0 < n) :
    colMinRow n c j < n ∧ ∀ i, i < n → c (colMinRow n c j) j ≤ c i j := colMinRow_spec n c j hn

/-- non-vacuity of `lap_partial`: the `2 × 2` matrix `[[1,2],[3,1]]` has no free row (evaluated in `Rat`),
the constant matrix `[[1,1],[1,1]]` has one -/
example : (lapEasy 2 (fun i j => if i = j then (1 : Rat) else if i = 0 then 2 else 3)).isSome = true ∧
    (lapEasy 2 (fun _ _ => (1 : Rat))).isSome = false := by decide

/-- non-vacuity: the identity assignment of the `2 × 2` cost matrix `[[1,2],[3,1]]` with `u = (1,1)`,
`v = (0,0)` is a permutation and is certified -/
example : permB 2 (fun i => i) (fun j => j) = true ∧
    certB 2 (fun i j => if i = j then (1 : ℝ) else if i = 0 then 2 else 3) (fun i => i) (fun _ => 1) (fun _ => 0) = true := by
  constructor
  · simp [permB, allLt]
  · simp only [certB, Bool.and_eq_true, allLt_iff, ScalarReal.leb_iff]
    constructor
    · intro i hi j hj
      split
      · norm_num
      · split <;> norm_num
    · intro i hi
      simp

end Bpp.C04
