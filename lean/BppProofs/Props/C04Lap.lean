import BppProofs.Lemmas.LapEasy
import BppProofs.Lemmas.LapFullMain
/-!
# C04 — the linear-assignment solver (`MatrixTools::lap`, `MatrixTools.h:1267-1569`)

The whole Jonker–Volgenant routine is transcribed (`BppModel/LapFull.lean`: `Lap.lapFull`, compared
bit-for-bit with the implementation on every generated cost matrix).  An answer
`(rowSol, colSol, u, v, cost)` is what the property demands iff `rowSol` is a permutation with inverse
`colSol` (`permB`), the dual variables certify it (`certB`) and `cost` is the cost of the assignment
(`Lap.Certified`); the driver evaluates exactly these predicates, in `Rat`, on the implementation's
answer.  Below: a certified answer is optimal among **all** `n!` permutations (`lap_certificate`, any
`n`), and the routine returns a certified answer for every real cost matrix with `n < 2^15`, never
leaves its vectors, and needs at most `n² + n` passes through any of its open loops
(`lap_total`, `lap_full_*`).
-/
namespace Bpp.C04
open Bpp Bpp.Mx Bpp.Mx.Lap

/-- **Certified answers are optimal within `2·n·ε`.**  If `σ` is a permutation of `{0..n-1}`,
`u i + v j ≤ c i j + ε` everywhere and `c i (σ i) ≤ u i + v (σ i) + ε` on the assignment, then no
permutation `τ` is cheaper than `σ` by more than `2 n ε`. -/
theorem lap_certificate_approx (n : Nat) (c : Nat → Nat → ℝ) (σ ρ : Nat → Nat) (u v : Nat → ℝ) (eps : ℝ)
    (hperm : permB n σ ρ = true) (hcert : certTolB n c σ u v eps = true) (τ : Equiv.Perm (Fin n)) :
    cost n c σ ≤ (∑ i : Fin n, c i.val (τ i).val) + 2 * n * eps := by
  obtain ⟨π, hπ⟩ := perm_of_permB hperm
  simp only [certTolB, Bool.and_eq_true, allLt_iff, ScalarReal.leb_iff] at hcert
  obtain ⟨hfeas, htight⟩ := hcert
  have e1 : cost n c σ = ∑ i : Fin n, c i.val (π i).val := by
    rw [cost, sumTo_fin]
    exact Finset.sum_congr rfl (fun i _ => by rw [hπ i])
  have e2 : ∑ i : Fin n, c i.val (π i).val ≤ ∑ i : Fin n, (u i.val + v (π i).val + eps) :=
    Finset.sum_le_sum (fun i _ => by
      have := htight i.val i.isLt
      rw [← hπ i] at this
      exact this)
  have e3 : ∑ i : Fin n, v (π i).val = ∑ i : Fin n, v i.val := Equiv.sum_comp π (fun i : Fin n => v i.val)
  have e4 : ∑ i : Fin n, v (τ i).val = ∑ i : Fin n, v i.val := Equiv.sum_comp τ (fun i : Fin n => v i.val)
  have e5 : ∑ i : Fin n, (u i.val + v (τ i).val) ≤ ∑ i : Fin n, (c i.val (τ i).val + eps) :=
    Finset.sum_le_sum (fun i _ => hfeas i.val i.isLt (τ i).val (τ i).isLt)
  have hcard : ∑ _i : Fin n, eps = n * eps := by simp
  rw [e1]
  simp only [Finset.sum_add_distrib] at e2 e5
  rw [hcard] at e2 e5
  rw [e3] at e2
  rw [e4] at e5
  linarith

/-- **Certified answers are optimal.**  With an exact certificate (`u i + v j ≤ c i j` for all
`i, j`, equality on the assigned pairs) the assignment has minimal total cost among all
permutations, for every `n`. -/
theorem lap_certificate (n : Nat) (c : Nat → Nat → ℝ) (σ ρ : Nat → Nat) (u v : Nat → ℝ)
    (hperm : permB n σ ρ = true) (hcert : certB n c σ u v = true) (τ : Equiv.Perm (Fin n)) :
    cost n c σ ≤ ∑ i : Fin n, c i.val (τ i).val := by
  have h0 : certTolB n c σ u v 0 = true := by
    simp only [certB, certTolB, Bool.and_eq_true, allLt_iff, ScalarReal.leb_iff] at hcert ⊢
    exact ⟨fun i hi j hj => by simpa using hcert.1 i hi j hj, fun i hi => by simpa using hcert.2 i hi⟩
  have := lap_certificate_approx n c σ ρ u v 0 hperm h0 τ
  simpa using this

/-- on the assignment the certificate is tight: `u i + v (σ i) = c i (σ i)` -/
theorem lap_certificate_tight (n : Nat) (c : Nat → Nat → ℝ) (σ ρ : Nat → Nat) (u v : Nat → ℝ)
    (hperm : permB n σ ρ = true) (hcert : certB n c σ u v = true) (i : Nat) (hi : i < n) :
    u i + v (σ i) = c i (σ i) := by
  simp only [certB, Bool.and_eq_true, allLt_iff, ScalarReal.leb_iff] at hcert
  rw [permB, allLt_iff] at hperm
  have hs : σ i < n := by have := hperm i hi; simp at this; exact this.1
  exact le_antisymm (hcert.1 i hi (σ i) hs) (hcert.2 i hi)

/-- the total cost of a certified answer is the sum of the dual variables (what makes the
returned cost checkable in `O(n)`) -/
theorem lap_cost_eq_duals (n : Nat) (c : Nat → Nat → ℝ) (σ ρ : Nat → Nat) (u v : Nat → ℝ)
    (hperm : permB n σ ρ = true) (hcert : certB n c σ u v = true) :
    cost n c σ = (∑ i : Fin n, u i.val) + ∑ j : Fin n, v j.val := by
  obtain ⟨π, hπ⟩ := perm_of_permB hperm
  rw [cost, sumTo_fin]
  have : ∀ i : Fin n, c i.val (σ i.val) = u i.val + v (π i).val := fun i => by
    rw [hπ i]; exact (lap_certificate_tight n c σ ρ u v hperm hcert i.val i.isLt).symm
  rw [Finset.sum_congr rfl (fun i _ => this i), Finset.sum_add_distrib,
    Equiv.sum_comp π (fun i : Fin n => v i.val)]

/-- two certified answers for the same cost matrix have the same total cost: the optimum is unique
even when the optimal assignment is not (ties) — so any tie-breaking inside the solver is admissible -/
theorem lap_certified_cost_unique (n : Nat) (c : Nat → Nat → ℝ) (σ ρ σ' ρ' : Nat → Nat) (u v u' v' : Nat → ℝ)
    (hp : permB n σ ρ = true) (hc : certB n c σ u v = true) (hp' : permB n σ' ρ' = true) (hc' : certB n c σ' u' v' = true) :
    cost n c σ = cost n c σ' := by
  obtain ⟨π, hπ⟩ := perm_of_permB hp
  obtain ⟨π', hπ'⟩ := perm_of_permB hp'
  have e : ∀ (s : Nat → Nat) (τ : Equiv.Perm (Fin n)), (∀ i : Fin n, (τ i).val = s i.val) → cost n c s = ∑ i : Fin n, c i.val (τ i).val := by
    intro s τ h
    rw [cost, sumTo_fin]
    exact Finset.sum_congr rfl (fun i _ => by rw [h i])
  apply le_antisymm
  · rw [e σ' π' hπ']; exact lap_certificate n c σ ρ u v hp hc π'
  · rw [e σ π hπ]; exact lap_certificate n c σ' ρ' u' v' hp' hc' π

/-! ## the routine itself -/

/-- **total correctness** (`lap_total`).  For every `n < 2^15` (the counters `matches` are `short`)
and every real `n × n` cost matrix, whatever the output vectors hold on entry, the routine — every open
loop (`while (k < previousNumFree)`, `do … while (!unassignedFound)`, `do … while (i != freeRow)`)
allowed `n² + n + 1` passes — returns; `rowSol` and `colSol` are non-negative, `rowSol` is a
permutation of `0..n-1` with inverse `colSol`, `u i + v j ≤ c i j` everywhere with equality on the
assignment, and the returned cost is the cost of the assignment. -/
theorem lap_total (n : Nat) (hn : n < 32768) (c : Nat → Nat → ℝ) (rowSol0 colSol0 : Nat → Int) (u0 v0 : Nat → ℝ) :
    ∃ a, lapFull (n * n + n + 1) n c rowSol0 colSol0 u0 v0 = .ok a ∧
      (∀ i, i < n → 0 ≤ a.rowSol i ∧ 0 ≤ a.colSol i) ∧
      permB n (fun i => (a.rowSol i).toNat) (fun j => (a.colSol j).toNat) = true ∧
      certB n c (fun i => (a.rowSol i).toNat) a.u a.v = true ∧
      a.cost = cost n c (fun i => (a.rowSol i).toNat) :=
  (lapFullG_good hn c (arrCut n) True (n * n + n + 1) (fun _ => ⟨rfl, Nat.le_refl _⟩) rowSol0 colSol0 u0 v0).total trivial

/-- **partial correctness**: whenever the routine returns (any fuel), its answer is certified -/
theorem lap_full_certified (n : Nat) (hn : n < 32768) (c : Nat → Nat → ℝ) (fuel : Nat) (rowSol0 colSol0 : Nat → Int)
    (u0 v0 : Nat → ℝ) (a : Full ℝ) (h : lapFull fuel n c rowSol0 colSol0 u0 v0 = .ok a) : Certified n c a :=
  (lapFullG_good hn c (arrCut n) False fuel (fun hb => hb.elim) rowSol0 colSol0 u0 v0).of_ok h

/-- … hence an assignment of minimal total cost among all `n!` permutations -/
theorem lap_full_optimal (n : Nat) (hn : n < 32768) (c : Nat → Nat → ℝ) (fuel : Nat) (rowSol0 colSol0 : Nat → Int)
    (u0 v0 : Nat → ℝ) (a : Full ℝ) (h : lapFull fuel n c rowSol0 colSol0 u0 v0 = .ok a) (τ : Equiv.Perm (Fin n)) :
    a.cost ≤ ∑ i : Fin n, c i.val (τ i).val := by
  obtain ⟨_, hp, hc, hcost⟩ := lap_full_certified n hn c fuel rowSol0 colSol0 u0 v0 a h
  rw [hcost]
  exact lap_certificate n c _ _ a.u a.v hp hc τ

/-- **no undefined behaviour inside the phases**, the four output vectors having length `dim` (which
the routine establishes on entry: `lap_call_no_ub` is the statement for arbitrary caller vectors): no
vector or matrix access is out of range, no variable is read before it is assigned, and the sentinel
`+inf` never enters the arithmetic — for any fuel the only outcome other than a normal return is fuel
exhaustion -/
theorem lap_full_no_ub (n : Nat) (hn : n < 32768) (c : Nat → Nat → ℝ) (fuel : Nat) (rowSol0 colSol0 : Nat → Int)
    (u0 v0 : Nat → ℝ) :
    lapFull fuel n c rowSol0 colSol0 u0 v0 ≠ .error .ub ∧ lapFull fuel n c rowSol0 colSol0 u0 v0 ≠ .error .inf :=
  (lapFullG_good hn c (arrCut n) False fuel (fun hb => hb.elim) rowSol0 colSol0 u0 v0).ne_ub

/-- **termination**: `n² + n + 1` passes through each open loop suffice (the augmenting row reduction
scans at most `prev · n + prev` rows per sweep since the repair of `findings/C04.json`; each search
scans at most `n` columns; each path has at most `n` columns) -/
theorem lap_full_fuel_suffices (n : Nat) (hn : n < 32768) (c : Nat → Nat → ℝ) (fuel : Nat) (hf : n * n + n + 1 ≤ fuel)
    (rowSol0 colSol0 : Nat → Int) (u0 v0 : Nat → ℝ) :
    lapFull fuel n c rowSol0 colSol0 u0 v0 ≠ .error .fuel := by
  obtain ⟨a, ha, _⟩ := (lapFullG_good hn c (arrCut n) True fuel (fun _ => ⟨rfl, hf⟩) rowSol0 colSol0 u0 v0).total trivial
  have ha' : lapFull fuel n c rowSol0 colSol0 u0 v0 = .ok a := ha
  rw [ha']; intro h; cases h

/-! ### the routine as called: cost matrix of any storage class, output vectors of any length

`Lap.lap` = the test for a square matrix, the four `resize(dim)` of the output vectors (repair recorded
in `findings/C04.json`: before it the routine indexed the caller's vectors up to `dim - 1` whatever
their length) and `Lap.lapFull` on the entries of the matrix. -/

/-- a non-square cost matrix raises `bpp::Exception`, whatever the vectors (so does a NaN or infinite
cost: a test that is vacuous at `ℝ`, tied on the `Float` instantiation) -/
theorem lap_nonsquare_raises (fuel : Nat) (A : Store ℝ) (rowSol colSol : Array Int) (u v : Array ℝ)
    (h : A.ncols ≠ A.nrows) : Lap.lap fuel A rowSol colSol u v = .error .bpp := by
  unfold Lap.lap; rw [if_pos h]

/-- **no undefined behaviour for arbitrary caller vectors**: whatever lengths (0, shorter or longer
than `dim`) and contents `rowSol`, `colSol`, `u`, `v` have on entry and whatever the storage class of
the cost matrix, no access is out of range -/
theorem lap_call_no_ub (fuel : Nat) (A : Store ℝ) (hn : A.nrows < 32768) (rowSol colSol : Array Int) (u v : Array ℝ) :
    Lap.lap fuel A rowSol colSol u v ≠ .error .ub ∧ Lap.lap fuel A rowSol colSol u v ≠ .error .inf := by
  have hfin : (!(allLt A.nrows fun i => allLt A.nrows fun j => ExtCmp.gtNegInf (A.entry i j) && ExtCmp.ltPosInf (A.entry i j))) = false := by
    simp [allLt, ExtCmp.gtNegInf, ExtCmp.ltPosInf]
  unfold Lap.lap
  split
  · constructor <;> intro h <;> cases h
  · rw [hfin]
    simp only [Bool.false_eq_true, if_false]
    have hg := lapFullG_good hn (fun i j => A.entry i j) (arrCut A.nrows) False fuel (fun hb => hb.elim)
      (fun i => rowSol.getD i 0) (fun i => colSol.getD i 0) (fun i => u.getD i Scalar.zero) (fun i => v.getD i Scalar.zero)
    rcases hg with ⟨a, ha, _⟩ | ⟨he, _⟩
    · have ha' : lapFull fuel A.nrows (fun i j => A.entry i j) (fun i => rowSol.getD i 0) (fun i => colSol.getD i 0)
          (fun i => u.getD i Scalar.zero) (fun i => v.getD i Scalar.zero) = .ok a := ha
      rw [ha']; constructor <;> intro h <;> cases h
    · have he' : lapFull fuel A.nrows (fun i j => A.entry i j) (fun i => rowSol.getD i 0) (fun i => colSol.getD i 0)
          (fun i => u.getD i Scalar.zero) (fun i => v.getD i Scalar.zero) = .error .fuel := he
      rw [he']; constructor <;> intro h <;> cases h

/-- **total correctness of the call**: for a square cost matrix of any storage class with
`dim < 2^15` and output vectors of any lengths the routine returns four vectors of length `dim` holding
a certified answer (`Lap.Certified`: permutation, inverse, certifying duals, cost) -/
theorem lap_call_total (A : Store ℝ) (hsq : A.ncols = A.nrows) (hn : A.nrows < 32768) (rowSol colSol : Array Int) (u v : Array ℝ) :
    ∃ a, Certified A.nrows (fun i j => A.entry i j) a ∧
      Lap.lap (A.nrows * A.nrows + A.nrows + 1) A rowSol colSol u v = .ok (LapOut.ofFull A.nrows a) ∧
      (LapOut.ofFull A.nrows a).rowSol.size = A.nrows ∧ (LapOut.ofFull A.nrows a).colSol.size = A.nrows ∧
      (LapOut.ofFull A.nrows a).u.size = A.nrows ∧ (LapOut.ofFull A.nrows a).v.size = A.nrows := by
  obtain ⟨a, ha, hc⟩ := (lapFullG_good hn (fun i j => A.entry i j) (arrCut A.nrows) True (A.nrows * A.nrows + A.nrows + 1)
    (fun _ => ⟨rfl, Nat.le_refl _⟩) (fun i => rowSol.getD i 0) (fun i => colSol.getD i 0)
    (fun i => u.getD i Scalar.zero) (fun i => v.getD i Scalar.zero)).total trivial
  refine ⟨a, hc, ?_, by simp [LapOut.ofFull], by simp [LapOut.ofFull], by simp [LapOut.ofFull], by simp [LapOut.ofFull]⟩
  have hfin : (!(allLt A.nrows fun i => allLt A.nrows fun j => ExtCmp.gtNegInf (A.entry i j) && ExtCmp.ltPosInf (A.entry i j))) = false := by
    simp [allLt, ExtCmp.gtNegInf, ExtCmp.ltPosInf]
  unfold Lap.lap
  rw [if_neg (fun h => h hsq), hfin]
  simp only [Bool.false_eq_true, if_false]
  have ha' : lapFull (A.nrows * A.nrows + A.nrows + 1) A.nrows (fun i j => A.entry i j) (fun i => rowSol.getD i 0)
      (fun i => colSol.getD i 0) (fun i => u.getD i Scalar.zero) (fun i => v.getD i Scalar.zero) = .ok a := ha
  rw [ha']

/-- non-vacuity: a `3 × 3` flat-stored cost matrix with four empty vectors (evaluated in `Rat`): the call
returns vectors of length 3 -/
example : (match Lap.lap (α := Rat) 13 (Store.ofFn .lin 3 3 fun i j => ((i * 7 + j * 3) % 5 : Nat)) #[] #[] #[] #[] with
    | .ok o => o.rowSol.size == 3 && o.colSol.size == 3 && o.u.size == 3 && o.v.size == 3
    | .error _ => false) = true := by decide +kernel

/-- the text before the repair (`if (uMin < uSubMin)` without the bound on the chain of
re-assignments) is partially correct and free of undefined behaviour as well … -/
theorem lap_orig_certified (n : Nat) (hn : n < 32768) (c : Nat → Nat → ℝ) (fuel : Nat) (rowSol0 colSol0 : Nat → Int)
    (u0 v0 : Nat → ℝ) :
    (∀ a, lapFullOrig fuel n c rowSol0 colSol0 u0 v0 = .ok a → Certified n c a) ∧
    lapFullOrig fuel n c rowSol0 colSol0 u0 v0 ≠ .error .ub ∧ lapFullOrig fuel n c rowSol0 colSol0 u0 v0 ≠ .error .inf :=
  have h := lapFullG_good hn c arrCutOrig False fuel (fun hb => hb.elim) rowSol0 colSol0 u0 v0
  ⟨fun _ ha => h.of_ok ha, h.ne_ub⟩

/-- the `4 × 4` cost matrix of the witness: the integers `0..2` with three entries raised by `q`, `2q`, `3q` -/
def priceWar (q : Rat) : Nat → Nat → Rat := fun i j =>
  match i, j with
  | 0, 0 => 1 + q | 0, _ => 2
  | 1, 0 => 2 | 1, 1 => 1 | 1, 2 => 0 | 1, _ => 2
  | 2, 0 => 1 | 2, 1 => 2 + 2 * q | 2, _ => 2
  | 3, 0 => 1 + 3 * q | _, _ => 2

set_option maxHeartbeats 1000000 in
/-- … but the number of passes through `while (k < previousNumFree)` it needs is not bounded in `n`
(witness, exact arithmetic): on the `4 × 4` matrix `priceWar q` two rows take column 0 from each
other, lowering its price by a few `q` each time; for `q = 2⁻¹⁰` 100 passes do not suffice, for
`q = 2⁻²⁰` 2000 do not — the repaired text needs at most 20 (`lap_full_fuel_suffices`) and returns
(`Lap.returns`: the outcome is `.ok _`) within 21 on both.  With `q = 2⁻⁵²` (doubles `1 + ulp`) the implementation did not return
(`corpus/C04/lap_price_war.txt`). -/
theorem lap_orig_unbounded_chain :
    lapFullOrig 100 4 (priceWar (1 / 1024)) (fun _ => -7) (fun _ => -7) (fun _ => 99) (fun _ => 99) = .error .fuel ∧
    lapFullOrig 2000 4 (priceWar (1 / 1048576)) (fun _ => -7) (fun _ => -7) (fun _ => 99) (fun _ => 99) = .error .fuel ∧
    returns (lapFull 21 4 (priceWar (1 / 1024)) (fun _ => -7) (fun _ => -7) (fun _ => 99) (fun _ => 99)) = true ∧
    returns (lapFull 21 4 (priceWar (1 / 1048576)) (fun _ => -7) (fun _ => -7) (fun _ => 99) (fun _ => 99)) = true := by
  refine ⟨?_, ?_, ?_, ?_⟩
  · rw [← outOfFuel_iff]; decide +kernel
  · rw [← outOfFuel_iff]; decide +kernel
  · decide +kernel
  · decide +kernel

/-- non-vacuity of `lap_full_certified`: on the `3 × 3` matrix `[[1,1,1],[1,1,1],[2,0,3]]` (two free
rows after the column reduction; evaluated in `Rat`) the routine returns `rowSol = (2, 0, 1)` -/
example : (match lapFull (α := Rat) 13 3 (fun i j => if i = 2 then (if j = 0 then 2 else if j = 1 then 0 else 3) else 1)
      (fun _ => -7) (fun _ => -7) (fun _ => 99) (fun _ => 99) with
    | .ok a => decide (a.rowSol 0 = 2 ∧ a.rowSol 1 = 0 ∧ a.rowSol 2 = 1 ∧ a.cost = 2)
    | .error _ => false) = true := by decide +kernel

/-! ### the part of the routine that needs no augmentation (kept from the first version of this check) -/

/-- on inputs without free rows after the column reduction the routine returns a permutation with
its inverse, dual variables certifying it, and the cost of that assignment -/
theorem lap_partial (n : Nat) (c : Nat → Nat → ℝ) (a : Easy ℝ) (h : lapEasy n c = some a) :
    permB n a.rowSol a.colSol = true ∧ certB n c a.rowSol a.u a.v = true ∧ a.cost = cost n c a.rowSol :=
  lapEasy_certified' n c a h

/-- … hence an assignment of minimal total cost among all `n!` permutations -/
theorem lap_partial_optimal (n : Nat) (c : Nat → Nat → ℝ) (a : Easy ℝ) (h : lapEasy n c = some a)
    (τ : Equiv.Perm (Fin n)) : a.cost ≤ ∑ i : Fin n, c i.val (τ i).val := by
  obtain ⟨hp, hc, hcost⟩ := lap_partial n c a h
  rw [hcost]
  exact lap_certificate n c a.rowSol a.colSol a.u a.v hp hc τ

/-- the column reduction keeps, for every column, a row holding the column's minimum (the first step
of the routine, on every input) -/
theorem lap_column_reduction (n : Nat) (c : Nat → Nat → ℝ) (j : Nat) (hn : 0 < n) :
    colMinRow n c j < n ∧ ∀ i, i < n → c (colMinRow n c j) j ≤ c i j := colMinRow_spec n c j hn

/-- non-vacuity of `lap_partial`: the `2 × 2` matrix `[[1,2],[3,1]]` has no free row (evaluated in `Rat`),
the constant matrix `[[1,1],[1,1]]` has one -/
example : (lapEasy 2 (fun i j => if i = j then (1 : Rat) else if i = 0 then 2 else 3)).isSome = true ∧
    (lapEasy 2 (fun _ _ => (1 : Rat))).isSome = false := by decide

/-- non-vacuity: the identity assignment of the `2 × 2` cost matrix `[[1,2],[3,1]]` with `u = (1,1)`,
`v = (0,0)` is a permutation and is certified -/
example : permB 2 (fun i => i) (fun j => j) = true ∧
    certB 2 (fun i j => if i = j then (1 : ℝ) else if i = 0 then 2 else 3) (fun i => i) (fun _ => 1) (fun _ => 0) = true := by
  constructor
  · simp [permB, allLt]
  · simp only [certB, Bool.and_eq_true, allLt_iff, ScalarReal.leb_iff]
    constructor
    · intro i hi j hj
      split
      · norm_num
      · split <;> norm_num
    · intro i hi
      simp

end Bpp.C04
