import BppProofs.Lemmas.TableRT
/-!
# C17 — "a table written as delimited text reads back with identical shape, names and cells"

Model: `BppModel/Text/TableRT.lean` — `DataTable::write` (src/Bpp/Numeric/DataTable.cpp:630-658) at
the textual layer and the reader `DataTable::read` (:554-627) returning the table it builds, on top
of the UB-aware line reader / tokenizer / name and dimension checks of `TableU.lean` (C16).
A table is (`nCol`, `colNames`, `rowNames`, `rows`); `[]` = no names.

`table_roundtrip : RtWF t c → read (write t [c]) [c] = t`, for tables of any size, with the side
conditions as the decidable predicate `RtWF` (the driver evaluates it and checks the table the
implementation reads back).  Each side condition is necessary: section "witnesses".
The reader tokenises with the *non-solid* StringTokenizer: the separator string is a set of
characters there while the writer writes it as a string, hence "one character".
-/
namespace Bpp.C17
open Bpp.Text Bpp.Text.U Bpp.Text.RT

/-- **write → read = identity**: under `RtWF` (class invariant of DataTable; one-character
separator other than the newline; at least one column; items free of the separator and of newlines;
every line starts with a non-empty item and is not blank; at least two lines; row names only together
with column names) `DataTable::write` returns a text, and `DataTable::read(text, sep, header =
hasColumnNames, rowNames = -1)` returns the same column count, column names, row names and cells.
Either header alignment.  (`StrOk`: the text is a `std::string`.) -/
theorem table_roundtrip (t : Tbl) (c : Char) (alignHeaders : Bool) (hwf : RtWF t c = true) :
    ∃ text, writeTable t [c] alignHeaders = .ok text ∧
      (StrOk text → readTableFull text [c] (t.colNames.length != 0) (-1) = .ok t) := by
  simp only [RtWF, Bool.and_eq_true, Bool.or_eq_true, beq_iff_eq, bne_iff_ne, ne_eq] at hwf
  obtain ⟨hcore, hnames⟩ := hwf
  obtain ⟨text, hw, hr⟩ := table_rt_core t c alignHeaders hcore
  refine ⟨text, hw, fun hs => ?_⟩
  have := hr hs
  unfold readBack at this
  have hsel : (if (t.rowNames.length != 0 && t.colNames.length == 0) = true then (0 : Int) else -1) = -1 := by
    rcases hnames with h | h
    · simp [h]
    · have : (t.colNames.length == 0) = false := by simpa using h
      simp [this]
  rw [hsel] at this
  exact this

/-- non-vacuity: a 2×2 table with both kinds of names, an empty cell and cells with blanks -/
example : RtWF ⟨2, ["A".toList, "B".toList], ["r1".toList, "r2".toList],
    [["1".toList, []], [" x".toList, "y ".toList]]⟩ ',' = true := by decide
example : writeTable ⟨2, ["A".toList, "B".toList], ["r1".toList, "r2".toList],
    [["1".toList, []], [" x".toList, "y ".toList]]⟩ [','] true = .ok ",A,B\nr1,1,\nr2, x,y \n".toList := by rfl

/-- row names without column names: no header line tells the reader about them, but
`read(…, header = false, rowNames = 0)` gives the table back (the clause of `RtWF` about names is not
needed then) -/
theorem table_roundtrip_rownames_only (t : Tbl) (c : Char) (alignHeaders : Bool) (hwf : RtWFcore t c = true)
    (hcol : t.colNames = []) (hrow : t.rowNames ≠ []) :
    ∃ text, writeTable t [c] alignHeaders = .ok text ∧
      (StrOk text → readTableFull text [c] false 0 = .ok t) := by
  obtain ⟨text, hw, hr⟩ := table_rt_core t c alignHeaders hwf
  refine ⟨text, hw, fun hs => ?_⟩
  have := hr hs
  unfold readBack at this
  have h1 : (t.rowNames.length != 0) = true := by
    cases h : t.rowNames with
    | nil => exact absurd h hrow
    | cons _ _ => simp
  simpa [hcol, h1] using this

example : RtWFcore ⟨1, [], ["r1".toList, "r2".toList], [["1".toList], ["2".toList]]⟩ '\t' = true := by decide

/-- the shape, as C16's reader `TableU.readTable` reports it, is the shape of the table read -/
theorem readTable_is_shape (text sep : Str) (header : Bool) (rowNames : Int) :
    readTable text sep header rowNames = (readTableFull text sep header rowNames).map shape := by
  unfold readTable
  rw [readTableG_eq]
  unfold readTableFull
  have hfin : ∀ t, tblFinish rowNames t = (finishFull rowNames t).map shape := by
    intro t
    unfold tblFinish finishFull
    split
    · split
      · rfl
      · cases column t.rows rowNames.toNat with
        | error e => rfl
        | ok col =>
          simp only [bind_ok]
          split
          · rfl
          · simp [pure_eq_ok, Except.map, shape]
    · rfl
  have hinit : ∀ r1 r2, tblInit header r1 r2 = tblInit' header r1 r2 := fun _ _ => rfl
  cases getNextLine ⟨text, false⟩ with
  | error e => rfl
  | ok p =>
    obtain ⟨l1, s1⟩ := p
    simp only [bind_ok]
    cases mkTokenizer l1 sep false true with
    | error e => rfl
    | ok tk1 =>
      simp only [bind_ok]
      cases getNextLine s1 with
      | error e => rfl
      | ok p =>
        obtain ⟨l2, s2⟩ := p
        simp only [bind_ok]
        cases mkTokenizer l2 sep false true with
        | error e => rfl
        | ok tk2 =>
          simp only [bind_ok, hinit]
          cases tblInit' header tk1.tokens tk2.tokens with
          | error e => rfl
          | ok q =>
            obtain ⟨t, hrn⟩ := q
            simp only [bind_ok]
            cases readRows true hrn sep (text.length + 2) s2 t with
            | error e => rfl
            | ok t' => simp only [bind_ok, hfin]

/-! ## witnesses: every side condition is necessary -/

/-- what comes back when the table is written and read as `table_roundtrip` does -/
def wr (t : Tbl) (sep : Str) : R Tbl := do
  let text ← writeTable t sep false
  readBack t text sep

/-- a separator inside a cell: one more column in that row -/
theorem table_witness_separator_in_cell :
    wr ⟨1, [], [], [["a,b".toList], ["c".toList]]⟩ [','] = .error .bpp := by rfl

/-- a newline inside a cell: one more row -/
theorem table_witness_newline_in_cell :
    wr ⟨1, [], [], [["a\nb".toList], ["c".toList]]⟩ [','] =
      .ok ⟨1, [], [], [["a".toList], ["b".toList], ["c".toList]]⟩ := by rfl

/-- an empty first item: the reader skips the leading separator, the line is one item short — in the
first line this makes it a header and the next line a named row; elsewhere the row is refused -/
theorem table_witness_empty_first_item :
    wr ⟨2, [], [], [[[], "x".toList], ["a".toList, "b".toList]]⟩ [','] =
      .ok ⟨1, ["x".toList], ["a".toList], [["b".toList]]⟩ ∧
    wr ⟨2, [], [], [["a".toList, "b".toList], ["c".toList, "d".toList], [[], "x".toList]]⟩ [','] = .error .bpp :=
  ⟨by rfl, by rfl⟩

/-- (an empty item elsewhere is fine) -/
example : wr ⟨2, [], [], [["x".toList, []], ["a".toList, "b".toList]]⟩ [','] =
    .ok ⟨2, [], [], [["x".toList, []], ["a".toList, "b".toList]]⟩ := by rfl

/-- a blank line: the reader stops there, the rows below are lost -/
theorem table_witness_blank_line :
    wr ⟨1, [], [], [["a".toList], [" ".toList], ["b".toList], ["c".toList]]⟩ [','] =
      .ok ⟨1, [], [], [["a".toList], ["b".toList], ["c".toList]]⟩ ∧
    wr ⟨1, ["A".toList], [], [[" ".toList], ["b".toList]]⟩ [','] = .ok ⟨1, ["A".toList], [], [["b".toList]]⟩ :=
  ⟨by rfl, by rfl⟩

/-- fewer than two lines: the reader needs a second line to count the columns against -/
theorem table_witness_one_line :
    wr ⟨2, ["A".toList, "B".toList], [], []⟩ [','] = .error .bpp ∧
    wr ⟨2, [], [], [["a".toList, "b".toList]]⟩ [','] = .error .bpp := ⟨by rfl, by rfl⟩

/-- row names without column names, read with `rowNames = -1`: the names become a column -/
theorem table_witness_rownames_without_header :
    readTableFull "r1,a\nr2,b\n".toList [','] false (-1) =
      .ok ⟨2, [], [], [["r1".toList, "a".toList], ["r2".toList, "b".toList]]⟩ := by rfl

/-- a separator of two characters: the writer writes the string, the reader splits at each of its
characters -/
theorem table_witness_two_character_separator :
    wr ⟨2, [], [], [["a".toList, "b".toList], ["c".toList, "d".toList]]⟩ ", ".toList =
      .ok ⟨3, [], [], [["a".toList, [], "b".toList], ["c".toList, [], "d".toList]]⟩ := by rfl

/-- the newline as separator -/
theorem table_witness_newline_separator :
    wr ⟨2, [], [], [["a".toList, "b".toList], ["c".toList, "d".toList]]⟩ ['\n'] =
      .ok ⟨1, [], [], [["a".toList], ["b".toList], ["c".toList], ["d".toList]]⟩ := by rfl

/-- no column: nothing is written, and the empty text reads as a table of two rows without column -/
theorem table_witness_no_column :
    wr ⟨0, [], [], [[]]⟩ [','] = .ok ⟨0, [], [], [[], []]⟩ ∧
    wr ⟨0, [], [], [[], [], []]⟩ [','] = .ok ⟨0, [], [], [[], []]⟩ := ⟨by rfl, by rfl⟩

/-- duplicated names cannot be in a DataTable (class invariant); as text they are refused -/
theorem table_witness_duplicate_names :
    readTableFull "A,A\n1,2\n".toList [','] true (-1) = .error .bpp := by rfl

end Bpp.C17
