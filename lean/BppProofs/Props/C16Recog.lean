import BppProofs.Lemmas.RecogU
/-!
# C16 — the number recognisers: no access out of range, the loops end

Model: `BppModel/Text/RecogU.lean` (UB-aware: the loops of `TextTools::isDecimalNumber` and
`TextTools::isDecimalInteger` run on an index `i`, read `s[i]` and `s[i + 1]` through `strAt` —
`s[size()]` is the terminating NUL, an index beyond it is `.error .ub` —, compare `i` with
`s.size() - 1` computed modulo 2^64 (`wsub`), and take `size() + 1` rounds of fuel: `.error .hang`
when they need more).  `Number.isDecimalNumber` / `Number.isDecimalInteger` are C17's transcriptions
of the same functions by pattern matching on the rest of the text, where neither an access out of
range nor a non-terminating loop can be expressed.  `safe x = true` means: `x` returned or raised the
library's exception.

The hypothesis `StrOk s` (`s.length ≤ max_size() = 2^62 - 1`, true of every `std::string`) is
needed: it makes `s.size() - 1` the index of the last character.  On a "text" of `2^64 + 5`
characters `wsub s.length 1 = 4`, and the index model would stop at an exponent mark in `s[4]`.
-/
namespace Bpp.C16
open Bpp.Text Bpp.Text.U

/-! ## refinement -/

/-- **the UB-aware `isDecimalNumber` is the list `isDecimalNumber`, on every text and for EVERY
separator and exponent mark**: with a range check on every `s[i]` / `s[i + 1]`, the comparison with
`size() - 1` in `size_t` and `size() + 1` rounds of fuel the outcome is exactly
`Number.isDecimalNumber`'s answer — never `.ub`, never `.hang`.  `s[0]` is read after `isEmpty(s)`
returned false (so `size() ≥ 1`); `s[i]` is read under `i < size()`; `s[i + 1]` is read after
`i == size() - 1` was refused, so `i + 1 < size()`; the index grows by 1 or 2 each round and when
it grows by 2 the second step stays `< size()` because `i + 1 == size() - 1` was refused. -/
theorem isDecimalNumberU_refines (dec sci : Char) (s : Str) (hs : StrOk s) :
    isDecimalNumberU dec sci s = .ok (Number.isDecimalNumber dec sci s) :=
  isDecimalNumberU_refines_lem dec sci s hs

example : isDecimalNumberU '.' 'e' "-123.456e-5".toList = .ok true := by decide +kernel
example : isDecimalNumberU '.' 'e' "1e".toList = .ok false := by decide +kernel
example : isDecimalNumberU '.' 'e' "1e+".toList = .ok false := by decide +kernel
example : isDecimalNumberU '.' 'e' "".toList = .ok false := by decide +kernel
/-- sign only, separator only, two separators, a separator after the mark, two marks, a blank -/
example : isDecimalNumberU '.' 'e' "-".toList = .ok false ∧
    isDecimalNumberU '.' 'e' ".".toList = .ok false ∧
    isDecimalNumberU '.' 'e' "1.2.3".toList = .ok false ∧
    isDecimalNumberU '.' 'e' "1e2.5".toList = .ok false ∧
    isDecimalNumberU '.' 'e' "1e2e3".toList = .ok false ∧
    isDecimalNumberU '.' 'e' " 1".toList = .ok false := by decide +kernel
/-- other characters: `,` and `E` -/
example : isDecimalNumberU ',' 'E' "3,14E+2".toList = .ok true ∧
    isDecimalNumberU ',' 'E' "3.14e+2".toList = .ok false := by decide +kernel
/-- the index model agrees with the list model on these -/
example : Number.isDecimalNumber '.' 'e' "-123.456e-5".toList = true ∧
    Number.isDecimalNumber '.' 'e' "1e+".toList = false := by decide +kernel

/-- **the UB-aware `isDecimalInteger` is the list `isDecimalInteger`, on every text and for EVERY
exponent mark**: same argument as `isDecimalNumberU_refines` (`s[i + 1]` is read after
`i == size() - 1` was refused; a `-` after the mark returns at once) -/
theorem isDecimalIntegerU_refines (sci : Char) (s : Str) (hs : StrOk s) :
    isDecimalIntegerU sci s = .ok (Number.isDecimalInteger sci s) :=
  isDecimalIntegerU_refines_lem sci s hs

example : isDecimalIntegerU 'e' "1e+5".toList = .ok true := by decide +kernel
example : isDecimalIntegerU 'e' "1e-5".toList = .ok false := by decide +kernel
example : isDecimalIntegerU 'e' "-42".toList = .ok true ∧ isDecimalIntegerU 'e' "4.2".toList = .ok false ∧
    isDecimalIntegerU 'e' "1e".toList = .ok false ∧ isDecimalIntegerU 'e' "1e+".toList = .ok false ∧
    isDecimalIntegerU 'e' "".toList = .ok false ∧ isDecimalIntegerU 'e' "-".toList = .ok false := by
  decide +kernel

/-- **the UB-aware `toDouble` has the outcome C16 assumed** (`toDoubleClass`: returns when
`Number.isDecimalNumber` accepts the text, the library's exception otherwise) -/
theorem toDoubleU_refines (dec sci : Char) (s : Str) (hs : StrOk s) :
    toDoubleU dec sci s = toDoubleClass dec sci s :=
  toDoubleU_refines_lem dec sci s hs

example : toDoubleU '.' 'e' "-123.456e-5".toList = .ok () := by decide +kernel
example : toDoubleU '.' 'e' "1e+".toList = .error .bpp := by decide +kernel
example : toDoubleU '.' 'e' "".toList = .error .bpp := by decide +kernel

/-! ## safety -/

/-- **`isDecimalNumber` is safe on every text**: it returns — no `s[i]` out of range, and the loop
ends within `size() + 1` rounds -/
theorem isDecimalNumberU_safe (dec sci : Char) (s : Str) (hs : StrOk s) :
    safe (isDecimalNumberU dec sci s) = true := by
  rw [isDecimalNumberU_refines dec sci s hs]; rfl

/-- it returns a value: the library's exception is not among its outcomes either -/
theorem isDecimalNumberU_returns (dec sci : Char) (s : Str) (hs : StrOk s) :
    ∃ b, isDecimalNumberU dec sci s = .ok b :=
  ⟨_, isDecimalNumberU_refines dec sci s hs⟩

/-- **`isDecimalInteger` is safe on every text** -/
theorem isDecimalIntegerU_safe (sci : Char) (s : Str) (hs : StrOk s) :
    safe (isDecimalIntegerU sci s) = true := by
  rw [isDecimalIntegerU_refines sci s hs]; rfl

/-- it returns a value -/
theorem isDecimalIntegerU_returns (sci : Char) (s : Str) (hs : StrOk s) :
    ∃ b, isDecimalIntegerU sci s = .ok b :=
  ⟨_, isDecimalIntegerU_refines sci s hs⟩

/-- **`toDouble` is safe on every text** (up to the stream extraction, which is libstdc++'s): it
returns or raises the library's exception -/
theorem toDoubleU_safe (dec sci : Char) (s : Str) (hs : StrOk s) :
    safe (toDoubleU dec sci s) = true := by
  rw [toDoubleU_refines dec sci s hs]
  unfold toDoubleClass
  split <;> rfl

/-- `toDouble` raises the library's exception exactly on the texts the recogniser refuses -/
theorem toDoubleU_bpp_iff (dec sci : Char) (s : Str) (hs : StrOk s) :
    toDoubleU dec sci s = .error .bpp ↔ Number.isDecimalNumber dec sci s = false := by
  rw [toDoubleU_refines dec sci s hs]
  unfold toDoubleClass
  cases Number.isDecimalNumber dec sci s <;> simp

end Bpp.C16
