import BppProofs.Lemmas.GraphLegacy
import BppProofs.Lemmas.ObserverLegacy
/-!
# C14 — witnesses: the unchanged tree violated the invariant

Each theorem runs the *legacy* transcription (`Lemmas/GraphLegacy.lean`) of an operation of the
unchanged tree on a concrete history and shows that the reached state is not `Consistent`
(through `check_iff`: the executable check names the failing clause).  The same histories are in
`corpus/C14/` and were replayed on the unchanged library before it was repaired
(`findings/C14.json`); on the repaired library they satisfy the invariant.
-/
namespace Bpp.C14
open Bpp Bpp.Graph Bpp.Graph.G

theorem not_consistent_of_check {g : G} {c : String} (h : g.check = some c) : ¬ Consistent g := by
  intro hc; rw [(check_iff g).mpr hc] at h; cases h

/-- undirected `unlink` removed one direction only: `link(1,0); unlink(1,0)` leaves `out(0)[1]`, `in(1)[0]` behind -/
theorem legacy_unlink_undirected_witness :
    ¬ Consistent (Legacy.unlink 1 0 (Legacy.link 1 0 (Legacy.two false))).state :=
  not_consistent_of_check (c := "out_entry_has_edge") (by decide)

/-- a second `link(0,1)` created an edge that is in the edge table but in no node row -/
theorem legacy_second_link_witness :
    ¬ Consistent (Legacy.link 0 1 (Legacy.link 0 1 (Legacy.two true))) :=
  not_consistent_of_check (c := "edge_listed_by_end_points") (by decide)

/-- `createNodeFromNode(7)` on a graph without node 7 created a dangling edge -/
theorem legacy_createNodeFromNode_absent_witness :
    ¬ Consistent (Legacy.createNodeFromNode 7 (Legacy.two true)) :=
  not_consistent_of_check (c := "edge_listed_by_end_points") (by decide)

/-- `link(1,0); makeDirected()` on an undirected graph: node rows say 0->1, the edge table (1,0) -/
theorem legacy_makeDirected_witness :
    ¬ Consistent (Legacy.makeDirected (Legacy.link 1 0 (Legacy.two false))) :=
  not_consistent_of_check (c := "edge_listed_by_end_points") (by decide)

/-- the same histories on the repaired code are consistent (they are instances of `consistent_inv`) -/
example : Consistent ((Graph.empty false).run [.createNode, .createNode, .link 1 0, .unlink 1 0]) :=
  (check_iff _).mp (by decide)
example : Consistent ((Graph.empty false).run [.createNode, .createNode, .link 1 0, .makeDirected]) :=
  (check_iff _).mp (by decide)

/-- observer `operator=` of the unchanged tree (corpus/C14/03 `w_assign_same_graph`): the target - a
copy that knows object 1 on node 0 - is assigned from the source.  Afterwards its object→id map has
two keys for node 0 (the old object and the new one, owner tag 9: in none of the pools), so the
maps are not inverse of each other and the copy holds an object that is not its own -/
theorem legacy_observer_assign_witness :
    (Legacy.assignI 9 (Obs.tag 0 { gN := [some 1], Ng := [(1, 0)] }) (Obs.tag 1 { gN := [some 1], Ng := [(1, 0)] })).foreign 1
      = some "graphidToN" ∧
    ((Legacy.assignI 9 (Obs.tag 0 { gN := [some 1], Ng := [(1, 0)] }) (Obs.tag 1 { gN := [some 1], Ng := [(1, 0)] })).labels.check
      ((Graph.empty false).run [.createNode])) = some "maps_sorted" := by
  decide

/-- … while the repaired assignment is the copy constructor (`copy_independent`, `assign_same_relations`) -/
example : (IObs.copyI 1 (Obs.tag 0 { gN := [some 1], Ng := [(1, 0)] })).foreign 1 = none := by decide

end Bpp.C14
