import BppProofs.Props.C15Queries
import BppProofs.Props.C15RootAt
import BppProofs.Lemmas.TreeFuel
/-!
# C15 — the fuel of the model's recursions suffices

The recursive traversals of the C++ (`nodesAreMetOnlyOnce_`, `fillSubtreeMetNodes_`,
`fillSubtreeMetEdges_`, `fillListOfLeaves_`, the climbs of the path / MRCA queries,
`propagateDirection_`, `fillRelationsFrom_`) take fuel in the model (node count + 2).  Proved here:

* more fuel never changes an answer other than `fuel` (`*_fuel_mono`), for every graph;
* `isTree_fuel_suffices` — the validity traversal never runs out of fuel, on **any** graph (valid or
  not): the fuelled `isTree` is the unbounded recursion;
* on every valid rooted tree the subtree / leaves / climb recursions never run out of fuel
  (`subtree_fuel_suffices`, `subtree_edges_fuel_suffices`, `leaves_fuel_suffices`, `climb_fuel_suffices`);
  `mrca_spec`, `path_spec`, `rootAt_spec` (Props/C15Queries, C15RootAt) show the same for the composite queries
  and for `propagateDirection_` / `fillRelationsFrom_` inside `rootAt` (rooted and unrooted trees).

On directed graphs with a cycle — never valid trees — some traversals of the library genuinely do not
return; they are recorded (findings/C15.json, C15-nontermination-invalid) with the witnesses below,
where the model answers `fuel` whatever the amount: `leavesUnder_diverges_witness` (a directed 2-cycle),
`climb_diverges_witness` (the climb of the path / MRCA queries on a father cycle).
`leavesUnder_unrooted_diverges_witness` (the valid unrooted tree 0-1, 0-2, 1-3) is about the *recursion*
`fillListOfLeaves_`: since round 3 the query `getLeavesUnderNode` checks `mustBeRooted_()` first and never
enters it on an unrooted tree (`Props/C15Unrooted.lean`, `leavesUnder_refuses_unrooted`).
-/
namespace Bpp.C15
open Bpp Bpp.Graph

/-- more fuel never changes an answer of the validity traversal -/
theorem isTree_fuel_mono (g : G) (node origin : Nat) (met : List Nat) {f1 f2 : Nat} (hle : f1 ≤ f2)
    (hr : T.metOnce g f1 node origin met ≠ .fuel) : T.metOnce g f2 node origin met = T.metOnce g f1 node origin met :=
  T.metOnce_mono_le g node origin met hle hr

/-- **fuel suffices for `isTree`, on every graph**: with node count + 2 the traversal never answers
`fuel`, and any larger amount gives the same answer -/
theorem isTree_fuel_suffices (g : G) :
    T.metOnce g (g.nodes.length + 2) g.root g.root [] ≠ .fuel ∧
    ∀ f, g.nodes.length + 2 ≤ f → T.metOnce g f g.root g.root [] = T.metOnce g (g.nodes.length + 2) g.root g.root [] :=
  ⟨(T.metOnce_ne_fuel g (g.nodes.length + 2) g.root g.root [] ⟨List.nodup_nil, by simp⟩ (by simp)).1,
   fun f hf => T.isTree_fuel_suffices g f hf⟩

theorem subtree_fuel_mono (g : G) (n : Nat) (met : List Nat) {f1 f2 : Nat} (hle : f1 ≤ f2)
    (hr : T.subtreeNodes g f1 n met ≠ .fuel) : T.subtreeNodes g f2 n met = T.subtreeNodes g f1 n met :=
  T.mono_le (fun k => T.subtreeNodes g k n met) (fun k r => T.subtreeNodes_mono g k n met r) hle hr

theorem subtree_edges_fuel_mono (g : G) (n : Nat) (met : List Nat) {f1 f2 : Nat} (hle : f1 ≤ f2)
    (hr : T.subtreeEdges g f1 n met ≠ .fuel) : T.subtreeEdges g f2 n met = T.subtreeEdges g f1 n met :=
  T.mono_le (fun k => T.subtreeEdges g k n met) (fun k r => T.subtreeEdges_mono g k n met r) hle hr

theorem leaves_fuel_mono (g : G) (n : Nat) (found : List Nat) {f1 f2 : Nat} (hle : f1 ≤ f2)
    (hr : T.leavesUnder g f1 n found ≠ .fuel) : T.leavesUnder g f2 n found = T.leavesUnder g f1 n found :=
  T.mono_le (fun k => T.leavesUnder g k n found) (fun k r => T.leavesUnder_mono g k n found r) hle hr

theorem climb_fuel_mono (g : G) (n : Nat) (acc : List Nat) {f1 f2 : Nat} (hle : f1 ≤ f2)
    (hr : T.climb g f1 n acc ≠ .fuel) : T.climb g f2 n acc = T.climb g f1 n acc :=
  T.mono_le (fun k => T.climb g k n acc) (fun k r => T.climb_mono g k n acc r) hle hr

theorem joinRank_fuel_mono (g : G) (line : List Nat) (n : Nat) {f1 f2 : Nat} (hle : f1 ≤ f2)
    (hr : T.joinRank g line f1 n ≠ .fuel) : T.joinRank g line f2 n = T.joinRank g line f1 n :=
  T.mono_le (fun k => T.joinRank g line k n) (fun k r => T.joinRank_mono g line k n r) hle hr

theorem relationsFrom_fuel_mono (g : G) (n origin : Nat) (rel : List (Nat × Nat)) {f1 f2 : Nat} (hle : f1 ≤ f2)
    (hr : T.relationsFrom g f1 n origin rel ≠ .fuel) : T.relationsFrom g f2 n origin rel = T.relationsFrom g f1 n origin rel :=
  T.mono_le (fun k => T.relationsFrom g k n origin rel) (fun k r => T.relationsFrom_mono g k n origin rel r) hle hr

theorem propagate_fuel_mono (t : T) (n : Nat) {f1 f2 : Nat} (hle : f1 ≤ f2)
    (hr : T.propagate f1 t n ≠ .fuel) : T.propagate f2 t n = T.propagate f1 t n :=
  T.mono_le (fun k => T.propagate k t n) (fun k r => T.propagate_mono k t n r) hle hr

/-- on a valid rooted tree the subtree recursion never runs out of fuel, and the fuel does not matter beyond node count + 2 -/
theorem subtree_fuel_suffices (g : G) (hv : ValidRooted g) (n : Nat) (hn : g.hasNode n = true) (f : Nat) (hf : g.nodes.length + 2 ≤ f) :
    (∃ l, T.subtreeNodes g f n [] = .ok l) ∧ T.subtreeNodes g f n [] = T.subtreeNodes g (g.nodes.length + 2) n [] := by
  obtain ⟨P, hd, _⟩ := hv.dtree
  obtain ⟨l, hl, _⟩ := hd.subtreeNodes (g.nodes.length + 2) n [] ((hd.nodes n).2 hn) (by omega)
  have := subtree_fuel_mono g n [] hf (by rw [hl]; simp)
  exact ⟨⟨_, by rw [this, hl]⟩, this⟩

theorem subtree_edges_fuel_suffices (g : G) (hv : ValidRooted g) (n : Nat) (hn : g.hasNode n = true) (f : Nat) (hf : g.nodes.length + 2 ≤ f) :
    (∃ l, T.subtreeEdges g f n [] = .ok l) ∧ T.subtreeEdges g f n [] = T.subtreeEdges g (g.nodes.length + 2) n [] := by
  obtain ⟨P, hd, _⟩ := hv.dtree
  obtain ⟨l, hl, _⟩ := hd.subtreeEdges (g.nodes.length + 2) n [] ((hd.nodes n).2 hn) (by omega)
  have := subtree_edges_fuel_mono g n [] hf (by rw [hl]; simp)
  exact ⟨⟨_, by rw [this, hl]⟩, this⟩

theorem leaves_fuel_suffices (g : G) (hv : ValidRooted g) (n : Nat) (hn : g.hasNode n = true) (f : Nat) (hf : g.nodes.length + 2 ≤ f) :
    (∃ l, T.leavesUnder g f n [] = .ok l) ∧ T.leavesUnder g f n [] = T.leavesUnder g (g.nodes.length + 2) n [] := by
  obtain ⟨P, hd, _⟩ := hv.dtree
  obtain ⟨l, hl, _⟩ := hd.leavesUnder (g.nodes.length + 2) n [] ((hd.nodes n).2 hn) (by omega)
  have := leaves_fuel_mono g n [] hf (by rw [hl]; simp)
  exact ⟨⟨_, by rw [this, hl]⟩, this⟩

/-- the climb of the path and MRCA queries: the ancestor line of the reference, whatever the fuel beyond node count + 2 -/
theorem climb_fuel_suffices (g : G) (hv : ValidRooted g) (n : Nat) (hn : g.hasNode n = true) (f : Nat) (hf : g.nodes.length + 2 ≤ f) :
    T.climb g f n [] = .ok ((refRaw g).anc n) := by
  obtain ⟨P, hd, _⟩ := hv.dtree
  have hnP := (hd.nodes n).2 hn
  rw [hd.ref_anc hnP]
  have := hd.climb f n [] hnP (by have := hd.rank_lt hnP; omega)
  simpa using this

/-! ### where the library's traversals genuinely do not return (recorded findings): the model answers `fuel` for every amount -/

/-- the directed 2-cycle 0 -> 1 -> 0 -/
def cycle2 : G := ((T.empty true).run [.createNode, .createNode, .link 0 1, .link 1 0]).g

theorem leavesUnder_diverges_witness : ∀ fuel n found, n < 2 → T.leavesUnder cycle2 fuel n found = .fuel := by
  intro fuel
  induction fuel with
  | zero => intro n found _; rfl
  | succ f ih =>
    intro n found hn
    have h0 : cycle2.outNeighbors 0 = some [1] := by decide
    have h1 : cycle2.outNeighbors 1 = some [0] := by decide
    have l0 : T.isLeafT cycle2 0 = some false := by decide
    have l1 : T.isLeafT cycle2 1 = some false := by decide
    match n, hn with
    | 0, _ => simp only [T.leavesUnder, h0, l0, List.foldl]; rw [ih 1 found (by omega)]
    | 1, _ => simp only [T.leavesUnder, h1, l1, List.foldl]; rw [ih 0 found (by omega)]

theorem climb_diverges_witness : ∀ fuel n acc, n < 2 → T.climb cycle2 fuel n acc = .fuel := by
  intro fuel
  induction fuel with
  | zero => intro n acc _; rfl
  | succ f ih =>
    intro n acc hn
    have h0 : T.hasFather cycle2 0 = some true := by decide
    have h1 : T.hasFather cycle2 1 = some true := by decide
    have f0 : T.father cycle2 0 = some 1 := by decide
    have f1 : T.father cycle2 1 = some 0 := by decide
    match n, hn with
    | 0, _ => simp only [T.climb, h0, f0]; exact ih 1 _ (by omega)
    | 1, _ => simp only [T.climb, h1, f1]; exact ih 0 _ (by omega)

/-- the valid unrooted tree 0-1, 0-2, 1-3 -/
def unrooted4 : G := ((T.empty false).run [.createNode, .createNode, .createNode, .createNode, .link 0 1, .link 0 2, .link 1 3]).g

example : T.isTree unrooted4 = .ok true := by decide

theorem leavesUnder_unrooted_diverges_witness : ∀ fuel n found, n < 2 → T.leavesUnder unrooted4 fuel n found = .fuel := by
  intro fuel
  induction fuel with
  | zero => intro n found _; rfl
  | succ f ih =>
    intro n found hn
    have h0 : unrooted4.outNeighbors 0 = some [1, 2] := by decide
    have h1 : unrooted4.outNeighbors 1 = some [0, 3] := by decide
    have l0 : T.isLeafT unrooted4 0 = some false := by decide
    have l1 : T.isLeafT unrooted4 1 = some false := by decide
    match n, hn with
    | 0, _ => simp only [T.leavesUnder, h0, l0, List.foldl]; rw [ih 1 found (by omega)]
    | 1, _ => simp only [T.leavesUnder, h1, l1, List.foldl]; rw [ih 0 found (by omega)]

end Bpp.C15
