import BppProofs.Lemmas.OptimHistory
import BppProofs.Props.C10LinePolicy
import BppProofs.Props.C10Policy2
/-!
# C10, part 5c — the same optimiser object used again

The property quantifies over uses of an optimiser; nothing says an object is used once.  A client may
call `setConstraintPolicy`, `setMaximumNumberOfEvaluations` and `init` with another list — other
constraints, none, another start — on an object that has already run, and the clause "under the
automatic policy the objective is never evaluated outside its parameters' constraints" is about the
constraints of the list of the run in progress.

Two things can carry state from one run into the next:

* the optimiser's own members (the template's, the class's: directions of Powell, inverse Hessian of
  BFGS, vertices of the simplex, stop-condition state, counters, the members of the one-dimensional
  optimisers and of the optimisers a `MetaOptimizer` / the coordinate-wise optimisers hold).  The per-run
  theorems (`*_auto_policy_feasible`) are stated for **every** state `s` of the object, reachable or not:
  `history_auto_policy_feasible` folds them over a history of runs;
* the `DirectionFunction` object `f1dim_` that Powell, the conjugate gradient optimiser and BFGS own and
  hand to every `lineMinimization` / `lineSearch` of every run.  The optimisers' models build a fresh one
  per search; `line_minimization_reuse` / `line_search_reuse` justify that: `DirectionFunction::init`
  rebuilds `p_`, `xi_`, `nbEval_` **and the working point `xt_`** from the list it is given — its
  constraints, its auto-correcting wrappers — whatever the object held (`dirfn_reinit_rebuilds`), and the
  one member that survives, `params_`, is overwritten by the first evaluation before anything reads it.
  (A `DirectionFunction` that kept `xt_` when the number of parameters is unchanged — constraints and
  wrappers of the *first* list it ever searched along — makes `dirfn_reinit_rebuilds` false, and with it the
  second run of an object first used under `ignore`, then under `auto` with a box.)
-/
namespace Bpp.C10
open Bpp Bpp.Optim

section reuse
set_option linter.unusedSectionVars false
variable {α : Type} [Scalar α] {F : Type}

/-- **dirfn_reinit_rebuilds** — a *transcription sentinel*: it holds by definition of `DirFn.reinit` (the
proof is `rfl` field by field) and says nothing about DirectionFunction.cpp beyond that transcription
(DirectionFunction.cpp:46-56, tied by the differential check).  It is kept because it names, in one
place, what the re-use theorems below rest on, and because a transcription of `init` that kept `xt_`
(the seeded change C10-b1) makes it false.  The theorems with content are `line_minimization_reuse` and
`line_search_reuse` (`params_`, the one member that survives, is dead).
`DirectionFunction::init(p, xi)` on an object `old` left by any earlier
searches — other lists, other constraints, another policy, another dimension: the working point `xt_`
and `p_` are the list given *now* under the policy set *now*, `xi_` the direction given now, the counter
is 0; the object differs from a fresh one by `params_` only. -/
theorem dirfn_reinit_rebuilds (old : DirFn F α) (fn : F) (pol : Policy) (p : PList α) (xi : List α) :
    (DirFn.reinit old fn pol p xi).xt = applyPolicy pol p ∧
    (DirFn.reinit old fn pol p xi).p = applyPolicy pol p ∧
    (DirFn.reinit old fn pol p xi).xi = xi ∧
    (DirFn.reinit old fn pol p xi).nbEval = 0 ∧
    DirFn.reinit old fn pol p xi = { DirFn.init fn pol p xi with params := old.params } :=
  ⟨rfl, rfl, rfl, rfl, rfl⟩

/-- **line_minimization_reuse**: `lineMinimization` with a `DirectionFunction` object that has been used
before — whatever it holds — returns what `lineMinimization` with a fresh object returns (function,
parameters, direction, number of evaluations; exceptions included), for every function, every list,
every direction. -/
theorem line_minimization_reuse (I : FunI F α) (fuel : Nat) (old : DirFn F α) (fn : F) (parameters : PList α) (xi : List α) :
    (lineMinimizationOn I fuel old fn parameters xi).map Prod.fst = lineMinimization I fuel fn parameters xi := by
  unfold lineMinimizationOn
  rw [DirFn.reinit_eq, lineMinimizationFrom_params_dead, lineMinimization_eq_from]

/-- **line_search_reuse**: the same for `lineSearch` (BFGS). -/
theorem line_search_reuse (I : FunI F α) (fuel : Nat) (old : DirFn F α) (fn : F) (parameters : PList α) (xi gradient : List α) :
    (lineSearchOn I fuel old fn parameters xi gradient).map Prod.fst = lineSearch I fuel fn parameters xi gradient := by
  unfold lineSearchOn
  rw [DirFn.reinit_eq, lineSearchFrom_params_dead, lineSearch_eq_from]

/-- **line_minimization_reuse_object**: and the object it leaves does not depend on the one it found -/
theorem line_minimization_reuse_object (I : FunI F α) (fuel : Nat) (old old' : DirFn F α) (fn : F) (parameters : PList α) (xi : List α) :
    lineMinimizationOn I fuel old fn parameters xi = lineMinimizationOn I fuel old' fn parameters xi := by
  unfold lineMinimizationOn
  rw [DirFn.reinit_eq, DirFn.reinit_eq, lineMinimizationFrom_params_dead,
    lineMinimizationFrom_params_dead I fuel (DirFn.init fn .auto parameters xi) old'.params]

end reuse

/-- non-vacuity: an object left by a search in dimension 1 with an unconstrained parameter (first use
under `ignore`) and a second search along `(1)` with the parameter constrained to `[0, 1]`: `init` makes
the working point an auto-correcting copy with that constraint -/
example : let c : Interval ℝ := ⟨.fin 0, .fin 1, true, true, 0⟩
    let old : DirFn (Fn ℝ) ℝ := { inner := ⟨[5], []⟩, params := [⟨0, ⟨2, 0, none, false⟩⟩], p := [⟨0, ⟨5, 0, none, true⟩⟩],
                                  xt := [⟨0, ⟨7, 0, none, true⟩⟩], xi := [1], nbEval := 12 }
    (DirFn.reinit old ⟨[0.5], []⟩ .auto [⟨0, ⟨0.5, 0, some c, false⟩⟩] [1]).xt = [⟨0, ⟨0.5, 0, some c, true⟩⟩] := by
  intro c old
  simp [DirFn.reinit, applyPolicy, Param.toAuto]

/-! ### histories of runs -/

/-- what the per-run theorems say of an optimiser class `O` on lists satisfying `Adm`: from **every**
state `s` of the object whose policy is not `ignore`, on a function whose log and own point are
feasible for the list's constraints, `init` and then `optimize` — however they end — leave a feasible
log -/
def PerRun {τ : Type} (O : Spec.Obj τ ℝ) (Adm : PList ℝ → Prop) : Prop :=
  ∀ (params : PList ℝ) (s : St (Fn ℝ) τ ℝ), s.core.policy ≠ .ignore → Adm params → FeasFn (consOf params) s.fn →
    ROk (FeasFn (consOf params))
      (fun s1 => Spec.feasibleLog (consOf params) s1.fn.log = true ∧ Spec.feasibleReport s1.core.params = true ∧
        ∀ fuel', ROk (FeasFn (consOf params))
          (fun r => Spec.feasibleLog (consOf params) r.1.fn.log = true ∧ Spec.feasibleReport r.1.core.params = true)
          (O.optimize fuel' s1))
      (O.init s params)

/-- one run on an existing object, in whatever state the earlier runs have left it -/
theorem run_auto_policy_feasible {τ : Type} (O : Spec.Obj τ ℝ) (Adm : PList ℝ → Prop) (h : PerRun O Adm)
    (s : St (Fn ℝ) τ ℝ) (r : Spec.Run ℝ) (hpol : r.policy ≠ .ignore) (hadm : Adm r.params)
    (hpt : Spec.feasiblePoint (consOf r.params) s.fn.point = true) :
    Spec.feasibleLog (consOf r.params) (O.run s r).2 = true := by
  have h0 := h r.params (Spec.Obj.prepare s r) hpol hadm ⟨rfl, hpt⟩
  unfold Spec.Obj.run
  cases hi : O.init (Spec.Obj.prepare s r) r.params with
  | error e => rw [hi] at h0; exact h0.1
  | ok s1 =>
    rw [hi] at h0
    have h1 := h0.2.2 r.fuel
    cases ho : O.optimize r.fuel s1 with
    | error e => rw [ho] at h1; simp only [ho]; exact h1.1
    | ok s2 => rw [ho] at h1; simp only [ho]; exact h1.1

/-- **history_auto_policy_feasible** (every optimiser class with a per-run theorem): any number of runs
on the same object — each with its own policy, cap, list (constraints, start) —; for every run that
takes place under a policy other than `ignore` with an admissible list, the function being at a point
feasible for that list when the run begins, every point the objective is evaluated at *during that run*
satisfies the constraints of *that run's* list — whatever the earlier runs were (other policies, other
boxes, none; ended normally), and however this one ends. -/
theorem history_auto_policy_feasible {τ : Type} (O : Spec.Obj τ ℝ) (Adm : PList ℝ → Prop) (h : PerRun O Adm)
    (runs : List (Spec.Run ℝ)) (s0 : St (Fn ℝ) τ ℝ) :
    ∀ e ∈ O.history s0 runs, e.1.policy ≠ .ignore → Adm e.1.params →
      Spec.feasiblePoint (consOf e.1.params) e.2.1 = true →
      Spec.feasibleLog (consOf e.1.params) e.2.2 = true := by
  induction runs generalizing s0 with
  | nil => intro e he; cases he
  | cons r rs ih =>
    intro e he hpol hadm hpt
    unfold Spec.Obj.history at he
    rcases List.mem_cons.1 he with rfl | he
    · exact run_auto_policy_feasible O Adm h s0 r hpol hadm hpt
    · cases ho : (O.run s0 r).1 with
      | none => rw [ho] at he; cases he
      | some s' => rw [ho] at he; exact ih s' e he hpol hadm hpt

/-- the admissible lists of the per-run theorems: feasible values, distinct names -/
def AdmList (params : PList ℝ) : Prop := feasibleList params = true ∧ (params.map (·.name)).Nodup

section instances
variable (obj : List ℝ → ℝ) (D : Deriv ℝ) (cap : Option Nat) (fuel : Nat)

theorem golden_per_run : PerRun ⟨(gssAlgo (Fn.iface obj D cap) fuel).init, gssOptimize (Fn.iface obj D cap)⟩ AdmList :=
  fun params s hp ha hs => golden_auto_policy_feasible obj D cap fuel params s hp ha.1 ha.2 hs

theorem brent_per_run : PerRun ⟨(brentAlgo (Fn.iface obj D cap) fuel).init, brentOptimize (Fn.iface obj D cap)⟩ AdmList :=
  fun params s hp ha hs => brent_auto_policy_feasible obj D cap fuel params s hp ha.1 ha.2 hs

theorem backtrack_per_run : PerRun ⟨(nbackAlgo (Fn.iface obj D cap)).init, (nbackAlgo (Fn.iface obj D cap)).optimize⟩ AdmList :=
  fun params s hp ha hs => backtrack_auto_policy_feasible obj D cap params s hp ha.1 ha.2 hs

theorem newton1d_per_run : PerRun ⟨(newtonAlgo (Fn.iface obj D cap)).init, (newtonAlgo (Fn.iface obj D cap)).optimize⟩ AdmList :=
  fun params s hp ha hs => newton1d_auto_policy_feasible obj D cap params s hp ha.1 ha.2 hs

theorem simple_multi_per_run :
    PerRun ⟨(simpleAlgo (Fn.iface obj D cap) fuel).init, (simpleAlgo (Fn.iface obj D cap) fuel).optimize⟩ AdmList :=
  fun params s hp ha hs => simple_multi_auto_policy_feasible obj D cap fuel params s hp ha.1 ha.2 hs

theorem simple_newton_per_run :
    PerRun ⟨(snewtonAlgo (Fn.iface obj D cap) fuel).init, (snewtonAlgo (Fn.iface obj D cap) fuel).optimize⟩ AdmList :=
  fun params s hp ha hs => simple_newton_auto_policy_feasible obj D cap fuel params s hp ha.1 ha.2 hs

theorem simplex_per_run_partial :
    PerRun ⟨(simplexAlgo (Fn.iface obj D cap)).init, simplexOptimize (Fn.iface obj D cap)⟩
      (fun params => AdmList params ∧ ∀ q ∈ params, q.p.precision = 0) :=
  fun params s hp ha hs => simplex_auto_policy_feasible_partial obj D cap params s hp ha.1.1 ha.1.2 ha.2 hs

theorem powell_per_run : PerRun ⟨(powellAlgo (Fn.iface obj D cap) fuel).init, powellOptimize (Fn.iface obj D cap)⟩ AdmList :=
  fun params s hp ha hs => powell_auto_policy_feasible obj D cap fuel params s hp ha.1 ha.2 hs

theorem cg_per_run : PerRun ⟨(cgAlgo (Fn.iface obj D cap) fuel).init, (cgAlgo (Fn.iface obj D cap) fuel).optimize⟩ AdmList :=
  fun params s hp ha hs => cg_auto_policy_feasible obj D cap fuel params s hp ha.1 ha.2 hs

theorem bfgs_per_run : PerRun ⟨(bfgsAlgo (Fn.iface obj D cap) fuel).init, (bfgsAlgo (Fn.iface obj D cap) fuel).optimize⟩ AdmList :=
  fun params s hp ha hs => bfgs_auto_policy_feasible obj D cap fuel params s hp ha.1 ha.2 hs

theorem meta_per_run (log10 : ℝ → ℝ) :
    PerRun ⟨(metaAlgo (Fn.iface obj D cap) log10 fuel).init, (metaAlgo (Fn.iface obj D cap) log10 fuel).optimize⟩ AdmList :=
  fun params s hp ha hs => meta_auto_policy_feasible obj D cap log10 fuel params s hp ha.1 ha.2 hs

/-- **powell_history_auto_policy_feasible**: `PowellMultiDimensions` used for any number of runs.
(The `DirectionFunction` it owns is covered by `line_minimization_reuse`.) -/
theorem powell_history_auto_policy_feasible (runs : List (Spec.Run ℝ)) (s0 : St (Fn ℝ) (Powell ℝ) ℝ) :
    ∀ e ∈ (⟨(powellAlgo (Fn.iface obj D cap) fuel).init, powellOptimize (Fn.iface obj D cap)⟩ : Spec.Obj (Powell ℝ) ℝ).history s0 runs,
      e.1.policy ≠ .ignore → AdmList e.1.params → Spec.feasiblePoint (consOf e.1.params) e.2.1 = true →
      Spec.feasibleLog (consOf e.1.params) e.2.2 = true :=
  history_auto_policy_feasible _ _ (powell_per_run obj D cap fuel) runs s0

/-- **cg_history_auto_policy_feasible**: `ConjugateGradientMultiDimensions` used for any number of runs. -/
theorem cg_history_auto_policy_feasible (runs : List (Spec.Run ℝ)) (s0 : St (Fn ℝ) (Cg ℝ) ℝ) :
    ∀ e ∈ (⟨(cgAlgo (Fn.iface obj D cap) fuel).init, (cgAlgo (Fn.iface obj D cap) fuel).optimize⟩ : Spec.Obj (Cg ℝ) ℝ).history s0 runs,
      e.1.policy ≠ .ignore → AdmList e.1.params → Spec.feasiblePoint (consOf e.1.params) e.2.1 = true →
      Spec.feasibleLog (consOf e.1.params) e.2.2 = true :=
  history_auto_policy_feasible _ _ (cg_per_run obj D cap fuel) runs s0

/-- **bfgs_history_auto_policy_feasible**: `BfgsMultiDimensions` used for any number of runs. -/
theorem bfgs_history_auto_policy_feasible (runs : List (Spec.Run ℝ)) (s0 : St (Fn ℝ) (Bfgs ℝ) ℝ) :
    ∀ e ∈ (⟨(bfgsAlgo (Fn.iface obj D cap) fuel).init, (bfgsAlgo (Fn.iface obj D cap) fuel).optimize⟩ : Spec.Obj (Bfgs ℝ) ℝ).history s0 runs,
      e.1.policy ≠ .ignore → AdmList e.1.params → Spec.feasiblePoint (consOf e.1.params) e.2.1 = true →
      Spec.feasibleLog (consOf e.1.params) e.2.2 = true :=
  history_auto_policy_feasible _ _ (bfgs_per_run obj D cap fuel) runs s0

/-- non-vacuity: a Powell object as an earlier run under `ignore` in dimension 2 has left it (policy
`ignore`, a direction set that is not the identity, a stale `pt_`, counters, the function at `(4, 1)`),
then a run under `auto` with parameter 0 constrained to `[0, 10]`: the entry of that run in the history
satisfies the hypotheses of `powell_history_auto_policy_feasible` -/
example : let c : Interval ℝ := ⟨.fin 0, .fin 10, true, true, 0⟩
    let params : PList ℝ := [⟨0, ⟨4, 0, some c, false⟩⟩, ⟨1, ⟨1, 0, none, false⟩⟩]
    let s0 : St (Fn ℝ) (Powell ℝ) ℝ :=
      ⟨{ freshCore 100 0 0 with policy := .ignore, nbEval := 57, tol := true, initialized := true, callCount := 9,
                                 params := [⟨0, ⟨4, 0, none, false⟩⟩, ⟨1, ⟨1, 0, none, false⟩⟩] },
       ⟨[4, 1], [[4, 1], [3, 2]]⟩, { fp := 3, fret := 2, pt := [⟨0, ⟨3, 0, none, false⟩⟩], xi := [[1, 2], [0, 1]] }⟩
    let r : Spec.Run ℝ := ⟨.auto, 50, params, 1000⟩
    let O : Spec.Obj (Powell ℝ) ℝ := ⟨(powellAlgo (Fn.iface obj D cap) fuel).init, powellOptimize (Fn.iface obj D cap)⟩
    ∃ e ∈ O.history s0 [r], e.1.policy ≠ .ignore ∧ AdmList e.1.params ∧ Spec.feasiblePoint (consOf e.1.params) e.2.1 = true := by
  intro c params s0 r O
  refine ⟨_, List.mem_cons_self .., by simp [r], ⟨?_, by simp [r, params]⟩, ?_⟩
  · simp [r, params, feasibleList, Param.invOk, Param.accepts, c, Interval.isCorrect, Interval.isCorrectB, Bound.geb, Bound.leb]; norm_num
  · simp [r, s0, params, consOf, Spec.feasiblePoint, Spec.accepts, c, Interval.isCorrect, Interval.isCorrectB, Bound.geb, Bound.leb]; norm_num

end instances

end Bpp.C10
