import BppProofs.Props.C03
import BppProofs.Lemmas.AliasCheck
/-!
# C03, round 2 — the clauses the driver evaluates are theorems of the model

`check_sound`: for every reachable world and every operation of the protocol, the model's own answer
passes every clause `Alias.checkStep` evaluates (so a clause that fails on the implementation's answer
is a deviation from a *proved* behaviour); the converse of the refusal clause; `setAllParametersValues`;
the bulk form after its repair; the queries `getAlias` / `getAliases` / `getFrom`; histories of updates.
-/
namespace Bpp.C03
open Bpp Bpp.Alias
open Bpp.ParamList (Bnd Con Par Store ObjId nameOf find? hasParameter names)

/-- **check_sound, one step**: in a world satisfying the invariants of reachable worlds, for every
operation of the protocol that reaches the library (`hneeds`: the slots it names hold objects; `hsl`:
they are among the `NSLOT` observed slots) and is well-formed (`Op.wf`: an added parameter carries the
namespace of its owner), the step the model takes passes every clause of `checkStep`:
termination, no undefined behaviour, frame, the observable invariant, and the clause of the operation
(`alias_tracks`, `update_shape`, `refuse`, `refuse_unchanged`, `alias_refused_wrongly`, `alias_raise_unchanged`, `alias_effect`,
`unalias_unchanged`, `unalias_restores`, `bulk_links`, `copy_carries`, `assign_carries`,
`namespace_preserves`). -/
theorem check_sound_step {w : World} (h : Inv w) (hok : HeapOk w) (op : Op) (hwf : op.wf w)
    (hneeds : ∀ k ∈ op.needs, (w.objs k).isSome = true) (hsl : ∀ k ∈ op.slot :: op.needs, k < NSLOT) :
    checkStep (viewOf w) op (step w op).2 (viewOf (step w op).1) = none := by
  have hI : Inv (step w op).1 := inv_step h op hwf
  have hO : HeapOk (step w op).1 := heapOk_step h hok op
  have h4 : ((List.range NSLOT).all fun k => match (viewOf (step w op).1).get k with | some s => s.inv | none => true) = true :=
    invB_viewOf hI hO
  have h5 : ((List.range NSLOT).all fun k => match (viewOf w).get k with | some s => s.inv | none => true) = true :=
    invB_viewOf h hok
  have h3 : frameOk [op.slot] (viewOf w) (viewOf (step w op).1) = true :=
    frameOk_viewOf (fun j hj => step_view_frame h op hwf j hj)
  have h2 : ((step w op).2 == Out.err Err.ub) = false := by
    rw [beq_eq_false_iff_ne]; exact step_no_ub h op hwf hneeds
  have h1 : ((step w op).2 == Out.err Err.hang) = false := by
    rw [beq_eq_false_iff_ne]
    have hs := step_no_hang_struct h op hwf
    cases op with
    | aliases k =>
      cases ho : w.objs k with
      | none => simp [step, ho]
      | some o =>
        obtain ⟨m, hm, _⟩ := getAliases_spec (h.obj k o ho) ho
        simp [step, ho, hm]
    | aliasOf k n =>
      cases ho : w.objs k with
      | none => simp [step, ho]
      | some o =>
        obtain ⟨l, hl, _⟩ := getAlias_spec (h.obj k o ho) ho n
        simp [step, ho, hl]
    | _ => exact hs
  have hslot : op.slot < NSLOT := hsl _ (List.mem_cons_self ..)
  unfold checkStep
  simp only [h1, h2, h3, Bool.not_true, Bool.false_eq_true, if_false]
  split
  · rename_i hc
    have hz := (Bool.and_eq_true_iff.1 hc).2
    rw [Bool.not_eq_true'] at hz
    exact Bool.noConfusion (h4.symm.trans hz)
  split
  · rfl
  clear h4 h5
  -- the object of a needed slot, and its view before
  have hobj : ∀ k ∈ op.needs, ∃ o, w.objs k = some o := fun k hk => Option.isSome_iff_exists.1 (hneeds k hk)
  cases op with
  | setv k n v =>
    obtain ⟨o, ho⟩ := hobj k (by simp [Op.needs, Op.slot])
    have sb := (update_sameBut w k).1 n v
    have hW : (step w (.setv k n v)).1 = (apSetParameterValue w k n v).w := rfl
    have hout : (step w (.setv k n v)).2 = Out.ofErr (apSetParameterValue w k n v).err := rfl
    have hk : k < NSLOT := hslot
    simp only [hW, hout, viewOf_get _ hk, sb.objs, ho, Option.map_some]
    refine upd_clause (sameShape_svOf sb o) (fun he _ => (tracksOk_updates h ho).1 n v ?_)
    rw [isErr_ofErr] at he
    cases hh : (apSetParameterValue w k n v).err with
    | none => rfl
    | some e => simp [hh] at he
  | setvs k src =>
    obtain ⟨o, ho⟩ := hobj k (by simp [Op.needs, Op.slot])
    have sb := (update_sameBut w k).2.1 src
    have hW : (step w (.setvs k src)).1 = (apSetParametersValues w k src).w := rfl
    have hout : (step w (.setvs k src)).2 = Out.ofErr (apSetParametersValues w k src).err := rfl
    have hk : k < NSLOT := hslot
    simp only [hW, hout, viewOf_get _ hk, sb.objs, ho, Option.map_some]
    refine upd_clause (sameShape_svOf sb o) (fun he htr => (tracksOk_updates h ho).2.1 src htr ?_)
    rw [isErr_ofErr] at he
    cases hh : (apSetParametersValues w k src).err with
    | none => rfl
    | some e => simp [hh] at he
  | matchvs k src =>
    obtain ⟨o, ho⟩ := hobj k (by simp [Op.needs, Op.slot])
    have sb := (update_sameBut w k).2.2.1 src
    have hW : (step w (.matchvs k src)).1 = (apMatchParametersValues w k src).1.w := rfl
    have hout : (step w (.matchvs k src)).2 = (match (apMatchParametersValues w k src).1.err with
      | some e => Out.err e | none => Out.flag (apMatchParametersValues w k src).2) := rfl
    have hk : k < NSLOT := hslot
    simp only [hW, hout, viewOf_get _ hk, sb.objs, ho, Option.map_some]
    refine upd_clause (sameShape_svOf sb o) (fun he htr => (tracksOk_updates h ho).2.2.1 src htr ?_)
    cases hh : (apMatchParametersValues w k src).1.err with
    | none => rfl
    | some e => simp [hh, Out.isErr] at he
  | setallv k src =>
    obtain ⟨o, ho⟩ := hobj k (by simp [Op.needs, Op.slot])
    have sb := (update_sameBut w k).2.2.2 src
    have hW : (step w (.setallv k src)).1 = (apSetAllParametersValues w k src).w := rfl
    have hout : (step w (.setallv k src)).2 = Out.ofErr (apSetAllParametersValues w k src).err := rfl
    have hk : k < NSLOT := hslot
    simp only [hW, hout, viewOf_get _ hk, sb.objs, ho, Option.map_some]
    refine upd_clause (sameShape_svOf sb o) (fun he htr => (tracksOk_updates h ho).2.2.2 src htr ?_)
    rw [isErr_ofErr] at he
    cases hh : (apSetAllParametersValues w k src).err with
    | none => rfl
    | some e => simp [hh] at he
  | «alias» k p1 p2 =>
    obtain ⟨o, ho⟩ := hobj k (by simp [Op.needs, Op.slot])
    have hW : (step w (.alias k p1 p2)).1 = (aliasPair w k p1 p2).w := rfl
    have hout : (step w (.alias k p1 p2)).2 = Out.ofErr (aliasPair w k p1 p2).err := rfl
    have hk : k < NSLOT := hslot
    by_cases hm : mustRefuse p1 p2 (svOf w o) = true
    · obtain ⟨he, hw⟩ := refuse_clause h ho p1 p2 hm
      simp only [hW, hout, hw, viewOf_get _ hk, ho, Option.map_some, hm, if_true, isErr_ofErr]
      cases hh : (aliasPair w k p1 p2).err with
      | none => exact absurd hh he
      | some e => simp
    · have hm' : mustRefuse p1 p2 (svOf w o) = false := by simpa using hm
      cases hh : (aliasPair w k p1 p2).err with
      | some e =>
        -- raised although it need not be refused: the constraint part
        have hne : e ≠ .notfound ∧ e ≠ .bpp := by
          constructor
          · rintro rfl; exact hm (refuse_only_if h ho p1 p2 (Or.inl hh))
          · rintro rfl; exact hm (refuse_only_if h ho p1 p2 (Or.inr hh))
        have hw := aliasPair_err_unchanged h ho p1 p2 (by rw [hh]; simp)
        simp only [hW, hout, hh, hw, viewOf_get _ hk, ho, Option.map_some, hm', Bool.false_eq_true, if_false, Out.ofErr]
        cases e <;> simp [Out.isErr] at hne ⊢
      | none =>
        obtain ⟨o', ho', hok'⟩ := aliasOk_model h ho hh
        simp only [hW, hout, hh, viewOf_get _ hk, ho, ho', Option.map_some, hm', Bool.false_eq_true, if_false, Out.ofErr, hok']
        simp [Out.isErr]
  | unalias k p1 p2 =>
    obtain ⟨o, ho⟩ := hobj k (by simp [Op.needs, Op.slot])
    have hW : (step w (.unalias k p1 p2)).1 = (unalias w k p1 p2).w := rfl
    have hout : (step w (.unalias k p1 p2)).2 = Out.ofErr (unalias w k p1 p2).err := rfl
    have hk : k < NSLOT := hslot
    cases hh : (unalias w k p1 p2).err with
    | some e =>
      have hw := unalias_refused_unchanged h ho (p1 := p1) (p2 := p2) (by rw [hh]; simp)
      simp only [hW, hout, hh, hw, viewOf_get _ hk, ho, Option.map_some, Out.ofErr]
      simp [Out.isErr]
    | none =>
      obtain ⟨o', ho', hok'⟩ := unaliasOk_model h ho hh
      simp only [hW, hout, hh, viewOf_get _ hk, ho, ho', Option.map_some, Out.ofErr, hok']
      simp [Out.isErr]
  | bulk k es =>
    obtain ⟨o, ho⟩ := hobj k (by simp [Op.needs, Op.slot])
    have hW : (step w (.bulk k es)).1 = (bulkAlias w k es).w := rfl
    have hout : (step w (.bulk k es)).2 = Out.ofErr (bulkAlias w k es).err := rfl
    have hk : k < NSLOT := hslot
    cases hh : (bulkAlias w k es).err with
    | some e =>
      simp only [hW, hout, hh, viewOf_get _ hk, ho, Option.map_some, Out.ofErr]
      cases (bulkAlias w k es).w.objs k <;> simp [Out.isErr]
    | none =>
      obtain ⟨o', ho', hok'⟩ := bulkOk_model h ho es hh
      simp only [hW, hout, hh, viewOf_get _ hk, ho, ho', Option.map_some, Out.ofErr, hok']
      simp [Out.isErr]
  | copy s d =>
    obtain ⟨o, ho⟩ := hobj s (by simp [Op.needs])
    have hW : (step w (.copy s d)).1 = (copyConstruct w s d).w := rfl
    have hout : (step w (.copy s d)).2 = Out.ofErr (copyConstruct w s d).err := rfl
    have hd : d < NSLOT := hslot
    have hs : s < NSLOT := hsl s (by simp [Op.needs])
    obtain ⟨ok, od, hod, hsv, _⟩ := copy_carries h (d := d) ho
    simp only [hW, hout, ok, viewOf_get _ hd, viewOf_get _ hs, ho, hod, Option.map_some, Out.ofErr, hsv]
    simp [Out.isErr]
  | assign s d =>
    obtain ⟨o, ho⟩ := hobj s (by simp [Op.needs])
    obtain ⟨od0, hd0⟩ := hobj d (by simp [Op.needs])
    have hW : (step w (.assign s d)).1 = (assign w s d).w := rfl
    have hout : (step w (.assign s d)).2 = Out.ofErr (assign w s d).err := rfl
    have hd : d < NSLOT := hslot
    have hs : s < NSLOT := hsl s (by simp [Op.needs])
    by_cases hsd : s = d
    · subst hsd
      have := assign_self w s o ho
      simp only [hW, hout, this, viewOf_get _ hd, ho, Option.map_some, Out.ofErr]
      simp [Out.isErr]
    · obtain ⟨ok, od, hod, hsv, _⟩ := assign_carries h ho hd0 hsd
      simp only [hW, hout, ok, viewOf_get _ hd, viewOf_get _ hs, ho, hod, Option.map_some, Out.ofErr, hsv]
      simp [Out.isErr]
  | ns k pre =>
    obtain ⟨o, ho⟩ := hobj k (by simp [Op.needs, Op.slot])
    have hW : (step w (.ns k pre)).1 = (setNamespace w k pre).w := rfl
    have hout : (step w (.ns k pre)).2 = Out.ofErr (setNamespace w k pre).err := rfl
    have hk : k < NSLOT := hslot
    obtain ⟨o', ho', hok'⟩ := namespaceOk_model h ho pre
    have herr := (namespace_preserves h ho pre).1
    simp only [hW, hout, herr, viewOf_get _ hk, ho, ho', Option.map_some, Out.ofErr, hok']
    simp [Out.isErr]
  | new k pre => rfl
  | add k p => rfl
  | aliases k => rfl
  | aliasOf k n => rfl
  | «from» k n => rfl

/-- **check_sound**: after every well-formed history (any length, any interleaving of the operations of
the protocol, raising ones included), whatever operation comes next, the model's answer and the views
before / after pass every clause the driver evaluates on the implementation. -/
theorem check_sound (ops : List Op) (hw : WfRun World.init ops) (op : Op) (hwf : op.wf (run World.init ops))
    (hneeds : ∀ k ∈ op.needs, ((run World.init ops).objs k).isSome = true) (hsl : ∀ k ∈ op.slot :: op.needs, k < NSLOT) :
    checkStep (viewOf (run World.init ops)) op (step (run World.init ops) op).2
      (viewOf (step (run World.init ops) op).1) = none :=
  check_sound_step (inv_reachable ops hw) (heapOk_run ops inv_init hw (fun j hj => absurd hj (Nat.not_lt_zero _))) op hwf hneeds hsl

/-- non-vacuity: the hypotheses hold of a history with links, a copy and a rename, for a bulk alias -/
example : let w := run abc [.alias 0 "a" "b", .copy 0 1, .ns 1 "m.", .setv 0 "a" 5]
    (∀ k ∈ (Op.bulk 0 [("c", "b")]).needs, (w.objs k).isSome = true) ∧
    checkStep (viewOf w) (.bulk 0 [("c", "b")]) (step w (.bulk 0 [("c", "b")])).2 (viewOf (step w (.bulk 0 [("c", "b")])).1) = none := by
  decide

/-! ## The converse of `refuse_clause` -/

/-- **a request is refused only if it must be**: when `aliasParameters(p1, p2)` raises
`ParameterNotFoundException` or `Exception` in a reachable world, then — on the observable view — a name
is unknown, `p2` already follows a parameter (**alias twice**), `p1 = p2`, or `p1` follows `p2` through a
chain of any length (**cycle**).  With `refuse_clause`: the pair form refuses exactly the requests the
property says it must refuse (the only other way it can raise is `ConstraintException`, when the value
of one parameter is outside the constraint it would take). -/
theorem refuse_clause_converse {w : World} (h : Inv w) {k : Nat} {o : Obj} (ho : w.objs k = some o) (p1 p2 : String)
    (hr : (aliasPair w k p1 p2).err = some .notfound ∨ (aliasPair w k p1 p2).err = some .bpp) :
    mustRefuse p1 p2 (svOf w o) = true := refuse_only_if h ho p1 p2 hr

/-- non-vacuity, and the third way to raise: `b = 5` does not fit `[0, 1]` -/
example : (step (run abc [.alias 0 "a" "b"]) (.alias 0 "b" "a")).2 = .err .bpp ∧
    (step (run World.init [.new 0 "", .add 0 ⟨"a", 5, none⟩, .add 0 ⟨"b", 1, some ⟨.fin 0, .fin 1, true, true⟩⟩])
      (.alias 0 "a" "b")).2 = .err .constraint := by decide

/-- **refused leaving everything unchanged, for every kind of refusal**: whatever `aliasParameters(p1, p2)`
raises in a reachable world — `ParameterNotFoundException`, `Exception` (alias twice, cycle) or
`ConstraintException` (a value outside the constraint the parameter would take) — the world afterwards
is exactly the world before. -/
theorem alias_refused_unchanged {w : World} (h : Inv w) {k : Nat} {o : Obj} (ho : w.objs k = some o) (p1 p2 : String)
    (he : (aliasPair w k p1 p2).err ≠ none) : (aliasPair w k p1 p2).w = w :=
  aliasPair_err_unchanged h ho p1 p2 he

/-- the constraint part as found narrowed `p2` and then raised from `p1`: a ∈ [0,10] = 2, b ∈ [5,20] = 6;
`alias(a, b)` raises `ConstraintException` (2 ∉ [5,10]) and left b ∈ [5,10]
(corpus/C03/witness-alias-constraint-partial.txt); the repaired code tests both values first -/
theorem alias_constraint_partial_legacy_witness :
    let w := run World.init [.new 0 "", .add 0 ⟨"a", 2, some ⟨.fin 0, .fin 10, true, true⟩⟩,
      .add 0 ⟨"b", 6, some ⟨.fin 5, .fin 20, true, true⟩⟩]
    (aliasConstraintsL w 0 1).err = some .constraint ∧
    ((aliasConstraintsL w 0 1).w.heap.get 1).con = some ⟨.fin 5, .fin 10, true, true⟩ ∧
    (step w (.alias 0 "a" "b")).2 = .err .constraint ∧
    (((step w (.alias 0 "a" "b")).1).heap.get 1).con = some ⟨.fin 5, .fin 20, true, true⟩ ∧
    mustRefuse "a" "b" (viewOf w |>.get 0 |>.getD default) = false := by decide

/-! ## `setAllParametersValues` -/

/-- **alias_tracks for `setAllParametersValues`**.  The call writes *every* parameter by name, alias
targets included, in the order of the object's parameter list, each write re-entering through the
listeners.  When the source list gives both ends of every link the same value (`SrcCons`; on the view:
`Alias.srcConsistent`) and the call returns, every parameter holds the value the list gives it and every
link is in sync — for every order of the parameters relative to the links, whether or not the links were
in sync before.  Conversely `SrcCons` is necessary for that outcome. -/
theorem alias_tracks_set_all {w : World} (h : Inv w) {k : Nat} {o : Obj} (ho : w.objs k = some o)
    (src : List (String × Rat)) (ok : (apSetAllParametersValues w k src).err = none) :
    (SrcCons w o src → (∀ i ∈ o.params, Agrees src (apSetAllParametersValues w k src).w i) ∧
      AllSynced (apSetAllParametersValues w k src).w o) ∧
    ((∀ i ∈ o.params, Agrees src (apSetAllParametersValues w k src).w i) →
      AllSynced (apSetAllParametersValues w k src).w o → SrcCons w o src) :=
  ⟨fun hc => setAll_consistent (h.obj k o ho) ho hc ok,
   fun hag hsy => setAll_consistent_conv (h.obj k o ho) ho ((update_sameBut w k).2.2.2 src) hag hsy⟩

/-- non-vacuity: c follows b follows a, all different; parameter order c, a, b; a consistent source puts
everything in sync; an inconsistent one (a = 7, b = 2) leaves b different from a: c := 9, then a := 7
propagates 7 to b and c, then b := 2 is written by name and propagates to c -/
example :
    let w := run World.init [.new 0 "", .add 0 ⟨"c", 3, none⟩, .add 0 ⟨"a", 1, none⟩, .add 0 ⟨"b", 2, none⟩,
      .alias 0 "a" "b", .alias 0 "b" "c"]
    let w1 := run w [.setallv 0 [("a", 7), ("b", 7), ("c", 7)]]
    let w2 := run w [.setallv 0 [("a", 7), ("b", 2), ("c", 9)]]
    (val w1 0, val w1 1, val w1 2) = (7, 7, 7) ∧ (val w2 0, val w2 1, val w2 2) = (2, 7, 2) := by decide

/-- **links in sync along histories of updates, all four routes**: starting from any world satisfying
the invariant (e.g. any reachable one), along every history — of any length, on any of the objects — of
`setParameterValue` of independent parameters, `setParametersValues` / `matchParametersValues` naming
independent parameters only and `setAllParametersValues` with a source consistent with the links, none
of which raises, every object whose links were in sync keeps them in sync: each parameter equals the
parameter it follows through a chain of any length (`synced_chain`). -/
theorem updates_history_keeps_sync (ops : List Op) {w : World} (h : Inv w) (hs : SafeRun w ops) {j : Nat} {o : Obj}
    (ho : w.objs j = some o) (hsy : AllSynced w o) : (run w ops).objs j = some o ∧ AllSynced (run w ops) o :=
  safeRun_synced ops h hs j o ho hsy

/-! ## The bulk form after its repair -/

/-- **bulk aliasing performs the links and leaves them in sync** (empty namespace — the one under which
the map's names are the names the pair form takes).  When `aliasParameters(map)` returns normally:
every entry `key -> val` is a wired link whose two ends hold the same value; every link the object had
before is still wired, and is in sync if it was before or if its source changed during the call — so
B = A right after the call for every pair the property speaks about. -/
theorem bulk_links_in_sync {w : World} (h : Inv w) {k : Nat} {o : Obj} (ho : w.objs k = some o) (hpre : o.pre = "")
    (es : List (String × String)) (ok : (bulkAlias w k es).err = none) :
    ∃ o', (bulkAlias w k es).w.objs k = some o' ∧ o'.params = o.params ∧ o'.pre = o.pre ∧
      (∀ e ∈ mkMap es, ∃ s t, Lk (bulkAlias w k es).w o' s t ∧ nameOf w.heap s = e.2 ∧ nameOf w.heap t = e.1 ∧
        val (bulkAlias w k es).w t = val (bulkAlias w k es).w s) ∧
      (∀ s t, Lk w o s t → Lk (bulkAlias w k es).w o' s t ∧
        ((val (bulkAlias w k es).w s ≠ val w s ∨ val w t = val w s) →
          val (bulkAlias w k es).w t = val (bulkAlias w k es).w s)) :=
  bulkAlias_synced h ho hpre es ok

/-- the end of the bulk form as found (`matchParametersValues` of values cloned before the links were
made) left a new alias different from its source: c follows a; the map makes a follow e and d follow c;
a takes 3 — and c with it —, then d was given c's *former* value 2 (corpus/C03/witness-bulk-stale.txt).
The repaired code gives 3. -/
theorem bulk_legacy_stale_witness :
    let w := run World.init [.new 0 "", .add 0 ⟨"a", 0, none⟩, .add 0 ⟨"c", 2, none⟩, .add 0 ⟨"d", 7, none⟩,
      .add 0 ⟨"e", 3, none⟩, .alias 0 "a" "c"]
    let wl := (bulkAliasG false w 0 [("a", "e"), ("d", "c")]).w
    let wr := (bulkAlias w 0 [("a", "e"), ("d", "c")]).w
    (val wl 0, val wl 1, val wl 2, val wl 3) = (3, 3, 2, 3) ∧ (val wr 0, val wr 1, val wr 2, val wr 3) = (3, 3, 3, 3) := by
  decide

/-- **known defect, not repaired** (findings/C03.json `C03-bulk-namespace`, clause `bulk_namespace` of
`Alias.checkKnown`): under a non-empty namespace the bulk form answers `ParameterNotFoundException` to a map
that names only existing parameters — it looks the names up with the namespace and the pair form adds
the namespace again.  Under the empty namespace the same map is linked (`bulk_links_in_sync`). -/
theorem bulk_namespace_witness :
    let w := run World.init [.new 0 "m.", .add 0 ⟨"m.a", 1, none⟩, .add 0 ⟨"m.b", 2, none⟩]
    (step w (.bulk 0 [("m.b", "m.a")])).2 = .err .notfound ∧ (step w (.bulk 0 [("b", "a")])).2 = .err .notfound ∧
    checkKnown (viewOf w) (.bulk 0 [("m.b", "m.a")]) (step w (.bulk 0 [("m.b", "m.a")])).2
      (viewOf (step w (.bulk 0 [("m.b", "m.a")])).1) = some "bulk_namespace" ∧
    (let w0 := run World.init [.new 0 "", .add 0 ⟨"a", 1, none⟩, .add 0 ⟨"b", 2, none⟩]
     (step w0 (.bulk 0 [("b", "a")])).2 = .ok) := by decide

/-- **known defect, not repaired** (findings/C03.json `C03-bulk-refused-partial`, clause
`bulk_refused_unchanged` of `Alias.checkKnown`): the map form refused for a cycle (or a double alias, an
unknown name, a constraint) keeps the links it had already made, and leaves them out of sync:
`{a->b, b->a, c->d}` raises, yet c now follows d with c = 3 ≠ d = 4.  The statement's "refused leaving
everything unchanged" is proved of the pair form only (`alias_refused_unchanged`). -/
theorem bulk_refused_partial_witness :
    let w := run World.init [.new 0 "", .add 0 ⟨"a", 1, none⟩, .add 0 ⟨"b", 2, none⟩, .add 0 ⟨"c", 3, none⟩, .add 0 ⟨"d", 4, none⟩]
    let r := step w (.bulk 0 [("a", "b"), ("b", "a"), ("c", "d")])
    r.2 = .err .bpp ∧ ((viewOf r.1).get 0).map (·.links) = some [("d", "c")] ∧ (val r.1 2, val r.1 3) = (3, 4) ∧
    checkKnown (viewOf w) (.bulk 0 [("a", "b"), ("b", "a"), ("c", "d")]) r.2 (viewOf r.1) = some "bulk_refused_unchanged" := by
  decide

/-! ## `getAlias`, `getAliases`, `getFrom`: what they answer, with and without namespace

The listeners know their source by its name *without* namespace (`from_`) and their target by its
full name (`name_`, `getAlias()`).  Accordingly: `getFrom` takes a full name and answers a short one;
`getAlias` takes a short name and answers full ones; `getAliases` maps full names to short ones.  Under
the empty namespace the two kinds of names coincide. -/

/-- **getAlias_spec**: `getAlias(n)` returns (never running out of stack) exactly the full names of the
parameters that follow — directly or through a chain of any length — the parameter whose name without
namespace is `n` -/
theorem getAlias_answers {w : World} (h : Inv w) {k : Nat} {o : Obj} (ho : w.objs k = some o) (n : String) :
    ∃ l, getAlias (o.reg.length + 1) w o n = .ok l ∧
      ∀ a, a ∈ l ↔ ∃ c p tc tp, Relation.TransGen (Follows w o) c p ∧ o.params[c]? = some tc ∧ o.params[p]? = some tp ∧
        nameOf w.heap tp = o.pre ++ n ∧ nameOf w.heap tc = a :=
  getAlias_spec (h.obj k o ho) ho n

/-- **getAliases_spec**: the keys of `getAliases()` are exactly the full names of the parameters that
follow a parameter, and each is mapped to the name without namespace of one of the parameters it
follows (its direct source or one further up: later listener ids overwrite earlier ones) -/
theorem getAliases_answers {w : World} (h : Inv w) {k : Nat} {o : Obj} (ho : w.objs k = some o) :
    ∃ m, getAliases w o = .ok m ∧
      (∀ a, a ∈ m.map Prod.fst ↔ ∃ e ∈ o.reg, ∃ t, o.params[(w.lis e.2).alias]? = some t ∧ nameOf w.heap t = a) ∧
      (∀ a n, (a, n) ∈ m → ∃ c p tc tp, Relation.TransGen (Follows w o) c p ∧ o.params[c]? = some tc ∧
        o.params[p]? = some tp ∧ nameOf w.heap tp = o.pre ++ n ∧ nameOf w.heap tc = a) :=
  getAliases_spec (h.obj k o ho) ho

/-- **getFrom_spec**: for the full name of a parameter that follows another one, `getFrom` answers the
name without namespace of that one; for every other string — in particular the name without namespace
of an aliased parameter under a non-empty namespace — it answers `""` -/
theorem getFrom_answers {w : World} (h : Inv w) {k : Nat} {o : Obj} (ho : w.objs k = some o) (name : String) :
    (∀ e ∈ o.reg, (w.lis e.2).name = name → getFrom w o name = (w.lis e.2).src) ∧
    ((∀ e ∈ o.reg, (w.lis e.2).name ≠ name) → getFrom w o name = "") :=
  getFrom_full (h.obj k o ho) ho name

/-- non-vacuity under a namespace: c follows b follows a -/
example :
    let w := run World.init [.new 0 "m.", .add 0 ⟨"m.a", 1, none⟩, .add 0 ⟨"m.b", 2, none⟩, .add 0 ⟨"m.c", 3, none⟩,
      .alias 0 "a" "b", .alias 0 "b" "c"]
    (step w (.aliasOf 0 "a")).2 = .strs ["m.b", "m.c"] ∧ (step w (.aliasOf 0 "m.a")).2 = .strs [] ∧
    (step w (.aliases 0)).2 = .pairs [("m.b", "a"), ("m.c", "b")] ∧
    (step w (.from 0 "m.c")).2 = .str "b" ∧ (step w (.from 0 "c")).2 = .str "" := by decide

/-- `getAlias` as found recursed on the *full* name of each alias: under a namespace it stopped after
one link, and when the full name of a parameter is the name without namespace of another one it never
returned (the model runs out of fuel; the library overflowed its stack:
corpus/C03/witness-getalias-namespace.txt).  Here p follows m.q and q follows m.p under "m.". -/
theorem getAlias_legacy_witness :
    let w := run World.init [.new 0 "m.", .add 0 ⟨"m.p", 1, none⟩, .add 0 ⟨"m.q", 2, none⟩, .add 0 ⟨"m.m.p", 3, none⟩,
      .add 0 ⟨"m.m.q", 4, none⟩, .alias 0 "m.q" "p", .alias 0 "m.p" "q"]
    (w.objs 0).map (fun o => getAliasG false (o.reg.length + 1) w o "m.q") = some (.error .hang) ∧
    (w.objs 0).map (fun o => getAlias (o.reg.length + 1) w o "m.q") = some (.ok ["m.p"]) ∧
    (let w' := run World.init [.new 0 "m.", .add 0 ⟨"m.a", 1, none⟩, .add 0 ⟨"m.b", 2, none⟩, .add 0 ⟨"m.c", 3, none⟩,
      .alias 0 "a" "b", .alias 0 "b" "c"]
     (w'.objs 0).map (fun o => getAliasG false (o.reg.length + 1) w' o "a") = some (.ok ["m.b"])) := by decide

/-! ## Chains and constraints (clause "the common value always satisfies the constraints both had")

`values_satisfy_constraints` (Props/C03.lean): no parameter ever holds a value its own constraint — or
any constraint it ever had — rejects; so the common value of `a`, `b`, `c` can never leave `c`'s
constraint.  What the pair form does not do is carry a constraint further up than the direct source:
after `alias(a, b); alias(b, c[0,1])` the parameter `a` stays unconstrained.  A value for `a` outside
`[0,1]` is then accepted by `a` and rejected by `b`: the update *raises* `ConstraintException` with `a`
already written.  The property quantifies over values inside the intersected constraints, which
excludes this update; the model transcribes it (tied), and for values every parameter below accepts the
update returns and `alias_tracks` holds. -/

/-- the partial write: a = 5 is written, b raises, c is untouched -/
theorem chain_constraint_partial_write_witness :
    let w := run World.init [.new 0 "", .add 0 ⟨"a", 0, none⟩, .add 0 ⟨"b", 0, none⟩,
      .add 0 ⟨"c", 0, some ⟨.fin 0, .fin 1, true, true⟩⟩, .alias 0 "a" "b", .alias 0 "b" "c"]
    (step w (.setv 0 "a" 5)).2 = .err .constraint ∧
    (let w' := (step w (.setv 0 "a" 5)).1; (val w' 0, val w' 1, val w' 2) = (5, 0, 0)) ∧
    (let w' := (step w (.setv 0 "a" 1)).1; (val w' 0, val w' 1, val w' 2) = (1, 1, 1)) := by decide

end Bpp.C03
