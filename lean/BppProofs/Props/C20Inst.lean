import BppProofs.Props.C20
import BppProofs.Lemmas.RangeInst
/-!
# C20 — the three instantiations of `Range<T>`: `int`, `unsigned`, `double`

Instance corollaries of the generic theorems of `Props/C20.lean` at `Int`, `UInt32` (arithmetic
modulo 2^32, what `unsigned` does) and `Rat` (exact on the dyadic values generated for `double`),
and the places where the coordinate types differ, each with a witness.
-/
namespace Bpp.C20
open Bpp Bpp.Range Bpp.MultiRange

/-! ## `int`  (`Int`) -/

theorem mr_inv_int (ops : List (Op Int)) : MultiRange.Inv (run ops) :=
  mr_inv ops
theorem mr_denotes_int (ops : List (Op Int)) (hnf : ∀ o ∈ ops, o.isFilter = false) :
    ∀ p, pts (run ops) p ↔ ops.foldl specStep (fun _ => False) p := mr_denotes ops hnf
theorem mr_refines_int (ops : List (Op Int)) :
    ∀ y, y ∈ run ops ↔ ops.foldl specStepK (fun _ => False) y := mr_refines ops
theorem slice_spec_int (x r : Range Int) (hx : x.b ≤ x.e) (hr : r.b ≤ r.e) :
    (x.sliceWith r).b ≤ (x.sliceWith r).e ∧ ∀ p, mem p (x.sliceWith r) ↔ mem p x ∧ mem p r :=
  slice_spec x r hx hr
theorem expand_spec_int (x r : Range Int) (hx : x.b ≤ x.e) (hr : r.b ≤ r.e) :
    (r.b ≤ x.e ∧ x.b ≤ r.e → ∀ p, mem p (x.expandWith r) ↔ mem p x ∨ mem p r) ∧
    (¬ (r.b ≤ x.e ∧ x.b ≤ r.e) → x.expandWith r = x) := ⟨(expand_spec x r hx hr).1, (expand_spec x r hx hr).2.1⟩
theorem range_preds_partial_int (x r : Range Int) (hx : x.b ≤ x.e) (hr : r.b ≤ r.e) : RangePreds x r :=
  range_preds_partial x r hx hr
theorem comparator_consistent_int (x y z : Range Int) (hx : x.b ≤ x.e) (hy : y.b ≤ y.e) (hz : z.b ≤ z.e)
    (hxy : Disj x y) (hyz : Disj y z) (hxz : Disj x z) : StrictWeakAt x y z :=
  comparator_consistent x y z hx hy hz hxy hyz hxz
theorem rangeset_keeps_int (ops : List (Op Int)) : RangeSetKeeps ops := rangeset_keeps ops
theorem shift_length_int (x : Range Int) (v : Int) : ShiftLength x v := shift_length x v

/-- for `int` (and `double`) shifts also preserve order, hence well-formedness and every predicate -/
theorem shift_mono_int (x : Range Int) (v : Int) (hx : x.b ≤ x.e) :
    (x.shift v).b ≤ (x.shift v).e ∧ (x.unshift v).b ≤ (x.unshift v).e ∧
    ∀ p, mem p (x.shift v) ↔ mem (p - v) x := by
  simp only [Range.shift, Range.unshift, mem]
  exact ⟨by omega, by omega, fun p => by omega⟩

theorem length_nonneg_int (a b : Int) : 0 ≤ (Range.make a b).length ∧
    (Range.make a b).length = (a - b).natAbs := by
  simp only [Range.make, Range.length]; omega

/-- **overlap_empty_operand_witness** (known finding): `Range(3,3).overlap(Range(1,5))` and
`Range(1,5).overlap(Range(3,3))` are true although `[3,3[` has no point — the full-strength
`overlap_iff` (empty operands included) is false of the code -/
theorem overlap_empty_operand_witness :
    (⟨3, 3⟩ : Range Int).overlap ⟨1, 5⟩ = true ∧ (⟨1, 5⟩ : Range Int).overlap ⟨3, 3⟩ = true ∧
    (∀ p, ¬ mem p (⟨3, 3⟩ : Range Int)) ∧
    ¬ ((⟨3, 3⟩ : Range Int).overlap ⟨1, 5⟩ = true ↔ ∃ p, mem p (⟨3, 3⟩ : Range Int) ∧ mem p (⟨1, 5⟩ : Range Int)) := by
  have hno : ∀ p, ¬ mem p (⟨3, 3⟩ : Range Int) := by intro p; simp only [mem]; omega
  refine ⟨by decide, by decide, hno, ?_⟩
  intro h
  obtain ⟨p, hp, _⟩ := h.mp (by decide)
  exact hno p hp

/-- **contains_empty_range_witness** (known finding): `Range(1,5).contains(Range(7,7))` is false
although every point of the empty `[7,7[` is a point of `[1,5[` — the full-strength `contains_iff`
(empty argument included) is false of the code -/
theorem contains_empty_range_witness :
    (⟨1, 5⟩ : Range Int).contains ⟨7, 7⟩ = false ∧
    (∀ p, mem p (⟨7, 7⟩ : Range Int) → mem p (⟨1, 5⟩ : Range Int)) := by
  refine ⟨by decide, ?_⟩
  intro p hp; simp only [mem] at hp; omega

/-- outside the property's universe: with a negative coordinate, the `[0,0[` produced by
`sliceWith` and the range `[-2,3[` are each "less" than the other -/
theorem comparator_inconsistent_negative :
    (⟨0, 0⟩ : Range Int).lt ⟨-2, 3⟩ = true ∧ (⟨-2, 3⟩ : Range Int).lt ⟨0, 0⟩ = true := by decide

/-- `operator<` is not an order on arbitrary (overlapping) ranges: `[0,5[` and `[1,3[` are each
"less" than the other — which is why `comparator_consistent` needs disjointness, and why a
`std::set<Range*, rangeComp_>` would be ill-defined (the header declares `rangeComp_` but
`RangeSet` stores a `std::vector` and only `MultiRange::clean_` uses the comparator) -/
theorem lt_not_asymmetric :
    (⟨0, 5⟩ : Range Int).lt ⟨1, 3⟩ = true ∧ (⟨1, 3⟩ : Range Int).lt ⟨0, 5⟩ = true := by decide

def inInt32 (x : Int) : Prop := -(2 : Int) ^ 31 ≤ x ∧ x < (2 : Int) ^ 31

/-- the `size_t` accumulator of `totalLength` holds the exact sum of the lengths (no conversion
of a negative length, no wrap modulo 2^64) on every state satisfying the invariant whose end
points fit the accumulator -/
theorem totalLength_int (m : List (Range Int)) (hm : MultiRange.Inv m) (hB : ∀ x ∈ m, x.e < 2 ^ 63)
    (hL : ∀ x ∈ m, -(2 : Int) ^ 63 ≤ x.b) :
    (MultiRange.totalLength m : Int) = (m.map Range.length).sum := by
  have := fold_acc_exact (α := Int) id m ?_ (by simpa using hm) (by simpa using hB) (by simpa using hL)
  · simpa [MultiRange.totalLength] using this
  · intro tot x _ h0 h1
    simp only [CoordIO.accLen, id] at *
    have h2 : (2:Int) ^ 64 = 18446744073709551616 := by decide
    rw [h2] at h1 ⊢
    omega

/-- end points for which also every difference of two of them fits an `int` -/
def inHalfInt32 (x : Int) : Prop := -(2 : Int) ^ 30 ≤ x ∧ x < (2 : Int) ^ 30

/-- **int_no_overflow**: nothing the collection operations evaluate can overflow when the
arguments lie in `[-2^30, 2^30[` (negative coordinates included): every stored coordinate is an
argument end point or `0`, so it fits; every `length()` (`end_ - begin_`) of a stored range is
positive and fits an `int`; and the `size_t` total is the exact sum and fits too.  (Signed overflow
is undefined behaviour; the `Int` model is faithful exactly where it cannot occur.  Over the whole
`int` range the stored coordinates still fit — `endpoints_closed` — but `length()` need not:
`length_overflow_int`.) -/
theorem int_no_overflow (ops : List (Op Int))
    (hfit : ∀ o ∈ ops, ∀ a ∈ o.args, inHalfInt32 a) :
    (∀ x ∈ run ops, inHalfInt32 x.b ∧ inHalfInt32 x.e ∧ 0 < x.length ∧ inInt32 x.length) ∧
    (MultiRange.totalLength (run ops) : Int) = ((run ops).map Range.length).sum ∧
    (MultiRange.totalLength (run ops) : Int) < 2 ^ 31 := by
  have hinv := mr_inv ops
  have hcl := endpoints_closed inHalfInt32 (by unfold inHalfInt32; omega) ops hfit
  have hB : ∀ x ∈ run ops, x.e < 2 ^ 63 := by
    intro x hx; have := (hcl x hx).2; unfold inHalfInt32 at this; omega
  have hL : ∀ x ∈ run ops, -(2 : Int) ^ 63 ≤ x.b := by
    intro x hx; have := (hcl x hx).1; unfold inHalfInt32 at this; omega
  refine ⟨?_, totalLength_int _ hinv hB hL, ?_⟩
  · intro x hx
    have h1 := hcl x hx
    have h2 := hinv.1 x hx
    unfold inHalfInt32 inInt32 at *
    simp only [Range.length]
    omega
  · rw [totalLength_int _ hinv hB hL]
    have := sum_le_hull (run ops) hinv ((2:Int)^30 - 1) (-(2:Int)^30)
      (fun y hy => by have := (hcl y hy).2; unfold inHalfInt32 at this; omega)
      (fun y hy => by have := (hcl y hy).1; unfold inHalfInt32 at this; omega) (by omega)
    omega

/-- over the whole `int` range `length()` itself can overflow: `[-2^31, 2^31-1[` is a legal
`Range<int>` whose `end_ - begin_` is `2^32 - 1` -/
theorem length_overflow_int :
    inInt32 (Range.make (-(2:Int)^31) (2^31 - 1)).b ∧ inInt32 (Range.make (-(2:Int)^31) (2^31 - 1)).e ∧
    ¬ inInt32 (Range.make (-(2:Int)^31) (2^31 - 1)).length := by
  unfold inInt32; decide

/-! ## `unsigned`  (`UInt32`, arithmetic modulo 2^32) -/

theorem mr_inv_uint (ops : List (Op UInt32)) : MultiRange.Inv (run ops) :=
  mr_inv ops
theorem mr_denotes_uint (ops : List (Op UInt32)) (hnf : ∀ o ∈ ops, o.isFilter = false) :
    ∀ p, pts (run ops) p ↔ ops.foldl specStep (fun _ => False) p :=
  mr_denotes ops hnf
theorem mr_refines_uint (ops : List (Op UInt32)) :
    ∀ y, y ∈ run ops ↔ ops.foldl specStepK (fun _ => False) y := mr_refines ops
theorem slice_spec_uint (x r : Range UInt32) (hx : x.b ≤ x.e) (hr : r.b ≤ r.e) :
    (x.sliceWith r).b ≤ (x.sliceWith r).e ∧ ∀ p, mem p (x.sliceWith r) ↔ mem p x ∧ mem p r :=
  slice_spec x r hx hr
theorem expand_spec_uint (x r : Range UInt32) (hx : x.b ≤ x.e) (hr : r.b ≤ r.e) :
    (r.b ≤ x.e ∧ x.b ≤ r.e → ∀ p, mem p (x.expandWith r) ↔ mem p x ∨ mem p r) ∧
    (¬ (r.b ≤ x.e ∧ x.b ≤ r.e) → x.expandWith r = x) := ⟨(expand_spec x r hx hr).1, (expand_spec x r hx hr).2.1⟩
theorem range_preds_partial_uint (x r : Range UInt32) (hx : x.b ≤ x.e) (hr : r.b ≤ r.e) : RangePreds x r :=
  range_preds_partial x r hx hr
theorem comparator_consistent_uint (x y z : Range UInt32) (hx : x.b ≤ x.e) (hy : y.b ≤ y.e) (hz : z.b ≤ z.e)
    (hxy : Disj x y) (hyz : Disj y z) (hxz : Disj x z) : StrictWeakAt x y z :=
  comparator_consistent x y z hx hy hz hxy hyz hxz
theorem rangeset_keeps_uint (ops : List (Op UInt32)) : RangeSetKeeps ops := rangeset_keeps ops
/-- also when the shift wraps around 2^32 -/
theorem shift_length_uint (x : Range UInt32) (v : UInt32) : ShiftLength x v := shift_length x v

/-- **length_no_wrap_uint**: the subtraction of `length()` cannot wrap on a range built by the
constructor (`begin_ <= end_`), whatever the order of the arguments: it is the distance of the
arguments.  The bare `a - b` of reversed arguments would wrap (`5u - 7u = 4294967294`). -/
theorem length_no_wrap_uint (a b : UInt32) (x : Range UInt32) (hx : x.b ≤ x.e) :
    x.length.toNat = x.e.toNat - x.b.toNat ∧
    (Range.make a b).length.toNat = max a.toNat b.toNat - min a.toNat b.toNat ∧
    ((5 : UInt32) - 7 = 4294967294 ∧ (Range.make (5 : UInt32) 7).length = 2 ∧
     (Range.make (7 : UInt32) 5).length = 2) := by
  refine ⟨UInt32.toNat_sub_of_le _ _ hx, ?_, by decide⟩
  have hw := (make_wf a b)
  rw [Range.length, UInt32.toNat_sub_of_le _ _ hw.1, hw.2.1, hw.2.2.1]
  simp only [MinMaxLaws.min_def, MinMaxLaws.max_def, UInt32.le_iff_toNat_le]
  split <;> omega

/-- **shift_wrap_uint**: where `unsigned` differs.  A shift by a negative amount does not exist:
the caller's `-3` arrives as `2^32 - 3`, and `+= 2^32 - 3` is `-= 3`.  Shifting down below zero
wraps `begin_` only: the result `[2^32-1, 2[` is no longer well formed (`begin_ > end_`), its
`length()` is still 3 (`shift_length_uint`), it is not empty but contains no point, and shifting
back restores the range.  Without wrap-around (`end + v < 2^32`) a shift preserves the order. -/
theorem shift_wrap_uint :
    (∀ (x : Range UInt32) (v : UInt32), x.shift (0 - v) = x.unshift v) ∧
    (Range.make (2 : UInt32) 5).unshift 3 = ⟨4294967295, 2⟩ ∧
    ((Range.make (2 : UInt32) 5).unshift 3).length = 3 ∧
    ((Range.make (2 : UInt32) 5).unshift 3).isEmpty = false ∧
    (∀ p, ¬ mem p ((Range.make (2 : UInt32) 5).unshift 3)) ∧
    ((Range.make (2 : UInt32) 5).unshift 3).shift 3 = Range.make 2 5 ∧
    (∀ (x : Range UInt32) (v : UInt32), x.b ≤ x.e → x.e.toNat + v.toNat < 2 ^ 32 →
      (x.shift v).b ≤ (x.shift v).e ∧ (x.shift v).b.toNat = x.b.toNat + v.toNat ∧
      (x.shift v).e.toNat = x.e.toNat + v.toNat) := by
  refine ⟨?_, by decide, by decide, by decide, ?_, by decide, ?_⟩
  · intro x v; cases x; simp only [Range.shift, Range.unshift, Range.mk.injEq]
    constructor <;> grind
  · intro p
    have : (Range.make (2 : UInt32) 5).unshift 3 = ⟨4294967295, 2⟩ := by decide
    rw [this]; simp only [mem, UInt32.le_iff_toNat_le, UInt32.lt_iff_toNat_lt]
    have : (4294967295 : UInt32).toNat = 4294967295 := by decide
    have : (2 : UInt32).toNat = 2 := by decide
    omega
  · intro x v hx hv
    simp only [Range.shift, UInt32.le_iff_toNat_le, UInt32.toNat_add] at *
    omega

/-- **contains_needs_endpoints_uint**: `contains` compares end points; the "equivalent" offset
form `r.begin_ - begin_ <= length() - r.length()` agrees with it for `int` on well-formed
operands but not for `unsigned`, where `length() - r.length()` wraps when `r` is longer:
`[0,1[` does not contain `[0,4[`, yet `0 - 0 <= 1 - 4 (mod 2^32)`.  (This is the seeded change
C20-b2; the `UInt32` model reproduces the wrap-around.) -/
theorem contains_needs_endpoints_uint :
    (∀ x r : Range Int, x.b ≤ x.e → r.b ≤ r.e →
      (x.contains r = true ↔ (x.b ≤ r.b ∧ r.b - x.b ≤ x.length - r.length))) ∧
    (let x : Range UInt32 := ⟨0, 1⟩; let r : Range UInt32 := ⟨0, 4⟩
     x.contains r = false ∧ (x.b ≤ r.b ∧ r.b - x.b ≤ x.length - r.length)) := by
  refine ⟨?_, by decide⟩
  intro x r hx hr
  rw [contains_eq]; simp only [Range.length]; omega

/-- the embedding of `unsigned` coordinates into the integers -/
def uintToI (x : Range UInt32) : Range Int := ⟨x.b.toNat, x.e.toNat⟩

theorem inv_uintToI (m : List (Range UInt32)) (hm : MultiRange.Inv m) :
    MultiRange.Inv (m.map uintToI) := by
  refine ⟨?_, ?_⟩
  · intro y hy
    simp only [List.mem_map] at hy
    obtain ⟨x, hx, e⟩ := hy
    subst e
    have := hm.1 x hx
    simp only [uintToI, UInt32.lt_iff_toNat_lt] at *
    omega
  · rw [List.pairwise_map]
    apply hm.2.imp
    intro x y h
    simp only [R, uintToI, UInt32.le_iff_toNat_le] at *
    omega

/-- on every reachable state of an `unsigned` multi-range no `length()` wraps, and the `size_t`
total is the exact sum of the distances -/
theorem totalLength_uint (m : List (Range UInt32)) (hm : MultiRange.Inv m) :
    (MultiRange.totalLength m : Int) = ((m.map uintToI).map Range.length).sum := by
  have := fold_acc_exact (α := UInt32) uintToI m ?_ (inv_uintToI m hm) ?_ ?_
  · simpa [MultiRange.totalLength] using this
  · intro tot x _ h0 h1
    have hle : x.b ≤ x.e := by
      simp only [uintToI, Range.length, UInt32.le_iff_toNat_le] at *; omega
    have hl : x.length.toNat = x.e.toNat - x.b.toNat := UInt32.toNat_sub_of_le _ _ hle
    simp only [CoordIO.accLen, hl, uintToI, Range.length, UInt32.le_iff_toNat_le] at *
    have h2 : (2:Int) ^ 64 = 18446744073709551616 := by decide
    rw [h2] at h1
    omega
  · intro x _
    have := x.e.toNat_lt
    simp only [uintToI]
    omega
  · intro x _
    simp only [uintToI]
    omega

/-- **illformed_arg_uint** — the arguments of the collection operations are ranges as the
constructor builds them (`begin_ <= end_`; that is what `Op` feeds).  The public shift operators
can produce an ill-formed `Range<unsigned>` (`shift_wrap_uint`: `[2,5[ - 3 = [2^32-1, 2[`); added to
a multi-range it is stored as it is, and the invariant is lost (`begin_ > end_`, and it is mutually
`<` with `[1,3[`, so even its position depends on the sorting algorithm).  `mr_inv_uint` therefore
speaks of constructor-built arguments only. -/
theorem illformed_arg_uint :
    let bad : Range UInt32 := (Range.make 2 5).unshift 3
    ¬ Arg bad ∧ ¬ MultiRange.Inv (addRange (addRange [] (Range.make 1 3)) bad) ∧
    bad.lt (Range.make 1 3) = true ∧ (Range.make (1 : UInt32) 3).lt bad = true := by
  refine ⟨by unfold Arg; decide, ?_, by decide, by decide⟩
  intro h
  have hmem : (⟨4294967295, 2⟩ : Range UInt32) ∈ addRange (addRange [] (Range.make 1 3)) ((Range.make 2 5).unshift 3) := by
    decide
  have := h.1 _ hmem
  exact absurd this (by decide)

/-! ## `double`  (`Rat`: exact on the values generated; rounding is not modelled) -/

theorem mr_inv_rat (ops : List (Op Rat)) : MultiRange.Inv (run ops) :=
  mr_inv ops
theorem mr_denotes_rat (ops : List (Op Rat)) (hnf : ∀ o ∈ ops, o.isFilter = false) :
    ∀ p, pts (run ops) p ↔ ops.foldl specStep (fun _ => False) p := mr_denotes ops hnf
theorem mr_refines_rat (ops : List (Op Rat)) :
    ∀ y, y ∈ run ops ↔ ops.foldl specStepK (fun _ => False) y := mr_refines ops
theorem slice_spec_rat (x r : Range Rat) (hx : x.b ≤ x.e) (hr : r.b ≤ r.e) :
    (x.sliceWith r).b ≤ (x.sliceWith r).e ∧ ∀ p, mem p (x.sliceWith r) ↔ mem p x ∧ mem p r :=
  slice_spec x r hx hr
theorem expand_spec_rat (x r : Range Rat) (hx : x.b ≤ x.e) (hr : r.b ≤ r.e) :
    (r.b ≤ x.e ∧ x.b ≤ r.e → ∀ p, mem p (x.expandWith r) ↔ mem p x ∨ mem p r) ∧
    (¬ (r.b ≤ x.e ∧ x.b ≤ r.e) → x.expandWith r = x) := ⟨(expand_spec x r hx hr).1, (expand_spec x r hx hr).2.1⟩
theorem range_preds_partial_rat (x r : Range Rat) (hx : x.b ≤ x.e) (hr : r.b ≤ r.e) : RangePreds x r :=
  range_preds_partial x r hx hr
theorem comparator_consistent_rat (x y z : Range Rat) (hx : x.b ≤ x.e) (hy : y.b ≤ y.e) (hz : z.b ≤ z.e)
    (hxy : Disj x y) (hyz : Disj y z) (hxz : Disj x z) : StrictWeakAt x y z :=
  comparator_consistent x y z hx hy hz hxy hyz hxz
theorem rangeset_keeps_rat (ops : List (Op Rat)) : RangeSetKeeps ops := rangeset_keeps ops
theorem shift_length_rat (x : Range Rat) (v : Rat) : ShiftLength x v := shift_length x v

theorem shift_mono_rat (x : Range Rat) (v : Rat) (hx : x.b ≤ x.e) :
    (x.shift v).b ≤ (x.shift v).e ∧ (x.unshift v).b ≤ (x.unshift v).e := by
  simp only [Range.shift, Range.unshift]; constructor <;> grind

/-- the integer range a `double` range with integral end points stands for -/
def ratToI (x : Range Rat) : Range Int := ⟨x.b.floor, x.e.floor⟩
def Integral (x : Range Rat) : Prop := x.b = (x.b.floor : Rat) ∧ x.e = (x.e.floor : Rat)

/-- **totalLength_rat**: with integral end points (the property's universe) the `size_t`
accumulator of `MultiRange<double>::totalLength` — which truncates after every addition — holds
the exact sum of the lengths -/
theorem totalLength_rat (m : List (Range Rat)) (hm : MultiRange.Inv m) (hint : ∀ x ∈ m, Integral x)
    (hB : ∀ x ∈ m, x.e.floor < 2 ^ 63) (hL : ∀ x ∈ m, -(2 : Int) ^ 63 ≤ x.b.floor) :
    (MultiRange.totalLength m : Int) = ((m.map ratToI).map Range.length).sum := by
  have hcast : ∀ a b : Int, ((a : Rat) ≤ b ↔ a ≤ b) ∧ ((a : Rat) < b ↔ a < b) := by
    intro a b; exact ⟨Rat.intCast_le_intCast, Rat.intCast_lt_intCast⟩
  have := fold_acc_exact (α := Rat) ratToI m ?_ ?_ ?_ ?_
  · simpa [MultiRange.totalLength] using this
  · intro tot x hx h0 h1
    obtain ⟨hb, he⟩ := hint x hx
    simp only [CoordIO.accLen, Range.length, ratToI] at *
    have hlen : x.e - x.b = ((x.e.floor - x.b.floor : Int) : Rat) := by
      rw [Rat.intCast_sub, ← hb, ← he]
    rw [hlen, ← Rat.intCast_natCast, ← Rat.intCast_add, Rat.floor_intCast]
    omega
  · refine ⟨?_, ?_⟩
    · intro y hy
      simp only [List.mem_map] at hy
      obtain ⟨x, hx, e⟩ := hy
      subst e
      obtain ⟨hb, he⟩ := hint x hx
      have h1 := hm.1 x hx
      rw [hb, he] at h1
      rw [(hcast _ _).2] at h1
      exact h1
    · rw [List.pairwise_map]
      apply List.Pairwise.imp_of_mem _ hm.2
      intro x y hx hy h
      have h1 := (hint x hx).2
      have h2 := (hint y hy).1
      simp only [R, ratToI] at *
      rw [h1, h2, (hcast _ _).1] at h
      exact h
  · intro x hx
    exact hB x hx
  · intro x hx
    exact hL x hx

/-- **totalLength_truncates_rat** — outside the property's integer universe: with non-integral
`double` coordinates the `size_t` accumulator truncates after every addition, so two disjoint
ranges of length 1/2 have total length 0, not 1 (`tot += 0.5` twice) -/
theorem totalLength_truncates_rat :
    MultiRange.Inv [(⟨0, 1/2⟩ : Range Rat), ⟨1, 3/2⟩] ∧
    MultiRange.totalLength [(⟨0, 1/2⟩ : Range Rat), ⟨1, 3/2⟩] = 0 ∧
    MultiRange.totalLength [(⟨0, 3/2⟩ : Range Rat), ⟨2, 7/2⟩] = 2 := by
  refine ⟨⟨?_, ?_⟩, by decide +kernel, by decide +kernel⟩
  · intro x hx; simp at hx; rcases hx with h | h <;> subst h <;> decide +kernel
  · simp only [List.pairwise_cons, List.mem_singleton, forall_eq, R, List.not_mem_nil, false_imp_iff,
      implies_true, List.Pairwise.nil, and_true]
    decide +kernel

/-! ## non-vacuity: concrete states meeting the hypotheses -/

example : MultiRange.Inv [(⟨1, 3⟩ : Range Int), ⟨3, 5⟩, ⟨7, 9⟩] ∧ Arg (Range.make (8:Int) 2) := by
  refine ⟨⟨by intro x hx; simp at hx; rcases hx with h | h | h <;> subst h <;> decide, ?_⟩, by unfold Arg; decide⟩
  simp [R]
example : run [Op.add (1:Int) 5, .add 7 9, .add 4 8, .restrict 2 3] = [⟨2, 3⟩] := by decide
example : run [Op.add (1:UInt32) 5, .add 7 9, .add 9 12, .filter 6 20, .restrict 8 30] = [⟨8, 9⟩, ⟨9, 12⟩] := by decide
example : run [Op.add (1/2:Rat) 5, .add 7 9, .add 4 8, .restrict 2 (5/2)] = [⟨2, 5/2⟩] := by decide +kernel
example : Disj (⟨0, 0⟩ : Range Int) ⟨0, 3⟩ ∧ Disj (⟨0, 3⟩ : Range Int) ⟨5, 6⟩ ∧ Disj (⟨0, 0⟩ : Range Int) ⟨5, 6⟩ := by
  unfold Disj; decide
example : inInt32 3 ∧ inHalfInt32 (-7) := by unfold inInt32 inHalfInt32; decide
example : Integral ⟨2, 5⟩ := by unfold Integral; decide +kernel
-- hypotheses of the history theorems: admissible operations exist at every coordinate type
example : ∀ a ∈ (Op.add (-3 : Int) 24).args, inHalfInt32 a := by
  intro a ha; simp [Op.args] at ha; rcases ha with h | h <;> subst h <;> (unfold inHalfInt32; decide)
-- negative coordinates: the history of the crash probe (restriction to a window straddling 0)
example : run [Op.add (-5 : Int) (-3), .add (-1) 1, .add 4 6, .restrict (-1) 1] = [⟨-1, 1⟩] := by decide
-- hypotheses of `comparator_consistent`: three well-formed pairwise disjoint ranges, one of them empty
example : Disj (⟨0, 0⟩ : Range UInt32) ⟨2, 3⟩ ∧ Disj (⟨2, 3⟩ : Range UInt32) ⟨3, 6⟩ ∧ Disj (⟨0, 0⟩ : Range UInt32) ⟨3, 6⟩ := by
  unfold Disj; decide
-- a filter history whose point set is not a function of the previous point set: touching ranges
example : run [Op.add (1:Int) 3, .add 3 5, .filter 0 4] = [⟨1, 3⟩] ∧ run [Op.add (1:Int) 5, .filter 0 4] = [] := by
  decide
-- the invariant and the total length at the three types
example : MultiRange.Inv [(⟨1, 3⟩ : Range UInt32), ⟨3, 5⟩] ∧ MultiRange.totalLength [(⟨1, 3⟩ : Range UInt32), ⟨3, 5⟩] = 4 := by
  refine ⟨⟨by intro x hx; simp at hx; rcases hx with h | h <;> subst h <;> decide, by simp [R]⟩, by decide⟩

end Bpp.C20
