import BppProofs.Lemmas.NumFmtArith
import BppProofs.Props.C17
/-!
# C17 — "numbers formatted with sufficient precision parse back to the same value"

Model: `BppModel/Text/NumFmt.lean` — `TextTools::toString(double, precision)`
(src/Bpp/Text/TextTools.h:127-133: `ostringstream << setprecision(precision) << d`, the `%.{P}g`
conversion) on the exact value of the double (sign, |d| as a rational), for **every** finite double
and every precision: rounding to `P = max(precision,1)` significant digits (ties to even), fixed
notation for `-4 ≤ X < P`, scientific otherwise, trailing zeros dropped.  The driver compares the
model's text with the implementation's for doubles sampled by bit pattern, short decimals, dyadic
values, powers of ten and rounding ties, at every precision 0..20.
The reader is `toDouble` of `Number.lean`, whose value is the rational the numeral denotes (libc's
final decimal→binary rounding is not modelled).
-/
namespace Bpp.C17
open Bpp.Text Bpp.Text.Number Bpp.Text.NumFmt

/-- the text is a numeral of the strict decimal grammar, for every number and precision -/
theorem toString_in_grammar (prec : Nat) (neg : Bool) (a : Rat) :
    Decimal '.' 'e' (toStringPrec prec neg a) :=
  ⟨fmtParts prec neg a, fmtParts_wf prec neg a, rfl⟩

/-- **what `toDouble` makes of `toString(d, precision)`**: the rounding of `d` to `precision`
significant decimal digits, `±N·10^(X-P+1)` -/
theorem toString_parses_to_rounded (prec : Nat) (neg : Bool) (a : Rat) (ha : 0 ≤ a) :
    toDouble '.' 'e' (toStringPrec prec neg a) = some (roundedValue prec neg a) := by
  unfold toStringPrec
  rw [toDouble_value sane_default.1 _ (fmtParts_wf prec neg a), fmtParts_value prec neg a (digitsOk_always prec a ha)]

/-- **the round trip is exact** for every number with at most `precision` significant decimal
digits (`fitsPrec`, decidable) -/
theorem toString_roundtrip (prec : Nat) (neg : Bool) (a : Rat) (ha : 0 ≤ a) (hfit : fitsPrec prec a = true) :
    toDouble '.' 'e' (toStringPrec prec neg a) = some (if neg then -a else a) := by
  rw [toString_parses_to_rounded prec neg a ha, roundedValue_exact prec neg a ha hfit]

/-- non-vacuity: 1 fits 6 digits (`#eval`: `fitsPrec 6 (2469/2)`, `fitsPrec 4 (1/16)`,
`fitsPrec 17 (3/1048576)` are true, `fitsPrec 17` of the double nearest 0.1 is false;
`toStringPrec 6 true (2469/2) = "-1234.5"`, `toStringPrec 6 false (1/1048576) = "9.53674e-07"`,
`toStringPrec 3 false 123456 = "1.23e+05"`, `toStringPrec 2 false (1999/2) = "1e+03"` — the kernel
cannot evaluate them by `decide`: `natDigits` is a well-founded recursion, and the driver compares
them with the implementation on every run) -/
example : fitsPrec 6 1 = true := by
  unfold fitsPrec
  rw [decExp_one]
  simp [pow10]

/-- **sufficient precision**: the relative error of write-then-read is at most half a unit of the
`P`-th digit, `|read (write d) − d| ≤ |d| / (2·10^(P-1))`, for `d = ±a` of either sign. -/
theorem toString_relative_error (prec : Nat) (neg : Bool) (a : Rat) (ha : 0 < a) :
    ∃ v, toDouble '.' 'e' (toStringPrec prec neg a) = some v ∧
      |v - (if neg then -a else a)| ≤ a / (2 * (10 : ℚ) ^ ((if prec = 0 then 1 else prec) - 1)) :=
  ⟨_, toString_parses_to_rounded prec neg a (le_of_lt ha), roundedValue_error_signed prec neg a ha⟩

/-- 17 digits: the error bound is below a quarter of `2⁻⁵²·|d|` (`10¹⁶ > 2⁵³`) -/
theorem seventeen_digits_suffice (a : Rat) (ha : 0 < a) :
    a / (2 * (10 : ℚ) ^ (17 - 1)) < a / 2 ^ 53 / 2 := by
  rw [div_div, div_lt_div_iff_of_pos_left ha (by positivity) (by positivity)]
  norm_num

/-- **`toString(d, 17)` then `toDouble`**: the value read is within `2⁻⁵⁴·|d|` of `d`, strictly.
The doubles next to a normal `d` are at distance at least `2⁻⁵³·|d|` (`2⁻⁵⁴·|d|`·2; half of that
when `d` is a power of two, below it), so `d` is the only double within that distance and the
correctly rounded conversion of the value read gives `d` back.  THAT LAST STEP IS NOT A THEOREM HERE:
the set of doubles and rounding to nearest are not modelled (strtod is libc's); the driver checks it
on the implementation for every sampled double (clause `double_roundtrip`).
FULL statement (not proved): `∀ finite double d, strtod (toString (d, 17)) = d`. -/
theorem toString17_within_quarter_ulp_partial (neg : Bool) (a : Rat) (ha : 0 < a) :
    ∃ v, toDouble '.' 'e' (toStringPrec 17 neg a) = some v ∧
      |v - (if neg then -a else a)| < a / 2 ^ 53 / 2 := by
  obtain ⟨v, hv, hb⟩ := toString_relative_error 17 neg a ha
  refine ⟨v, hv, lt_of_le_of_lt ?_ (seventeen_digits_suffice a ha)⟩
  simpa using hb

example : (0 : ℚ) < 3602879701896397 / 36028797018963968 := by norm_num

end Bpp.C17
