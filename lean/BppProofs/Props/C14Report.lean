import BppProofs.Lemmas.ObserverReport
import BppProofs.Props.C14Copy
/-!
# C14 — the association layer reports end points and linking edge correctly; who deletes, forgets

Audit round 1: `edgeEnds_unfold` / `edgeLinking_unfold` (`Props/C14Observer.lean`) only unfold the
model's definitions.  Here the clause is stated for what it has to say, in a world in order
(`WInv`, i.e. every reachable world: `assoc_bijective_ext`): the queries are *total* on live
objects, the ids they go through are *live*, they *agree with the graph's* `getNodes` / `getEdge`,
and the objects they return are exactly the objects associated to those ids.
-/
namespace Bpp.C14
open Bpp Bpp.Graph Bpp.AL

/-- **endpoints_reported**: for an edge object `x` of observer `o` (associated to edge `e`),
`getNodes(x)` does not raise; the graph has edge `e` with end points `a`, `b`, both nodes of the graph,
`e` is the relation `a → b` of the node table; the answer is the pair of look-ups of `a` and `b`;
and such a look-up returns `A` exactly when `A` is the object associated to that node.  An unknown
edge object raises. -/
theorem endpoints_reported (w : World) (hw : WInv w) (k : Nat) (o : Obs) (hk : w.getObs k = some o) (x : Obj) :
    (∀ e, find x o.Eg = some e →
      ∃ a b, w.g.getNodes e = some (a, b) ∧ w.g.hasNode a = true ∧ w.g.hasNode b = true ∧ w.g.getEdge a b = some e ∧
        World.edgeEnds w o x = some (o.nodeFromGid a, o.nodeFromGid b) ∧
        (∀ A, o.nodeFromGid a = some A ↔ find A o.Ng = some a) ∧ (∀ B, o.nodeFromGid b = some B ↔ find B o.Ng = some b)) ∧
    (find x o.Eg = none → World.edgeEnds w o x = none) := by
  have hi := hw.obs k o hk
  constructor
  · intro e hx
    have hl := hi.e_live x e hx
    simp only [G.hasEdge, has] at hl
    rcases G.find_cases e w.g.edges with hf | ⟨⟨a, b⟩, hf⟩
    · simp [hf] at hl
    · have hv := hw.graph.views.edge_listed e a b hf
      exact ⟨a, b, hf, G.outE_some_hasNode hv.1, G.inE_some_hasNode hv.2.1, hv.1,
        by simp [World.edgeEnds, hx, G.getNodes, hf], fun A => nodeFromGid_iff hi a A, fun B => nodeFromGid_iff hi b B⟩
  · intro hx; simp [World.edgeEnds, hx]

/-- **linking_edge_reported**: for two node objects `a`, `b` of observer `o` (nodes `ia`, `ib`),
`getEdgeLinking(a, b)` raises exactly when the graph has no relation `ia → ib`; otherwise the graph's
edge `e = getEdge(ia, ib)` is live, its end points are `ia`, `ib` (in that order when directed), the
answer is the look-up of `e`, which returns `X` exactly when `X` is the object associated to `e` —
and then `getNodes(X)` are `a` and `b` again -/
theorem linking_edge_reported (w : World) (hw : WInv w) (k : Nat) (o : Obs) (hk : w.getObs k = some o)
    (a b : Obj) (ia ib : Nat) (ha : find a o.Ng = some ia) (hb : find b o.Ng = some ib) :
    (World.edgeLinking w o a b = none ↔ w.g.getEdge ia ib = none) ∧
    (∀ e, w.g.getEdge ia ib = some e →
      w.g.hasEdge e = true ∧
      (w.g.getNodes e = some (ia, ib) ∨ (w.g.directed = false ∧ w.g.getNodes e = some (ib, ia))) ∧
      World.edgeLinking w o a b = some (o.edgeFromGid e) ∧
      (∀ X, o.edgeFromGid e = some X ↔ find X o.Eg = some e) ∧
      (∀ X, o.edgeFromGid e = some X →
        World.edgeEnds w o X = some (some a, some b) ∨ (w.g.directed = false ∧ World.edgeEnds w o X = some (some b, some a)))) := by
  have hi := hw.obs k o hk
  have hA : o.nodeFromGid ia = some a := (nodeFromGid_iff hi ia a).mpr ha
  have hB : o.nodeFromGid ib = some b := (nodeFromGid_iff hi ib b).mpr hb
  constructor
  · simp only [World.edgeLinking, ha, hb]
    cases w.g.getEdge ia ib <;> simp
  · intro e he
    have hoe := hw.graph.views.out_edge ia ib e he
    have hnodes : w.g.getNodes e = some (ia, ib) ∨ (w.g.directed = false ∧ w.g.getNodes e = some (ib, ia)) := hoe
    have hlive : w.g.hasEdge e = true := by
      unfold G.hasEdge has
      rcases hoe with h | ⟨_, h⟩ <;> simp [h]
    refine ⟨hlive, hnodes, by simp [World.edgeLinking, ha, hb, he], fun X => edgeFromGid_iff hi e X, ?_⟩
    intro X hX
    have hx := (edgeFromGid_iff hi e X).mp hX
    rcases hnodes with h | ⟨hd, h⟩
    · left; simp [World.edgeEnds, hx, h, hA, hB]
    · right; exact ⟨hd, by simp [World.edgeEnds, hx, h, hA, hB]⟩

/-- … after every history (operations through any observer or directly on the graph, copies, …) -/
theorem endpoints_reported_inv (d : Bool) (ops : List WOpX) (k : Nat) (o : Obs)
    (hk : ((World.init d).runX ops).getObs k = some o) (x : Obj) (e : Nat) (hx : find x o.Eg = some e) :
    ∃ a b, ((World.init d).runX ops).g.getNodes e = some (a, b) ∧
      World.edgeEnds ((World.init d).runX ops) o x = some (o.nodeFromGid a, o.nodeFromGid b) :=
  let ⟨a, b, h1, _, _, _, h5, _⟩ := (endpoints_reported _ (assoc_bijective_ext d ops) k o hk x).1 e hx
  ⟨a, b, h1, h5⟩

/-- non-vacuity: `o.link 0 1 (edge object 5)` on a directed graph: `getNodes(5) = (0, 1)`,
`getEdgeLinking(0, 1) = 5`, `getEdgeLinking(1, 0)` raises -/
example :
    World.edgeEnds ((World.init true).run [.createNode 0 0, .createNode 0 1, .link 0 0 1 (some 5)])
      { gN := [some 0, some 1], gE := [some 5], Ng := [(0, 0), (1, 1)], Eg := [(5, 0)] } 5 = some (some 0, some 1) ∧
    World.edgeLinking ((World.init true).run [.createNode 0 0, .createNode 0 1, .link 0 0 1 (some 5)])
      { gN := [some 0, some 1], gE := [some 5], Ng := [(0, 0), (1, 1)], Eg := [(5, 0)] } 0 1 = some (some 5) ∧
    World.edgeLinking ((World.init true).run [.createNode 0 0, .createNode 0 1, .link 0 0 1 (some 5)])
      { gN := [some 0, some 1], gE := [some 5], Ng := [(0, 0), (1, 1)], Eg := [(5, 0)] } 1 0 = none := by decide

/-! ## deleted items are forgotten: the observer's own `deleteNode(Nref)`, and graph `operator=` -/

/-- **observer_deleteNode_forgets**: `deleteNode(a)` through observer `j` — the ordinary way an item
is deleted through the association layer.  Every observer `k` of the graph (the deleting one and its
copies) afterwards holds the object of the deleted node, and the objects of the edges removed with
it, in none of its four maps: object→id, id→object, object→index, index→object -/
theorem observer_deleteNode_forgets (w : World) (hw : WInv w) (j a : Nat) (k : Nat) (o : Obs) (hk : w.getObs k = some o) :
    ∃ o', ((w.deleteNode j a).world w).getObs k = some o' ∧ ForgotDead ((w.deleteNode j a).world w).g o o' := by
  have same : ∃ o', w.getObs k = some o' ∧ ForgotDead w.g o o' :=
    ⟨o, hk, forgotDead_of_shrunk (Shrunk.refl o) (hw.obs k o hk)⟩
  unfold World.deleteNode
  rcases hj : w.getObs j with _ | oj
  · exact same
  · simp only
    rcases ha : find a oj.Ng with _ | id
    · exact same
    · simp only
      have hn := G.deleteNode_notified hw.graph id
      have hlive : w.g.hasNode id = true := (hw.obs j oj hj).n_live a id ha
      obtain ⟨g', hr, _, hdel⟩ := G.deleteNode_spec hw.graph hlive
      rw [hr] at hn ⊢
      simp only [GOut.state] at hn
      obtain ⟨o', h1, h2⟩ := deliver_forgets hw hn k o hk
      obtain ⟨oj', hj1, hj2⟩ := deliver_forgets hw hn j oj hj
      -- the deleting observer has forgotten `a` when told: the fallback `dissociateNode` is not taken
      have hgone : g'.hasNode id = false := by rw [hdel.hasNode]; simp
      have hnone : oj'.hasNode a = false := by
        have := ((hj2.1 a id ha hgone).1).1
        simp [Obs.hasNode, has, this]
      simp only [hj1, hnone, Bool.false_eq_true, if_false]
      exact ⟨o', h1, h2⟩

/-- **graphAssign_forgets**: another graph is assigned to the observed graph (`GlobalGraph::operator=`):
every observer holds the objects of the former nodes and edges that are not in the new content in
none of its maps -/
theorem graphAssign_forgets (w : World) (hw : WInv w) (h : G) (k : Nat) (o : Obs) (hk : w.getObs k = some o) :
    ∃ o', (w.graphAssign h).getObs k = some o' ∧ ForgotDead (w.graphAssign h).g o o' := by
  unfold World.graphAssign
  have hn : Notified w.g { h with pending := w.g.pending ++ [.edges w.g.allEdges, .nodes w.g.allNodes] } := by
    refine ⟨[.edges w.g.allEdges, .nodes w.g.allNodes], rfl, ?_, ?_⟩
    · intro n hn _
      simp only [notifiedNodes, List.flatMap_cons, List.flatMap_nil, List.append_nil, List.nil_append]
      exact mem_keys_of_has hn
    · intro e he _
      simp only [notifiedEdges, List.flatMap_cons, List.flatMap_nil, List.append_nil]
      exact mem_keys_of_has he
  obtain ⟨o', h1, h2⟩ := deliver_forgets hw hn k o hk
  exact ⟨o', h1, ⟨fun a n ha hd => h2.1 a n ha hd, fun x e hx hd => h2.2 x e hx hd⟩⟩

/-- non-vacuity: node object 7 with an index, an edge object 5 with an index on an edge of that node;
`deleteNode(7)` through the observer: all eight maps are empty of them -/
example :
    ((World.init true).run [.createNode 0 7, .createNode 0 8, .link 0 8 7 (some 5), .addNodeIndex 0 7, .addEdgeIndex 0 5,
      .deleteNode 0 7]).getObs 0 =
      some { gN := [none, some 8], gE := [none], Ng := [(8, 1)], Eg := [], iN := [none], iE := [none], Ni := [], Ei := [] } := by
  decide

/-! ## smaller companions asked for by the audit -/

/-- `getLeavesFromNode` agrees with the reference multigraph (same traversal, on rows recomputed
from the edge triples) -/
theorem leavesFrom_agree (g : G) (hc : Consistent g) (n d : Nat) : g.leavesFromNode n d = g.abs.leavesFromNode n d := by
  unfold G.leavesFromNode Spec.leavesFromNode
  have : g.neighbors = g.abs.neighbors := by
    funext m; unfold G.neighbors Spec.neighbors; rw [(queries_agree g hc).1 m]; rfl
  rw [this]

/-- `containsReciprocalRelations` agrees with the reference: two different edges between the same
unordered pair of nodes -/
theorem reciprocal_agree (g : G) (hc : Consistent g) (hd : g.directed = true) :
    g.containsReciprocal = some g.abs.reciprocal := by
  unfold G.containsReciprocal
  simp [hd, G.abs_reciprocal hc hd]

/-- the copy constructor / `clone()` / `operator=` are *defined* on every observer in order: no id or
index beyond the vectors written with `operator[]` -/
theorem copyDefined_of_inv (g : G) (o : Obs) (hi : OInv g o) : World.copyDefined o = true := by
  unfold World.copyDefined
  simp only [Bool.and_eq_true, List.all_eq_true, decide_eq_true_eq]
  refine ⟨⟨⟨?_, ?_⟩, ?_⟩, ?_⟩
  · intro p hp
    exact Vec.get_eq_some_lt (hi.nodes.bwd _ _ ((mem_iff_find hi.nodes.asc p.1 p.2).mp hp))
  · intro p hp
    exact Vec.get_eq_some_lt (hi.edges.bwd _ _ ((mem_iff_find hi.edges.asc p.1 p.2).mp hp))
  · intro p _
    cases h : find p.1 o.Ni with
    | none => simp
    | some i => simp; exact Vec.get_eq_some_lt (hi.nidx.bwd _ _ h)
  · intro p _
    cases h : find p.1 o.Ei with
    | none => simp
    | some i => simp; exact Vec.get_eq_some_lt (hi.eidx.bwd _ _ h)

/-- … so after any history a copy of a live observer into another slot is made (never the `ub` outcome) -/
theorem copy_defined_inv (d : Bool) (ops : List WOpX) (j k : Nat) (o : Obs) (hjk : j ≠ k)
    (hj : ((World.init d).runX ops).getObs j = some o) :
    ((World.init d).runX ops).copy j k = .ok () (((World.init d).runX ops).setObs k (World.copyObs o)) := by
  have hi := (assoc_bijective_ext d ops).obs j o hj
  unfold World.copy
  simp [hj, hjk, copyDefined_of_inv _ o hi]

end Bpp.C14
