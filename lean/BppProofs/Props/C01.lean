import BppProofs.Lemmas.Interval
import BppProofs.Lemmas.Param
/-!
# C01 — a constrained parameter never holds a value its constraint rejects
(src/Bpp/Numeric/Constraints.h, Parameter.{h,cpp}, AutoParameter.cpp)

Property theorems only; helper lemmas are in `Lemmas/Interval.lean`, `Lemmas/Param.lean`.
The model (`BppModel/Interval.lean`, `BppModel/Param.lean`) is generic over `Scalar`; the
theorems are about its interpretation at `ℝ`.  A C++ `double` that may be infinite is a
`Bound ℝ` (extended real, `Bound.toEReal`); NaN is not modelled.  `Interval.denote c` is the set
of extended reals between the bounds of `c`, an end point belonging to it iff its flag says so.

The theorems are about the *repaired* code; `legacy_*_witness` show that each statement was
false of the code as found (the defects are listed in findings/C01.json).
-/
namespace Bpp.C01
open Bpp Bpp.Interval Bpp.Param

/-! ## IntervalConstraint: membership -/

/-- `isCorrect` accepts exactly the doubles (infinite ones included) in the denoted set -/
theorem isCorrectB_iff (c : Interval ℝ) (v : Bound ℝ) : c.isCorrectB v = true ↔ v.toEReal ∈ c.denote :=
  isCorrectB_iff_mem c v

/-- `isCorrect` accepts exactly the reals between the bounds, honouring open/closed ends
(all bound / flag combinations, infinite bounds included) -/
theorem isCorrect_iff (c : Interval ℝ) (v : ℝ) : c.isCorrect v = true ↔ (v : EReal) ∈ c.denote :=
  isCorrectB_iff_mem c (.fin v)

/-- the same, spelled out without sets -/
theorem isCorrect_iff_bounds (c : Interval ℝ) (v : ℝ) :
    c.isCorrect v = true ↔
      (if c.inclLo then c.lo.toEReal ≤ v else c.lo.toEReal < v) ∧
      (if c.inclHi then (v : EReal) ≤ c.hi.toEReal else (v : EReal) < c.hi.toEReal) := by
  rw [isCorrect_iff, mem_denote]

/-- the four shapes -/
theorem isCorrect_closed (a b p v : ℝ) : (Interval.make (.fin a) (.fin b) true true p).isCorrect v = true ↔ a ≤ v ∧ v ≤ b := by
  rw [isCorrect_iff_bounds]; simp [Interval.make]
theorem isCorrect_open (a b p v : ℝ) : (Interval.make (.fin a) (.fin b) false false p).isCorrect v = true ↔ a < v ∧ v < b := by
  rw [isCorrect_iff_bounds]; simp [Interval.make]
theorem isCorrect_halfLine_pos (a p v : ℝ) (incl : Bool) :
    (Interval.halfLine true (.fin a) incl p).isCorrect v = true ↔ (if incl then a ≤ v else a < v) := by
  rw [isCorrect_iff_bounds]; cases incl <;> simp [Interval.halfLine, EReal.coe_lt_top]
theorem isCorrect_halfLine_neg (b p v : ℝ) (incl : Bool) :
    (Interval.halfLine false (.fin b) incl p).isCorrect v = true ↔ (if incl then v ≤ b else v < b) := by
  rw [isCorrect_iff_bounds]; cases incl <;> simp [Interval.halfLine, EReal.bot_lt_coe]
/-- the default interval accepts every real -/
theorem isCorrect_default (v : ℝ) : (Interval.default : Interval ℝ).isCorrect v = true := by
  rw [isCorrect_iff_bounds]; simp [Interval.default]

/-- the driver's independent formulation of membership is the same set -/
theorem memSpec_iff (c : Interval ℝ) (v : Bound ℝ) : c.memSpec v = true ↔ v.toEReal ∈ c.denote :=
  memSpec_iff_mem c v

/-- `includes(min, max)`: both ends lie inside, hence (for `min ≤ max`) the whole segment -/
theorem includes_iff (c : Interval ℝ) (mn mx : Bound ℝ) (h : mn.toEReal ≤ mx.toEReal) :
    c.includes mn mx = true ↔ Set.Icc mn.toEReal mx.toEReal ⊆ c.denote := by
  have key : c.includes mn mx = true ↔
      (if c.inclLo then c.lo.toEReal ≤ mn.toEReal else c.lo.toEReal < mn.toEReal) ∧
      (if c.inclHi then mx.toEReal ≤ c.hi.toEReal else mx.toEReal < c.hi.toEReal) := by
    unfold includes
    cases c.inclLo <;> cases c.inclHi <;>
      simp [Bound.geb_iff, Bound.gtb_iff, Bound.leb_iff, Bound.ltb_iff]
  rw [key]
  constructor
  · rintro ⟨h1, h2⟩ x ⟨hx1, hx2⟩
    rw [mem_denote]
    refine ⟨?_, ?_⟩
    · split_ifs at h1 ⊢ <;> order
    · split_ifs at h2 ⊢ <;> order
  · intro hs
    have a := (mem_denote c _).1 (hs ⟨le_refl _, h⟩)
    have b := (mem_denote c _).1 (hs ⟨h, le_refl _⟩)
    exact ⟨a.1, b.2⟩

/-! ## intersection -/

/-- the intersection denotes the intersection: it accepts exactly the values both accept -/
theorem inter_denote (c d : Interval ℝ) : (c.inter d).denote = c.denote ∩ d.denote := by
  ext x
  rw [Set.mem_inter_iff, mem_denote, mem_denote, mem_denote]
  exact Iff.trans (and_congr (interLo_spec c d x) (interHi_spec c d x)) (by tauto)

theorem inter_iff (c d : Interval ℝ) (v : ℝ) :
    (c.inter d).isCorrect v = true ↔ (c.isCorrect v = true ∧ d.isCorrect v = true) := by
  simp only [isCorrect_iff, inter_denote, Set.mem_inter_iff]

theorem inter_iff_ext (c d : Interval ℝ) (v : Bound ℝ) :
    (c.inter d).isCorrectB v = true ↔ (c.isCorrectB v = true ∧ d.isCorrectB v = true) := by
  simp only [isCorrectB_iff, inter_denote, Set.mem_inter_iff]

/-- `operator&=` computes the same interval as `operator&` -/
theorem interAssign_eq (c d : Interval ℝ) : c.interAssign d = c.inter d := interAssign_eq_inter c d

theorem interAssign_iff (c d : Interval ℝ) (v : ℝ) :
    (c.interAssign d).isCorrect v = true ↔ (c.isCorrect v = true ∧ d.isCorrect v = true) := by
  rw [interAssign_eq, inter_iff]

/-- the order of the operands does not matter for what is accepted -/
theorem inter_comm_denote (c d : Interval ℝ) : (c.inter d).denote = (d.inter c).denote := by
  rw [inter_denote, inter_denote, Set.inter_comm]

/-- the precision of the intersection is the larger precision -/
theorem inter_prec (c d : Interval ℝ) : (c.inter d).prec = max c.prec d.prec := by
  show (if Scalar.gtb c.prec d.prec then c.prec else d.prec) = _
  by_cases h : d.prec < c.prec
  · simp [h, max_eq_left h.le]
  · simp [h, max_eq_right (not_lt.1 h)]

/-! ## emptiness -/

/-- **isEmpty_iff_real** (full strength, no guard): emptiness is reported iff no real number is
accepted — for every combination of bounds (finite, equal, crossed, infinite on either side,
`[+inf,+inf]` and `[-inf,-inf]` included) and flags -/
theorem isEmpty_iff_real (c : Interval ℝ) : c.isEmpty = true ↔ ∀ v : ℝ, c.isCorrect v = false := by
  have fin_mem : ∀ v : ℝ, c.isCorrect v = false ↔ ¬ ((v : EReal) ∈ c.denote) := by
    intro v; rw [Bool.eq_false_iff, Ne, isCorrect_iff]
  constructor
  · intro hE v
    rw [fin_mem, mem_denote]
    rintro ⟨h1, h2⟩
    rcases (isEmpty_iff_cond c).1 hE with h | ⟨h, a | b | l | u⟩
    · split_ifs at h1 h2 <;> order
    · simp only [a, Bool.false_eq_true, if_false] at h1
      split_ifs at h2 <;> order
    · simp only [b, Bool.false_eq_true, if_false] at h2
      split_ifs at h1 <;> order
    · -- lo = hi = -inf: a real is not below -inf
      have : (v : EReal) ≤ ⊥ := by rw [← l, h]; split_ifs at h2 <;> order
      exact absurd (le_bot_iff.1 this) (EReal.coe_ne_bot v)
    · have : (⊤ : EReal) ≤ v := by rw [← u, ← h]; split_ifs at h1 <;> order
      exact absurd (top_le_iff.1 this) (EReal.coe_ne_top v)
  · intro hall
    by_contra hne
    obtain ⟨h1, h2⟩ := not_isEmpty_cond c hne
    rcases lt_or_eq_of_le h1 with hlt | heq
    · obtain ⟨x, hx1, hx2⟩ := EReal.lt_iff_exists_real_btwn.1 hlt
      apply (fin_mem x).1 (hall x)
      rw [mem_denote]
      refine ⟨?_, ?_⟩ <;> split_ifs <;> order
    · obtain ⟨a, b⟩ := h2 heq
      obtain ⟨x, hl, hh⟩ := not_isEmpty_finite c hne heq
      apply (fin_mem x).1 (hall x)
      rw [mem_denote]
      simp only [a, b, if_true, hl, hh, Bound.toEReal_fin]
      exact ⟨le_refl _, le_refl _⟩

/-- the same with sets: `isEmpty` iff the denoted set contains no real number -/
theorem isEmpty_iff (c : Interval ℝ) : c.isEmpty = true ↔ c.denote ∩ Set.range ((↑) : ℝ → EReal) = ∅ := by
  rw [isEmpty_iff_real, Set.eq_empty_iff_forall_notMem]
  constructor
  · rintro h x ⟨hx, v, rfl⟩
    have := h v; rw [Bool.eq_false_iff, Ne, isCorrect_iff] at this; exact this hx
  · intro h v
    rw [Bool.eq_false_iff, Ne, isCorrect_iff]
    exact fun hv => h v ⟨hv, v, rfl⟩

/-- a non-empty interval has a real member (the witness the driver looks for among its probe
points: a bound or a point between the bounds) -/
theorem not_isEmpty_iff_exists (c : Interval ℝ) : c.isEmpty = false ↔ ∃ v : ℝ, c.isCorrect v = true := by
  rw [← Bool.not_eq_true, isEmpty_iff_real]
  push Not
  simp only [Bool.not_eq_false]

/-- an interval that accepts no double at all (infinite ones included) is reported empty; the
converse is *not* demanded by the property and does not hold: `[+inf,+inf]` accepts the infinite
double `+inf`, which is not a real number, and is reported empty (`isEmpty_infinite_point`) -/
theorem isEmpty_of_denote_empty (c : Interval ℝ) (h : c.denote = ∅) : c.isEmpty = true := by
  rw [isEmpty_iff, h, Set.empty_inter]

theorem isEmpty_infinite_point :
    let c : Interval ℝ := Interval.make .posInf .posInf true true 0
    let d : Interval ℝ := Interval.make .negInf .negInf true true 0
    c.isEmpty = true ∧ c.isCorrectB .posInf = true ∧ d.isEmpty = true ∧ d.isCorrectB .negInf = true := by
  simp [Interval.make, isEmpty, isCorrectB, finiteLowerBound, finiteUpperBound, Bound.gtb, Bound.geb, Bound.ltb,
    Bound.leb, Bound.eqb]

/-- the intersection is reported empty iff no real is accepted by both operands -/
theorem inter_isEmpty_iff (c d : Interval ℝ) :
    (c.inter d).isEmpty = true ↔ ∀ v : ℝ, ¬ (c.isCorrect v = true ∧ d.isCorrect v = true) := by
  rw [isEmpty_iff_real]
  refine forall_congr' fun v => ?_
  rw [Bool.eq_false_iff, Ne, inter_iff]

/-! ## comparisons with a value, comparisons of intervals, the bound setters -/

/-- `c < v`, `c > v`, `c <= v`, `c >= v` (Constraints.h:195-213) are sound: every accepted value
(infinite doubles included) is below / above `v` — what the driver evaluates on the
implementation's answers (clause `cmp_sound`) -/
theorem cmp_sound (c : Interval ℝ) (v : Bound ℝ) (x : EReal) (hx : x ∈ c.denote) :
    (c.ltV v = true → x < v.toEReal) ∧ (c.gtV v = true → v.toEReal < x) ∧
    (c.leV v = true → x ≤ v.toEReal) ∧ (c.geV v = true → v.toEReal ≤ x) := by
  rw [mem_denote] at hx
  obtain ⟨h1, h2⟩ := hx
  refine ⟨?_, ?_, ?_, ?_⟩
  · unfold ltV
    cases hi : c.inclHi <;> simp only [hi, Bool.false_eq_true, if_false, if_true] at h2 ⊢ <;>
      simp only [Bound.ltb_iff, Bound.leb_iff] <;> intro h <;> order
  · unfold gtV
    cases hi : c.inclLo <;> simp only [hi, Bool.false_eq_true, if_false, if_true] at h1 ⊢ <;>
      simp only [Bound.gtb_iff, Bound.geb_iff] <;> intro h <;> order
  · unfold leV
    simp only [Bound.leb_iff]; intro h
    split_ifs at h2 <;> order
  · unfold geV
    simp only [Bound.geb_iff]; intro h
    split_ifs at h1 <;> order

/-- … and exact on an interval with `lo < hi`: `c < v` iff every accepted value is below `v`,
`c <= v` iff every accepted value is at most `v` (and symmetrically) -/
theorem ltV_iff (c : Interval ℝ) (v : Bound ℝ) (h : c.lo.toEReal < c.hi.toEReal) :
    c.ltV v = true ↔ ∀ x ∈ c.denote, x < v.toEReal := by
  constructor
  · intro hl x hx; exact (cmp_sound c v x hx).1 hl
  · intro hall
    unfold ltV
    cases hi : c.inclHi
    · simp only [Bool.false_eq_true, if_false, Bound.leb_iff]
      by_contra hn
      have hv : v.toEReal < c.hi.toEReal := not_le.1 hn
      obtain ⟨y, hy1, hy2⟩ := exists_between (max_lt h hv)
      have hy : y ∈ c.denote := by
        rw [mem_denote, hi]
        simp only [Bool.false_eq_true, if_false]
        exact ⟨by split_ifs <;> [exact (lt_of_le_of_lt (le_max_left _ _) hy1).le; exact lt_of_le_of_lt (le_max_left _ _) hy1], hy2⟩
      exact absurd (hall y hy) (not_lt.2 (lt_of_le_of_lt (le_max_right _ _) hy1).le)
    · simp only [if_true, Bound.ltb_iff]
      apply hall
      rw [mem_denote, hi]
      simp only [if_true, le_refl, and_true]
      split_ifs <;> [exact h.le; exact h]

theorem leV_iff (c : Interval ℝ) (v : Bound ℝ) (h : c.lo.toEReal < c.hi.toEReal) :
    c.leV v = true ↔ ∀ x ∈ c.denote, x ≤ v.toEReal := by
  constructor
  · intro hl x hx; exact (cmp_sound c v x hx).2.2.1 hl
  · intro hall
    unfold leV
    rw [Bound.leb_iff]
    by_contra hn
    have hv : v.toEReal < c.hi.toEReal := not_le.1 hn
    obtain ⟨y, hy1, hy2⟩ := exists_between (max_lt h hv)
    have hy : y ∈ c.denote := by
      rw [mem_denote]
      refine ⟨?_, ?_⟩
      · split_ifs <;> [exact (lt_of_le_of_lt (le_max_left _ _) hy1).le; exact lt_of_le_of_lt (le_max_left _ _) hy1]
      · split_ifs <;> [exact hy2.le; exact hy2]
    exact absurd (hall y hy) (not_le.2 (lt_of_le_of_lt (le_max_right _ _) hy1))

/-- `operator==` compares bounds and flags (not the precision); equal intervals accept the same
values; `operator!=` is its negation -/
theorem eqI_iff (c d : Interval ℝ) : c.eqI d = true ↔
    c.lo.toEReal = d.lo.toEReal ∧ c.inclLo = d.inclLo ∧ c.hi.toEReal = d.hi.toEReal ∧ c.inclHi = d.inclHi := by
  unfold eqI
  simp only [Bool.and_eq_true, Bound.eqb_iff, beq_iff_eq]
  tauto

theorem eqI_denote (c d : Interval ℝ) (h : c.eqI d = true) : c.denote = d.denote := by
  obtain ⟨h1, h2, h3, h4⟩ := (eqI_iff c d).1 h
  ext x
  rw [mem_denote, mem_denote, h1, h2, h3, h4]

theorem neI_eq_not_eqI (c d : Interval ℝ) : c.neI d = !c.eqI d := by
  unfold neI eqI
  cases Bound.eqb c.lo d.lo <;> cases Bound.eqb c.hi d.hi <;> cases c.inclLo <;> cases d.inclLo <;>
    cases c.inclHi <;> cases d.inclHi <;> rfl

/-- `operator<=(IntervalConstraint)` ("is included or equal in another one", Constraints.h:396)
compares the bounds only: it is inclusion of the *closures*.  It is not inclusion of the
intervals — `[0,1] <= ]0,1[` is true (`leI_flags_witness`).  No clause of C01 is about this
operator and nothing in the library calls it; the model is bug-compatible. -/
theorem leI_iff (c d : Interval ℝ) : c.leI d = true ↔ d.lo.toEReal ≤ c.lo.toEReal ∧ c.hi.toEReal ≤ d.hi.toEReal := by
  unfold leI
  simp only [Bool.and_eq_true, Bound.geb_iff, Bound.leb_iff]

theorem leI_flags_witness :
    let c : Interval ℝ := Interval.make (.fin 0) (.fin 1) true true 0
    let d : Interval ℝ := Interval.make (.fin 0) (.fin 1) false false 0
    c.leI d = true ∧ c.isCorrect 0 = true ∧ d.isCorrect 0 = false := by
  simp [Interval.make, leI, isCorrect, isCorrectB, Bound.geb, Bound.gtb, Bound.leb, Bound.ltb]

/-- `setLowerBound(b, strict)` / `setUpperBound(b, strict)` replace one end and nothing else:
afterwards exactly the values above (below) the new end, and accepted at the other end, are accepted -/
theorem setLowerBound_iff (c : Interval ℝ) (b : Bound ℝ) (strict : Bool) (v : ℝ) :
    (c.setLowerBound b strict).isCorrect v = true ↔
      (if strict then b.toEReal < v else b.toEReal ≤ v) ∧ (if c.inclHi then (v : EReal) ≤ c.hi.toEReal else (v : EReal) < c.hi.toEReal) := by
  rw [isCorrect_iff_bounds]
  cases strict <;> simp [setLowerBound]

theorem setUpperBound_iff (c : Interval ℝ) (b : Bound ℝ) (strict : Bool) (v : ℝ) :
    (c.setUpperBound b strict).isCorrect v = true ↔
      (if c.inclLo then c.lo.toEReal ≤ v else c.lo.toEReal < v) ∧ (if strict then (v : EReal) < b.toEReal else (v : EReal) ≤ b.toEReal) := by
  rw [isCorrect_iff_bounds]
  cases strict <;> simp [setUpperBound]

/-! ## limits -/

/-- `getLimit` answers the request itself when it is accepted, otherwise the bound on the
request's side (`limitOk` is what the driver evaluates on the implementation's answers) -/
theorem getLimit_spec (c : Interval ℝ) (v : Bound ℝ) : c.limitOk v (c.getLimit v) = true := by
  unfold limitOk getLimit
  have hm : c.memSpec v = c.isCorrectB v := by
    rw [Bool.eq_iff_iff, memSpec_iff, isCorrectB_iff]
  have refl : ∀ b : Bound ℝ, Bound.eqb b b = true := fun b => (Bound.eqb_iff b b).2 rfl
  rw [hm]
  cases h : c.isCorrectB v
  · simp only [Bool.false_eq_true, if_false, geV, Bound.geb]
    by_cases h2 : Bound.leb v c.lo = true <;> simp [h2, refl]
  · simp [refl]

/-- for a rejected finite request, the limit is the nearest point of the interval's closure:
no accepted value is nearer -/
theorem getLimit_nearest (c : Interval ℝ) (v l u : ℝ) (hl : c.getLimit (.fin v) = .fin l)
    (hu : c.isCorrect u = true) : |l - v| ≤ |u - v| := by
  have humem := (isCorrect_iff_bounds' c u).1 hu
  unfold getLimit at hl
  cases hv : c.isCorrectB (.fin v) with
  | true =>
    rw [hv, if_pos rfl] at hl
    cases hl; simp
  | false =>
    rw [hv] at hl
    simp only [Bool.false_eq_true, if_false] at hl
    cases hg : c.geV (.fin v) with
    | true =>
      rw [hg, if_pos rfl] at hl
      have hvl : v ≤ l := by
        have := (geV_iff c v).1 hg; rw [hl] at this; exact EReal.coe_le_coe_iff.1 this
      have hlu : l ≤ u := by
        have := humem.1; rw [hl] at this
        split_ifs at this
        · exact EReal.coe_le_coe_iff.1 this
        · exact (EReal.coe_lt_coe_iff.1 this).le
      rw [abs_of_nonneg (by linarith), abs_of_nonneg (by linarith)]; linarith
    | false =>
      rw [hg] at hl
      simp only [Bool.false_eq_true, if_false] at hl
      have hlov : c.lo.toEReal < (v : EReal) := by
        have : ¬ ((v : EReal) ≤ c.lo.toEReal) := by rw [← geV_iff, hg]; simp
        exact not_le.1 this
      -- `v` passes the lower test, so it fails the upper one
      have hlv : l ≤ v := by
        by_contra hlt
        have hvlt : (v : EReal) < (l : EReal) := EReal.coe_lt_coe_iff.2 (not_le.1 hlt)
        have : c.isCorrect v = true := by
          rw [isCorrect_iff_bounds', hl]
          refine ⟨?_, ?_⟩
          · split_ifs <;> [exact hlov.le; exact hlov]
          · split_ifs <;> [exact hvlt.le; exact hvlt]
        have hv' : c.isCorrect v = false := hv
        rw [hv'] at this; cases this
      have hul : u ≤ l := by
        have := humem.2; rw [hl] at this
        split_ifs at this
        · exact EReal.coe_le_coe_iff.1 this
        · exact (EReal.coe_lt_coe_iff.1 this).le
      rw [abs_of_nonpos (by linarith), abs_of_nonpos (by linarith)]; linarith

/-- `getAcceptedLimit` on a wide interval: for a rejected finite request it answers a finite
value within one precision step of the bound on the request's side, which is accepted whenever
the precision is positive or the bound is included -/
theorem getAcceptedLimit_spec (c : Interval ℝ) (v : ℝ) (hw : c.wide = true) (hrej : c.isCorrect v = false) :
    ∃ limit b : ℝ, c.getAcceptedLimit (.fin v) = .fin limit ∧ (c.lo = .fin b ∧ v ≤ b ∨ c.hi = .fin b ∧ b ≤ v) ∧
      |limit - b| ≤ c.prec ∧ (c.isCorrect limit = true ∨ limit = b) := by
  rcases alimit_spec c v hw hrej with ⟨_, l, limit, hlo, hvl, hlim, h1, h2, hok⟩ | ⟨_, h, limit, hhi, hhv, hlim, h1, h2, hok⟩
  · refine ⟨limit, l, hlim, Or.inl ⟨hlo, hvl⟩, by rw [abs_le]; constructor <;> linarith, ?_⟩
    rcases hok with hok | ⟨hl, _⟩ <;> [exact Or.inl hok; exact Or.inr hl]
  · refine ⟨limit, h, hlim, Or.inr ⟨hhi, hhv⟩, by rw [abs_le]; constructor <;> linarith, ?_⟩
    rcases hok with hok | ⟨hl, _⟩ <;> [exact Or.inl hok; exact Or.inr hl]

/-! ## Parameter: the invariant over all histories -/

/-- The invariant of C01: a parameter that carries a constraint holds a value the constraint
accepts (`Param.Inv`), stated on the executable predicate the driver evaluates -/
theorem invOk_iff_inv (p : Param ℝ) : p.invOk = true ↔ ∀ c, p.constraint = some c → (p.value : EReal) ∈ c.denote :=
  Param.invOk_iff p

/-- every object in the store satisfies the invariant (and has a non-negative precision) -/
def StoreInv (s : PStore ℝ) : Prop := ∀ k p, s k = some p → p.Inv ∧ 0 ≤ p.precision

theorem storeInv_empty : StoreInv PStore.empty := by
  intro k p h; cases h

theorem storeInv_set {s : PStore ℝ} (hs : StoreInv s) (k : Nat) {p : Param ℝ} (hp : p.Inv ∧ 0 ≤ p.precision) :
    StoreInv (s.set k p) := by
  intro i q hq
  unfold PStore.set at hq
  split_ifs at hq
  · cases hq; exact hp
  · exact hs i q hq

/-- one call of construct / copy / convert (plain → auto-correcting, and the slicing copy back) / assign / setValue (plain or auto-correcting) /
setPrecision / setConstraint / removeConstraint keeps the invariant, whether it raises or not -/
theorem step_inv (s : PStore ℝ) (op : POp ℝ) (hs : StoreInv s) : StoreInv (POp.step s op).1 := by
  cases op with
  | construct k a v c prec =>
    simp only [POp.step]
    split
    · next p h => obtain ⟨h1, h2, -⟩ := construct_ok h; exact storeInv_set hs k ⟨h1, h2⟩
    · exact hs
  | copy src dst =>
    simp only [POp.step]
    split
    · next p h => exact storeInv_set hs dst (hs src p h)
    · exact hs
  | toAuto src dst =>
    simp only [POp.step]
    split
    · next p h => exact storeInv_set hs dst ⟨Inv_congr rfl rfl (hs src p h).1, (hs src p h).2⟩
    · exact hs
  | toPlain src dst =>
    simp only [POp.step]
    split
    · next p h => exact storeInv_set hs dst ⟨Inv_congr rfl rfl (hs src p h).1, (hs src p h).2⟩
    · exact hs
  | assign src dst =>
    simp only [POp.step]
    split
    · next p q h _ => exact storeInv_set hs dst ⟨Inv_congr rfl rfl (hs src p h).1, (hs src p h).2⟩
    · exact hs
  | setValue k v =>
    simp only [POp.step]
    split
    · next p h =>
      split
      · next p' h' =>
        refine storeInv_set hs k ?_
        unfold Param.setValue at h'
        split_ifs at h'
        · exact ⟨sva_inv (hs k p h).1 h', by rw [(sva_fields h').2.1]; exact (hs k p h).2⟩
        · exact ⟨svb_inv (hs k p h).1 h', by rw [(svb_fields h').2.1]; exact (hs k p h).2⟩
      · exact hs
    · exact hs
  | setPrecision k x =>
    simp only [POp.step]
    split
    · next p h => exact storeInv_set hs k ⟨Inv_congr rfl rfl (hs k p h).1, setPrecision_nonneg p x⟩
    · exact hs
  | setConstraint k c =>
    simp only [POp.step]
    split
    · next p h =>
      split
      · next p' h' =>
        obtain ⟨rfl, hc⟩ := setConstraint_ok h'
        refine storeInv_set hs k ⟨?_, (hs k p h).2⟩
        intro c' hc'
        exact (isCorrect_iff c' p.value).1 (hc c' hc')
      · exact hs
    · exact hs
  | removeConstraint k =>
    simp only [POp.step]
    split
    · next p h =>
      refine storeInv_set hs k ⟨?_, (hs k p h).2⟩
      intro c hc; cases hc
    · exact hs

/-- **param_inv**: after any history of calls — of any length, raising calls included — every
parameter object holds a value its constraint accepts -/
theorem param_inv_from (ops : List (POp ℝ)) (s : PStore ℝ) (hs : StoreInv s) : StoreInv (POp.run s ops) := by
  induction ops generalizing s with
  | nil => exact hs
  | cons op rest ih => exact ih _ (step_inv s op hs)

theorem param_inv (ops : List (POp ℝ)) : StoreInv (POp.run PStore.empty ops) :=
  param_inv_from ops _ storeInv_empty

/-- the same on the executable predicate -/
theorem param_invOk (ops : List (POp ℝ)) (k : Nat) (p : Param ℝ) (h : POp.run PStore.empty ops k = some p) :
    p.invOk = true := (Param.invOk_iff p).2 (param_inv ops k p h).1

/-- **reject_unchanged**: a call that raises leaves every object as it was -/
theorem reject_unchanged (s : PStore ℝ) (op : POp ℝ) (e : PErr) (h : (POp.step s op).2 = .raised e) :
    (POp.step s op).1 = s := by
  cases op <;> simp only [POp.step] at h ⊢ <;> (repeat' split) <;> simp_all

/-- a call on one register leaves the objects in all other registers as they were
(copies are independent objects) -/
theorem step_other (s : PStore ℝ) (op : POp ℝ) (i : Nat)
    (hi : match op with
      | .construct k _ _ _ _ => i ≠ k | .copy _ d => i ≠ d | .toAuto _ d => i ≠ d | .toPlain _ d => i ≠ d | .assign _ d => i ≠ d
      | .setValue k _ => i ≠ k | .setPrecision k _ => i ≠ k | .setConstraint k _ => i ≠ k | .removeConstraint k => i ≠ k) :
    (POp.step s op).1 i = s i := by
  cases op <;> simp only [POp.step] <;> (repeat' split) <;> simp_all [PStore.set]

/-! ## Parameter: what each call does -/

/-- the plain setter raises iff the request is outside the precision window and the constraint
rejects it; it then raises a constraint error -/
theorem setValue_raises_iff (p : Param ℝ) (v : ℝ) (e : PErr) :
    p.setValueBase v = .error e ↔
      e = .constraint ∧ p.precision / 2 < |v - p.value| ∧ ∃ c, p.constraint = some c ∧ (v : EReal) ∉ c.denote := by
  have hacc : p.accepts v = false ↔ ∃ c, p.constraint = some c ∧ (v : EReal) ∉ c.denote := by
    rw [Bool.eq_false_iff, Ne, accepts_iff]; push Not; rfl
  constructor
  · intro h
    obtain ⟨h1, h2, h3⟩ := svb_err h
    exact ⟨h1, h2, hacc.1 h3⟩
  · rintro ⟨rfl, h2, h3⟩
    rcases svb_cases p v with ⟨a, _⟩ | ⟨_, b, _⟩ | ⟨_, _, e'⟩
    · exact absurd h2 (not_lt.2 a)
    · rw [hacc.2 h3] at b; cases b
    · exact e'

/-- an accepted request outside the window is stored exactly; one inside the window is ignored -/
theorem setValue_ok_iff (p : Param ℝ) (v : ℝ) (p' : Param ℝ) :
    p.setValueBase v = .ok p' ↔
      (|v - p.value| ≤ p.precision / 2 ∧ p' = p) ∨
      (p.precision / 2 < |v - p.value| ∧ p.accepts v = true ∧ p' = { p with value := v }) := by
  constructor
  · intro h
    rcases svb_ok h with ⟨a, b⟩ | ⟨a, b, c⟩
    · exact Or.inl ⟨b, a⟩
    · exact Or.inr ⟨b, c, a⟩
  · rintro (⟨a, hpp⟩ | ⟨a, b, hpp⟩)
    · rw [hpp]
      rcases svb_cases p v with ⟨_, e⟩ | ⟨a', _, _⟩ | ⟨a', _, _⟩
      · exact e
      · exact absurd a' (not_lt.2 a)
      · exact absurd a' (not_lt.2 a)
    · rw [hpp]
      rcases svb_cases p v with ⟨a', _⟩ | ⟨_, _, e⟩ | ⟨_, b', _⟩
      · exact absurd a (not_lt.2 a')
      · exact e
      · rw [b] at b'; cases b'

/-- the (repaired) constructor raises iff the constraint rejects the initial value — for every
initial value, 0 included — and otherwise builds an object holding exactly that value -/
theorem construct_raises_iff (v : ℝ) (c : Option (Interval ℝ)) (prec : ℝ) (a : Bool) (e : PErr) :
    Param.construct v c prec a = .error e ↔ e = .constraint ∧ ∃ c', c = some c' ∧ (v : EReal) ∉ c'.denote := by
  constructor
  · intro h
    obtain ⟨h1, c', h2, h3⟩ := construct_err h
    refine ⟨h1, c', h2, ?_⟩
    rw [← isCorrect_iff, h3]; simp
  · rintro ⟨rfl, c', rfl, h3⟩
    cases hres : Param.construct v (some c') prec a with
    | error e' => rw [(construct_err hres).1]
    | ok p =>
      obtain ⟨hinv, _, hv, hc, _⟩ := construct_ok hres
      exact absurd (hv ▸ hinv c' hc) h3

theorem construct_ok_fields (v : ℝ) (c : Option (Interval ℝ)) (prec : ℝ) (a : Bool) (p : Param ℝ)
    (h : Param.construct v c prec a = .ok p) :
    p.value = v ∧ p.constraint = c ∧ p.auto = a ∧ p.precision = max prec 0 := by
  obtain ⟨_, _, hv, hc, ha⟩ := construct_ok h
  refine ⟨hv, hc, ha, ?_⟩
  unfold construct at h
  simp only at h
  split at h
  · have := Except.ok.inj h; subst this
    unfold setPrecision
    by_cases hneg : prec < 0
    · simp [hneg, max_eq_right hneg.le]
    · simp [hneg, max_eq_left (not_lt.1 hneg)]
  · cases h

/-- the constraint setter raises iff the new constraint rejects the current value -/
theorem setConstraint_raises_iff (p : Param ℝ) (c : Option (Interval ℝ)) (e : PErr) :
    p.setConstraint c = .error e ↔ e = .constraint ∧ ∃ c', c = some c' ∧ (p.value : EReal) ∉ c'.denote := by
  constructor
  · intro h
    obtain ⟨h1, c', h2, h3⟩ := setConstraint_err h
    refine ⟨h1, c', h2, ?_⟩
    rw [← isCorrect_iff, h3]; simp
  · rintro ⟨rfl, c', rfl, h3⟩
    cases hres : p.setConstraint (some c') with
    | error e' => rw [(setConstraint_err hres).1]
    | ok p' =>
      obtain ⟨_, hc⟩ := setConstraint_ok hres
      exact absurd ((isCorrect_iff c' p.value).1 (hc c' rfl)) h3

/-! ## the auto-correcting parameter -/

/-- The width hypothesis in the property's own terms: an interval with proper bounds that is at
least `1e-9` wide, with a precision between 0 and `1e-10` (the default `TINY = 1e-12` included,
`default_prec_ok`), is wide.  This pins the generated constant: the proof needs `TINY < 9e-10`. -/
theorem wide_of_width (c : Interval ℝ) (hp : c.proper = true) (h0 : 0 ≤ c.prec) (h1 : c.prec ≤ 1e-10)
    (hwid : c.lo.toEReal + ((1e-9 : ℝ) : EReal) ≤ c.hi.toEReal) : c.wide = true := by
  have hT : (Constants.TINY : ℝ) < 9e-10 := by
    simp only [Constants.TINY, ScalarReal.ofRat_eq]; norm_num
  rw [wide_iff]
  refine ⟨h0, ?_⟩
  unfold proper at hp
  cases hlo : c.lo with
  | posInf => rw [hlo] at hp; simp at hp
  | negInf =>
    cases hhi : c.hi with
    | negInf => rw [hhi] at hp; simp at hp
    | fin h => simp [EReal.bot_lt_coe]
    | posInf => simp
  | fin l =>
    rw [hlo] at hwid
    cases hhi : c.hi with
    | negInf => rw [hhi] at hp; simp at hp
    | posInf => simp only [Bound.toEReal_fin, Bound.toEReal_posInf, ← EReal.coe_add]; exact EReal.coe_lt_top _
    | fin h =>
      rw [hhi] at hwid
      simp only [Bound.toEReal_fin, ← EReal.coe_add, EReal.coe_le_coe_iff, EReal.coe_lt_coe_iff] at hwid ⊢
      linarith

theorem default_prec_ok : (0 : ℝ) ≤ Constants.TINY ∧ (Constants.TINY : ℝ) ≤ 1e-10 := by
  refine ⟨TINY_pos.le, ?_⟩
  simp only [Constants.TINY, ScalarReal.ofRat_eq]; norm_num

/-- Full statement wanted (the property's words): for every finite request `v`, every parameter
state satisfying the invariant and every interval at least `1e-9` wide,
`∃ p', p.setValueAuto v = .ok p'`.  It is false of the code: the setter raises when the
*constraint's precision* is not small against the width (`auto_precision_witness`: `]0, 1e-9[`
with precision `2e-9`; known finding C01-auto-raises-large-constraint-precision), and on intervals
narrower than `TINY` (`auto_narrow_witness`, outside the property's quantifier).
Proved: on a *wide* interval (`0 ≤ constraint precision`, `lo + precision + TINY < hi` — implied by
width ≥ `1e-9` and constraint precision in `[0, 1e-10]`, `wide_of_width`) the auto-correcting
setter never raises, for any finite request. -/
theorem auto_total_partial (p : Param ℝ) (v : ℝ) (hp : 0 ≤ p.precision)
    (hw : ∀ c, p.constraint = some c → c.wide = true) : ∃ p', p.setValueAuto v = .ok p' := by
  cases hc : p.constraint with
  | none =>
    rcases svb_cases p v with ⟨_, e⟩ | ⟨_, _, e⟩ | ⟨_, b, _⟩
    · exact ⟨p, by simp only [setValueAuto, e]⟩
    · exact ⟨{ p with value := v }, by simp only [setValueAuto, e]⟩
    · simp [accepts, hc] at b
  | some c =>
    obtain ⟨p', h, -⟩ := auto_spec p v c hc hp (hw c hc)
    exact ⟨p', h⟩

/-- `auto_total_partial` under the name other properties cite (C10 `auto_never_raises`); the guard
is `wide`, see there -/
theorem auto_total (p : Param ℝ) (v : ℝ) (hp : 0 ≤ p.precision)
    (hw : ∀ c, p.constraint = some c → c.wide = true) : ∃ p', p.setValueAuto v = .ok p' :=
  auto_total_partial p v hp hw

/-- in the property's own terms: width at least `1e-9` and a constraint precision in `[0, 1e-10]`
(the default `TINY` included) -/
theorem auto_total_of_width (p : Param ℝ) (v : ℝ) (c : Interval ℝ) (hc : p.constraint = some c) (hp : 0 ≤ p.precision)
    (hpr : c.proper = true) (h0 : 0 ≤ c.prec) (h1 : c.prec ≤ 1e-10)
    (hwid : c.lo.toEReal + ((1e-9 : ℝ) : EReal) ≤ c.hi.toEReal) : ∃ p', p.setValueAuto v = .ok p' :=
  auto_total_partial p v hp (fun c' hc' => by
    have : c' = c := by rw [hc] at hc'; exact (Option.some.inj hc').symm
    rw [this]; exact wide_of_width c hpr h0 h1 hwid)

/-- the result always satisfies the constraint (no width hypothesis needed) -/
theorem auto_inv (p : Param ℝ) (v : ℝ) (p' : Param ℝ) (hinv : p.Inv) (h : p.setValueAuto v = .ok p') :
    p'.Inv ∧ p'.constraint = p.constraint ∧ p'.precision = p.precision := by
  exact ⟨sva_inv hinv h, (sva_fields h).1, (sva_fields h).2.1⟩

/-- an accepted request outside the precision window is stored exactly, as by the plain setter -/
theorem auto_accepted_exact (p : Param ℝ) (v : ℝ) (h1 : p.precision / 2 < |v - p.value|) (h2 : p.accepts v = true) :
    p.setValueAuto v = .ok { p with value := v } := by
  rcases svb_cases p v with ⟨a, _⟩ | ⟨_, _, e⟩ | ⟨_, b, _⟩
  · exact absurd h1 (not_lt.2 a)
  · simp only [setValueAuto, e]
  · rw [h2] at b; cases b

/-- Full statement wanted: on every interval at least `1e-9` wide the setter "ends on the accepted
value nearest to the request (one precision step inside an open bound)".  Guarded by `wide` like
`auto_total_partial` (the unguarded statement fails with it: `auto_precision_witness`); the exact
landing point is `auto_lands`.
**auto_nearest**: the value the setter ends on is accepted, and it is the accepted value
nearest to the request up to one step (`max constraint-precision TINY`: one precision step inside
an open bound) plus the parameter's own precision window -/
theorem auto_nearest_partial (p : Param ℝ) (v : ℝ) (c : Interval ℝ) (p' : Param ℝ) (hc : p.constraint = some c)
    (hp : 0 ≤ p.precision) (hw : c.wide = true) (hinv : p.Inv) (h : p.setValueAuto v = .ok p') :
    c.isCorrect p'.value = true ∧
    ∀ u, c.isCorrect u = true → |p'.value - v| ≤ |u - v| + max c.prec Constants.TINY + p.precision / 2 := by
  have hc' : p'.constraint = some c := by rw [(sva_fields h).1, hc]
  refine ⟨(isCorrect_iff c _).2 (sva_inv hinv h c hc'), ?_⟩
  exact nearestOk_sound hc (auto_nearestOk hc hp hw hinv h 1 (le_refl _))

/-- the executable form evaluated by the driver (slack 1 in exact arithmetic, 2 on doubles) -/
theorem auto_nearestOk_holds (p : Param ℝ) (v : ℝ) (c : Interval ℝ) (p' : Param ℝ) (hc : p.constraint = some c)
    (hp : 0 ≤ p.precision) (hw : c.wide = true) (hinv : p.Inv) (h : p.setValueAuto v = .ok p') (k : Int) (hk : 1 ≤ k) :
    p.nearestOk (Scalar.ofInt k) v p'.value = true := auto_nearestOk hc hp hw hinv h k hk

/-- with precision 0 on both sides of an included bound the correction is exact: the result is
the nearest accepted value itself -/
theorem auto_nearest_closed (p : Param ℝ) (v : ℝ) (c : Interval ℝ) (p' : Param ℝ) (hc : p.constraint = some c)
    (hp : p.precision = 0) (hw : c.wide = true) (hcl : c.inclLo = true ∧ c.inclHi = true)
    (h : p.setValueAuto v = .ok p') :
    ∀ u, c.isCorrect u = true → |p'.value - v| ≤ |u - v| := by
  intro u hu
  have hT := TINY_pos
  have hacc : ∀ x, p.accepts x = c.isCorrect x := accepts_some hc
  rcases svb_cases p v with ⟨a, e⟩ | ⟨a, b, e⟩ | ⟨a, b, e⟩
  · -- request equal to the current value
    simp only [setValueAuto, e] at h
    have hp' : p' = p := (Except.ok.inj h).symm
    rw [hp'] ; rw [hp] at a; simp only [zero_div] at a
    have : v - p.value = 0 := abs_nonpos_iff.1 a
    have : p.value - v = 0 := by linarith
    rw [this]; simp
  · simp only [setValueAuto, e] at h
    have hp' : p' = { p with value := v } := (Except.ok.inj h).symm
    rw [hp']; simp
  · have hrej : c.isCorrect v = false := by rw [← hacc]; exact b
    obtain ⟨limit, hlim, hgl, hokl⟩ := alimit_closed c v hw hcl hrej
    have key := getLimit_nearest c v limit u hgl hu
    rcases svb_cases p limit with ⟨a2, e2⟩ | ⟨a2, b2, e2⟩ | ⟨a2, b2, e2⟩
    · simp only [setValueAuto, e, hc, hlim, e2] at h
      have hp' : p' = p := (Except.ok.inj h).symm
      rw [hp']; rw [hp] at a2; simp only [zero_div] at a2
      have : limit - p.value = 0 := abs_nonpos_iff.1 a2
      have : p.value = limit := by linarith
      rw [this]; exact key
    · simp only [setValueAuto, e, hc, hlim, e2] at h
      have hp' : p'.value = limit := by rw [← Except.ok.inj h]
      rw [hp']; exact key
    · rw [hacc, hokl] at b2; cases b2

/-- the width hypothesis of `auto_total` is needed: on `]0, TINY/2[` (precision `TINY`) the
auto-correcting setter raises for the request 5 — limit, limit + TINY and limit - TINY are all
rejected — and, by `reject_unchanged`, leaves the parameter as it was -/
theorem auto_narrow_witness :
    let T : ℝ := Constants.TINY
    let c : Interval ℝ := Interval.make (.fin 0) (.fin (T / 2)) false false T
    let p : Param ℝ := ⟨T / 4, 0, some c, true⟩
    p.Inv ∧ p.setValueAuto 5 = .error .constraint := by
  intro T c p
  have hT : 0 < T := TINY_pos
  have hTs : T < 1 := by
    show (Constants.TINY : ℝ) < 1
    simp only [Constants.TINY, ScalarReal.ofRat_eq]; norm_num
  have hc : p.constraint = some c := rfl
  have mem : ∀ x : ℝ, c.isCorrect x = true ↔ 0 < x ∧ x < T / 2 := fun x => isCorrect_open 0 (T / 2) T x
  have rej : ∀ x : ℝ, x ≠ T / 4 → ¬ (0 < x ∧ x < T / 2) → p.setValueBase x = .error .constraint := by
    intro x hx hn
    rw [setValue_raises_iff]
    refine ⟨rfl, ?_, c, hc, ?_⟩
    · show (0 : ℝ) / 2 < |x - T / 4|
      simp only [zero_div, abs_pos, ne_eq, sub_eq_zero]; exact hx
    · rw [← isCorrect_iff, mem]; exact hn
  constructor
  · intro c' hc'; cases hc'
    rw [← isCorrect_iff, mem]
    show 0 < T / 4 ∧ T / 4 < T / 2
    constructor <;> linarith
  · have h5 : c.isCorrectB (.fin 5) = false := by
      have : c.isCorrect 5 = false := by
        rw [Bool.eq_false_iff, Ne, mem]; intro h; linarith [h.2]
      exact this
    have hg : c.geV (.fin 5) = false := by
      rw [Bool.eq_false_iff, Ne, geV_iff]
      show ¬ ((5 : ℝ) : EReal) ≤ ((0 : ℝ) : EReal)
      rw [EReal.coe_le_coe_iff]; norm_num
    have hlim : c.getAcceptedLimit (.fin 5) = .fin (T / 2 - T) := by
      unfold getAcceptedLimit
      rw [h5, hg]
      simp [strictUpperBound, c, Interval.make, Bound.subS]
    have e1 := rej 5 (by intro h; linarith) (by intro h; linarith [h.2])
    have e2 := rej (T / 2 - T) (by intro h; linarith) (by intro h; linarith [h.1])
    have e3 := rej (T / 2 - T + T) (by intro h; linarith) (by intro h; linarith [h.2])
    have e4 := rej (T / 2 - T - T) (by intro h; linarith) (by intro h; linarith [h.1])
    simp only [setValueAuto, e1, hc, hlim, e2]
    have e3' : p.setValueBase (T / 2 - T + Constants.TINY) = .error .constraint := e3
    have e4' : p.setValueBase (T / 2 - T - Constants.TINY) = .error .constraint := e4
    rw [e3']; exact e4'
/-- **auto_lands** — "ends on the accepted value nearest to the request (one precision step inside
an open bound)", exactly: for a parameter of precision 0 satisfying the invariant, a wide interval
and a rejected request, the setter ends on the bound on the request's side when that bound is
included, one constraint-precision step inside it when it is excluded, and `TINY` inside it when
it is excluded and the constraint's precision is 0. -/
theorem auto_lands (p : Param ℝ) (v : ℝ) (c : Interval ℝ) (p' : Param ℝ) (hc : p.constraint = some c)
    (hp0 : p.precision = 0) (hw : c.wide = true) (hinv : p.Inv) (hrej : c.isCorrect v = false)
    (h : p.setValueAuto v = .ok p') :
    (c.geV (.fin v) = true ∧ ∃ l, c.lo = .fin l ∧ v ≤ l ∧
        p'.value = if c.inclLo then l else if 0 < c.prec then l + c.prec else l + Constants.TINY) ∨
    (c.geV (.fin v) = false ∧ ∃ u, c.hi = .fin u ∧ u ≤ v ∧
        p'.value = if c.inclHi then u else if 0 < c.prec then u - c.prec else u - Constants.TINY) := by
  have hacc : ∀ x, p.accepts x = c.isCorrect x := accepts_some hc
  have hval : c.isCorrect p.value = true := (isCorrect_iff c _).2 (hinv c hc)
  have hprec0 : 0 ≤ c.prec := ((wide_iff c).1 hw).1
  -- with precision 0 a plain call either stores the request exactly or raises
  have A : ∀ x, c.isCorrect x = true → ∃ q, p.setValueBase x = .ok q ∧ q.value = x := by
    intro x hx
    rcases svb_cases p x with ⟨a, e⟩ | ⟨_, _, e⟩ | ⟨_, b, _⟩
    · rw [hp0] at a; simp only [zero_div] at a
      have : x - p.value = 0 := abs_nonpos_iff.1 a
      exact ⟨p, e, by linarith⟩
    · exact ⟨_, e, rfl⟩
    · rw [hacc, hx] at b; cases b
  have B : ∀ x, c.isCorrect x = false → p.setValueBase x = .error .constraint := by
    intro x hx
    rcases svb_cases p x with ⟨a, _⟩ | ⟨_, b, _⟩ | ⟨_, _, e⟩
    · rw [hp0] at a; simp only [zero_div] at a
      have : x - p.value = 0 := abs_nonpos_iff.1 a
      have hxv : x = p.value := by linarith
      rw [hxv, hval] at hx; cases hx
    · rw [hacc, hx] at b; cases b
    · exact e
  have land : ∀ x, c.isCorrect x = true → ∀ r, p.setValueBase x = .ok r → r.value = x := by
    intro x hx r hr
    obtain ⟨q, hq, hqv⟩ := A x hx
    rw [hq] at hr; rw [← Except.ok.inj hr]; exact hqv
  have e0 := B v hrej
  rcases alimit_exact c v hw hrej with ⟨hg, l, hlo, hvl, hlim, a1, a2, a3⟩ | ⟨hg, u, hhi, huv, hlim, a1, a2, a3⟩
  · left
    refine ⟨hg, l, hlo, hvl, ?_⟩
    simp only [setValueAuto, e0, hc, hlim] at h
    cases hil : c.inclLo with
    | true =>
      simp only [hil, if_true] at h ⊢
      obtain ⟨q, hq, hqv⟩ := A l (a1 hil)
      rw [hq] at h; rw [← Except.ok.inj h]; exact hqv
    | false =>
      simp only [hil, Bool.false_eq_true, if_false] at h ⊢
      rcases hprec0.lt_or_eq with hpos | hz
      · rw [if_pos hpos]
        obtain ⟨q, hq, hqv⟩ := A (l + c.prec) (a2 hil hpos)
        rw [hq] at h; rw [← Except.ok.inj h]; exact hqv
      · rw [if_neg (by rw [← hz]; exact lt_irrefl _)]
        obtain ⟨r1, r2⟩ := a3 hil hz.symm
        have hl : l + c.prec = l := by rw [← hz]; ring
        rw [hl, B l r1] at h
        obtain ⟨q, hq, hqv⟩ := A (l + Constants.TINY) r2
        simp only at h
        rw [hq] at h; rw [← Except.ok.inj h]; exact hqv
  · right
    refine ⟨hg, u, hhi, huv, ?_⟩
    simp only [setValueAuto, e0, hc, hlim] at h
    cases hiu : c.inclHi with
    | true =>
      simp only [hiu, if_true] at h ⊢
      obtain ⟨q, hq, hqv⟩ := A u (a1 hiu)
      rw [hq] at h; rw [← Except.ok.inj h]; exact hqv
    | false =>
      simp only [hiu, Bool.false_eq_true, if_false] at h ⊢
      rcases hprec0.lt_or_eq with hpos | hz
      · rw [if_pos hpos]
        obtain ⟨q, hq, hqv⟩ := A (u - c.prec) (a2 hiu hpos)
        rw [hq] at h; rw [← Except.ok.inj h]; exact hqv
      · rw [if_neg (by rw [← hz]; exact lt_irrefl _)]
        obtain ⟨r1, r2, r3⟩ := a3 hiu hz.symm
        have hl : u - c.prec = u := by rw [← hz]; ring
        rw [hl, B u r1] at h
        simp only at h
        rw [B (u + Constants.TINY) r2] at h
        simp only at h
        exact land _ r3 _ h

/-- the *precision* part of the guard `wide` is needed, inside the property's quantifier: the
interval `]0, 1e-9[` is `1e-9` wide, but with the constraint precision `2e-9` (a public constructor
argument) the auto-correcting setter raises for the request −5 — `lo + precision`, and that
`± TINY`, all lie above the upper bound (known finding C01-auto-raises-large-constraint-precision) -/
theorem auto_precision_witness :
    let c : Interval ℝ := Interval.make (.fin 0) (.fin 1e-9) false false 2e-9
    let p : Param ℝ := ⟨5e-10, 0, some c, true⟩
    p.Inv ∧ c.lo.toEReal + ((1e-9 : ℝ) : EReal) ≤ c.hi.toEReal ∧ c.wide = false ∧
      p.setValueAuto (-5) = .error .constraint := by
  intro c p
  have hT : (0 : ℝ) < Constants.TINY := TINY_pos
  have hT1 : (Constants.TINY : ℝ) ≤ 1e-10 := default_prec_ok.2
  have hc : p.constraint = some c := rfl
  have mem : ∀ x : ℝ, c.isCorrect x = true ↔ 0 < x ∧ x < 1e-9 := fun x => isCorrect_open 0 1e-9 2e-9 x
  have rej : ∀ x : ℝ, x ≠ 5e-10 → ¬ (0 < x ∧ x < 1e-9) → p.setValueBase x = .error .constraint := by
    intro x hx hn
    rw [setValue_raises_iff]
    refine ⟨rfl, ?_, c, hc, ?_⟩
    · show (0 : ℝ) / 2 < |x - 5e-10|
      simp only [zero_div, abs_pos, ne_eq, sub_eq_zero]; exact hx
    · rw [← isCorrect_iff, mem]; exact hn
  refine ⟨?_, ?_, ?_, ?_⟩
  · intro c' hc'; cases hc'
    rw [← isCorrect_iff, mem]
    show (0 : ℝ) < 5e-10 ∧ (5e-10 : ℝ) < 1e-9
    constructor <;> norm_num
  · show ((0 : ℝ) : EReal) + ((1e-9 : ℝ) : EReal) ≤ ((1e-9 : ℝ) : EReal)
    rw [← EReal.coe_add, EReal.coe_le_coe_iff]; norm_num
  · rw [Bool.eq_false_iff, Ne, wide_iff]
    rintro ⟨_, h2⟩
    have h3 : ((0 : ℝ) : EReal) + (((2e-9 : ℝ) + Constants.TINY : ℝ) : EReal) < ((1e-9 : ℝ) : EReal) := h2
    rw [← EReal.coe_add, EReal.coe_lt_coe_iff] at h3
    norm_num at h3; linarith
  · have h5 : c.isCorrectB (.fin (-5)) = false := by
      have : c.isCorrect (-5) = false := by
        rw [Bool.eq_false_iff, Ne, mem]; intro h; linarith [h.1]
      exact this
    have hg : c.geV (.fin (-5)) = true := by
      rw [geV_iff]
      show (((-5 : ℝ)) : EReal) ≤ ((0 : ℝ) : EReal)
      rw [EReal.coe_le_coe_iff]; norm_num
    have hlim : c.getAcceptedLimit (.fin (-5)) = .fin (0 + 2e-9) := by
      unfold getAcceptedLimit
      rw [h5, hg]
      simp [strictLowerBound, c, Interval.make, Bound.addS]
    have e1 := rej (-5) (by norm_num) (by intro h; linarith [h.1])
    have e2 := rej (0 + 2e-9) (by norm_num) (by intro h; norm_num at h)
    have e3 := rej (0 + 2e-9 + Constants.TINY) (by intro h; linarith) (by intro h; linarith [h.2])
    have e4 := rej (0 + 2e-9 - Constants.TINY) (by intro h; linarith) (by intro h; linarith [h.2])
    simp only [setValueAuto, e1, hc, hlim, e2, e3]
    exact e4

/-! ## non-vacuity of the hypotheses -/

/-- `]0,1[` with the default precision is wide -/
example : (Interval.make (.fin 0) (.fin 1) false false Constants.TINY : Interval ℝ).wide = true := by
  rw [wide_iff]
  simp only [Interval.make, Constants.TINY, ScalarReal.ofRat_eq, Bound.toEReal_fin]
  refine ⟨by positivity, ?_⟩
  rw [← EReal.coe_add, EReal.coe_lt_coe_iff]; norm_num

/-- a parameter satisfying every hypothesis of `auto_nearest_partial` and of `auto_lands` (precision 0), with a rejected request -/
example : ∃ (p : Param ℝ) (c : Interval ℝ), p.constraint = some c ∧ 0 ≤ p.precision ∧ c.wide = true ∧ p.Inv ∧
    c.isCorrect 7 = false := by
  refine ⟨⟨1, 0, some (Interval.make (.fin 0) (.fin 2) true true 0), true⟩, _, rfl, le_refl _, ?_, ?_, ?_⟩
  · rw [wide_iff]
    simp only [Interval.make, Constants.TINY, ScalarReal.ofRat_eq, Bound.toEReal_fin]
    refine ⟨le_refl _, ?_⟩
    rw [← EReal.coe_add, EReal.coe_lt_coe_iff]; norm_num
  · intro c hc; cases hc
    rw [mem_denote]; simp [Interval.make]
    exact_mod_cast (by norm_num : (1 : ℝ) ≤ 2)
  · rw [Bool.eq_false_iff, Ne, isCorrect_closed]; norm_num

/-- a history in which a call raises -/
example : (POp.step (POp.step PStore.empty (.construct 0 false (1 : ℝ) none 0)).1 (.setConstraint 0 (some (Interval.make (.fin 2) (.fin 3) true true 0)))).2
    = .raised .constraint := by
  simp [POp.step, Param.construct, Param.accepts, Param.setPrecision, PStore.set, Param.setConstraint,
    Interval.isCorrect, Interval.isCorrectB, Interval.make, Bound.geb, Bound.leb]

/-! ## the code as found (before the repairs listed in findings/C01.json): each full statement
above was false of it -/

/-- `isEmpty_iff` failed: `[1,1[` denotes the empty set but was not reported empty -/
theorem legacy_isEmpty_witness :
    let c : Interval ℝ := Interval.make (.fin 1) (.fin 1) true false 0
    Interval.Legacy.isEmpty c = false ∧ c.denote = ∅ := by
  refine ⟨by simp [Interval.Legacy.isEmpty, Interval.make, Bound.gtb, Bound.ltb], ?_⟩
  simp only [Interval.make]
  rw [denote_co]
  exact Set.Ico_self _

/-- `isEmpty_iff_real` still failed after that repair: `[+inf,+inf]` and `[-inf,-inf]` accept no
real number, yet were not reported empty (second repair of `isEmpty`) -/
theorem legacy_isEmpty_infinite_witness :
    let c : Interval ℝ := Interval.make .posInf .posInf true true 0
    let d : Interval ℝ := Interval.make .negInf .negInf true true 0
    Interval.Legacy.isEmpty1 c = false ∧ (∀ v : ℝ, c.isCorrect v = false) ∧
    Interval.Legacy.isEmpty1 d = false ∧ (∀ v : ℝ, d.isCorrect v = false) := by
  refine ⟨by simp [Interval.make, Interval.Legacy.isEmpty1, Bound.gtb, Bound.ltb, Bound.eqb], ?_,
    by simp [Interval.make, Interval.Legacy.isEmpty1, Bound.gtb, Bound.ltb, Bound.eqb], ?_⟩
  · intro v; simp [Interval.make, isCorrect, isCorrectB, Bound.geb, Bound.leb]
  · intro v; simp [Interval.make, isCorrect, isCorrectB, Bound.geb, Bound.leb]

/-- `inter_iff` failed: `]0,1] & [0,1]` accepted 0, which the left operand rejects
(both for `operator&` and `operator&=`) -/
theorem legacy_inter_witness :
    let a : Interval ℝ := Interval.make (.fin 0) (.fin 1) false true 0
    let b : Interval ℝ := Interval.make (.fin 0) (.fin 1) true true 0
    (Interval.Legacy.inter a b).isCorrect 0 = true ∧ (Interval.Legacy.interAssign a b).isCorrect 0 = true ∧
      a.isCorrect 0 = false := by
  simp [Interval.Legacy.inter, Interval.Legacy.interAssign, Interval.make, Interval.isCorrect, Interval.isCorrectB,
    Bound.geb, Bound.gtb, Bound.leb, Bound.ltb]

/-- `param_inv` failed at construction: `Parameter("x", 0, ]0,+inf[)` was accepted although the
constraint rejects 0; the repaired constructor raises -/
theorem legacy_construct_witness :
    let c : Interval ℝ := Interval.halfLine true (.fin 0) false 0
    (∃ p, Param.Legacy.construct (0 : ℝ) (some c) 0 false = .ok p ∧ p.invOk = false) ∧
      Param.construct (0 : ℝ) (some c) 0 false = .error .constraint := by
  constructor
  · refine ⟨⟨0, 0, some (Interval.halfLine true (.fin 0) false 0), false⟩, ?_, ?_⟩
    · simp [Param.Legacy.construct, Param.setValueBase, Param.setPrecision]
    · simp [Param.invOk, Param.accepts, Interval.halfLine, Interval.isCorrect, Interval.isCorrectB, Bound.gtb, Bound.ltb]
  · simp [Param.construct, Param.accepts, Interval.halfLine, Interval.isCorrect, Interval.isCorrectB, Bound.gtb, Bound.ltb]

end Bpp.C01
