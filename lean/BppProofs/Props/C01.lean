import BppProofs.Lemmas.Interval
/-!
# C01 — a constrained parameter never holds a value its constraint rejects
(src/Bpp/Numeric/Constraints.h, Parameter.{h,cpp}, AutoParameter.cpp)

Property theorems only; helper lemmas are in `Lemmas/Interval.lean`, `Lemmas/Param.lean`.
The model (`BppModel/Interval.lean`, `BppModel/Param.lean`) is generic over `Scalar`; the
theorems are about its interpretation at `ℝ`.  A C++ `double` that may be infinite is a
`Bound ℝ` (extended real, `Bound.toEReal`); NaN is not modelled.  `Interval.denote c` is the set
of extended reals between the bounds of `c`, an end point belonging to it iff its flag says so.

The theorems are about the *repaired* code; `legacy_*_witness` show that each statement was
false of the code as found (the defects are listed in findings/C01.json).
-/
namespace Bpp.C01
open Bpp Bpp.Interval

/-! ## IntervalConstraint: membership -/

/-- `isCorrect` accepts exactly the doubles (infinite ones included) in the denoted set -/
theorem isCorrectB_iff (c : Interval ℝ) (v : Bound ℝ) : c.isCorrectB v = true ↔ v.toEReal ∈ c.denote :=
  isCorrectB_iff_mem c v

/-- `isCorrect` accepts exactly the reals between the bounds, honouring open/closed ends
(all bound / flag combinations, infinite bounds included) -/
theorem isCorrect_iff (c : Interval ℝ) (v : ℝ) : c.isCorrect v = true ↔ (v : EReal) ∈ c.denote :=
  isCorrectB_iff_mem c (.fin v)

/-- the same, spelled out without sets -/
theorem isCorrect_iff_bounds (c : Interval ℝ) (v : ℝ) :
    c.isCorrect v = true ↔
      (if c.inclLo then c.lo.toEReal ≤ v else c.lo.toEReal < v) ∧
      (if c.inclHi then (v : EReal) ≤ c.hi.toEReal else (v : EReal) < c.hi.toEReal) := by
  rw [isCorrect_iff, mem_denote]

/-- the four shapes -/
theorem isCorrect_closed (a b p v : ℝ) : (Interval.make (.fin a) (.fin b) true true p).isCorrect v = true ↔ a ≤ v ∧ v ≤ b := by
  rw [isCorrect_iff_bounds]; simp [Interval.make]
theorem isCorrect_open (a b p v : ℝ) : (Interval.make (.fin a) (.fin b) false false p).isCorrect v = true ↔ a < v ∧ v < b := by
  rw [isCorrect_iff_bounds]; simp [Interval.make]
theorem isCorrect_halfLine_pos (a p v : ℝ) (incl : Bool) :
    (Interval.halfLine true (.fin a) incl p).isCorrect v = true ↔ (if incl then a ≤ v else a < v) := by
  rw [isCorrect_iff_bounds]; cases incl <;> simp [Interval.halfLine, EReal.coe_lt_top]
theorem isCorrect_halfLine_neg (b p v : ℝ) (incl : Bool) :
    (Interval.halfLine false (.fin b) incl p).isCorrect v = true ↔ (if incl then v ≤ b else v < b) := by
  rw [isCorrect_iff_bounds]; cases incl <;> simp [Interval.halfLine, EReal.bot_lt_coe]
/-- the default interval accepts every real -/
theorem isCorrect_default (v : ℝ) : (Interval.default : Interval ℝ).isCorrect v = true := by
  rw [isCorrect_iff_bounds]; simp [Interval.default]

/-- the driver's independent formulation of membership is the same set -/
theorem memSpec_iff (c : Interval ℝ) (v : Bound ℝ) : c.memSpec v = true ↔ v.toEReal ∈ c.denote :=
  memSpec_iff_mem c v

/-- `includes(min, max)`: both ends lie inside, hence (for `min ≤ max`) the whole segment -/
theorem includes_iff (c : Interval ℝ) (mn mx : Bound ℝ) (h : mn.toEReal ≤ mx.toEReal) :
    c.includes mn mx = true ↔ Set.Icc mn.toEReal mx.toEReal ⊆ c.denote := by
  have key : c.includes mn mx = true ↔
      (if c.inclLo then c.lo.toEReal ≤ mn.toEReal else c.lo.toEReal < mn.toEReal) ∧
      (if c.inclHi then mx.toEReal ≤ c.hi.toEReal else mx.toEReal < c.hi.toEReal) := by
    unfold includes
    cases c.inclLo <;> cases c.inclHi <;>
      simp [Bound.geb_iff, Bound.gtb_iff, Bound.leb_iff, Bound.ltb_iff]
  rw [key]
  constructor
  · rintro ⟨h1, h2⟩ x ⟨hx1, hx2⟩
    rw [mem_denote]
    refine ⟨?_, ?_⟩
    · split_ifs at h1 ⊢ <;> order
    · split_ifs at h2 ⊢ <;> order
  · intro hs
    have a := (mem_denote c _).1 (hs ⟨le_refl _, h⟩)
    have b := (mem_denote c _).1 (hs ⟨h, le_refl _⟩)
    exact ⟨a.1, b.2⟩

/-! ## intersection -/

/-- the intersection denotes the intersection: it accepts exactly the values both accept -/
theorem inter_denote (c d : Interval ℝ) : (c.inter d).denote = c.denote ∩ d.denote := by
  ext x
  rw [Set.mem_inter_iff, mem_denote, mem_denote, mem_denote]
  exact Iff.trans (and_congr (interLo_spec c d x) (interHi_spec c d x)) (by tauto)

theorem inter_iff (c d : Interval ℝ) (v : ℝ) :
    (c.inter d).isCorrect v = true ↔ (c.isCorrect v = true ∧ d.isCorrect v = true) := by
  simp only [isCorrect_iff, inter_denote, Set.mem_inter_iff]

theorem inter_iff_ext (c d : Interval ℝ) (v : Bound ℝ) :
    (c.inter d).isCorrectB v = true ↔ (c.isCorrectB v = true ∧ d.isCorrectB v = true) := by
  simp only [isCorrectB_iff, inter_denote, Set.mem_inter_iff]

/-- `operator&=` computes the same interval as `operator&` -/
theorem interAssign_eq (c d : Interval ℝ) : c.interAssign d = c.inter d := interAssign_eq_inter c d

theorem interAssign_iff (c d : Interval ℝ) (v : ℝ) :
    (c.interAssign d).isCorrect v = true ↔ (c.isCorrect v = true ∧ d.isCorrect v = true) := by
  rw [interAssign_eq, inter_iff]

/-- the order of the operands does not matter for what is accepted -/
theorem inter_comm_denote (c d : Interval ℝ) : (c.inter d).denote = (d.inter c).denote := by
  rw [inter_denote, inter_denote, Set.inter_comm]

/-- the precision of the intersection is the larger precision -/
theorem inter_prec (c d : Interval ℝ) : (c.inter d).prec = max c.prec d.prec := by
  show (if Scalar.gtb c.prec d.prec then c.prec else d.prec) = _
  by_cases h : d.prec < c.prec
  · simp [h, max_eq_left h.le]
  · simp [h, max_eq_right (not_lt.1 h)]

/-! ## emptiness -/

/-- `isEmpty` is reported iff the denoted set is empty -/
theorem isEmpty_iff (c : Interval ℝ) : c.isEmpty = true ↔ c.denote = ∅ := by
  rw [Set.eq_empty_iff_forall_notMem]
  constructor
  · intro hE x hx
    rw [mem_denote] at hx
    obtain ⟨h1, h2⟩ := hx
    rcases (isEmpty_iff_cond c).1 hE with h | ⟨h, a | b⟩
    · split_ifs at h1 h2 <;> order
    · simp only [a, Bool.false_eq_true, if_false] at h1
      split_ifs at h2 <;> order
    · simp only [b, Bool.false_eq_true, if_false] at h2
      split_ifs at h1 <;> order
  · intro hall
    by_contra hne
    obtain ⟨h1, h2⟩ := not_isEmpty_cond c hne
    rcases lt_or_eq_of_le h1 with hlt | heq
    · obtain ⟨x, hx1, hx2⟩ := exists_between hlt
      apply hall x
      rw [mem_denote]
      refine ⟨?_, ?_⟩ <;> split_ifs <;> order
    · obtain ⟨a, b⟩ := h2 heq
      apply hall c.lo.toEReal
      rw [mem_denote]
      simp only [a, b, if_true]
      exact ⟨le_refl _, heq.le⟩

/-- … iff no double (infinite ones included) is accepted -/
theorem isEmpty_iff_forall (c : Interval ℝ) : c.isEmpty = true ↔ ∀ v : Bound ℝ, c.isCorrectB v = false := by
  rw [isEmpty_iff, Set.eq_empty_iff_forall_notMem]
  constructor
  · intro h v
    rw [Bool.eq_false_iff, Ne, isCorrectB_iff]; exact h _
  · intro h x
    obtain ⟨b, rfl⟩ := Bound.toEReal_surjective x
    rw [← isCorrectB_iff]; simp [h b]

/-- Emptiness over the *reals*.  Full statement wanted: `c.isEmpty ↔ ∀ v : ℝ, ¬ c.isCorrect v`.
It is false for `[+inf,+inf]` and `[-inf,-inf]` (`isEmpty_real_witness`), which accept the infinite
double only; it holds under the guard `proper` (lower bound not `+inf`, upper bound not `-inf`). -/
theorem isEmpty_iff_real_partial (c : Interval ℝ) (hp : c.proper = true) :
    c.isEmpty = true ↔ ∀ v : ℝ, c.isCorrect v = false := by
  constructor
  · intro h v; exact (isEmpty_iff_forall c).1 h (.fin v)
  · intro hall
    by_contra hne
    have hlo : c.lo.toEReal ≠ ⊤ := by
      intro h; unfold proper at hp
      cases hl : c.lo <;> simp_all
    have hhi : c.hi.toEReal ≠ ⊥ := by
      intro h; unfold proper at hp
      cases hl : c.hi <;> simp_all
    obtain ⟨h1, h2⟩ := not_isEmpty_cond c hne
    have fin_acc : ∀ v : ℝ, ¬ ((v : EReal) ∈ c.denote) := by
      intro v hv; have := hall v; rw [Bool.eq_false_iff, Ne, isCorrect_iff] at this; exact this hv
    rcases lt_or_eq_of_le h1 with hlt | heq
    · obtain ⟨x, hx1, hx2⟩ := EReal.lt_iff_exists_real_btwn.1 hlt
      apply fin_acc x
      rw [mem_denote]
      refine ⟨?_, ?_⟩ <;> split_ifs <;> order
    · obtain ⟨a, b⟩ := h2 heq
      -- the common bound is finite
      cases hl : c.lo with
      | negInf => rw [hl] at heq; exact hhi heq.symm
      | posInf => rw [hl] at hlo; exact hlo rfl
      | fin x =>
        apply fin_acc x
        rw [mem_denote]
        simp only [a, b, if_true, hl, Bound.toEReal_fin] at *
        exact ⟨le_refl _, heq.le⟩

/-- the guard of `isEmpty_iff_real_partial` is needed: `[+inf,+inf]` accepts no real, yet is not
reported empty -/
theorem isEmpty_real_witness :
    let c : Interval ℝ := Interval.make .posInf .posInf true true 0
    c.isEmpty = false ∧ ∀ v : ℝ, c.isCorrect v = false := by
  refine ⟨by simp [Interval.make, isEmpty, Bound.gtb, Bound.ltb, Bound.eqb], ?_⟩
  intro v
  simp [Interval.make, isCorrect, isCorrectB, Bound.geb, Bound.leb]

end Bpp.C01
