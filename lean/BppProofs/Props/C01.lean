import BppModel.Param
/-!
# C01 — a constrained parameter never holds a value its constraint rejects
(placeholder for the first end-to-end slice; the theorems follow)
-/
namespace Bpp.C01
open Bpp

/-- copying keeps every data member -/
theorem copy_eq {α : Type} (p : Param α) : p.copy = p := rfl

end Bpp.C01
